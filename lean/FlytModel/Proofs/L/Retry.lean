import FlytModel.Proofs.L.LeafFacts
import FlytModel.Proofs.L.BatchItems
/-!
# Retry budget and fallback, for `Run` and for every batch item (helper lemmas for C02)

Everything is derived from `PhaseSpec` (Proofs/Attempts.lean), once through `LeafRun.toPhase` for
`runLeaf` and once through `runItem_spec` for `runItem`.
-/
namespace Flyt.Proofs.Retry
open Flyt Flyt.Spec Flyt.Proofs.Attempts Flyt.Proofs.Leaf Flyt.Proofs.Item

/-! ### `Run` on a leaf -/
section leaf
variable {kind : CtxKind} {n v sid : Nat} {cfg : LeafCfg} {scr : LeafScript} {evs : List Ev} {out : Outcome}

theorem postEnd_err {pv : Val} {res : Except ErrRoot Val} {posts : List Ev} {er : ErrRoot}
    (h : PostEnd n v sid cfg scr pv res posts out) (hr : res = .error er) : out = .err er ∧ posts = [] := by
  subst hr; cases h; exact ⟨rfl, rfl⟩

theorem leaf_count_le (h : LeafRun kind n v sid cfg scr evs out) :
    execCount evs ≤ cfg.effBudget ∧ ∀ k, FirstOk scr.exec k → execCount evs ≤ min (k + 1) cfg.effBudget := by
  by_cases hd : ∃ pv, PrepDone cfg scr pv
  · obtain ⟨pv, hd⟩ := hd
    obtain ⟨loop, fbs, m, res, spec, _, hm, _, _⟩ := h.toPhase hd
    rw [hm]
    exact ⟨spec.le, fun k hk => spec.count_le hk⟩
  · rw [(h.stopped hd).1]
    exact ⟨Nat.zero_le _, fun _ _ => Nat.zero_le _⟩

theorem leaf_count_exact (h : LeafRun kind n v sid cfg scr evs out) (hnc : ∀ kd, out ≠ .err (.ctx kd))
    {pv : Val} (hd : PrepDone cfg scr pv) (hS : cfg.execS ≠ .absent) :
    (∀ k, FirstOk scr.exec k → execCount evs = min (k + 1) cfg.effBudget) ∧
    (AllFail scr.exec cfg.effBudget → execCount evs = cfg.effBudget) := by
  obtain ⟨loop, fbs, m, res, spec, _, hm, _, hpost⟩ := h.toPhase hd
  have hncr : ∀ kd, res ≠ .error (.ctx kd) := fun kd hr => hnc kd (postEnd_err hpost hr).1
  rw [hm]
  exact ⟨fun k hk => spec.count_firstOk hS hncr hk, fun hall => spec.count_allFail hS hncr hall⟩

theorem leaf_numbered (h : LeafRun kind n v sid cfg scr evs out) {pv : Val} (hd : PrepDone cfg scr pv) :
    evs.filter isExecEv = (List.range (execCount evs)).map (fun k => Ev.exec n v k (execArg cfg.execS pv)) := by
  obtain ⟨loop, fbs, m, res, spec, hE, hm, _, _⟩ := h.toPhase hd
  rw [hm, hE]

theorem leaf_fb_only_if (h : LeafRun kind n v sid cfg scr evs out) :
    fbCalls evs = [] ∨
    (cfg.fb = .custom ∧ execCount evs = cfg.effBudget ∧ AllFail scr.exec cfg.effBudget ∧
      ∃ j e pv, cfg.effBudget = j + 1 ∧ (scr.exec j).res = .error e ∧ PrepDone cfg scr pv ∧
        fbCalls evs = [.fb n v pv (.user e)]) := by
  by_cases hd : ∃ pv, PrepDone cfg scr pv
  · obtain ⟨pv, hd⟩ := hd
    obtain ⟨loop, fbs, m, res, spec, _, hm, hf, _⟩ := h.toPhase hd
    rw [hm, hf]
    rcases spec.fb_only_if with h0 | ⟨h1, h2, h3, j, e, h4, h5, h6⟩
    · exact Or.inl h0
    · exact Or.inr ⟨h1, h2, h3, j, e, pv, h4, h5, hd, h6⟩
  · exact Or.inl (h.stopped hd).2.1

theorem leaf_fb_iff (h : LeafRun kind n v sid cfg scr evs out) (hnc : ∀ kd, out ≠ .err (.ctx kd))
    {pv : Val} (hd : PrepDone cfg scr pv) (hS : cfg.execS ≠ .absent) (hb : 1 ≤ cfg.effBudget) :
    fbCalls evs ≠ [] ↔ (cfg.fb = .custom ∧ AllFail scr.exec cfg.effBudget) := by
  constructor
  · intro hne
    rcases leaf_fb_only_if h with h0 | ⟨h1, _, h3, _⟩
    · exact absurd h0 hne
    · exact ⟨h1, h3⟩
  · rintro ⟨hc, hall⟩
    obtain ⟨loop, fbs, m, res, spec, _, hm, hf, hpost⟩ := h.toPhase hd
    have hncr : ∀ kd, res ≠ .error (.ctx kd) := fun kd hr => hnc kd (postEnd_err hpost hr).1
    rw [hf]
    exact spec.fb_if hS hncr hc hb hall

/-- the value handed to post / the error the run returns, by the three ways the retries can go -/
theorem leaf_result (h : LeafRun kind n v sid cfg scr evs out) (hnc : ∀ kd, out ≠ .err (.ctx kd))
    {pv : Val} (hd : PrepDone cfg scr pv) (hS : cfg.execS ≠ .absent) (hb : 1 ≤ cfg.effBudget) :
    ∃ res, PostEnd n v sid cfg scr pv res (postCalls evs) out ∧
      (∀ k y, FirstOk scr.exec k → k < cfg.effBudget → (scr.exec k).res = .ok y →
          res = .ok (execRet cfg.execS y) ∧ fbCalls evs = []) ∧
      (AllFail scr.exec cfg.effBudget → cfg.fb ≠ .custom →
          ∃ e, (scr.exec (cfg.effBudget - 1)).res = .error e ∧ res = .error (.user e) ∧ fbCalls evs = [] ∧
            out = .err (.user e)) ∧
      (AllFail scr.exec cfg.effBudget → cfg.fb = .custom →
          ∃ e, (scr.exec (cfg.effBudget - 1)).res = .error e ∧ fbCalls evs = [.fb n v pv (.user e)] ∧
            res = (match scr.fb.res with | .ok x => .ok x | .error e' => .error (.user e'))) := by
  obtain ⟨loop, fbs, m, res, spec, _, hm, hf, hpost⟩ := h.toPhase hd
  have hncr : ∀ kd, res ≠ .error (.ctx kd) := fun kd hr => hnc kd (postEnd_err hpost hr).1
  refine ⟨res, hpost, ?_, ?_, ?_⟩
  · intro k y hk hkb hy
    rw [hf]
    exact spec.result_firstOk hS hncr hk hkb hy
  · intro hall hfb
    obtain ⟨e, h1, h2, h3⟩ := spec.result_allFail_nofb hS hncr hall hb hfb
    exact ⟨e, h1, h2, by rw [hf]; exact h3, (postEnd_err hpost h2).1⟩
  · intro hall hfb
    obtain ⟨e, h1, h2, h3⟩ := spec.result_allFail_fb hS hncr hall hb hfb
    exact ⟨e, h1, by rw [hf]; exact h2, h3⟩

theorem leaf_single_attempt (h : LeafRun kind n v sid cfg scr evs out) (hr : cfg.effBudget = 1)
    {pv : Val} (hd : PrepDone cfg scr pv) (hS : cfg.execS ≠ .absent) : execCount evs = 1 := by
  obtain ⟨loop, fbs, m, res, spec, _, hm, _, _⟩ := h.toPhase hd
  have h1 := spec.le
  have h2 := spec.count_pos hS (by omega)
  omega

end leaf

/-! ### `runExecWithRetries` on one batch item -/
section item
variable {kind : CtxKind} {n v : Nat} {cfg : BatchCfg} {i : Nat} {item : Result} {scr : ItemScript}

theorem item_count_le (c : Ctx) :
    bexecCount i (runItem kind n v cfg i item scr c).1 ≤ cfg.budget ∧
    ∀ k, FirstOk scr.exec k → bexecCount i (runItem kind n v cfg i item scr c).1 ≤ min (k + 1) cfg.budget := by
  rw [runItem_eq]
  cases c with
  | done kd => simp [itemPhase_done, bexecCount]
  | live =>
    obtain ⟨loop, fbs, m, spec⟩ := runItem_spec kind n v cfg i item scr
    rw [(phase_filters spec).2.1]
    exact ⟨spec.le, fun k hk => spec.count_le hk⟩

theorem item_count_exact (hnc : Item.NoCancel cfg scr) (hS : cfg.execS ≠ .absent) :
    (∀ k, FirstOk scr.exec k → bexecCount i (runItem kind n v cfg i item scr .live).1 = min (k + 1) cfg.budget) ∧
    (AllFail scr.exec cfg.budget → bexecCount i (runItem kind n v cfg i item scr .live).1 = cfg.budget) := by
  rw [runItem_eq]
  obtain ⟨loop, fbs, m, spec⟩ := runItem_spec kind n v cfg i item scr
  have hncr := itemPhase_noCancel kind n v cfg i item scr hnc
  rw [(phase_filters spec).2.1]
  exact ⟨fun k hk => spec.count_firstOk hS hncr hk, fun hall => spec.count_allFail hS hncr hall⟩

theorem item_numbered :
    (runItem kind n v cfg i item scr .live).1.filter (isBexecOf i) =
      (List.range (bexecCount i (runItem kind n v cfg i item scr .live).1)).map
        (fun k => Ev.bexec n v i k (execArg cfg.execS item.box)) := by
  rw [runItem_eq]
  obtain ⟨loop, fbs, m, spec⟩ := runItem_spec kind n v cfg i item scr
  rw [(phase_filters spec).2.1, (phase_filters spec).1]

theorem item_fb_only_if (c : Ctx) :
    bfbCalls i (runItem kind n v cfg i item scr c).1 = [] ∨
    (cfg.fb = .custom ∧ bexecCount i (runItem kind n v cfg i item scr c).1 = cfg.budget ∧ AllFail scr.exec cfg.budget ∧
      ∃ j e, cfg.budget = j + 1 ∧ (scr.exec j).res = .error e ∧
        bfbCalls i (runItem kind n v cfg i item scr c).1 = [.bfb n v i item.box (.user e)]) := by
  rw [runItem_eq]
  cases c with
  | done kd => simp [itemPhase_done, bfbCalls]
  | live =>
    obtain ⟨loop, fbs, m, spec⟩ := runItem_spec kind n v cfg i item scr
    rw [(phase_filters spec).2.1, (phase_filters spec).2.2.1]
    rcases spec.fb_only_if with h0 | ⟨h1, h2, h3, j, e, h4, h5, h6⟩
    · exact Or.inl h0
    · exact Or.inr ⟨h1, h2, h3, j, e, h4, h5, h6⟩

theorem item_fb_iff (hnc : Item.NoCancel cfg scr) (hS : cfg.execS ≠ .absent) (hb : 1 ≤ cfg.budget) :
    bfbCalls i (runItem kind n v cfg i item scr .live).1 ≠ [] ↔ (cfg.fb = .custom ∧ AllFail scr.exec cfg.budget) := by
  constructor
  · intro hne
    rcases item_fb_only_if (kind := kind) (n := n) (v := v) (cfg := cfg) (i := i) (item := item) (scr := scr) .live
      with h0 | ⟨h1, _, h3, _⟩
    · exact absurd h0 hne
    · exact ⟨h1, h3⟩
  · rintro ⟨hc, hall⟩
    rw [runItem_eq]
    obtain ⟨loop, fbs, m, spec⟩ := runItem_spec kind n v cfg i item scr
    have hncr := itemPhase_noCancel kind n v cfg i item scr hnc
    rw [(phase_filters spec).2.2.1]
    exact spec.fb_if hS hncr hc hb hall

/-- what the item's slot gets / the error `runExecWithRetries` returns -/
theorem item_result (hnc : Item.NoCancel cfg scr) (hS : cfg.execS ≠ .absent) (hb : 1 ≤ cfg.budget) :
    (∀ k y, FirstOk scr.exec k → k < cfg.budget → (scr.exec k).res = .ok y →
        (runItem kind n v cfg i item scr .live).2.2 = .slot (slotOfVal (execRet cfg.execS y)) ∧
        bfbCalls i (runItem kind n v cfg i item scr .live).1 = []) ∧
    (AllFail scr.exec cfg.budget → cfg.fb ≠ .custom →
        ∃ e, (scr.exec (cfg.budget - 1)).res = .error e ∧
          (runItem kind n v cfg i item scr .live).2.2 = .error (.user e) ∧
          bfbCalls i (runItem kind n v cfg i item scr .live).1 = []) ∧
    (AllFail scr.exec cfg.budget → cfg.fb = .custom →
        ∃ e, (scr.exec (cfg.budget - 1)).res = .error e ∧
          bfbCalls i (runItem kind n v cfg i item scr .live).1 = [.bfb n v i item.box (.user e)] ∧
          (runItem kind n v cfg i item scr .live).2.2 =
            (match scr.fb.res with | .ok x => .slot (slotOfVal x) | .error e' => .error (.user e'))) := by
  rw [runItem_eq]
  obtain ⟨loop, fbs, m, spec⟩ := runItem_spec kind n v cfg i item scr
  have hncr := itemPhase_noCancel kind n v cfg i item scr hnc
  rw [(phase_filters spec).2.2.1]
  refine ⟨?_, ?_, ?_⟩
  · intro k y hk hkb hy
    obtain ⟨h1, h2⟩ := spec.result_firstOk hS hncr hk hkb hy
    exact ⟨by simp only [h1, itemResOf], h2⟩
  · intro hall hfb
    obtain ⟨e, h1, h2, h3⟩ := spec.result_allFail_nofb hS hncr hall hb hfb
    exact ⟨e, h1, by simp only [h2, itemResOf], h3⟩
  · intro hall hfb
    obtain ⟨e, h1, h2, h3⟩ := spec.result_allFail_fb hS hncr hall hb hfb
    refine ⟨e, h1, h2, ?_⟩
    simp only [h3]
    cases scr.fb.res <;> rfl

end item

/-! ### every item of a whole batch run -/
section batch
open Flyt.Proofs.BatchItems

theorem count_filter (i : Nat) (evs : List Ev) :
    bexecCount i (evs.filter (isItemEv i)) = bexecCount i evs ∧ bfbCalls i (evs.filter (isItemEv i)) = bfbCalls i evs := by
  unfold bexecCount bfbCalls
  rw [filter_of_le (isBexecOf_le i), filter_of_le (isBfbOf_le i)]
  exact ⟨rfl, rfl⟩

end batch

end Flyt.Proofs.Retry
