import FlytModel.Proofs.L.Item
import FlytModel.Proofs.Wait
/-!
# Every item of a batch run has its own retry loop (helper lemmas for C02 / C17 on batches)

`Proofs/Wait.lean` shows that all item executors of `runBatch` (`itemsSeq`, `itemsSerialPool`) produce
`ItemsRun` lists: item after item, each either skipped (no events) or processed by `runItem`.
Here: the events carrying item index `i` in the whole trace of a batch run are either none (the item
was never executed) or exactly the events of `runItem` on that item with its own script — so every
counting statement about `runItem` holds per item, with no counter shared between items.
-/
namespace Flyt.Proofs.BatchItems
open Flyt Flyt.Spec Flyt.Proofs.Attempts Flyt.Proofs.Item
open Flyt.Proofs.Wait (ItemsRun runBatch_form)

variable {kind : CtxKind} {n v : Nat} {cfg : BatchCfg} {scr : BatchScript}

/-- the events of item `i` inside an executor's events: none, or `runItem`'s on the `i`-th item -/
theorem itemsRun_item {i0 : Nat} {items : List Result} {evs : List Ev} {sl : List Result}
    (h : ItemsRun kind n v cfg scr i0 items evs sl) (i : Nat) (hi : i0 ≤ i) :
    evs.filter (isItemEv i) = [] ∨
    ∃ it ctx, items[i - i0]? = some it ∧
      evs.filter (isItemEv i) = (runItem kind n v cfg i it (scr.item i) ctx).1 := by
  induction h with
  | nil i0 => exact Or.inl rfl
  | @skip i0 it rest evs sl s h' ih =>
    by_cases hii : i = i0
    · subst hii
      left
      -- events of the rest belong to items > i
      rw [List.filter_eq_nil_iff]
      intro e he
      obtain ⟨j, hj, hev⟩ := Flyt.Proofs.Wait.itemsRun_events h' e he
      rcases hev with ⟨k, a, rfl⟩ | ⟨k, d, f, rfl⟩ | ⟨a, b, rfl⟩ <;> simp [isItemEv] <;> omega
    · rcases ih (by omega) with h0 | ⟨it', ctx, hit, hev⟩
      · exact Or.inl h0
      · right
        refine ⟨it', ctx, ?_, hev⟩
        have hidx : i - i0 = (i - (i0 + 1)) + 1 := by omega
        rw [hidx, List.getElem?_cons_succ]; exact hit
  | @run i0 it rest evs sl ctx h' ih =>
    by_cases hii : i = i0
    · subst hii
      right
      refine ⟨it, ctx, by simp, ?_⟩
      rw [List.filter_append, runItem_events_self]
      have : evs.filter (isItemEv i) = [] := by
        rw [List.filter_eq_nil_iff]
        intro e he
        obtain ⟨j, hj, hev⟩ := Flyt.Proofs.Wait.itemsRun_events h' e he
        rcases hev with ⟨k, a, rfl⟩ | ⟨k, d, f, rfl⟩ | ⟨a, b, rfl⟩ <;> simp [isItemEv] <;> omega
      rw [this, List.append_nil]
    · have hother : (runItem kind n v cfg i0 it (scr.item i0) ctx).1.filter (isItemEv i) = [] :=
        runItem_events_other ctx hii
      rw [List.filter_append, hother, List.nil_append]
      rcases ih (by omega) with h0 | ⟨it', ctx', hit, hev⟩
      · exact Or.inl h0
      · right
        refine ⟨it', ctx', ?_, hev⟩
        have hidx : i - i0 = (i - (i0 + 1)) + 1 := by omega
        rw [hidx, List.getElem?_cons_succ]; exact hit

/-- the trace of a batch run: prep event, the executor's events over exactly the items prep produced
    (normalised to `[]Result`), at most one post event -/
theorem runBatch_form' (kind : CtxKind) (n v sid : Nat) (cfg : BatchCfg) (scr : BatchScript) (ctx : Ctx) :
    (∃ e, scr.prep.res = .error e ∧ (runBatch kind n v sid cfg scr ctx).1 = [.bprep n v sid]) ∨
    (∃ l iev slots post, scr.prep.res = .ok l ∧
      ItemsRun kind n v cfg scr 0 (normItems cfg.shape l) iev slots ∧
      (runBatch kind n v sid cfg scr ctx).1 = [.bprep n v sid] ++ iev ++ post ∧
      (post = [] ∨ post = [.bpost n v sid ((normItems cfg.shape l).map Result.box) (slots.map Result.box)])) := by
  unfold runBatch
  cases hp : scr.prep.res with
  | error e => exact Or.inl ⟨e, rfl, by simp⟩
  | ok l =>
    right
    simp only []
    by_cases hemp : (normItems cfg.shape l).isEmpty = true
    · have hnil : normItems cfg.shape l = [] := by simpa using hemp
      simp only [hemp, if_true]
      by_cases hpost : cfg.hasPost = true
      · refine ⟨l, [], [], [.bpost n v sid [] []], rfl, by rw [hnil]; exact .nil 0, ?_, Or.inr (by simp [hnil])⟩
        cases scr.post.res <;> simp [hpost]
      · exact ⟨l, [], [], [], rfl, by rw [hnil]; exact .nil 0, by simp [hpost], Or.inl rfl⟩
    · simp only [hemp]
      by_cases hc : cfg.conc > 0
      · have hrun := Flyt.Proofs.Wait.itemsSerialPool_run (kind := kind) (n := n) (v := v) (cfg := cfg) (scr := scr)
          (normItems cfg.shape l) 0 false (ctx.after kind scr.prep.cancels)
        by_cases hpost : cfg.hasPost = true
        · refine ⟨l, _, _, _, rfl, hrun, ?_, Or.inr rfl⟩
          cases scr.post.res <;> simp [hc, hpost]
        · exact ⟨l, _, _, [], rfl, hrun, by simp [hc, hpost], Or.inl rfl⟩
      · have hrun := Flyt.Proofs.Wait.itemsSeq_run (kind := kind) (n := n) (v := v) (cfg := cfg) (scr := scr)
          (normItems cfg.shape l) 0 (ctx.after kind scr.prep.cancels)
        by_cases hpost : cfg.hasPost = true
        · refine ⟨l, _, _, _, rfl, hrun, ?_, Or.inr rfl⟩
          cases scr.post.res <;> simp [hc, hpost]
        · exact ⟨l, _, _, [], rfl, hrun, by simp [hc, hpost], Or.inl rfl⟩

/-- **the events of item `i` in the trace of a whole batch run**: none (never executed), or exactly
    the events of `runExecWithRetries` on the `i`-th item prep produced, with the item's own script -/
theorem runBatch_item (kind : CtxKind) (n v sid : Nat) (cfg : BatchCfg) (scr : BatchScript) (ctx : Ctx) (i : Nat) :
    (runBatch kind n v sid cfg scr ctx).1.filter (isItemEv i) = [] ∨
    ∃ l it c, scr.prep.res = .ok l ∧ (normItems cfg.shape l)[i]? = some it ∧
      (runBatch kind n v sid cfg scr ctx).1.filter (isItemEv i) = (runItem kind n v cfg i it (scr.item i) c).1 := by
  rcases runBatch_form' kind n v sid cfg scr ctx with ⟨e, _, htr⟩ | ⟨l, iev, slots, post, hl, hrun, htr, hpost⟩
  · left; rw [htr]; simp [isItemEv]
  · rw [htr]
    have hpost' : post.filter (isItemEv i) = [] := by
      rcases hpost with h | h <;> simp [h, isItemEv]
    simp only [List.filter_append, hpost', List.append_nil]
    have hprep : [Ev.bprep n v sid].filter (isItemEv i) = [] := by simp [isItemEv]
    rw [hprep, List.nil_append]
    rcases itemsRun_item hrun i (Nat.zero_le _) with h0 | ⟨it, c, hit, hev⟩
    · exact Or.inl h0
    · exact Or.inr ⟨l, it, c, hl, by simpa using hit, hev⟩

/-- every event of a batch run carries the node's id and the visit number -/
theorem runBatch_keys (kind : CtxKind) (n v sid : Nat) (cfg : BatchCfg) (scr : BatchScript) (ctx : Ctx) :
    ∀ e ∈ (runBatch kind n v sid cfg scr ctx).1, evKey e = (n, v) := by
  intro e he
  rcases runBatch_form' kind n v sid cfg scr ctx with ⟨_, _, htr⟩ | ⟨l, iev, slots, post, _, hrun, htr, hpost⟩
  · rw [htr] at he; simp at he; subst he; rfl
  · rw [htr] at he
    simp only [List.mem_append] at he
    rcases he with (he | he) | he
    · simp at he; subst he; rfl
    · obtain ⟨j, _, hev⟩ := Flyt.Proofs.Wait.itemsRun_events hrun e he
      rcases hev with ⟨k, a, rfl⟩ | ⟨k, d, f, rfl⟩ | ⟨a, b, rfl⟩ <;> rfl
    · rcases hpost with h | h <;> simp [h] at he
      subst he; rfl

end Flyt.Proofs.BatchItems
