import FlytModel.Proofs.L.LeafSpec
import FlytModel.Proofs.L.LeafFacts
/-!
# The function-style adapters on payloads that are not themselves `flyt.Result`s (helper lemmas for C17)

`CustomNode.Prep/Exec/Post` and the Any-style wrappers (flyt.go:1117-1164, 1325-1384) as modelled by
`prepRet`, `execArg`, `execRet`, `postArgs`, `wrapExecForPost`.
-/
namespace Flyt.Proofs.Payload
open Flyt Flyt.Spec Flyt.Proofs.Attempts Flyt.Proofs.Leaf Flyt.Proofs.LeafSpec

/-- a payload that is not itself a `flyt.Result` boxed in an `any` (boundary B2 of DESIGN.md: such a
    value is indistinguishable from the framework's own wrapping) -/
def Plain (x : Val) : Prop := x.asResult? = none

instance (x : Val) : Decidable (Plain x) := inferInstanceAs (Decidable (x.asResult? = none))

theorem plain_tok (n : Nat) : Plain (.tok n) := rfl

/-- the `Result` a user function of style `s` returned, given the script value `y`:
    Result-style functions return a `Result` (`toResult`), Any-style / method functions a plain value
    that the framework wraps with `NewResult` -/
def returned (s : Style) (y : Val) : Result := if s = .res then toResult y else newResult y

/-- how a user function of style `s` receives the `Result` `r`: Result-style gets `r` itself,
    Any-style gets `r.Value()`, a method gets what `Run` holds (the error Result as is, else the value) -/
def received (s : Style) (r : Result) : Val :=
  match s with
  | .res => r.box
  | .any => r.valueOf
  | _ => if r.isError then r.box else r.valueOf

theorem toResult_box (r : Result) : toResult r.box = r := by cases r; rfl
theorem toResult_plain {x : Val} (h : Plain x) : toResult x = newResult x := by
  unfold Plain at h; unfold toResult; rw [h]

theorem valueOf_newResult (x : Val) : (newResult x).valueOf = x := rfl
theorem isError_newResult (x : Val) : (newResult x).isError = false := rfl

/-- **exec sees the prep payload**: a Result-style exec function receives `NewResult(pv)` (wrapped
    exactly once), every other style `pv` itself -/
theorem execArg_plain {pv : Val} (h : Plain pv) (s : Style) :
    execArg s pv = (match s with | .res => (newResult pv).box | _ => pv) := by
  unfold Plain at h
  cases s <;> simp [execArg, h]

/-- **post sees the prep payload** (no hypothesis) -/
theorem postArgs_fst (s : Style) (pv ev : Val) :
    (postArgs s pv ev).1 = (match s with | .res => (newResult pv).box | _ => pv) := by
  cases s <;> simp [postArgs, valueOf_newResult]

theorem wrap_plain {ev : Val} (h : Plain ev) : wrapExecForPost ev = newResult ev := by
  unfold Plain at h
  simp [wrapExecForPost, h]

theorem wrap_errorResult {r : Result} (h : r.isError = true) : wrapExecForPost r.box = r := by
  simp [wrapExecForPost, Result.box, Val.asResult?, h]

/-- **post sees exec's result — its value, or its error state — wrapped exactly once, never stripped**:
    whatever the styles of the exec and the post function -/
theorem postArgs_snd_execRet (execS postS : Style) (pv y : Val)
    (h : Plain (returned execS y).valueOf) :
    (postArgs postS pv (execRet execS y)).2 = received postS (returned execS y) := by
  by_cases hs : execS = .res
  · subst hs
    simp only [returned, if_true] at h ⊢
    by_cases he : (toResult y).isError = true
    · have hev : execRet .res y = (toResult y).box := by simp [execRet, he]
      rw [hev]
      cases postS <;> simp [postArgs, received, wrap_errorResult he, he]
    · have he' : (toResult y).isError = false := by simpa using he
      have hev : execRet .res y = (toResult y).valueOf := by simp [execRet, he']
      have hval : (toResult y).valueOf = (toResult y).value := by
        simp [Result.valueOf]; intro h'; simp [Result.isError, h'] at he'
      have herr : (toResult y).err = none := by
        cases hh : (toResult y).err with
        | none => rfl
        | some e => simp [Result.isError, hh] at he'
      rw [hev]
      cases postS <;> simp [postArgs, received, wrap_plain h, he', valueOf_newResult]
      -- Result-style post: `NewResult(value)` is the very Result exec returned
      simp [Result.box, newResult, hval, herr]
  · have hr : returned execS y = newResult y := by simp [returned, hs]
    have hev : execRet execS y = y := by cases execS <;> simp_all [execRet]
    rw [hr] at h ⊢
    rw [hev]
    simp only [valueOf_newResult] at h
    cases postS <;> simp [postArgs, received, wrap_plain h, valueOf_newResult, isError_newResult]

/-- **slot `i` of a batch is exec's result** -/
theorem slot_execRet (execS : Style) (y : Val) (h : Plain (returned execS y).valueOf) :
    slotOfVal (execRet execS y) = returned execS y := by
  unfold slotOfVal
  by_cases hs : execS = .res
  · subst hs
    simp only [returned, if_true] at h ⊢
    by_cases he : (toResult y).isError = true
    · rw [show execRet .res y = (toResult y).box from by simp [execRet, he]]
      exact toResult_box _
    · have he' : (toResult y).isError = false := by simpa using he
      have herr : (toResult y).err = none := by
        cases hh : (toResult y).err with
        | none => rfl
        | some e => simp [Result.isError, hh] at he'
      have hval : (toResult y).valueOf = (toResult y).value := by simp [Result.valueOf, herr]
      rw [show execRet .res y = (toResult y).valueOf from by simp [execRet, he'], toResult_plain h, hval]
      generalize toResult y = r at herr
      cases r with
      | mk value err => simp at herr; simp [newResult, herr]
  · have hr : returned execS y = newResult y := by simp [returned, hs]
    have hev : execRet execS y = y := by cases execS <;> simp_all [execRet]
    rw [hr] at h ⊢
    simp only [valueOf_newResult] at h
    rw [hev, toResult_plain h]

/-- prep's payload as `Spec.c17Visit` computes it is `Spec.prepValue` -/
theorem prepPayload_eq (cfg : LeafCfg) (scr : LeafScript) :
    (if cfg.prepS = .absent then some Val.nil else
      (okVal scr.prep).map fun x => if cfg.prepS = .res then (toResult x).valueOf else x) = prepValue cfg scr := by
  unfold prepValue
  split
  · rfl
  · cases okVal scr.prep with
    | none => rfl
    | some x => cases hp : cfg.prepS <;> simp [prepRet]

/-- the payloads of a scenario are not themselves `flyt.Result`s: what prep hands over, and what each
    exec call returns (for a Result-style exec function: the `Value()` of the Result it returns) -/
structure PlainPayloads (cfg : LeafCfg) (scr : LeafScript) : Prop where
  prep : ∀ pv, prepValue cfg scr = some pv → Plain pv
  exec : ∀ k y, (scr.exec k).res = .ok y → Plain (returned cfg.execS y).valueOf

section
variable {kind : CtxKind} {n v sid : Nat} {cfg : LeafCfg} {scr : LeafScript}

/-- **C17 bridge**: the driver's per-visit predicate holds on every run of the model -/
theorem c17Visit_of_leafRun {evs : List Ev} {out : Outcome} (h : LeafRun kind n v sid cfg scr evs out)
    (hp : PlainPayloads cfg scr) : c17Visit cfg scr evs = true := by
  unfold c17Visit
  simp only [prepPayload_eq]
  cases h with
  | @prepFailed e hpS hr => simp [prepValue, hpS, okVal, hr]
  | @prepCancelled x hpS hr hc => simp [prepValue, hpS, okVal, hr, split_prepOnly]
  | @ran pv loop fbs posts m res out hpv hc hl hk hle hfb he hpost =>
    rw [split_ran hl he hpost]
    simp only [hpv]
    have hplain := hp.prep pv hpv
    rw [Bool.and_eq_true]
    constructor
    · rw [List.all_eq_true]
      intro e hmem
      simp only [List.mem_map] at hmem
      obtain ⟨j, _, rfl⟩ := hmem
      simp only [execArg_plain hplain]
      cases cfg.execS <;> simp
    · have hfst : ∀ ev, (match cfg.postS with
          | .res => (postArgs cfg.postS pv ev).1 == (newResult pv).box
          | _ => (postArgs cfg.postS pv ev).1 == pv) = true := by
        intro ev
        rw [postArgs_fst]
        cases cfg.postS <;> simp
      have hsnd : ∀ j y, (scr.exec j).res = .ok y →
          (match cfg.postS with
           | .res => (postArgs cfg.postS pv (execRet cfg.execS y)).2 ==
                (if cfg.execS = .res then toResult y else newResult y).box
           | .any => (postArgs cfg.postS pv (execRet cfg.execS y)).2 ==
                (if cfg.execS = .res then toResult y else newResult y).valueOf
           | _ => if (if cfg.execS = .res then toResult y else newResult y).isError = true then
                (postArgs cfg.postS pv (execRet cfg.execS y)).2 == (if cfg.execS = .res then toResult y else newResult y).box
              else (postArgs cfg.postS pv (execRet cfg.execS y)).2 ==
                (if cfg.execS = .res then toResult y else newResult y).valueOf) = true := by
        intro j y hy
        rw [postArgs_snd_execRet cfg.execS cfg.postS pv y (hp.exec j y hy)]
        unfold returned
        generalize (if cfg.execS = .res then toResult y else newResult y) = r
        cases cfg.postS <;> cases hr : r.isError <;> simp [received, hr]
      cases hpost with
      | failed => simp
      | noPost => simp
      | @postErr ev e hps hr =>
        simp only [List.all_cons, List.all_nil, Bool.and_true]
        generalize hres : Except.ok ev = res' at he
        cases he with
        | noExec => simp; exact hfst _
        | @success j y hj hS hy =>
          cases hres
          simp only [List.isEmpty_iff, List.map_eq_nil_iff, List.range_eq_nil, Nat.add_one_ne_zero, if_false,
            List.length_map, List.length_range, Nat.add_sub_cancel, okVal, hy]
          rw [Bool.and_eq_true]
          exact ⟨hfst _, hsnd j y hy⟩
        | cancelled => cases hres
        | exhausted => cases hres
        | fbOk => simp; exact hfst _
        | fbErr => cases hres
      | @postOk ev a hps hr =>
        simp only [List.all_cons, List.all_nil, Bool.and_true]
        generalize hres : Except.ok ev = res' at he
        cases he with
        | noExec => simp; exact hfst _
        | @success j y hj hS hy =>
          cases hres
          simp only [List.isEmpty_iff, List.map_eq_nil_iff, List.range_eq_nil, Nat.add_one_ne_zero, if_false,
            List.length_map, List.length_range, Nat.add_sub_cancel, okVal, hy]
          rw [Bool.and_eq_true]
          exact ⟨hfst _, hsnd j y hy⟩
        | cancelled => cases hres
        | exhausted => cases hres
        | fbOk => simp; exact hfst _
        | fbErr => cases hres

/-- every exec attempt of a run receives the prep payload (Result-style: `NewResult(pv)`; else `pv`) -/
theorem leafRun_exec_payload {evs : List Ev} {out : Outcome} (hrun : LeafRun kind n v sid cfg scr evs out)
    (hp : PlainPayloads cfg scr) {n' v' k : Nat} {a : Val} (h : Ev.exec n' v' k a ∈ evs) :
    ∃ pv, prepValue cfg scr = some pv ∧ a = (match cfg.execS with | .res => (newResult pv).box | _ => pv) := by
  cases hrun with
  | prepFailed => simp at h
  | prepCancelled => simp at h
  | @ran pv loop fbs posts m res out hpv hc hl hk hle hfb he hpost =>
    obtain ⟨_, _, ha, _⟩ := exec_mem_ran hl he hpost h
    exact ⟨pv, hpv, by rw [ha, execArg_plain (hp.prep pv hpv)]⟩

/-- post receives the prep payload and — when an attempt, not the fallback, produced the result —
    exactly the Result that attempt's exec function returned, seen through post's style -/
theorem leafRun_post_payload {evs : List Ev} {out : Outcome} (hrun : LeafRun kind n v sid cfg scr evs out)
    (hp : PlainPayloads cfg scr) {s : Nat} {a b : Val} (h : Ev.post n v s a b ∈ evs) :
    ∃ pv, prepValue cfg scr = some pv ∧
      a = (match cfg.postS with | .res => (newResult pv).box | _ => pv) ∧
      (fbCalls evs = [] → cfg.execS ≠ .absent → 1 ≤ cfg.effBudget →
        ∃ k y, execCount evs = k + 1 ∧ (scr.exec k).res = .ok y ∧
          b = received cfg.postS (returned cfg.execS y)) := by
  cases hrun with
  | prepFailed => simp at h
  | prepCancelled => simp at h
  | @ran pv loop fbs posts m res out hpv hc hl hk hle hfb he hpost =>
    obtain ⟨_, hcount, hfbc, _⟩ := ran_filters hl hk he hpost
    rcases mem_ran he hpost h with ⟨h', _⟩ | h' | ⟨er, h', _⟩ | ⟨a', b', h', hposts⟩
    · cases h'
    · rcases hk _ h' with ⟨j, f, h''⟩ | ⟨j, h''⟩ <;> cases h''
    · cases h'
    · have hab : ∃ ev, res = .ok ev ∧ a = (postArgs cfg.postS pv ev).1 ∧ b = (postArgs cfg.postS pv ev).2 := by
        cases hpost with
        | failed => simp at hposts
        | noPost => simp at hposts
        | @postErr ev e _ _ => simp at hposts; exact ⟨ev, rfl, hposts.2.1.symm, hposts.2.2.symm⟩
        | @postOk ev a'' _ _ => simp at hposts; exact ⟨ev, rfl, hposts.2.1.symm, hposts.2.2.symm⟩
      obtain ⟨ev, hres, ha, hb⟩ := hab
      refine ⟨pv, hpv, by rw [ha, postArgs_fst], ?_⟩
      intro hnofb hS hbud
      rw [hfbc] at hnofb
      rw [hcount]
      subst hres hnofb
      generalize hr : Except.ok ev = res' at he
      generalize hf : ([] : List Ev) = fbs' at he
      cases he with
      | noExec h0 =>
        rcases h0 with h0 | h0
        · exact absurd h0 hS
        · omega
      | @success j y hj _ hy =>
        cases hr
        exact ⟨j, y, rfl, hy, by rw [hb, postArgs_snd_execRet _ _ _ _ (hp.exec j y hy)]⟩
      | cancelled => cases hr
      | exhausted => cases hr
      | fbOk => cases hf
      | fbErr => cases hr

end

end Flyt.Proofs.Payload
