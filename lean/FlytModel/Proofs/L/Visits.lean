import FlytModel.Proofs.L.Flow
import FlytModel.Proofs.L.LeafFacts
import FlytModel.Proofs.L.BatchItems
/-!
# The trace of a flow run is a sequence of node visits (helper lemmas for "inside a flow": C01, C02, C17)

`VisitSeq env sid vis vis' tr`: `tr` is the concatenation of visits of leaf / batch nodes of the arena,
the visit counters going from `vis` to `vis'`; each leaf visit is literally the events of a standalone `runLeaf` on a live context
with the node's id, its current visit number, that visit's script and the flow's store (so it obeys
everything proved about single runs).
`run_visits`: every run of `runNode` / `flowLoop` — any nesting depth, any routing, loops — is one.
`VisitSeq.segments_mem`: the groups `Spec.segments` cuts the trace into (what the driver judges one by
one) are exactly these visits.
-/
namespace Flyt.Proofs.Visits
open Flyt Flyt.Spec Flyt.Proofs.Attempts Flyt.Proofs.Leaf Flyt.Proofs.Flow
open Flyt.Proofs.BatchItems (runBatch_keys)

def bump (vis : NodeId → Nat) (n : NodeId) : NodeId → Nat := fun m => if m = n then vis m + 1 else vis m

inductive VisitSeq (env : Env) (sid : StoreId) : (NodeId → Nat) → (NodeId → Nat) → List Ev → Prop
  | nil (vis) : VisitSeq env sid vis vis []
  | leaf {vis vis' id cfg rest} : env.arena id = .leaf cfg →
      VisitSeq env sid (bump vis id) vis' rest →
      VisitSeq env sid vis vis' ((runLeaf env.kind id (vis id) sid cfg (env.leafBeh id (vis id)) .live).1 ++ rest)
  | batch {vis vis' id cfg ctx rest} : env.arena id = .batch cfg →
      VisitSeq env sid (bump vis id) vis' rest →
      VisitSeq env sid vis vis' ((runBatch env.kind id (vis id) sid cfg (env.batchBeh id (vis id)) ctx).1 ++ rest)

theorem VisitSeq.append {env : Env} {sid : StoreId} {a b c : NodeId → Nat} {x y : List Ev}
    (h1 : VisitSeq env sid a b x) (h2 : VisitSeq env sid b c y) : VisitSeq env sid a c (x ++ y) := by
  induction h1 with
  | nil => simpa using h2
  | leaf ha _ ih => rw [List.append_assoc]; exact .leaf ha (ih h2)
  | batch ha _ ih => rw [List.append_assoc]; exact .batch ha (ih h2)

/-- **every run of a node of the arena — a leaf, a batch, a flow nested to any depth — and every run
    of the loop of `Flow.Exec` is a sequence of visits** -/
theorem run_visits (env : Env) (sid : StoreId) : ∀ fuel : Nat,
    (∀ id st, VisitSeq env sid st.visits (runNode env fuel id sid st).2.1.visits (runNode env fuel id sid st).1) ∧
    (∀ tbl cur st, VisitSeq env sid st.visits (flowLoop env fuel tbl cur sid st).2.1.visits
      (flowLoop env fuel tbl cur sid st).1) := by
  intro fuel
  induction fuel with
  | zero => constructor <;> intros <;> simp [runNode, flowLoop] <;> exact .nil _
  | succ fuel ih =>
    constructor
    · intro id st
      cases harena : env.arena id with
      | leaf cfg =>
        rw [runNode_leaf env fuel id sid st cfg harena]
        simp only []
        cases hctx : st.ctx with
        | done k =>
          simp [runLeaf, RunSt.bumpIf]
          exact .nil _
        | live =>
          have := VisitSeq.leaf (sid := sid) (vis := st.visits) harena (.nil _)
          cases hev : (runLeaf env.kind id (st.visits id) sid cfg (env.leafBeh id (st.visits id)) .live).1 with
          | nil => simp [RunSt.bumpIf]; exact .nil _
          | cons e t =>
            rw [hev] at this
            unfold bump at this
            simpa [RunSt.bumpIf, RunSt.bump] using this
      | batch cfg =>
        rw [runNode_batch env fuel id sid st cfg harena]
        simp only []
        have hne : (runBatch env.kind id (st.visits id) sid cfg (env.batchBeh id (st.visits id)) st.ctx).1 ≠ [] := by
          rcases Flyt.Proofs.BatchItems.runBatch_form' env.kind id (st.visits id) sid cfg (env.batchBeh id (st.visits id)) st.ctx
            with ⟨e, _, h⟩ | ⟨l, iev, slots, post, _, _, h, _⟩ <;> rw [h] <;> simp
        have := VisitSeq.batch (sid := sid) (vis := st.visits) (ctx := st.ctx) harena (.nil _)
        cases hev : (runBatch env.kind id (st.visits id) sid cfg (env.batchBeh id (st.visits id)) st.ctx).1 with
        | nil => exact absurd hev hne
        | cons e t =>
          rw [hev] at this
          unfold bump at this
          simpa [RunSt.bumpIf, RunSt.bump] using this
      | flow start ops =>
        unfold runNode
        rw [harena]
        simp only []
        split
        · exact .nil _
        · split
          · exact .nil _
          · split
            · rename_i s _ evs st' a hfl
              have := ih.2 (buildTable ops) s st
              rw [hfl] at this
              exact this
            · exact ih.2 _ _ _
    · intro tbl cur st
      unfold flowLoop
      split
      · exact .nil _
      · split
        · rename_i evs st' a hrun
          have h1 := ih.1 cur st
          rw [hrun] at h1
          split
          · exact h1.append (ih.2 _ _ _)
          · exact h1
        · exact ih.1 _ _

/-! ### `Spec.segments` of a visit sequence -/

theorem segments_cons_key (e : Ev) (t : List Ev) : ∃ g r, segments (e :: t) = (evKey e, g) :: r := by
  simp only [segments]
  cases segments t with
  | nil => exact ⟨_, _, rfl⟩
  | cons p r =>
    obtain ⟨k, g⟩ := p
    by_cases hk : k = evKey e
    · simp only [hk, if_true]; exact ⟨_, _, rfl⟩
    · simp only [hk, if_false]; exact ⟨_, _, rfl⟩

theorem segments_append_uniform (κ : NodeId × Nat) : ∀ (a b : List Ev), a ≠ [] → (∀ e ∈ a, evKey e = κ) →
    (∀ e ∈ b, evKey e ≠ κ) → segments (a ++ b) = (κ, a) :: segments b
  | [], _, h, _, _ => absurd rfl h
  | [e], b, _, ha, hb => by
    have hke : evKey e = κ := ha e (by simp)
    cases b with
    | nil => simp [segments, hke]
    | cons e' t =>
      obtain ⟨g, r, hs⟩ := segments_cons_key e' t
      have hne : evKey e' ≠ evKey e := by rw [hke]; exact hb e' (by simp)
      show segments (e :: e' :: t) = _
      rw [segments, hs]
      have hne' : ¬ evKey e' = κ := hb e' (by simp)
      simp [hke, hne']
  | e :: e' :: a', b, _, ha, hb => by
    have ih := segments_append_uniform κ (e' :: a') b (by simp) (fun x hx => ha x (by simp [hx])) hb
    have hke : evKey e = κ := ha e (by simp)
    show segments (e :: ((e' :: a') ++ b)) = _
    rw [segments, ih]
    simp [hke]

theorem VisitSeq.lower {env : Env} {sid : StoreId} {vis vis' : NodeId → Nat} {tr : List Ev}
    (h : VisitSeq env sid vis vis' tr) : ∀ e ∈ tr, vis (evKey e).1 ≤ (evKey e).2 := by
  induction h with
  | nil => intro e he; simp at he
  | @leaf vis vis' id cfg rest ha _ ih =>
    intro e he
    rcases List.mem_append.mp he with he | he
    · have := (runLeaf_live_spec env.kind id (vis id) sid cfg (env.leafBeh id (vis id))).keys e he
      rw [this]; exact Nat.le_refl _
    · have := ih e he
      unfold bump at this
      split at this <;> omega
  | @batch vis vis' id cfg ctx rest ha _ ih =>
    intro e he
    rcases List.mem_append.mp he with he | he
    · have := runBatch_keys env.kind id (vis id) sid cfg (env.batchBeh id (vis id)) ctx e he
      rw [this]; exact Nat.le_refl _
    · have := ih e he
      unfold bump at this
      split at this <;> omega

/-- **what `Spec.segments` makes of a visit sequence**: every group is one visit — of a leaf node, with
    exactly the (non-wait) events of a standalone run of that node under that visit's script, or of a batch node -/
theorem VisitSeq.segments_mem {env : Env} {sid : StoreId} {vis vis' : NodeId → Nat} {tr : List Ev}
    (h : VisitSeq env sid vis vis' tr) : ∀ p ∈ segments (noWaits tr),
      (∃ cfg, env.arena p.1.1 = .leaf cfg ∧
        p.2 = noWaits (runLeaf env.kind p.1.1 p.1.2 sid cfg (env.leafBeh p.1.1 p.1.2) .live).1) ∨
      (∃ cfg, env.arena p.1.1 = .batch cfg) := by
  induction h with
  | nil => intro p hp; simp [noWaits, segments] at hp
  | @leaf vis vis' id cfg rest ha hrest ih =>
    intro p hp
    rw [noWaits_append] at hp
    by_cases hemp : noWaits (runLeaf env.kind id (vis id) sid cfg (env.leafBeh id (vis id)) .live).1 = []
    · rw [hemp, List.nil_append] at hp; exact ih p hp
    · rw [segments_append_uniform (id, vis id) _ _ hemp] at hp
      · rcases List.mem_cons.mp hp with hp | hp
        · subst hp; exact Or.inl ⟨cfg, ha, rfl⟩
        · exact ih p hp
      · intro e he
        exact (runLeaf_live_spec env.kind id (vis id) sid cfg (env.leafBeh id (vis id))).keys e (List.mem_filter.mp he).1
      · intro e he hk
        have := hrest.lower e (List.mem_filter.mp he).1
        rw [hk] at this
        simp [bump] at this
        omega
  | @batch vis vis' id cfg ctx rest ha hrest ih =>
    intro p hp
    rw [noWaits_append] at hp
    by_cases hemp : noWaits (runBatch env.kind id (vis id) sid cfg (env.batchBeh id (vis id)) ctx).1 = []
    · rw [hemp, List.nil_append] at hp; exact ih p hp
    · rw [segments_append_uniform (id, vis id) _ _ hemp] at hp
      · rcases List.mem_cons.mp hp with hp | hp
        · subst hp; exact Or.inr ⟨cfg, ha⟩
        · exact ih p hp
      · intro e he
        exact runBatch_keys env.kind id (vis id) sid cfg (env.batchBeh id (vis id)) ctx e (List.mem_filter.mp he).1
      · intro e he hk
        have := hrest.lower e (List.mem_filter.mp he).1
        rw [hk] at this
        simp [bump] at this
        omega

end Flyt.Proofs.Visits
