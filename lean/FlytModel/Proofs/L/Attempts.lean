import FlytModel.Spec.Flow
/-!
# The retry loop `attempts` and the fallback step, characterised (helper lemmas for C01, C02, C17)

`attempts_spec` describes, by induction on the remaining budget, everything the loop
`for attempt := k; attempt < k + rem; attempt++` can do, for every script, context and wait setting:
it makes `m ≤ rem` exec calls numbered `k, k+1, …, k+m-1` (interleaved with wait events only), all of
them but the last one failed, and the loop's result is the last call's result / the last error when
the budget is exhausted / the context's error when it was cut short.

`PhaseEnd` lists the six ways the *exec phase* (loop from attempt 0 + fallback) of `Run` and of
`runExecWithRetries` can end; `execPhase_spec` shows there are no others.
-/
namespace Flyt.Proofs.Attempts
open Flyt Flyt.Spec

/-- event constructors of a retry loop: exec events are not wait events, wait events are -/
structure Mk (mkExec : Nat → Ev) (mkWait : Nat → Bool → Ev) : Prop where
  exec : ∀ k, (mkExec k).isWait = false
  wait : ∀ k f, (mkWait k f).isWait = true

theorem noWaits_append (a b : List Ev) : noWaits (a ++ b) = noWaits a ++ noWaits b := by
  simp [noWaits]

theorem noWaits_nil : noWaits [] = [] := rfl

theorem noWaits_of_all {l : List Ev} (h : ∀ e ∈ l, e.isWait = false) : noWaits l = l := by
  unfold noWaits
  rw [List.filter_eq_self]
  intro e he
  simp [h e he]

/-- an event of a list is a wait event or survives `noWaits` -/
theorem mem_noWaits_or {l : List Ev} {e : Ev} (h : e ∈ l) : e.isWait = true ∨ e ∈ noWaits l := by
  cases hw : e.isWait
  · right; simp [noWaits, h, hw]
  · left; rfl

section loop
variable (kind : CtxKind) (mkExec : Nat → Ev) (mkWait : Nat → Bool → Ev)
  (exec : Nat → Out Val) (wc : Nat → Bool) (execS : Style) (wait : Nat)

/-- the optional "waited" event in front of attempt `k` -/
def wev (k : Nat) : List Ev := if k > 0 ∧ wait > 0 then [mkWait k true] else []

theorem noWaits_wev (hmk : Mk mkExec mkWait) (k : Nat) : noWaits (wev mkWait wait k) = [] := by
  unfold wev
  split <;> simp [noWaits, hmk.wait]

/-- one unfolding of the loop on a live context, for a node that has an exec callback -/
theorem attempts_live_succ (hS : execS ≠ .absent) (k rem : Nat) (last : Option Nat) :
    attempts kind mkExec mkWait exec wc execS wait k (rem + 1) last .live =
      if k > 0 ∧ wait > 0 ∧ wc k then ([mkWait k false], .done kind, .cancelled kind)
      else
        match (exec k).res with
        | .ok x => (wev mkWait wait k ++ [mkExec k], Ctx.live.after kind (exec k).cancels, .ok (execRet execS x))
        | .error e =>
          (wev mkWait wait k ++ [mkExec k] ++
            (attempts kind mkExec mkWait exec wc execS wait (k + 1) rem (some e) (Ctx.live.after kind (exec k).cancels)).1,
           (attempts kind mkExec mkWait exec wc execS wait (k + 1) rem (some e) (Ctx.live.after kind (exec k).cancels)).2.1,
           (attempts kind mkExec mkWait exec wc execS wait (k + 1) rem (some e) (Ctx.live.after kind (exec k).cancels)).2.2) := by
  cases execS with
  | absent => exact absurd rfl hS
  | _ =>
    simp only [attempts, wev]
    split
    · rfl
    · cases (exec k).res <;> rfl

/-- What the loop did, with `m` = number of exec calls made. -/
theorem wev_kinds (k : Nat) : ∀ e ∈ wev mkWait wait k, (∃ j f, e = mkWait j f) ∨ (∃ j, e = mkExec j) := by
  intro e he
  unfold wev at he
  split at he
  · simp at he; exact Or.inl ⟨k, true, he⟩
  · simp at he

structure AttSpec (k rem : Nat) (last : Option Nat) (r : List Ev × Ctx × AttemptRes) (m : Nat) : Prop where
  le : m ≤ rem
  absent : execS = .absent → m = 0
  /-- the exec calls are numbered `k, k+1, …` and nothing but wait events lies between them -/
  events : noWaits r.1 = (List.range m).map (fun j => mkExec (k + j))
  /-- the loop emits nothing but its own wait and exec events -/
  kinds : ∀ e ∈ r.1, (∃ j f, e = mkWait j f) ∨ (∃ j, e = mkExec j)
  /-- every call but the last one failed (a success ends the loop) -/
  failedBefore : ∀ j, j + 1 < m → ∃ e, (exec (k + j)).res = .error e
  okCase : ∀ x, r.2.2 = .ok x →
    (m = 0 ∧ x = Val.nil ∧ (execS = .absent ∨ (rem = 0 ∧ last = none))) ∨
    (∃ j y, m = j + 1 ∧ (exec (k + j)).res = .ok y ∧ x = execRet execS y)
  failedCase : ∀ e, r.2.2 = .failed e →
    m = rem ∧ ((m = 0 ∧ last = some e) ∨ (∃ j, m = j + 1 ∧ (exec (k + j)).res = .error e))
  cancelledCase : ∀ kd, r.2.2 = .cancelled kd →
    r.2.1 = .done kd ∧ m < rem ∧ (∀ j, m = j + 1 → ∃ e, (exec (k + j)).res = .error e)

theorem attempts_spec (hmk : Mk mkExec mkWait) :
    ∀ (rem k : Nat) (last : Option Nat) (ctx : Ctx),
      ∃ m, AttSpec mkExec mkWait exec execS k rem last
        (attempts kind mkExec mkWait exec wc execS wait k rem last ctx) m := by
  intro rem
  induction rem with
  | zero =>
    intro k last ctx
    refine ⟨0, ?_⟩
    cases last with
    | none => constructor <;> simp [attempts, noWaits]
    | some e => constructor <;> simp [attempts, noWaits]
  | succ rem ih =>
    intro k last ctx
    cases ctx with
    | done kd =>
      refine ⟨0, ?_⟩
      constructor <;> simp [attempts, noWaits]
    | live =>
      by_cases hS : execS = .absent
      · subst hS
        refine ⟨0, ?_⟩
        by_cases hcond : k > 0 ∧ wait > 0 ∧ wc k = true
        · constructor <;> simp [attempts, hcond, noWaits, hmk.wait]
          exact Or.inl ⟨k, Or.inl rfl⟩
        · have hw := noWaits_wev mkExec mkWait wait hmk k
          unfold wev at hw
          constructor <;> simp [attempts, hcond, hw]
          intro e _ _ he; exact Or.inl ⟨k, Or.inr he⟩
      · rw [attempts_live_succ kind mkExec mkWait exec wc execS wait hS]
        by_cases hcond : k > 0 ∧ wait > 0 ∧ wc k = true
        · refine ⟨0, ?_⟩
          rw [if_pos hcond]
          constructor <;> simp [noWaits, hmk.wait]
          exact Or.inl ⟨k, Or.inl rfl⟩
        · rw [if_neg hcond]
          cases hres : (exec k).res with
          | ok x =>
            refine ⟨1, ?_⟩
            constructor
            · omega
            · intro h; exact absurd h hS
            · simp only [noWaits_append, noWaits_wev mkExec mkWait wait hmk]
              simp [noWaits, hmk.exec]
            · intro e he
              rcases List.mem_append.mp he with h | h
              · exact wev_kinds mkExec mkWait wait k e h
              · simp at h; exact Or.inr ⟨k, h⟩
            · intro j hj; omega
            · intro y hy
              right
              refine ⟨0, x, rfl, by simpa using hres, ?_⟩
              simpa using hy.symm
            · intro e he; simp at he
            · intro kd hkd; simp at hkd
          | error e =>
            obtain ⟨m, hm⟩ := ih (k + 1) (some e) (Ctx.live.after kind (exec k).cancels)
            refine ⟨m + 1, ?_⟩
            constructor
            · have := hm.le; omega
            · intro h; exact absurd h hS
            · simp only [noWaits_append, noWaits_wev mkExec mkWait wait hmk, hm.events, List.nil_append]
              rw [List.range_succ_eq_map]
              simp [noWaits, hmk.exec, Nat.add_assoc, Nat.add_comm 1]
            · intro e' he'
              rcases List.mem_append.mp he' with h | h
              · rcases List.mem_append.mp h with h | h
                · exact wev_kinds mkExec mkWait wait k e' h
                · simp at h; exact Or.inr ⟨k, h⟩
              · exact hm.kinds e' h
            · intro j hj
              cases j with
              | zero => exact ⟨e, by simpa using hres⟩
              | succ j =>
                obtain ⟨e', he'⟩ := hm.failedBefore j (by omega)
                exact ⟨e', by rw [← he']; congr 2; omega⟩
            · intro x hx
              right
              rcases hm.okCase x hx with ⟨_, _, h | h⟩ | ⟨j, y, hj, hy, hxy⟩
              · exact absurd h hS
              · simp at h
              · exact ⟨j + 1, y, by omega, by rw [← hy]; congr 2; omega, hxy⟩
            · intro e' he'
              obtain ⟨h1, h2⟩ := hm.failedCase e' he'
              refine ⟨by omega, Or.inr ?_⟩
              rcases h2 with ⟨h0, hl⟩ | ⟨j, hj, hy⟩
              · refine ⟨0, by omega, ?_⟩
                simp at hl
                subst hl
                simpa using hres
              · exact ⟨j + 1, by omega, by rw [← hy]; congr 2; omega⟩
            · intro kd hkd
              obtain ⟨h1, h2, h3⟩ := hm.cancelledCase kd hkd
              refine ⟨h1, by omega, ?_⟩
              intro j hj
              cases j with
              | zero => exact ⟨e, by simpa using hres⟩
              | succ j =>
                obtain ⟨e', he'⟩ := h3 j (by omega)
                exact ⟨e', by rw [← he']; congr 2; omega⟩

/-- on a live context, attempt 0 is always made (a node with an exec callback, budget ≥ 1) -/
theorem attempts_first (hS : execS ≠ .absent) (rem : Nat) (last : Option Nat) :
    mkExec 0 ∈ (attempts kind mkExec mkWait exec wc execS wait 0 (rem + 1) last .live).1 := by
  rw [attempts_live_succ kind mkExec mkWait exec wc execS wait hS, if_neg (by omega)]
  cases (exec 0).res <;> simp

/-- a node without exec callback (`BaseNode.Exec`): the loop from attempt 0 returns `(nil, nil)` at once -/
theorem attempts_absent (rem : Nat) :
    attempts kind mkExec mkWait exec wc .absent wait 0 rem none .live = ([], .live, .ok Val.nil) := by
  cases rem <;> simp [attempts]

/-- **No cancellation in the scripts ⇒ the loop is never cut short** and leaves the context live. -/
theorem attempts_noCancel (hx : ∀ j, (exec j).cancels = false) (hw : wait = 0 ∨ ∀ j, wc j = false) :
    ∀ (rem k : Nat) (last : Option Nat),
      (attempts kind mkExec mkWait exec wc execS wait k rem last .live).2.1 = .live ∧
      ∀ kd, (attempts kind mkExec mkWait exec wc execS wait k rem last .live).2.2 ≠ .cancelled kd := by
  intro rem
  induction rem with
  | zero => intro k last; cases last <;> simp [attempts]
  | succ rem ih =>
    intro k last
    have hcond : ¬ (k > 0 ∧ wait > 0 ∧ wc k = true) := by
      rcases hw with h | h
      · omega
      · simp [h k]
    by_cases hS : execS = .absent
    · subst hS
      simp [attempts, hcond]
    · rw [attempts_live_succ kind mkExec mkWait exec wc execS wait hS, if_neg hcond]
      cases hres : (exec k).res with
      | ok x => simp [hx k, Ctx.after]
      | error e =>
        have hc : Ctx.live.after kind (exec k).cancels = .live := by simp [hx k, Ctx.after]
        simp only [hc]
        exact ih (k + 1) (some e)

end loop

/-! ### the exec phase: loop from attempt 0, then the fallback -/

section phase
variable (kind : CtxKind) (mkExec : Nat → Ev) (mkWait : Nat → Bool → Ev) (mkFb : Nat → Ev)
  (exec : Nat → Out Val) (wc : Nat → Bool) (execS : Style) (wait budget : Nat) (fb : FbKind) (fbOut : Out Val)

/-- retry loop from attempt 0 followed by the fallback step: the part `Run` (flyt.go:714-745) and
    `runExecWithRetries` (batch.go:304-344) have in common -/
def execPhase (ctx : Ctx) : List Ev × Ctx × Except ErrRoot Val :=
  let a := attempts kind mkExec mkWait exec wc execS wait 0 budget none ctx
  let f := fallbackPhase kind fb mkFb fbOut a.2.1 a.2.2
  (a.1 ++ f.1, f.2.1, f.2.2)

/-- The six ways the exec phase can end.  Indices: number `m` of exec calls made, the fallback
    events, the phase's result (`ok` = the value handed to post / stored in the slot, `error` = the
    error the run / item ends with). -/
inductive PhaseEnd : Nat → List Ev → Except ErrRoot Val → Prop
  /-- no exec callback (`BaseNode.Exec`) or a budget of 0: `(nil, nil)` without any call -/
  | noExec : (execS = .absent ∨ budget = 0) → PhaseEnd 0 [] (.ok Val.nil)
  /-- attempt `j` (the first one to succeed) returned `y` -/
  | success {j y} : j < budget → execS ≠ .absent → (exec j).res = .ok y →
      PhaseEnd (j + 1) [] (.ok (execRet execS y))
  /-- cut short by cancellation before the budget was used up -/
  | cancelled {m kd} : m < budget → execS ≠ .absent → (∀ j, m = j + 1 → ∃ e, (exec j).res = .error e) →
      0 < m → PhaseEnd m [] (.error (.ctx kd))
  /-- all `budget` attempts failed, no user fallback: the last attempt's error -/
  | exhausted {j e} : j + 1 = budget → (exec j).res = .error e → fb ≠ .custom → execS ≠ .absent →
      PhaseEnd (j + 1) [] (.error (.user e))
  /-- all attempts failed, the fallback got the last error and produced `x` -/
  | fbOk {j e x} : j + 1 = budget → (exec j).res = .error e → fb = .custom → fbOut.res = .ok x → execS ≠ .absent →
      PhaseEnd (j + 1) [mkFb e] (.ok x)
  /-- all attempts failed, the fallback got the last error and failed with `e'` -/
  | fbErr {j e e'} : j + 1 = budget → (exec j).res = .error e → fb = .custom → fbOut.res = .error e' →
      execS ≠ .absent → PhaseEnd (j + 1) [mkFb e] (.error (.user e'))

structure PhaseSpec (r : List Ev × Ctx × Except ErrRoot Val) (loop fbs : List Ev) (m : Nat) : Prop where
  events : r.1 = loop ++ fbs
  /-- the loop's events are the exec calls `0 … m-1` in order, with nothing but wait events between -/
  loopEvents : noWaits loop = (List.range m).map mkExec
  /-- … and the loop emits nothing but its own wait and exec events -/
  loopKinds : ∀ e ∈ loop, (∃ j f, e = mkWait j f) ∨ (∃ j, e = mkExec j)
  le : m ≤ budget
  /-- every call but the last failed -/
  failedBefore : ∀ j, j + 1 < m → ∃ e, (exec j).res = .error e
  ending : PhaseEnd mkFb exec execS budget fb fbOut m fbs r.2.2

theorem execPhase_spec (hmk : Mk mkExec mkWait) :
    ∃ loop fbs m, PhaseSpec mkExec mkWait mkFb exec execS budget fb fbOut
      (execPhase kind mkExec mkWait mkFb exec wc execS wait budget fb fbOut .live) loop fbs m := by
  by_cases hS : execS = .absent
  · subst hS
    refine ⟨[], [], 0, ?_⟩
    constructor <;> simp [execPhase, attempts_absent, fallbackPhase, noWaits]
    exact .noExec (Or.inl rfl)
  · obtain ⟨m, hm⟩ := attempts_spec kind mkExec mkWait exec wc execS wait hmk budget 0 none .live
    have hfirst : 0 < budget → 0 < m := by
      intro hb
      obtain ⟨rem, rfl⟩ : ∃ rem, budget = rem + 1 := ⟨budget - 1, by omega⟩
      have h1 := attempts_first kind mkExec mkWait exec wc execS wait hS rem none
      have h2 : mkExec 0 ∈ noWaits (attempts kind mkExec mkWait exec wc execS wait 0 (rem + 1) none .live).1 := by
        unfold noWaits; rw [List.mem_filter]; exact ⟨h1, by simp [hmk.exec]⟩
      rw [hm.events] at h2
      cases m with
      | zero => simp at h2
      | succ m => omega
    unfold execPhase
    generalize attempts kind mkExec mkWait exec wc execS wait 0 budget none .live = a at hm
    obtain ⟨aev, ctx1, ares⟩ := a
    have hev : noWaits aev = (List.range m).map mkExec := by simpa using hm.events
    have hfb : ∀ j, j + 1 < m → ∃ e, (exec j).res = .error e := by
      intro j hj; simpa using hm.failedBefore j hj
    cases ares with
    | ok x =>
      refine ⟨aev, [], m, ⟨by simp [fallbackPhase], hev, hm.kinds, hm.le, hfb, ?_⟩⟩
      rcases hm.okCase x rfl with ⟨h0, hx, h | ⟨h, _⟩⟩ | ⟨j, y, hj, hy, hxy⟩
      · exact absurd h hS
      · subst h0 hx; simpa [fallbackPhase] using .noExec (Or.inr h)
      · subst hj hxy
        have := hm.le
        simp only [Nat.zero_add] at hy
        simpa [fallbackPhase] using .success (by omega) hS hy
    | cancelled kd =>
      refine ⟨aev, [], m, ⟨by simp [fallbackPhase], hev, hm.kinds, hm.le, hfb, ?_⟩⟩
      obtain ⟨_, h2, h3⟩ := hm.cancelledCase kd rfl
      simpa [fallbackPhase] using .cancelled h2 hS (by intro j hj; simpa using h3 j hj) (hfirst (by omega))
    | failed e =>
      obtain ⟨h1, h2⟩ := hm.failedCase e rfl
      rcases h2 with ⟨_, h⟩ | ⟨j, hj, hy⟩
      · simp at h
      · simp only [Nat.zero_add] at hy
        subst hj
        by_cases hc : fb = .custom
        · subst hc
          cases hfr : fbOut.res with
          | ok x =>
            refine ⟨aev, [mkFb e], j + 1, ⟨by simp [fallbackPhase, hfr], hev, hm.kinds, hm.le, hfb, ?_⟩⟩
            simpa [fallbackPhase, hfr] using .fbOk h1 hy rfl hfr hS
          | error e' =>
            refine ⟨aev, [mkFb e], j + 1, ⟨by simp [fallbackPhase, hfr], hev, hm.kinds, hm.le, hfb, ?_⟩⟩
            simpa [fallbackPhase, hfr] using .fbErr h1 hy rfl hfr hS
        · refine ⟨aev, [], j + 1, ⟨by cases fb <;> simp [fallbackPhase] at hc ⊢, hev, hm.kinds, hm.le, hfb, ?_⟩⟩
          have : (fallbackPhase kind fb mkFb fbOut ctx1 (.failed e)).2.2 = .error (.user e) := by
            cases fb <;> simp [fallbackPhase] at hc ⊢
          simpa [this] using .exhausted h1 hy hc hS

/-- **No cancellation ⇒ the exec phase never ends with the context's error** and leaves the context live. -/
theorem execPhase_noCancel (hx : ∀ j, (exec j).cancels = false) (hw : wait = 0 ∨ ∀ j, wc j = false)
    (kd : CtxKind) :
    (execPhase kind mkExec mkWait mkFb exec wc execS wait budget fb fbOut .live).2.2 ≠ .error (.ctx kd) := by
  obtain ⟨_, h2⟩ := attempts_noCancel kind mkExec mkWait exec wc execS wait hx hw budget 0 none
  unfold execPhase
  generalize attempts kind mkExec mkWait exec wc execS wait 0 budget none .live = a at h2
  obtain ⟨aev, ctx1, ares⟩ := a
  cases ares with
  | ok x => simp [fallbackPhase]
  | cancelled k => exact absurd rfl (h2 k)
  | failed e => cases fb <;> cases hfr : fbOut.res <;> simp [fallbackPhase, hfr]

theorem phaseEnd_fbs {mkFb : Nat → Ev} {exec : Nat → Out Val} {execS : Style} {budget : Nat} {fb : FbKind}
    {fbOut : Out Val} {m : Nat} {fbs : List Ev} {res : Except ErrRoot Val}
    (h : PhaseEnd mkFb exec execS budget fb fbOut m fbs res) : fbs = [] ∨ ∃ e, fbs = [mkFb e] := by
  cases h <;> first | exact Or.inl rfl | exact Or.inr ⟨_, rfl⟩

/-- selecting the exec events of a retry loop's event list by a predicate on events -/
theorem filter_loop {p : Ev → Bool} (hp : ∀ e, p e = true → e.isWait = false) {loop : List Ev} {m : Nat} {f : Nat → Ev}
    (hf : ∀ k, p (f k) = true) (hl : noWaits loop = (List.range m).map f) :
    loop.filter p = (List.range m).map f := by
  have h1 : loop.filter p = (noWaits loop).filter p := by
    unfold noWaits
    rw [List.filter_filter]
    apply List.filter_congr
    intro e he
    cases hpe : p e with
    | false => simp
    | true => simp [hp e hpe]
  rw [h1, hl, List.filter_eq_self]
  intro e he
  simp only [List.mem_map] at he
  obtain ⟨j, _, rfl⟩ := he
  exact hf j

/-! ### exact counts -/

/-- `k` is the index of the first succeeding attempt of the script -/
def FirstOk (exec : Nat → Out Val) (k : Nat) : Prop :=
  (∃ y, (exec k).res = .ok y) ∧ ∀ j, j < k → ∃ e, (exec j).res = .error e

/-- the first `N` attempts of the script all fail -/
def AllFail (exec : Nat → Out Val) (N : Nat) : Prop := ∀ j, j < N → ∃ e, (exec j).res = .error e

variable {kind mkExec mkWait mkFb exec wc execS wait budget fb fbOut}
variable {r : List Ev × Ctx × Except ErrRoot Val} {loop fbs : List Ev} {m : Nat}

/-- reading the exec calls and the fallback calls off the phase's events by predicates `pE`, `pF` that
    recognise them -/
theorem PhaseSpec.filters (h : PhaseSpec mkExec mkWait mkFb exec execS budget fb fbOut r loop fbs m)
    {pE pF : Ev → Bool}
    (hE1 : ∀ k, pE (mkExec k) = true) (hE2 : ∀ e, pE e = true → e.isWait = false) (hE3 : ∀ e, pE (mkFb e) = false)
    (hF1 : ∀ e, pF (mkFb e) = true) (hF2 : ∀ k, pF (mkExec k) = false) (hF3 : ∀ k f, pF (mkWait k f) = false) :
    r.1.filter pE = (List.range m).map mkExec ∧ r.1.filter pF = fbs := by
  have hfbs := phaseEnd_fbs h.ending
  rw [h.events, List.filter_append, List.filter_append]
  have h1 : loop.filter pE = (List.range m).map mkExec := filter_loop hE2 hE1 h.loopEvents
  have h2 : loop.filter pF = [] := by
    rw [List.filter_eq_nil_iff]
    intro e he
    rcases h.loopKinds e he with ⟨j, f, rfl⟩ | ⟨j, rfl⟩
    · simp [hF3]
    · simp [hF2]
  have h3 : fbs.filter pE = [] ∧ fbs.filter pF = fbs := by
    rcases hfbs with hf | ⟨e, hf⟩ <;> simp [hf, hE3, hF1]
  rw [h1, h2, h3.1, h3.2]
  simp

/-- never more than `budget` attempts, never an attempt after the first success — under every
    schedule of cancellations -/
theorem PhaseSpec.count_le (h : PhaseSpec mkExec mkWait mkFb exec execS budget fb fbOut r loop fbs m)
    {k : Nat} (hk : FirstOk exec k) : m ≤ min (k + 1) budget := by
  have := h.le
  by_cases hm : k + 1 < m
  · obtain ⟨e, he⟩ := h.failedBefore k hm
    obtain ⟨⟨y, hy⟩, _⟩ := hk
    rw [hy] at he; cases he
  · omega

/-- **exactly `min (k+1) N` attempts** when attempt `k` is the first to succeed and the run is not cancelled -/
theorem PhaseSpec.count_firstOk (h : PhaseSpec mkExec mkWait mkFb exec execS budget fb fbOut r loop fbs m)
    (hS : execS ≠ .absent) (hnc : ∀ kd, r.2.2 ≠ .error (.ctx kd)) {k : Nat} (hk : FirstOk exec k) :
    m = min (k + 1) budget := by
  obtain ⟨⟨y, hy⟩, hbefore⟩ := hk
  have hfb := h.failedBefore
  have hend := h.ending
  generalize r.2.2 = res at hend hnc
  cases hend with
  | noExec h0 =>
    rcases h0 with h0 | h0
    · exact absurd h0 hS
    · omega
  | @success j y' hj _ hy' =>
    have : j = k := by
      rcases Nat.lt_trichotomy j k with hlt | heq | hgt
      · obtain ⟨e, he⟩ := hbefore j hlt; rw [hy'] at he; cases he
      · exact heq
      · obtain ⟨e, he⟩ := hfb k (by omega); rw [hy] at he; cases he
    omega
  | cancelled => exact absurd rfl (hnc _)
  | @exhausted j e hj he _ =>
    have : ¬ k < j + 1 := by
      intro hlt
      by_cases hkj : k = j
      · subst hkj; rw [hy] at he; cases he
      · obtain ⟨e', he'⟩ := hfb k (by omega); rw [hy] at he'; cases he'
    omega
  | @fbOk j e x hj he _ _ =>
    have : ¬ k < j + 1 := by
      intro hlt
      by_cases hkj : k = j
      · subst hkj; rw [hy] at he; cases he
      · obtain ⟨e', he'⟩ := hfb k (by omega); rw [hy] at he'; cases he'
    omega
  | @fbErr j e e' hj he _ _ =>
    have : ¬ k < j + 1 := by
      intro hlt
      by_cases hkj : k = j
      · subst hkj; rw [hy] at he; cases he
      · obtain ⟨e', he'⟩ := hfb k (by omega); rw [hy] at he'; cases he'
    omega

/-- **exactly `N` attempts** when none of the first `N` succeeds and the run is not cancelled -/
theorem PhaseSpec.count_allFail (h : PhaseSpec mkExec mkWait mkFb exec execS budget fb fbOut r loop fbs m)
    (hS : execS ≠ .absent) (hnc : ∀ kd, r.2.2 ≠ .error (.ctx kd)) (hall : AllFail exec budget) :
    m = budget := by
  have hend := h.ending
  generalize r.2.2 = res at hend hnc
  cases hend with
  | noExec h0 =>
    rcases h0 with h0 | h0
    · exact absurd h0 hS
    · omega
  | @success j y hj _ hy => obtain ⟨e, he⟩ := hall j hj; rw [hy] at he; cases he
  | cancelled => exact absurd rfl (hnc _)
  | exhausted hj => exact hj
  | fbOk hj => exact hj
  | fbErr hj => exact hj

/-- the fallback runs only when the node has a user fallback and **all** `budget` attempts were made
    and failed (so never after a success) — under every schedule of cancellations; it runs at most
    once and receives the error of attempt `budget - 1` -/
theorem PhaseSpec.fb_only_if (h : PhaseSpec mkExec mkWait mkFb exec execS budget fb fbOut r loop fbs m) :
    fbs = [] ∨ (fb = .custom ∧ m = budget ∧ AllFail exec budget ∧
      ∃ j e, budget = j + 1 ∧ (exec j).res = .error e ∧ fbs = [mkFb e]) := by
  have hfb := h.failedBefore
  have hend := h.ending
  have key : ∀ j e, j + 1 = budget → m = j + 1 → (exec j).res = .error e → AllFail exec budget := by
    intro j e hj hm he i hi
    by_cases hij : i = j
    · subst hij; exact ⟨e, he⟩
    · exact hfb i (by omega)
  generalize r.2.2 = res at hend
  generalize hm' : m = m' at hend
  cases hend with
  | noExec => exact Or.inl rfl
  | success => exact Or.inl rfl
  | cancelled => exact Or.inl rfl
  | exhausted => exact Or.inl rfl
  | @fbOk j e x hj he hc _ => exact Or.inr ⟨hc, hj, key j e hj hm' he, j, e, hj.symm, he, rfl⟩
  | @fbErr j e e' hj he hc _ => exact Or.inr ⟨hc, hj, key j e hj hm' he, j, e, hj.symm, he, rfl⟩

/-- … and, when the run is not cancelled, it does run in that case -/
theorem PhaseSpec.fb_if (h : PhaseSpec mkExec mkWait mkFb exec execS budget fb fbOut r loop fbs m)
    (hS : execS ≠ .absent) (hnc : ∀ kd, r.2.2 ≠ .error (.ctx kd)) (hc : fb = .custom) (hb : 0 < budget)
    (hall : AllFail exec budget) : fbs ≠ [] := by
  have hend := h.ending
  generalize r.2.2 = res at hend hnc
  cases hend with
  | noExec h0 =>
    rcases h0 with h0 | h0
    · exact absurd h0 hS
    · omega
  | @success j y hj _ hy => obtain ⟨e, he⟩ := hall j hj; rw [hy] at he; cases he
  | cancelled => exact absurd rfl (hnc _)
  | exhausted _ _ hne => exact absurd hc hne
  | fbOk => simp
  | fbErr => simp

/-- attempt 0 is always made (exec callback present, budget ≥ 1, context live at the start) -/
theorem PhaseSpec.count_pos (h : PhaseSpec mkExec mkWait mkFb exec execS budget fb fbOut r loop fbs m)
    (hS : execS ≠ .absent) (hb : 0 < budget) : 0 < m := by
  have hend := h.ending
  generalize r.2.2 = res at hend
  cases hend with
  | noExec h0 =>
    rcases h0 with h0 | h0
    · exact absurd h0 hS
    · omega
  | cancelled _ _ _ hm => exact hm
  | _ => omega

/-- **first success at attempt `k < budget`**: its value is the exec phase's result, no fallback -/
theorem PhaseSpec.result_firstOk (h : PhaseSpec mkExec mkWait mkFb exec execS budget fb fbOut r loop fbs m)
    (hS : execS ≠ .absent) (hnc : ∀ kd, r.2.2 ≠ .error (.ctx kd)) {k : Nat} (hk : FirstOk exec k) (hkb : k < budget)
    {y : Val} (hy : (exec k).res = .ok y) : r.2.2 = .ok (execRet execS y) ∧ fbs = [] := by
  have hm := h.count_firstOk hS hnc hk
  have hm' : m = k + 1 := by omega
  have hend := h.ending
  generalize r.2.2 = res at hend hnc
  subst hm'
  generalize hm2 : k + 1 = m2 at hend
  cases hend with
  | noExec => omega
  | @success j y' hj _ hy' =>
    have : j = k := by omega
    subst this; rw [hy] at hy'; cases hy'; exact ⟨rfl, rfl⟩
  | cancelled => exact absurd rfl (hnc _)
  | @exhausted j e hj he =>
    have : j = k := by omega
    subst this; rw [hy] at he; cases he
  | @fbOk j e x hj he =>
    have : j = k := by omega
    subst this; rw [hy] at he; cases he
  | @fbErr j e e' hj he =>
    have : j = k := by omega
    subst this; rw [hy] at he; cases he

/-- **all `budget` attempts fail, no user fallback**: the run ends with the LAST attempt's error -/
theorem PhaseSpec.result_allFail_nofb (h : PhaseSpec mkExec mkWait mkFb exec execS budget fb fbOut r loop fbs m)
    (hS : execS ≠ .absent) (hnc : ∀ kd, r.2.2 ≠ .error (.ctx kd)) (hall : AllFail exec budget) (hb : 0 < budget)
    (hfb : fb ≠ .custom) : ∃ e, (exec (budget - 1)).res = .error e ∧ r.2.2 = .error (.user e) ∧ fbs = [] := by
  have hend := h.ending
  generalize r.2.2 = res at hend hnc
  cases hend with
  | noExec h0 =>
    rcases h0 with h0 | h0
    · exact absurd h0 hS
    · omega
  | @success j y hj _ hy => obtain ⟨e, he⟩ := hall j hj; rw [hy] at he; cases he
  | cancelled => exact absurd rfl (hnc _)
  | @exhausted j e hj he =>
    have : budget - 1 = j := by omega
    exact ⟨e, by rw [this]; exact he, rfl, rfl⟩
  | fbOk _ _ hc => exact absurd hc hfb
  | fbErr _ _ hc => exact absurd hc hfb

/-- **all `budget` attempts fail, user fallback**: it is called once with the LAST attempt's error and
    its outcome replaces the exec outcome -/
theorem PhaseSpec.result_allFail_fb (h : PhaseSpec mkExec mkWait mkFb exec execS budget fb fbOut r loop fbs m)
    (hS : execS ≠ .absent) (hnc : ∀ kd, r.2.2 ≠ .error (.ctx kd)) (hall : AllFail exec budget) (hb : 0 < budget)
    (hfb : fb = .custom) :
    ∃ e, (exec (budget - 1)).res = .error e ∧ fbs = [mkFb e] ∧
      r.2.2 = (match fbOut.res with | .ok x => .ok x | .error e' => .error (.user e')) := by
  have hend := h.ending
  generalize r.2.2 = res at hend hnc
  cases hend with
  | noExec h0 =>
    rcases h0 with h0 | h0
    · exact absurd h0 hS
    · omega
  | @success j y hj _ hy => obtain ⟨e, he⟩ := hall j hj; rw [hy] at he; cases he
  | cancelled => exact absurd rfl (hnc _)
  | exhausted _ _ hne => exact absurd hfb hne
  | @fbOk j e x hj he _ hx =>
    have : budget - 1 = j := by omega
    exact ⟨e, by rw [this]; exact he, rfl, by rw [hx]⟩
  | @fbErr j e e' hj he _ hx =>
    have : budget - 1 = j := by omega
    exact ⟨e, by rw [this]; exact he, rfl, by rw [hx]⟩

end phase

end Flyt.Proofs.Attempts
