import FlytModel.Proofs.L.Attempts
/-!
# `runItem` (= `runExecWithRetries`, batch.go:304-344 — the retry loop duplicated for batch items)
through the same `execPhase` characterisation as `Run`'s loop (helper lemmas for C02, C17)
-/
namespace Flyt.Proofs.Item
open Flyt Flyt.Spec Flyt.Proofs.Attempts

/-- event constructors of the processing of item `i` of a batch node -/
abbrev itemExec (n v i : Nat) (arg : Val) : Nat → Ev := fun k => .bexec n v i k arg
abbrev itemWait (n v i w : Nat) : Nat → Bool → Ev := fun k f => .bwait n v i k w f
abbrev itemFb (n v i : Nat) (arg : Val) : Nat → Ev := fun e => .bfb n v i arg (.user e)

theorem item_mk (n v i w : Nat) (arg : Val) : Mk (itemExec n v i arg) (itemWait n v i w) :=
  ⟨fun _ => rfl, fun _ _ => rfl⟩

/-- the exec phase of item `i`: the item (boxed `Result`) is the argument of every attempt and of the fallback -/
def itemPhase (kind : CtxKind) (n v : Nat) (cfg : BatchCfg) (i : Nat) (item : Result) (scr : ItemScript) (ctx : Ctx) :
    List Ev × Ctx × Except ErrRoot Val :=
  execPhase kind (itemExec n v i (execArg cfg.execS item.box)) (itemWait n v i cfg.wait) (itemFb n v i item.box)
    scr.exec scr.waitCancel cfg.execS cfg.wait cfg.budget cfg.fb scr.fb ctx

/-- what `runBatch*` stores in the item's slot / reports, given the exec phase's result -/
def itemResOf : Except ErrRoot Val → ItemRes
  | .ok x => .slot (slotOfVal x)
  | .error e => .error e

theorem runItem_eq (kind : CtxKind) (n v : Nat) (cfg : BatchCfg) (i : Nat) (item : Result) (scr : ItemScript) (ctx : Ctx) :
    runItem kind n v cfg i item scr ctx =
      ((itemPhase kind n v cfg i item scr ctx).1, (itemPhase kind n v cfg i item scr ctx).2.1,
       itemResOf (itemPhase kind n v cfg i item scr ctx).2.2) := by
  unfold runItem itemPhase execPhase
  simp only []
  split <;> simp_all [itemResOf]

theorem runItem_spec (kind : CtxKind) (n v : Nat) (cfg : BatchCfg) (i : Nat) (item : Result) (scr : ItemScript) :
    ∃ loop fbs m, PhaseSpec (itemExec n v i (execArg cfg.execS item.box)) (itemWait n v i cfg.wait)
      (itemFb n v i item.box) scr.exec cfg.execS cfg.budget cfg.fb scr.fb
      (itemPhase kind n v cfg i item scr .live) loop fbs m :=
  execPhase_spec kind _ _ _ scr.exec scr.waitCancel cfg.execS cfg.wait cfg.budget cfg.fb scr.fb (item_mk _ _ _ _ _)

/-- an item whose processing starts on a context that is already done runs no callback -/
theorem itemPhase_done (kind : CtxKind) (n v : Nat) (cfg : BatchCfg) (i : Nat) (item : Result) (scr : ItemScript)
    (k : CtxKind) : (itemPhase kind n v cfg i item scr (.done k)).1 = [] := by
  unfold itemPhase execPhase
  cases hb : cfg.budget with
  | zero => simp [attempts, fallbackPhase]
  | succ b => simp [attempts, fallbackPhase]

/-- no callback of the item's loop cancels the context, no retry wait of the item is interrupted -/
structure NoCancel (cfg : BatchCfg) (scr : ItemScript) : Prop where
  exec : ∀ k, (scr.exec k).cancels = false
  wait : cfg.wait = 0 ∨ ∀ k, scr.waitCancel k = false

theorem itemPhase_noCancel (kind : CtxKind) (n v : Nat) (cfg : BatchCfg) (i : Nat) (item : Result) (scr : ItemScript)
    (h : NoCancel cfg scr) (kd : CtxKind) : (itemPhase kind n v cfg i item scr .live).2.2 ≠ .error (.ctx kd) :=
  execPhase_noCancel kind _ _ _ scr.exec scr.waitCancel cfg.execS cfg.wait cfg.budget cfg.fb scr.fb h.exec h.wait kd

/-! ### reading an item's calls off a trace -/

/-- exec attempts / fallback calls / any loop event of item `i` -/
def isBexecOf (i : Nat) : Ev → Bool | .bexec _ _ j _ _ => j == i | _ => false
def isBfbOf (i : Nat) : Ev → Bool | .bfb _ _ j _ _ => j == i | _ => false
def isItemEv (i : Nat) : Ev → Bool
  | .bexec _ _ j _ _ => j == i
  | .bwait _ _ j _ _ _ => j == i
  | .bfb _ _ j _ _ => j == i
  | _ => false

def bexecCount (i : Nat) (evs : List Ev) : Nat := (evs.filter (isBexecOf i)).length
def bfbCalls (i : Nat) (evs : List Ev) : List Ev := evs.filter (isBfbOf i)

theorem isBexecOf_le (i : Nat) (e : Ev) (h : isBexecOf i e = true) : isItemEv i e = true := by
  cases e <;> simp_all [isBexecOf, isItemEv]
theorem isBfbOf_le (i : Nat) (e : Ev) (h : isBfbOf i e = true) : isItemEv i e = true := by
  cases e <;> simp_all [isBfbOf, isItemEv]

/-- filtering by a finer predicate after a coarser one -/
theorem filter_of_le {p q : Ev → Bool} (h : ∀ e, p e = true → q e = true) (l : List Ev) :
    (l.filter q).filter p = l.filter p := by
  rw [List.filter_filter]
  apply List.filter_congr
  intro e _
  cases hp : p e with
  | false => simp
  | true => simp [h e hp]

variable {kind : CtxKind} {n v : Nat} {cfg : BatchCfg} {i : Nat} {item : Result} {scr : ItemScript}

theorem phase_filters {r : List Ev × Ctx × Except ErrRoot Val} {loop fbs : List Ev} {m : Nat}
    (h : PhaseSpec (itemExec n v i (execArg cfg.execS item.box)) (itemWait n v i cfg.wait) (itemFb n v i item.box)
      scr.exec cfg.execS cfg.budget cfg.fb scr.fb r loop fbs m) :
    r.1.filter (isBexecOf i) = (List.range m).map (itemExec n v i (execArg cfg.execS item.box)) ∧
    bexecCount i r.1 = m ∧ bfbCalls i r.1 = fbs ∧ r.1.filter (isItemEv i) = r.1 := by
  have hf := h.filters (pE := isBexecOf i) (pF := isBfbOf i)
    (by intro k; simp [isBexecOf]) (by intro e he; cases e <;> simp_all [isBexecOf, Ev.isWait])
    (by intro e; simp [isBexecOf]) (by intro e; simp [isBfbOf]) (by intro k; simp [isBfbOf])
    (by intro k f; simp [isBfbOf])
  refine ⟨hf.1, by unfold bexecCount; rw [hf.1]; simp, hf.2, ?_⟩
  rw [List.filter_eq_self]
  intro e he
  rw [h.events] at he
  rcases List.mem_append.mp he with he | he
  · rcases h.loopKinds e he with ⟨j, f, rfl⟩ | ⟨j, rfl⟩ <;> simp [isItemEv]
  · rcases phaseEnd_fbs h.ending with hf | ⟨er, hf⟩ <;> simp [hf] at he
    subst he; simp [isItemEv]

/-- the events of item `i`'s processing carry the index `i` and no other -/
theorem runItem_events_self (ctx : Ctx) :
    (runItem kind n v cfg i item scr ctx).1.filter (isItemEv i) = (runItem kind n v cfg i item scr ctx).1 := by
  rw [runItem_eq]
  cases ctx with
  | done k => simp [itemPhase_done]
  | live =>
    obtain ⟨loop, fbs, m, hs⟩ := runItem_spec kind n v cfg i item scr
    exact (phase_filters hs).2.2.2

theorem runItem_events_other (ctx : Ctx) {j : Nat} (hj : j ≠ i) :
    (runItem kind n v cfg i item scr ctx).1.filter (isItemEv j) = [] := by
  rw [List.filter_eq_nil_iff]
  intro e he
  have h1 : e ∈ (runItem kind n v cfg i item scr ctx).1.filter (isItemEv i) := by
    rw [runItem_events_self]; exact he
  have h2 := (List.mem_filter.mp h1).2
  cases e <;> simp_all [isItemEv]
  all_goals omega

end Flyt.Proofs.Item
