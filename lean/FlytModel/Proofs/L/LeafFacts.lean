import FlytModel.Proofs.L.Leaf
/-!
# Readable consequences of `LeafRun` (used by Props/C01, C02, C17)
-/
namespace Flyt.Proofs.Leaf
open Flyt Flyt.Spec Flyt.Proofs.Attempts

variable {kind : CtxKind} {n v sid : Nat} {cfg : LeafCfg} {scr : LeafScript}

/-- the prep phase handed the value `pv` to the exec phase: there is no prep callback (`BaseNode.Prep`,
    nil), or it succeeded — with `pv` what `Prep` returns to `Run` — and left the context live -/
def PrepDone (cfg : LeafCfg) (scr : LeafScript) (pv : Val) : Prop :=
  prepValue cfg scr = some pv ∧ (cfg.prepS = .absent ∨ scr.prep.cancels = false)

/-- "the exec phase (an attempt or the fallback) produced the result `r` without error", read off the
    callbacks that ran (events) and what they returned (script) -/
inductive Produced (n v : Nat) (cfg : LeafCfg) (scr : LeafScript) (evs : List Ev) : Val → Prop
  /-- attempt `k` ran and returned `y` without error (`execRet` = what `Exec` hands back to `Run`) -/
  | attempt {k arg y} : Ev.exec n v k arg ∈ evs → (scr.exec k).res = .ok y →
      Produced n v cfg scr evs (execRet cfg.execS y)
  /-- the fallback ran and returned `x` without error -/
  | fallback {arg er x} : Ev.fb n v arg er ∈ evs → scr.fb.res = .ok x → Produced n v cfg scr evs x
  /-- the node has no exec callback: `BaseNode.Exec` returns `(nil, nil)` -/
  | noCallback {pv} : cfg.execS = .absent → PrepDone cfg scr pv → Produced n v cfg scr evs Val.nil

theorem mem_preEvs {e : Ev} (h : e ∈ preEvs n v sid cfg) : e = .prep n v sid ∧ cfg.prepS ≠ .absent := by
  unfold preEvs at h
  split at h
  · simp at h
  · rename_i hp; simp at h; exact ⟨h, hp⟩

section ran
variable {pv : Val} {loop fbs posts : List Ev} {m : Nat} {res : Except ErrRoot Val} {out : Outcome}

/-- where an event of a completed run can come from -/
theorem mem_ran {e : Ev}
    (he : PhaseEnd (leafFb n v pv) scr.exec cfg.execS cfg.effBudget cfg.fb scr.fb m fbs res)
    (hpost : PostEnd n v sid cfg scr pv res posts out)
    (h : e ∈ preEvs n v sid cfg ++ loop ++ fbs ++ posts) :
    (e = .prep n v sid ∧ cfg.prepS ≠ .absent) ∨ e ∈ loop ∨ (∃ er, e = leafFb n v pv er ∧ fbs = [e]) ∨
      (∃ a b, e = .post n v sid a b ∧ posts = [e]) := by
  simp only [List.mem_append] at h
  rcases h with ((h | h) | h) | h
  · exact Or.inl (mem_preEvs h)
  · exact Or.inr (Or.inl h)
  · rcases phaseEnd_fbs he with hf | ⟨er, hf⟩
    · simp [hf] at h
    · simp [hf] at h; subst h; exact Or.inr (Or.inr (Or.inl ⟨er, rfl, hf⟩))
  · rcases postEnd_posts hpost with hf | ⟨a, b, hf⟩
    · simp [hf] at h
    · simp [hf] at h; subst h; exact Or.inr (Or.inr (Or.inr ⟨a, b, rfl, hf⟩))

theorem mem_loop_exec {k : Nat} {n' v' : Nat} {arg : Val}
    (hl : noWaits loop = (List.range m).map (leafExec n v (execArg cfg.execS pv)))
    (h : Ev.exec n' v' k arg ∈ loop) : n' = n ∧ v' = v ∧ arg = execArg cfg.execS pv ∧ k < m := by
  rcases mem_noWaits_or h with hw | hm
  · simp [Ev.isWait] at hw
  · rw [hl] at hm
    simp only [List.mem_map, List.mem_range] at hm
    obtain ⟨j, hj, heq⟩ := hm
    simp only [leafExec, Ev.exec.injEq] at heq
    obtain ⟨h1, h2, h3, h4⟩ := heq
    exact ⟨h1.symm, h2.symm, h4.symm, by omega⟩

theorem exec_mem_loop {k : Nat}
    (hl : noWaits loop = (List.range m).map (leafExec n v (execArg cfg.execS pv))) (hk : k < m) :
    Ev.exec n v k (execArg cfg.execS pv) ∈ loop := by
  have : Ev.exec n v k (execArg cfg.execS pv) ∈ noWaits loop := by
    rw [hl]; simp only [List.mem_map, List.mem_range]; exact ⟨k, hk, rfl⟩
  unfold noWaits at this
  exact (List.mem_filter.mp this).1

/-- every exec event of a run is an attempt of this visit, numbered below `m`, and received the prep value -/
theorem exec_mem_ran {k n' v' : Nat} {arg : Val}
    (hl : noWaits loop = (List.range m).map (leafExec n v (execArg cfg.execS pv)))
    (he : PhaseEnd (leafFb n v pv) scr.exec cfg.execS cfg.effBudget cfg.fb scr.fb m fbs res)
    (hpost : PostEnd n v sid cfg scr pv res posts out)
    (h : Ev.exec n' v' k arg ∈ preEvs n v sid cfg ++ loop ++ fbs ++ posts) :
    n' = n ∧ v' = v ∧ arg = execArg cfg.execS pv ∧ k < m := by
  rcases mem_ran he hpost h with ⟨h, _⟩ | h | ⟨er, h, _⟩ | ⟨a, b, h, _⟩
  · cases h
  · exact mem_loop_exec hl h
  · cases h
  · cases h

/-- **the exec phase's result is `ok r` exactly when an attempt or the fallback produced `r`** -/
theorem produced_iff (hb : 1 ≤ cfg.effBudget) (hpv : PrepDone cfg scr pv)
    (hl : noWaits loop = (List.range m).map (leafExec n v (execArg cfg.execS pv)))
    (hfb : ∀ j, j + 1 < m → ∃ e, (scr.exec j).res = .error e)
    (he : PhaseEnd (leafFb n v pv) scr.exec cfg.execS cfg.effBudget cfg.fb scr.fb m fbs res)
    (hpost : PostEnd n v sid cfg scr pv res posts out) (r : Val) :
    res = .ok r ↔ Produced n v cfg scr (preEvs n v sid cfg ++ loop ++ fbs ++ posts) r := by
  constructor
  · intro hres
    subst hres
    generalize hr : Except.ok r = res at he
    cases he with
    | noExec h0 =>
      cases hr
      rcases h0 with h0 | h0
      · exact .noCallback h0 hpv
      · omega
    | @success j y hj hS hy =>
      cases hr
      refine .attempt (k := j) (arg := execArg cfg.execS pv) ?_ hy
      simp only [List.mem_append]
      exact Or.inl (Or.inl (Or.inr (exec_mem_loop hl (by omega))))
    | cancelled => cases hr
    | exhausted => cases hr
    | @fbOk j e x hj he' hc hx =>
      cases hr
      exact .fallback (arg := pv) (er := .user e) (by simp [leafFb]) hx
    | fbErr => cases hr
  · intro hp
    cases hp with
    | @attempt k arg y hmem hy =>
      obtain ⟨_, _, _, hk⟩ := exec_mem_ran hl he hpost hmem
      -- attempt k succeeded, so it is the last one
      have hlast : m = k + 1 := by
        by_cases hlt : k + 1 < m
        · obtain ⟨e, he'⟩ := hfb k hlt; rw [hy] at he'; cases he'
        · omega
      subst hlast
      generalize hm2 : k + 1 = m2 at he
      cases he with
      | noExec => omega
      | @success j y' hj hS hy' =>
        have : j = k := by omega
        subst this; rw [hy] at hy'; cases hy'; rfl
      | @cancelled m kd hm hS hl' =>
        obtain ⟨e, he'⟩ := hl' k hm2.symm; rw [hy] at he'; cases he'
      | @exhausted j e hj he' =>
        have : j = k := by omega
        subst this; rw [hy] at he'; cases he'
      | @fbOk j e x hj he' =>
        have : j = k := by omega
        subst this; rw [hy] at he'; cases he'
      | @fbErr j e e' hj he' =>
        have : j = k := by omega
        subst this; rw [hy] at he'; cases he'
    | @fallback arg er x hmem hx =>
      rcases mem_ran he hpost hmem with ⟨h, _⟩ | h | ⟨er', h, hf⟩ | ⟨a, b, h, _⟩
      · cases h
      · rcases mem_noWaits_or h with hw | hm
        · simp [Ev.isWait] at hw
        · rw [hl] at hm; simp [leafExec] at hm
      · generalize hm2 : m = m2 at he
        cases he with
        | noExec => simp at hf
        | success => simp at hf
        | cancelled => simp at hf
        | exhausted => simp at hf
        | @fbOk j e x' hj he' hc hx' => rw [hx] at hx'; cases hx'; rfl
        | @fbErr j e e' hj he' hc hx' => rw [hx] at hx'; cases hx'
      · cases h
    | @noCallback pv' hS _ =>
      cases he with
      | noExec => rfl
      | success _ hS' => exact absurd hS hS'
      | cancelled _ hS' => exact absurd hS hS'
      | exhausted _ _ _ hS' => exact absurd hS hS'
      | fbOk _ _ _ _ hS' => exact absurd hS hS'
      | fbErr _ _ _ _ hS' => exact absurd hS hS'

end ran

/-! ### facts about a whole run -/

variable {evs : List Ev} {out : Outcome}

/-- prep runs exactly once, first, with the store of the run -/
theorem LeafRun.prep_first (h : LeafRun kind n v sid cfg scr evs out) :
    ∃ rest, evs = preEvs n v sid cfg ++ rest ∧ ∀ e ∈ rest, isPrepEv e = false := by
  cases h with
  | prepFailed hp => exact ⟨[], by simp [preEvs, hp], by simp⟩
  | prepCancelled hp => exact ⟨[], by simp [preEvs, hp], by simp⟩
  | @ran pv loop fbs posts m res out hpv hc hl hk hle hfb he hpost =>
    refine ⟨loop ++ fbs ++ posts, by simp [List.append_assoc], ?_⟩
    intro e hmem
    simp only [List.mem_append] at hmem
    rcases hmem with (h | h) | h
    · rcases hk e h with ⟨j, f, rfl⟩ | ⟨j, rfl⟩ <;> rfl
    · rcases phaseEnd_fbs he with hf | ⟨er, hf⟩ <;> simp [hf] at h
      subst h; rfl
    · rcases postEnd_posts hpost with hf | ⟨a, b, hf⟩ <;> simp [hf] at h
      subst h; rfl

/-- the phases come in order: prep, then only retry-loop events (waits and exec attempts of this
    visit), then at most one fallback, then at most one post (with the store of the run) — nothing else -/
theorem LeafRun.phases (h : LeafRun kind n v sid cfg scr evs out) :
    ∃ loop fbs posts, evs = preEvs n v sid cfg ++ loop ++ fbs ++ posts ∧
      (∀ e ∈ loop, (∃ k f, e = .wait n v k cfg.effWait f) ∨ (∃ k arg, e = .exec n v k arg)) ∧
      (fbs = [] ∨ ∃ arg er, fbs = [.fb n v arg er]) ∧
      (posts = [] ∨ ∃ a b, posts = [.post n v sid a b]) := by
  cases h with
  | prepFailed hp => exact ⟨[], [], [], by simp [preEvs, hp], by simp, Or.inl rfl, Or.inl rfl⟩
  | prepCancelled hp => exact ⟨[], [], [], by simp [preEvs, hp], by simp, Or.inl rfl, Or.inl rfl⟩
  | @ran pv loop fbs posts m res out hpv hc hl hk hle hfb he hpost =>
    refine ⟨loop, fbs, posts, rfl, ?_, ?_, postEnd_posts hpost⟩
    · intro e h
      rcases hk e h with ⟨j, f, rfl⟩ | ⟨j, rfl⟩
      · exact Or.inl ⟨j, f, rfl⟩
      · exact Or.inr ⟨j, _, rfl⟩
    · rcases phaseEnd_fbs he with hf | ⟨er, hf⟩
      · exact Or.inl hf
      · exact Or.inr ⟨pv, .user er, hf⟩

/-- every event of a run carries the node's id and the visit number -/
theorem LeafRun.keys (h : LeafRun kind n v sid cfg scr evs out) : ∀ e ∈ evs, evKey e = (n, v) := by
  obtain ⟨loop, fbs, posts, hev, hl, hf, hq⟩ := h.phases
  intro e he
  rw [hev] at he
  simp only [List.mem_append] at he
  rcases he with ((he | he) | he) | he
  · rw [(mem_preEvs he).1]; rfl
  · rcases hl e he with ⟨k, f, rfl⟩ | ⟨k, a, rfl⟩ <;> rfl
  · rcases hf with hf | ⟨a, er, hf⟩ <;> simp [hf] at he
    subst he; rfl
  · rcases hq with hq | ⟨a, b, hq⟩ <;> simp [hq] at he
    subst he; rfl

theorem filter_exec_loop {loop : List Ev} {m : Nat} {f : Nat → Ev} (hf : ∀ k, isExecEv (f k) = true)
    (hl : noWaits loop = (List.range m).map f)
    (hk : ∀ e ∈ loop, e.isWait = true ∨ isExecEv e = true) : loop.filter isExecEv = (List.range m).map f := by
  have h1 : loop.filter isExecEv = (noWaits loop).filter isExecEv := by
    unfold noWaits
    rw [List.filter_filter]
    apply List.filter_congr
    intro e he
    rcases hk e he with h | h
    · cases e <;> simp_all [Ev.isWait, isExecEv]
    · cases e <;> simp_all [Ev.isWait, isExecEv]
  rw [h1, hl, List.filter_eq_self]
  intro e he
  simp only [List.mem_map] at he
  obtain ⟨j, _, rfl⟩ := he
  exact hf j

/-- **the exec attempts of a run**: numbered 0, 1, 2, …, at most `effBudget` of them, and each one
    receives exactly the value prep returned -/
theorem LeafRun.execs (h : LeafRun kind n v sid cfg scr evs out) :
    (∀ pv, prepValue cfg scr = some pv → ∃ m, m ≤ cfg.effBudget ∧
      evs.filter isExecEv = (List.range m).map (fun k => Ev.exec n v k (execArg cfg.execS pv))) ∧
    (prepValue cfg scr = none → evs.filter isExecEv = []) := by
  cases h with
  | prepFailed hp hr =>
    constructor
    · intro pv hpv; simp [prepValue, hp, okVal, hr] at hpv
    · intro _; simp [isExecEv]
  | prepCancelled hp hr hc =>
    constructor
    · intro pv _; exact ⟨0, by omega, by simp [isExecEv]⟩
    · intro _; simp [isExecEv]
  | @ran pv loop fbs posts m res out hpv hc hl hk hle hfb he hpost =>
    constructor
    · intro pv' hpv'
      rw [hpv] at hpv'; cases hpv'
      refine ⟨m, hle, ?_⟩
      have hpre : (preEvs n v sid cfg).filter isExecEv = [] := by
        unfold preEvs; split <;> simp [isExecEv]
      have hf : fbs.filter isExecEv = [] := by
        rcases phaseEnd_fbs he with hf | ⟨er, hf⟩ <;> simp [hf, isExecEv]
      have hq : posts.filter isExecEv = [] := by
        rcases postEnd_posts hpost with hf | ⟨a, b, hf⟩ <;> simp [hf, isExecEv]
      simp only [List.filter_append, hpre, hf, hq, List.append_nil, List.nil_append]
      apply filter_exec_loop (fun _ => rfl) hl
      intro e he'
      rcases hk e he' with ⟨j, f, rfl⟩ | ⟨j, rfl⟩
      · exact Or.inl rfl
      · exact Or.inr rfl
    · intro hnone; rw [hpv] at hnone; cases hnone

/-- **post runs iff the exec phase produced a result, at most once, last, and receives the run's store,
    the prep value and that result** -/
theorem LeafRun.post (h : LeafRun kind n v sid cfg scr evs out) (hb : 1 ≤ cfg.effBudget) :
    ((∃ s a b, Ev.post n v s a b ∈ evs) ↔ cfg.postS ≠ .absent ∧ ∃ r, Produced n v cfg scr evs r) ∧
    (∀ s a b, Ev.post n v s a b ∈ evs →
      s = sid ∧ (evs.filter isPostEv = [Ev.post n v s a b]) ∧ evs.getLast? = some (Ev.post n v s a b) ∧
      ∃ pv r, PrepDone cfg scr pv ∧ Produced n v cfg scr evs r ∧
        a = (postArgs cfg.postS pv r).1 ∧ b = (postArgs cfg.postS pv r).2) := by
  cases h with
  | prepFailed hp hr =>
    constructor
    · constructor
      · rintro ⟨s, a, b, hm⟩; simp at hm
      · rintro ⟨_, r, hprod⟩
        cases hprod with
        | attempt hm => simp at hm
        | fallback hm => simp at hm
        | noCallback _ hd => simp [PrepDone, prepValue, hp, okVal, hr] at hd
    · intro s a b hm; simp at hm
  | prepCancelled hp hr hc =>
    constructor
    · constructor
      · rintro ⟨s, a, b, hm⟩; simp at hm
      · rintro ⟨_, r, hprod⟩
        cases hprod with
        | attempt hm => simp at hm
        | fallback hm => simp at hm
        | noCallback _ hd => simp [PrepDone, hp, hc] at hd
    · intro s a b hm; simp at hm
  | @ran pv loop fbs posts m res out hpv hc hl hk hle hfb he hpost =>
    have hd : PrepDone cfg scr pv := ⟨hpv, hc⟩
    have hiff := produced_iff hb hd hl hfb he hpost
    have hmem : ∀ s a b, Ev.post n v s a b ∈ preEvs n v sid cfg ++ loop ++ fbs ++ posts →
        posts = [Ev.post n v s a b] ∧ s = sid := by
      intro s a b hm
      rcases mem_ran he hpost hm with ⟨h, _⟩ | h | ⟨er, h, _⟩ | ⟨a', b', h, hp⟩
      · cases h
      · rcases hk _ h with ⟨j, f, h⟩ | ⟨j, h⟩ <;> cases h
      · cases h
      · cases h; exact ⟨hp, rfl⟩
    constructor
    · constructor
      · rintro ⟨s, a, b, hm⟩
        obtain ⟨hp, _⟩ := hmem s a b hm
        cases hpost with
        | failed => simp at hp
        | noPost => simp at hp
        | @postErr ev e hps hr => exact ⟨hps, ev, (hiff ev).mp rfl⟩
        | @postOk ev a' hps hr => exact ⟨hps, ev, (hiff ev).mp rfl⟩
      · rintro ⟨hps, r, hprod⟩
        have hres := (hiff r).mpr hprod
        subst hres
        cases hpost with
        | noPost h => exact absurd h hps
        | postErr => exact ⟨sid, _, _, List.mem_append_right _ (List.mem_singleton.mpr rfl)⟩
        | postOk => exact ⟨sid, _, _, List.mem_append_right _ (List.mem_singleton.mpr rfl)⟩
    · intro s a b hm
      obtain ⟨hp, hs⟩ := hmem s a b hm
      subst hs
      have hfilter : (preEvs n v s cfg ++ loop ++ fbs).filter isPostEv = [] := by
        rw [List.filter_eq_nil_iff]
        intro e he'
        simp only [List.mem_append] at he'
        rcases he' with (h | h) | h
        · rw [(mem_preEvs h).1]; simp [isPostEv]
        · rcases hk e h with ⟨j, f, rfl⟩ | ⟨j, rfl⟩ <;> simp [isPostEv]
        · rcases phaseEnd_fbs he with hf | ⟨er, hf⟩ <;> simp [hf] at h
          subst h; simp [isPostEv]
      refine ⟨rfl, ?_, ?_, ?_⟩
      · rw [List.filter_append, hfilter, hp]; simp [isPostEv]
      · rw [hp]; simp
      · cases hpost with
        | failed => simp at hp
        | noPost => simp at hp
        | @postErr ev e hps hr =>
          simp only [List.cons.injEq, Ev.post.injEq, and_true, true_and] at hp
          exact ⟨pv, ev, hd, (hiff ev).mp rfl, hp.1.symm, hp.2.symm⟩
        | @postOk ev a' hps hr =>
          simp only [List.cons.injEq, Ev.post.injEq, and_true, true_and] at hp
          exact ⟨pv, ev, hd, (hiff ev).mp rfl, hp.1.symm, hp.2.symm⟩

/-- number of exec attempts in a trace / the fallback calls of a trace / its post calls -/
def execCount (evs : List Ev) : Nat := (evs.filter isExecEv).length
def fbCalls (evs : List Ev) : List Ev := evs.filter isFbEv
def postCalls (evs : List Ev) : List Ev := evs.filter isPostEv

/-- reading the exec / fallback / post calls off the trace of a completed run -/
theorem ran_filters {pv : Val} {loop fbs posts : List Ev} {m : Nat} {res : Except ErrRoot Val}
    (hl : noWaits loop = (List.range m).map (leafExec n v (execArg cfg.execS pv)))
    (hk : ∀ e ∈ loop, (∃ j f, e = leafWait n v cfg.effWait j f) ∨ (∃ j, e = leafExec n v (execArg cfg.execS pv) j))
    (he : PhaseEnd (leafFb n v pv) scr.exec cfg.execS cfg.effBudget cfg.fb scr.fb m fbs res)
    (hpost : PostEnd n v sid cfg scr pv res posts out) :
    (preEvs n v sid cfg ++ loop ++ fbs ++ posts).filter isExecEv =
        (List.range m).map (leafExec n v (execArg cfg.execS pv)) ∧
    execCount (preEvs n v sid cfg ++ loop ++ fbs ++ posts) = m ∧
    fbCalls (preEvs n v sid cfg ++ loop ++ fbs ++ posts) = fbs ∧
    postCalls (preEvs n v sid cfg ++ loop ++ fbs ++ posts) = posts := by
  have hkinds : ∀ e ∈ loop, e.isWait = true ∨ isExecEv e = true := by
    intro e he'
    rcases hk e he' with ⟨j, f, rfl⟩ | ⟨j, rfl⟩
    · exact Or.inl rfl
    · exact Or.inr rfl
  have hpreE : (preEvs n v sid cfg).filter isExecEv = [] := by unfold preEvs; split <;> simp [isExecEv]
  have hpreF : (preEvs n v sid cfg).filter isFbEv = [] := by unfold preEvs; split <;> simp [isFbEv]
  have hpreP : (preEvs n v sid cfg).filter isPostEv = [] := by unfold preEvs; split <;> simp [isPostEv]
  have hloopF : loop.filter isFbEv = [] := by
    rw [List.filter_eq_nil_iff]; intro e he'
    rcases hk e he' with ⟨j, f, rfl⟩ | ⟨j, rfl⟩ <;> simp [isFbEv]
  have hloopP : loop.filter isPostEv = [] := by
    rw [List.filter_eq_nil_iff]; intro e he'
    rcases hk e he' with ⟨j, f, rfl⟩ | ⟨j, rfl⟩ <;> simp [isPostEv]
  have hfE : fbs.filter isExecEv = [] ∧ fbs.filter isFbEv = fbs ∧ fbs.filter isPostEv = [] := by
    rcases phaseEnd_fbs he with hf | ⟨er, hf⟩ <;> simp [hf, isExecEv, isFbEv, isPostEv]
  have hqE : posts.filter isExecEv = [] ∧ posts.filter isFbEv = [] ∧ posts.filter isPostEv = posts := by
    rcases postEnd_posts hpost with hf | ⟨a, b, hf⟩ <;> simp [hf, isExecEv, isFbEv, isPostEv]
  have hE : (preEvs n v sid cfg ++ loop ++ fbs ++ posts).filter isExecEv =
      (List.range m).map (leafExec n v (execArg cfg.execS pv)) := by
    simp only [List.filter_append, hpreE, hfE.1, hqE.1, List.append_nil, List.nil_append]
    exact filter_exec_loop (fun _ => rfl) hl hkinds
  refine ⟨hE, ?_, ?_, ?_⟩
  · unfold execCount; rw [hE]; simp
  · unfold fbCalls
    simp only [List.filter_append, hpreF, hloopF, hfE.2.1, hqE.2.1, List.append_nil, List.nil_append]
  · unfold postCalls
    simp only [List.filter_append, hpreP, hloopP, hfE.2.2, hqE.2.2, List.append_nil, List.nil_append]

/-- **a run whose prep handed over a value, as an exec phase (`PhaseSpec`) followed by a post phase
    (`PostEnd`)**, with the exec / fallback / post events read off the trace by their kind -/
theorem LeafRun.toPhase (h : LeafRun kind n v sid cfg scr evs out) {pv : Val} (hd : PrepDone cfg scr pv) :
    ∃ loop fbs m res,
      PhaseSpec (leafExec n v (execArg cfg.execS pv)) (leafWait n v cfg.effWait) (leafFb n v pv)
        scr.exec cfg.execS cfg.effBudget cfg.fb scr.fb (loop ++ fbs, Ctx.live, res) loop fbs m ∧
      evs.filter isExecEv = (List.range m).map (leafExec n v (execArg cfg.execS pv)) ∧
      execCount evs = m ∧ fbCalls evs = fbs ∧
      PostEnd n v sid cfg scr pv res (postCalls evs) out := by
  cases h with
  | prepFailed hp hr => simp [PrepDone, prepValue, hp, okVal, hr] at hd
  | prepCancelled hp hr hc => simp [PrepDone, hp, hc] at hd
  | @ran pv' loop fbs posts m res out hpv hc hl hk hle hfb he hpost =>
    have : pv' = pv := by
      have := hd.1; rw [hpv] at this; cases this; rfl
    subst this
    obtain ⟨h1, h2, h3, h4⟩ := ran_filters hl hk he hpost
    exact ⟨loop, fbs, m, res, ⟨rfl, hl, hk, hle, hfb, he⟩, h1, h2, h3, by rw [h4]; exact hpost⟩

/-- a run that prep stopped (it failed, or cancelled the context) makes no exec attempt and no fallback call -/
theorem LeafRun.stopped (h : LeafRun kind n v sid cfg scr evs out) (hd : ¬ ∃ pv, PrepDone cfg scr pv) :
    execCount evs = 0 ∧ fbCalls evs = [] ∧ postCalls evs = [] := by
  cases h with
  | prepFailed hp hr => simp [execCount, fbCalls, postCalls, isExecEv, isFbEv, isPostEv]
  | prepCancelled hp hr hc => simp [execCount, fbCalls, postCalls, isExecEv, isFbEv, isPostEv]
  | ran hpv hc => exact absurd ⟨_, hpv, hc⟩ hd

/-- the outcome is an action or an error (no hypothesis) -/
theorem LeafRun.ok_or_err (h : LeafRun kind n v sid cfg scr evs out) :
    (∃ a, out = .ok a ∧ a ≠ "") ∨ (∃ e, out = .err e) := by
  cases h with
  | prepFailed => exact Or.inr ⟨_, rfl⟩
  | prepCancelled => exact Or.inr ⟨_, rfl⟩
  | ran _ _ _ _ _ _ _ hpost =>
    cases hpost with
    | failed => exact Or.inr ⟨_, rfl⟩
    | noPost => exact Or.inl ⟨_, rfl, by simp [defaultAction]⟩
    | postErr => exact Or.inr ⟨_, rfl⟩
    | postOk => exact Or.inl ⟨_, rfl, norm_ne_empty _⟩

/-- **the outcome**: post's action (the default action for an empty one, or when the node has no post
    callback) with a nil error — exactly when the exec phase produced a result and post did not fail —
    or an empty action with a non-nil error; never both, never neither -/
theorem LeafRun.outcome (h : LeafRun kind n v sid cfg scr evs out) (hb : 1 ≤ cfg.effBudget) :
    (∃ a, out = .ok a ∧ a ≠ "" ∧ (∃ r, Produced n v cfg scr evs r) ∧
        ((cfg.postS = .absent ∧ a = defaultAction) ∨
         (cfg.postS ≠ .absent ∧ ∃ a', scr.post.res = .ok a' ∧ a = norm a'))) ∨
    (∃ e, out = .err e ∧
        ¬ ((∃ r, Produced n v cfg scr evs r) ∧ (cfg.postS = .absent ∨ ∃ a', scr.post.res = .ok a'))) := by
  cases h with
  | prepFailed hp hr =>
    right
    refine ⟨_, rfl, ?_⟩
    rintro ⟨⟨r, hprod⟩, _⟩
    cases hprod with
    | attempt hm => simp at hm
    | fallback hm => simp at hm
    | noCallback _ hd => simp [PrepDone, prepValue, hp, okVal, hr] at hd
  | prepCancelled hp hr hc =>
    right
    refine ⟨_, rfl, ?_⟩
    rintro ⟨⟨r, hprod⟩, _⟩
    cases hprod with
    | attempt hm => simp at hm
    | fallback hm => simp at hm
    | noCallback _ hd => simp [PrepDone, hp, hc] at hd
  | @ran pv loop fbs posts m res out hpv hc hl hk hle hfb he hpost =>
    have hd : PrepDone cfg scr pv := ⟨hpv, hc⟩
    have hiff := produced_iff hb hd hl hfb he hpost
    cases hpost with
    | @failed er =>
      right
      refine ⟨er, rfl, ?_⟩
      rintro ⟨⟨r, hprod⟩, _⟩
      have := (hiff r).mpr hprod
      cases this
    | @noPost ev hps =>
      left
      exact ⟨_, rfl, by simp [defaultAction], ⟨ev, (hiff ev).mp rfl⟩, Or.inl ⟨hps, rfl⟩⟩
    | @postErr ev e hps hr =>
      right
      refine ⟨_, rfl, ?_⟩
      rintro ⟨_, h | ⟨a', h⟩⟩
      · exact hps h
      · rw [hr] at h; cases h
    | @postOk ev a hps hr =>
      left
      exact ⟨_, rfl, norm_ne_empty a, ⟨ev, (hiff ev).mp rfl⟩, Or.inr ⟨hps, a, hr, rfl⟩⟩

end Flyt.Proofs.Leaf
