import FlytModel.Proofs.L.Attempts
/-!
# `runLeaf` (= `flyt.Run` on a plain / function-style node) in closed form

`LeafRun` lists the ways a run on a live context can go: stopped by prep (error / cancellation inside
prep), or prep value `pv` → exec phase (`PhaseEnd`) → post phase (`PostEnd`).  `runLeaf_live_spec`
shows `runLeaf` does nothing else, for every configuration, script and budget.
Also: `runItem` (the duplicated loop `runExecWithRetries` of batch.go) through the same `execPhase`.
-/
namespace Flyt.Proofs.Leaf
open Flyt Flyt.Spec Flyt.Proofs.Attempts

/-- event constructors of a plain node's run -/
abbrev leafExec (n v : Nat) (arg : Val) : Nat → Ev := fun k => .exec n v k arg
abbrev leafWait (n v w : Nat) : Nat → Bool → Ev := fun k f => .wait n v k w f
abbrev leafFb (n v : Nat) (pv : Val) : Nat → Ev := fun e => .fb n v pv (.user e)

theorem leaf_mk (n v w : Nat) (arg : Val) : Mk (leafExec n v arg) (leafWait n v w) :=
  ⟨fun _ => rfl, fun _ _ => rfl⟩

/-- the prep event of a visit (none for a node without prep callback) -/
def preEvs (n v sid : Nat) (cfg : LeafCfg) : List Ev := if cfg.prepS = .absent then [] else [.prep n v sid]

/-- How the post phase ends, given the exec phase's result.
    Indices: exec-phase result, post events, outcome of the run. -/
inductive PostEnd (n v sid : Nat) (cfg : LeafCfg) (scr : LeafScript) (pv : Val) :
    Except ErrRoot Val → List Ev → Outcome → Prop
  /-- the exec phase failed: post does not run, the run returns that error -/
  | failed {er} : PostEnd n v sid cfg scr pv (.error er) [] (.err er)
  /-- `BaseNode.Post`: no user code, `DefaultAction` -/
  | noPost {ev} : cfg.postS = .absent → PostEnd n v sid cfg scr pv (.ok ev) [] (.ok defaultAction)
  | postErr {ev e} : cfg.postS ≠ .absent → scr.post.res = .error e →
      PostEnd n v sid cfg scr pv (.ok ev)
        [.post n v sid (postArgs cfg.postS pv ev).1 (postArgs cfg.postS pv ev).2] (.err (.user e))
  | postOk {ev a} : cfg.postS ≠ .absent → scr.post.res = .ok a →
      PostEnd n v sid cfg scr pv (.ok ev)
        [.post n v sid (postArgs cfg.postS pv ev).1 (postArgs cfg.postS pv ev).2] (.ok (norm a))

theorem postEnd_posts {n v sid : Nat} {cfg : LeafCfg} {scr : LeafScript} {pv : Val} {res : Except ErrRoot Val}
    {posts : List Ev} {out : Outcome}
    (h : PostEnd n v sid cfg scr pv res posts out) : posts = [] ∨ ∃ a b, posts = [.post n v sid a b] := by
  cases h <;> simp

/-- Every way a run of a leaf node on a live context can go.  Indices: events, outcome. -/
inductive LeafRun (kind : CtxKind) (n v sid : Nat) (cfg : LeafCfg) (scr : LeafScript) : List Ev → Outcome → Prop
  | prepFailed {e} : cfg.prepS ≠ .absent → scr.prep.res = .error e →
      LeafRun kind n v sid cfg scr [.prep n v sid] (.err (.user e))
  | prepCancelled {x} : cfg.prepS ≠ .absent → scr.prep.res = .ok x → scr.prep.cancels = true →
      LeafRun kind n v sid cfg scr [.prep n v sid] (.err (.ctx kind))
  | ran {pv loop fbs posts m res out} :
      prepValue cfg scr = some pv →
      (cfg.prepS = .absent ∨ scr.prep.cancels = false) →
      noWaits loop = (List.range m).map (leafExec n v (execArg cfg.execS pv)) →
      (∀ e ∈ loop, (∃ j f, e = leafWait n v cfg.effWait j f) ∨ (∃ j, e = leafExec n v (execArg cfg.execS pv) j)) →
      m ≤ cfg.effBudget →
      (∀ j, j + 1 < m → ∃ e, (scr.exec j).res = .error e) →
      PhaseEnd (leafFb n v pv) scr.exec cfg.execS cfg.effBudget cfg.fb scr.fb m fbs res →
      PostEnd n v sid cfg scr pv res posts out →
      LeafRun kind n v sid cfg scr (preEvs n v sid cfg ++ loop ++ fbs ++ posts) out

/-- `runLeaf` after a successful prep, in terms of `execPhase` -/
def afterPrep (kind : CtxKind) (n v sid : Nat) (cfg : LeafCfg) (scr : LeafScript) (pev : List Ev) (pv : Val) :
    List Ev × Ctx × Outcome :=
  let p := execPhase kind (leafExec n v (execArg cfg.execS pv)) (leafWait n v cfg.effWait) (leafFb n v pv)
    scr.exec scr.waitCancel cfg.execS cfg.effWait cfg.effBudget cfg.fb scr.fb .live
  match p.2.2 with
  | .error e => (pev ++ p.1, p.2.1, .err e)
  | .ok ev =>
    match cfg.postS with
    | .absent => (pev ++ p.1, p.2.1, .ok defaultAction)
    | s =>
      match scr.post.res with
      | .error e => (pev ++ p.1 ++ [.post n v sid (postArgs s pv ev).1 (postArgs s pv ev).2],
          p.2.1.after kind scr.post.cancels, .err (.user e))
      | .ok a => (pev ++ p.1 ++ [.post n v sid (postArgs s pv ev).1 (postArgs s pv ev).2],
          p.2.1.after kind scr.post.cancels, .ok (norm a))

theorem runLeaf_live_eq (kind : CtxKind) (n v sid : Nat) (cfg : LeafCfg) (scr : LeafScript) :
    runLeaf kind n v sid cfg scr .live =
      if cfg.prepS = .absent then afterPrep kind n v sid cfg scr [] Val.nil
      else
        match scr.prep.res with
        | .error e => ([.prep n v sid], Ctx.live.after kind scr.prep.cancels, .err (.user e))
        | .ok x =>
          if scr.prep.cancels then ([.prep n v sid], .done kind, .err (.ctx kind))
          else afterPrep kind n v sid cfg scr [.prep n v sid] (prepRet cfg.prepS x) := by
  unfold runLeaf afterPrep execPhase
  cases hp : cfg.prepS <;> simp only [reduceCtorEq, if_true, if_false]
  case absent => simp only [List.append_assoc]; rfl
  all_goals
    cases hr : scr.prep.res with
    | error e => rfl
    | ok x =>
      cases hc : scr.prep.cancels with
      | true => rfl
      | false => simp only [Except.map, Ctx.after, List.append_assoc]; rfl

theorem afterPrep_spec (kind : CtxKind) (n v sid : Nat) (cfg : LeafCfg) (scr : LeafScript) (pv : Val)
    (hpv : prepValue cfg scr = some pv) (hc : cfg.prepS = .absent ∨ scr.prep.cancels = false) :
    LeafRun kind n v sid cfg scr (afterPrep kind n v sid cfg scr (preEvs n v sid cfg) pv).1
      (afterPrep kind n v sid cfg scr (preEvs n v sid cfg) pv).2.2 := by
  obtain ⟨loop, fbs, m, hs⟩ := execPhase_spec kind (leafExec n v (execArg cfg.execS pv)) (leafWait n v cfg.effWait)
    (leafFb n v pv) scr.exec scr.waitCancel cfg.execS cfg.effWait cfg.effBudget cfg.fb scr.fb (leaf_mk _ _ _ _)
  unfold afterPrep
  generalize execPhase kind (leafExec n v (execArg cfg.execS pv)) (leafWait n v cfg.effWait)
    (leafFb n v pv) scr.exec scr.waitCancel cfg.execS cfg.effWait cfg.effBudget cfg.fb scr.fb .live = p at hs
  obtain ⟨pevs, pctx, pres⟩ := p
  have hev : pevs = loop ++ fbs := hs.events
  subst hev
  have mk := fun posts out (h : PostEnd n v sid cfg scr pv pres posts out) =>
    LeafRun.ran (kind := kind) hpv hc hs.loopEvents hs.loopKinds hs.le hs.failedBefore hs.ending h
  cases pres with
  | error e =>
    have := mk [] _ .failed
    simpa [List.append_assoc] using this
  | ok ev =>
    cases hps : cfg.postS with
    | absent =>
      have := mk [] _ (.noPost hps)
      simpa [List.append_assoc] using this
    | _ =>
      cases hpr : scr.post.res with
      | error e =>
        have := mk _ _ (.postErr (ev := ev) (by simp [hps]) hpr)
        simpa [List.append_assoc, hps] using this
      | ok a =>
        have := mk _ _ (.postOk (ev := ev) (by simp [hps]) hpr)
        simpa [List.append_assoc, hps] using this

/-- **`runLeaf` on a live context does nothing but what `LeafRun` lists.** -/
theorem runLeaf_live_spec (kind : CtxKind) (n v sid : Nat) (cfg : LeafCfg) (scr : LeafScript) :
    LeafRun kind n v sid cfg scr (runLeaf kind n v sid cfg scr .live).1 (runLeaf kind n v sid cfg scr .live).2.2 := by
  rw [runLeaf_live_eq]
  by_cases hp : cfg.prepS = .absent
  · rw [if_pos hp]
    have := afterPrep_spec kind n v sid cfg scr Val.nil (by simp [prepValue, hp]) (Or.inl hp)
    simpa [preEvs, hp] using this
  · rw [if_neg hp]
    cases hr : scr.prep.res with
    | error e => exact .prepFailed hp hr
    | ok x =>
      cases hc : scr.prep.cancels with
      | true => exact .prepCancelled hp hr hc
      | false =>
        have := afterPrep_spec kind n v sid cfg scr (prepRet cfg.prepS x)
          (by simp [prepValue, hp, okVal, hr]) (Or.inr hc)
        simpa [preEvs, hp] using this

/-- nothing in the scenario cancels the context while the node runs: no callback of the exec loop or
    prep does, and no retry wait is interrupted (the fallback and post callbacks may: nothing is
    checked after them) -/
structure NoCancel (cfg : LeafCfg) (scr : LeafScript) : Prop where
  prep : scr.prep.cancels = false
  exec : ∀ k, (scr.exec k).cancels = false
  wait : cfg.effWait = 0 ∨ ∀ k, scr.waitCancel k = false

theorem afterPrep_noCancel (kind : CtxKind) (n v sid : Nat) (cfg : LeafCfg) (scr : LeafScript) (pev : List Ev) (pv : Val)
    (h : NoCancel cfg scr) (kd : CtxKind) : (afterPrep kind n v sid cfg scr pev pv).2.2 ≠ .err (.ctx kd) := by
  have hp := execPhase_noCancel kind (leafExec n v (execArg cfg.execS pv)) (leafWait n v cfg.effWait)
    (leafFb n v pv) scr.exec scr.waitCancel cfg.execS cfg.effWait cfg.effBudget cfg.fb scr.fb h.exec h.wait kd
  unfold afterPrep
  generalize execPhase kind (leafExec n v (execArg cfg.execS pv)) (leafWait n v cfg.effWait)
    (leafFb n v pv) scr.exec scr.waitCancel cfg.execS cfg.effWait cfg.effBudget cfg.fb scr.fb .live = p at hp
  obtain ⟨pevs, pctx, pres⟩ := p
  cases pres with
  | error e => simpa using hp
  | ok ev => cases cfg.postS <;> cases scr.post.res <;> simp

/-- **no cancellation in the scenario ⇒ the run never ends with the context's error** -/
theorem runLeaf_noCancel (kind : CtxKind) (n v sid : Nat) (cfg : LeafCfg) (scr : LeafScript)
    (h : NoCancel cfg scr) (kd : CtxKind) : (runLeaf kind n v sid cfg scr .live).2.2 ≠ .err (.ctx kd) := by
  rw [runLeaf_live_eq]
  split
  · exact afterPrep_noCancel kind n v sid cfg scr _ _ h kd
  · cases hr : scr.prep.res with
    | error e => simp
    | ok x =>
      simp only [h.prep, Bool.false_eq_true, if_false]
      exact afterPrep_noCancel kind n v sid cfg scr _ _ h kd

/-- a run on a context that is already done: no callback at all, the context's error -/
theorem runLeaf_done (kind : CtxKind) (n v sid : Nat) (cfg : LeafCfg) (scr : LeafScript) (k : CtxKind) :
    runLeaf kind n v sid cfg scr (.done k) = ([], .done k, .err (.ctx k)) := rfl

end Flyt.Proofs.Leaf
