import FlytModel.Proofs.Config
/-!
# C19 helper lemmas, part 2: every field of `build k steps`; form-independence of `lastWins`
-/
namespace Flyt.Config

/-- discharges the per-setter side conditions: case split on the setting (and its Bool argument) -/
macro "cfg_simp" : tactic => `(tactic|
  simp_all [applyNodeOption, applyCustomOption, nodeBuilderCall, batchBuilderCall, Setting.isNodeOption,
    inDomain, setsMaxRetries, setsWait, setsConc, setsEH, setsPrepFunc, setsExecFunc, setsPostFunc,
    setsFbFunc, setsBatchPrep, setsBatchPost])

macro "cfg_cases" s:ident : tactic => `(tactic|
  (cases $s:ident with
   | mk st f t =>
     cases st with
     | maxRetries v => cases f <;> cfg_simp
     | wait v => cases f <;> cfg_simp
     | batchConcurrency v => cases f <;> cfg_simp
     | batchErrorHandling v => cases v <;> cases f <;> cfg_simp
     | prepFn v => cases v <;> cases f <;> cfg_simp
     | execFn v => cases v <;> cases f <;> cfg_simp
     | postFn v => cases v <;> cases f <;> cfg_simp
     | fbFn => cases f <;> cfg_simp))

/-! ### plain node builder -/

theorem node_maxRetries (steps : List Step) :
    (build .node steps).base.maxRetries = (lastSome setsMaxRetries (effective steps)).getD 1 :=
  node_field (fun n => n.base.maxRetries) setsMaxRetries
    (Or.inr (by intro s h; cfg_cases s)) (by intro n s h; cfg_cases s) (by intro n s h; cfg_cases s)
    (by intro n s; cfg_cases s) steps

theorem node_wait (steps : List Step) :
    (build .node steps).base.wait = (lastSome setsWait (effective steps)).getD 0 :=
  node_field (fun n => n.base.wait) setsWait
    (Or.inr (by intro s h; cfg_cases s)) (by intro n s h; cfg_cases s) (by intro n s h; cfg_cases s)
    (by intro n s; cfg_cases s) steps

theorem node_conc (steps : List Step) :
    (build .node steps).base.batchConcurrency = (lastSome setsConc (effective steps)).getD 0 :=
  node_field (fun n => n.base.batchConcurrency) setsConc
    (Or.inr (by intro s h; cfg_cases s)) (by intro n s h; cfg_cases s) (by intro n s h; cfg_cases s)
    (by intro n s; cfg_cases s) steps

theorem node_eh (steps : List Step) :
    (build .node steps).base.batchErrorHandling = (lastSome setsEH (effective steps)).getD .unset :=
  node_field (fun n => n.base.batchErrorHandling) setsEH
    (Or.inr (by intro s h; cfg_cases s)) (by intro n s h; cfg_cases s) (by intro n s h; cfg_cases s)
    (by intro n s; cfg_cases s) steps

theorem node_prepFunc (steps : List Step) :
    (build .node steps).prepFunc = (lastSome (setsPrepFunc .node) (effective steps)).getD none :=
  node_field (fun n => n.prepFunc) (setsPrepFunc .node)
    (Or.inl (by intro s h; cfg_cases s)) (by intro n s h; cfg_cases s) (by intro n s h; cfg_cases s)
    (by intro n s; cfg_cases s) steps

theorem node_execFunc (steps : List Step) :
    (build .node steps).execFunc = (lastSome setsExecFunc (effective steps)).getD none :=
  node_field (fun n => n.execFunc) setsExecFunc
    (Or.inl (by intro s h; cfg_cases s)) (by intro n s h; cfg_cases s) (by intro n s h; cfg_cases s)
    (by intro n s; cfg_cases s) steps

theorem node_postFunc (steps : List Step) :
    (build .node steps).postFunc = (lastSome (setsPostFunc .node) (effective steps)).getD none :=
  node_field (fun n => n.postFunc) (setsPostFunc .node)
    (Or.inl (by intro s h; cfg_cases s)) (by intro n s h; cfg_cases s) (by intro n s h; cfg_cases s)
    (by intro n s; cfg_cases s) steps

theorem node_fbFunc (steps : List Step) :
    (build .node steps).execFallbackFunc = (lastSome (setsFbFunc .node) (effective steps)).getD none :=
  node_field (fun n => n.execFallbackFunc) (setsFbFunc .node)
    (Or.inl (by intro s h; cfg_cases s)) (by intro n s h; cfg_cases s) (by intro n s h; cfg_cases s)
    (by intro n s; cfg_cases s) steps

theorem node_batchPrep (steps : List Step) :
    (build .node steps).batchPrepFunc = (lastSome (setsBatchPrep .node) (effective steps)).getD none :=
  node_field (fun n => n.batchPrepFunc) (setsBatchPrep .node)
    (Or.inl (by intro s h; cfg_cases s)) (by intro n s h; cfg_cases s) (by intro n s h; cfg_cases s)
    (by intro n s; cfg_cases s) steps

theorem node_batchPost (steps : List Step) :
    (build .node steps).batchPostFunc = (lastSome (setsBatchPost .node) (effective steps)).getD none :=
  node_field (fun n => n.batchPostFunc) (setsBatchPost .node)
    (Or.inl (by intro s h; cfg_cases s)) (by intro n s h; cfg_cases s) (by intro n s h; cfg_cases s)
    (by intro n s; cfg_cases s) steps

/-! ### batch node builder (steps in the domain) -/

section batch
variable (steps : List Step) (hdom : ∀ s, s ∈ steps → inDomain .batch s = true)
include hdom

theorem batch_maxRetries :
    (build .batch steps).base.maxRetries = (lastSome setsMaxRetries (effective steps)).getD 1 :=
  batch_field (fun n => n.base.maxRetries) setsMaxRetries
    (by intro n s h; cfg_cases s) (by intro n s h hf; cfg_cases s) steps hdom

theorem batch_wait :
    (build .batch steps).base.wait = (lastSome setsWait (effective steps)).getD 0 :=
  batch_field (fun n => n.base.wait) setsWait
    (by intro n s h; cfg_cases s) (by intro n s h hf; cfg_cases s) steps hdom

theorem batch_conc :
    (build .batch steps).base.batchConcurrency = (lastSome setsConc (effective steps)).getD 0 :=
  batch_field (fun n => n.base.batchConcurrency) setsConc
    (by intro n s h; cfg_cases s) (by intro n s h hf; cfg_cases s) steps hdom

theorem batch_eh :
    (build .batch steps).base.batchErrorHandling = (lastSome setsEH (effective steps)).getD .unset :=
  batch_field (fun n => n.base.batchErrorHandling) setsEH
    (by intro n s h; cfg_cases s) (by intro n s h hf; cfg_cases s) steps hdom

theorem batch_prepFunc :
    (build .batch steps).prepFunc = (lastSome (setsPrepFunc .batch) (effective steps)).getD none :=
  batch_field (fun n => n.prepFunc) (setsPrepFunc .batch)
    (by intro n s h; cfg_cases s) (by intro n s h hf; cfg_cases s) steps hdom

theorem batch_execFunc :
    (build .batch steps).execFunc = (lastSome setsExecFunc (effective steps)).getD none :=
  batch_field (fun n => n.execFunc) setsExecFunc
    (by intro n s h; cfg_cases s) (by intro n s h hf; cfg_cases s) steps hdom

theorem batch_postFunc :
    (build .batch steps).postFunc = (lastSome (setsPostFunc .batch) (effective steps)).getD none :=
  batch_field (fun n => n.postFunc) (setsPostFunc .batch)
    (by intro n s h; cfg_cases s) (by intro n s h hf; cfg_cases s) steps hdom

theorem batch_fbFunc :
    (build .batch steps).execFallbackFunc = (lastSome (setsFbFunc .batch) (effective steps)).getD none :=
  batch_field (fun n => n.execFallbackFunc) (setsFbFunc .batch)
    (by intro n s h; cfg_cases s) (by intro n s h hf; cfg_cases s) steps hdom

theorem batch_batchPrep :
    (build .batch steps).batchPrepFunc = (lastSome (setsBatchPrep .batch) (effective steps)).getD none :=
  batch_field (fun n => n.batchPrepFunc) (setsBatchPrep .batch)
    (by intro n s h; cfg_cases s) (by intro n s h hf; cfg_cases s) steps hdom

theorem batch_batchPost :
    (build .batch steps).batchPostFunc = (lastSome (setsBatchPost .batch) (effective steps)).getD none :=
  batch_field (fun n => n.batchPostFunc) (setsBatchPost .batch)
    (by intro n s h; cfg_cases s) (by intro n s h hf; cfg_cases s) steps hdom

end batch

/-! ### form-independence, pure forms, probes -/

theorem lastSome_sameSettings {α : Type} (w : Step → Option α)
    (hw : ∀ s s' : Step, s.setting = s'.setting → s.tag = s'.tag → w s = w s')
    (a b : List Step) (h : sameSettings a b) : lastSome w a = lastSome w b := by
  unfold sameSettings at h
  induction a generalizing b with
  | nil =>
    cases b with
    | nil => rfl
    | cons y ys => simp at h
  | cons x xs ih =>
    cases b with
    | nil => simp at h
    | cons y ys =>
      simp only [List.map_cons, List.cons.injEq, Prod.mk.injEq] at h
      simp only [lastSome, ih ys h.2, hw x y h.1.1 h.1.2]

theorem lastWins_sameSettings (k : Kind) (a b : List Step) (h : sameSettings a b) :
    lastWins k a = lastWins k b := by
  unfold lastWins
  rw [lastSome_sameSettings setsMaxRetries (by intro s s' h1 h2; simp [setsMaxRetries, h1]) a b h,
    lastSome_sameSettings setsWait (by intro s s' h1 h2; simp [setsWait, h1]) a b h,
    lastSome_sameSettings setsConc (by intro s s' h1 h2; simp [setsConc, h1]) a b h,
    lastSome_sameSettings setsEH (by intro s s' h1 h2; simp [setsEH, h1]) a b h,
    lastSome_sameSettings (setsPrepFunc k) (by intro s s' h1 h2; simp [setsPrepFunc, h1, h2]) a b h,
    lastSome_sameSettings setsExecFunc (by intro s s' h1 h2; simp [setsExecFunc, h1, h2]) a b h,
    lastSome_sameSettings (setsPostFunc k) (by intro s s' h1 h2; simp [setsPostFunc, h1, h2]) a b h,
    lastSome_sameSettings (setsFbFunc k) (by intro s s' h1 h2; simp [setsFbFunc, h1, h2]) a b h,
    lastSome_sameSettings (setsBatchPrep k) (by intro s s' h1 h2; simp [setsBatchPrep, h1, h2]) a b h,
    lastSome_sameSettings (setsBatchPost k) (by intro s s' h1 h2; simp [setsBatchPost, h1, h2]) a b h]

theorem optsFirst_inForm (f : Form) (steps : List Step) : optsFirst (inForm f steps) = true := by
  induction steps with
  | nil => rfl
  | cons s rest ih =>
    cases f with
    | opt => simpa [inForm, optsFirst] using ih
    | bld =>
      simp only [inForm, List.map_cons, optsFirst]
      simp [isBld]

/-- chaining the harness's probe functions (function setters in builder form) changes no getter -/
theorem getters_withProbes (k : Kind) (n : Node) : getters (withProbes k n) = getters n := by
  cases k <;> rfl

end Flyt.Config
