import FlytModel.Proofs.BatchBridge
/-!
# The GATED schedules of the concurrent batch LTS (`Conc.simulate`) and `Spec.c09`'s ordering clause

`Spec.c09` demands, in stop mode, that no NEW item starts after a *final failure* (the return of an exec call that
the item's own script makes fail for good: last attempt, no successful fallback). That is false of some schedules
of the LTS (`Props/C09.lean`, `exConcRace`) but true of every schedule the correspondence driver produces:
`Conc.simulate` releases one gated exec call (or cancels) and then runs internal steps to quiescence in the fixed
order of `Conc.nextInternal` — a step of the (one) task that is not parked in an exec call, else a `take`, else a
`submit`, else the return of `Wait`.

Proved here, for every configuration, every decision list and enough fuel (`measure c (init c) ≤ fuel`; the driver's
fuel is enough, `driver_fuel_adequate`):

* `quiesce_gated` / `simulate_gated`: every state `simulate` visits is *quiescent* — every task held by a worker
  is inside its exec callback (`nextInternal = none`: no task is at `stopCheck` / `ctxCheck` / `loopTop` / `store`);
* at most one task is ever outside its exec callback between two quiescent points (`Gated.solo`), so the task whose
  exec call returned a final failure reaches its `store … true` step, raises `shouldStop` and returns BEFORE any
  other task is taken from the queue (`Gated.handled`);
* hence in stop mode no `start j 0` event follows a final-failure `done` event in the log (`Gated.quiet`), which is
  `Spec.c09`'s ordering clause (`c09_order_of_quiet`), and `Spec.c09` holds of the model's observation in every
  posted state of a gated run (`c09_viewOf_gated`).
-/
namespace Flyt.Gated
open Flyt Flyt.Conc Flyt.Spec Flyt.Bridge

/-- the start of an item's FIRST attempt: "a new item starts" -/
def isStart0 : Obs → Bool := fun e => match e with
  | .start _ 0 => true
  | _ => false

/-- the task is parked inside the user's exec callback -/
def inExecPc : Pc → Bool := fun pc => match pc with
  | .inExec _ => true
  | _ => false

/-- the task has passed the stop check and its first attempt is still ahead -/
def pre0 : Pc → Bool := fun pc => match pc with
  | .ctxCheck => true
  | .loopTop 0 _ => true
  | _ => false

/-- the task is on its way to raise the stop flag: its retry budget is used up with no (successful) fallback to
    come, or it is about to store the result of a FAILED loop -/
def doomedPc (c : Cfg) (i : Nat) : Pc → Prop
  | .store _ true => True
  | .loopTop k (some _) => 0 < k ∧ ¬ k < c.budget ∧ (c.fb ≠ .custom ∨ ∃ e', (c.fbOut i).res = .error e')
  | _ => False

/-- a final failure has been logged -/
def hasFF (c : Cfg) (s : BState) : Prop := ∃ e ∈ s.log, ffObs c e = true

/-- every task held by a worker is parked in its exec callback -/
def Quiescent (s : BState) : Prop := ∀ p ∈ s.running, inExecPc p.2 = true

/-- **Invariant of gated runs in stop mode.** -/
structure Gated (c : Cfg) (s : BState) : Prop where
  /-- no new item starts after a final failure -/
  quiet : QAfter (ffObs c) isStart0 (hist s)
  /-- at most one task is outside its exec callback -/
  solo : ∀ p ∈ s.running, ∀ q ∈ s.running, inExecPc p.2 = false → inExecPc q.2 = false → p.1 = q.1
  /-- once a final failure is logged no task is between the stop check and its first attempt -/
  noPre0 : hasFF c s → ∀ p ∈ s.running, pre0 p.2 = false
  /-- once a final failure is logged the flag is up, or the failing task is about to raise it -/
  handled : hasFF c s → s.shouldStop = true ∨ ∃ i pc, (i, pc) ∈ s.running ∧ doomedPc c i pc

theorem pre0_of_inExec {pc : Pc} (h : inExecPc pc = true) : pre0 pc = false := by
  cases pc <;> simp_all [inExecPc, pre0]

theorem not_doomed_of_inExec {c : Cfg} {i : Nat} {pc : Pc} (h : inExecPc pc = true) : ¬ doomedPc c i pc := by
  cases pc <;> simp_all [inExecPc, doomedPc]

theorem inExec_false_of_doomed {c : Cfg} {i : Nat} {pc : Pc} (h : doomedPc c i pc) : inExecPc pc = false := by
  cases pc <;> simp_all [inExecPc, doomedPc]

theorem pre0_false_of_doomed {c : Cfg} {i : Nat} {pc : Pc} (h : doomedPc c i pc) : pre0 pc = false := by
  cases pc with
  | loopTop k last =>
    cases last with
    | none => simp [doomedPc] at h
    | some e =>
      cases k with
      | zero => simp [doomedPc] at h
      | succ k => rfl
  | _ => first | rfl | simp [doomedPc] at h

theorem pc_unique {l : List (Nat × Pc)} (hn : (l.map (·.1)).Nodup) {i : Nat} {pc pc' : Pc}
    (h1 : (i, pc) ∈ l) (h2 : (i, pc') ∈ l) : pc = pc' := by
  induction l with
  | nil => simp at h1
  | cons p t ih =>
    simp only [List.map_cons, List.nodup_cons] at hn
    simp only [List.mem_cons] at h1 h2
    rcases h1 with h1 | h1 <;> rcases h2 with h2 | h2
    · rw [← h1] at h2; exact (Prod.mk.inj h2).2.symm
    · exfalso; exact hn.1 (List.mem_map.2 ⟨(i, pc'), h2, by rw [← h1]⟩)
    · exfalso; exact hn.1 (List.mem_map.2 ⟨(i, pc), h1, by rw [← h2]⟩)
    · exact ih hn.2 h1 h2

theorem qafter_single {α : Type} (a b : α → Bool) (e : α) : QAfter a b [e] :=
  ⟨fun _ x hx => by simp at hx, trivial⟩

/-! ### one step -/

/-- what a `Micro` step of task `i` can do to the gated invariant -/
theorem micro_gated_facts {c : Cfg} {s : BState} {i : Nat} {pc pc' : Pc} {b : Bool} {evs : List Obs}
    (h : Micro c s i pc b evs pc') :
    QAfter (ffObs c) isStart0 evs.reverse ∧
    ((∃ e ∈ evs, isStart0 e = true) → pre0 pc = true) ∧
    ((∃ e ∈ evs, ffObs c e = true) → doomedPc c i pc') ∧
    (pre0 pc' = true → pre0 pc = true ∨ (pc = .stopCheck ∧ ¬ (s.shouldStop = true ∧ c.stop = true))) ∧
    (doomedPc c i pc → doomedPc c i pc') := by
  cases h with
  | retOk k x hr =>
    refine ⟨qafter_single _ _ _, by simp [isStart0], ?_, by simp [pre0], by simp [doomedPc]⟩
    simp [ffObs, isFinalFailure, hr]
  | retErr k e hr =>
    refine ⟨qafter_single _ _ _, by simp [isStart0], ?_, by simp [pre0], by simp [doomedPc]⟩
    simp only [List.mem_singleton, exists_eq_left, ffObs, isFinalFailure, hr, Bool.and_eq_true, beq_iff_eq]
    rintro ⟨hk, hfb⟩
    refine ⟨Nat.succ_pos _, by omega, ?_⟩
    by_cases hc : c.fb = .custom
    · right
      simp only [hc] at hfb
      cases hres : (c.fbOut i).res with
      | ok x => simp [okOf, hres] at hfb
      | error e' => exact ⟨e', rfl⟩
    · exact .inl hc
  | stopPass hc => exact ⟨trivial, by simp, by simp, fun _ => .inr ⟨rfl, hc⟩, by simp [doomedPc]⟩
  | ctxPass _ => exact ⟨trivial, by simp, by simp, fun _ => .inl rfl, by simp [doomedPc]⟩
  | loopCancelled k last hk _ =>
    exact ⟨trivial, by simp, by simp, by simp [pre0], fun _ => trivial⟩
  | loopAbsent k last hk _ _ =>
    refine ⟨trivial, by simp, by simp, by simp [pre0], ?_⟩
    cases last <;> simp [doomedPc]; omega
  | loopStart k last hk _ _ =>
    refine ⟨qafter_single _ _ _, ?_, by simp [ffObs], by simp [pre0], ?_⟩
    · simp only [List.mem_singleton, exists_eq_left]
      cases k <;> simp [isStart0, pre0]
    · cases last <;> simp [doomedPc]; omega
  | exhaustedNone k hk => exact ⟨trivial, by simp, by simp, by simp [pre0], by simp [doomedPc]⟩
  | fbOk k e x hk hfb hr =>
    refine ⟨qafter_single _ _ _, by simp [isStart0], by simp [ffObs], by simp [pre0], ?_⟩
    simp only [doomedPc]
    rintro ⟨_, _, h | ⟨e', he'⟩⟩
    · exact absurd hfb h
    · rw [hr] at he'; cases he'
  | fbErr k e e' hk hfb hr =>
    exact ⟨qafter_single _ _ _, by simp [isStart0], by simp [ffObs], by simp [pre0], fun _ => trivial⟩
  | noFb k e hk hfb => exact ⟨trivial, by simp, by simp, by simp [pre0], fun _ => trivial⟩

/-- the invariant only reads the log, the running tasks and the stop flag -/
theorem Gated.congr {c : Cfg} {s s' : BState} (hG : Gated c s) (hl : s'.log = s.log) (hr : s'.running = s.running)
    (hs : s'.shouldStop = s.shouldStop) : Gated c s' := by
  obtain ⟨h1, h2, h3, h4⟩ := hG
  refine ⟨?_, ?_, ?_, ?_⟩
  · simpa [hist, hl] using h1
  · rw [hr]; exact h2
  · intro hf; rw [hr]; exact h3 (by simpa [hasFF, hl] using hf)
  · intro hf; rw [hr, hs]; exact h4 (by simpa [hasFF, hl] using hf)

/-- an event that is neither a final failure nor a start (`cancel`, `post`) -/
theorem Gated.neutral {c : Cfg} {s s' : BState} {e : Obs} (hG : Gated c s) (hl : s'.log = e :: s.log)
    (hr : s'.running = s.running) (hs : s'.shouldStop = s.shouldStop) (he1 : ffObs c e = false)
    (he2 : isStart0 e = false) : Gated c s' := by
  obtain ⟨h1, h2, h3, h4⟩ := hG
  have hff : hasFF c s' → hasFF c s := by
    rintro ⟨x, hx, hc⟩
    rw [hl] at hx
    rcases List.mem_cons.1 hx with rfl | hx
    · rw [he1] at hc; cases hc
    · exact ⟨x, hx, hc⟩
  refine ⟨?_, ?_, ?_, ?_⟩
  · show QAfter _ _ s'.log.reverse
    rw [hl, List.reverse_cons, qafter_append]
    exact ⟨h1, qafter_single _ _ _, fun _ x hx => by simp at hx; subst hx; exact he2⟩
  · rw [hr]; exact h2
  · intro hf; rw [hr]; exact h3 (hff hf)
  · intro hf; rw [hr, hs]; exact h4 (hff hf)

/-- **One step of a gated run preserves the invariant** (stop mode): a step of task `i` — the return of its exec
    call or an internal step — made while every OTHER task is parked in its exec call, and a `take` made while
    every task is. -/
theorem gated_trans {c : Cfg} {s s' : BState} {l : Label} (hstop : c.stop = true) (hI : Inv c s) (hG : Gated c s)
    (t : Trans c s l s')
    (hact : ∀ i, (l = .ret i ∨ l = .step i) → ∀ p ∈ s.running, p.1 ≠ i → inExecPc p.2 = true)
    (htake : l = .take → ∀ p ∈ s.running, inExecPc p.2 = true) : Gated c s' := by
  have hnd : (s.running.map (·.1)).Nodup := (List.nodup_append.1 hI.nodup).2.1
  cases t with
  | submit hn hc => exact hG.congr rfl rfl rfl
  | cancel hc => exact hG.neutral rfl rfl rfl rfl rfl
  | waitRet a b c' d => exact hG.neutral rfl rfl rfl rfl rfl
  | take t q hq hi =>
    obtain ⟨h1, h2, h3, h4⟩ := hG
    have hall := htake rfl
    refine ⟨h1, ?_, ?_, ?_⟩
    · intro p hp q' hq' hpn hqn
      simp only [List.mem_append, List.mem_singleton] at hp hq'
      rcases hp with hp | rfl
      · rw [hall p hp] at hpn; cases hpn
      · rcases hq' with hq' | rfl
        · rw [hall q' hq'] at hqn; cases hqn
        · rfl
    · intro hf p hp
      simp only [List.mem_append, List.mem_singleton] at hp
      rcases hp with hp | rfl
      · exact h3 hf p hp
      · rfl
    · intro hf
      rcases h4 hf with h | ⟨j, pcj, hm, hd⟩
      · exact .inl h
      · exact .inr ⟨j, pcj, List.mem_append.2 (.inl hm), hd⟩
  | advance i pc b evs pc' l hpc hm hl =>
    obtain ⟨h1, h2, h3, h4⟩ := hG
    obtain ⟨f1, f2, f3, f4, f5⟩ := micro_gated_facts hm
    have hothers := hact i hl
    have hmem := pcOf_mem hpc
    have hids := pcOf_ids hpc
    -- the acting task is the only candidate for anything that is not parked
    have hdoomed : ∀ j pcj, (j, pcj) ∈ s.running → doomedPc c j pcj → j = i ∧ pcj = pc := by
      intro j pcj hj hd
      by_cases hji : j = i
      · subst hji; exact ⟨rfl, pc_unique hnd hj hmem⟩
      · exact absurd hd (not_doomed_of_inExec (hothers _ hj hji))
    have hff' : hasFF c (setPc { s with cancelled := s.cancelled || b, log := evs ++ s.log } i pc') →
        (∃ e ∈ evs, ffObs c e = true) ∨ hasFF c s := by
      rintro ⟨e, he, hc⟩
      rcases List.mem_append.1 he with he | he
      · exact .inl ⟨e, he, hc⟩
      · exact .inr ⟨e, he, hc⟩
    have hnew : (i, pc') ∈ (setPc { s with cancelled := s.cancelled || b, log := evs ++ s.log } i pc').running :=
      mem_setPc.2 (.inl ⟨rfl, rfl, hids⟩)
    refine ⟨?_, ?_, ?_, ?_⟩
    · show QAfter _ _ (evs ++ s.log).reverse
      rw [List.reverse_append, qafter_append]
      refine ⟨h1, f1, ?_⟩
      rintro ⟨e, he, hc⟩ x hx
      cases hx0 : isStart0 x with
      | false => rfl
      | true =>
        have hpre := f2 ⟨x, List.mem_reverse.1 hx, hx0⟩
        have := h3 ⟨e, List.mem_reverse.1 he, hc⟩ _ hmem
        rw [hpre] at this; cases this
    · intro p hp q hq hpn hqn
      have hid : ∀ r ∈ (setPc { s with cancelled := s.cancelled || b, log := evs ++ s.log } i pc').running,
          inExecPc r.2 = false → r.1 = i := by
        intro r hr hrn
        obtain ⟨r1, r2⟩ := r
        rcases mem_setPc.1 hr with ⟨rfl, _, _⟩ | ⟨hne, hm'⟩
        · rfl
        · have := hothers _ hm' hne
          simp only at hrn this; rw [this] at hrn; cases hrn
      rw [hid p hp hpn, hid q hq hqn]
    · intro hf p hp
      obtain ⟨p1, p2⟩ := p
      rcases mem_setPc.1 hp with ⟨rfl, rfl, _⟩ | ⟨hne, hm'⟩
      · cases hpre : pre0 p2 with
        | false => rfl
        | true =>
          exfalso
          rcases hff' hf with hnewff | hold
          · have := pre0_false_of_doomed (f3 hnewff)
            rw [hpre] at this; cases this
          · rcases f4 hpre with hp0 | ⟨rfl, hns⟩
            · have := h3 hold _ hmem
              simp only at this; rw [hp0] at this; cases this
            · rcases h4 hold with hss | ⟨j, pcj, hj, hd⟩
              · exact hns ⟨hss, hstop⟩
              · obtain ⟨_, rfl⟩ := hdoomed j pcj hj hd
                simp [doomedPc] at hd
      · exact pre0_of_inExec (hothers _ hm' hne)
    · intro hf
      rcases hff' hf with hnewff | hold
      · exact .inr ⟨i, pc', hnew, f3 hnewff⟩
      · rcases h4 hold with hss | ⟨j, pcj, hj, hd⟩
        · exact .inl hss
        · obtain ⟨rfl, rfl⟩ := hdoomed j pcj hj hd
          exact .inr ⟨j, pc', hnew, f5 hd⟩
  | finish i pc r b hpc hf =>
    obtain ⟨h1, h2, h3, h4⟩ := hG
    have hothers := hact i (.inr rfl)
    have hmem := pcOf_mem hpc
    refine ⟨h1, ?_, ?_, ?_⟩
    · intro p hp q hq hpn hqn
      obtain ⟨p1, p2⟩ := p
      obtain ⟨q1, q2⟩ := q
      exact h2 _ (mem_finish.1 hp).2 _ (mem_finish.1 hq).2 hpn hqn
    · intro hff p hp
      obtain ⟨p1, p2⟩ := p
      exact h3 hff _ (mem_finish.1 hp).2
    · intro hff
      left
      rcases h4 hff with hss | ⟨j, pcj, hj, hd⟩
      · show (s.shouldStop || b) = true
        simp [hss]
      · by_cases hji : j = i
        · subst hji
          have := pc_unique hnd hj hmem
          subst this
          cases hf with
          | stopHit _ _ => simp [doomedPc] at hd
          | ctxHit _ => simp [doomedPc] at hd
          | store r fl =>
            cases fl with
            | false => simp [doomedPc] at hd
            | true => show (s.shouldStop || (true && c.stop)) = true; simp [hstop]
        · exact absurd hd (not_doomed_of_inExec (hothers _ hj hji))

/-! ### the scheduling policy of `quiesce` -/

/-- `nextInternal`'s test: the task is not parked in its exec callback -/
def nonExec (p : Nat × Pc) : Bool := match p.2 with
  | .inExec _ => false
  | _ => true

theorem nonExec_eq (p : Nat × Pc) : nonExec p = !inExecPc p.2 := by
  obtain ⟨i, pc⟩ := p
  cases pc <;> rfl

theorem nextInternal_cases {c : Cfg} {s : BState} {l : Label} (h : nextInternal c s = some l) :
    (∃ i pc, (i, pc) ∈ s.running ∧ inExecPc pc = false ∧ l = .step i) ∨
    (Quiescent s ∧ (l = .take ∨ l = .submit ∨ l = .waitRet)) := by
  unfold nextInternal at h
  change (match s.running.find? nonExec with
    | some (i, _) => some (Label.step i)
    | none => _) = some l at h
  cases hf : s.running.find? nonExec with
  | some p =>
    obtain ⟨i, pc⟩ := p
    rw [hf] at h
    simp only [Option.some.injEq] at h
    have h1 := List.mem_of_find?_eq_some hf
    have h2 := List.find?_some hf
    rw [nonExec_eq] at h2
    exact .inl ⟨i, pc, h1, by simpa using h2, h.symm⟩
  | none =>
    rw [hf] at h
    right
    constructor
    · intro p hp
      have := List.find?_eq_none.1 hf p hp
      rw [nonExec_eq] at this
      simpa using this
    · simp only at h
      split at h
      · simp only [Option.some.injEq] at h; exact .inl h.symm
      · split at h
        · simp only [Option.some.injEq] at h; exact .inr (.inl h.symm)
        · split at h
          · simp only [Option.some.injEq] at h; exact .inr (.inr h.symm)
          · cases h

/-- **the key lemma**: a state in which `nextInternal` has nothing to do is quiescent — no task held by a worker
    is at `stopCheck` / `ctxCheck` / `loopTop` / `store`: all of them are inside their exec callback -/
theorem quiescent_of_nextInternal_none {c : Cfg} {s : BState} (h : nextInternal c s = none) : Quiescent s := by
  unfold nextInternal at h
  change (match s.running.find? nonExec with
    | some (i, _) => some (Label.step i)
    | none => _) = none at h
  cases hf : s.running.find? nonExec with
  | some p => obtain ⟨i, pc⟩ := p; rw [hf] at h; cases h
  | none =>
    intro p hp
    have := List.find?_eq_none.1 hf p hp
    rw [nonExec_eq] at this
    simpa using this

theorem quiescent_pc {s : BState} (h : Quiescent s) {i : Nat} {pc : Pc} (hpc : pcOf s i = some pc) :
    ∃ k, pc = .inExec k := by
  have := h _ (pcOf_mem hpc)
  cases pc <;> simp_all [inExecPc]

/-- a task that is not parked can always make its next internal step -/
theorem step_enabled {c : Cfg} {s : BState} {i : Nat} {pc : Pc} (hpc : pcOf s i = some pc) (hne : inExecPc pc = false) :
    (apply c s (.step i)).isSome = true := by
  cases pc with
  | inExec k => simp [inExecPc] at hne
  | stopCheck => simp only [apply, hpc]; split <;> simp
  | ctxCheck => simp only [apply, hpc]; split <;> simp
  | store r fl => simp [apply, hpc]
  | loopTop k last =>
    simp only [apply, hpc]
    split
    · split
      · simp
      · cases c.execS <;> simp
    · cases last with
      | none => simp
      | some e =>
        simp only []
        cases c.fb <;> simp
        cases (c.fbOut i).res <;> simp

theorem pcOf_of_mem {s : BState} (hnd : (s.running.map (·.1)).Nodup) {i : Nat} {pc : Pc} (h : (i, pc) ∈ s.running) :
    pcOf s i = some pc := by
  obtain ⟨pc', hpc'⟩ := pcOf_isSome_of_mem (s := s) (i := i) (List.mem_map.2 ⟨_, h, rfl⟩)
  rw [hpc', pc_unique hnd (pcOf_mem hpc') h]

/-- whatever `nextInternal` proposes in a reachable state is enabled -/
theorem nextInternal_enabled {c : Cfg} {s : BState} {l : Label} (hr : Reachable c s) (h : nextInternal c s = some l) :
    ∃ s', apply c s l = some s' := by
  have hnd : (s.running.map (·.1)).Nodup := (List.nodup_append.1 (inv_reachable hr).nodup).2.1
  apply Option.isSome_iff_exists.1
  rcases nextInternal_cases h with ⟨i, pc, hm, hne, rfl⟩ | ⟨hq, hl⟩
  · exact step_enabled (pcOf_of_mem hnd hm) hne
  · have hnone : s.running.find? nonExec = none := by
      rw [List.find?_eq_none]
      intro p hp
      rw [nonExec_eq, hq p hp]; simp
    unfold nextInternal at h
    change (match s.running.find? nonExec with
      | some (i, _) => some (Label.step i)
      | none => _) = some l at h
    rw [hnone] at h
    simp only at h
    split at h
    · rename_i hc
      simp only [Option.some.injEq] at h; subst h
      simp only [apply]
      cases hqq : s.queue with
      | nil => exact absurd hqq hc.1
      | cons t q => simp [hc.2]
    · split at h
      · rename_i hc
        simp only [Option.some.injEq] at h; subst h
        simp [apply, hc]
      · split at h
        · rename_i hc
          simp only [Option.some.injEq] at h; subst h
          simp only [apply]
          rw [if_pos hc]; rfl
        · cases h

/-- an internal step chosen by `nextInternal` preserves the gated invariant -/
theorem gated_internal {c : Cfg} {s s' : BState} {l : Label} (hstop : c.stop = true) (hr : Reachable c s)
    (hG : Gated c s) (hn : nextInternal c s = some l) (ha : apply c s l = some s') : Gated c s' := by
  refine gated_trans hstop (inv_reachable hr) hG (trans_of_apply ha) ?_ ?_
  · intro i hl p hp hne
    rcases nextInternal_cases hn with ⟨j, pc, hm, hnp, rfl⟩ | ⟨_, h | h | h⟩
    · have hji : j = i := by
        rcases hl with h | h
        · cases h
        · exact Label.step.inj h
      subst hji
      cases hp' : inExecPc p.2 with
      | true => rfl
      | false => exact absurd (hG.solo p hp (j, pc) hm hp' hnp) hne
    all_goals (subst h; rcases hl with h | h <;> cases h)
  · intro hl
    subst hl
    rcases nextInternal_cases hn with ⟨j, pc, hm, hnp, h⟩ | ⟨hq, _⟩
    · cases h
    · exact hq

theorem measure_le_of_path {c : Cfg} {s s' : BState} (hr : Reachable c s) (p : Path c s s') :
    measure c s' ≤ measure c s := by
  induction p with
  | refl => exact Nat.le_refl _
  | step p' hs ih =>
    obtain ⟨l, hl⟩ := hs
    have hr' := hr.path p'
    have := measure_decreases (inv_reachable hr') (logInv_reachable hr') (trans_of_apply hl)
    omega

/-- **Running to quiescence.** With enough fuel, `quiesce` ends in a quiescent state (nothing internal is left to
    do), and — in stop mode — it preserves the gated invariant. -/
theorem quiesce_gated {c : Cfg} (hstop : c.stop = true) : ∀ (fuel : Nat) (s : BState), Reachable c s → Gated c s →
    measure c s ≤ fuel → Gated c (quiesce c fuel s) ∧ nextInternal c (quiesce c fuel s) = none := by
  intro fuel
  induction fuel with
  | zero =>
    intro s hr hG hm
    refine ⟨hG, ?_⟩
    show nextInternal c s = none
    cases hn : nextInternal c s with
    | none => rfl
    | some l =>
      obtain ⟨s', hs'⟩ := nextInternal_enabled hr hn
      have := measure_decreases (inv_reachable hr) (logInv_reachable hr) (trans_of_apply hs')
      omega
  | succ fuel ih =>
    intro s hr hG hm
    unfold quiesce
    cases hn : nextInternal c s with
    | none => exact ⟨hG, hn⟩
    | some l =>
      obtain ⟨s', hs'⟩ := nextInternal_enabled hr hn
      simp only [hs']
      have hd := measure_decreases (inv_reachable hr) (logInv_reachable hr) (trans_of_apply hs')
      exact ih s' (hr.step ⟨l, hs'⟩) (gated_internal hstop hr hG hn hs') (by omega)

/-- … the quiescence half alone, in every mode -/
theorem quiesce_quiescent {c : Cfg} : ∀ (fuel : Nat) (s : BState), Reachable c s → measure c s ≤ fuel →
    nextInternal c (quiesce c fuel s) = none := by
  intro fuel
  induction fuel with
  | zero =>
    intro s hr hm
    show nextInternal c s = none
    cases hn : nextInternal c s with
    | none => rfl
    | some l =>
      obtain ⟨s', hs'⟩ := nextInternal_enabled hr hn
      have := measure_decreases (inv_reachable hr) (logInv_reachable hr) (trans_of_apply hs')
      omega
  | succ fuel ih =>
    intro s hr hm
    unfold quiesce
    cases hn : nextInternal c s with
    | none => exact hn
    | some l =>
      obtain ⟨s', hs'⟩ := nextInternal_enabled hr hn
      simp only [hs']
      have hd := measure_decreases (inv_reachable hr) (logInv_reachable hr) (trans_of_apply hs')
      exact ih s' (hr.step ⟨l, hs'⟩) (by omega)

theorem gated_init (c : Cfg) : Gated c (init c) := by
  refine ⟨by simp [hist, init, QAfter], by simp [init], ?_, ?_⟩ <;>
  · rintro ⟨e, he, _⟩; simp [init] at he

theorem measure_reachable_le {c : Cfg} {s : BState} (hr : Reachable c s) : measure c s ≤ measure c (init c) :=
  measure_le_of_path .init (reachable_iff_path.1 hr)

/-- one decision of the gating harness, from a quiescent state -/
theorem decide1_gated {c : Cfg} {fuel : Nat} {s s' : BState} {d : Decision} (hstop : c.stop = true)
    (hfuel : measure c (init c) ≤ fuel) (hr : Reachable c s) (hG : Gated c s) (hq : nextInternal c s = none)
    (hd : decide1 c fuel s d = some s') : Gated c s' ∧ nextInternal c s' = none := by
  have hQ := quiescent_of_nextInternal_none hq
  cases d with
  | release i =>
    simp only [decide1, Option.map_eq_some_iff] at hd
    obtain ⟨t, ht, rfl⟩ := hd
    have hrt : Reachable c t := hr.step ⟨_, ht⟩
    have hGt : Gated c t := by
      refine gated_trans hstop (inv_reachable hr) hG (trans_of_apply ht) (fun _ _ p hp _ => hQ p hp) ?_
      intro h; cases h
    exact quiesce_gated hstop fuel t hrt hGt (Nat.le_trans (measure_reachable_le hrt) hfuel)
  | cancel =>
    simp only [decide1, Option.map_eq_some_iff] at hd
    obtain ⟨t, ht, rfl⟩ := hd
    have hrt : Reachable c t := hr.step ⟨_, ht⟩
    have hGt : Gated c t := by
      refine gated_trans hstop (inv_reachable hr) hG (trans_of_apply ht) (fun _ _ p hp _ => hQ p hp) ?_
      intro h; cases h
    exact quiesce_gated hstop fuel t hrt hGt (Nat.le_trans (measure_reachable_le hrt) hfuel)

/-- one decision, quiescence only (every mode) -/
theorem decide1_quiescent {c : Cfg} {fuel : Nat} {s s' : BState} {d : Decision}
    (hfuel : measure c (init c) ≤ fuel) (hr : Reachable c s) (hd : decide1 c fuel s d = some s') :
    nextInternal c s' = none := by
  cases d with
  | release i =>
    simp only [decide1, Option.map_eq_some_iff] at hd
    obtain ⟨t, ht, rfl⟩ := hd
    have hrt : Reachable c t := hr.step ⟨_, ht⟩
    exact quiesce_quiescent fuel t hrt (Nat.le_trans (measure_reachable_le hrt) hfuel)
  | cancel =>
    simp only [decide1, Option.map_eq_some_iff] at hd
    obtain ⟨t, ht, rfl⟩ := hd
    have hrt : Reachable c t := hr.step ⟨_, ht⟩
    exact quiesce_quiescent fuel t hrt (Nat.le_trans (measure_reachable_le hrt) hfuel)

theorem simulate_go_gated {c : Cfg} {fuel : Nat} {s : BState} {ds : List Decision} {sts : List BState}
    (hstop : c.stop = true) (hfuel : measure c (init c) ≤ fuel) (hr : Reachable c s) (hG : Gated c s)
    (hq : nextInternal c s = none) (h : simulate.go c fuel s ds = some sts) :
    ∀ x ∈ sts, Gated c x ∧ nextInternal c x = none := by
  induction ds generalizing s sts with
  | nil => simp [simulate.go] at h; subst h; simp
  | cons d rest ih =>
    simp only [simulate.go] at h
    split at h
    · simp at h
    · rename_i s' hd
      simp only [Option.map_eq_some_iff] at h
      obtain ⟨l, hl, rfl⟩ := h
      have hr' := hr.path (decide1_path hd)
      obtain ⟨hG', hq'⟩ := decide1_gated hstop hfuel hr hG hq hd
      intro x hx
      rcases List.mem_cons.1 hx with rfl | hx
      · exact ⟨hG', hq'⟩
      · exact ih hr' hG' hq' hl x hx

theorem simulate_go_quiescent {c : Cfg} {fuel : Nat} {s : BState} {ds : List Decision} {sts : List BState}
    (hfuel : measure c (init c) ≤ fuel) (hr : Reachable c s) (h : simulate.go c fuel s ds = some sts) :
    ∀ x ∈ sts, nextInternal c x = none := by
  induction ds generalizing s sts with
  | nil => simp [simulate.go] at h; subst h; simp
  | cons d rest ih =>
    simp only [simulate.go] at h
    split at h
    · simp at h
    · rename_i s' hd
      simp only [Option.map_eq_some_iff] at h
      obtain ⟨l, hl, rfl⟩ := h
      have hr' := hr.path (decide1_path hd)
      intro x hx
      rcases List.mem_cons.1 hx with rfl | hx
      · exact decide1_quiescent hfuel hr hd
      · exact ih hr' hl x hx

/-- **Every state the gated simulation visits is quiescent** (every mode): all tasks held by workers are parked in
    their exec callbacks, none is at `stopCheck` / `ctxCheck` / `loopTop` / `store`. -/
theorem simulate_quiescent {c : Cfg} {fuel : Nat} {ds : List Decision} {sts : List BState}
    (hfuel : measure c (init c) ≤ fuel) (h : simulate c fuel ds = some sts) :
    ∀ x ∈ sts, nextInternal c x = none ∧ Quiescent x := by
  simp only [simulate, Option.map_eq_some_iff] at h
  obtain ⟨l, hl, rfl⟩ := h
  have h0 : Reachable c (quiesce c fuel (init c)) := Reachable.init.path (quiesce_path c fuel _)
  have hq0 := quiesce_quiescent fuel (init c) .init hfuel
  intro x hx
  have : nextInternal c x = none := by
    rcases List.mem_cons.1 hx with rfl | hx
    · exact hq0
    · exact simulate_go_quiescent hfuel h0 hl x hx
  exact ⟨this, quiescent_of_nextInternal_none this⟩

/-- **… and in stop mode satisfies the gated invariant**: no new item starts after a final failure. -/
theorem simulate_gated {c : Cfg} {fuel : Nat} {ds : List Decision} {sts : List BState} (hstop : c.stop = true)
    (hfuel : measure c (init c) ≤ fuel) (h : simulate c fuel ds = some sts) : ∀ x ∈ sts, Gated c x := by
  simp only [simulate, Option.map_eq_some_iff] at h
  obtain ⟨l, hl, rfl⟩ := h
  have h0 : Reachable c (quiesce c fuel (init c)) := Reachable.init.path (quiesce_path c fuel _)
  obtain ⟨hG0, hq0⟩ := quiesce_gated hstop fuel (init c) .init (gated_init c) hfuel
  intro x hx
  rcases List.mem_cons.1 hx with rfl | hx
  · exact hG0
  · exact (simulate_go_gated hstop hfuel h0 hG0 hq0 hl x hx).1

/-- the fuel `Driver/BatchFam.lean` gives to `simulate` is enough -/
theorem driver_fuel_adequate (c : Cfg) : measure c (init c) ≤ 50 * (c.n + 2) * (c.budget + 2) + 100 := by
  have h1 : measure c (init c) = c.n * (2 * c.budget + 6) + 2 := by
    simp [Conc.measure, init, runSum]
  have h2 : c.n * (2 * c.budget + 6) = 2 * (c.n * c.budget) + 6 * c.n := by
    rw [Nat.mul_add, Nat.mul_left_comm, Nat.mul_comm c.n 6]
  have h3 : 50 * (c.n + 2) * (c.budget + 2) = 50 * (c.n * c.budget) + 100 * c.n + 100 * c.budget + 200 := by
    simp only [Nat.mul_add, Nat.add_mul, Nat.mul_assoc]
    omega
  omega

/-! ### from the log invariant to `Spec.c09` -/

/-- `Spec.c09`'s ordering clause follows from "no `start _ 0` after a final-failure `done`" -/
theorem c09_order_of_quiet {c : Cfg} {ev : List Obs} (hq : QAfter (ffObs c) isStart0 ev) :
    ((List.range ev.length).all fun p =>
      match ev.getD p .post with
      | .done i k =>
        if isFinalFailure c i k then
          let before := ev.take (p + 1)
          (ev.drop (p + 1)).all fun e =>
            match e with
            | .start j 0 => (itemStarts before j).contains 0
            | _ => true
        else true
      | _ => true) = true := by
  rw [List.all_eq_true]
  intro p hp
  rw [List.mem_range] at hp
  simp only [List.getD_eq_getElem?_getD, List.getElem?_eq_getElem hp, Option.getD_some]
  split
  · rename_i i k hpk
    split
    · rename_i hff
      rw [List.all_eq_true]
      intro x hx
      have := qafter_drop _ _ _ hq p hp (by rw [hpk]; exact hff) x hx
      cases x with
      | start j k' =>
        cases k' with
        | zero => simp [isStart0] at this
        | succ k' => rfl
      | _ => rfl
    · rfl
  · rfl

/-- **Bridge, C09, gated family — the full predicate.** For every configuration (nodes with an exec function and a
    retry budget ≥ 1), every decision list the harness can carry out and enough fuel: `Spec.c09` — per-slot clause
    AND ordering clause, in both error-handling modes — holds of the model's observation in every state of the
    gated simulation in which post has run. -/
theorem c09_viewOf_gated {c : Cfg} {fuel : Nat} {ds : List Decision} {sts : List BState} (items : List Val)
    (hfuel : measure c (init c) ≤ fuel) (h : simulate c fuel ds = some sts) (hex : c.execS ≠ .absent)
    (hb : 0 < c.budget) {s : BState} (hs : s ∈ sts) (hp : s.posted = true) : c09 c (viewOf s items) = true := by
  have hr : Reachable c s := simulate_reachable h s hs
  obtain ⟨hn, hqq, hrun⟩ := (flagInv_reachable hr).postedDone hp
  have hall := all_slots_written hr hn hqq hrun
  have hL := logInv_reachable hr
  simp only [c09, Bool.and_eq_true]
  constructor
  · rw [List.all_eq_true]
    intro i hi
    rw [List.mem_range] at hi
    obtain ⟨r, hr0⟩ := hall i hi
    rw [viewOf_slot hr0]
    exact origin_slotMatches (hL.slots i r hr0) hex hb
  · cases hstop : c.stop with
    | false => rfl
    | true =>
      simp only [Bool.not_true, Bool.false_or]
      exact c09_order_of_quiet (simulate_gated hstop hfuel h s hs).quiet

end Flyt.Gated
