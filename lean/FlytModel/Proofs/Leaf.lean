import FlytModel.Proofs.Big
import FlytModel.Proofs.Attempts
/-!
# Facts about a single node's run (`attempts`, `fallbackPhase`, `runLeaf`, `runItem`, `runBatch`)
used by C03, C04, C05, C10.
-/
namespace Flyt.Proofs
open Flyt

theorem norm_default : norm defaultAction = defaultAction := by decide

/-! ### outcomes are normalised, never `both` / `fuel` -/

theorem runLeaf_ok_norm {kind n v sid cfg scr ctx a}
    (h : (runLeaf kind n v sid cfg scr ctx).2.2 = .ok a) : norm a = a := by
  unfold runLeaf at h
  repeat' split at h
  all_goals first
    | (simp at h; done)
    | (simp at h; subst h; first | exact norm_default | exact norm_norm _)

theorem runBatch_ok_norm {kind n v sid cfg scr ctx a}
    (h : (runBatch kind n v sid cfg scr ctx).2.2 = .ok a) : norm a = a := by
  unfold runBatch at h
  dsimp only at h
  repeat' (split at h <;> try dsimp only at h)
  all_goals first
    | (simp at h; done)
    | (simp at h; subst h; first | exact norm_default | exact norm_norm _)

/-- the shapes an outcome of the model can take: an action, a user error, a context error, "no start node" -/
def Outcome.Proper : Outcome → Prop
  | .ok _ => True
  | .err (.user _) => True
  | .err (.ctx _) => True
  | .err (.fw .noStart) => True
  | _ => False

theorem fallbackPhase_err {kind fb mkFb fbOut ctx r fev c e}
    (h : fallbackPhase kind fb mkFb fbOut ctx r = (fev, c, .error e)) :
    (∃ u, e = .user u) ∨ (∃ k, e = .ctx k) := by
  unfold fallbackPhase at h
  repeat' split at h
  all_goals simp at h
  all_goals (obtain ⟨_, _, h⟩ := h; subst h; simp)

theorem runLeaf_proper (kind n v sid cfg scr ctx) :
    Outcome.Proper (runLeaf kind n v sid cfg scr ctx).2.2 := by
  unfold runLeaf
  repeat' split
  all_goals try (simp [Outcome.Proper]; done)
  rename_i heq
  rcases fallbackPhase_err heq with ⟨u, rfl⟩ | ⟨k, rfl⟩ <;> simp [Outcome.Proper]

theorem runBatch_proper (kind n v sid cfg scr ctx) :
    Outcome.Proper (runBatch kind n v sid cfg scr ctx).2.2 := by
  unfold runBatch
  dsimp only
  repeat' (split <;> try dsimp only)
  all_goals simp [Outcome.Proper]

/-! ### the shape of a leaf run -/

/-- all the ways the fallback phase can go -/
theorem fallbackPhase_cases {kind fb mkFb fbOut ctx r fev c eres}
    (h : fallbackPhase kind fb mkFb fbOut ctx r = (fev, c, eres)) :
    (∃ x, r = .ok x ∧ fev = [] ∧ c = ctx ∧ eres = .ok x) ∨
    (∃ k, r = .cancelled k ∧ fev = [] ∧ c = ctx ∧ eres = .error (.ctx k)) ∨
    (∃ e, r = .failed e ∧ fb ≠ .custom ∧ fev = [] ∧ c = ctx ∧ eres = .error (.user e)) ∨
    (∃ e, r = .failed e ∧ fb = .custom ∧ fev = [mkFb e] ∧ c = ctx.after kind fbOut.cancels ∧
      eres = match fbOut.res with | .ok x => .ok x | .error e' => .error (.user e')) := by
  unfold fallbackPhase at h
  cases r with
  | ok x => simp only [Prod.mk.injEq] at h; obtain ⟨rfl, rfl, rfl⟩ := h; simp
  | cancelled k => simp only [Prod.mk.injEq] at h; obtain ⟨rfl, rfl, rfl⟩ := h; simp
  | failed e =>
    cases fb with
    | absent => simp only [Prod.mk.injEq] at h; obtain ⟨rfl, rfl, rfl⟩ := h; simp
    | passThrough => simp only [Prod.mk.injEq] at h; obtain ⟨rfl, rfl, rfl⟩ := h; simp
    | custom =>
      simp only at h
      cases hr : fbOut.res with
      | ok x => simp only [hr, Prod.mk.injEq] at h; obtain ⟨rfl, rfl, rfl⟩ := h; simp
      | error e' => simp only [hr, Prod.mk.injEq] at h; obtain ⟨rfl, rfl, rfl⟩ := h; simp

/-- the prep phase went through on a live context and left it live: events and the value `Run` holds -/
def PrepOk (_kind : CtxKind) (n : NodeId) (v : Nat) (sid : StoreId) (cfg : LeafCfg) (scr : LeafScript)
    (pev : List Ev) (pv : Val) : Prop :=
  (cfg.prepS = .absent ∧ pev = [] ∧ pv = Val.nil) ∨
  (cfg.prepS ≠ .absent ∧ pev = [.prep n v sid] ∧ scr.prep.cancels = false ∧
    ∃ x, scr.prep.res = .ok x ∧ pv = prepRet cfg.prepS x)

/-- the exec phase (retry loop, then fallback) of a leaf run -/
def ExecPhase (kind : CtxKind) (n : NodeId) (v : Nat) (cfg : LeafCfg) (scr : LeafScript) (pv : Val)
    (aev : List Ev) (c2 : Ctx) (ares : AttemptRes) (fev : List Ev) (c3 : Ctx) (eres : Except ErrRoot Val) : Prop :=
  attempts kind (fun k => .exec n v k (execArg cfg.execS pv)) (fun k f => .wait n v k cfg.effWait f)
      scr.exec scr.waitCancel cfg.execS cfg.effWait 0 cfg.effBudget none .live = (aev, c2, ares) ∧
  fallbackPhase kind cfg.fb (fun e => .fb n v pv (.user e)) scr.fb c2 ares = (fev, c3, eres)

/-- all the ways a leaf run on a live context can go -/
inductive LeafShape (kind : CtxKind) (n : NodeId) (v : Nat) (sid : StoreId) (cfg : LeafCfg) (scr : LeafScript) :
    List Ev → Ctx → Outcome → Prop
  | prepErr {e} : cfg.prepS ≠ .absent → scr.prep.res = .error e →
      LeafShape kind n v sid cfg scr [.prep n v sid] (Ctx.live.after kind scr.prep.cancels) (.err (.user e))
  | prepCancel {x} : cfg.prepS ≠ .absent → scr.prep.res = .ok x → scr.prep.cancels = true →
      LeafShape kind n v sid cfg scr [.prep n v sid] (.done kind) (.err (.ctx kind))
  | execErr {pev pv aev c2 ares fev c3 e} : PrepOk kind n v sid cfg scr pev pv →
      ExecPhase kind n v cfg scr pv aev c2 ares fev c3 (.error e) →
      LeafShape kind n v sid cfg scr (pev ++ aev ++ fev) c3 (.err e)
  | noPost {pev pv aev c2 ares fev c3 ev} : PrepOk kind n v sid cfg scr pev pv →
      ExecPhase kind n v cfg scr pv aev c2 ares fev c3 (.ok ev) → cfg.postS = .absent →
      LeafShape kind n v sid cfg scr (pev ++ aev ++ fev) c3 (.ok defaultAction)
  | postErr {pev pv aev c2 ares fev c3 ev e} : PrepOk kind n v sid cfg scr pev pv →
      ExecPhase kind n v cfg scr pv aev c2 ares fev c3 (.ok ev) → cfg.postS ≠ .absent → scr.post.res = .error e →
      LeafShape kind n v sid cfg scr
        (pev ++ aev ++ fev ++ [.post n v sid (postArgs cfg.postS pv ev).1 (postArgs cfg.postS pv ev).2])
        (c3.after kind scr.post.cancels) (.err (.user e))
  | postOk {pev pv aev c2 ares fev c3 ev a} : PrepOk kind n v sid cfg scr pev pv →
      ExecPhase kind n v cfg scr pv aev c2 ares fev c3 (.ok ev) → cfg.postS ≠ .absent → scr.post.res = .ok a →
      LeafShape kind n v sid cfg scr
        (pev ++ aev ++ fev ++ [.post n v sid (postArgs cfg.postS pv ev).1 (postArgs cfg.postS pv ev).2])
        (c3.after kind scr.post.cancels) (.ok (norm a))

theorem leafShape_finish {kind n v sid cfg scr evs c out pev pv aev c2 ares fev c3 eres}
    (h : (match eres with
      | .error e => (pev ++ aev ++ fev, c3, Outcome.err e)
      | .ok ev =>
        match cfg.postS with
        | .absent => (pev ++ aev ++ fev, c3, .ok defaultAction)
        | s =>
          match scr.post.res with
          | .error e => (pev ++ aev ++ fev ++ [.post n v sid (postArgs s pv ev).1 (postArgs s pv ev).2],
              c3.after kind scr.post.cancels, .err (.user e))
          | .ok a => (pev ++ aev ++ fev ++ [.post n v sid (postArgs s pv ev).1 (postArgs s pv ev).2],
              c3.after kind scr.post.cancels, .ok (norm a))) = (evs, c, out))
    (hP : PrepOk kind n v sid cfg scr pev pv) (hE : ExecPhase kind n v cfg scr pv aev c2 ares fev c3 eres) :
    LeafShape kind n v sid cfg scr evs c out := by
  cases eres with
  | error e => simp only at h; cases h; exact .execErr hP hE
  | ok ev =>
    simp only at h
    cases hpo : cfg.postS
    case absent => simp only [hpo] at h; cases h; exact .noPost hP hE hpo
    all_goals
      simp only [hpo] at h
      cases hr : scr.post.res with
      | error e =>
        simp only [hr] at h; cases h
        have := LeafShape.postErr (sid := sid) hP hE (by simp [hpo]) hr
        rw [hpo] at this; exact this
      | ok a =>
        simp only [hr] at h; cases h
        have := LeafShape.postOk (sid := sid) hP hE (by simp [hpo]) hr
        rw [hpo] at this; exact this

theorem leafShape_of_runLeaf {kind n v sid cfg scr evs c out}
    (h : runLeaf kind n v sid cfg scr .live = (evs, c, out)) : LeafShape kind n v sid cfg scr evs c out := by
  cases hs : cfg.prepS
  case absent =>
    simp only [runLeaf, hs] at h
    generalize hA : attempts kind (fun k => Ev.exec n v k (execArg cfg.execS Val.nil))
      (fun k f => Ev.wait n v k cfg.effWait f) scr.exec scr.waitCancel cfg.execS cfg.effWait 0 cfg.effBudget
      none Ctx.live = ar at h
    obtain ⟨aev, c2, ares⟩ := ar
    simp only at h
    generalize hF : fallbackPhase kind cfg.fb (fun e => Ev.fb n v Val.nil (ErrRoot.user e)) scr.fb c2 ares = fr at h
    obtain ⟨fev, c3, eres⟩ := fr
    simp only at h
    exact leafShape_finish h (.inl ⟨hs, rfl, rfl⟩) ⟨hA, hF⟩
  all_goals
    have hne : cfg.prepS ≠ .absent := by simp [hs]
    simp only [runLeaf, hs] at h
    cases hr : scr.prep.res with
    | error e =>
      simp only [hr, Except.map] at h
      cases h
      exact .prepErr hne hr
    | ok x =>
      simp only [hr, Except.map] at h
      cases hcz : scr.prep.cancels with
      | true =>
        simp only [hcz, after_live_true] at h
        cases h
        exact .prepCancel hne hr hcz
      | false =>
        simp only [hcz, after_live_false] at h
        generalize hA : attempts kind (fun k => Ev.exec n v k (execArg cfg.execS _))
          (fun k f => Ev.wait n v k cfg.effWait f) scr.exec scr.waitCancel cfg.execS cfg.effWait 0 cfg.effBudget
          none Ctx.live = ar at h
        obtain ⟨aev, c2, ares⟩ := ar
        simp only at h
        generalize hF : fallbackPhase kind cfg.fb _ scr.fb c2 ares = fr at h
        obtain ⟨fev, c3, eres⟩ := fr
        simp only at h
        refine leafShape_finish h (.inr ⟨hne, rfl, hcz, x, hr, ?_⟩) ⟨hA, hF⟩
        rw [hs]

/-- what `Run` does once the exec phase has produced `eres` (post, normalisation) -/
def leafFinish (kind : CtxKind) (n : NodeId) (v : Nat) (sid : StoreId) (cfg : LeafCfg) (scr : LeafScript)
    (pre : List Ev) (pv : Val) (c3 : Ctx) : Except ErrRoot Val → List Ev × Ctx × Outcome
  | .error e => (pre, c3, .err e)
  | .ok ev =>
    match cfg.postS with
    | .absent => (pre, c3, .ok defaultAction)
    | s =>
      match scr.post.res with
      | .error e => (pre ++ [.post n v sid (postArgs s pv ev).1 (postArgs s pv ev).2],
          c3.after kind scr.post.cancels, .err (.user e))
      | .ok a => (pre ++ [.post n v sid (postArgs s pv ev).1 (postArgs s pv ev).2],
          c3.after kind scr.post.cancels, .ok (norm a))

theorem runLeaf_body {kind n v sid cfg scr pev pv aev c2 ares fev c3 eres}
    (hP : PrepOk kind n v sid cfg scr pev pv) (hE : ExecPhase kind n v cfg scr pv aev c2 ares fev c3 eres) :
    runLeaf kind n v sid cfg scr .live = leafFinish kind n v sid cfg scr (pev ++ aev ++ fev) pv c3 eres := by
  obtain ⟨hA, hF⟩ := hE
  rcases hP with ⟨hs, rfl, rfl⟩ | ⟨hne, rfl, hc, x, hx, rfl⟩
  · simp only [runLeaf, hs, hA, hF]
    cases eres <;> rfl
  · cases hs : cfg.prepS
    case absent => exact absurd hs hne
    all_goals
      rw [hs] at hA hF
      simp only [runLeaf, hs, hx, Except.map, hc, after_live_false, hA, hF]
      cases eres <;> rfl


/-! ### a context that is already done -/

theorem runLeaf_done (kind n v sid cfg scr k) :
    runLeaf kind n v sid cfg scr (.done k) = ([], .done k, .err (.ctx k)) := by
  simp [runLeaf]

theorem leafStep_done {env : Env} {id sid cfg} {st : RunSt} {k} (hc : st.ctx = .done k) :
    leafStep env id sid cfg st = ([], st, .err (.ctx k)) := by
  unfold leafStep
  rw [hc, runLeaf_done]
  simp only
  cases st
  simp_all [RunSt.bumpIf]

theorem leafStep_ctx {env : Env} {id sid cfg st evs st' out} (h : leafStep env id sid cfg st = (evs, st', out)) :
    runLeaf env.kind id (st.visits id) sid cfg (env.leafBeh id (st.visits id)) st.ctx = (evs, st'.ctx, out) := by
  simp only [leafStep, Prod.mk.injEq] at h
  obtain ⟨h1, h2, h3⟩ := h
  subst h2
  simp [← h1, ← h3]

theorem batchStep_ctx {env : Env} {id sid cfg st evs st' out} (h : batchStep env id sid cfg st = (evs, st', out)) :
    runBatch env.kind id (st.visits id) sid cfg (env.batchBeh id (st.visits id)) st.ctx = (evs, st'.ctx, out) := by
  simp only [batchStep, Prod.mk.injEq] at h
  obtain ⟨h1, h2, h3⟩ := h
  subst h2
  simp [← h1, ← h3]

theorem big_node_ok_norm {env sid id st evs st' a} (h : Big env sid (.node id) st evs st' (.ok a)) :
    norm a = a := by
  cases h with
  | leaf hA h => exact runLeaf_ok_norm (congrArg (·.2.2) h)
  | batch hA h => exact runBatch_ok_norm (congrArg (·.2.2) h)
  | flowOk => exact norm_norm _
  | flowFail _ _ _ hne => exact absurd rfl (hne _)

theorem big_proper {env sid task st evs st' r} (h : Big env sid task st evs st' r) : Outcome.Proper r := by
  induction h with
  | leaf hA h => have e := (congrArg (·.2.2) h).symm; simp only at e; rw [e]; exact runLeaf_proper ..
  | batch hA h => have e := (congrArg (·.2.2) h).symm; simp only at e; rw [e]; exact runBatch_proper ..
  | flowDone => trivial
  | flowNoStart => trivial
  | flowOk => trivial
  | flowFail _ _ _ _ ih => exact ih
  | loopDone => trivial
  | loopStop => trivial
  | loopStep _ _ _ _ _ ih => exact ih
  | loopFail _ _ _ ih => exact ih

end Flyt.Proofs
