import FlytModel.Proofs.Leaf
/-!
# Fail-stop and error transparency (helper lemmas for C04)

`FailStop fatal evs out`: with `fatal e = some u` meaning "the callback invocation recorded as `e` ended its
run with user error `u`" (`Spec.scriptFatal`), a fatal event has no successor, determines the outcome, and
a user-error outcome is caused by the last event.
-/
namespace Flyt.Proofs
open Flyt

structure FailStop (fatal : Ev → Option Nat) (evs : List Ev) (out : Outcome) : Prop where
  /-- an event that has a successor is not fatal -/
  noneAfter : evs.Pairwise (fun e _ => fatal e = none)
  /-- a fatal event determines the outcome: that very error -/
  fatalErr : ∀ e ∈ evs, ∀ u, fatal e = some u → out = .err (.user u)
  /-- a user-error outcome is the error of the last callback invoked -/
  userErr : ∀ u, out = .err (.user u) → ∃ e, evs.getLast? = some e ∧ fatal e = some u

theorem pairwise_of_all {α} {P : α → Prop} {l : List α} (h : ∀ a ∈ l, P a) : l.Pairwise (fun a _ => P a) := by
  induction l with
  | nil => simp
  | cons a t ih =>
    rw [List.pairwise_cons]
    exact ⟨fun _ _ => h a (by simp), ih (fun b hb => h b (by simp [hb]))⟩

theorem FailStop.nil {fatal : Ev → Option Nat} {out : Outcome} (h : ∀ u, out ≠ .err (.user u)) :
    FailStop fatal [] out :=
  ⟨by simp, by simp, fun u hu => absurd hu (h u)⟩

theorem FailStop.nonfatal {fatal : Ev → Option Nat} {evs : List Ev} {out : Outcome} (h : FailStop fatal evs out)
    (ho : ∀ u, out ≠ .err (.user u)) : ∀ e ∈ evs, fatal e = none := by
  intro e he
  cases hf : fatal e with
  | none => rfl
  | some u => exact absurd (h.fatalErr e he u hf) (ho u)

theorem FailStop.append {fatal : Ev → Option Nat} {l1 l2 : List Ev} {out : Outcome}
    (h1 : ∀ e ∈ l1, fatal e = none) (h2 : FailStop fatal l2 out) : FailStop fatal (l1 ++ l2) out := by
  refine ⟨?_, ?_, ?_⟩
  · rw [List.pairwise_append]
    exact ⟨pairwise_of_all h1, h2.noneAfter, fun a ha _ _ => h1 a ha⟩
  · intro e he u hu
    rw [List.mem_append] at he
    rcases he with he | he
    · rw [h1 e he] at hu; cases hu
    · exact h2.fatalErr e he u hu
  · intro u hu
    obtain ⟨e, he, hf⟩ := h2.userErr u hu
    exact ⟨e, by rw [List.getLast?_append, he]; rfl, hf⟩

/-- a trace of non-fatal events followed by one last event that decides -/
theorem FailStop.snoc {fatal : Ev → Option Nat} {l : List Ev} {e : Ev} {out : Outcome}
    (h1 : ∀ a ∈ l, fatal a = none)
    (h2 : ∀ u, fatal e = some u ↔ out = .err (.user u)) : FailStop fatal (l ++ [e]) out := by
  apply FailStop.append h1
  refine ⟨by simp, ?_, ?_⟩
  · intro a ha u hu; simp at ha; subst ha; exact (h2 u).1 hu
  · intro u hu; exact ⟨e, by simp, (h2 u).2 hu⟩

/-- a trace without fatal events and an outcome that is not a user error -/
theorem FailStop.of_nonfatal {fatal : Ev → Option Nat} {l : List Ev} {out : Outcome}
    (h1 : ∀ a ∈ l, fatal a = none) (h2 : ∀ u, out ≠ .err (.user u)) : FailStop fatal l out := by
  have := FailStop.append h1 (FailStop.nil (fatal := fatal) h2)
  simpa using this

/-! ### one leaf run -/

section leaf
variable {env : Env} {n : NodeId} {v : Nat} {sid : StoreId} {cfg : LeafCfg}

theorem fatal_prep : Spec.scriptFatal env (.prep n v sid) = Spec.errOf (env.leafBeh n v).prep := rfl
theorem fatal_wait {k d f} : Spec.scriptFatal env (.wait n v k d f) = none := rfl
theorem fatal_fb {a e} : Spec.scriptFatal env (.fb n v a e) = Spec.errOf (env.leafBeh n v).fb := rfl
theorem fatal_post {a b} : Spec.scriptFatal env (.post n v sid a b) = Spec.errOf (env.leafBeh n v).post := rfl
theorem fatal_exec (hA : env.arena n = .leaf cfg) {k a} :
    Spec.scriptFatal env (.exec n v k a) =
      if k + 1 = cfg.effBudget ∧ cfg.fb ≠ .custom then Spec.errOf ((env.leafBeh n v).exec k) else none := by
  simp [Spec.scriptFatal, hA]

theorem prepOk_nonfatal {pev pv} (h : PrepOk env.kind n v sid cfg (env.leafBeh n v) pev pv) :
    ∀ e ∈ pev, Spec.scriptFatal env e = none := by
  rcases h with ⟨_, rfl, _⟩ | ⟨_, rfl, _, x, hx, _⟩
  · simp
  · intro e he; simp at he; subst he; rw [fatal_prep, errOf_ok hx]

/-- outcome of the run as far as the exec phase decides it (a value means "go on to post") -/
def execOut : Except ErrRoot Val → Outcome
  | .error e => .err e
  | .ok _ => .ok defaultAction

/-- the exec phase (loop + fallback) is fail-stop: either it yields a value and none of its events is
    fatal, or it yields a user error and its last event is the fatal one, or it was cancelled (no fatal event) -/
theorem execPhase_failstop (hA : env.arena n = .leaf cfg) {pv aev c2 ares fev c3 eres}
    (h : ExecPhase env.kind n v cfg (env.leafBeh n v) pv aev c2 ares fev c3 eres) :
    FailStop (Spec.scriptFatal env) (aev ++ fev) (execOut eres) := by
  obtain ⟨hat, hfb⟩ := h
  have hfs := attempts_failstop (kind := env.kind) (mkExec := fun k => Ev.exec n v k (execArg cfg.execS pv))
    (mkWait := fun k f => Ev.wait n v k cfg.effWait f) (exec := (env.leafBeh n v).exec)
    (waitCancel := (env.leafBeh n v).waitCancel) (execS := cfg.execS) (wait := cfg.effWait)
    (Spec.scriptFatal env) cfg.effBudget (cfg.fb ≠ .custom)
    (fun j => fatal_exec hA) (fun j b => fatal_wait) 0 cfg.effBudget none .live (by omega)
  rw [hat] at hfs
  obtain ⟨hs1, hs2, hs3⟩ := hfs
  simp only at hs1 hs2 hs3
  rcases fallbackPhase_cases hfb with ⟨x, rfl, rfl, rfl, rfl⟩ | ⟨k, rfl, rfl, rfl, rfl⟩ |
      ⟨e, rfl, hne, rfl, rfl, rfl⟩ | ⟨e, rfl, hcu, rfl, rfl, rfl⟩
  · -- the loop produced a value
    simp only [List.append_nil]
    apply FailStop.of_nonfatal
    · intro a ha
      cases hf : Spec.scriptFatal env a with
      | none => rfl
      | some u => have := (hs2 a ha u hf).1; cases this
    · simp [execOut]
  · -- cancelled
    simp only [List.append_nil]
    apply FailStop.of_nonfatal
    · intro a ha
      cases hf : Spec.scriptFatal env a with
      | none => rfl
      | some u => have := (hs2 a ha u hf).1; cases this
    · simp [execOut]
  · -- budget exhausted, no custom fallback: the last attempt's error is the run's error
    simp only [List.append_nil]
    refine ⟨hs1, ?_, ?_⟩
    · intro a ha u hu
      have := (hs2 a ha u hu).1
      cases this; rfl
    · intro u hu
      simp only [execOut, Outcome.err.injEq, ErrRoot.user.injEq] at hu
      subst hu
      rcases hs3 e rfl with ⟨_, hl⟩ | ⟨_, hl, herr⟩
      · cases hl
      · refine ⟨_, hl, ?_⟩
        rw [fatal_exec hA]
        have hb : cfg.effBudget - 1 + 1 = cfg.effBudget := by omega
        simp [hb, hne, herr]
  · -- custom fallback consumes the error
    have hnf : ∀ a ∈ aev, Spec.scriptFatal env a = none := by
      intro a ha
      cases hf : Spec.scriptFatal env a with
      | none => rfl
      | some u => exact absurd hcu (hs2 a ha u hf).2
    apply FailStop.snoc hnf
    intro u
    rw [fatal_fb]
    cases hr : (env.leafBeh n v).fb.res with
    | ok x => simp [Spec.errOf, hr, execOut]
    | error e' => simp [Spec.errOf, hr, execOut]

theorem runLeaf_failstop (hA : env.arena n = .leaf cfg) {ctx evs c out}
    (h : runLeaf env.kind n v sid cfg (env.leafBeh n v) ctx = (evs, c, out)) :
    FailStop (Spec.scriptFatal env) evs out := by
  cases ctx with
  | done k => rw [runLeaf_done] at h; cases h; exact FailStop.nil (by simp)
  | live =>
    have hs := leafShape_of_runLeaf h
    cases hs with
    | @prepErr e0 hne hr =>
      have := FailStop.snoc (fatal := Spec.scriptFatal env) (l := []) (e := .prep n v sid)
        (out := .err (.user e0)) (by simp) (by intro u; rw [fatal_prep, errOf_error hr]; simp)
      simpa using this
    | prepCancel hne hr hc =>
      apply FailStop.of_nonfatal
      · intro a ha; simp at ha; subst ha; rw [fatal_prep, errOf_ok hr]
      · simp
    | execErr hP hE =>
      rw [List.append_assoc]
      exact FailStop.append (prepOk_nonfatal hP) (execPhase_failstop hA hE)
    | noPost hP hE hpo =>
      rw [List.append_assoc]
      exact FailStop.append (prepOk_nonfatal hP) (execPhase_failstop hA hE)
    | postErr hP hE hpo hr =>
      have h1 := FailStop.append (prepOk_nonfatal hP) (execPhase_failstop hA hE)
      rw [← List.append_assoc] at h1
      apply FailStop.snoc (h1.nonfatal (by simp [execOut]))
      intro u; rw [fatal_post, errOf_error hr]; simp
    | postOk hP hE hpo hr =>
      have h1 := FailStop.append (prepOk_nonfatal hP) (execPhase_failstop hA hE)
      rw [← List.append_assoc] at h1
      apply FailStop.snoc (h1.nonfatal (by simp [execOut]))
      intro u; rw [fatal_post, errOf_ok hr]; simp

end leaf
end Flyt.Proofs
