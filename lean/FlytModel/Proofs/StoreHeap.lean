import FlytModel.Proofs.StoreKV
/-!
# The heap machine never shares an object: isolation invariant and refinement to the value machine
-/
namespace Flyt.Store
open Flyt

/-! ### list facts about references -/

theorem getD_set_ne {α} (l : List α) (i j : Nat) (x d : α) (h : i ≠ j) :
    (l.set i x).getD j d = l.getD j d := by grind
theorem getD_set_eq {α} (l : List α) (i : Nat) (x d : α) (h : i < l.length) :
    (l.set i x).getD i d = x := by grind
theorem getD_append_lt {α} (l l' : List α) (j : Nat) (d : α) (h : j < l.length) :
    (l ++ l').getD j d = l.getD j d := by grind
theorem getD_append_len {α} (l : List α) (x d : α) : (l ++ [x]).getD l.length d = x := by grind

/-- updating the object behind handle `j` changes exactly entry `j` of the dereferenced handle table -/
theorem map_set_handle {α} (objs : List α) (l : List Nat) (j r : Nat) (x d : α)
    (hj : l[j]? = some r) (hn : l.Nodup) (hr : r < objs.length) :
    l.map (fun q => (objs.set r x).getD q d) = (l.map (fun q => objs.getD q d)).set j x := by
  apply List.ext_getElem?
  intro i
  by_cases hij : i = j
  · subst hij
    grind
  · have : ∀ q, l[i]? = some q → q ≠ r := by
      intro q hq e
      subst e
      have hi : i < l.length := by grind
      exact hij ((List.getElem?_inj hi hn).1 (by rw [hq, hj]))
    grind

/-- updating an object no handle refers to leaves the dereferenced handle table alone -/
theorem map_set_other {α} (objs : List α) (l : List Nat) (r : Nat) (x d : α) (h : ∀ q ∈ l, q ≠ r) :
    l.map (fun q => (objs.set r x).getD q d) = l.map (fun q => objs.getD q d) := by
  apply List.map_congr_left
  intro q hq
  exact getD_set_ne objs r q x d (fun e => h q hq e.symm)

/-- allocating a new object leaves the dereferenced handle table alone -/
theorem map_append_alloc {α} (objs : List α) (l : List Nat) (x d : α) (h : ∀ q ∈ l, q < objs.length) :
    l.map (fun q => (objs ++ [x]).getD q d) = l.map (fun q => objs.getD q d) := by
  apply List.map_congr_left
  intro q hq
  exact getD_append_lt objs [x] q d (h q hq)

/-! ### the isolation invariant -/

/-- **Isolation invariant**: the store's map object exists and is distinct from every caller-held map
    object; caller-held maps are pairwise distinct objects; caller-held keys slices are pairwise
    distinct objects (the store has no slice object at all). -/
structure Iso (s : St) : Prop where
  data_lt : s.data < s.maps.length
  snaps_lt : ∀ r ∈ s.snaps, r < s.maps.length
  snaps_ne : ∀ r ∈ s.snaps, r ≠ s.data
  snaps_nodup : s.snaps.Nodup
  ksnaps_lt : ∀ r ∈ s.ksnaps, r < s.slices.length
  ksnaps_nodup : s.ksnaps.Nodup

theorem iso_init : Iso St.init := by
  constructor <;> simp [St.init]

theorem VSt.eq_of {a b : VSt} (h1 : a.m = b.m) (h2 : a.snaps = b.snaps) (h3 : a.ksnaps = b.ksnaps) : a = b := by
  cases a; cases b; simp_all

theorem nodup_append_fresh (l : List Nat) (n : Nat) (h : ∀ r ∈ l, r < n) (hn : l.Nodup) : (l ++ [n]).Nodup := by
  rw [List.nodup_append]
  refine ⟨hn, by simp, ?_⟩
  intro a ha b hb
  simp only [List.mem_singleton] at hb
  have := h a ha
  omega

theorem handle_mem {l : List Nat} {j r : Nat} (h : l[j]? = some r) : r ∈ l := List.mem_of_getElem? h

/-- one step of the heap machine preserves isolation -/
theorem iso_step {s : St} (h : Iso s) (op : Op) : Iso (step s op).1 := by
  obtain ⟨h1, h2, h3, h4, h5, h6⟩ := h
  cases op with
  | get k => exact ⟨h1, h2, h3, h4, h5, h6⟩
  | set k v => exact ⟨by simpa [step, St.write] using h1, by simpa [step, St.write] using h2, h3, h4, h5, h6⟩
  | getAll =>
    refine ⟨by simp [step]; omega, ?_, ?_, ?_, h5, h6⟩
    · intro r hr
      simp only [step, List.mem_append, List.mem_singleton, List.length_append, List.length_cons,
        List.length_nil] at hr ⊢
      rcases hr with hr | hr
      · have := h2 r hr; omega
      · omega
    · intro r hr
      simp only [step, List.mem_append, List.mem_singleton] at hr ⊢
      rcases hr with hr | hr
      · exact h3 r hr
      · omega
    · exact nodup_append_fresh _ _ h2 h4
  | mergeNil => exact ⟨h1, h2, h3, h4, h5, h6⟩
  | mergeLit l =>
    refine ⟨by simp [step, St.write]; omega, ?_, ?_, ?_, h5, h6⟩
    · intro r hr
      simp only [step, St.write, List.mem_append, List.mem_singleton, List.length_set, List.length_append,
        List.length_cons, List.length_nil] at hr ⊢
      rcases hr with hr | hr
      · have := h2 r hr; omega
      · omega
    · intro r hr
      simp only [step, St.write, List.mem_append, List.mem_singleton] at hr ⊢
      rcases hr with hr | hr
      · exact h3 r hr
      · omega
    · exact nodup_append_fresh _ _ h2 h4
  | mergeSnap j =>
    simp only [step]
    split
    · exact ⟨h1, h2, h3, h4, h5, h6⟩
    · exact ⟨by simpa [St.write] using h1, by simpa [St.write] using h2, h3, h4, h5, h6⟩
  | has k => exact ⟨h1, h2, h3, h4, h5, h6⟩
  | delete k => exact ⟨by simpa [step, St.write] using h1, by simpa [step, St.write] using h2, h3, h4, h5, h6⟩
  | clear =>
    refine ⟨by simp [step], ?_, ?_, h4, h5, h6⟩
    · intro r hr
      have := h2 r hr
      simp only [step, List.length_append, List.length_cons, List.length_nil]; omega
    · intro r hr
      have := h2 r hr
      simp only [step]; omega
  | keys =>
    refine ⟨h1, h2, h3, h4, ?_, ?_⟩
    · intro r hr
      simp only [step, List.mem_append, List.mem_singleton, List.length_append, List.length_cons,
        List.length_nil] at hr ⊢
      rcases hr with hr | hr
      · have := h5 r hr; omega
      · omega
    · exact nodup_append_fresh _ _ h5 h6
  | len => exact ⟨h1, h2, h3, h4, h5, h6⟩
  | snapSet j k v =>
    simp only [step]
    split
    · exact ⟨h1, h2, h3, h4, h5, h6⟩
    · exact ⟨by simpa [St.write] using h1, by simpa [St.write] using h2, h3, h4, h5, h6⟩
  | snapDel j k =>
    simp only [step]
    split
    · exact ⟨h1, h2, h3, h4, h5, h6⟩
    · exact ⟨by simpa [St.write] using h1, by simpa [St.write] using h2, h3, h4, h5, h6⟩
  | keysRepl j old new =>
    simp only [step]
    split
    · exact ⟨h1, h2, h3, h4, h5, h6⟩
    · exact ⟨h1, h2, h3, h4, by simpa using h5, h6⟩
  | readSnap j => simp only [step]; split <;> exact ⟨h1, h2, h3, h4, h5, h6⟩
  | readKeys j => simp only [step]; split <;> exact ⟨h1, h2, h3, h4, h5, h6⟩

theorem iso_exec {s : St} (h : Iso s) (ops : List Op) : Iso (exec s ops) := by
  induction ops generalizing s with
  | nil => exact h
  | cons op t ih => exact ih (iso_step h op)

/-! ### refinement: heap machine = value machine -/

theorem deref_fun (s : St) : s.deref = fun r => s.maps.getD r [] := rfl
theorem derefSlice_fun (s : St) : s.derefSlice = fun r => s.slices.getD r [] := rfl

theorem view_snaps_getElem? (s : St) (j : Nat) : s.view.snaps[j]? = (s.snaps[j]?).map s.deref := by
  simp [St.view]

theorem view_ksnaps_getElem? (s : St) (j : Nat) : s.view.ksnaps[j]? = (s.ksnaps[j]?).map s.derefSlice := by
  simp [St.view]

/-- On an isolated state one step of the heap machine answers what the value machine answers and
    leads to the state whose value view is the value machine's next state. -/
theorem step_view {s : St} (h : Iso s) (op : Op) :
    (step s op).2 = (vstep s.view op).2 ∧ (step s op).1.view = (vstep s.view op).1 := by
  obtain ⟨h1, h2, h3, h4, h5, h6⟩ := h
  cases op with
  | get k => exact ⟨rfl, rfl⟩
  | has k => exact ⟨rfl, rfl⟩
  | len => exact ⟨rfl, rfl⟩
  | mergeNil => exact ⟨rfl, rfl⟩
  | set k v =>
    refine ⟨rfl, VSt.eq_of ?_ ?_ rfl⟩
    · simp only [step, vstep, St.view, St.cur, deref_fun, St.write]
      exact getD_set_eq _ _ _ _ h1
    · simp only [step, vstep, St.view, St.cur, deref_fun, St.write]
      exact map_set_other _ _ _ _ _ h3
  | delete k =>
    refine ⟨rfl, VSt.eq_of ?_ ?_ rfl⟩
    · simp only [step, vstep, St.view, St.cur, deref_fun, St.write]
      exact getD_set_eq _ _ _ _ h1
    · simp only [step, vstep, St.view, St.cur, deref_fun, St.write]
      exact map_set_other _ _ _ _ _ h3
  | getAll =>
    refine ⟨rfl, VSt.eq_of ?_ ?_ rfl⟩
    · simp only [step, vstep, St.view, St.cur, St.deref]
      exact getD_append_lt _ _ _ _ h1
    · simp only [step, vstep, St.view, St.cur, deref_fun, List.map_append, List.map_cons, List.map_nil]
      rw [map_append_alloc _ _ _ _ h2, getD_append_len]
  | clear =>
    refine ⟨rfl, VSt.eq_of ?_ ?_ rfl⟩
    · simp only [step, vstep, St.view, St.cur, St.deref]
      exact getD_append_len _ _ _
    · simp only [step, vstep, St.view, St.cur, St.deref]
      exact map_append_alloc _ _ _ _ h2
  | keys =>
    refine ⟨rfl, VSt.eq_of rfl rfl ?_⟩
    simp only [step, vstep, St.view, St.cur, deref_fun, derefSlice_fun, List.map_append, List.map_cons,
      List.map_nil]
    rw [map_append_alloc _ _ _ _ h5, getD_append_len]
  | mergeLit l =>
    have e1 : (s.maps ++ [mergeInto [] l]).getD s.data [] = s.maps.getD s.data [] :=
      getD_append_lt _ _ _ _ h1
    have e2 : (s.maps ++ [mergeInto [] l]).getD s.maps.length [] = mergeInto [] l := getD_append_len _ _ _
    refine ⟨rfl, VSt.eq_of ?_ ?_ rfl⟩
    · simp only [step, vstep, St.view, St.cur, deref_fun, St.write, e1, e2]
      exact getD_set_eq _ _ _ _ (by simp; omega)
    · simp only [step, vstep, St.view, St.cur, deref_fun, St.write, e1, e2, List.map_append, List.map_cons,
        List.map_nil]
      have hne : s.data ≠ s.maps.length := by omega
      rw [getD_set_ne _ _ _ _ _ hne, e2, map_set_other _ _ _ _ _ h3, map_append_alloc _ _ _ _ h2]
  | mergeSnap j =>
    simp only [step, vstep, view_snaps_getElem?]
    cases hj : s.snaps[j]? with
    | none => exact ⟨rfl, rfl⟩
    | some r =>
      refine ⟨rfl, VSt.eq_of ?_ ?_ rfl⟩
      · simp only [Option.map_some, St.view, St.cur, deref_fun, St.write]
        exact getD_set_eq _ _ _ _ h1
      · simp only [Option.map_some, St.view, St.cur, deref_fun, St.write]
        exact map_set_other _ _ _ _ _ h3
  | snapSet j k v =>
    simp only [step, vstep, view_snaps_getElem?]
    cases hj : s.snaps[j]? with
    | none => exact ⟨rfl, rfl⟩
    | some r =>
      have hr := handle_mem hj
      refine ⟨rfl, VSt.eq_of ?_ ?_ rfl⟩
      · simp only [Option.map_some, St.view, St.cur, deref_fun, St.write]
        exact getD_set_ne _ _ _ _ _ (h3 r hr)
      · simp only [Option.map_some, St.view, St.cur, deref_fun, St.write]
        exact map_set_handle _ _ _ _ _ _ hj h4 (h2 r hr)
  | snapDel j k =>
    simp only [step, vstep, view_snaps_getElem?]
    cases hj : s.snaps[j]? with
    | none => exact ⟨rfl, rfl⟩
    | some r =>
      have hr := handle_mem hj
      refine ⟨rfl, VSt.eq_of ?_ ?_ rfl⟩
      · simp only [Option.map_some, St.view, St.cur, deref_fun, St.write]
        exact getD_set_ne _ _ _ _ _ (h3 r hr)
      · simp only [Option.map_some, St.view, St.cur, deref_fun, St.write]
        exact map_set_handle _ _ _ _ _ _ hj h4 (h2 r hr)
  | keysRepl j old new =>
    simp only [step, vstep, view_ksnaps_getElem?]
    cases hj : s.ksnaps[j]? with
    | none => exact ⟨rfl, rfl⟩
    | some r =>
      have hr := handle_mem hj
      refine ⟨rfl, VSt.eq_of rfl rfl ?_⟩
      simp only [Option.map_some, St.view, derefSlice_fun]
      exact map_set_handle _ _ _ _ _ _ hj h6 (h5 r hr)
  | readSnap j =>
    simp only [step, vstep, view_snaps_getElem?]
    cases hj : s.snaps[j]? with
    | none => exact ⟨rfl, rfl⟩
    | some r => exact ⟨rfl, rfl⟩
  | readKeys j =>
    simp only [step, vstep, view_ksnaps_getElem?]
    cases hj : s.ksnaps[j]? with
    | none => exact ⟨rfl, rfl⟩
    | some r => exact ⟨rfl, rfl⟩

theorem run_view {s : St} (h : Iso s) (ops : List Op) : run s ops = vrun s.view ops := by
  induction ops generalizing s with
  | nil => rfl
  | cons op t ih =>
    simp only [run, vrun]
    rw [(step_view h op).1, ih (iso_step h op), (step_view h op).2]

theorem exec_view {s : St} (h : Iso s) (ops : List Op) : (exec s ops).view = vexec s.view ops := by
  induction ops generalizing s with
  | nil => rfl
  | cons op t ih =>
    simp only [exec, vexec]
    rw [ih (iso_step h op), (step_view h op).2]

theorem view_init : St.init.view = VSt.init := rfl

end Flyt.Store
