import FlytModel.Spec.Flow
/-!
# The retry loop `attempts` and `fallbackPhase` (shared by `Run` and `runExecWithRetries`)

Lemmas are generic in the event constructors (`mkExec`, `mkWait`) so that they apply to the leaf loop
and to the duplicated batch-item loop alike.  Event classifiers (`fatal`, `cz`) are abstract functions
tied to the constructors by hypotheses.
-/
namespace Flyt.Proofs
open Flyt

@[simp] theorem after_live_false (kind : CtxKind) : Ctx.live.after kind false = .live := rfl
@[simp] theorem after_live_true (kind : CtxKind) : Ctx.live.after kind true = .done kind := rfl
@[simp] theorem after_done (k kind : CtxKind) (b : Bool) : (Ctx.done k).after kind b = .done k := rfl

theorem after_cases (c : Ctx) (kind : CtxKind) (b : Bool) :
    (c.after kind b = c) ∨ (c = .live ∧ b = true ∧ c.after kind b = .done kind) := by
  cases c <;> cases b <;> simp

/-- a callback outcome with its `cancels` flag cleared -/
def clearOut {α} (o : Out α) : Out α := { o with cancels := false }

@[simp] theorem clearOut_res {α} (o : Out α) : (clearOut o).res = o.res := rfl
@[simp] theorem clearOut_cancels {α} (o : Out α) : (clearOut o).cancels = false := rfl

section
variable {kind : CtxKind} {mkExec : Nat → Ev} {mkWait : Nat → Bool → Ev} {exec : Nat → Out Val}
  {waitCancel : Nat → Bool} {execS : Style} {wait : Nat}

theorem attempts_zero (k : Nat) (last : Option Nat) (ctx : Ctx) :
    attempts kind mkExec mkWait exec waitCancel execS wait k 0 last ctx =
      ([], ctx, match last with | none => .ok Val.nil | some e => .failed e) := by
  rfl

theorem attempts_done (k rem : Nat) (last : Option Nat) (kd : CtxKind) :
    (attempts kind mkExec mkWait exec waitCancel execS wait k rem last (.done kd)).1 = [] ∧
    (attempts kind mkExec mkWait exec waitCancel execS wait k rem last (.done kd)).2.1 = .done kd := by
  cases rem <;> simp [attempts]

theorem attempts_mem (k rem : Nat) (last : Option Nat) (ctx : Ctx) :
    ∀ e ∈ (attempts kind mkExec mkWait exec waitCancel execS wait k rem last ctx).1,
      (∃ j, k ≤ j ∧ j < k + rem ∧ e = mkExec j ∧ execS ≠ .absent) ∨
      (∃ j b, k ≤ j ∧ j < k + rem ∧ e = mkWait j b) := by
  fun_induction attempts kind mkExec mkWait exec waitCancel execS wait k rem last ctx with
  | case1 => simp
  | case2 => simp
  | case3 last k rem h =>
    intro e he
    simp at he
    exact .inr ⟨k, false, by omega, by omega, he⟩
  | case4 last k rem h wev ha =>
    intro e he
    simp only [wev] at he
    split at he
    · simp at he; exact .inr ⟨k, true, by omega, by omega, he⟩
    · simp at he
  | case5 last k rem h wev o x hx hne =>
    intro e he
    simp only [hx, wev, List.mem_append, List.mem_singleton] at he
    rcases he with he | he
    · split at he
      · simp at he; exact .inr ⟨k, true, by omega, by omega, he⟩
      · simp at he
    · exact .inl ⟨k, by omega, by omega, he, fun h => hne h⟩
  | case6 last k rem h wev o e0 he0 evs c r hne ctx' heq ih =>
    intro e he
    simp only [he0, wev, List.mem_append, List.mem_singleton] at he
    rcases he with (he | he) | he
    · split at he
      · simp at he; exact .inr ⟨k, true, by omega, by omega, he⟩
      · simp at he
    · exact .inl ⟨k, by omega, by omega, he, fun h => hne h⟩
    · rcases ih e he with ⟨j, h1, h2, h3⟩ | ⟨j, b, h1, h2, h3⟩
      · exact .inl ⟨j, by omega, by omega, h3⟩
      · exact .inr ⟨j, b, by omega, by omega, h3⟩


theorem errOf_ok {α} {o : Out α} {x} (h : o.res = .ok x) : Spec.errOf o = none := by simp [Spec.errOf, h]
theorem errOf_error {α} {o : Out α} {e} (h : o.res = .error e) : Spec.errOf o = some e := by simp [Spec.errOf, h]

/-- **fail-stop inside the retry loop**: with `fatal` marking exactly the failing last attempt (when no
    custom fallback will consume its error, `P`), no event that has a successor is fatal, a fatal event
    makes the loop end with that error, and a `failed` loop ended with the last attempt's error. -/
theorem attempts_failstop (fatal : Ev → Option Nat) (K : Nat) (P : Prop) [Decidable P]
    (hE : ∀ j, fatal (mkExec j) = if j + 1 = K ∧ P then Spec.errOf (exec j) else none)
    (hW : ∀ j b, fatal (mkWait j b) = none) (k rem : Nat) (last : Option Nat) (ctx : Ctx) :
    k + rem = K →
    (attempts kind mkExec mkWait exec waitCancel execS wait k rem last ctx).1.Pairwise (fun e _ => fatal e = none) ∧
    (∀ e ∈ (attempts kind mkExec mkWait exec waitCancel execS wait k rem last ctx).1, ∀ u, fatal e = some u →
        (attempts kind mkExec mkWait exec waitCancel execS wait k rem last ctx).2.2 = .failed u ∧ P) ∧
    (∀ u, (attempts kind mkExec mkWait exec waitCancel execS wait k rem last ctx).2.2 = .failed u →
        (rem = 0 ∧ last = some u) ∨
        (0 < rem ∧ (attempts kind mkExec mkWait exec waitCancel execS wait k rem last ctx).1.getLast? = some (mkExec (K - 1)) ∧
          Spec.errOf (exec (K - 1)) = some u)) := by
  fun_induction attempts kind mkExec mkWait exec waitCancel execS wait k rem last ctx with
  | case1 k last ctx =>
    intro _
    refine ⟨by simp, by simp, ?_⟩
    intro u hu
    cases last <;> simp_all
  | case2 => intro _; simp
  | case3 last k rem h => intro _; simp [hW]
  | case4 last k rem h wev ha =>
    intro _
    have hw : ∀ e ∈ wev, fatal e = none := by
      intro e he; simp only [wev] at he; split at he <;> simp at he; rw [he, hW]
    refine ⟨?_, ?_, by simp⟩
    · simp only [wev]; split <;> simp
    · intro e he u hu; rw [hw e he] at hu; cases hu
  | case5 last k rem h wev o x hx hne =>
    intro hK
    have hw : ∀ e ∈ wev, fatal e = none := by
      intro e he; simp only [wev] at he; split at he <;> simp at he; rw [he, hW]
    have hwp : wev.Pairwise (fun e _ => fatal e = none) := by simp only [wev]; split <;> simp
    have hk : fatal (mkExec k) = none := by
      rw [hE]; split
      · exact errOf_ok hx
      · rfl
    simp only [hx]
    refine ⟨?_, ?_, by simp⟩
    · rw [List.pairwise_append]; exact ⟨hwp, by simp, fun a ha _ _ => hw a ha⟩
    · intro e he u hu
      simp only [List.mem_append, List.mem_singleton] at he
      rcases he with he | he
      · rw [hw e he] at hu; cases hu
      · rw [he, hk] at hu; cases hu
  | case6 last k rem h wev o e0 he0 evs c r hne ctx' heq ih =>
    intro hK
    have hw : ∀ e ∈ wev, fatal e = none := by
      intro e he; simp only [wev] at he; split at he <;> simp at he; rw [he, hW]
    have hwp : wev.Pairwise (fun e _ => fatal e = none) := by simp only [wev]; split <;> simp
    obtain ⟨ih1, ih2, ih3⟩ := ih (by omega)
    have heq' : attempts kind mkExec mkWait exec waitCancel execS wait (k + 1) rem (some e0)
        (Ctx.live.after kind (exec k).cancels) = (evs, c, r) := heq
    rw [heq] at ih1 ih2 ih3
    simp only at ih1 ih2 ih3
    simp only [he0, o, heq']
    have hz : rem = 0 → evs = [] ∧ r = .failed e0 := by
      intro hr; subst hr; rw [attempts_zero] at heq'
      simp only [Prod.mk.injEq] at heq'
      exact ⟨heq'.1.symm, heq'.2.2.symm⟩
    refine ⟨?_, ?_, ?_⟩
    · rw [List.pairwise_append]
      refine ⟨?_, ih1, ?_⟩
      · rw [List.pairwise_append]; exact ⟨hwp, by simp, fun a ha _ _ => hw a ha⟩
      · intro a ha b hb
        simp only [List.mem_append, List.mem_singleton] at ha
        rcases ha with ha | ha
        · exact hw a ha
        · rw [ha, hE]
          split
          · rename_i hc
            have : rem = 0 := by omega
            rw [(hz this).1] at hb; cases hb
          · rfl
    · intro e he u hu
      simp only [List.mem_append, List.mem_singleton] at he
      rcases he with (he | he) | he
      · rw [hw e he] at hu; cases hu
      · rw [he, hE] at hu
        split at hu
        · rename_i hc
          have hr : rem = 0 := by omega
          rw [errOf_error he0] at hu; cases hu
          exact ⟨(hz hr).2, hc.2⟩
        · cases hu
      · exact ih2 e he u hu
    · intro u hu
      right
      rcases ih3 u hu with ⟨hr, hl⟩ | ⟨hr, hl, herr⟩
      · refine ⟨by omega, ?_, ?_⟩
        · rw [(hz hr).1]
          have : K - 1 = k := by omega
          simp [this]
        · have : K - 1 = k := by omega
          cases hl
          rw [this, errOf_error he0]
      · refine ⟨by omega, ?_, herr⟩
        rw [List.getLast?_append, hl]; rfl

/-- **cancellation inside the retry loop** (`cz` marks cancelling events: an attempt whose callback cancels,
    a wait cut short by an asynchronous cancel): a cancelling event is the loop's last event, leaves the
    context done, and without one a live context stays live and the loop does not report cancellation. -/
theorem attempts_cancel (cz : Ev → Bool) (hE : ∀ j, cz (mkExec j) = (exec j).cancels)
    (hW : ∀ j b, cz (mkWait j b) = !b) (k rem : Nat) (last : Option Nat) (ctx : Ctx) :
    (attempts kind mkExec mkWait exec waitCancel execS wait k rem last ctx).1.Pairwise (fun e _ => cz e = false) ∧
    (∀ e ∈ (attempts kind mkExec mkWait exec waitCancel execS wait k rem last ctx).1, cz e = true →
        (attempts kind mkExec mkWait exec waitCancel execS wait k rem last ctx).2.1 = .done kind) ∧
    (ctx = .live → (∀ e ∈ (attempts kind mkExec mkWait exec waitCancel execS wait k rem last ctx).1, cz e = false) →
        (attempts kind mkExec mkWait exec waitCancel execS wait k rem last ctx).2.1 = .live ∧
        ∀ kd, (attempts kind mkExec mkWait exec waitCancel execS wait k rem last ctx).2.2 ≠ .cancelled kd) ∧
    (∀ kd, (attempts kind mkExec mkWait exec waitCancel execS wait k rem last ctx).2.2 = .cancelled kd →
        (attempts kind mkExec mkWait exec waitCancel execS wait k rem last ctx).2.1 = .done kd) := by
  fun_induction attempts kind mkExec mkWait exec waitCancel execS wait k rem last ctx with
  | case1 k last ctx =>
    refine ⟨by simp, by simp, ?_, ?_⟩
    · intro hc _; refine ⟨hc, ?_⟩; intro kd; cases last <;> simp
    · intro kd; cases last <;> simp
  | case2 => simp
  | case3 last k rem h => simp [hW]
  | case4 last k rem h wev ha =>
    have hw : ∀ e ∈ wev, cz e = false := by
      intro e he; simp only [wev] at he; split at he <;> simp at he; rw [he, hW]; rfl
    refine ⟨?_, ?_, by simp, by simp⟩
    · simp only [wev]; split <;> simp
    · intro e he hc; rw [hw e he] at hc; cases hc
  | case5 last k rem h wev o x hx hne =>
    have hw : ∀ e ∈ wev, cz e = false := by
      intro e he; simp only [wev] at he; split at he <;> simp at he; rw [he, hW]; rfl
    have hwp : wev.Pairwise (fun e _ => cz e = false) := by simp only [wev]; split <;> simp
    simp only [hx]
    refine ⟨?_, ?_, ?_, by simp⟩
    · rw [List.pairwise_append]; exact ⟨hwp, by simp, fun a ha _ _ => hw a ha⟩
    · intro e he hc
      simp only [List.mem_append, List.mem_singleton] at he
      rcases he with he | he
      · rw [hw e he] at hc; cases hc
      · rw [he, hE] at hc; simp only [o, hc, after_live_true]
    · intro _ hall
      have : cz (mkExec k) = false := hall _ (by simp)
      rw [hE] at this
      simp [o, this]
  | case6 last k rem h wev o e0 he0 evs c r hne ctx' heq ih =>
    have hw : ∀ e ∈ wev, cz e = false := by
      intro e he; simp only [wev] at he; split at he <;> simp at he; rw [he, hW]; rfl
    have hwp : wev.Pairwise (fun e _ => cz e = false) := by simp only [wev]; split <;> simp
    obtain ⟨ih1, ih2, ih3, ih4⟩ := ih
    have heq' : attempts kind mkExec mkWait exec waitCancel execS wait (k + 1) rem (some e0)
        (Ctx.live.after kind (exec k).cancels) = (evs, c, r) := heq
    rw [heq] at ih1 ih2 ih3 ih4
    simp only at ih1 ih2 ih3 ih4
    simp only [he0, o, heq']
    have hcz : (exec k).cancels = true → evs = [] ∧ c = .done kind := by
      intro hc
      have := attempts_done (kind := kind) (mkExec := mkExec) (mkWait := mkWait) (exec := exec)
        (waitCancel := waitCancel) (execS := execS) (wait := wait) (k + 1) rem (some e0) kind
      rw [hc, after_live_true] at heq'
      rw [heq'] at this
      exact this
    refine ⟨?_, ?_, ?_, ih4⟩
    · rw [List.pairwise_append]
      refine ⟨?_, ih1, ?_⟩
      · rw [List.pairwise_append]; exact ⟨hwp, by simp, fun a ha _ _ => hw a ha⟩
      · intro a ha b hb
        simp only [List.mem_append, List.mem_singleton] at ha
        rcases ha with ha | ha
        · exact hw a ha
        · rw [ha, hE]
          cases hc : (exec k).cancels with
          | false => rfl
          | true => rw [(hcz hc).1] at hb; cases hb
    · intro e he hc
      simp only [List.mem_append, List.mem_singleton] at he
      rcases he with (he | he) | he
      · rw [hw e he] at hc; cases hc
      · rw [he, hE] at hc; exact (hcz hc).2
      · exact ih2 e he hc
    · intro _ hall
      have h1 : cz (mkExec k) = false := hall _ (by simp)
      rw [hE] at h1
      apply ih3
      · simp [ctx', o, h1]
      · intro e he; exact hall e (by simp [he])

/-- the loop reports cancellation only with a context that is done, and reports the context's own error -/
theorem attempts_cancelled (k rem : Nat) (last : Option Nat) (ctx : Ctx) :
    ∀ kd, (attempts kind mkExec mkWait exec waitCancel execS wait k rem last ctx).2.2 = .cancelled kd →
      (attempts kind mkExec mkWait exec waitCancel execS wait k rem last ctx).2.1 = .done kd := by
  fun_induction attempts kind mkExec mkWait exec waitCancel execS wait k rem last ctx with
  | case1 k last ctx => intro kd; cases last <;> simp
  | case2 => simp
  | case3 => simp
  | case4 => simp
  | case5 last k rem h wev o x hx hne => simp [hx]
  | case6 last k rem h wev o e0 he0 evs c r hne ctx' heq ih =>
    have heq' : attempts kind mkExec mkWait exec waitCancel execS wait (k + 1) rem (some e0)
        (Ctx.live.after kind (exec k).cancels) = (evs, c, r) := heq
    rw [heq] at ih
    simp only [he0, o, heq']
    exact ih

/-- **a loop that was not cut by cancellation does not depend on the cancellation flags**: the same loop over
    the scripts with every `cancels` flag cleared and no asynchronous cancel produces the same events and result. -/
theorem attempts_cleared (k rem : Nat) (last : Option Nat) (ctx : Ctx) :
    (∀ kd, (attempts kind mkExec mkWait exec waitCancel execS wait k rem last ctx).2.2 ≠ .cancelled kd) →
    attempts kind mkExec mkWait (fun j => clearOut (exec j)) (fun _ => false) execS wait k rem last .live =
      ((attempts kind mkExec mkWait exec waitCancel execS wait k rem last ctx).1, .live,
       (attempts kind mkExec mkWait exec waitCancel execS wait k rem last ctx).2.2) := by
  fun_induction attempts kind mkExec mkWait exec waitCancel execS wait k rem last ctx with
  | case1 k last ctx => intro _; cases last <;> simp [attempts_zero]
  | case2 last k rem kd => intro h; exact absurd rfl (h kd)
  | case3 last k rem h => intro h'; exact absurd rfl (h' kind)
  | case4 last k rem h wev ha =>
    intro _
    simp [attempts, ha, wev]
  | case5 last k rem h wev o x hx hne =>
    intro _
    have : execS ≠ .absent := fun h => hne h
    cases hs : execS <;> simp_all [attempts, o, wev]
  | case6 last k rem h wev o e0 he0 evs c r hne ctx' heq ih =>
    intro hnc
    have heq' : attempts kind mkExec mkWait exec waitCancel execS wait (k + 1) rem (some e0)
        (Ctx.live.after kind (exec k).cancels) = (evs, c, r) := heq
    simp only [he0, o, heq'] at hnc ⊢
    rw [heq] at ih
    have ih := ih hnc
    have : execS ≠ .absent := fun h => hne h
    cases hs : execS <;> simp_all [attempts, o, wev]

end
end Flyt.Proofs
