import FlytModel.Proofs.Table
/-!
# Big-step relation for `runNode` / `flowLoop` (proof device shared by C03, C04, C05, C10)

`Big env sid task st evs st' out` holds exactly for the non-`fuel` results of the fuelled recursive
model (`big_of_runNode`, `big_of_flowLoop`; converse `run_of_big`).  Routing is expressed with the
last-write-wins `next` (bridge: `Table.tableLookup_buildTable`).  Having the semantics as ONE inductive
relation lets every property be proved by a single `induction` instead of a mutual fuel induction.
-/
namespace Flyt.Proofs
open Flyt

/-- what is being run: a node (`flyt.Run`) or the loop of `Flow.Exec` from node `cur` on -/
inductive Task
  | node (id : NodeId)
  | loop (ops : List ConnOp) (cur : NodeId)

/-- `runNode` on a leaf, as a step on the run state -/
def leafStep (env : Env) (id : NodeId) (sid : StoreId) (cfg : LeafCfg) (st : RunSt) :
    List Ev × RunSt × Outcome :=
  let r := runLeaf env.kind id (st.visits id) sid cfg (env.leafBeh id (st.visits id)) st.ctx
  (r.1, { (st.bumpIf (!r.1.isEmpty) id) with ctx := r.2.1 }, r.2.2)

/-- `runNode` on a batch node, as a step on the run state -/
def batchStep (env : Env) (id : NodeId) (sid : StoreId) (cfg : BatchCfg) (st : RunSt) :
    List Ev × RunSt × Outcome :=
  let r := runBatch env.kind id (st.visits id) sid cfg (env.batchBeh id (st.visits id)) st.ctx
  (r.1, { (st.bumpIf (!r.1.isEmpty) id) with ctx := r.2.1 }, r.2.2)

theorem runNode_leaf {env : Env} {id : NodeId} {cfg : LeafCfg} (h : env.arena id = .leaf cfg)
    (f : Nat) (sid : StoreId) (st : RunSt) : runNode env (f + 1) id sid st = leafStep env id sid cfg st := by
  simp only [runNode, h, leafStep]

theorem runNode_batch {env : Env} {id : NodeId} {cfg : BatchCfg} (h : env.arena id = .batch cfg)
    (f : Nat) (sid : StoreId) (st : RunSt) : runNode env (f + 1) id sid st = batchStep env id sid cfg st := by
  simp only [runNode, h, batchStep]

inductive Big (env : Env) (sid : StoreId) : Task → RunSt → List Ev → RunSt → Outcome → Prop
  | leaf {id cfg st evs st' out} : env.arena id = .leaf cfg → leafStep env id sid cfg st = (evs, st', out) →
      Big env sid (.node id) st evs st' out
  | batch {id cfg st evs st' out} : env.arena id = .batch cfg → batchStep env id sid cfg st = (evs, st', out) →
      Big env sid (.node id) st evs st' out
  | flowDone {id s ops st k} : env.arena id = .flow s ops → st.ctx = .done k →
      Big env sid (.node id) st [] st (.err (.ctx k))
  | flowNoStart {id ops st} : env.arena id = .flow none ops → st.ctx = .live →
      Big env sid (.node id) st [] st (.err (.fw .noStart))
  | flowOk {id s ops st evs st' a} : env.arena id = .flow (some s) ops → st.ctx = .live →
      Big env sid (.loop ops s) st evs st' (.ok a) → Big env sid (.node id) st evs st' (.ok (norm a))
  | flowFail {id s ops st evs st' r} : env.arena id = .flow (some s) ops → st.ctx = .live →
      Big env sid (.loop ops s) st evs st' r → (∀ a, r ≠ .ok a) → Big env sid (.node id) st evs st' r
  | loopDone {ops cur st k} : st.ctx = .done k → Big env sid (.loop ops cur) st [] st (.err (.ctx k))
  | loopStop {ops cur st evs st' a} : st.ctx = .live → Big env sid (.node cur) st evs st' (.ok a) →
      (∀ nxt, next ops cur a ≠ some (some nxt)) → Big env sid (.loop ops cur) st evs st' (.ok a)
  | loopStep {ops cur st evs st' a nxt evs2 st'' r} : st.ctx = .live → Big env sid (.node cur) st evs st' (.ok a) →
      next ops cur a = some (some nxt) → Big env sid (.loop ops nxt) st' evs2 st'' r →
      Big env sid (.loop ops cur) st (evs ++ evs2) st'' r
  | loopFail {ops cur st evs st' r} : st.ctx = .live → Big env sid (.node cur) st evs st' r → (∀ a, r ≠ .ok a) →
      Big env sid (.loop ops cur) st evs st' r

theorem big_of_run (env : Env) (sid : StoreId) (f : Nat) :
    (∀ id st evs st' r, runNode env f id sid st = (evs, st', r) → r ≠ .fuel →
        Big env sid (.node id) st evs st' r) ∧
    (∀ ops cur st evs st' r, flowLoop env f (buildTable ops) cur sid st = (evs, st', r) → r ≠ .fuel →
        Big env sid (.loop ops cur) st evs st' r) := by
  induction f with
  | zero =>
    constructor
    · intro id st evs st' r h hr; simp [runNode] at h; exact absurd h.2.2.symm hr
    · intro ops cur st evs st' r h hr; simp [flowLoop] at h; exact absurd h.2.2.symm hr
  | succ f ih =>
    obtain ⟨ihN, ihL⟩ := ih
    constructor
    · intro id st evs st' r h hr
      cases hA : env.arena id with
      | leaf cfg => rw [runNode_leaf hA] at h; exact .leaf hA h
      | batch cfg => rw [runNode_batch hA] at h; exact .batch hA h
      | flow start ops =>
        simp only [runNode, hA] at h
        cases hc : st.ctx with
        | done k =>
          simp only [hc] at h
          cases h
          exact .flowDone hA hc
        | live =>
          simp only [hc] at h
          cases start with
          | none => simp only at h; cases h; exact .flowNoStart hA hc
          | some s =>
            simp only at h
            cases hl : flowLoop env f (buildTable ops) s sid st with
            | mk evs1 p =>
              obtain ⟨st1, r1⟩ := p
              rw [hl] at h
              cases r1 with
              | ok a =>
                simp only at h; cases h
                exact .flowOk hA hc (ihL ops s st evs st' (.ok a) hl (by simp))
              | err e =>
                simp only at h; cases h
                exact .flowFail hA hc (ihL ops s st evs st' _ hl hr) (by simp)
              | both a e =>
                simp only at h; cases h
                exact .flowFail hA hc (ihL ops s st evs st' _ hl hr) (by simp)
              | fuel => simp only at h; cases h; exact absurd rfl hr
    · intro ops cur st evs st' r h hr
      simp only [flowLoop] at h
      cases hc : st.ctx with
      | done k => simp only [hc] at h; cases h; exact .loopDone hc
      | live =>
        simp only [hc] at h
        cases hn : runNode env f cur sid st with
        | mk evs1 p =>
          obtain ⟨st1, r1⟩ := p
          rw [hn] at h
          cases r1 with
          | ok a =>
            simp only at h
            rw [Table.tableLookup_buildTable] at h
            have b1 := ihN cur st evs1 st1 (.ok a) hn (by simp)
            cases hnx : next ops cur a with
            | none =>
              simp only [hnx] at h; cases h
              exact .loopStop hc b1 (by simp [hnx])
            | some t =>
              cases t with
              | none =>
                simp only [hnx] at h; cases h
                exact .loopStop hc b1 (by simp [hnx])
              | some nxt =>
                simp only [hnx] at h
                cases hl : flowLoop env f (buildTable ops) nxt sid st1 with
                | mk evs2 p2 =>
                  obtain ⟨st2, r2⟩ := p2
                  rw [hl] at h
                  simp only at h
                  cases h
                  exact .loopStep hc b1 hnx (ihL ops nxt st1 evs2 st' r hl hr)
          | err e => simp only at h; cases h; exact .loopFail hc (ihN cur st evs st' _ hn hr) (by simp)
          | both a e => simp only at h; cases h; exact .loopFail hc (ihN cur st evs st' _ hn hr) (by simp)
          | fuel => simp only at h; cases h; exact absurd rfl hr

theorem big_of_runNode {env : Env} {sid : StoreId} {f : Nat} {id : NodeId} {st st' : RunSt} {evs : List Ev}
    {r : Outcome} (h : runNode env f id sid st = (evs, st', r)) (hr : r ≠ .fuel) :
    Big env sid (.node id) st evs st' r := (big_of_run env sid f).1 id st evs st' r h hr

theorem big_of_flowLoop {env : Env} {sid : StoreId} {f : Nat} {ops : List ConnOp} {cur : NodeId} {st st' : RunSt}
    {evs : List Ev} {r : Outcome} (h : flowLoop env f (buildTable ops) cur sid st = (evs, st', r)) (hr : r ≠ .fuel) :
    Big env sid (.loop ops cur) st evs st' r := (big_of_run env sid f).2 ops cur st evs st' r h hr

end Flyt.Proofs

namespace Flyt.Proofs
open Flyt

/-! ### more fuel never changes a non-`fuel` result -/

theorem run_mono_succ (env : Env) (sid : StoreId) (f : Nat) :
    (∀ id st r, runNode env f id sid st = r → r.2.2 ≠ .fuel → runNode env (f + 1) id sid st = r) ∧
    (∀ tbl cur st r, flowLoop env f tbl cur sid st = r → r.2.2 ≠ .fuel →
        flowLoop env (f + 1) tbl cur sid st = r) := by
  induction f with
  | zero =>
    constructor
    · intro id st r h hr; subst h; simp [runNode] at hr
    · intro tbl cur st r h hr; subst h; simp [flowLoop] at hr
  | succ f ih =>
    obtain ⟨ihN, ihL⟩ := ih
    constructor
    · intro id st r h hr
      cases hA : env.arena id with
      | leaf cfg => rw [runNode_leaf hA] at h ⊢; exact h
      | batch cfg => rw [runNode_batch hA] at h ⊢; exact h
      | flow start ops =>
        subst h
        cases hc : st.ctx with
        | done k => simp only [runNode, hA, hc]
        | live =>
          cases start with
          | none => simp only [runNode, hA, hc]
          | some s =>
            have key : flowLoop env (f + 1) (buildTable ops) s sid st = flowLoop env f (buildTable ops) s sid st := by
              apply ihL _ _ _ _ rfl
              intro hf
              apply hr
              rw [runNode]
              simp only [hA, hc]
              split
              · rename_i heq; rw [heq] at hf; cases hf
              · exact hf
            rw [runNode]
            simp only [hA, hc, key]
            rw [runNode]
            simp only [hA, hc]
    · intro tbl cur st r h hr
      subst h
      cases hc : st.ctx with
      | done k => simp only [flowLoop, hc]
      | live =>
        have key : runNode env (f + 1) cur sid st = runNode env f cur sid st := by
          apply ihN _ _ _ rfl
          intro hf
          apply hr
          rw [flowLoop]
          simp only [hc]
          split
          · rename_i heq; rw [heq] at hf; cases hf
          · exact hf
        rw [flowLoop]
        simp only [hc, key]
        conv => rhs; rw [flowLoop]; simp only [hc]
        split
        · rename_i evs st1 a heq
          split
          · rename_i nxt hlk
            have key2 : flowLoop env (f + 1) tbl nxt sid st1 = flowLoop env f tbl nxt sid st1 := by
              apply ihL _ _ _ _ rfl
              intro hf
              apply hr
              rw [flowLoop]
              simp only [hc, heq, hlk]
              exact hf
            rw [key2]
          · rfl
        · rfl

theorem runNode_mono {env : Env} {sid : StoreId} {f : Nat} {id st r} (h : runNode env f id sid st = r)
    (hr : r.2.2 ≠ .fuel) (f' : Nat) (hf : f ≤ f') : runNode env f' id sid st = r := by
  induction hf with
  | refl => exact h
  | step _ ih => exact (run_mono_succ env sid _).1 id st r ih hr

theorem flowLoop_mono {env : Env} {sid : StoreId} {f : Nat} {tbl cur st r}
    (h : flowLoop env f tbl cur sid st = r) (hr : r.2.2 ≠ .fuel) (f' : Nat) (hf : f ≤ f') :
    flowLoop env f' tbl cur sid st = r := by
  induction hf with
  | refl => exact h
  | step _ ih => exact (run_mono_succ env sid _).2 tbl cur st r ih hr

/-- completeness of `Big`: every derivation is a run of the fuelled model -/
theorem run_of_big {env : Env} {sid : StoreId} {task st evs st' r} (h : Big env sid task st evs st' r) :
    r ≠ .fuel ∧
    match task with
    | .node id => ∃ f, runNode env f id sid st = (evs, st', r)
    | .loop ops cur => ∃ f, flowLoop env f (buildTable ops) cur sid st = (evs, st', r) := by
  induction h with
  | @leaf id cfg st evs st' out hA h =>
    refine ⟨?_, 1, by rw [runNode_leaf hA]; exact h⟩
    have e := (congrArg (·.2.2) h).symm
    simp only [leafStep] at e
    rw [e]
    unfold runLeaf
    repeat' split
    all_goals simp
  | @batch id cfg st evs st' out hA h =>
    refine ⟨?_, 1, by rw [runNode_batch hA]; exact h⟩
    have e := (congrArg (·.2.2) h).symm
    simp only [batchStep] at e
    rw [e]
    unfold runBatch
    dsimp only
    repeat' (split <;> try dsimp only)
    all_goals simp
  | flowDone hA hc => exact ⟨by simp, 1, by simp [runNode, hA, hc]⟩
  | flowNoStart hA hc => exact ⟨by simp, 1, by simp [runNode, hA, hc]⟩
  | flowOk hA hc _ ih =>
    obtain ⟨_, f, hf⟩ := ih
    exact ⟨by simp, f + 1, by simp [runNode, hA, hc, hf]⟩
  | @flowFail id s ops st evs st' r hA hc _ hne ih =>
    obtain ⟨hr, f, hf⟩ := ih
    refine ⟨hr, f + 1, ?_⟩
    simp only [runNode, hA, hc, hf]
    cases r <;> simp_all
  | loopDone hc => exact ⟨by simp, 1, by simp [flowLoop, hc]⟩
  | @loopStop ops cur st evs st' a hc _ hnx ih =>
    obtain ⟨_, f, hf⟩ := ih
    refine ⟨by simp, f + 1, ?_⟩
    simp only [flowLoop, hc, hf, Table.tableLookup_buildTable]
    try (split
         · rename_i nxt hx; exact absurd hx (hnx nxt)
         · rfl)
  | @loopStep ops cur st evs st' a nxt evs2 st'' r hc _ hnx _ ih1 ih2 =>
    obtain ⟨_, f1, hf1⟩ := ih1
    obtain ⟨hr, f2, hf2⟩ := ih2
    refine ⟨hr, max f1 f2 + 1, ?_⟩
    have h1 := runNode_mono hf1 (by simp) (max f1 f2) (Nat.le_max_left ..)
    have h2 := flowLoop_mono hf2 (by simpa using hr) (max f1 f2) (Nat.le_max_right ..)
    simp only [flowLoop, hc, h1, Table.tableLookup_buildTable, hnx, h2]
  | @loopFail ops cur st evs st' r hc _ hne ih =>
    obtain ⟨hr, f, hf⟩ := ih
    refine ⟨hr, f + 1, ?_⟩
    simp only [flowLoop, hc, hf]
    cases r <;> simp_all

/-- determinism across fuel: two non-`fuel` results of the same call agree -/
theorem runNode_det {env : Env} {sid : StoreId} {f f' : Nat} {id st r r'}
    (h : runNode env f id sid st = r) (hr : r.2.2 ≠ .fuel)
    (h' : runNode env f' id sid st = r') (hr' : r'.2.2 ≠ .fuel) : r = r' := by
  have a := runNode_mono h hr (max f f') (Nat.le_max_left ..)
  have b := runNode_mono h' hr' (max f f') (Nat.le_max_right ..)
  exact a.symm.trans b

end Flyt.Proofs
