import FlytModel.Proofs.BatchLemmas
/-!
# Which events a node's run emits (helper lemmas for C03 "no node off the path is touched",
C10 "same shared store", C05 "only the same visit's fallback / post")
-/
namespace Flyt.Proofs
open Flyt

/-- the store identity a callback event carries (prep / post callbacks receive the store) -/
def evSid : Ev → Option StoreId
  | .prep _ _ s => some s
  | .post _ _ s _ _ => some s
  | .bprep _ _ s => some s
  | .bpost _ _ s _ _ => some s
  | _ => none

/-- event of visit `v` of leaf `n` run on store `sid` -/
def LeafEv (n : NodeId) (v : Nat) (sid : StoreId) : Ev → Prop
  | .prep n' v' s => n' = n ∧ v' = v ∧ s = sid
  | .exec n' v' _ _ => n' = n ∧ v' = v
  | .wait n' v' _ _ _ => n' = n ∧ v' = v
  | .fb n' v' _ _ => n' = n ∧ v' = v
  | .post n' v' s _ _ => n' = n ∧ v' = v ∧ s = sid
  | _ => False

/-- event of visit `v` of batch node `n` run on store `sid` -/
def BatchEv (n : NodeId) (v : Nat) (sid : StoreId) : Ev → Prop
  | .bprep n' v' s => n' = n ∧ v' = v ∧ s = sid
  | .bpost n' v' s _ _ => n' = n ∧ v' = v ∧ s = sid
  | e => ItemEv n v e

theorem LeafEv.key {n v sid e} (h : LeafEv n v sid e) : Spec.evKey e = (n, v) := by
  cases e <;> simp_all [LeafEv, Spec.evKey]
theorem LeafEv.sid {n v sid e} (h : LeafEv n v sid e) : evSid e = none ∨ evSid e = some sid := by
  cases e <;> simp_all [LeafEv, evSid]
theorem LeafEv.notBatch {n v sid e} (h : LeafEv n v sid e) : Spec.isBatchEv e = false := by
  cases e <;> simp_all [LeafEv, Spec.isBatchEv]
theorem BatchEv.key {n v sid e} (h : BatchEv n v sid e) : Spec.evKey e = (n, v) := by
  cases e <;> simp_all [BatchEv, ItemEv, Spec.evKey]
theorem BatchEv.sid {n v sid e} (h : BatchEv n v sid e) : evSid e = none ∨ evSid e = some sid := by
  cases e <;> simp_all [BatchEv, ItemEv, evSid]
theorem BatchEv.isBatch {n v sid e} (h : BatchEv n v sid e) : Spec.isBatchEv e = true := by
  cases e <;> simp_all [BatchEv, ItemEv, Spec.isBatchEv]
theorem ItemEv.batchEv {n v sid e} (h : ItemEv n v e) : BatchEv n v sid e := by
  cases e <;> simp_all [BatchEv, ItemEv]

theorem prepOk_mem {kind n v sid cfg scr pev pv} (h : PrepOk kind n v sid cfg scr pev pv) :
    ∀ e ∈ pev, e = .prep n v sid := by
  rcases h with ⟨_, rfl, _⟩ | ⟨_, rfl, _⟩ <;> simp

theorem execPhase_mem {kind n v cfg scr pv aev c2 ares fev c3 eres}
    (h : ExecPhase kind n v cfg scr pv aev c2 ares fev c3 eres) :
    (∀ e ∈ aev, (∃ k a, e = .exec n v k a) ∨ (∃ k d f, e = .wait n v k d f)) ∧
    (∀ e ∈ fev, ∃ a err, e = .fb n v a err) := by
  obtain ⟨hA, hF⟩ := h
  constructor
  · have := attempts_mem (kind := kind) (mkExec := fun k => Ev.exec n v k (execArg cfg.execS pv))
      (mkWait := fun k f => Ev.wait n v k cfg.effWait f) (exec := scr.exec) (waitCancel := scr.waitCancel)
      (execS := cfg.execS) (wait := cfg.effWait) 0 cfg.effBudget none .live
    rw [hA] at this
    intro e he
    rcases this e he with ⟨j, _, _, rfl, _⟩ | ⟨j, b, _, _, rfl⟩
    · exact .inl ⟨_, _, rfl⟩
    · exact .inr ⟨_, _, _, rfl⟩
  · rcases fallbackPhase_cases hF with ⟨x, _, rfl, _⟩ | ⟨k, _, rfl, _⟩ | ⟨e', _, _, rfl, _⟩ | ⟨e', _, _, rfl, _⟩
    · simp
    · simp
    · simp
    · intro e he; simp at he; exact ⟨_, _, he⟩

theorem runLeaf_mem {kind n v sid cfg scr ctx evs c out} (h : runLeaf kind n v sid cfg scr ctx = (evs, c, out)) :
    ∀ e ∈ evs, LeafEv n v sid e := by
  cases ctx with
  | done k => rw [runLeaf_done] at h; cases h; simp
  | live =>
    have body : ∀ {pev pv aev c2 ares fev c3 eres}, PrepOk kind n v sid cfg scr pev pv →
        ExecPhase kind n v cfg scr pv aev c2 ares fev c3 eres → ∀ e ∈ pev ++ aev ++ fev, LeafEv n v sid e := by
      intro pev pv aev c2 ares fev c3 eres hP hE e he
      simp only [List.mem_append] at he
      rcases he with (he | he) | he
      · rw [prepOk_mem hP e he]; simp [LeafEv]
      · rcases (execPhase_mem hE).1 e he with ⟨k, a, rfl⟩ | ⟨k, d, f, rfl⟩ <;> simp [LeafEv]
      · obtain ⟨a, err, rfl⟩ := (execPhase_mem hE).2 e he; simp [LeafEv]
    cases leafShape_of_runLeaf h with
    | prepErr => simp [LeafEv]
    | prepCancel => simp [LeafEv]
    | execErr hP hE => exact body hP hE
    | noPost hP hE _ => exact body hP hE
    | postErr hP hE _ _ =>
      intro e he
      rw [List.mem_append] at he
      rcases he with he | he
      · exact body hP hE e he
      · simp at he; subst he; simp [LeafEv]
    | postOk hP hE _ _ =>
      intro e he
      rw [List.mem_append] at he
      rcases he with he | he
      · exact body hP hE e he
      · simp at he; subst he; simp [LeafEv]

theorem runBatch_mem {kind n v sid cfg scr ctx evs c out} (h : runBatch kind n v sid cfg scr ctx = (evs, c, out)) :
    ∀ e ∈ evs, BatchEv n v sid e := by
  cases batchShape_of_runBatch h with
  | prepErr => simp [BatchEv]
  | noPost hr hbi hp =>
    intro e he
    simp only [List.mem_append, List.mem_singleton] at he
    rcases he with rfl | he
    · simp [BatchEv]
    · exact (batchItems_mem' hbi e he).batchEv
  | postErr hr hbi hp hpr =>
    intro e he
    simp only [List.mem_append, List.mem_singleton] at he
    rcases he with (rfl | he) | rfl
    · simp [BatchEv]
    · exact (batchItems_mem' hbi e he).batchEv
    · simp [BatchEv]
  | postOk hr hbi hp hpr =>
    intro e he
    simp only [List.mem_append, List.mem_singleton] at he
    rcases he with (rfl | he) | rfl
    · simp [BatchEv]
    · exact (batchItems_mem' hbi e he).batchEv
    · simp [BatchEv]

end Flyt.Proofs
