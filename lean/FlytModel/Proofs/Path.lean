import FlytModel.Proofs.Events
/-!
# The path a flow takes (helper definitions and lemmas for C03 / C10)

A run of `Flow.Exec` is cut into *visits* (one `flyt.Run` of a node each); `IsPath` says that the visits
are chained exactly as the last-write-wins table `next` and the returned actions dictate.
-/
namespace Flyt.Proofs
open Flyt

/-- one `flyt.Run(ctx, node, shared)` performed by the loop of `Flow.Exec` -/
structure Visit where
  node : NodeId
  /-- run state (context, visit counters) when the node was started -/
  pre : RunSt
  /-- callback events of this visit (for a nested flow: all events of the inner run) -/
  evs : List Ev
  /-- run state when it returned -/
  post : RunSt
  out : Outcome

/-- `vs` is the sequence of visits of `Flow.Exec` started at `cur` in state `st` over connection list `ops`,
    ending in state `st'` with outcome `out`:
    * no visit at all — only if the context is done when `cur` should start;
    * each visit starts in the state the previous one left, on a live context;
    * after a visit that returned action `a`, the next visit is of the node most recently connected to
      `(cur, a)`; the flow ends with `ok a` exactly when there is no connection or a nil connection;
    * a visit that failed ends the flow with its error. -/
def IsPath (ops : List ConnOp) : NodeId → RunSt → List Visit → RunSt → Outcome → Prop
  | _, st, [], st', out => st' = st ∧ ∃ k, st.ctx = .done k ∧ out = .err (.ctx k)
  | cur, st, v :: vs, st', out =>
    v.node = cur ∧ v.pre = st ∧ st.ctx = .live ∧
    match v.out with
    | .ok a =>
      match next ops cur a with
      | some (some nxt) => IsPath ops nxt v.post vs st' out
      | _ => vs = [] ∧ st' = v.post ∧ out = .ok a
    | o => vs = [] ∧ st' = v.post ∧ out = o

/-- the visit really is a run of the model: `runNode` with some fuel returns exactly this -/
def Visit.Genuine (env : Env) (sid : StoreId) (v : Visit) : Prop :=
  ∃ f, runNode env f v.node sid v.pre = (v.evs, v.post, v.out) ∧ v.out ≠ .fuel

theorem path_of_big {env : Env} {sid : StoreId} {task st evs st' r} (h : Big env sid task st evs st' r) :
    match task with
    | .node _ => True
    | .loop ops cur => ∃ vs : List Visit, IsPath ops cur st vs st' r ∧ evs = vs.flatMap (·.evs) ∧
        ∀ v ∈ vs, Big env sid (.node v.node) v.pre v.evs v.post v.out := by
  induction h with
  | leaf => trivial
  | batch => trivial
  | flowDone => trivial
  | flowNoStart => trivial
  | flowOk => trivial
  | flowFail => trivial
  | @loopDone ops cur st k hc => exact ⟨[], ⟨rfl, k, hc, rfl⟩, rfl, by simp⟩
  | @loopStop ops cur st evs st' a hc h1 hnx _ =>
    refine ⟨[⟨cur, st, evs, st', .ok a⟩], ?_, by simp, by simpa using h1⟩
    refine ⟨rfl, rfl, hc, ?_⟩
    simp only
    cases hx : next ops cur a with
    | none => simp
    | some t =>
      cases t with
      | none => simp
      | some nxt => exact absurd hx (hnx nxt)
  | @loopStep ops cur st evs st' a nxt evs2 st'' r hc h1 hnx _ _ ih2 =>
    obtain ⟨vs, hp, he, hg⟩ := ih2
    refine ⟨⟨cur, st, evs, st', .ok a⟩ :: vs, ?_, by simp [he], ?_⟩
    · refine ⟨rfl, rfl, hc, ?_⟩
      simp only [hnx]
      exact hp
    · intro v hv
      simp only [List.mem_cons] at hv
      rcases hv with rfl | hv
      · exact h1
      · exact hg v hv
  | @loopFail ops cur st evs st' r hc h1 hne _ =>
    refine ⟨[⟨cur, st, evs, st', r⟩], ?_, by simp, by simpa using h1⟩
    refine ⟨rfl, rfl, hc, ?_⟩
    cases r with
    | ok a => exact absurd rfl (hne a)
    | err e => simp
    | both a e => simp
    | fuel => simp

/-- the node sequence the table and the returned actions determine, as a function -/
def route (ops : List ConnOp) : NodeId → List Outcome → List NodeId
  | cur, [] => [cur]
  | cur, .ok a :: os =>
    match next ops cur a with
    | some (some nxt) => cur :: route ops nxt os
    | _ => [cur]
  | cur, _ :: _ => [cur]

theorem isPath_nodes {ops : List ConnOp} {cur st vs st' out} (h : IsPath ops cur st vs st' out) (hne : vs ≠ [])
    (hlive : st'.ctx = .live) :
    vs.map (·.node) = route ops cur (vs.map (·.out)) := by
  induction vs generalizing cur st with
  | nil => exact absurd rfl hne
  | cons v vs ih =>
    obtain ⟨hn, hpre, hc, hrest⟩ := h
    simp only [List.map_cons]
    cases ho : v.out with
    | ok a =>
      rw [ho] at hrest
      simp only at hrest
      simp only [route]
      cases hx : next ops cur a with
      | none => rw [hx] at hrest; simp only at hrest; rw [hrest.1]; simp [hn]
      | some t =>
        cases t with
        | none => rw [hx] at hrest; simp only at hrest; rw [hrest.1]; simp [hn]
        | some nxt =>
          rw [hx] at hrest; simp only at hrest
          cases vs with
          | nil =>
            obtain ⟨hst, k, hk, _⟩ := hrest
            rw [hst, hk] at hlive; cases hlive
          | cons w ws =>
            have := ih hrest (by simp)
            rw [hn]
            simp only
            rw [← this]
    | err e => rw [ho] at hrest; simp only at hrest; rw [hrest.1]; simp [route, hn]
    | both a e => rw [ho] at hrest; simp only at hrest; rw [hrest.1]; simp [route, hn]
    | fuel => rw [ho] at hrest; simp only at hrest; rw [hrest.1]; simp [route, hn]

/-- a flow that ends with an action ended after a visit that returned that action and has no (non-nil) connection -/
theorem isPath_ok_last {ops : List ConnOp} {cur st vs st' a} (h : IsPath ops cur st vs st' (.ok a)) :
    ∃ v, vs.getLast? = some v ∧ v.out = .ok a ∧ v.post = st' ∧ ∀ nxt, next ops v.node a ≠ some (some nxt) := by
  induction vs generalizing cur st with
  | nil => obtain ⟨_, k, _, hk⟩ := h; cases hk
  | cons v vs ih =>
    obtain ⟨hn, hpre, hc, hrest⟩ := h
    cases ho : v.out with
    | ok b =>
      rw [ho] at hrest
      simp only at hrest
      cases hx : next ops cur b with
      | none =>
        rw [hx] at hrest; simp only at hrest
        obtain ⟨rfl, rfl, hb⟩ := hrest
        cases hb
        exact ⟨v, rfl, ho, rfl, by rw [hn, hx]; simp⟩
      | some t =>
        cases t with
        | none =>
          rw [hx] at hrest; simp only at hrest
          obtain ⟨rfl, rfl, hb⟩ := hrest
          cases hb
          exact ⟨v, rfl, ho, rfl, by rw [hn, hx]; simp⟩
        | some nxt =>
          rw [hx] at hrest; simp only at hrest
          obtain ⟨w, hw, hrest'⟩ := ih hrest
          refine ⟨w, ?_, hrest'⟩
          cases vs with
          | nil => cases hw
          | cons x xs => simpa using hw
    | err e => rw [ho] at hrest; simp only at hrest; cases hrest.2.2
    | both b e => rw [ho] at hrest; simp only at hrest; cases hrest.2.2
    | fuel => rw [ho] at hrest; simp only at hrest; cases hrest.2.2

/-! ### which events a whole run emits, and which counters it moves -/

/-- event of some visit of a leaf or batch node of the arena, run on store `sid` -/
def NodeEv (env : Env) (sid : StoreId) (e : Ev) : Prop :=
  ∃ n v, (∃ cfg, env.arena n = .leaf cfg ∧ LeafEv n v sid e) ∨ (∃ cfg, env.arena n = .batch cfg ∧ BatchEv n v sid e)

theorem big_events {env : Env} {sid task st evs st' r} (h : Big env sid task st evs st' r) :
    ∀ e ∈ evs, NodeEv env sid e := by
  induction h with
  | @leaf id cfg st evs st' out hA h =>
    intro e he
    exact ⟨id, st.visits id, .inl ⟨cfg, hA, runLeaf_mem (leafStep_ctx h) e he⟩⟩
  | @batch id cfg st evs st' out hA h =>
    intro e he
    exact ⟨id, st.visits id, .inr ⟨cfg, hA, runBatch_mem (batchStep_ctx h) e he⟩⟩
  | flowDone => simp
  | flowNoStart => simp
  | flowOk _ _ _ ih => exact ih
  | flowFail _ _ _ _ ih => exact ih
  | loopDone => simp
  | loopStop _ _ _ ih => exact ih
  | loopStep _ _ _ _ ih1 ih2 =>
    intro e he
    rw [List.mem_append] at he
    rcases he with he | he
    · exact ih1 e he
    · exact ih2 e he
  | loopFail _ _ _ ih => exact ih

/-- a node that is not a flow emits only its own events -/
theorem big_own_events {env : Env} {sid id st evs st' r} (h : Big env sid (.node id) st evs st' r)
    (hnf : ∀ s ops, env.arena id ≠ .flow s ops) : ∀ e ∈ evs, Spec.evKey e = (id, st.visits id) := by
  cases h with
  | leaf hA h => intro e he; exact (runLeaf_mem (leafStep_ctx h) e he).key
  | batch hA h => intro e he; exact (runBatch_mem (batchStep_ctx h) e he).key
  | flowDone hA => exact absurd hA (hnf _ _)
  | flowNoStart hA => exact absurd hA (hnf _ _)
  | flowOk hA => exact absurd hA (hnf _ _)
  | flowFail hA => exact absurd hA (hnf _ _)

theorem bumpIf_visits_ne (st : RunSt) (b : Bool) (id m : NodeId) (c : Ctx) (h : m ≠ id) :
    ({ (st.bumpIf b id) with ctx := c } : RunSt).visits m = st.visits m := by
  cases b <;> simp [RunSt.bumpIf, RunSt.bump, h]

theorem bumpIf_visits_false (st : RunSt) (id m : NodeId) (c : Ctx) :
    ({ (st.bumpIf false id) with ctx := c } : RunSt).visits m = st.visits m := by
  simp [RunSt.bumpIf]

/-- **untouched nodes keep their visit counters**: a counter moves only for a node that emitted an event -/
theorem big_untouched {env : Env} {sid task st evs st' r} (h : Big env sid task st evs st' r) :
    ∀ m, (∀ e ∈ evs, (Spec.evKey e).1 ≠ m) → st'.visits m = st.visits m := by
  induction h with
  | @leaf id cfg st evs st' out hA h =>
    intro m hm
    have hk := runLeaf_mem (leafStep_ctx h)
    simp only [leafStep, Prod.mk.injEq] at h
    obtain ⟨h1, h2, _⟩ := h
    subst h2
    cases evs with
    | nil => rw [h1]; exact bumpIf_visits_false ..
    | cons e t =>
      have : m ≠ id := by
        intro hmi
        apply hm e (by simp)
        rw [(hk e (by simp)).key, hmi]
      exact bumpIf_visits_ne _ _ _ _ _ this
  | @batch id cfg st evs st' out hA h =>
    intro m hm
    have hk := runBatch_mem (batchStep_ctx h)
    simp only [batchStep, Prod.mk.injEq] at h
    obtain ⟨h1, h2, _⟩ := h
    subst h2
    cases evs with
    | nil => rw [h1]; exact bumpIf_visits_false ..
    | cons e t =>
      have : m ≠ id := by
        intro hmi
        apply hm e (by simp)
        rw [(hk e (by simp)).key, hmi]
      exact bumpIf_visits_ne _ _ _ _ _ this
  | flowDone => intro m _; rfl
  | flowNoStart => intro m _; rfl
  | flowOk _ _ _ ih => exact ih
  | flowFail _ _ _ _ ih => exact ih
  | loopDone => intro m _; rfl
  | loopStop _ _ _ ih => exact ih
  | loopStep _ _ _ _ ih1 ih2 =>
    intro m hm
    rw [ih2 m (fun e he => hm e (by simp [he])), ih1 m (fun e he => hm e (by simp [he]))]
  | loopFail _ _ _ ih => exact ih

end Flyt.Proofs
