import FlytModel.Proofs.SpecBridge
/-!
# Bridge to `Spec.c03` (the predicate the driver evaluates for C03 on flat flows)
-/
namespace Flyt.Proofs
open Flyt

/-- the driver's store log: nodes whose prep callback received the store, in order -/
def storeLog (tr : List Ev) : List Nat :=
  tr.filterMap fun e => match e with | .prep n _ _ => some n | .bprep n _ _ => some n | _ => none

theorem storeLog_append (l1 l2 : List Ev) : storeLog (l1 ++ l2) = storeLog l1 ++ storeLog l2 := by
  simp [storeLog]

/-! ### `segments` of a trace made of blocks -/

theorem segments_block {k : NodeId × Nat} {l : List Ev} (hne : l ≠ []) (hk : ∀ e ∈ l, Spec.evKey e = k) :
    Spec.segments l = [(k, l)] := by
  induction l with
  | nil => exact absurd rfl hne
  | cons e t ih =>
    have he : Spec.evKey e = k := hk e (by simp)
    cases t with
    | nil => simp [Spec.segments, he]
    | cons e2 t2 =>
      have := ih (by simp) (fun x hx => hk x (by simp [hx]))
      rw [Spec.segments, this]
      simp [he]

theorem segments_block_append {k : NodeId × Nat} {l rest : List Ev} (hne : l ≠ []) (hk : ∀ e ∈ l, Spec.evKey e = k)
    (hrest : ∀ k2 g r, Spec.segments rest = (k2, g) :: r → k2 ≠ k) :
    Spec.segments (l ++ rest) = (k, l) :: Spec.segments rest := by
  induction l with
  | nil => exact absurd rfl hne
  | cons e t ih =>
    have he : Spec.evKey e = k := hk e (by simp)
    cases t with
    | nil =>
      simp only [List.cons_append, List.nil_append, Spec.segments]
      cases hs : Spec.segments rest with
      | nil => simp [he]
      | cons p r =>
        obtain ⟨k2, g⟩ := p
        have := hrest k2 g r hs
        simp [he, this]
    | cons e2 t2 =>
      have := ih (by simp) (fun x hx => hk x (by simp [hx]))
      rw [List.cons_append, Spec.segments, this]
      simp [he]

/-- consecutive blocks have different keys -/
def AdjDistinct : List ((NodeId × Nat) × List Ev) → Prop
  | [] => True
  | [_] => True
  | a :: b :: t => a.1 ≠ b.1 ∧ AdjDistinct (b :: t)

theorem segments_blocks (bs : List ((NodeId × Nat) × List Ev))
    (hb : ∀ b ∈ bs, b.2 ≠ [] ∧ ∀ e ∈ b.2, Spec.evKey e = b.1) (hd : AdjDistinct bs) :
    Spec.segments (bs.flatMap (·.2)) = bs := by
  induction bs with
  | nil => simp [Spec.segments]
  | cons b t ih =>
    obtain ⟨k, l⟩ := b
    have hbl := hb (k, l) (by simp)
    have iht := ih (fun b hb' => hb b (by simp [hb'])) (by
      cases t with
      | nil => trivial
      | cons b2 t2 => exact hd.2)
    simp only [List.flatMap_cons]
    rw [segments_block_append hbl.1 hbl.2, iht]
    intro k2 g r hs
    rw [iht] at hs
    cases t with
    | nil => cases hs
    | cons b2 t2 =>
      cases hs
      exact fun h => hd.1 h.symm

/-! ### one visit of a leaf (with a prep callback) or batch node -/

def storeTag (e : Ev) : Option Nat :=
  match e with | .prep n _ _ => some n | .bprep n _ _ => some n | _ => none

theorem storeLog_eq (l : List Ev) : storeLog l = l.filterMap storeTag := rfl

theorem storeLog_nil_of {l : List Ev} (h : ∀ e ∈ l, storeTag e = none) : storeLog l = [] := by
  rw [storeLog_eq, List.filterMap_eq_nil_iff]
  exact h

theorem leaf_head {kind n v sid cfg scr evs c out} (h : runLeaf kind n v sid cfg scr .live = (evs, c, out))
    (hp : cfg.prepS ≠ .absent) : ∃ t, evs = .prep n v sid :: t ∧ storeLog t = [] := by
  have body : ∀ {pev pv aev c2 ares fev c3 eres}, PrepOk kind n v sid cfg scr pev pv →
      ExecPhase kind n v cfg scr pv aev c2 ares fev c3 eres →
      pev = [.prep n v sid] ∧ storeLog (aev ++ fev) = [] := by
    intro pev pv aev c2 ares fev c3 eres hP hE
    constructor
    · rcases hP with ⟨h0, _⟩ | ⟨_, h1, _⟩
      · exact absurd h0 hp
      · exact h1
    · apply storeLog_nil_of
      intro e he
      rw [List.mem_append] at he
      rcases he with he | he
      · rcases (execPhase_mem hE).1 e he with ⟨k, a, rfl⟩ | ⟨k, d, f, rfl⟩ <;> rfl
      · obtain ⟨a, err, rfl⟩ := (execPhase_mem hE).2 e he; rfl
  cases leafShape_of_runLeaf h with
  | prepErr => exact ⟨[], rfl, rfl⟩
  | prepCancel => exact ⟨[], rfl, rfl⟩
  | @execErr pev pv aev c2 ares fev c3 e hP hE =>
    obtain ⟨rfl, hs⟩ := body hP hE
    exact ⟨aev ++ fev, by simp, hs⟩
  | @noPost pev pv aev c2 ares fev c3 ev hP hE _ =>
    obtain ⟨rfl, hs⟩ := body hP hE
    exact ⟨aev ++ fev, by simp, hs⟩
  | @postErr pev pv aev c2 ares fev c3 ev e hP hE _ _ =>
    obtain ⟨rfl, hs⟩ := body hP hE
    refine ⟨aev ++ fev ++ [.post n v sid (postArgs cfg.postS pv ev).1 (postArgs cfg.postS pv ev).2], by simp, ?_⟩
    rw [storeLog_append, hs]; rfl
  | @postOk pev pv aev c2 ares fev c3 ev a hP hE _ _ =>
    obtain ⟨rfl, hs⟩ := body hP hE
    refine ⟨aev ++ fev ++ [.post n v sid (postArgs cfg.postS pv ev).1 (postArgs cfg.postS pv ev).2], by simp, ?_⟩
    rw [storeLog_append, hs]; rfl

theorem itemEv_storeTag {n v e} (h : ItemEv n v e) : storeTag e = none := by
  cases e <;> simp_all [ItemEv, storeTag]

theorem batch_head {kind n v sid cfg scr ctx evs c out} (h : runBatch kind n v sid cfg scr ctx = (evs, c, out)) :
    ∃ t, evs = .bprep n v sid :: t ∧ storeLog t = [] := by
  cases batchShape_of_runBatch h with
  | prepErr => exact ⟨[], rfl, rfl⟩
  | @noPost l iev c2 slots hr hbi hp =>
    exact ⟨iev, by simp, storeLog_nil_of (fun e he => itemEv_storeTag (batchItems_mem' hbi e he))⟩
  | @postErr l iev c2 slots e hr hbi hp hpr =>
    refine ⟨iev ++ [.bpost n v sid ((normItems cfg.shape l).map Result.box) (slots.map Result.box)], by simp, ?_⟩
    rw [storeLog_append, storeLog_nil_of (fun e he => itemEv_storeTag (batchItems_mem' hbi e he))]; rfl
  | @postOk l iev c2 slots a hr hbi hp hpr =>
    refine ⟨iev ++ [.bpost n v sid ((normItems cfg.shape l).map Result.box) (slots.map Result.box)], by simp, ?_⟩
    rw [storeLog_append, storeLog_nil_of (fun e he => itemEv_storeTag (batchItems_mem' hbi e he))]; rfl

/-- node of a flat flow: a leaf with a prep callback (the instrumented nodes count visits there), or a batch node -/
def FlatNode (env : Env) (n : NodeId) : Prop :=
  (∃ cfg, env.arena n = .leaf cfg ∧ cfg.prepS ≠ .absent) ∨ (∃ cfg, env.arena n = .batch cfg)

/-- action a result presents to the routing -/
def actOf : Outcome → Option Action
  | .ok a => some a
  | _ => none

theorem actOf_ok (a : Action) : actOf (.ok a) = some a := rfl

theorem flat_visit_facts {env : Env} {n st evs st' out} (hb : Big env 0 (.node n) st evs st' out)
    (hf : FlatNode env n) (hc : st.ctx = .live) :
    (Spec.noWaits evs ≠ [] ∧ ∀ e ∈ evs, Spec.evKey e = (n, st.visits n)) ∧
    storeLog evs = [n] ∧
    st'.visits = (fun m => if m = n then st.visits m + 1 else st.visits m) ∧
    Spec.visitAction env n (st.visits n) = actOf out := by
  have hnf : ∀ s ops, env.arena n ≠ .flow s ops := by
    intro s ops h
    rcases hf with ⟨cfg, h', _⟩ | ⟨cfg, h'⟩ <;> (rw [h] at h'; cases h')
  have hkeys := big_own_events hb hnf
  cases hb with
  | @leaf _ cfg _ _ _ _ hA h =>
    have hp : cfg.prepS ≠ .absent := by
      rcases hf with ⟨cfg', h', hp⟩ | ⟨cfg', h'⟩
      · rw [hA] at h'; cases h'; exact hp
      · rw [hA] at h'; cases h'
    have hr := leafStep_ctx h
    rw [hc] at hr
    obtain ⟨t, rfl, ht⟩ := leaf_head hr hp
    refine ⟨⟨by simp [Spec.noWaits, Ev.isWait], hkeys⟩, ?_, ?_, ?_⟩
    · show storeLog ([Ev.prep n (st.visits n) 0] ++ t) = [n]
      rw [storeLog_append, ht]; rfl
    · simp only [leafStep, Prod.mk.injEq] at h
      obtain ⟨h1, h2, _⟩ := h
      subst h2
      simp [h1, RunSt.bumpIf, RunSt.bump]
    · simp only [Spec.visitAction, hA, hr]
      cases out <;> rfl
  | @batch _ cfg _ _ _ _ hA h =>
    have hr := batchStep_ctx h
    rw [hc] at hr
    obtain ⟨t, rfl, ht⟩ := batch_head hr
    refine ⟨⟨by simp [Spec.noWaits, Ev.isWait], hkeys⟩, ?_, ?_, ?_⟩
    · show storeLog ([Ev.bprep n (st.visits n) 0] ++ t) = [n]
      rw [storeLog_append, ht]; rfl
    · simp only [batchStep, Prod.mk.injEq] at h
      obtain ⟨h1, h2, _⟩ := h
      subst h2
      simp [h1, RunSt.bumpIf, RunSt.bump]
    · simp only [Spec.visitAction, hA, hr]
      cases out <;> rfl
  | flowDone hA => exact absurd hA (hnf _ _)
  | flowNoStart hA => exact absurd hA (hnf _ _)
  | flowOk hA => exact absurd hA (hnf _ _)
  | flowFail hA => exact absurd hA (hnf _ _)

/-! ### the path, with a bound on its length -/

theorem path_of_flowLoop {env : Env} {sid : StoreId} (f : Nat) :
    ∀ ops cur st evs st' r, flowLoop env f (buildTable ops) cur sid st = (evs, st', r) → r ≠ .fuel →
      ∃ vs : List Visit, vs.length ≤ f ∧ IsPath ops cur st vs st' r ∧ evs = vs.flatMap (·.evs) ∧
        ∀ v ∈ vs, Big env sid (.node v.node) v.pre v.evs v.post v.out := by
  induction f with
  | zero => intro ops cur st evs st' r h hr; simp [flowLoop] at h; exact absurd h.2.2.symm hr
  | succ f ih =>
    intro ops cur st evs st' r h hr
    simp only [flowLoop] at h
    cases hc : st.ctx with
    | done k =>
      simp only [hc] at h; cases h
      exact ⟨[], by simp, ⟨rfl, k, hc, rfl⟩, rfl, by simp⟩
    | live =>
      simp only [hc] at h
      cases hn : runNode env f cur sid st with
      | mk evs1 p =>
        obtain ⟨st1, r1⟩ := p
        rw [hn] at h
        have single : ∀ (hne : ∀ a, r1 = .ok a → ∀ nxt, next ops cur a ≠ some (some nxt)), r1 ≠ .fuel →
            ∃ vs : List Visit, vs.length ≤ f + 1 ∧ IsPath ops cur st vs st1 r1 ∧ evs1 = vs.flatMap (·.evs) ∧
              ∀ v ∈ vs, Big env sid (.node v.node) v.pre v.evs v.post v.out := by
          intro hne hr1
          refine ⟨[⟨cur, st, evs1, st1, r1⟩], by simp, ⟨rfl, rfl, hc, ?_⟩, by simp, ?_⟩
          · cases r1 with
            | ok a =>
              simp only
              cases hx : next ops cur a with
              | none => simp
              | some t =>
                cases t with
                | none => simp
                | some nxt => exact absurd hx (hne a rfl nxt)
            | err e => simp
            | both a e => simp
            | fuel => simp
          · intro v hv; simp at hv; subst hv; exact big_of_runNode hn hr1
        cases r1 with
        | ok a =>
          simp only at h
          rw [Table.tableLookup_buildTable] at h
          cases hnx : next ops cur a with
          | none =>
            simp only [hnx] at h; cases h
            exact single (by intro b hb nxt; cases hb; simp [hnx]) (by simp)
          | some t =>
            cases t with
            | none =>
              simp only [hnx] at h; cases h
              exact single (by intro b hb nxt; cases hb; simp [hnx]) (by simp)
            | some nxt =>
              simp only [hnx] at h
              cases hl : flowLoop env f (buildTable ops) nxt sid st1 with
              | mk evs2 p2 =>
                obtain ⟨st2, r2⟩ := p2
                rw [hl] at h
                simp only at h
                cases h
                obtain ⟨vs, hlen, hp, he, hg⟩ := ih ops nxt st1 evs2 st' r hl hr
                refine ⟨⟨cur, st, evs1, st1, .ok a⟩ :: vs, by simp; omega, ⟨rfl, rfl, hc, ?_⟩, by simp [he], ?_⟩
                · simp only [hnx]; exact hp
                · intro v hv
                  simp only [List.mem_cons] at hv
                  rcases hv with rfl | hv
                  · exact big_of_runNode hn (by simp)
                  · exact hg v hv
        | err e => simp only at h; cases h; exact single (by intro a ha; cases ha) (by simp)
        | both a e => simp only at h; cases h; exact single (by intro a ha; cases ha) (by simp)
        | fuel => simp only at h; cases h; exact absurd rfl hr

theorem next_some_mem {ops : List ConnOp} {n a nxt} (h : next ops n a = some (some nxt)) :
    nxt ∈ ops.filterMap (·.dst) := by
  unfold next at h
  cases hf : ops.reverse.find? (fun o => o.src = n ∧ o.action = a) with
  | none => rw [hf] at h; cases h
  | some o =>
    rw [hf] at h
    simp only [Option.map_some, Option.some.injEq] at h
    have := List.mem_of_find?_eq_some hf
    rw [List.mem_filterMap]
    exact ⟨o, by simpa using this, h⟩

def vkey (v : Visit) : NodeId × Nat := (v.node, v.pre.visits v.node)
def vblock (v : Visit) : (NodeId × Nat) × List Ev := (vkey v, Spec.noWaits v.evs)

theorem spec_of_isPath {env : Env} {ops : List ConnOp} (hflat : ∀ n ∈ ops.filterMap (·.dst), FlatNode env n) :
    ∀ (vs : List Visit) (cur : NodeId) (st st' : RunSt) (out : Outcome), IsPath ops cur st vs st' out →
      FlatNode env cur → vs ≠ [] → st'.ctx = .live →
      (∀ v ∈ vs, Big env 0 (.node v.node) v.pre v.evs v.post v.out) → ∀ F, vs.length ≤ F →
      Spec.specPath env ops F cur st.visits = (vs.map vkey, actOf out) ∧
      AdjDistinct (vs.map vblock) ∧
      (∀ b ∈ vs.map vblock, b.2 ≠ [] ∧ ∀ e ∈ b.2, Spec.evKey e = b.1) ∧
      storeLog (vs.flatMap (·.evs)) = vs.map (·.node) ∧
      (∀ v ∈ vs, FlatNode env v.node) ∧
      (∃ w t, vs = w :: t ∧ vkey w = (cur, st.visits cur)) := by
  intro vs
  induction vs with
  | nil => intro cur st st' out _ _ hne; exact absurd rfl hne
  | cons v vs ih =>
    intro cur st st' out hp hcur _ hfin hg F hF
    obtain ⟨hn, hpre, hc, hrest⟩ := hp
    have hbv := hg v (by simp)
    rw [hn, hpre] at hbv
    obtain ⟨⟨hne1, hk1⟩, hsl, hvis, hact⟩ := flat_visit_facts hbv hcur hc
    have hkey : vkey v = (cur, st.visits cur) := by simp [vkey, hn, hpre]
    have hblock : (vblock v).2 ≠ [] ∧ ∀ e ∈ (vblock v).2, Spec.evKey e = (vblock v).1 := by
      refine ⟨hne1, fun e he => ?_⟩
      simp only [vblock, hkey]
      exact hk1 e (mem_noWaits.mp he).1
    cases F with
    | zero => simp at hF
    | succ F =>
      have single : vs = [] → out = v.out → (∀ a, v.out = .ok a → ∀ nxt, next ops cur a ≠ some (some nxt)) →
          Spec.specPath env ops (F + 1) cur st.visits = ((v :: vs).map vkey, actOf out) ∧
          AdjDistinct ((v :: vs).map vblock) ∧
          (∀ b ∈ (v :: vs).map vblock, b.2 ≠ [] ∧ ∀ e ∈ b.2, Spec.evKey e = b.1) ∧
          storeLog ((v :: vs).flatMap (·.evs)) = (v :: vs).map (·.node) ∧
          (∀ w ∈ v :: vs, FlatNode env w.node) ∧
          (∃ w t, v :: vs = w :: t ∧ vkey w = (cur, st.visits cur)) := by
        intro hvs hout hnx
        subst hvs
        refine ⟨?_, trivial, ?_, ?_, ?_, ⟨v, [], rfl, hkey⟩⟩
        · simp only [Spec.specPath, hact, List.map_cons, List.map_nil, hkey, hout]
          cases ho : v.out with
          | ok a =>
            simp only [actOf]
            cases hx : next ops cur a with
            | none => rfl
            | some t =>
              cases t with
              | none => rfl
              | some nxt => exact absurd hx (hnx a ho nxt)
          | err e => rfl
          | both a e => rfl
          | fuel => rfl
        · intro b hb; simp at hb; subst hb; exact hblock
        · simp [hsl, hn]
        · intro w hw; simp at hw; subst hw; rw [hn]; exact hcur
      cases ho : v.out with
      | ok a =>
        rw [ho] at hrest
        simp only at hrest
        cases hx : next ops cur a with
        | none =>
          rw [hx] at hrest; simp only at hrest
          exact single hrest.1 (by rw [hrest.2.2, ho]) (by intro b hb nxt; rw [ho] at hb; cases hb; simp [hx])
        | some t =>
          cases t with
          | none =>
            rw [hx] at hrest; simp only at hrest
            exact single hrest.1 (by rw [hrest.2.2, ho]) (by intro b hb nxt; rw [ho] at hb; cases hb; simp [hx])
          | some nxt =>
            rw [hx] at hrest; simp only at hrest
            have hvne : vs ≠ [] := by
              intro h0; subst h0
              obtain ⟨hst, k, hk, _⟩ := hrest
              rw [hst, hk] at hfin; cases hfin
            have hnxt : FlatNode env nxt := hflat nxt (next_some_mem hx)
            obtain ⟨i1, i2, i3, i4, i5, w, t, hwt, hwk⟩ :=
              ih nxt v.post st' out hrest hnxt hvne hfin (fun u hu => hg u (by simp [hu])) F (by simpa using hF)
            refine ⟨?_, ?_, ?_, ?_, ?_, ⟨v, vs, rfl, hkey⟩⟩
            · simp only [Spec.specPath, hact, ho, actOf_ok, hx, List.map_cons, hkey]
              rw [← hvis, i1]
            · rw [hwt]
              simp only [List.map_cons]
              refine ⟨?_, ?_⟩
              · simp only [vblock, hkey, hwk]
                intro heq
                simp only [Prod.mk.injEq] at heq
                obtain ⟨h1, h2⟩ := heq
                subst h1
                rw [hvis] at h2
                simp at h2
              · rw [hwt] at i2; simpa using i2
            · intro b hb
              simp only [List.map_cons, List.mem_cons] at hb
              rcases hb with rfl | hb
              · exact hblock
              · exact i3 b hb
            · simp only [List.flatMap_cons, storeLog_append, hsl, i4, List.map_cons, hn]
              rfl
            · intro u hu
              simp only [List.mem_cons] at hu
              rcases hu with rfl | hu
              · rw [hn]; exact hcur
              · exact i5 u hu
      | err e =>
        rw [ho] at hrest; simp only at hrest
        exact single hrest.1 (by rw [hrest.2.2, ho]) (by intro b hb; rw [ho] at hb; cases hb)
      | both a e =>
        rw [ho] at hrest; simp only at hrest
        exact single hrest.1 (by rw [hrest.2.2, ho]) (by intro b hb; rw [ho] at hb; cases hb)
      | fuel =>
        rw [ho] at hrest; simp only at hrest
        exact single hrest.1 (by rw [hrest.2.2, ho]) (by intro b hb; rw [ho] at hb; cases hb)

/-! ### assembling `Spec.c03` -/

theorem flatNode_of_isFlat {env : Env} {ops : List ConnOp} {s : NodeId}
    (hprep : ∀ n cfg, env.arena n = .leaf cfg → cfg.prepS ≠ .absent)
    (hflat : Spec.isFlatFlow env ops s = true) :
    FlatNode env s ∧ ∀ n ∈ ops.filterMap (·.dst), FlatNode env n := by
  unfold Spec.isFlatFlow at hflat
  rw [List.all_eq_true] at hflat
  have key : ∀ n, n ∈ s :: (ops.map (·.src) ++ ops.filterMap (·.dst)) → FlatNode env n := by
    intro n hn
    have := hflat n hn
    cases hA : env.arena n with
    | leaf cfg => exact .inl ⟨cfg, hA, hprep n cfg hA⟩
    | batch cfg => exact .inr ⟨cfg, hA⟩
    | flow st o => rw [hA] at this; simp at this
  exact ⟨key s (by simp), fun n hn => key n (by simp [hn])⟩

/-- what `Run` on a flow presents, given the outcome of the flow's loop -/
def presentOut : Outcome → Outcome
  | .ok a => .ok (norm a)
  | o => o

theorem noWaits_flatMap (vs : List Visit) :
    Spec.noWaits (vs.flatMap (·.evs)) = (vs.map vblock).flatMap (·.2) := by
  induction vs with
  | nil => rfl
  | cons v t ih => simp only [List.flatMap_cons, noWaits_append, ih, List.map_cons, vblock]

/-- **C03 as the driver evaluates it** (`Spec.c03`: flat flow, no cancellation, store 0) on the model's own
    observation. -/
theorem spec_c03_of_run (env : Env) (fuel : Nat) (root : NodeId) (st : RunSt) {evs st' out}
    (hprep : ∀ n cfg, env.arena n = .leaf cfg → cfg.prepS ≠ .absent)
    (hlive : st.ctx = .live) (h : runNode env fuel root 0 st = (evs, st', out)) (hfuel : out ≠ .fuel)
    (hnc : ∀ e ∈ evs, cancelsAt env e = false) :
    Spec.c03 env root st.visits fuel ⟨Spec.noWaits evs, out, storeLog evs⟩ = true := by
  unfold Spec.c03
  cases hA : env.arena root with
  | leaf cfg => rfl
  | batch cfg => rfl
  | flow start ops =>
    cases start with
    | none => rfl
    | some s =>
      simp only
      by_cases hflat : Spec.isFlatFlow env ops s = true
      · simp only [hflat, if_true]
        obtain ⟨hs, hdst⟩ := flatNode_of_isFlat hprep hflat
        have hfin : st'.ctx = .live := (big_track (big_of_runNode h hfuel)).quiet hlive hnc
        cases fuel with
        | zero => simp [runNode] at h; exact absurd h.2.2.symm hfuel
        | succ f =>
          simp only [runNode, hA, hlive] at h
          cases hl : flowLoop env f (buildTable ops) s 0 st with
          | mk evs1 p1 =>
            obtain ⟨st1, r1⟩ := p1
            rw [hl] at h
            have hr1 : r1 ≠ .fuel := by
              intro hf; subst hf; simp only at h; cases h; exact hfuel rfl
            have hpr := big_proper (big_of_flowLoop hl hr1)
            obtain ⟨vs, hlen, hp, he, hg⟩ := path_of_flowLoop f ops s st evs1 st1 r1 hl hr1
            have hsame : evs1 = evs ∧ st1 = st' ∧ out = presentOut r1 := by
              cases r1 <;> (simp only at h; cases h; exact ⟨rfl, rfl, rfl⟩)
            obtain ⟨rfl, rfl, hout⟩ := hsame
            have hvne : vs ≠ [] := by
              intro h0; subst h0
              obtain ⟨_, k, hk, _⟩ := hp
              rw [hlive] at hk; cases hk
            obtain ⟨j1, j2, j3, j4, j5, _⟩ :=
              spec_of_isPath hdst vs s st st1 r1 hp hs hvne hfin hg (f + 1) (by omega)
            rw [j1]
            simp only [Spec.visitSeq, noWaits_idem]
            rw [he, noWaits_flatMap, segments_blocks _ j3 j2, j4]
            rw [List.filter_eq_self.mpr (by
              intro x hx
              rw [List.mem_map] at hx
              obtain ⟨v, hv, rfl⟩ := hx
              rcases j5 v hv with ⟨cfg, hc, hp'⟩ | ⟨cfg, hc⟩
              · simp [vkey, hc, hp']
              · simp [vkey, hc])]
            simp only [List.map_map]
            have e1 : (List.map ((fun x => x.1) ∘ vblock) vs) = List.map vkey vs := by
              apply List.map_congr_left; intro v _; rfl
            have e2 : (List.map ((fun x => x.1) ∘ vkey) vs) = List.map (fun v => v.node) vs := by
              apply List.map_congr_left; intro v _; rfl
            rw [e1, e2]
            cases r1 with
            | ok a => simp [actOf, hout, presentOut]
            | err e => simp [actOf, hout, presentOut]
            | both a e => simp [Outcome.Proper] at hpr
            | fuel => exact absurd rfl hr1
      · simp [hflat]

end Flyt.Proofs
