import FlytModel.GoIR.CtorWorld
import FlytModel.Generated.IR
/-! executable check of the constructor statements (`Refine/Ctors.lean`) on the regenerated IR: every `#eval` must print 0.
    All argument lists of length ≤ 3 over 16 option values (8 for `NewBaseNode`, whose parameter is `...NodeOption`), from three
    different initial contents of the memory the constructor initialises. -/
open Flyt Flyt.GoIR Flyt.Config Flyt.GoIR.CtorW Flyt.Generated.IR

def F := 40
def count (l : List Bool) : Nat := (l.filter (!·)).length
def st (s : Setting) (tag : Nat := 0) : Step := { setting := s, form := .opt, tag := tag }

def baseLetters : List Arg :=
  [.nodeOpt (st (.maxRetries 3)), .nodeOpt (st (.maxRetries 0)), .nodeOpt (st (.wait 7)), .nodeOpt (st (.batchConcurrency 4)),
   .nodeOpt (st (.batchErrorHandling true)), .nodeOpt (st (.batchErrorHandling false)),
   .rawFunc (st (.maxRetries 5)), .rawFunc (st (.wait 2))]
def customLetters : List Arg :=
  [.custom (st (.prepFn false) 1), .custom (st (.prepFn true) 2), .custom (st (.execFn false) 3), .custom (st (.execFn true) 4),
   .custom (st (.postFn false) 5), .custom (st (.postFn true) 6), .custom (st .fbFn 7)]
def letters : List Arg := baseLetters ++ customLetters ++ [.junk 0]

def wordsUpTo (alphabet : List Arg) : Nat → List (List Arg)
  | 0 => [[]]
  | n + 1 => [] :: (alphabet.flatMap fun a => (wordsUpTo alphabet n).map (a :: ·))

/-- what the memory holds before the constructor runs: the constructor must not depend on it -/
def garbage : List Node :=
  [emptyNode,
   { emptyNode with base := { maxRetries := 4, wait := 9, batchConcurrency := 3, batchErrorHandling := .stop }, execFunc := some ⟨9, true⟩,
                    batchPrepFunc := some ⟨8, false⟩ },
   { emptyNode with base := { maxRetries := -2, wait := 0, batchConcurrency := -1, batchErrorHandling := .cont }, prepFunc := some ⟨1, false⟩,
                    postFunc := some ⟨5, true⟩, execFallbackFunc := some ⟨6, false⟩, batchPostFunc := some ⟨2, false⟩ }]

def baseWords := wordsUpTo baseLetters 3
def allWords := wordsUpTo letters 3

#eval count [baseWords.length == 585, allWords.length == 4369]

-- every letter is well-typed: its dynamic type is the one the model's classification of its setting says
#eval count (letters.map Arg.wf)

-- NewBaseNode: defaults, then the options in order; the other fields of the node record are not its business
#eval count (garbage.flatMap fun n0 => baseWords.map fun ws =>
  run F NewBaseNode n0 ws == some ([baseH], { n0 with base := baseOf ws }))
-- NewNode: base options in order, then custom options in order, junk ignored; returns the builder
#eval count (garbage.flatMap fun n0 => allWords.map fun ws => run F NewNode n0 ws == some ([builderH], nodeOf ws))
-- … which is the model's `newNode` of the option word
#eval count (allWords.map fun ws => nodeOf ws == newNode (ws.filterMap Arg.step?))
-- NewBatchNode: base options in order; custom options and junk ignored; returns the batch builder
#eval count (garbage.flatMap fun n0 => allWords.map fun ws => run F NewBatchNode n0 ws == some ([batchBuilderH], batchOf ws))
#eval count (allWords.map fun ws => batchOf ws == newBatchNode (ws.filterMap Arg.step?))
-- customNodeOption.apply: the option's effect on the node
#eval count (garbage.flatMap fun n0 => customLetters.map fun a =>
  match a with
  | .custom s =>
    (callFunc ctorWorld F customNodeOption_apply [argH 0, nodeH] [] { node := n0, args := [a], slices := [] }).map (fun r => (r.1, r.2.2.node))
      == some ([], applyCustomOption s n0)
  | _ => false)
-- order independence of the interleaving (C19): same base subsequence and same custom subsequence ⇒ same node
#eval count (allWords.map fun ws =>
  run F NewNode emptyNode ws == run F NewNode emptyNode (ws.filter Arg.isBase ++ ws.filter Arg.isCustom)
  && run F NewNode emptyNode ws == run F NewNode emptyNode (ws.filter Arg.isCustom ++ ws.filter Arg.isBase))
-- the world is not lenient: an option of the wrong kind where Go's types forbid it is stuck
#eval count [run F NewBaseNode emptyNode [.custom (st (.execFn false) 3)] == none, run F NewBaseNode emptyNode [.junk 0] == none]
