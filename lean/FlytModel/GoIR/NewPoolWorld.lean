import FlytModel.GoIR.Interp
/-!
# World of `NewWorkerPool` (properties C12 / C08): what the constructor BUILDS, as a trace of construction events

The interpreter follows the goroutine that calls `NewWorkerPool(workers)`. The three things the constructor does to the outside are
events of this world, recorded in the order in which they happen (`CtorEv`):

* `make(chan T, n)` / `make(chan T)` — the interpreter hands a `make` of anything but `[]Result` to the world as the call
  `make:<type>` with the EVALUATED size arguments (the type is syntax: the IR variable `chan func()` is never looked up). The world
  allocates a fresh channel handle `.ref "chan" k` (`k` = number of channels made so far) and records the element type (the text after
  `make:chan `) and the capacity (`0` = unbuffered, when there is no size argument). A negative capacity is stuck (Go panics).
* `&WorkerPool{workers: …, tasks: …, done: …}` — the interpreter evaluates the field initialisers left to right and hands the values to the
  world as the call `lit:WorkerPool:workers,tasks,done,`. The world allocates a fresh pool handle `.ref "pool" k` and records the three field
  values (an `int` and two channel handles — anything else is stuck).
* `go p.worker()` — the interpreter evaluates the receiver and tells the world `mcall p "go:worker" []`. The world records the spawn (of a
  pool it has allocated — a spawn on anything else is stuck). What the new goroutine then does is the subject of the theorems about
  `worker` itself (`Refine/Pool.lean`).

Nothing else is defined: every other call, method call, field access, … is `none` (stuck). A run of `NewWorkerPool` that returns has
therefore done nothing to the outside but these events.
-/
namespace Flyt.GoIR.NewPoolW
open Flyt Flyt.GoIR

/-- a construction event -/
inductive CtorEv
  | makeChan (elem : String) (cap : Int)          -- `make(chan elem, cap)`; unbuffered = 0
  | newPool (workers : Int) (tasks done : Nat)    -- `&WorkerPool{workers, tasks, done}`; the channels by handle number
  | spawn (pool : Nat)                            -- `go p.worker()` on pool number `pool`
  deriving DecidableEq, Repr

/-- ghost state: the events so far, and the number of channel / pool handles handed out -/
structure NW where
  trace : List CtorEv := []
  chans : Nat := 0
  pools : Nat := 0
  deriving DecidableEq, Repr

def chanH (k : Nat) : GV := .ref "chan" k
def poolH (k : Nat) : GV := .ref "pool" k

/-- `make:chan T` ↦ `T` -/
def chanElem (fn : String) : Option String :=
  match fn.toList with
  | 'm' :: 'a' :: 'k' :: 'e' :: ':' :: 'c' :: 'h' :: 'a' :: 'n' :: ' ' :: rest => some (String.ofList rest)
  | _ => none

def mkChan (elem : String) (cap : Int) (h : Heap) (w : NW) : Option (List GV × Heap × NW) :=
  if 0 ≤ cap then some ([chanH w.chans], h, { w with trace := w.trace ++ [.makeChan elem cap], chans := w.chans + 1 }) else none

def newPoolWorld : World NW where
  call fn args h w :=
    if fn == "lit:WorkerPool:workers,tasks,done," then
      match args with
      | [.int n, .ref "chan" t, .ref "chan" d] =>
        some ([poolH w.pools], h, { w with trace := w.trace ++ [.newPool n t d], pools := w.pools + 1 })
      | _ => none
    else
      match chanElem fn, args with
      | some elem, [.int c] => mkChan elem c h w
      | some elem, [] => mkChan elem 0 h w
      | _, _ => none
  mcall recv m args h w :=
    match recv, args with
    | .ref "pool" k, [] =>
      if m == "go:worker" ∧ k < w.pools then some ([], h, { w with trace := w.trace ++ [.spawn k] }) else none
    | _, _ => none
  assert _ _ _ := none
  field _ _ _ := none
  mapIndex _ _ _ := none
  select _ _ := none
  global _ := none

/-- run a translated function body; the result values and the ghost state afterwards -/
def run (fuel : Nat) (f : Func) (args : List GV) (w : NW) : Option (List GV × NW) :=
  (callFunc newPoolWorld fuel f args [] w).map fun r => (r.1, r.2.2)

/-- `workers <= 0` means 1 -/
def clamp (n : Int) : Int := if n ≤ 0 then 1 else n

/-- the events of `NewWorkerPool(n)` in a world that has handed out `c` channels and `p` pools: the `tasks` channel (capacity `2w`),
    the `done` channel (unbuffered), the pool object, `w` spawns — `w` the clamped `n` -/
def ctorEvents (n : Int) (c p : Nat) : List CtorEv :=
  [.makeChan "func()" (2 * clamp n), .makeChan "struct{}" 0, .newPool (clamp n) c (c + 1)] ++ List.replicate (clamp n).toNat (.spawn p)

end Flyt.GoIR.NewPoolW
