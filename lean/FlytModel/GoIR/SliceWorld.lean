import FlytModel.GoIR.ValueWorld
/-!
# World of the SLICE accessors (property C15): `Result.AsSlice / AsSliceOr / MustSlice`, `SharedStore.GetSlice / GetSliceOr`, `ToSlice`

`sliceWorld c v st` wraps `valueWorld c v st` (`GoIR/ValueWorld.lean`; everything this world does not answer itself is handed to it:
`r.value`, `s.Get`, the scalar assertions, `fmt.Sprintf`, `panic` = stuck). As there, the value under inspection is the world's
parameter `v : GoVal` and travels as the handle `.ref "go" 0` (`GV.nil` when it is the nil interface).

What this world adds

* **the dynamic type decides.** `x.([]T)` and the cases of `ToSlice`'s type switch (`[]any`, `[]string`, `[]int`, `[]float64`,
  `[]map[string]any`) hold iff the dynamic type of `v` (`GoVal.typeOf?`) IS that type (identity of types, so a named slice type
  matches none of them). `reflect.ValueOf(v).Kind()` is the kind of the dynamic type (`dynKind`), as a `reflect.Kind` number
  (`kindCode`; `reflect.Slice` is the package-level constant `23`). The model (`Model/Value.lean`) decides on the REPRESENTATION of
  the value instead (`GoVal.kind`); the two agree exactly when `v.shapeOK` — the hypothesis of `Refine/Slices.lean`.
* **a heap of `[]any` objects** (the world state `AHeap`): `make([]any, n)` allocates `n` nil interfaces, `[]any{}` / `[]any{x}`
  allocate, `result[i] = x` writes a cell (out of range: stuck, Go panics). A `[]any` value is `GV.nil` (the nil slice),
  `.ref "anys" a` (object `a` of the heap) or `.ref "self" 0` (the value `v` itself, when its dynamic type is `[]any`:
  what `v.([]any)` / `case []any: return val` hand back — no copy). `decS` reads such a value back as the model's `SliceV`.
* **the elements** of `v` as a typed slice (`.ref "sl" 0`: `len`, `range`) and under reflection (`.ref "rv" 0`: `Len`, `Index(i)`,
  `.Interface()`): element `i` converted to `any` is `.ref "elem" i`, i.e. `(elemsOf v)[i]` (a nil slice has no elements).
* **the functions the accessors call**, as the functions their own refinement theorems justify: `ToSlice(x)` = `toSliceCall`,
  `r.AsSlice()` = `asSliceCall`, `s.GetSliceOr(k, d)` = `getSliceOrCall` (each returns the value AND the heap it leaves).

Core Lean only, executable (`GoIR/SliceTest.lean`).
-/
namespace Flyt.GoIR.SliceW
open Flyt Flyt.GoIR Flyt.Value Flyt.GoIR.ValueW

/-- the `[]any` objects made so far -/
abbrev AHeap := List (List GoVal)

def selfH : GV := .ref "self" 0
def slH : GV := .ref "sl" 0
def rvH : GV := .ref "rv" 0
def rv0H : GV := .ref "rv0" 0
def reflectH : GV := .ref "pkg:reflect" 0
def anysH (a : Nat) : GV := .ref "anys" a
def elemH (i : Nat) : GV := .ref "elem" i

/-- `reflect.Kind` as a number (Go's constants; the model's kinds are coarse, so `int` / `float` / `complex` stand for their families) -/
def kindCode : Kind → Int
  | .invalid => 0 | .bool => 1 | .int => 2 | .float => 14 | .complex => 16 | .array => 17 | .chan => 18 | .func => 19
  | .iface => 20 | .map => 21 | .ptr => 22 | .slice => 23 | .string => 24 | .struct => 25

/-- `reflect.ValueOf(v).Kind()`: the kind of the DYNAMIC TYPE (`Invalid` for the nil interface) -/
def dynKind (v : GoVal) : Kind :=
  match v.typeOf? with
  | none => .invalid
  | some t => t.kind

/-- the elements `v` has as a slice (none for a nil slice, none for a non-slice) -/
def elemsOf : GoVal → List GoVal
  | .slice _ isNil elems => sliceElems isNil elems
  | _ => []

/-- the five slice types `ToSlice` names -/
def sliceTy (ty : String) : Option GoType :=
  if ty == "[]any" then some tAnys else if ty == "[]string" then some tStrings else if ty == "[]int" then some tInts
  else if ty == "[]float64" then some tFloat64s else if ty == "[]map[string]any" then some tMapSAs else none

/-- `v.(T)` for a slice type `T = t`: holds iff the dynamic type is `t`; the asserted value is the handle `hd`
    (stuck on a value whose type says slice and whose representation does not: excluded by `shapeOK`) -/
def assertS (v : GoVal) (t : GoType) (hd : GV) : Option (GV × Bool) :=
  if v.typeOf? = some t then
    match v with
    | .slice _ _ _ => some (hd, true)
    | _ => none
  else some (.nil, false)

/-- the Go value a `GV` stands for when it is stored into an `any` -/
def decE (v : GoVal) : GV → Option GoVal
  | .nil => some .nil
  | .ref "go" _ => some v
  | .ref "elem" i => (elemsOf v)[i]?
  | _ => none

/-- `(0, elem 0), (1, elem 1), …`: what `range` over the typed slice yields -/
def pairsFrom (k : Nat) : Nat → List (GV × GV)
  | 0 => []
  | n + 1 => (.int k, elemH k) :: pairsFrom (k + 1) n

/-- a `[]any` value read back (`none` = not a `[]any` value of this world) -/
def decS (v : GoVal) (hp : AHeap) : GV → Option SliceV
  | .nil => some none
  | .ref "self" _ => assertAnys v
  | .ref "anys" a => (hp[a]?).map some
  | _ => none

/-- a `[]any` given from outside (a default value): the nil slice, or object 0 of the initial heap -/
def encD : SliceV → GV × AHeap
  | none => (.nil, [])
  | some l => (anysH 0, [l])

def alloc (l : List GoVal) (hp : AHeap) : GV × AHeap := (anysH hp.length, hp ++ [l])

/-- `ToSlice(v)`: the value itself when it is a `[]any`, else a NEW object holding what the model's `toSlice` says -/
def toSliceCall (v : GoVal) (hp : AHeap) : GV × AHeap :=
  match assertAnys v with
  | some _ => (selfH, hp)
  | none => alloc ((toSlice v).getD []) hp

/-- `Result{value: v}.AsSlice()` -/
def asSliceCall (v : GoVal) (hp : AHeap) : List GV × AHeap :=
  match v with
  | .nil => ([.nil, .bool false], hp)
  | v =>
    match assertAnys v with
    | some _ => ([selfH, .bool true], hp)
    | none =>
      if v.kind != .slice then ([.nil, .bool false], hp)
      else ([(toSliceCall v hp).1, .bool true], (toSliceCall v hp).2)

/-- `s.GetSliceOr(k, d)` on a store holding `held` under `k` -/
def getSliceOrCall (held : Option GoVal) (d : GV) (hp : AHeap) : GV × AHeap :=
  match held with
  | none => (d, hp)
  | some .nil => (d, hp)
  | some v =>
    match assertAnys v with
    | some _ => (selfH, hp)
    | none => if v.kind != .slice then (d, hp) else toSliceCall v hp

def sliceWorld (c : Conv) (v : GoVal) (st : Store1) : World AHeap where
  call fn args h hp :=
    match fn, args with
    | "make:[]any", [.int n] => if 0 ≤ n then some ([anysH hp.length], h, hp ++ [List.replicate n.toNat .nil]) else none
    | "len", [.ref "sl" _] => some ([.int (elemsOf v).length], h, hp)
    | "lit:[]any:", [] => some ([(alloc [] hp).1], h, (alloc [] hp).2)
    | "lit:[]any:,", [x] => (decE v x).map fun e => ([(alloc [e] hp).1], h, (alloc [e] hp).2)
    | "reflect.ValueOf", [.ref "go" _] => some ([rvH], h, hp)
    | "reflect.ValueOf", [.nil] => some ([rv0H], h, hp)
    | "ToSlice", [.ref "go" _] => some ([(toSliceCall v hp).1], h, (toSliceCall v hp).2)
    | "ToSlice", [.nil] => some ([(toSliceCall .nil hp).1], h, (toSliceCall .nil hp).2)
    | _, _ => ((valueWorld c v st).call fn args h ()).map fun r => (r.1, r.2.1, hp)
  mcall recv m args h hp :=
    match recv, m, args with
    | .ref "rv" _, "Kind", [] => some ([.int (kindCode (dynKind v))], h, hp)
    | .ref "rv0" _, "Kind", [] => some ([.int 0], h, hp)
    | .ref "rv" _, "Len", [] => if dynKind v = .slice then some ([.int (elemsOf v).length], h, hp) else none
    | .ref "rv" _, "Index", [.int i] =>
      if dynKind v = .slice ∧ 0 ≤ i ∧ i.toNat < (elemsOf v).length then some ([.ref "rvelem" i.toNat], h, hp) else none
    | .ref "rvelem" i, "Interface", [] => some ([elemH i], h, hp)
    | .ref "r" _, "AsSlice", [] => some ((asSliceCall v hp).1, h, (asSliceCall v hp).2)
    | .ref "s" _, "GetSliceOr", [_, d] => some ([(getSliceOrCall st.held d hp).1], h, (getSliceOrCall st.held d hp).2)
    | _, _, _ => ((valueWorld c v st).mcall recv m args h ()).map fun r => (r.1, r.2.1, hp)
  assert x ty _ :=
    match sliceTy ty with
    | some t =>
      (match x with
       | .ref "go" _ => assertS v t (if ty == "[]any" then selfH else slH)
       | .nil => some (.nil, false)
       | _ => none)
    | none => (valueWorld c v st).assert x ty ()
  field x f _ :=
    match x with
    | .ref "pkg:reflect" _ => if f == "Slice" then some (.int 23) else none
    | _ => (valueWorld c v st).field x f ()
  mapIndex _ _ _ := none
  select _ _ := none
  global x := if x == "reflect" then some reflectH else none
  setIndex o i x hp :=
    match o, i with
    | .ref "anys" a, .int k =>
      (match hp[a]?, decE v x with
       | some cell, some e => if 0 ≤ k ∧ k.toNat < cell.length then some (hp.set a (cell.set k.toNat e)) else none
       | _, _ => none)
    | _, _ => none
  rangeOf x _ :=
    match x with
    | .ref "sl" _ => some (pairsFrom 0 (elemsOf v).length)
    | _ => none

/-! ### runs, with the `[]any` results read back as the model's `SliceV` -/

/-- `ToSlice(v)` -/
def runToSlice (fuel : Nat) (f : Func) (c : Conv) (v : GoVal) : Option SliceV :=
  (callFunc (sliceWorld c v ⟨none⟩) fuel f [encV v] [] []).bind fun r =>
    match r.1 with
    | [g] => decS v r.2.2 g
    | _ => none

/-- `Result{value: v}.AsSlice()` -/
def runAsSlice (fuel : Nat) (f : Func) (c : Conv) (v : GoVal) : Option (SliceV × Bool) :=
  (callFunc (sliceWorld c v ⟨none⟩) fuel f [rH] [] []).bind fun r =>
    match r.1 with
    | [g, .bool ok] => (decS v r.2.2 g).map fun s => (s, ok)
    | _ => none

/-- `Result{value: v}.AsSliceOr(d)` (with `args = [d]`) and `.MustSlice()` (with no argument): one `[]any` result -/
def runResultSl (fuel : Nat) (f : Func) (c : Conv) (v : GoVal) (d : Option SliceV) : Option SliceV :=
  let dh : List GV × AHeap := match d with | some d => ([(encD d).1], (encD d).2) | none => ([], [])
  (callFunc (sliceWorld c v ⟨none⟩) fuel f (rH :: dh.1) [] dh.2).bind fun r =>
    match r.1 with
    | [g] => decS v r.2.2 g
    | _ => none

/-- `s.GetSlice("k")` (no default) / `s.GetSliceOr("k", d)` on a store holding `held` under the key -/
def runStoreSl (fuel : Nat) (f : Func) (c : Conv) (held : Option GoVal) (d : Option SliceV) : Option SliceV :=
  let dh : List GV × AHeap := match d with | some d => ([(encD d).1], (encD d).2) | none => ([], [])
  (callFunc (sliceWorld c (held.getD .nil) ⟨held⟩) fuel f (sH :: .str "k" :: dh.1) [] dh.2).bind fun r =>
    match r.1 with
    | [g] => decS (held.getD .nil) r.2.2 g
    | _ => none

end Flyt.GoIR.SliceW
