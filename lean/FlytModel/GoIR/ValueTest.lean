import FlytModel.GoIR.ValueWorld
import FlytModel.Generated.IR
open Flyt Flyt.GoIR Flyt.Value Flyt.GoIR.ValueW Flyt.Generated.IR

def conv : Conv := { f2i := fun w b => if b % 7 == 0 then none else some (Int.ofNat (b % 1000) - (if w then 3 else 0)), f32to64 := fun b => b * 2 + 1, i2f := fun n => (n.toNat * 3 + 5) }
def ints : List Basic := [.int, .int8, .int16, .int32, .int64, .uint, .uint8, .uint16, .uint32, .uint64, .uintptr]
def samples : List GoVal :=
  [.nil] ++ (ints.flatMap fun b => [GoVal.int (.basic b) 5, .int (.basic b) (-3), .int (.basic b) 18446744073709551615, .int (.named "MyInt" (.basic b)) 9])
  ++ [.float (.basic .float32) 14, .float (.basic .float32) 15, .float (.basic .float64) 21, .float (.basic .float64) 23, .float (.named "F" (.basic .float64)) 23,
      .str (.basic .string) "hi", .str (.basic .string) "", .str (.named "S" (.basic .string)) "x", .bool (.basic .bool) true, .bool (.basic .bool) false, .bool (.named "B" (.basic .bool)) true,
      .map tMapSA (some 4), .map tMapSA none, .map (.map (.basic .string) (.basic .int)) (some 2), .map (.named "M" tMapSA) (some 1),
      .ptr (.ptr (.basic .int)) (some 1), .ptr (.ptr (.basic .int)) none, .slice tAnys false .nil, .func (.func 1) false, .struct .structEnd .nil, .complex (.basic .complex128) 1 2]

def F := 60
def chk (name : String) (ok : GoVal → Bool) : String := s!"{name}: bad={(samples.filter (fun v => !ok v)).length}/{samples.length}"
#eval chk "AsString" fun v => runResultAcc F Result_AsString conv v [] == some [.str (asString v).1, .bool (asString v).2]
#eval chk "AsInt" fun v => runResultAcc F Result_AsInt conv v [] == some [encI (asInt conv v).1, .bool (asInt conv v).2]
#eval chk "AsFloat64" fun v => runResultAcc F Result_AsFloat64 conv v [] == some [encF (asFloat64 conv v).1, .bool (asFloat64 conv v).2]
#eval chk "AsBool" fun v => runResultAcc F Result_AsBool conv v [] == some [.bool (asBool v).1, .bool (asBool v).2]
#eval chk "AsMap" fun v => runResultAcc F Result_AsMap conv v [] == some [encM (asMap v).1, .bool (asMap v).2]
#eval chk "AsStringOr" fun v => runResultAcc F Result_AsStringOr conv v [.str "dd"] == some [.str (asStringOr v "dd")]
#eval chk "AsIntOr" fun v => runResultAcc F Result_AsIntOr conv v [.int 77] == some [encI (asIntOr conv v (some 77))]
#eval chk "AsFloat64Or" fun v => runResultAcc F Result_AsFloat64Or conv v [encF 9] == some [encF (asFloat64Or conv v 9)]
#eval chk "AsBoolOr" fun v => runResultAcc F Result_AsBoolOr conv v [.bool true] == some [.bool (asBoolOr v true)]
#eval chk "AsMapOr" fun v => runResultAcc F Result_AsMapOr conv v [encM (some 8)] == some [encM (asMapOr v (some 8))]
#eval chk "MustString" fun v => runResultAcc F Result_MustString conv v [] == (match mustString v with | .panic => none | .ok s => some [.str s])
#eval chk "MustInt" fun v => runResultAcc F Result_MustInt conv v [] == (match mustInt conv v with | .panic => none | .ok s => some [encI s])
#eval chk "MustFloat64" fun v => runResultAcc F Result_MustFloat64 conv v [] == (match mustFloat64 conv v with | .panic => none | .ok s => some [encF s])
#eval chk "MustBool" fun v => runResultAcc F Result_MustBool conv v [] == (match mustBool v with | .panic => none | .ok s => some [.bool s])
#eval chk "MustMap" fun v => runResultAcc F Result_MustMap conv v [] == (match mustMap v with | .panic => none | .ok s => some [encM s])
def helds : List (Option GoVal) := none :: samples.map some
def chkS (name : String) (ok : Option GoVal → Bool) : String := s!"{name}: bad={(helds.filter (fun v => !ok v)).length}/{helds.length}"
#eval chkS "GetString" fun h => runStoreAcc F SharedStore_GetString conv h [] == some [.str (getString (storeOf h) "k")]
#eval chkS "GetStringOr" fun h => runStoreAcc F SharedStore_GetStringOr conv h [.str "dd"] == some [.str (getStringOr (storeOf h) "k" "dd")]
#eval chkS "GetIntOr" fun h => runStoreAcc F SharedStore_GetIntOr conv h [.int 77] == some [encI (getIntOr conv (storeOf h) "k" (some 77))]
#eval chkS "GetInt" fun h => runStoreAcc F SharedStore_GetInt conv h [] == some [encI (getInt conv (storeOf h) "k")]
#eval chkS "GetFloat64Or" fun h => runStoreAcc F SharedStore_GetFloat64Or conv h [encF 9] == some [encF (getFloat64Or conv (storeOf h) "k" 9)]
#eval chkS "GetFloat64" fun h => runStoreAcc F SharedStore_GetFloat64 conv h [] == some [encF (getFloat64 conv (storeOf h) "k")]
#eval chkS "GetBoolOr" fun h => runStoreAcc F SharedStore_GetBoolOr conv h [.bool true] == some [.bool (getBoolOr (storeOf h) "k" true)]
#eval chkS "GetBool" fun h => runStoreAcc F SharedStore_GetBool conv h [] == some [.bool (getBool (storeOf h) "k")]
#eval chkS "GetMapOr" fun h => runStoreAcc F SharedStore_GetMapOr conv h [encM (some 8)] == some [encM (getMapOr (storeOf h) "k" (some 8))]
#eval chkS "GetMap" fun h => runStoreAcc F SharedStore_GetMap conv h [] == some [encM (getMap (storeOf h) "k")]
#eval (samples.filter (fun v => !(runResultAcc F Result_AsInt conv v [] == some [encI (asInt conv v).1, .bool (asInt conv v).2]))).map fun v => (repr v, repr (runResultAcc F Result_AsInt conv v []), repr (asInt conv v))
