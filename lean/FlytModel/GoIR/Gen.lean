import FlytModel.GoIR.Worlds
/-! scenario generators and agreement predicates: the interpreter on a translated function vs the hand-written model -/
namespace Flyt.GoIR.Gen
open Flyt Flyt.GoIR

def lcg (s : Nat) : Nat := (s * 6364136223846793005 + 1442695040888963407) % 18446744073709551616
def pick (s : Nat) (n : Nat) : Nat := (s / 65536) % n

def styles : Array Style := #[.absent, .direct, .res, .any]
def fbs : Array FbKind := #[.absent, .passThrough, .custom]
def vals : Array Val := #[.tok 0, .tok 5, .res (.tok 7) none, .res (.tok 0) (some (.user 9)), .res (.res (.tok 2) none) none]

def mkOut (s : Nat) : Out Val :=
  let r := pick s 7
  let c := pick (lcg s) 5 == 0
  if r < 3 then { res := .ok (vals[pick (lcg (lcg s)) 5]!), cancels := c }
  else { res := .error (pick (lcg (lcg s)) 4), cancels := c, junk := if r == 6 then some (.tok 4) else none }

def mkAct (s : Nat) : Out Action :=
  let r := pick s 6
  let c := pick (lcg s) 5 == 0
  if r < 2 then { res := .ok "a", cancels := c } else if r < 4 then { res := .ok "", cancels := c }
  else { res := .error (pick (lcg (lcg s)) 4), cancels := c, junk := if r == 5 then some "zz" else none }

def scenario (seed : Nat) : LeafCfg × LeafScript × Ctx :=
  let s1 := lcg seed; let s2 := lcg s1; let s3 := lcg s2; let s4 := lcg s3; let s5 := lcg s4; let s6 := lcg s5
  let s7 := lcg s6; let s8 := lcg s7; let s9 := lcg s8; let s10 := lcg s9; let s11 := lcg s10
  let cfg : LeafCfg := { retryable := pick s1 4 != 0, budget := pick s2 5, wait := if pick s3 2 == 0 then 0 else 7,
                         fb := fbs[pick s4 3]!, prepS := styles[pick s5 4]!, execS := styles[pick s6 4]!, postS := styles[pick s7 4]! }
  let scr : LeafScript := { prep := mkOut s8, exec := fun k => mkOut (s9 + 977 * k), waitCancel := fun k => pick (s10 + 31 * k) 6 == 0,
                            fb := mkOut s11, post := mkAct (lcg s11) }
  let ctx : Ctx := match pick (lcg (lcg s11)) 10 with | 0 => .done .canceled | 1 => .done .deadline | _ => .live
  (cfg, scr, ctx)

def agree (f : Func) (seed : Nat) : Bool :=
  let (cfg, scr, ctx) := scenario seed
  let kind := if seed % 2 == 0 then CtxKind.canceled else .deadline
  runLeafIR 400 f kind 3 1 8 cfg scr ctx == some (runLeaf kind 3 1 8 cfg scr ctx)

def countBad (f : Func) (n : Nat) : Nat := (List.range n).foldl (fun acc i => if agree f (i * 7919 + 13) then acc else acc + 1) 0

instance : BEq Outcome := ⟨fun a b => decide (a = b)⟩

end Flyt.GoIR.Gen
namespace Flyt.GoIR.Gen
def bscenario (seed : Nat) : BatchCfg × ItemScript × Ctx × Result :=
  let s1 := lcg seed; let s2 := lcg s1; let s3 := lcg s2; let s4 := lcg s3; let s5 := lcg s4; let s6 := lcg s5
  let s7 := lcg s6; let s8 := lcg s7; let s9 := lcg s8
  let cfg : BatchCfg := { budget := pick s1 5, wait := if pick s2 2 == 0 then 0 else 7, fb := fbs[1 + pick s3 2]!, conc := 0,
                          stop := pick s4 2 == 0, execS := #[Style.absent, .res, .any][pick s5 3]!, hasPost := true, shape := .results }
  let scr : ItemScript := { exec := fun k => mkOut (s6 + 977 * k), waitCancel := fun k => pick (s7 + 31 * k) 6 == 0, fb := mkOut s8 }
  let ctx : Ctx := match pick s9 10 with | 0 => .done .canceled | 1 => .done .deadline | _ => .live
  let item : Result := #[newResult (.tok 4), newErrorResult (.user 3), newResult (.res (.tok 1) none), newResult (.tok 0)][pick (lcg s9) 4]!
  (cfg, scr, ctx, item)

instance : BEq ItemRes := ⟨fun a b => decide (a = b)⟩
def bagree (f : Func) (seed : Nat) : Bool :=
  let (cfg, scr, ctx, item) := bscenario seed
  runItemIR 400 f .canceled 3 1 cfg 2 item scr ctx == some (runItem .canceled 3 1 cfg 2 item scr ctx)
end Flyt.GoIR.Gen
namespace Flyt.GoIR.Gen
/-! runBatchSequential vs itemsSeq -/
def seqScenario (seed : Nat) : BatchCfg × BatchScript × Ctx × List Result :=
  let (cfg, _, ctx, _) := bscenario seed
  let s := lcg (seed + 5)
  let n := pick s 5
  let items := (List.range n).map fun j => newResult (.tok (100 + j))
  let scr : BatchScript := { prep := { res := .ok [] }, item := (fun i => { exec := (fun k => mkOut (s + 131 * i + 977 * k)), waitCancel := (fun k => pick (s + 7 * i + 31 * k) 6 == 0), fb := mkOut (s + 17 * i) }), post := { res := .ok "a" } }
  (cfg, scr, ctx, items)
def idxOfTok (r : Result) : Nat := match r.value with | .tok n => n - 100 | _ => 0
def sagree (f : Func) (seed : Nat) : Bool :=
  let (cfg, scr, ctx, items) := seqScenario seed
  itemsSeqIR 400 f .canceled 3 1 cfg scr idxOfTok items ctx == some (itemsSeq .canceled 3 1 cfg scr items 0 ctx)

/-! Flow.Exec vs flowLoop -/
def acts : Array Action := #["a", "b", "", "default"]
def mkAct2 (s : Nat) : Out Action :=
  let r := pick s 8
  if r < 6 then { res := .ok (acts[pick (lcg s) 4]!), cancels := pick (lcg (lcg s)) 9 == 0 } else { res := .error (pick (lcg s) 4) }
def flowEnv (seed : Nat) : Flyt.Env × List ConnOp × Option NodeId :=
  let mkOps (s : Nat) (m : Nat) (hi : Nat) : List ConnOp :=
    (List.range m).map fun j => let t := lcg (s + 13 * j)
      { src := pick t hi, action := acts[pick (lcg t) 4]!, dst := if pick (lcg (lcg t)) 6 == 0 then none else some (pick (lcg (lcg (lcg t))) hi) }
  let innerOps := mkOps (seed + 1) 4 3
  let env : Flyt.Env := {
    kind := .canceled,
    arena := (fun id => if id == 6 then .flow (some (pick seed 3)) innerOps else .leaf (scenario (seed + 101 * id)).1),
    leafBeh := (fun id vis => let (_, scr, _) := scenario (seed + 101 * id + 7 * vis); { scr with post := mkAct2 (seed + 3 * id + 11 * vis) }),
    batchBeh := (fun _ _ => { prep := { res := .ok [] }, item := (fun _ => { exec := (fun _ => { res := .ok (.tok 1) }), waitCancel := (fun _ => false), fb := { res := .ok (.tok 1) } }), post := { res := .ok "a" } }) }
  (env, mkOps (seed + 2) 7 7, if pick (lcg seed) 12 == 0 then none else some (pick (lcg (lcg seed)) 7))
instance : BEq RunSt := ⟨fun a b => a.ctx == b.ctx && (List.range 8).all fun i => a.visits i == b.visits i⟩
def fagree (f : Func) (seed : Nat) : Option Bool :=
  let (env, ops, start) := flowEnv seed
  let st : RunSt := { ctx := if pick (lcg (seed + 9)) 10 == 0 then .done .canceled else .live, visits := fun _ => 0 }
  match start with
  | none => some (flowExecIR 400 f env 9 start ops 30 5 st == some ([], st, .err (.fw .noStart)))
  | some s =>
    let m := flowLoop env 30 (buildTable ops) s 5 st
    if m.2.2 == .fuel then none
    else some (flowExecIR 400 f env 9 start ops 30 5 st == some m)
end Flyt.GoIR.Gen

namespace Flyt.GoIR.Gen
/-! runBatch vs the model's runBatch -/
def shapes : Array PrepShape := #[.results, .anys, .typed, .single, .nilv]
def batchScenario (seed : Nat) : BatchCfg × BatchScript × Ctx :=
  let (cfg0, _, ctx, _) := bscenario seed
  let s := lcg (seed + 77)
  let n := pick s 5
  let cfg := { cfg0 with shape := shapes[pick (lcg s) 5]!, conc := if pick (lcg (lcg s)) 3 == 0 then 1 + pick s 3 else 0, hasPost := pick (lcg (s+1)) 4 != 0 }
  let l := (List.range n).map fun j => if pick (s + j) 7 == 0 then Val.res (.tok (100 + j)) none else Val.tok (100 + j)
  let prep : Out (List Val) := if pick (lcg (s + 3)) 8 == 0 then { res := .error 2, cancels := pick s 3 == 0 } else { res := .ok l, cancels := pick (lcg (s+4)) 9 == 0 }
  let scr : BatchScript := { prep := prep, item := (fun i => { exec := (fun k => mkOut (s + 131 * i + 977 * k)), waitCancel := (fun k => pick (s + 7 * i + 31 * k) 6 == 0), fb := mkOut (s + 17 * i) }), post := mkAct (lcg (s + 9)) }
  (cfg, scr, ctx)
def batchAgree (f : Func) (seed : Nat) : Bool :=
  let (cfg, scr, ctx) := batchScenario seed
  runBatchIR 400 f .canceled 3 1 8 cfg scr ctx == some (runBatch .canceled 3 1 8 cfg scr ctx)
end Flyt.GoIR.Gen

namespace Flyt.GoIR.Gen
/-! runBatchConcurrent on the serial schedule vs itemsSerialPool -/
def cagree (f : Func) (seed : Nat) : Bool :=
  let (cfg0, scr, ctx, items) := seqScenario seed
  let cfg := { cfg0 with conc := 1 + seed % 3 }
  itemsConcSerialIR 400 f .canceled 3 1 cfg scr idxOfTok items ctx == some (itemsSerialPool .canceled 3 1 cfg scr items 0 false ctx)
end Flyt.GoIR.Gen
