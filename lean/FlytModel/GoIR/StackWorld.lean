import FlytModel.GoIR.Worlds
import FlytModel.Expected.IR
/-!
# The full-stack interpretation of `flyt.Run`: no part of the orchestration is given by the model

The refinement theorems of `Refine/Run.lean`, `Refine/RunNode.lean`, `Refine/FlowExec.lean` are layered: in `flowNodeWorld` the
method call `node.Exec(…)` on a flow HAS THE MEANING of the model's `flowLoop`, in `flowWorld` the nested call
`Run(ctx, current, shared)` HAS THE MEANING of the model's `runNode`. Here the layers are stacked:

* `flowWorldOver R`     — `flowWorld`, except that the nested `Run` call at ghost fuel `mf + 1` is `R mf` (any partial function);
* `flowNodeWorldOver E` — `flowNodeWorld`, except that `node.Exec(ctx, store)` is `E` (any partial function);
* `deepRun env k`       — the interpretation of `Expected.IR.Run` on a node of the arena, where
    – a leaf is run in `leafWorld` (the user's callbacks are the script; everything else is interpreted source);
    – a batch node is run in `batchDispatchWorld` (`Run`'s dispatch is interpreted; `runBatch` itself is the subject of
      `Refine/Batch.lean` and stays the model's here);
    – a flow is run in `flowNodeWorldOver E`, where `E` is the INTERPRETATION of `Expected.IR.Flow_Exec` in
      `flowWorldOver R`, where `R mf` is `deepRun env mf` again — interpreted source all the way down;
    – depth 0 is "out of fuel" (`none`; the model's `runNode env 0` is `Outcome.fuel`).

The ghost component `FlowW.mfuel` (which only says which `runNode env ·` a nested call denotes in the layered worlds) becomes
the recursion depth of `deepRun`: exactly as in the model, a flow at depth `k + 1` runs its loop at depth `k`, and the loop
runs its nodes at depths `< k`.

Interpreter fuel of the inner interpretations (the result does not depend on it once sufficient, `Refine/Mono.lean`):
`leafIRFuel cfg = cfg.effBudget + 43` for `Run` on a leaf (one level per retry), `batchIRFuel = 12` for `Run` on a batch node,
`flowNodeIRFuel = 43` for `Run` on a flow, `flowExecIRFuel mf = mf + 40` for `Flow.Exec` at depth `mf` (one level per iteration
of its loop, at most `mf` iterations) — the bounds the `_of_le` / `_ge` refinement theorems state.
-/
namespace Flyt.GoIR

abbrev RunRes := List Ev × RunSt × Outcome
/-- a (partial) meaning of `Run(ctx, node, shared)`: node, store, run state ↦ events, run state afterwards, outcome -/
abbrev RunFn := NodeId → StoreId → RunSt → Option RunRes
/-- a (partial) meaning of `flow.Exec(ctx, shared)` for a fixed flow: depth, store, run state ↦ … -/
abbrev ExecFn := Nat → StoreId → RunSt → Option RunRes

/-- the nested call `Run(ctx, current, shared)` of `Flow.Exec`, with meaning `R` (shape of results as in `flowWorld`) -/
def runCallOver (R : Nat → RunFn) (fn : String) (args : List GV) (h : Heap) (w : FlowW) : Option (List GV × Heap × FlowW) :=
  match fn, args with
  | "Run", [_, .node id, sh] =>
    (match storeIdOf sh, w.mfuel with
     | some sid, mf + 1 =>
       (match R mf id sid w.st with
        | some r =>
          let w' : FlowW := { evs := w.evs ++ r.1, st := r.2.1, mfuel := mf }
          (match r.2.2 with
           | .ok a => some ([.str a, .nil], h, w')
           | .err e => some ([.str "", .err e], h, w')
           | _ => none)
        | none => none)
     | _, _ => none)
  | _, _ => none

/-- `flowWorld`, except that the nested `Run` is `R` (the model's `runNode` does not occur any more: `call` and `callVar` are the
    only components of `flowWorld` that mention `env`, see `flowWorldOver_env`) -/
def flowWorldOver (env : Flyt.Env) (R : Nat → RunFn) (start : Option NodeId) (tbl : Table) : World FlowW :=
  { flowWorld env start tbl with call := runCallOver R, callVar := fun fn _ => runCallOver R fn }

theorem flowWorldOver_env (env env' : Flyt.Env) (R : Nat → RunFn) (start : Option NodeId) (tbl : Table) :
    flowWorldOver env R start tbl = flowWorldOver env' R start tbl := rfl

/-- `node.Exec(ctx, shared)` on a flow node, with meaning `E` (shape of results as in `flowNodeWorld`); every other method call
    as in `orig` -/
def execMcallOver (E : ExecFn) (orig : GV → String → List GV → Heap → FlowW → Option (List GV × Heap × FlowW))
    (recv : GV) (m : String) (args : List GV) (h : Heap) (w : FlowW) : Option (List GV × Heap × FlowW) :=
  match recv with
  | .node _ =>
    if m == "Exec" then
      match args with
      | [_, sh] =>
        (match storeIdOf sh with
         | some sid =>
           (match E w.mfuel sid w.st with
            | some r =>
              let w' : FlowW := { evs := w.evs ++ r.1, st := r.2.1, mfuel := w.mfuel }
              (match r.2.2 with
               | .ok a => some ([.str a, .nil], h, w')
               | .err e => some ([.nil, .err e], h, w')
               | _ => none)
            | none => none)
         | none => none)
      | _ => none
    else orig recv m args h w
  | _ => orig recv m args h w

/-- `flowNodeWorld`, except that `node.Exec` is `E` (the model's `flowLoop` does not occur any more: `mcall … "Exec"` is the
    only place of `flowNodeWorld` that mentions `env` / `tbl`, see `flowNodeWorldOver_env` in `Refine/Stack.lean`) -/
def flowNodeWorldOver (env : Flyt.Env) (E : ExecFn) (start : Option NodeId) (tbl : Table) : World FlowW :=
  { flowNodeWorld env start tbl with mcall := execMcallOver E (flowNodeWorld env start tbl).mcall }

/-- `Flow.Exec` run in an arbitrary world over `FlowW` (`flowExecIR` is the instance `flowWorld`) -/
def flowExecIn (W : World FlowW) (fuel : Nat) (f : Func) (fid : NodeId) (mfuel : Nat) (sid : StoreId) (st : RunSt) :
    Option RunRes :=
  match callFunc W fuel f [.node fid, ctxH, storeH sid] [] ⟨[], st, mfuel⟩ with
  | some (rs, _, w) => (flowOutcomeOf rs).map fun o => (w.evs, w.st, o)
  | none => none

/-- `Run` on a flow node in an arbitrary world over `FlowW` (`runFlowNodeIR` is the instance `flowNodeWorld`) -/
def runFlowNodeIn (W : World FlowW) (fuel : Nat) (f : Func) (fid : NodeId) (mfuel : Nat) (sid : StoreId) (st : RunSt) :
    Option RunRes :=
  match callFunc W fuel f [ctxH, .node fid, storeH sid] [] ⟨[], st, mfuel⟩ with
  | some (rs, _, w) => (outcomeOf rs).map fun o => (w.evs, w.st, o)
  | none => none

theorem flowExecIR_eq_In (fuel : Nat) (f : Func) (env : Flyt.Env) (fid : NodeId) (start : Option NodeId) (ops : List ConnOp)
    (mfuel : Nat) (sid : StoreId) (st : RunSt) :
    flowExecIR fuel f env fid start ops mfuel sid st = flowExecIn (flowWorld env start (buildTable ops)) fuel f fid mfuel sid st := rfl

theorem runFlowNodeIR_eq_In (fuel : Nat) (f : Func) (env : Flyt.Env) (fid : NodeId) (start : Option NodeId) (ops : List ConnOp)
    (mfuel : Nat) (sid : StoreId) (st : RunSt) :
    runFlowNodeIR fuel f env fid start ops mfuel sid st
      = runFlowNodeIn (flowNodeWorld env start (buildTable ops)) fuel f fid mfuel sid st := rfl

/-! ### interpreter fuel of the inner interpretations -/
def leafIRFuel (cfg : LeafCfg) : Nat := cfg.effBudget + 43
def batchIRFuel : Nat := 12
def flowNodeIRFuel : Nat := 43
def flowExecIRFuel (mf : Nat) : Nat := mf + 40

/-- the run state after a leaf / batch visit, as in the model's `runNode`: the visit is counted iff a callback ran -/
def visited (st : RunSt) (id : NodeId) (r : List Ev × Ctx × Outcome) : RunRes :=
  (r.1, { (st.bumpIf (!r.1.isEmpty) id) with ctx := r.2.1 }, r.2.2)

/-- `Flow.Exec` of the flow `fid = (start, ops)`, interpreted, with nested `Run` = `R` -/
def deepExec (env : Flyt.Env) (R : Nat → RunFn) (fid : NodeId) (start : Option NodeId) (ops : List ConnOp) : ExecFn :=
  fun mf sid st =>
    flowExecIn (flowWorldOver env R start (buildTable ops)) (flowExecIRFuel mf) Flyt.Expected.IR.Flow_Exec fid mf sid st

/-- one level: `Run` on node `id`, interpreted; on a flow at depth `k`, with `Flow.Exec` interpreted and its nested `Run` = `R` -/
def deepLevel (env : Flyt.Env) (k : Nat) (R : Nat → RunFn) : RunFn := fun id sid st =>
  match env.arena id with
  | .leaf cfg =>
    let v := st.visits id
    (runLeafIR (leafIRFuel cfg) Flyt.Expected.IR.Run env.kind id v sid cfg (env.leafBeh id v) st.ctx).map (visited st id)
  | .batch cfg =>
    let v := st.visits id
    (runBatchNodeIR batchIRFuel Flyt.Expected.IR.Run env.kind id v sid cfg (env.batchBeh id v) false st.ctx).map (visited st id)
  | .flow start ops =>
    runFlowNodeIn (flowNodeWorldOver env (deepExec env R id start ops) start (buildTable ops)) flowNodeIRFuel
      Flyt.Expected.IR.Run id k sid st

/-- **the full-stack interpretation** of `Run(ctx, node id, store sid)` at depth `k` -/
def deepRun (env : Flyt.Env) : Nat → RunFn
  | 0 => fun _ _ _ => none
  | k + 1 => deepLevel env k (fun mf => if _h : mf < k + 1 then deepRun env mf else fun _ _ _ => none)
termination_by k => k

end Flyt.GoIR
