import FlytModel.GoIR.BatchStackWorld
import FlytModel.GoIR.FullStackWorld
/-!
# Composed worlds, both executors interpreted: `runBatch` → { `runBatchSequential` | `runBatchConcurrent` } → `runExecWithRetries`

`stackBatchWorld` (`BatchStackWorld.lean`) interprets the sequential executor only: for `conc > 0` the call
`runBatchConcurrent(…)` still has `batchWorld`'s MODELLED meaning (`itemsSerialPool`, the serial schedule of the worker pool).
`stackBatchWorld2` closes that gap on the same schedule: the call `runBatchConcurrent(ctx, node, items, results, concurrency,
errorHandling)` is `callFunc (stackConcSerialWorld …) fc fConc` — the translated source of the concurrent executor, run by the
same definitional interpreter on the caller's OWN heap, world state and argument values, in the world of the serial schedule
(`Submit` invokes the closure at once; `Wait` / deferred `Close` / mutex are no-ops) whose per-item calls
`runExecWithRetries(ctx, node, itm)` are in turn interpreted (`itemCallIR`). What the callee returns (values, heap, state) is
the caller's afterwards: the packaging is that of the sequential seam (`seqCallIR` / `SB_seq`), nothing else.
-/
namespace Flyt.GoIR

/-- `batchWorld` with BOTH executor calls interpreted: `runBatchSequential` as in `stackBatchWorld` (source `fSeq`, fuel `fs`,
    in `stackSeqWorld`), and `runBatchConcurrent` as the translated source `fConc` (fuel `fc`) in `stackConcSerialWorld` (the
    serial schedule), item calls interpreted in both (`fItem`, fuel `fi`). Every other entry (the user's batch prep / post, the
    node's settings, `ToSlice`) is `batchWorld`'s. -/
def stackBatchWorld2 (fs fc fi : Nat) (fSeq fConc fItem : Func) (kind : CtxKind) (n : NodeId) (v : Nat) (cfg : BatchCfg)
    (scr : BatchScript) (idxOf : Result → Nat) : World SeqW where
  call fn args h w :=
    if fn == "runBatchSequential" then callFunc (stackSeqWorld fi fItem kind n v cfg scr idxOf) fs fSeq args h w
    else if fn == "runBatchConcurrent" then callFunc (stackConcSerialWorld fi fItem kind n v cfg scr idxOf) fc fConc args h w
    else (batchWorld kind n v cfg scr).call fn args h w
  mcall := (batchWorld kind n v cfg scr).mcall
  assert := (batchWorld kind n v cfg scr).assert
  field _ _ _ := none
  mapIndex _ _ _ := none
  select _ _ := none
  global := (batchWorld kind n v cfg scr).global

/-- `runBatchIR` over the fully composed world: `runBatch`, both executors and `runExecWithRetries` all interpreted -/
def stackBatchIR2 (fuel fs fc fi : Nat) (fBatch fSeq fConc fItem : Func) (kind : CtxKind) (n : NodeId) (v : Nat) (sid : StoreId)
    (cfg : BatchCfg) (scr : BatchScript) (idxOf : Result → Nat) (ctx : Ctx) : Option (List Ev × Ctx × Outcome) :=
  match callFunc (stackBatchWorld2 fs fc fi fSeq fConc fItem kind n v cfg scr idxOf) fuel fBatch [ctxH, .node n, storeH sid] []
      ⟨[], ctx⟩ with
  | some (rs, _, w) => (outcomeOf rs).map fun o => (w.evs, w.ctx, o)
  | none => none

/-! ### Goal B: the whole orchestration with that batch interpretation -/

/-- interpreter fuel of the interpreted concurrent executor (`= Refine.FullConc.stackConcFuel scr`) -/
def fullConcFuel (scr : BatchScript) : Nat := scrPrepLen scr + 37

/-- `runBatch` on batch node `n` (visit `v`), interpreted with BOTH executors interpreted (`stackBatchWorld2`) -/
def fullBatch2 (kind : CtxKind) (n : NodeId) (v : Nat) (cfg : BatchCfg) (scr : BatchScript) (idxOf : Result → Nat) : BatchFn :=
  fun sid ctx =>
    stackBatchIR2 (fullBatchFuel scr) (fullSeqFuel scr) (fullConcFuel scr) (fullItemFuel cfg)
      Flyt.Expected.IR.runBatch Flyt.Expected.IR.runBatchSequential Flyt.Expected.IR.runBatchConcurrent
      Flyt.Expected.IR.runExecWithRetries kind n v sid cfg scr idxOf ctx

/-- `Run` on the batch node `n`: `Run`'s dispatch interpreted, handing over to `fullBatch2` -/
def fullBatchNode2 (kind : CtxKind) (n : NodeId) (v : Nat) (sid : StoreId) (cfg : BatchCfg) (scr : BatchScript)
    (idxOf : Result → Nat) (viaBuilder : Bool) (ctx : Ctx) : Option (List Ev × Ctx × Outcome) :=
  runBatchNodeIn (batchDispatchWorldOver (fullBatch2 kind n v cfg scr idxOf) viaBuilder) batchIRFuel Flyt.Expected.IR.Run n sid ctx

/-- one level: `fullLevel` with `fullBatch` replaced by `fullBatch2` -/
def fullLevel2 (env : Flyt.Env) (idxOf : NodeId → Nat → Result → Nat) (k : Nat) (R : Nat → RunFn) : RunFn := fun id sid st =>
  match env.arena id with
  | .leaf cfg =>
    let v := st.visits id
    (runLeafIR (leafIRFuel cfg) Flyt.Expected.IR.Run env.kind id v sid cfg (env.leafBeh id v) st.ctx).map (visited st id)
  | .batch cfg =>
    let v := st.visits id
    (fullBatchNode2 env.kind id v sid cfg (env.batchBeh id v) (idxOf id v) false st.ctx).map (visited st id)
  | .flow start ops =>
    runFlowNodeIn (flowNodeWorldOver env (deepExec env R id start ops) start (buildTable ops)) flowNodeIRFuel
      Flyt.Expected.IR.Run id k sid st

/-- **`fullRun` with both batch executors interpreted** (sequential, and concurrent on the serial schedule) -/
def fullRun2 (env : Flyt.Env) (idxOf : NodeId → Nat → Result → Nat) : Nat → RunFn
  | 0 => fun _ _ _ => none
  | k + 1 => fullLevel2 env idxOf k (fun mf => if _h : mf < k + 1 then fullRun2 env idxOf mf else fun _ _ _ => none)
termination_by k => k

def fullRunCanon2 (env : Flyt.Env) : Nat → RunFn := fullRun2 env (canonIdx env)

/-- `fullLevel2` with the flow node's `Prep` / `Post` / getters / fallback interpreted as well (`flowNodeWorldFull`, as `fullLevel'`) -/
def fullLevel2' (env : Flyt.Env) (idxOf : NodeId → Nat → Result → Nat) (k : Nat) (R : Nat → RunFn) : RunFn := fun id sid st =>
  match env.arena id with
  | .leaf cfg =>
    let v := st.visits id
    (runLeafIR (leafIRFuel cfg) Flyt.Expected.IR.Run env.kind id v sid cfg (env.leafBeh id v) st.ctx).map (visited st id)
  | .batch cfg =>
    let v := st.visits id
    (fullBatchNode2 env.kind id v sid cfg (env.batchBeh id v) (idxOf id v) false st.ctx).map (visited st id)
  | .flow start ops =>
    runFlowNodeIn (flowNodeWorldFull env (deepExec env R id start ops) start (buildTable ops)) flowNodeIRFuel
      Flyt.Expected.IR.Run id k sid st

def fullRun2' (env : Flyt.Env) (idxOf : NodeId → Nat → Result → Nat) : Nat → RunFn
  | 0 => fun _ _ _ => none
  | k + 1 => fullLevel2' env idxOf k (fun mf => if _h : mf < k + 1 then fullRun2' env idxOf mf else fun _ _ _ => none)
termination_by k => k

end Flyt.GoIR
