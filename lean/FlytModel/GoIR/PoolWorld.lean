import FlytModel.GoIR.Interp
import FlytModel.GoIR.Closures
/-!
# World of the `WorkerPool` methods (properties C12 / C08): ONE goroutine's synchronisation actions, as a trace

The interpreter follows one goroutine. What the goroutine does to the objects it shares with the other goroutines of the pool — the
`tasks` channel, the `done` channel, the WaitGroup — is recorded by this world, in order, as a list of `Act`. What the OTHER goroutines
do shows only where this goroutine waits for them: the worker's `select`. What the select observes is read off a SCRIPT in the world
state (`Obs`): the next receive on `tasks` delivers the wrapper closure of task `t`; `tasks` is closed and drained (`ok = false`);
`done` is closed. An exhausted script means: blocked for ever (stuck).

Handles: the pool is `.ref "pool" 0`; its fields `p.tasks`, `p.done`, `p.wg` are `.ref "chan" 0`, `.ref "chan" 1`, `.ref "wg" 0`
(`W.field`); the function value delivered by the channel for task `t` is `.ref "wrapper" t` (only `Submit` sends on the unexported
`tasks`, and it sends nothing but its wrapper closure); a freshly built closure is the interpreter's opaque `.ref "closure" 0`.

Calling a local function variable — `task()` — reaches the world as `call "task" []` WITHOUT the callee's value (the interpreter
looks no variable up for a call). The world therefore keeps what the goroutine's variable `task` holds: `cur`. In the worker it is
set by the binding `task, ok := <-p.tasks` (`chan:recvd`); for `Submit`'s wrapper closure, whose `task` is a captured parameter, it is
part of the initial state. Calling it while it holds nothing (the `nil` a closed channel delivers) is stuck — Go panics.

`defer p.wg.Done()` reaches the world at REGISTRATION time (`defer:Done`): the world records the registration (`deferDone`) and queues
the deferred action (`defers`, most recent first); `runWithDefers` is Go's function exit: the pending deferred actions happen, in LIFO
order, after the body. (A body that panics is stuck here; Go would still run the deferred calls. Panics are outside this model.)
-/
namespace Flyt.GoIR.PoolW
open Flyt Flyt.GoIR

/-- the two channels of a pool -/
inductive Ch | tasks | done
  deriving DecidableEq, Repr

/-- a function value a goroutine of the pool can call: the user's task `t`, or the wrapper closure `Submit` built around it -/
inductive Fn | user (t : Nat) | wrapper (t : Nat)
  deriving DecidableEq, Repr

/-- one synchronisation action of the goroutine being followed -/
inductive Act
  | wgAdd (n : Int)              -- `p.wg.Add(n)`
  | wgDone                       -- `p.wg.Done()`
  | wgWait                       -- `p.wg.Wait()` called and returned
  | send (c : Ch) (v : GV)       -- `c <- v` completed
  | recv (t : Option Nat)        -- a receive on `tasks` completed: `some t` = the wrapper of task `t`, `none` = closed and drained
  | doneSignal                   -- the receive on `done` fired (the channel is closed)
  | closeCh (c : Ch)             -- `close(c)`
  | run (f : Fn)                 -- a call of the local function variable `task` that returned
  | deferDone                    -- `defer p.wg.Done()` registered (no effect yet)
  deriving DecidableEq, Repr

/-- what the worker's `select` observes next -/
inductive Obs
  | task (t : Nat)               -- `tasks` delivers the wrapper of task `t`
  | tasksClosed                  -- `tasks` is closed and drained: the receive yields `nil, false`
  | doneClosed                   -- `done` is closed
  deriving DecidableEq, Repr

/-- an observation that ends the worker's loop -/
def Obs.isStop : Obs → Bool
  | .task _ => false
  | _ => true

structure PW where
  trace : List Act := []
  script : List Obs := []
  got : Option (Option Nat) := none    -- the receive on `tasks` the select just chose, not yet bound by `task, ok := …`
  cur : Option Fn := none              -- what the local variable `task` holds
  defers : List Act := []              -- pending deferred actions, most recent first
  deriving DecidableEq, Repr

def poolH : GV := .ref "pool" 0
def tasksH : GV := .ref "chan" 0
def doneH : GV := .ref "chan" 1
def wgH : GV := .ref "wg" 0

def chOf : GV → Option Ch
  | .ref "chan" 0 => some .tasks
  | .ref "chan" 1 => some .done
  | _ => none

def emit (w : PW) (a : Act) : PW := { w with trace := w.trace ++ [a] }

def poolWorld : World PW where
  call fn args h w :=
    match fn, args with
    | "chan:send", [c, v] => (chOf c).map fun ch => ([], h, emit w (.send ch v))
    | "close", [c] => (chOf c).map fun ch => ([], h, emit w (.closeCh ch))
    | "chan:recvd", [.ref "chan" 0] =>
      (match w.got with
       | some (some t) => some ([.ref "wrapper" t, .bool true], h, { w with got := none, cur := some (.wrapper t) })
       | some none => some ([.nil, .bool false], h, { w with got := none, cur := none })
       | none => none)
    | "task", [] =>
      (match w.cur with
       | some f => some ([], h, emit w (.run f))
       | none => none)
    | _, _ => none
  mcall recv m args h w :=
    match recv with
    | .ref "wg" _ =>
      (match m, args with
       | "Add", [.int n] => some ([], h, emit w (.wgAdd n))
       | "Done", [] => some ([], h, emit w .wgDone)
       | "Wait", [] => some ([], h, emit w .wgWait)
       | "defer:Done", [] => some ([], h, { emit w .deferDone with defers := .wgDone :: w.defers })
       | _, _ => none)
    | _ => none
  assert _ _ _ := none
  field x f _ :=
    match x with
    | .ref "pool" _ =>
      if f == "tasks" then some tasksH else if f == "done" then some doneH else if f == "wg" then some wgH else none
    | _ => none
  mapIndex _ _ _ := none
  select chans w :=
    match chans with
    | [.ref "chan" 0, .ref "chan" 1] =>
      (match w.script with
       | .task t :: rest => some (0, { emit w (.recv (some t)) with script := rest, got := some (some t) })
       | .tasksClosed :: rest => some (0, { emit w (.recv none) with script := rest, got := some none })
       | .doneClosed :: rest => some (1, { emit w .doneSignal with script := rest })
       | [] => none)
    | _ => none
  global _ := none

/-- a closure with the variables it captures as leading parameters -/
def withCaptured (f : Func) (captured : List String) : Func := { f with params := captured ++ f.params }

/-- run a translated function body; the result values and the world afterwards -/
def run (fuel : Nat) (f : Func) (args : List GV) (w : PW) : Option (List GV × PW) :=
  (callFunc poolWorld fuel f args [] w).map fun r => (r.1, r.2.2)

/-- Go's function exit: the pending deferred actions happen, most recent first, after the body -/
def exitDefers (w : PW) : PW := { w with trace := w.trace ++ w.defers, defers := [] }

def runWithDefers (fuel : Nat) (f : Func) (args : List GV) (w : PW) : Option (List GV × PW) :=
  (run fuel f args w).map fun r => (r.1, exitDefers r.2)

/-- what the statements are about: results, trace, rest of the script, pending deferred actions -/
def view (r : Option (List GV × PW)) : Option (List GV × List Act × List Obs × List Act) :=
  r.map fun x => (x.1, x.2.trace, x.2.script, x.2.defers)

/-- the actions of a worker that receives the tasks `ts` one after the other -/
def workerActs (ts : List Nat) : List Act := ts.flatMap fun t => [.recv (some t), .run (.wrapper t)]

/-- the action a terminating observation is recorded as -/
def finalAct : Obs → Act
  | .doneClosed => .doneSignal
  | _ => .recv none

end Flyt.GoIR.PoolW
