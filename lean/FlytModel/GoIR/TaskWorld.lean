import FlytModel.GoIR.Interp
import FlytModel.GoIR.Closures
/-!
# World of the task closure of `runBatchConcurrent` (batch.go:268-298): ONE task goroutine's view, for ALL schedules

`runBatchConcurrent` hands one closure per item to the worker pool. `Refine/ConcSerial.lean` runs the whole function on the serial
schedule; here the interpreter follows ONE task goroutine, whatever the other goroutines do, and this world records what the goroutine
does to the objects it SHARES with them, in order, as a trace of `TAct`:

* `mu` (`.ref "mutex" 0`): `Lock` / `Unlock` → `lock` / `unlock`. `sync.Mutex` is not reentrant: `Lock` while this goroutine holds `mu`
  is stuck (Go: deadlock), `Unlock` while it does not is stuck (Go: fatal error).
* `shouldStop`: NOT a local variable of the closure — it is captured by reference and shared — so the interpreter reads and writes it
  through `readVar` / `writeVar`. Both are GUARDED: stuck unless this goroutine holds `mu`. A run that is not stuck therefore made
  every access to `shouldStop` inside a critical section — the mutual-exclusion discipline is PROVED of the source, not assumed
  (`Refine/Task.lean`, as `GoIR/StoreWorld.lean` does for the store). A write is also recorded (`setStop b`); a read is not: the
  interpreter's `readVar : String → Ω → Option GV` is pure (it cannot change the world state), exactly like `field` / `mapIndex` in
  `StoreWorld.lean`, so a read shows in the guard and in the path taken, not in the trace.
* INTERFERENCE: while this goroutine does not hold `mu`, the other tasks may change `shouldStop`. `incoming` is the list of values the
  flag has when this goroutine ACQUIRES `mu` the next times (head first); an exhausted list means nobody else touched it. While `mu`
  is held the flag changes only by this goroutine's own writes — that is what a mutex is.
* `ctx.Err()` (`.ref "ctx" 0`) → `ctxErr done`, `done` = what the context reports AT THAT MOMENT (`ctx`; cancellation comes from
  anywhere, the closure asks once).
* `runExecWithRetries(ctx, node, itm)` → `callItem item out`: a world call whose two return values are the parameter `out`
  (`(value, err)`, both arbitrary: a fallback may return a value next to its error). Its semantics is the model's `runItem`
  (`Refine/Item.lean: runExecWithRetries_refines_runItem`); the LTS of `Model/BatchConc.lean` splits it into its `loopTop` / `inExec` /
  `ret` steps, which end at `Pc.store r failed` — at the level of the closure it is ONE call returning `(value, err)`.
* `results` (`.ref "results" 0`): the slice is shared by all tasks, so here it is an object of the WORLD (`setIndex`), which puts the
  slot write into the trace — `writeSlot k r`, in its position relative to `lock` / `unlock` — and into `slots`. Out of range is
  stuck (Go panics). Reading `results[k]` is stuck: the closure never does. (`Refine/Task.lean` also has the variant in which
  `results` is a `[]Result` of the interpreter's own heap.)

The captured variables other than `shouldStop` are the leading parameters of the closure run as a function (`captured`,
`withCaptured` as in `ConfigWorld.lean` / `PoolWorld.lean`).
-/
namespace Flyt.GoIR.TaskW
open Flyt Flyt.GoIR

/-- the two return values of `runExecWithRetries`: `err = none` is a nil error -/
structure ItemOut where
  val : Val
  err : Option ErrRoot
  deriving DecidableEq, Repr, Inhabited

/-- one action of the task goroutine on a shared object -/
inductive TAct
  | lock                                    -- `mu.Lock()` returned
  | unlock                                  -- `mu.Unlock()`
  | setStop (b : Bool)                      -- `shouldStop = b`
  | ctxErr (done : Bool)                    -- `ctx.Err()` returned; `done` = it was non-nil
  | callItem (item : Result) (o : ItemOut)  -- `runExecWithRetries(ctx, node, item)` returned `o`
  | writeSlot (k : Nat) (r : Result)        -- `results[k] = r`
  deriving DecidableEq, Repr

structure TW where
  /-- current value of the shared flag `shouldStop` -/
  stop : Bool := false
  /-- values of the flag at this goroutine's next acquisitions of `mu` (what the OTHER tasks made of it meanwhile) -/
  incoming : List Bool := []
  /-- does this goroutine hold `mu`? -/
  held : Bool := false
  ctx : Ctx := .live
  out : ItemOut := ⟨Val.nil, none⟩
  /-- backing array of `results` -/
  slots : List Result := []
  trace : List TAct := []
  deriving DecidableEq, Repr

def muH : GV := .ref "mutex" 0
def ctxRef : GV := .ref "ctx" 0
def resultsH : GV := .ref "results" 0

def ctxErrGV : Ctx → GV
  | .live => .nil
  | .done k => .err (.ctx k)

def errGV : Option ErrRoot → GV
  | none => .nil
  | some e => .err e

def emit (w : TW) (a : TAct) : TW := { w with trace := w.trace ++ [a] }

/-- the value of `shouldStop` this goroutine finds when it acquires `mu` next -/
def TW.flagAtLock (w : TW) : Bool := w.incoming.headD w.stop

def acquire (w : TW) : Option TW :=
  if w.held then none
  else some { w with held := true, stop := w.flagAtLock, incoming := w.incoming.tail, trace := w.trace ++ [.lock] }

def release (w : TW) : Option TW :=
  if w.held then some { w with held := false, trace := w.trace ++ [.unlock] } else none

def taskWorld : World TW where
  call fn args h w :=
    match fn, args with
    | "runExecWithRetries", [.ref "ctx" _, _, .result item] =>
      some ([GV.ofVal w.out.val, errGV w.out.err], h, emit w (.callItem item w.out))
    | _, _ => none
  mcall recv m args h w :=
    match recv, args with
    | .ref "mutex" _, [] =>
      if m == "Lock" then (acquire w).map fun w' => ([], h, w')
      else if m == "Unlock" then (release w).map fun w' => ([], h, w')
      else none
    | .ref "ctx" _, [] => if m == "Err" then some ([ctxErrGV w.ctx], h, emit w (.ctxErr w.ctx.isDone)) else none
    | _, _ => none
  assert x ty _ :=
    if ty == "Result" then
      match x with
      | .result _ => some (x, true)
      | .val _ => some (.result ⟨Val.nil, none⟩, false)
      | .nil => some (.result ⟨Val.nil, none⟩, false)
      | _ => none
    else none
  field _ _ _ := none
  mapIndex _ _ _ := none
  select _ _ := none
  global _ := none
  readVar x w := if x == "shouldStop" then (if w.held then some (.bool w.stop) else none) else none
  writeVar x v w :=
    if x == "shouldStop" then
      match v with
      | .bool b => if w.held then some (emit { w with stop := b } (.setStop b)) else none
      | _ => none
    else none
  setIndex m k v w :=
    match m, k, v with
    | .ref "results" _, .int i, .result r =>
      if 0 ≤ i ∧ i.toNat < w.slots.length then some (emit { w with slots := w.slots.set i.toNat r } (.writeSlot i.toNat r)) else none
    | _, _, _ => none

/-- a closure with the variables it captures as leading parameters -/
def withCaptured (f : Func) (captured : List String) : Func := { f with params := captured ++ f.params }

/-- what the task closure captures, except the shared `shouldStop` -/
def captured : List String := ["mu", "errorHandling", "results", "idx", "itm", "ctx", "node"]

def noFunc : Func := { name := "", recv := "", params := [], body := .nil }

/-- the task closure of (a translation of) `runBatchConcurrent`, as a function of what it captures -/
def taskOf (f : Func) : Func := withCaptured ((closuresOf f)[0]?.getD noFunc) captured

/-- the arguments of the task of item `idx` -/
def taskArgs (results : GV) (eh : String) (idx : Nat) (item : Result) (node : GV) : List GV :=
  [muH, .str eh, results, .int idx, .result item, ctxRef, node]

/-- run the task closure `t` of item `idx`: the return values and the world afterwards -/
def runTask (fuel : Nat) (t : Func) (eh : String) (idx : Nat) (item : Result) (node : GV) (w : TW) : Option (List GV × TW) :=
  (callFunc taskWorld fuel t (taskArgs resultsH eh idx item node) [] w).map fun r => (r.1, r.2.2)

/-! ### what the closure is proved to do (`Refine/Task.lean`), executable -/

def stoppedSlot : Result := newErrorResult (.fw .batchStopped)
def cancelledSlot : Result := newErrorResult (.fw .batchCancelled)

/-- the slot a task makes of `runExecWithRetries`'s return values -/
def slotOf (o : ItemOut) : Result :=
  match o.err with
  | some e => newErrorResult e
  | none => toResult o.val

/-- the slot the task of an item writes; `b1` = the flag during its first critical section -/
def taskSlot (stopMode b1 : Bool) (ctx : Ctx) (o : ItemOut) : Result :=
  if b1 && stopMode then stoppedSlot else if ctx.isDone then cancelledSlot else slotOf o

/-- does the task raise `shouldStop`? -/
def raises (stopMode : Bool) (o : ItemOut) : Bool := o.err.isSome && stopMode

/-- first critical section: the stop check -/
def secStop (stopMode b1 : Bool) (idx : Nat) : List TAct :=
  if b1 && stopMode then [.lock, .writeSlot idx stoppedSlot, .unlock] else [.lock, .unlock]
/-- the context check; the slot write of a cancelled task is NOT under `mu` -/
def secCtx (done : Bool) (idx : Nat) : List TAct :=
  if done then [.ctxErr true, .writeSlot idx cancelledSlot] else [.ctxErr false]
/-- second critical section: the slot, then the flag -/
def secStore (stopMode : Bool) (idx : Nat) (o : ItemOut) : List TAct :=
  [.lock, .writeSlot idx (slotOf o)] ++ (if raises stopMode o then [.setStop true] else []) ++ [.unlock]

/-- the actions of the task of item `idx`; `b1` = the flag during its first critical section -/
def taskTrace (stopMode b1 : Bool) (idx : Nat) (item : Result) (ctx : Ctx) (o : ItemOut) : List TAct :=
  if b1 && stopMode then secStop stopMode b1 idx
  else if ctx.isDone then secStop stopMode b1 idx ++ secCtx true idx
  else secStop stopMode b1 idx ++ secCtx false idx ++ [.callItem item o] ++ secStore stopMode idx o

/-- the world after the task of item `idx` -/
def taskSem (eh : String) (idx : Nat) (item : Result) (w : TW) : TW :=
  let sm := eh == "stop"
  let b1 := w.flagAtLock
  let tr := w.trace ++ taskTrace sm b1 idx item w.ctx w.out
  if b1 && sm then
    { w with stop := b1, incoming := w.incoming.tail, slots := w.slots.set idx stoppedSlot, trace := tr }
  else if w.ctx.isDone then
    { w with stop := b1, incoming := w.incoming.tail, slots := w.slots.set idx cancelledSlot, trace := tr }
  else
    { w with stop := w.incoming.tail.headD b1 || raises sm w.out, incoming := w.incoming.tail.tail,
             slots := w.slots.set idx (slotOf w.out), trace := tr }

def TAct.isWrite : TAct → Bool
  | .writeSlot _ _ => true
  | _ => false

/-- the same task with `results` a `[]Result` of the interpreter's own heap: the slot write is a heap write, which no world sees -/
def runTaskHeap (fuel : Nat) (t : Func) (eh : String) (idx : Nat) (item : Result) (node : GV) (a off n : Nat) (heap : Heap) (w : TW) :
    Option (List GV × Heap × TW) :=
  callFunc taskWorld fuel t (taskArgs (.slice a off n) eh idx item node) heap w

/-! ### the discipline, as executable checks of a trace -/

/-- walk a trace from lock state `held`: `lock` only when free, `unlock` only when held, `setStop` only when held, `callItem` only
    when free (the user's code never runs under `mu`); the lock state at the end, `none` = a violation -/
def lockWalk : Bool → List TAct → Option Bool
  | h, [] => some h
  | h, .lock :: t => if h then none else lockWalk true t
  | h, .unlock :: t => if h then lockWalk false t else none
  | h, .setStop _ :: t => if h then lockWalk h t else none
  | h, .callItem _ _ :: t => if h then none else lockWalk h t
  | h, _ :: t => lockWalk h t

/-- the slot writes of a trace, each with whether `mu` was held: `(index, value, under the lock)` -/
def slotWrites : Bool → List TAct → List (Nat × Result × Bool)
  | _, [] => []
  | _, .lock :: t => slotWrites true t
  | _, .unlock :: t => slotWrites false t
  | h, .writeSlot k r :: t => (k, r, h) :: slotWrites h t
  | h, _ :: t => slotWrites h t

/-- what a trace does to the shared data `(shouldStop, results)` -/
def effect : List TAct → Bool × List Result → Bool × List Result
  | [], s => s
  | .setStop b :: t, s => effect t (b, s.2)
  | .writeSlot k r :: t, s => effect t (s.1, s.2.set k r)
  | _ :: t, s => effect t s

end Flyt.GoIR.TaskW
