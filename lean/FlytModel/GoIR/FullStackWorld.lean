import FlytModel.GoIR.StackWorld
import FlytModel.GoIR.BatchStackWorld
import FlytModel.Proofs.ExampleEnv
import FlytModel.GoIR.FlowBuildWorld
import FlytModel.GoIR.ConfigWorld
/-!
# The full stack: `Run → Flow.Exec → Run → runBatch → runBatchSequential → runExecWithRetries`, all interpreted

`GoIR/StackWorld.lean` (`deepRun`) interprets `Run` and `Flow.Exec` at every nesting level, but on a batch node only `Run`'s
dispatch: in `batchDispatchWorld` the call `runBatch(ctx, &n.BatchNode, shared)` HAS THE MEANING of the model's `runBatch`.
`GoIR/BatchStackWorld.lean` (`stackBatchIR`) interprets `runBatch`, its `runBatchSequential` and the per-item
`runExecWithRetries`. Here the two are joined:

* `batchDispatchWorldOver B vb` — `batchDispatchWorld`, except that the call `runBatch(ctx, nd, shared)` is `B` (any partial
  function of the store and the context); nothing of the node's configuration, script or the model occurs in it;
* `fullBatch …`               — the `B` that is the interpretation `stackBatchIR` of `Expected.IR.runBatch` in `stackBatchWorld`
  (whose `runBatchSequential` call is interpreted source whose item calls are interpreted source);
* `fullLevel` / `fullRun`     — `deepLevel` / `deepRun` with the batch case replaced by `Run` interpreted in
  `batchDispatchWorldOver (fullBatch …)`.

State packaging at the new seam (the only non-Go part): the callee `runBatch` runs on a FRESH heap and a FRESH recording that
starts from the caller's context, with the arguments `(ctx, node n, store sid)` — the store handle is the one the caller passes
(`storeIdOf`), the node is the batch node `n` itself (the caller hands `&n.BatchNode`, the embedded struct, which in the
callee's world `batchWorld` is again the node the user's callbacks belong to); afterwards the recorded events are appended to
the caller's, the callee's context becomes the caller's, the caller's heap is unchanged (`Run` on a batch node allocates
nothing), and the two return values are the outcome as `Run`'s `(Action, error)`. This is exactly `batchDispatchWorld`'s
packaging of the model's `runBatch`.

`idxOf id v` tells the item world of batch node `id` on visit `v` which item of the batch it is handed (as in `seqWorld` /
`stackSeqWorld`; Go identifies the item by the loop index, the IR call only carries the item).

Interpreter fuel of the inner interpretations, computed from the script as in `Refine/BatchStack.lean`:
`fullItemFuel cfg = cfg.budget + 30` (`= itemFuel cfg`), `fullSeqFuel scr = prepLen + 23` (`= stackSeqFuel scr`),
`fullBatchFuel scr = prepLen + 21` (`= batchFuel scr`).
-/
namespace Flyt.GoIR

/-- a (partial) meaning of `runBatch(ctx, node, shared)` for a fixed batch node and visit: store, context ↦ events, context
    afterwards, outcome -/
abbrev BatchFn := StoreId → Ctx → Option (List Ev × Ctx × Outcome)

/-- the call `runBatch(ctx, nd, shared)` of `Run`, with meaning `B` (shape of arguments and results as in
    `batchDispatchWorld`) -/
def batchCallOver (B : BatchFn) (viaBuilder : Bool) (fn : String) (args : List GV) (h : Heap) (w : SeqW) :
    Option (List GV × Heap × SeqW) :=
  match fn, args with
  | "runBatch", [_, nd, sh] =>
    (match storeIdOf sh, (match nd with | .ref "batchnode" _ => true | .node _ => !viaBuilder | _ => false) with
     | some sid, true =>
       (match B sid w.ctx with
        | some r =>
          let w' : SeqW := { evs := w.evs ++ r.1, ctx := r.2.1 }
          (match r.2.2 with
           | .ok a => some ([.str a, .nil], h, w')
           | .err e => some ([.str "", .err e], h, w')
           | _ => none)
        | none => none)
     | _, _ => none)
  | _, _ => none

/-- `batchDispatchWorld`, except that `runBatch` is `B`. Written out: no configuration, script or model function occurs. -/
def batchDispatchWorldOver (B : BatchFn) (viaBuilder : Bool) : World SeqW where
  call := batchCallOver B viaBuilder
  mcall _ _ _ _ _ := none
  assert x ty _ :=
    match x with
    | .node i =>
      if ty == "*BatchNode" then (if viaBuilder then some (.nil, false) else some (.ref "batchnode" i, true))
      else if ty == "*BatchNodeBuilder" then (if viaBuilder then some (x, true) else some (.nil, false))
      else none
    | _ => none
  field x f _ :=
    match x with
    | .node i => if f == "BatchNode" then some (.ref "batchnode" i) else none
    | _ => none
  mapIndex _ _ _ := none
  select _ _ := none
  global _ := none

/-- `Run` on a batch node in an arbitrary world over `SeqW` (`runBatchNodeIR` is the instance `batchDispatchWorld`) -/
def runBatchNodeIn (W : World SeqW) (fuel : Nat) (f : Func) (n : NodeId) (sid : StoreId) (ctx : Ctx) :
    Option (List Ev × Ctx × Outcome) :=
  match callFunc W fuel f [ctxH, .node n, storeH sid] [] ⟨[], ctx⟩ with
  | some (rs, _, w) => (outcomeOf rs).map fun o => (w.evs, w.ctx, o)
  | none => none

theorem runBatchNodeIR_eq_In (fuel : Nat) (f : Func) (kind : CtxKind) (n : NodeId) (v : Nat) (sid : StoreId) (cfg : BatchCfg)
    (scr : BatchScript) (vb : Bool) (ctx : Ctx) :
    runBatchNodeIR fuel f kind n v sid cfg scr vb ctx
      = runBatchNodeIn (batchDispatchWorld kind n v cfg scr vb) fuel f n sid ctx := rfl

/-! ### interpreter fuel of the inner interpretations (from the configuration / script, as in `Refine/BatchStack.lean`) -/
def fullItemFuel (cfg : BatchCfg) : Nat := cfg.budget + 30
def scrPrepLen (scr : BatchScript) : Nat :=
  match scr.prep.res with
  | .ok l => l.length
  | .error _ => 0
def fullSeqFuel (scr : BatchScript) : Nat := scrPrepLen scr + 23
def fullBatchFuel (scr : BatchScript) : Nat := scrPrepLen scr + 21

/-- `runBatch` on batch node `n` (visit `v`), interpreted: translated `runBatch` in `stackBatchWorld`, i.e. over the interpreted
    `runBatchSequential` over the interpreted `runExecWithRetries`, down to the scripted user callbacks -/
def fullBatch (kind : CtxKind) (n : NodeId) (v : Nat) (cfg : BatchCfg) (scr : BatchScript) (idxOf : Result → Nat) : BatchFn :=
  fun sid ctx =>
    stackBatchIR (fullBatchFuel scr) (fullSeqFuel scr) (fullItemFuel cfg)
      Flyt.Expected.IR.runBatch Flyt.Expected.IR.runBatchSequential Flyt.Expected.IR.runExecWithRetries
      kind n v sid cfg scr idxOf ctx

/-- `Run` on the batch node `n`: `Run`'s dispatch interpreted, and the `runBatch` it hands over to interpreted as well -/
def fullBatchNode (kind : CtxKind) (n : NodeId) (v : Nat) (sid : StoreId) (cfg : BatchCfg) (scr : BatchScript)
    (idxOf : Result → Nat) (viaBuilder : Bool) (ctx : Ctx) : Option (List Ev × Ctx × Outcome) :=
  runBatchNodeIn (batchDispatchWorldOver (fullBatch kind n v cfg scr idxOf) viaBuilder) batchIRFuel Flyt.Expected.IR.Run n sid ctx

/-- one level: `deepLevel` with the batch case interpreted down to the item callbacks -/
def fullLevel (env : Flyt.Env) (idxOf : NodeId → Nat → Result → Nat) (k : Nat) (R : Nat → RunFn) : RunFn := fun id sid st =>
  match env.arena id with
  | .leaf cfg =>
    let v := st.visits id
    (runLeafIR (leafIRFuel cfg) Flyt.Expected.IR.Run env.kind id v sid cfg (env.leafBeh id v) st.ctx).map (visited st id)
  | .batch cfg =>
    let v := st.visits id
    (fullBatchNode env.kind id v sid cfg (env.batchBeh id v) (idxOf id v) false st.ctx).map (visited st id)
  | .flow start ops =>
    runFlowNodeIn (flowNodeWorldOver env (deepExec env R id start ops) start (buildTable ops)) flowNodeIRFuel
      Flyt.Expected.IR.Run id k sid st

/-- **the full-stack interpretation, batch path included**, of `Run(ctx, node id, store sid)` at depth `k` -/
def fullRun (env : Flyt.Env) (idxOf : NodeId → Nat → Result → Nat) : Nat → RunFn
  | 0 => fun _ _ _ => none
  | k + 1 => fullLevel env idxOf k (fun mf => if _h : mf < k + 1 then fullRun env idxOf mf else fun _ _ _ => none)
termination_by k => k

/-- the canonical `idxOf`: the position of the item among the items the node's batch prep yields on that visit -/
def canonIdx (env : Flyt.Env) (id : NodeId) (v : Nat) (r : Result) : Nat :=
  match env.arena id with
  | .batch cfg =>
    (match (env.batchBeh id v).prep.res with
     | .ok l => (normItems cfg.shape l).idxOf r
     | .error _ => 0)
  | _ => 0

/-- `fullRun` with the canonical `idxOf` -/
def fullRunCanon (env : Flyt.Env) : Nat → RunFn := fullRun env (canonIdx env)

end Flyt.GoIR

/-! ### example arenas with batch nodes inside flows (used by `Refine/FullStack.lean` and `GoIR/FullStackTest.lean`) -/
namespace Flyt.GoIR.FullEx
open Flyt Flyt.Proofs

/-- sequential batch node: 2 attempts per item, 5 ms wait between them, custom fallback, `continue` mode, `[]any` items, a post -/
def cfgSeq : BatchCfg :=
  { budget := 2, wait := 5, fb := .custom, conc := 0, stop := false, execS := .any, hasPost := true, shape := .anys }
/-- the same in `stop` mode with `[]Result` items and `Result`-returning exec -/
def cfgStop : BatchCfg := { cfgSeq with stop := true, execS := .res, shape := .results }
/-- pass-through fallback, no post (the action is the default action), typed slice through `ToSlice` -/
def cfgBare : BatchCfg :=
  { budget := 3, wait := 0, fb := .passThrough, conc := 0, stop := false, execS := .res, hasPost := false, shape := .typed }
/-- a concurrent batch node (the executor stays `batchWorld`'s modelled serial schedule) -/
def cfgConc : BatchCfg := { cfgSeq with conc := 2 }

/-- Root flow 0: `1 -a-> 8 -next-> 2 -y-> 9`, `9 -again-> 9`, `9 -done-> 11 -next-> 3`; node 2 is a nested flow
    `4 -x-> 10 -default-> 5`. 8, 9, 10 are sequential batch nodes (9 is reached twice: it loops to itself), 11 a concurrent one.
    12 is a flow whose start node is a batch node. Everything else is a retryable leaf. -/
def arenaB : NodeId → NodeDef
  | 0 => .flow (some 1) [⟨1, "a", some 8⟩, ⟨8, "next", some 2⟩, ⟨2, "y", some 9⟩, ⟨9, "again", some 9⟩, ⟨9, "done", some 11⟩,
                          ⟨11, "next", some 3⟩]
  | 2 => .flow (some 4) [⟨4, "x", some 10⟩, ⟨10, "default", some 5⟩]
  | 8 => .batch cfgSeq
  | 9 => .batch cfgStop
  | 10 => .batch cfgBare
  | 11 => .batch cfgConc
  | 12 => .flow (some 8) [⟨8, "next", some 10⟩]
  | _ => .leaf Ex.cfgPlain

/-- item 0 fails once and succeeds on the retry (after a wait); item 1 fails twice, the fallback recovers; item 2 succeeds -/
def itemsRetry (i : Nat) : ItemScript :=
  { exec := fun k => if i = 0 ∧ k = 0 then Ex.errO 50 else if i = 1 then Ex.errO (60 + k) else Ex.okO (.tok (200 + i)),
    waitCancel := fun _ => false, fb := Ex.okO (.tok 77) }
def scrRetry (a : Action) : BatchScript :=
  { prep := Ex.okO [.tok 101, .tok 102, .tok 103], item := itemsRetry, post := Ex.okO a }

/-- item 1 fails on every attempt and so does its fallback: in `stop` mode item 2 is never run -/
def itemsErr (i : Nat) : ItemScript :=
  { exec := fun k => if i = 1 then Ex.errO (60 + k) else Ex.okO (.res (.tok (200 + i)) none),
    waitCancel := fun _ => false, fb := Ex.errO 99 }
def scrErr (a : Action) : BatchScript :=
  { prep := Ex.okO [.tok 111, .tok 112, .tok 113], item := itemsErr, post := Ex.okO a }

/-- item 1's first attempt fails and cancels the context: the retry is not made, item 2 is marked cancelled -/
def itemsCancel (i : Nat) : ItemScript :=
  { exec := fun k => if i = 1 ∧ k = 0 then { res := .error 43, cancels := true } else Ex.okO (.tok (300 + i)),
    waitCancel := fun _ => false, fb := Ex.okO (.tok 78) }
def scrCancel (a : Action) : BatchScript :=
  { prep := Ex.okO [.tok 121, .tok 122, .tok 123], item := itemsCancel, post := Ex.okO a }

/-- the wait before item 0's retry is interrupted by a cancellation -/
def itemsWaitCancel (i : Nat) : ItemScript :=
  { exec := fun _ => Ex.errO (70 + i), waitCancel := fun k => i = 0 ∧ k = 1, fb := Ex.okO (.tok 79) }

def scrBare : BatchScript :=
  { prep := Ex.okO [.tok 131, .tok 132],
    item := fun i => { exec := fun k => if k < 2 ∧ i = 1 then Ex.errO k else Ex.okO (.tok (400 + i)), waitCancel := fun _ => false,
                       fb := Ex.errO 9 },
    post := Ex.errO 9 }

/-- per node and visit: 8 retries / fallback; 9 on its first visit an item error in `stop` mode and action "again" (it loops), on
    later visits two fresh items and "done"; 10 a bare batch node; 11 the concurrent one -/
def behB : NodeId → Nat → BatchScript
  | 8, _ => scrRetry "next"
  | 9, 0 => scrErr "again"
  | 9, _ => { scrErr "done" with prep := Ex.okO [.tok 141, .tok 142] }
  | 11, _ => scrRetry "next"
  | _, _ => scrBare

def envB : Flyt.Env := { kind := .canceled, arena := arenaB, leafBeh := Ex.beh1, batchBeh := behB }

/-- cancellation in the middle of the first batch (node 8): the flow stops after it -/
def envBCancel : Flyt.Env :=
  { envB with batchBeh := fun n v => if n = 8 then scrCancel "next" else behB n v }

/-- cancellation during a wait inside the nested flow's batch node 10 is not possible (no wait); in node 8 it is -/
def envBWaitCancel : Flyt.Env :=
  { envB with batchBeh := fun n v => if n = 8 then { scrRetry "next" with item := itemsWaitCancel } else behB n v }

/-- node 8's batch prep fails -/
def envBPrepFail : Flyt.Env :=
  { envB with batchBeh := fun n v => if n = 8 then { scrRetry "next" with prep := Ex.errO 17 } else behB n v }

/-- node 9's post fails on the second visit -/
def envBPostFail : Flyt.Env :=
  { envB with batchBeh := fun n v => if n = 9 ∧ v = 1 then { scrErr "x" with post := Ex.errO 18 } else behB n v }

/-- node 8 prepares the same item twice: NOT covered by the theorem's hypothesis (and `fullRunCanon` indeed differs from the model) -/
def envBDup : Flyt.Env :=
  { envB with batchBeh := fun n v => if n = 8 then { scrRetry "next" with prep := Ex.okO [.tok 101, .tok 101] } else behB n v }

end Flyt.GoIR.FullEx

/-! ### Goal B: the flow node's own adapter methods and the embedded `BaseNode`'s getters as interpreted source

`flowNodeWorldOver` still GIVES `Flow.Prep`, `Flow.Post`, `GetMaxRetries`, `GetWait`, `ExecFallback` on the flow node. In
`flowNodeWorldFull` all five are the interpretation of their translated sources:

* `node.Prep(ctx, shared)` / `node.Post(ctx, shared, prepResult, execResult)` — `Expected.IR.Flow_Prep` / `Flow_Post` in
  `flowBuildWorld` (`FlowBuildW.run`, the world of the flow's adapter methods) on the caller's receiver and argument values, object
  state `FlowBuildW.blank` (neither method reads the flow object); the return values are passed through untouched, the caller's heap
  and world state are unchanged (neither method has an effect);
* `node.GetMaxRetries()` / `node.GetWait()` — `Expected.IR.BaseNode_GetMaxRetries` / `BaseNode_GetWait` in `configWorld`
  (`ConfigW.run`) on the node state `Config.emptyNode` = a node whose embedded `BaseNode` is `NewBaseNode()`'s, which is what
  `NewFlow` embeds (`NewFlow_refines_of_le`: `base := some Config.newBaseNode`); receiver `ConfigW.nodeH`.

* `node.ExecFallback(prepResult, err)` — `Expected.IR.BaseNode_ExecFallback` (the embedded `BaseNode`'s pass-through) on the caller's
  receiver, arguments, heap and world state, in the world `flowNodeWorldOver` itself (the method makes no call; any world does). -/
namespace Flyt.GoIR

def flowPrepFuel : Nat := 5
def flowPostFuel : Nat := 7
def getterFuel : Nat := 7
def fallbackFuel : Nat := 5

def fullMcall (W0 : World FlowW) (orig : GV → String → List GV → Heap → FlowW → Option (List GV × Heap × FlowW))
    (recv : GV) (m : String) (args : List GV) (h : Heap) (w : FlowW) : Option (List GV × Heap × FlowW) :=
  match recv with
  | .node _ =>
    if m == "Prep" then
      match args with
      | [c, sh] => (FlowBuildW.run flowPrepFuel Flyt.Expected.IR.Flow_Prep [recv, c, sh] FlowBuildW.blank).map fun r => (r.1, h, w)
      | _ => none
    else if m == "Post" then
      match args with
      | [c, sh, pv, x] =>
        (FlowBuildW.run flowPostFuel Flyt.Expected.IR.Flow_Post [recv, c, sh, pv, x] FlowBuildW.blank).map fun r => (r.1, h, w)
      | _ => none
    else if m == "GetMaxRetries" then
      (ConfigW.run getterFuel Flyt.Expected.IR.BaseNode_GetMaxRetries 0 [ConfigW.nodeH] Config.emptyNode).map fun r => (r.1, h, w)
    else if m == "GetWait" then
      (ConfigW.run getterFuel Flyt.Expected.IR.BaseNode_GetWait 0 [ConfigW.nodeH] Config.emptyNode).map fun r => (r.1, h, w)
    else if m == "ExecFallback" then
      match args with
      | [pv, .err e] => callFunc W0 fallbackFuel Flyt.Expected.IR.BaseNode_ExecFallback [recv, pv, .err e] h w
      | _ => none
    else orig recv m args h w
  | _ => orig recv m args h w

/-- `flowNodeWorldOver` with `Flow.Prep`, `Flow.Post`, `BaseNode.GetMaxRetries`, `BaseNode.GetWait`, `BaseNode.ExecFallback`
    interpreted -/
def flowNodeWorldFull (env : Flyt.Env) (E : ExecFn) (start : Option NodeId) (tbl : Table) : World FlowW :=
  { flowNodeWorldOver env E start tbl with
    mcall := fullMcall (flowNodeWorldOver env E start tbl) (flowNodeWorldOver env E start tbl).mcall }

def fullLevel' (env : Flyt.Env) (idxOf : NodeId → Nat → Result → Nat) (k : Nat) (R : Nat → RunFn) : RunFn := fun id sid st =>
  match env.arena id with
  | .leaf cfg =>
    let v := st.visits id
    (runLeafIR (leafIRFuel cfg) Flyt.Expected.IR.Run env.kind id v sid cfg (env.leafBeh id v) st.ctx).map (visited st id)
  | .batch cfg =>
    let v := st.visits id
    (fullBatchNode env.kind id v sid cfg (env.batchBeh id v) (idxOf id v) false st.ctx).map (visited st id)
  | .flow start ops =>
    runFlowNodeIn (flowNodeWorldFull env (deepExec env R id start ops) start (buildTable ops)) flowNodeIRFuel
      Flyt.Expected.IR.Run id k sid st

/-- `fullRun` with the flow node's `Prep` / `Post` / getters interpreted as well -/
def fullRun' (env : Flyt.Env) (idxOf : NodeId → Nat → Result → Nat) : Nat → RunFn
  | 0 => fun _ _ _ => none
  | k + 1 => fullLevel' env idxOf k (fun mf => if _h : mf < k + 1 then fullRun' env idxOf mf else fun _ _ _ => none)
termination_by k => k

def fullRunCanon' (env : Flyt.Env) : Nat → RunFn := fullRun' env (canonIdx env)

end Flyt.GoIR
