import FlytModel.GoIR.StoreWorld
import FlytModel.Generated.IR
/-! executable check of the `SharedStore` statements of `Refine/Store.lean`: every `#eval` must print 0 -/
open Flyt Flyt.GoIR Flyt.Store Flyt.GoIR.StoreW Flyt.Generated.IR
open Flyt.StoreConc (Mode)

def F := 40
def stEq (a b : Store.St) : Bool :=
  a.maps == b.maps && a.slices == b.slices && a.data == b.data && a.snaps == b.snaps && a.ksnaps == b.ksnaps
def resEq (a b : Option (List GV × Store.St × List LockEv)) : Bool :=
  match a, b with
  | some (v, s, t), some (v', s', t') => v == v' && stEq s s' && t == t'
  | none, none => true
  | _, _ => false
def count (l : List Bool) : Nat := (l.filter (!·)).length

def v1 : Val := .tok 3
def v2 : Val := .res (.tok 1) none
def v3 : Val := .res (.tok 0) (some (.user 4))
def keys : List Key := ["a", "b", "zz", ""]
def vals : List Val := [Val.nil, v1, v2, v3]

/-- sample states: empty store, several keys, after `Clear`, with caller handles, and (last two, not reachable) a handle that
    ALIASES `s.data` and a heap whose first object is not the store's -/
def states : List Store.St :=
  [St.init,
   exec St.init [.set "a" v1],
   exec St.init [.set "a" v1, .set "b" v2, .set "zz" Val.nil, .set "a" v3],
   exec St.init [.set "a" v1, .set "b" v2, .clear],
   exec St.init [.set "a" v1, .set "b" v2, .clear, .set "c" v3, .set "b" v1],
   exec St.init [.set "a" v1, .set "b" v2, .getAll, .snapSet 0 "q" v2, .set "b" v3, .keys, .mergeLit [("x", v1), ("a", v2)], .getAll],
   exec St.init [.set "a" v1, .getAll, .clear, .mergeSnap 0, .set "k" v2, .keys, .delete "a"],
   { maps := [[("a", v1), ("b", v2)], [("b", v3), ("c", v1)]], slices := [["x"]], data := 0, snaps := [0, 1], ksnaps := [0] },
   { maps := [[("p", v1)], [("a", v1), ("b", v2), ("c", v3)], []], slices := [], data := 1, snaps := [2, 0, 1], ksnaps := [] }]

#eval count (states.map fun s => decide (WF s))

def rot (l : KV) : KV := l.drop 1 ++ l.take 1
def enums : List (KV → KV) := [id, List.reverse, rot]

def crit (m : Mode) (acc : List LockEv) : List LockEv := [.lock m, .deferUnlock m] ++ acc ++ [.unlock m]

/-- the statement shape: values = the model's response, heap / data = the model's post-state, the given trace — and the trace is
    disciplined -/
def agree (enum : KV → KV) (f : Func) (args : List GV) (s : Store.St) (op : Op) (tr : List LockEv) : Bool :=
  resEq (runStore enum F f args s) (some (encResp (step s op).1 (step s op).2, withHandles (step s op).1 s, tr)) && disciplined tr

-- scalar methods: every enumeration order
#eval count (enums.flatMap fun en => states.flatMap fun s => keys.map fun k => agree en SharedStore_Get [storeRef, .str k] s (.get k) (crit .R []))
#eval count (enums.flatMap fun en => states.flatMap fun s => keys.map fun k => agree en SharedStore_Has [storeRef, .str k] s (.has k) (crit .R []))
#eval count (enums.flatMap fun en => states.map fun s => agree en SharedStore_Len [storeRef] s .len (crit .R [.read]))
#eval count (enums.flatMap fun en => states.flatMap fun s => keys.flatMap fun k => vals.map fun v =>
  agree en SharedStore_Set [storeRef, .str k, GV.ofVal v] s (.set k v) (crit .W [.write]))
#eval count (enums.flatMap fun en => states.flatMap fun s => keys.map fun k => agree en SharedStore_Delete [storeRef, .str k] s (.delete k) (crit .W [.write]))
#eval count (enums.flatMap fun en => states.map fun s => agree en SharedStore_Clear [storeRef] s .clear (crit .W [.write]))
#eval count (enums.flatMap fun en => states.map fun s => agree en SharedStore_Merge [storeRef, .nil] s .mergeNil [])
-- loops, exact: `Keys` in list order, `GetAll` / `Merge` in reverse list order (`mergeInto` applies the LAST pair first)
#eval count (states.map fun s => agree id SharedStore_Keys [storeRef] s .keys (crit .R [.read]))
#eval count (states.map fun s => agree List.reverse SharedStore_GetAll [storeRef] s .getAll (crit .R [.read]))
#eval count (states.flatMap fun s => (List.range s.snaps.length).map fun j =>
  agree List.reverse SharedStore_Merge [storeRef, mapRef (s.snaps.getD j 0)] s (.mergeSnap j)
    (crit .W (List.replicate (s.deref (s.snaps.getD j 0)).length .write)))
-- `Merge(m)` for ANY live map object `m`, also `s.data` itself
#eval count (states.flatMap fun s => (List.range s.maps.length).map fun r =>
  resEq (runStore List.reverse F SharedStore_Merge [storeRef, mapRef r] s)
    (some ([], s.write s.data (mergeInto s.cur (s.deref r)), crit .W (List.replicate (s.deref r).length .write))))
-- `NewSharedStore`
#eval count [resEq (runStore id F NewSharedStore [] { maps := [], slices := [], data := 0, snaps := [], ksnaps := [] }) (some ([storeRef], St.init, []))]

/-! every enumeration order: the general statements (what the run computes, as a function of `enum`) … -/
#eval count (enums.flatMap fun en => states.map fun s =>
  resEq (runStore en F SharedStore_Keys [storeRef] s)
    (some ([strsRef s.slices.length], { s with slices := s.slices ++ [keysOf (en s.cur)] }, crit .R [.read])))
#eval count (enums.flatMap fun en => states.map fun s =>
  resEq (runStore en F SharedStore_GetAll [storeRef] s)
    (some ([mapRef s.maps.length], { s with maps := s.maps ++ [mergeInto [] (en s.cur).reverse] }, crit .R [.read])))
#eval count (enums.flatMap fun en => states.flatMap fun s => (List.range s.maps.length).map fun r =>
  resEq (runStore en F SharedStore_Merge [storeRef, mapRef r] s)
    (some ([], s.write s.data (mergeInto s.cur (en (s.deref r)).reverse), crit .W (List.replicate (s.deref r).length .write))))

/-! … and their agreement with the model as Go maps (same content: `lookup` agrees on every key, same number of entries) and as
    key sets (a permutation) -/
def allKeys (s : Store.St) : List Key := keys ++ ["c", "k", "p", "q", "x"] ++ s.maps.flatMap keysOf
def sameMap (ks : List Key) (a b : KV) : Bool := a.length == b.length && ks.all fun k => lookup k a == lookup k b
def sameHeap (ks : List Key) (a b : Store.St) : Bool :=
  a.maps.length == b.maps.length && (List.range a.maps.length).all (fun r => sameMap ks (a.deref r) (b.deref r)) &&
  a.slices == b.slices && a.data == b.data && a.snaps == b.snaps && a.ksnaps == b.ksnaps
#eval count (enums.flatMap fun en => states.map fun s =>
  match runStore en F SharedStore_GetAll [storeRef] s with
  | some (vs, s', tr) => vs == encResp (step s .getAll).1 (step s .getAll).2 && sameHeap (allKeys s) s' (withHandles (step s .getAll).1 s)
      && tr == crit .R [.read]
  | none => false)
#eval count (enums.flatMap fun en => states.flatMap fun s => (List.range s.snaps.length).map fun j =>
  match runStore en F SharedStore_Merge [storeRef, mapRef (s.snaps.getD j 0)] s with
  | some (vs, s', tr) => vs == [] && sameHeap (allKeys s) s' (step s (.mergeSnap j)).1 && disciplined tr
  | none => false)
#eval count (enums.flatMap fun en => states.map fun s =>
  match runStore en F SharedStore_Keys [storeRef] s with
  | some (vs, s', tr) => vs == encResp (step s .keys).1 (step s .keys).2 && s'.maps == s.maps && s'.data == s.data
      && s'.slices.length == s.slices.length + 1 && (s'.derefSlice s.slices.length).isPerm (keysOf s.cur) && tr == crit .R [.read]
  | none => false)

/-! the guards bite: the same bodies WITHOUT the lock, or with the read lock where the write lock is needed, are stuck -/
def unlocked (f : Func) : Func := { f with body := match f.body with | .cons _ (.cons _ b) => b | b => b }
def rlocked (f : Func) : Func :=
  { f with body := match f.body with
      | .cons _ (.cons _ b) => .cons (.expr (.mcall (.sel (.var "s") "mu") "RLock" .nil)) (.cons (.deferS (.mcall (.sel (.var "s") "mu") "RUnlock" .nil)) b)
      | b => b }
def s2 : Store.St := exec St.init [.set "a" v1, .set "b" v2]
#eval count ([(SharedStore_Get, [storeRef, .str "a"]), (SharedStore_Has, [storeRef, .str "a"]), (SharedStore_Len, [storeRef]), (SharedStore_GetAll, [storeRef]),
    (SharedStore_Keys, [storeRef]), (SharedStore_Set, [storeRef, .str "a", GV.ofVal v1]), (SharedStore_Delete, [storeRef, .str "a"]), (SharedStore_Clear, [storeRef])].map
  fun (f, args) => (runStore id F (unlocked f) args s2).isNone && (runStore id F f args s2).isSome)
#eval count ([(SharedStore_Set, [storeRef, .str "a", GV.ofVal v1]), (SharedStore_Delete, [storeRef, .str "a"]), (SharedStore_Clear, [storeRef])].map
  fun (f, args) => (runStore id F (rlocked f) args s2).isNone)
-- the checker rejects undisciplined traces
#eval count ([[.read], [.lock .R, .write, .unlock .R], [.lock .W, .write], [.lock .R, .unlock .W], [.lock .R, .lock .R, .unlock .R, .unlock .R], [.write],
    [.lock .W, .unlock .W, .write], [.deferUnlock .R]].map fun tr => !disciplined tr)
