import FlytModel.GoIR.GenericWorld
import FlytModel.GoIR.SliceTest
import FlytModel.Generated.IR
/-!
# Executable test of the generic accessors: the GENERATED IR of `As` / `MustAs`, interpreted in `genericWorld t v`, against the
hand model (`asT` / `mustT` of `Model/Value.lean`)

`lake env lean --run FlytModel/GoIR/GenericTest.lean` prints one line per disagreement and finally `bad=K/N`
(expected: `bad=0/N`). Types: every `t` of `Flyt.genTargets`. Values: the samples of `ValueTest.lean` and `SliceTest.lean`, a value
of every target type that those do not contain, and the zero value of every target type (so that "the value the Result holds" and
"the zero value of `T`" coincide as Go values while one assertion holds and the other fails). Four checks per (type, value):
`As` and `MustAs` in the raw form of `Refine/Generic.lean` (`As_refines`, `MustAs_refines`) and decoded (`As_dec`, `MustAs_dec`).
-/
namespace GenericTest
open Flyt Flyt.GoIR Flyt.Value Flyt.GoIR.ValueW Flyt.GoIR.GenericW

def tMyInt : GoType := .named "MyInt" (.basic .int)
def tMyRec : GoType := .named "MyRec" (.structField (.basic .int) (.structField tString .structEnd))
def gv (l : List GoVal) : GoVals := GoVals.ofList l
def i (n : Int) : GoVal := .int (.basic .int) n

def moreVals : List GoVal :=
  [ .int (.basic .uint8) 200, .int tMyInt 0, .int tMyInt (-4),
    .slice (.slice tResult) false (gv [GoVal.newResult (i 1), GoVal.newErrorResult (.str tString "e")]), .slice (.slice tResult) true .nil,
    .ptr (.ptr (.basic .int)) (some 3), .ptr (.ptr tResult) (some 5), .ptr (.ptr tResult) none, .ptr (.ptr tMyInt) (some 3),
    .func (.func 0) false, .func (.func 0) true, .func (.func 1) true,
    .array (.array 2 (.basic .int)) (gv [i 0, i 0]), .array (.array 3 (.basic .int)) (gv [i 1, i 2, i 3]), .array (.array 2 tMyInt) (gv [.int tMyInt 1, .int tMyInt 2]),
    .struct tMyRec (gv [i 7, .str tString "seven"]), .struct tMyRec (gv [i 0, .str tString ""]),
    .struct (.structField (.basic .int) (.structField tString .structEnd)) (gv [i 7, .str tString "seven"]),
    .struct (.named "Other" (.structField (.basic .int) (.structField tString .structEnd))) (gv [i 7, .str tString "seven"]),
    GoVal.newResult .nil, GoVal.newResult (GoVal.newResult (i 1)), .struct (.named "Result" .structEnd) .nil,
    .map (.named "error" .any) none, .str (.named "MyInt" tString) "9" ]

def vals : List GoVal := (SliceTest.vals ++ moreVals ++ genTargets.map Value.zeroOf).eraseDups
def F := 60

def expectMust (t : GoType) (v : GoVal) : Option (List GV) :=
  match mustT t v with
  | .panic => none
  | .ok x => some [encG t v x]

/-- the disagreements of one (type, value) -/
def check (t : GoType) (v : GoVal) : List String :=
  let as := runGeneric F Flyt.Generated.IR.As t v
  let must := runGeneric F Flyt.Generated.IR.MustAs t v
  let asD := runAs F Flyt.Generated.IR.As t v
  let mustD := runMustAs F Flyt.Generated.IR.MustAs t v
  let w := s!"T = {repr t}, v = {repr v}"
  (if as == some (asCall t v) then [] else [s!"As: {w}: run {repr as}, model {repr (asCall t v)}"])
  ++ (if must == expectMust t v then [] else [s!"MustAs: {w}: run {repr must}, model {repr (expectMust t v)}"])
  ++ (if asD == some (asT t v) then [] else [s!"As (decoded): {w}: run {repr asD}, model {repr (asT t v)}"])
  ++ (if mustD == SliceTest.unret (mustT t v) then [] else [s!"MustAs (decoded): {w}: run {repr mustD}, model {repr (mustT t v)}"])

def cases : List (GoType × GoVal) := genTargets.flatMap fun t => vals.map fun v => (t, v)

end GenericTest

open GenericTest Flyt Flyt.Value in
def main : IO Unit := do
  let mut bad := 0
  let mut oks := 0
  for (t, v) in cases do
    let ds := check t v
    for d in ds do IO.println d
    bad := bad + ds.length
    if (asT t v).2 then oks := oks + 1
  IO.println s!"types={genTargets.length} values={vals.length} holding={oks}/{cases.length}"
  IO.println s!"bad={bad}/{4 * cases.length}"

#eval main
