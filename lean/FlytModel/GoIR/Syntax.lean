/-!
# GoIR — abstract syntax of the Go subset in which flyt's orchestration core is written

`/verif/extract` translates the bodies of the orchestration functions of the CURRENT source
(`Run`, `runExecWithRetries`, `runBatchSequential`, `runBatch`, `Flow.Exec`, …) into terms of these types
(`Generated/IR.lean`, rewritten on every run). The translation is purely syntax-directed: one constructor per
Go AST node kind, identifiers and literals kept as they are, comments / positions / parentheses dropped.

Lists are spelled as explicit mutual inductives (`Exprs`, `Block`, `Cases`) so that the interpreter is plain
structural recursion.
-/
namespace Flyt.GoIR

mutual
inductive Expr where
  | var (x : String)                          -- identifier: local, parameter, package-level constant
  | str (s : String)                          -- string literal
  | int (n : Nat)                             -- integer literal
  | bin (op : String) (a b : Expr)            -- a op b      (== != < > <= >= && || + -)
  | un (op : String) (a : Expr)               -- op a        (! - <-)
  | call (fn : String) (args : Exprs)         -- f(args) / pkg.F(args): `fmt.Errorf`, `Run`, `len`, `make`, `NewResult`, …
  | mcall (recv : Expr) (m : String) (args : Exprs)   -- recv.m(args)
  | sel (a : Expr) (f : String)               -- a.f   (field selection)
  | index (a i : Expr)                        -- a[i]
  | sliceFrom (a lo : Expr)                   -- a[lo:]
  | assert (a : Expr) (ty : String)           -- a.(T)
  | lit (ty : String) (elts : Exprs)          -- composite literal  T{…}
  | conv (ty : String) (a : Expr)             -- conversion T(a)
  | funcLit (params : List String) (body : Block)   -- a closure
  | unsupported (what : String)
inductive Exprs where
  | nil
  | cons (e : Expr) (es : Exprs)
inductive Stmt where
  | define (lhs : List String) (rhs : Exprs)      -- `a, b := e…` ; `var a T = e`
  | declare (x : String) (ty : String)            -- `var x T`  (zero value of T)
  | assign (lhs : Exprs) (rhs : Exprs)            -- `a, b = e…`
  | ifS (init : Block) (cond : Expr) (thn els : Block)
  | forS (init : Block) (cond : Expr) (post : Block) (body : Block)   -- 3-clause / while loop (`cond` = `var "true"` when absent)
  | rangeS (k v : String) (x : Expr) (body : Block)                   -- `for k, v := range x`
  | selectS (cases : Cases)                       -- `select { case <-e: … }`: guard = the channel expression
  | typeSwitch (bind : String) (x : Expr) (cases : Cases)   -- `switch bind := x.(type)`: guard = `lit "types" [var T…]`, default = `var "default"`
  | ret (es : Exprs)
  | brk
  | cont
  | incr (x : String)                             -- x++
  | expr (e : Expr)                               -- expression statement
  | deferS (e : Expr)
  | goS (e : Expr)
  | send (ch v : Expr)                            -- ch <- v
  | unsupported (what : String)
inductive Block where
  | nil
  | cons (s : Stmt) (b : Block)
inductive Cases where
  | nil
  | cons (guard : Expr) (body : Block) (rest : Cases)
end

/-- one translated function -/
structure Func where
  name : String            -- `Run`, `Flow.Exec`, …
  recv : String            -- receiver name ("" for plain functions)
  params : List String
  body : Block

def Exprs.ofList : List Expr → Exprs
  | [] => .nil
  | e :: es => .cons e (Exprs.ofList es)

def Block.ofList : List Stmt → Block
  | [] => .nil
  | s :: ss => .cons s (Block.ofList ss)

def Cases.ofList : List (Expr × Block) → Cases
  | [] => .nil
  | (g, b) :: cs => .cons g b (Cases.ofList cs)

def Exprs.toList : Exprs → List Expr
  | .nil => []
  | .cons e es => e :: es.toList

def Block.toList : Block → List Stmt
  | .nil => []
  | .cons s b => s :: b.toList

def Exprs.length (es : Exprs) : Nat := es.toList.length

/-- readable list syntax for generated terms: `E[ e₁, e₂ ]`, `B[ s₁, s₂ ]` -/
syntax "E[" term,* "]" : term
syntax "B[" term,* "]" : term
macro_rules
  | `(E[ ]) => `(Exprs.nil)
  | `(E[ $x ]) => `(Exprs.cons $x Exprs.nil)
  | `(E[ $x, $xs,* ]) => `(Exprs.cons $x E[ $xs,* ])
macro_rules
  | `(B[ ]) => `(Block.nil)
  | `(B[ $x ]) => `(Block.cons $x Block.nil)
  | `(B[ $x, $xs,* ]) => `(Block.cons $x B[ $xs,* ])

end Flyt.GoIR
