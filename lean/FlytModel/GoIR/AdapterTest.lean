import FlytModel.GoIR.AdapterWorld
import FlytModel.GoIR.Worlds
import FlytModel.Generated.IR
/-! executable check of the adapter statements (all styles × sample payloads × outcomes): every `#eval` must print 0 -/
open Flyt Flyt.GoIR Flyt.GoIR.AdapterW Flyt.Generated.IR

def vals : List Val := [.tok 0, .tok 5, .res (.tok 7) none, .res (.tok 0) (some (.user 9)), .res (.res (.tok 2) none) none, .res (.tok 3) (some (.ctx .canceled))]
def outs : List (Out Val) := (vals.map fun x => ({ res := .ok x } : Out Val)) ++ [{ res := .error 4 }, { res := .error 2, junk := some (.tok 8) }]
def acts : List (Out Action) := [{ res := .ok "a" }, { res := .ok "" }, { res := .error 3 }, { res := .error 1, junk := some "zz" }]
def styles : List Style := [.absent, .res, .any]
def F := 40
def mk (s : Style) (o : Out Val) (a : Out Action := { res := .ok "a" }) (fb : FbKind := .passThrough) : Cfg :=
  { prepS := s, execS := s, postS := s, fb := fb, prep := o, exec := o, post := a, fbOut := o }
def count (l : List Bool) : Nat := (l.filter (!·)).length

-- CustomNode.Exec
#eval count (styles.flatMap fun s => outs.flatMap fun o => vals.map fun pv =>
  run F CustomNode_Exec (mk s o) [cnH, ctxH, GV.ofVal pv] ==
    (match s with
     | .absent => some ([.nil, .nil], ⟨[]⟩)
     | _ => some ((match o.res with | .ok x => [GV.ofVal (execRet s x), .nil] | .error e => [.nil, .err (.user e)]), ⟨[("exec", [execArg s pv])]⟩)))
-- CustomNode.Prep
#eval count (styles.flatMap fun s => outs.map fun o =>
  run F CustomNode_Prep (mk s o) [cnH, ctxH, storeH 5] ==
    (match s with
     | .absent => some ([.nil, .nil], ⟨[]⟩)
     | _ => some ((match o.res with | .ok x => [GV.ofVal (prepRet s x), .nil] | .error e => [.nil, .err (.user e)]), ⟨[("prep", [])]⟩)))
-- CustomNode.Post
#eval count (styles.flatMap fun s => acts.flatMap fun a => vals.flatMap fun pv => vals.map fun ev =>
  run F CustomNode_Post (mk s { res := .ok (.tok 1) } a) [cnH, ctxH, storeH 5, GV.ofVal pv, GV.ofVal ev] ==
    (match s with
     | .absent => some ([.str defaultAction, .nil], ⟨[]⟩)
     | _ => let pa := postArgs s pv ev
            some ((match a.res with | .ok x => [.str x, .nil] | .error e => [.str (a.junk.getD ""), .err (.user e)]), ⟨[("post", [pa.1, pa.2])]⟩)))
-- CustomNode.ExecFallback
#eval count ([FbKind.passThrough, .custom].flatMap fun fb => outs.flatMap fun o => vals.map fun pv =>
  run F CustomNode_ExecFallback (mk .res o { res := .ok "a" } fb) [cnH, GV.ofVal pv, .err (.user 3)] ==
    (match fb with
     | .custom => some ((match o.res with | .ok x => [GV.ofVal x, .nil] | .error e => [.nil, .err (.user e)]), ⟨[("fb", [pv])]⟩)
     | _ => some ([.nil, .err (.user 3)], ⟨[]⟩)))
-- the Any-style wrappers = the world's entries for an Any-style function
instance : Inhabited Func := ⟨{ name := "", recv := "", params := [], body := .nil }⟩
def wrapExec := (closuresOf WithExecFuncAny)[1]!
def wrapPrep := (closuresOf WithPrepFuncAny)[1]!
def wrapPost := (closuresOf WithPostFuncAny)[1]!
def rs : List Result := vals.map toResult
#eval count (outs.flatMap fun o => rs.map fun r =>
  run F wrapExec (mk .any o) [ctxH, .result r] == some (execFuncSem (mk .any o) r ⟨[]⟩))
#eval count (outs.map fun o => run F wrapPrep (mk .any o) [ctxH, storeH 5] == some (prepFuncSem (mk .any o) ⟨[]⟩))
#eval count (acts.flatMap fun a => rs.flatMap fun p => rs.map fun e =>
  run F wrapPost (mk .any { res := .ok (.tok 1) } a) [ctxH, storeH 5, .result p, .result e] == some (postFuncSem (mk .any { res := .ok (.tok 1) } a) p e ⟨[]⟩))
