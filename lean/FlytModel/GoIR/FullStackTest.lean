import FlytModel.GoIR.FullStackWorld
/-!
Executable check of `Refine/FullStack.lean` (`fullRun_eq_runNode`): EVALUATE the full-stack interpretation
`fullRunCanon env k id sid st` — translated source of `Run`, `Flow.Exec`, `runBatch`, `runBatchSequential`, `runExecWithRetries` at
every level, nothing of the orchestration from the model — and the model's `runNode env k id sid st`, and compare events, context,
visit counters and outcome, wherever the model does not run out of fuel.

Arenas of `GoIR/FullStackWorld.lean` (`FullEx`): batch nodes inside a root flow and inside a nested flow; sequential batches with
retries, waits and a fallback (node 8), an item error in `stop` mode (node 9, first visit), a batch node reached twice in a loop with
a different script per visit (node 9), a bare batch node through `ToSlice` (10), a concurrent one (11), a flow whose start node is a
batch node (12); cancellation in the middle of a batch (`envBCancel`), cancellation during a retry wait (`envBWaitCancel`), batch prep
failure, batch post failure; three run states (fresh, context done from the start, node 9 already visited once).

Every run is compared twice: `fullRunCanon` and `fullRunCanon'` (Goal B: the flow node's `Prep` / `Post` / `GetMaxRetries` / `GetWait` /
`ExecFallback` interpreted as well).

`lake env lean --run FlytModel/GoIR/FullStackTest.lean` prints `bad=0/N` (twice: once for the `#eval main` at the end, once for `--run`). `envBDup` (node 8 prepares the same item twice) violates the
theorem's hypothesis; the interpretation with the canonical `idxOf` then runs item 0's script for both items — shown, not counted.
-/
open Flyt Flyt.GoIR Flyt.GoIR.FullEx Flyt.Proofs

def ids : List NodeId := [0, 1, 2, 3, 4, 5, 6, 7, 8, 9, 10, 11, 12, 13]

def sameRes (a : Option RunRes) (m : RunRes) : Bool :=
  match a with
  | some r => r.1 == m.1 && r.2.2 == m.2.2 && r.2.1.ctx == m.2.1.ctx && ids.all fun i => r.2.1.visits i == m.2.1.visits i
  | none => false

def envs : List (String × Flyt.Env) :=
  [("envB", envB), ("envBCancel", envBCancel), ("envBWaitCancel", envBWaitCancel), ("envBPrepFail", envBPrepFail),
   ("envBPostFail", envBPostFail)]

def states : List RunSt := [Ex.st0, Ex.stDone, { ctx := .live, visits := fun n => if n = 9 then 1 else 0 }]

def depths : List Nat := [0, 1, 2, 3, 4, 5, 8, 12, 20]

def isRetry : Ev → Bool | .bexec _ _ _ k _ => k > 0 | _ => false
def isWait : Ev → Bool | .bwait .. => true | _ => false
def isFb : Ev → Bool | .bfb .. => true | _ => false
def isBatchEv : Ev → Bool | .bprep .. => true | _ => false
def postSlots : Ev → List Val | .bpost _ _ _ _ s => s | _ => []
def hasSlotErr (t : FwTag) (evs : List Ev) : Bool :=
  evs.any fun e => (postSlots e).any fun s => match s with | .res _ (some (.fw t')) => t' == t | _ => false

def summary (r : RunRes) : String :=
  s!"events={r.1.length} outcome={repr r.2.2} ctx={repr r.2.1.ctx} visits(8,9,10,11)={[8, 9, 10, 11].map r.2.1.visits}"

def main : IO Unit := do
  let mut bad := 0
  let mut n := 0
  let mut fuelOut := 0
  let mut withBatch := 0; let mut retries := 0; let mut waits := 0; let mut fbs := 0; let mut stopped := 0; let mut cancelled := 0
  let mut twice := 0
  for (name, env) in envs do
    for k in depths do
      for id in ids do
        for st in states do
          let m := runNode env k id 7 st
          n := n + 1
          if m.2.2 == .fuel then
            fuelOut := fuelOut + 1
          else
            if m.1.any isBatchEv then withBatch := withBatch + 1
            if m.1.any isRetry then retries := retries + 1
            if m.1.any isWait then waits := waits + 1
            if m.1.any isFb then fbs := fbs + 1
            if hasSlotErr .batchStopped m.1 then stopped := stopped + 1
            if hasSlotErr .batchCancelled m.1 then cancelled := cancelled + 1
            if m.2.1.visits 9 ≥ st.visits 9 + 2 then twice := twice + 1
            if !(sameRes (fullRunCanon env k id 7 st) m) then
              bad := bad + 1
              IO.println s!"MISMATCH {name} k={k} id={id}"
            n := n + 1
            if !(sameRes (fullRunCanon' env k id 7 st) m) then
              bad := bad + 1
              IO.println s!"MISMATCH (fullRun') {name} k={k} id={id}"
  IO.println s!"compared runs: withBatchNode={withBatch} withRetry={retries} withWait={waits} withFallback={fbs} stoppedOnItemError={stopped} cancelledMidBatch={cancelled} batchNodeReachedTwice={twice}"
  for (name, env) in envs do
    IO.println s!"{name}, root flow, depth 12: {((fullRunCanon env 12 0 7 Ex.st0).map summary).getD "none"}"
    IO.println s!"  … the model:           {summary (runNode env 12 0 7 Ex.st0)}"
  IO.println s!"envBDup (hypothesis violated), node 8: interpretation = model? {sameRes (fullRunCanon envBDup 3 8 7 Ex.st0) (runNode envBDup 3 8 7 Ex.st0)}"
  IO.println s!"bad={bad}/{n} (model out of fuel, not compared: {fuelOut})"

#eval main
