import FlytModel.GoIR.Gen
import FlytModel.GoIR.BatchStackWorld
import FlytModel.Generated.IR
/-!
# Executable non-vacuity check of the composed batch stack

`lake env lean --run FlytModel/GoIR/BatchStackTest.lean [count]` — on `count` (default 300) generated scripted batches, run the
REGENERATED `runBatchSequential` with every item call interpreted on the REGENERATED `runExecWithRetries`
(`stackSeqIR`, no model function below the entry point) and compare events, context and slots with the model's `itemsSeq`.
Prints how many scenarios exercise retries / waits / fallbacks / errors / a cancellation in the middle of the batch, and
`bad=K/N`.
-/
open Flyt Flyt.GoIR Flyt.GoIR.Gen

def stackRun (seed : Nat) : Option (List Ev × Ctx × List Result) :=
  let (cfg, scr, ctx, items) := seqScenario seed
  stackSeqIR 400 400 Flyt.Generated.IR.runBatchSequential Flyt.Generated.IR.runExecWithRetries
    .canceled 3 1 cfg scr idxOfTok items ctx

def modelRun (seed : Nat) : List Ev × Ctx × List Result :=
  let (cfg, scr, ctx, items) := seqScenario seed
  itemsSeq .canceled 3 1 cfg scr items 0 ctx

/-- seam 2: `runBatch` → `runBatchSequential` → `runExecWithRetries`, all regenerated source -/
def idxOfDeep (r : Result) : Nat := match r.value with | .tok n => n - 100 | .res (.tok n) _ => n - 100 | _ => 0
def stackBatchOk (seed : Nat) : Bool :=
  let (cfg, scr, ctx) := batchScenario seed
  stackBatchIR 400 400 400 Flyt.Generated.IR.runBatch Flyt.Generated.IR.runBatchSequential Flyt.Generated.IR.runExecWithRetries
    .canceled 3 1 8 cfg scr idxOfDeep ctx == some (runBatch .canceled 3 1 8 cfg scr ctx)
def batchIsSeq (seed : Nat) : Bool :=
  let (cfg, scr, _) := batchScenario seed
  cfg.conc == 0 && (match scr.prep.res with | .ok l => !(normItems cfg.shape l).isEmpty | _ => false)

/-- seam 3: `runBatchConcurrent` (serial schedule) → `runExecWithRetries`, regenerated source -/
def stackConcOk (seed : Nat) : Bool :=
  let (cfg0, scr, ctx, items) := seqScenario seed
  let cfg := { cfg0 with conc := 1 + seed % 3 }
  stackConcSerialIR 400 400 Flyt.Generated.IR.runBatchConcurrent Flyt.Generated.IR.runExecWithRetries
    .canceled 3 1 cfg scr idxOfTok items ctx == some (itemsSerialPool .canceled 3 1 cfg scr items 0 false ctx)

def isRetry : Ev → Bool | .bexec _ _ _ k _ => k > 0 | _ => false
def isWait : Ev → Bool | .bwait .. => true | _ => false
def isFb : Ev → Bool | .bfb .. => true | _ => false

def main (args : List String) : IO Unit := do
  let count := (args.head?.bind String.toNat?).getD 300
  let seeds := (List.range count).map fun i => i * 7919 + 13
  let mut bad := 0
  let mut firstBad : Option Nat := none
  let mut nonEmpty := 0; let mut retries := 0; let mut waits := 0; let mut fbs := 0; let mut errs := 0; let mut midCancel := 0
  let mut stopMarked := 0
  for seed in seeds do
    let m := modelRun seed
    let (_, _, ctx0, items) := seqScenario seed
    if stackRun seed != some m then
      bad := bad + 1
      if firstBad.isNone then firstBad := some seed
    if items.length > 0 then nonEmpty := nonEmpty + 1
    if m.1.any isRetry then retries := retries + 1
    if m.1.any isWait then waits := waits + 1
    if m.1.any isFb then fbs := fbs + 1
    if m.2.2.any (·.isError) then errs := errs + 1
    if ctx0 == .live ∧ m.2.1 != .live ∧ m.2.2.any (fun r => r.err == some (.fw .batchCancelled)) then midCancel := midCancel + 1
    if m.2.2.any (fun r => r.err == some (.fw .batchStopped)) then stopMarked := stopMarked + 1
  IO.println s!"scenarios={count} nonEmpty={nonEmpty} withRetry={retries} withWait={waits} withFallback={fbs} withErrorSlot={errs} cancelledMidBatch={midCancel} stoppedOnError={stopMarked}"
  match firstBad with
  | some s => IO.println s!"firstBadSeed={s} MODEL={reprStr (modelRun s)} STACK={reprStr (stackRun s)}"
  | none => pure ()
  IO.println s!"seam1 runBatchSequential>runExecWithRetries: bad={bad}/{count}"
  let bad2 := (seeds.filter fun s => !stackBatchOk s).length
  IO.println s!"seam2 runBatch>runBatchSequential>runExecWithRetries: sequentialNonEmpty={(seeds.filter batchIsSeq).length} bad={bad2}/{count}"
  let bad3 := (seeds.filter fun s => !stackConcOk s).length
  IO.println s!"seam3 runBatchConcurrent(serial)>runExecWithRetries: bad={bad3}/{count}"
  IO.println s!"bad={bad + bad2 + bad3}/{3 * count}"

#eval main []
