import FlytModel.GoIR.StackWorld
import FlytModel.Proofs.ExampleEnv
/-!
Executable check of `Refine/Stack.lean` (`deepRun_eq_runNode`): EVALUATE the full-stack interpretation `deepRun env k id sid st`
(translated source of `Run` and `Flow.Exec` at every level, nothing of the orchestration from the model) and the model's
`runNode env k id sid st`, and compare events, context, visit counters and outcome, wherever the model does not run out of fuel.

Scenarios of `Proofs/ExampleEnv.lean`: root flow 0 = `1 -a-> 2 -y-> 3` with the nested flow 2 = `4 -x-> 5`, a flow without start node
(6), a self-loop on 3 (`envLoop`), a post failure inside the nested flow (`envFail`), cancellations inside post / exec, a context that
is done from the start; plus an arena with a batch node and a flow that contains itself.

`lake env lean --run FlytModel/GoIR/StackTest.lean` prints `bad=0/N` (and how many of the `N` comparisons were of runs in which the
model ran out of fuel — there the interpretation must merely not CONTRADICT a non-fuel model result, nothing is compared).
-/
open Flyt Flyt.GoIR Flyt.Proofs

def ids : List NodeId := [0, 1, 2, 3, 4, 5, 6, 7, 8, 9]

def sameRes (a : Option RunRes) (m : RunRes) : Bool :=
  match a with
  | some r => r.1 == m.1 && r.2.2 == m.2.2 && r.2.1.ctx == m.2.1.ctx && ids.all fun i => r.2.1.visits i == m.2.1.visits i
  | none => false

/-- an arena with a batch node (8), a flow that contains itself (9 → 9 on "again", entered through leaf 3), a leaf that needs retries -/
def arena2 : NodeId → NodeDef
  | 0 => .flow (some 1) [⟨1, "a", some 8⟩, ⟨8, "default", some 9⟩]
  | 9 => .flow (some 3) [⟨3, "loop", some 9⟩]
  | 8 => .batch { budget := 2, wait := 0, fb := .passThrough, execS := .any, shape := .anys, conc := 0,
                  stop := false, hasPost := false }
  | _ => .leaf Ex.cfgPlain

def batchScr : BatchScript :=
  { prep := Ex.okO [.tok 1, .tok 2],
    item := fun i => { exec := fun k => if i = 1 ∧ k = 0 then Ex.errO 5 else Ex.okO (.tok 9), waitCancel := fun _ => false,
                       fb := Ex.errO 9 },
    post := Ex.okO "default" }

def env2 : Flyt.Env :=
  { kind := .deadline, arena := arena2,
    leafBeh := fun n v => if n = 3 ∧ v < 2 then Ex.scrOk "loop" else if n = 3 then Ex.scrExecFails "done" else Ex.beh1 n v,
    batchBeh := fun _ _ => batchScr }

def envs : List (String × Flyt.Env) :=
  [("env1", Ex.env1), ("envLoop", Ex.envLoop), ("envFail", Ex.envFail), ("envCancel", Ex.envCancel),
   ("envCancelLast", Ex.envCancelLast), ("envExecCancel", Ex.envExecCancel), ("env2", env2)]

def states : List RunSt := [Ex.st0, Ex.stDone, { ctx := .live, visits := fun n => if n = 3 then 1 else 0 }]

def depths : List Nat := [0, 1, 2, 3, 4, 5, 6, 8, 12, 20]

def main : IO Unit := do
  let mut bad := 0
  let mut n := 0
  let mut fuelOut := 0
  for (name, env) in envs do
    for k in depths do
      for id in ids do
        for st in states do
          let m := runNode env k id 7 st
          n := n + 1
          if m.2.2 == .fuel then
            fuelOut := fuelOut + 1
          else if !(sameRes (deepRun env k id 7 st) m) then
            bad := bad + 1
            IO.println s!"MISMATCH {name} k={k} id={id}"
  -- two of the runs, shown
  IO.println s!"envLoop, root flow, depth 10: {repr ((deepRun Ex.envLoop 10 0 7 Ex.st0).map fun r => (r.1.length, r.2.2))}"
  IO.println s!"envFail, root flow, depth 10: {repr ((deepRun Ex.envFail 10 0 7 Ex.st0).map fun r => (r.1.length, r.2.2))}"
  IO.println s!"env2 (batch node, self-containing flow), depth 20: {repr ((deepRun env2 20 0 7 Ex.st0).map fun r => (r.1.length, r.2.2))}"
  IO.println s!"  … the model: {repr ((fun (r : RunRes) => (r.1.length, r.2.2)) (runNode env2 20 0 7 Ex.st0))}"
  IO.println s!"bad={bad}/{n} (model out of fuel, not compared: {fuelOut})"
