import FlytModel.Model.Store
import FlytModel.Model.StoreConc
import FlytModel.GoIR.Interp
/-!
# World of the `SharedStore` methods (flyt.go:55-161): the heap machine of `Model/Store.lean` + the lock

The world state is the model's `Store.St` (heap of map objects, heap of `[]string` objects, the `s.data` pointer; the caller handles
`snaps` / `ksnaps` are carried along untouched — registering a handle is the caller's business, not the method's), the lock the
running goroutine holds (`held`), and a trace of lock / access events.

Values: a map object is `.ref "map" r` (`r` = heap index), a `[]string` object `.ref "strs" r`, the store `.ref "store" 0`, its
`s.mu` `.ref "mutex" 0`, a key `.str k`, a payload `GV.ofVal v` (stored as `g.toVal`).

## iteration order
`range m` asks the world for the pairs of `m`. Go leaves the order unspecified (and randomises it per `range` statement), so the
world is parameterised by `enum : KV → KV`, the order in which the association list of the object is enumerated. `Refine/Store.lean`
proves the statements for EVERY `enum` and specialises them.

## lock discipline: events AND guards
The interpreter lets `call`, `mcall`, `setField`, `setIndex` change the world state; `field`, `mapIndex`, `rangeOf` are pure
(`… → Ω → Option …`). Hence
* `s.mu.RLock()/Lock()`, `defer s.mu.RUnlock()/Unlock()`, every WRITE to the store (`s.data[k] = v`, `delete(s.data, k)`,
  `s.data = …`) and `len(s.data)` are recorded in the trace (`lock`, `deferUnlock`, `write`, `read`);
* every access, traced or not, is GUARDED: reading the field `s.data`, `s.data[k]`, `len(s.data)`, `range s.data` are stuck
  (`none`) unless the goroutine holds the lock in some mode; `s.data[k] = v`, `delete(s.data, k)`, `s.data = …` are stuck unless it
  holds it in mode `W`. A run that is not stuck therefore made ALL its accesses inside a critical section of the right mode
  (`guard_*` lemmas in `Refine/Store.lean`), although the reads through the three pure primitives leave no event.
Map objects other than the one `s.data` points to (the fresh `copy` of `GetAll`, the argument of `Merge`) are the method's /
the caller's own: no guard, no event — unless the reference IS `s.data` (aliasing is decided by comparing heap indices).
A dangling reference is stuck (Go has none).

## `defer`
The interpreter tells the world about `defer recv.m()` at REGISTRATION time and does not run it at exit. `runStore` is the defer
semantics: after `callFunc` returns (the return values have been evaluated, as in Go), the deferred unlocks registered in the trace
are executed in LIFO order (`runDefers`), each appending its `unlock` event; unlocking a mutex that is not held in that mode is
stuck (Go: fatal error). While the body runs the lock stays held, which is exactly Go's behaviour for a deferred unlock.
-/
namespace Flyt.GoIR.StoreW
open Flyt Flyt.GoIR Flyt.Store
open Flyt.StoreConc (Mode)

inductive LockEv
  | lock (m : Mode)
  | unlock (m : Mode)
  | deferUnlock (m : Mode)
  /-- a traced read of the store's map (`len(s.data)`) -/
  | read
  /-- a write to the store's map object or to the field `s.data` -/
  | write
  deriving DecidableEq, Repr

structure SW where
  st : Store.St
  /-- the mode in which the running goroutine holds `s.mu` -/
  held : Option Mode := none
  tr : List LockEv := []

def storeRef : GV := .ref "store" 0
def muRef : GV := .ref "mutex" 0
def mapRef (r : Nat) : GV := .ref "map" r
def strsRef (r : Nat) : GV := .ref "strs" r

/-- may map object `r` be read? (always, unless it is the store's own map: then only under the lock) -/
def SW.readOk (w : SW) (r : Nat) : Bool := r != w.st.data || w.held.isSome
/-- may map object `r` be written? -/
def SW.writeOk (w : SW) (r : Nat) : Bool := r != w.st.data || w.held == some Mode.W
/-- record `e` if the object touched is the store's own map -/
def SW.touch (w : SW) (r : Nat) (e : LockEv) : List LockEv := if r == w.st.data then w.tr ++ [e] else w.tr

/-- `mu.RLock()` / `mu.Lock()`: `sync.RWMutex` is not reentrant -/
def acquire (m : Mode) (w : SW) : Option SW :=
  match w.held with
  | none => some { w with held := some m, tr := w.tr ++ [.lock m] }
  | some _ => none

/-- `mu.RUnlock()` / `mu.Unlock()` -/
def release (m : Mode) (w : SW) : Option SW :=
  if w.held = some m then some { w with held := none, tr := w.tr ++ [.unlock m] } else none

def muCall (m : String) (w : SW) : Option SW :=
  match m with
  | "RLock" => acquire .R w
  | "Lock" => acquire .W w
  | "RUnlock" => release .R w
  | "Unlock" => release .W w
  | "defer:RUnlock" => some { w with tr := w.tr ++ [.deferUnlock .R] }
  | "defer:Unlock" => some { w with tr := w.tr ++ [.deferUnlock .W] }
  | _ => none

/-- `v, ok := m[k]` / `m[k]` -/
def mapGet (r : Nat) (k : Key) (w : SW) : Option (GV × Bool) :=
  if r < w.st.maps.length then
    if w.readOk r then some (GV.ofVal ((lookup k (w.st.deref r)).getD Val.nil), (lookup k (w.st.deref r)).isSome) else none
  else none

/-- `m[k] = v` -/
def mapSet (r : Nat) (k : Key) (v : GV) (w : SW) : Option SW :=
  if r < w.st.maps.length then
    if w.writeOk r then some { w with st := w.st.write r (put (w.st.deref r) k v.toVal), tr := w.touch r .write } else none
  else none

/-- `delete(m, k)` -/
def mapDel (r : Nat) (k : Key) (w : SW) : Option SW :=
  if r < w.st.maps.length then
    if w.writeOk r then some { w with st := w.st.write r (erase k (w.st.deref r)), tr := w.touch r .write } else none
  else none

/-- `len(m)` -/
def mapLen (r : Nat) (w : SW) : Option (Int × SW) :=
  if r < w.st.maps.length then
    if w.readOk r then some (((w.st.deref r).length : Nat), { w with tr := w.touch r .read }) else none
  else none

/-- `range m`, in the order `enum` -/
def mapRange (enum : KV → KV) (r : Nat) (w : SW) : Option (List (GV × GV)) :=
  if r < w.st.maps.length then
    if w.readOk r then some ((enum (w.st.deref r)).map fun p => (GV.str p.1, GV.ofVal p.2)) else none
  else none

/-- `make(map[string]any)` / `make(map[string]any, n)`: a NEW map object -/
def allocMap (w : SW) : GV × SW := (.ref "map" w.st.maps.length, { w with st := { w.st with maps := w.st.maps ++ [[]] } })

/-- `make([]string, 0, n)`: a NEW (empty) slice object -/
def allocStrs (w : SW) : GV × SW := (.ref "strs" w.st.slices.length, { w with st := { w.st with slices := w.st.slices ++ [[]] } })

/-- `append(ks, k)` on a slice object made with sufficient capacity: in place; the result is the same object, one longer. (A
    `.ref "strs" r` stands for the header "array `r`, all of it"; an older, shorter header of the same array is not represented —
    `keys = append(keys, k)` overwrites the only one there is.) -/
def strsAppend (r : Nat) (k : Key) (w : SW) : Option SW :=
  if r < w.st.slices.length then some { w with st := { w.st with slices := w.st.slices.set r (w.st.derefSlice r ++ [k]) } } else none

/-- `s.data = m` -/
def setData (r : Nat) (w : SW) : Option SW :=
  if r < w.st.maps.length then
    if w.held == some Mode.W then some { w with st := { w.st with data := r }, tr := w.tr ++ [.write] } else none
  else none

/-- `&SharedStore{data: m}`: the (one) store object comes into being; nobody else can see it yet, no lock -/
def newStore (r : Nat) (w : SW) : Option SW :=
  if r < w.st.maps.length then some { w with st := { w.st with data := r } } else none

def storeWorld (enum : KV → KV) : World SW where
  call fn args h w :=
    match fn, args with
    | "len", [.ref "map" r] => (mapLen r w).map fun p => ([.int p.1], h, p.2)
    | "delete", [.ref "map" r, .str k] => (mapDel r k w).map fun w' => ([], h, w')
    | "append", [.ref "strs" r, .str k] => (strsAppend r k w).map fun w' => ([.ref "strs" r], h, w')
    | "make:map[string]any", [] => some ([(allocMap w).1], h, (allocMap w).2)
    | "make:map[string]any", [.int _] => some ([(allocMap w).1], h, (allocMap w).2)
    | "make:[]string", [.int 0, .int _] => some ([(allocStrs w).1], h, (allocStrs w).2)
    | "lit:SharedStore:data,", [.ref "map" r] => (newStore r w).map fun w' => ([storeRef], h, w')
    | _, _ => none
  mcall recv m args h w :=
    match recv, args with
    | .ref "mutex" _, [] => (muCall m w).map fun w' => ([], h, w')
    | _, _ => none
  assert _ _ _ := none
  field x f w :=
    match x, f with
    | .ref "store" _, "mu" => some muRef
    | .ref "store" _, "data" => if w.held.isSome then some (.ref "map" w.st.data) else none
    | _, _ => none
  mapIndex m k w :=
    match m, k with
    | .ref "map" r, .str k => mapGet r k w
    | _, _ => none
  select _ _ := none
  global _ := none
  setField x f v w :=
    match x, f, v with
    | .ref "store" _, "data", .ref "map" r => setData r w
    | _, _, _ => none
  setIndex m k v w :=
    match m, k with
    | .ref "map" r, .str k => mapSet r k v w
    | _, _ => none
  rangeOf m w :=
    match m with
    | .ref "map" r => mapRange enum r w
    | _ => none

/-! ### `defer` at function exit -/

/-- the deferred unlocks registered so far, in registration order -/
def pendingDefers : List LockEv → List Mode
  | [] => []
  | .deferUnlock m :: t => m :: pendingDefers t
  | _ :: t => pendingDefers t

def runDefers : List Mode → SW → Option SW
  | [], w => some w
  | m :: ms, w => (release m w).bind (runDefers ms)

/-- one method call, from a state in which the goroutine holds nothing: the body, then the deferred calls in LIFO order -/
def runStore (enum : KV → KV) (fuel : Nat) (f : Func) (args : List GV) (s : Store.St) : Option (List GV × Store.St × List LockEv) :=
  match callFunc (storeWorld enum) fuel f args [] { st := s } with
  | some (vs, _, w) => (runDefers (pendingDefers w.tr).reverse w).map fun w' => (vs, w'.st, w'.tr)
  | none => none

/-! ### the lock discipline, as a check on traces -/

/-- scan a trace with the mode currently held: `lock` only when nothing is held, `unlock m` / `deferUnlock m` only while `m` is
    held, `read` only while something is held, `write` only while `W` is held, nothing held at the end -/
def discAux : Option Mode → List LockEv → Bool
  | h, [] => h.isNone
  | h, .lock m :: t => h.isNone && discAux (some m) t
  | h, .unlock m :: t => h == some m && discAux none t
  | h, .deferUnlock m :: t => h == some m && discAux h t
  | h, .read :: t => h.isSome && discAux h t
  | h, .write :: t => h == some Mode.W && discAux h t

def disciplined (tr : List LockEv) : Bool := discAux none tr

/-! ### correspondence with `Store.step` -/

/-- `a`'s heap and `data` pointer with the caller handles of `b` (a method call does not register handles, the caller does) -/
def withHandles (a b : Store.St) : Store.St := { a with snaps := b.snaps, ksnaps := b.ksnaps }

/-- A response of the model as Go return values. A map / slice response is the REFERENCE of the object — the one the model registers
    as the newest caller handle in its post-state `post`. `noHandle` / `junk` are not responses of a method. -/
def encResp (post : Store.St) : Resp → List GV
  | .unit => []
  | .got v ok => [GV.ofVal v, .bool ok]
  | .bool b => [.bool b]
  | .nat n => [.int n]
  | .keys _ => [.ref "strs" (post.ksnaps.getLast?.getD 0)]
  | .map _ => [.ref "map" (post.snaps.getLast?.getD 0)]
  | .noHandle => []
  | .junk => []

/-- the model's well-formedness: `s.data` is a live map object (`Proofs/StoreHeap.lean: Iso.data_lt`) -/
def WF (s : Store.St) : Prop := s.data < s.maps.length

instance (s : Store.St) : Decidable (WF s) := inferInstanceAs (Decidable (_ < _))

end Flyt.GoIR.StoreW
