import FlytModel.GoIR.Interp
import FlytModel.GoIR.Closures
/-!
# World of the SUBMITTER of `runBatchConcurrent` (batch.go:257-302): the goroutine that executes the function itself

`Refine/ConcSerial.lean` runs `runBatchConcurrent` on the serial schedule (a world whose `Submit` runs the closure at once);
`GoIR/TaskWorld.lean` follows ONE task goroutine. Here the interpreter follows the goroutine that EXECUTES `runBatchConcurrent`:
it makes the pool, registers `defer pool.Close()`, hands one closure per item to `pool.Submit`, calls `pool.Wait()` and returns.
`pool.Submit(closure)` does NOT run the closure (`invokes` is `false` — the default): the closure is run later, by a worker
goroutine (`Refine/Task.lean`). This world records what the submitter does to the pool, in order, as a trace of `SAct`:

* `NewWorkerPool(c)` → `newPool c` (the handle is `.ref "pool" 0`);
* `defer pool.Close()` → `deferClose` at REGISTRATION (`defer:Close`), and `close` is queued (`defers`, most recent first);
  `runSubmitter` is Go's function exit: the pending deferred actions happen, LIFO, after the body — `close` is the LAST action;
* `pool.Submit(closure)` → `submit k item`;
* `pool.Wait()` → `wait`.

Anything else the interpreted function might ask of the world — `mu.Lock()`, `ctx.Err()`, `runExecWithRetries`, an access to a
variable it does not own, a map / field / `results` as a world object — is STUCK: a run that is not stuck did none of these.

## what the world can observe of a `Submit` (precisely)

The interpreter hands a method call to the world as `mcall recv m args heap Ω`: receiver, method name, argument values, the heap of
`[]Result` backing arrays, the world state — NOT the environment. The argument is the opaque `.ref "closure" 0`. So the values of
`idx` / `itm` the closure captures are not visible to the world. What IS visible: that a `Submit` happens (order, number), and the
heap at that moment. `submit k item` is therefore taken from the LOOP POSITION: `k` = the number of `Submit` calls made before this
one (`SW.submitted`), `item` = cell `off + k` of the backing array of `items` (`SW.ia`, `SW.off`: where the caller put them), read
from the heap handed over with THIS call; no such cell = stuck. That the environment of the `k`-th `Submit` statement binds
`idx ↦ k` and `itm ↦ items[k]` — the per-iteration copies — is proved at the level of the interpreter, for every world
(`Refine/Submit.lean: concBody_env`, `captured_at_submit`).

The statement `recv.m(func() {…})` for a method that does not run the closure (`invokes` = false) is, in `Interp.lean`, an ordinary
method call whose argument is the opaque closure value `.ref "closure" 0` (it used to be stuck).
-/
namespace Flyt.GoIR.SubmitW
open Flyt Flyt.GoIR
set_option autoImplicit false

/-- one action of the submitter on the pool -/
inductive SAct
  | newPool (c : Int)                       -- `NewWorkerPool(c)` returned
  | deferClose                              -- `defer pool.Close()` registered (no effect yet)
  | submit (idx : Nat) (item : Result)      -- `pool.Submit(closure)` returned: the task of item `idx`
  | wait                                    -- `pool.Wait()` returned
  | close                                   -- the deferred `pool.Close()`, at function exit
  deriving DecidableEq, Repr

structure SW where
  trace : List SAct := []
  /-- pending deferred actions, most recent first -/
  defers : List SAct := []
  /-- backing array and offset of the `items` slice the function was called with -/
  ia : Nat := 0
  off : Nat := 0
  /-- number of `Submit` calls so far: the position of the loop -/
  submitted : Nat := 0
  deriving DecidableEq, Repr

def poolH : GV := .ref "pool" 0

def emit (w : SW) (a : SAct) : SW := { w with trace := w.trace ++ [a] }

/-- `pool.Submit(closure)`: the task of the item at the loop position -/
def onSubmit (h : Heap) (w : SW) : Option (List GV × Heap × SW) :=
  (heapGet h w.ia (w.off + w.submitted)).map fun r =>
    ([], h, { emit w (.submit w.submitted r) with submitted := w.submitted + 1 })

def submitWorld : World SW where
  call fn args h w :=
    match fn, args with
    | "NewWorkerPool", [.int c] => some ([poolH], h, emit w (.newPool c))
    | _, _ => none
  mcall recv m args h w :=
    match recv with
    | .ref "pool" _ =>
      (match m, args with
       | "Submit", [.ref "closure" _] => onSubmit h w
       | "Wait", [] => some ([], h, emit w .wait)
       | "defer:Close", [] => some ([], h, { emit w .deferClose with defers := .close :: w.defers })
       | _, _ => none)
    | _ => none
  assert _ _ _ := none
  field _ _ _ := none
  mapIndex _ _ _ := none
  select _ _ := none
  global _ := none
  -- `invokes` is the default: no method runs the closure it is handed

/-- Go's function exit: the pending deferred actions happen, most recent first, after the body -/
def exitDefers (w : SW) : SW := { w with trace := w.trace ++ w.defers, defers := [] }

/-- the arguments of `runBatchConcurrent(ctx, node, items, results, concurrency, errorHandling)` -/
def submitterArgs (ctx node : GV) (ia off n : Nat) (results : GV) (conc : Int) (eh : GV) : List GV :=
  [ctx, node, .slice ia off n, results, .int conc, eh]

/-- run the function body (deferred calls still pending) -/
def runBody (fuel : Nat) (f : Func) (args : List GV) (heap : Heap) (w : SW) : Option (List GV × Heap × SW) :=
  callFunc submitWorld fuel f args heap w

/-- run the function to its exit: body, then the deferred calls -/
def runSubmitter (fuel : Nat) (f : Func) (args : List GV) (heap : Heap) (w : SW) : Option (List GV × Heap × SW) :=
  (runBody fuel f args heap w).map fun r => (r.1, r.2.1, exitDefers r.2.2)

/-- what the statements are about: return values, heap, trace, pending deferred actions, number of submits -/
def view (r : Option (List GV × Heap × SW)) : Option (List GV × Heap × List SAct × List SAct × Nat) :=
  r.map fun x => (x.1, x.2.1, x.2.2.trace, x.2.2.defers, x.2.2.submitted)

/-! ### what the submitter is proved to do (`Refine/Submit.lean`), executable -/

/-- one `submit` per item, in index order, from index `i` on -/
def submitsFrom (i : Nat) : List Result → List SAct
  | [] => []
  | r :: rest => .submit i r :: submitsFrom (i + 1) rest

/-- the actions of the body -/
def bodyTrace (conc : Int) (items : List Result) : List SAct :=
  [.newPool conc, .deferClose] ++ submitsFrom 0 items ++ [.wait]

/-- the actions of the whole call: the body, then the deferred `Close` -/
def submitterTrace (conc : Int) (items : List Result) : List SAct := bodyTrace conc items ++ [.close]

/-- the `(index, item)` pairs of the `submit`s of a trace, in order -/
def submitted : List SAct → List (Nat × Result)
  | [] => []
  | .submit k r :: t => (k, r) :: submitted t
  | _ :: t => submitted t

def SAct.isSubmit : SAct → Bool
  | .submit _ _ => true
  | _ => false

/-- discipline of a trace, as an executable check: `newPool` first and once, then `deferClose`, then only `submit`s, then `wait`,
    then `close`, nothing after -/
def wellFormed : List SAct → Bool
  | .newPool _ :: .deferClose :: rest =>
    (match rest.dropWhile SAct.isSubmit with
     | [.wait, .close] => true
     | _ => false)
  | _ => false

end Flyt.GoIR.SubmitW
