import FlytModel.Model.Batch
import FlytModel.GoIR.Interp
import FlytModel.GoIR.Worlds
/-!
# Small worlds: the remaining one- and two-line functions of the package

Four tiny worlds (refinement theorems: `Refine/Small.lean`, executable check: `GoIR/SmallTest.lean`).

1. `baseWorld` — the defaults of `BaseNode` (`Prep`, `Exec`, `Post`, `ExecFallback`). Their bodies touch nothing but the
   package-level constant `DefaultAction`; the world is empty apart from it.
2. `delegWorld` — the delegations of the builders: `NodeBuilder.Prep / Exec / Post / ExecFallback` call the method of the same
   name of the embedded `*CustomNode` (`b.CustomNode`), `BatchNodeBuilder.Prep / Exec / Post` that of the embedded `*BatchNode`
   (`b.BatchNode`). The embedded node's methods are the world's: they RECORD receiver, method name and the arguments they are
   handed, and answer whatever the parameter `ret` says (any number of values, or stuck).
3. `batchNodeWorld` — `BatchNode.Prep` / `BatchNode.Post`. `n.batchPrepFunc` / `n.batchPostFunc` are the user's batch functions
   (set iff `cfg.shape = .results` / `cfg.hasPost`, the way `Model/Batch.lean` reads these two fields of `BatchCfg`); they record
   `Ev.bprep` / `Ev.bpost` with what they are actually handed. `n.CustomNode.Prep` is the embedded function-style node's `Prep`
   (refinement: `Refine/Adapters.lean`), returning the prep value in the Go type `cfg.shape` names. The state is `SeqW` and the
   answers are those of `batchWorld` (`GoIR/Worlds.lean`), so that the theorems can say: the translated source of
   `BatchNode.Prep` / `Post` computes exactly the `Prep` / `Post` entries `batchWorld` assumes for the node of `runBatch`.
4. `resultWorld` — `flyt.Result` as a two-field struct. A `Result` travels as the interpreter's `GV.result r`; the world supplies
   Go's struct semantics for it: field selection (`r.value`, `r.err`), the keyed composite literals `Result{value: v}` /
   `Result{err: e}` (`lit:Result:value,` / `lit:Result:err,`: the named field, the zero value elsewhere) and the name of a
   dynamic type, `fmt.Sprintf("%T", x)` (parameter `tyName`). No method of `Result` is a world call here: the theorems compare
   the SOURCE of `NewResult`, `NewErrorResult`, `Result.Value`, `Result.IsError` with the interpreter's built-in semantics of
   these four.
5. `batchErrorWorld` — `(*BatchError).Error()`: the receiver's `Errors` field is the world's list of errors (`len`, indexing — out of
   range panics), `fmt.Sprintf` the parameter `sprintf` (which text a format and its operands produce is not the subject; WHICH
   format and operands the method picks is).
-/
namespace Flyt.GoIR.SmallW
open Flyt Flyt.GoIR

/-! ## 1. `BaseNode` defaults -/

def baseH : GV := .ref "base" 0

def baseWorld : World Unit where
  call _ _ _ _ := none
  mcall _ _ _ _ _ := none
  assert _ _ _ := none
  field _ _ _ := none
  mapIndex _ _ _ := none
  select _ _ := none
  global x := if x == "DefaultAction" then some (.str defaultAction) else none

/-! ## 2. delegations of `NodeBuilder` / `BatchNodeBuilder` -/

/-- one recorded method call of an embedded node -/
structure Call where
  recv : GV
  meth : String
  args : List GV
  deriving DecidableEq, Repr

abbrev DW := List Call

def nbH : GV := .ref "nb" 0      -- a `*NodeBuilder`
def bnbH : GV := .ref "bnb" 0    -- a `*BatchNodeBuilder`
def cnH : GV := .ref "cn" 0      -- the embedded `*CustomNode`
def bnH : GV := .ref "bn" 0      -- the embedded `*BatchNode`

/-- `ret m args`: what method `m` of the embedded node answers to `args` (`none` = it panics) -/
def delegWorld (ret : String → List GV → Option (List GV)) : World DW where
  call _ _ _ _ := none
  mcall recv m args h w :=
    match recv with
    | .ref k _ =>
      if k == "cn" ∨ k == "bn" then (ret m args).map fun rs => (rs, h, w ++ [⟨recv, m, args⟩]) else none
    | _ => none
  assert _ _ _ := none
  field x f _ :=
    match x with
    | .ref k _ =>
      if k == "nb" ∧ f == "CustomNode" then some cnH
      else if k == "bnb" ∧ f == "BatchNode" then some bnH
      else none
    | _ => none
  mapIndex _ _ _ := none
  select _ _ := none
  global _ := none

def runDeleg (fuel : Nat) (f : Func) (ret : String → List GV → Option (List GV)) (args : List GV) : Option (List GV × DW) :=
  (callFunc (delegWorld ret) fuel f args [] []).map fun r => (r.1, r.2.2)

/-! ## 3. `BatchNode.Prep` / `BatchNode.Post` -/

/-- the user's `batchPrepFunc(ctx, shared)`: records the store it is handed, returns a fresh `[]Result` -/
def userBatchPrep (kind : CtxKind) (n : NodeId) (v : Nat) (scr : BatchScript) (sh : GV) (h : Heap) (w : SeqW) :
    Option (List GV × Heap × SeqW) :=
  match storeIdOf sh with
  | none => none
  | some sid =>
    let w' : SeqW := { evs := w.evs ++ [.bprep n v sid], ctx := w.ctx.after kind scr.prep.cancels }
    match scr.prep.res with
    | .error e => some ([.nil, .err (.user e)], h, w')
    | .ok l => some ([.slice h.length 0 l.length, .nil], h ++ [l.map toResult], w')

/-- `n.CustomNode.Prep(ctx, shared)` of a batch node WITHOUT `batchPrepFunc`: the user's prep function behind the function-style
    adapter, its value travelling in the Go type `shape` names (`[]any`, another slice type, a single value, nil) -/
def customPrep (kind : CtxKind) (n : NodeId) (v : Nat) (shape : PrepShape) (scr : BatchScript) (sh : GV) (h : Heap) (w : SeqW) :
    Option (List GV × Heap × SeqW) :=
  match storeIdOf sh with
  | none => none
  | some sid =>
    let w' : SeqW := { evs := w.evs ++ [.bprep n v sid], ctx := w.ctx.after kind scr.prep.cancels }
    match scr.prep.res with
    | .error e => some ([.nil, .err (.user e)], h, w')
    | .ok l =>
      match shape with
      | .results => none                 -- a `[]Result` prep value comes from `batchPrepFunc`, never from here
      | .anys => some ([.anys l, .nil], h, w')
      | .typed => some ([.ref "typed" 0, .nil], h, w')
      | .single => some ([.ref "single" 0, .nil], h, w')
      | .nilv => some ([.nil, .nil], h, w')

/-- the user's `batchPostFunc(ctx, shared, prep, exec)`: records the store and the CONTENTS of the two slices it is handed -/
def userBatchPost (kind : CtxKind) (n : NodeId) (v : Nat) (scr : BatchScript) (sh its res : GV) (h : Heap) (w : SeqW) :
    Option (List GV × Heap × SeqW) :=
  match storeIdOf sh, readWindow h its, readWindow h res with
  | some sid, some items, some slots =>
    let w' : SeqW := { evs := w.evs ++ [.bpost n v sid (items.map Result.box) (slots.map Result.box)],
                       ctx := w.ctx.after kind scr.post.cancels }
    (match scr.post.res with
     | .ok a => some ([.str a, .nil], h, w')
     | .error e => some ([.str (scr.post.junk.getD ""), .err (.user e)], h, w'))
  | _, _, _ => none

def batchNodeWorld (kind : CtxKind) (n : NodeId) (v : Nat) (cfg : BatchCfg) (scr : BatchScript) : World SeqW where
  call _ _ _ _ := none
  mcall recv m args h w :=
    match recv with
    | .ref k _ =>
      if k == "bn" then
        (if m == "batchPrepFunc" then
           match args with
           | [_, sh] => userBatchPrep kind n v scr sh h w
           | _ => none
         else if m == "batchPostFunc" then
           match args with
           | [_, sh, its, res] => userBatchPost kind n v scr sh its res h w
           | _ => none
         else none)
      else if k == "cn" then
        (if m == "Prep" then
           match args with
           | [_, sh] => customPrep kind n v cfg.shape scr sh h w
           | _ => none
         else none)
      else none
    | _ => none
  assert x ty _ :=
    -- `x.([]Result)` in the single-value form: anything but a `[]Result` panics
    match x with
    | .slice .. => if ty == "[]Result" then some (x, true) else none
    | _ => none
  field x f _ :=
    match x with
    | .ref k _ =>
      if k == "bn" then
        (if f == "batchPrepFunc" then some (if cfg.shape == .results then .ref "fn" 0 else .nil)
         else if f == "batchPostFunc" then some (if cfg.hasPost then .ref "fn" 1 else .nil)
         else if f == "CustomNode" then some cnH
         else none)
      else none
    | _ => none
  mapIndex _ _ _ := none
  select _ _ := none
  global x := if x == "DefaultAction" then some (.str defaultAction) else none

/-! ## 4. `flyt.Result` as a struct -/

/-- an `error` field -/
def errGV : Option ErrRoot → GV
  | none => .nil
  | some e => .err e

def errOfGV : GV → Option (Option ErrRoot)
  | .nil => some none
  | .err e => some (some e)
  | _ => none

/-- `Result.IsNil()`: `r.value == nil` -/
def resIsNil (r : Result) : Bool := r.value == Val.nil
/-- `Result.Type()` -/
def resType (tyName : Val → String) (r : Result) : String := if r.value == Val.nil then "nil" else tyName r.value

def resultWorld (tyName : Val → String) : World Unit where
  call fn args h w :=
    if fn == "lit:Result:value," then
      match args with
      | [v] => some ([.result ⟨v.toVal, none⟩], h, w)
      | _ => none
    else if fn == "lit:Result:err," then
      match args with
      | [e] => (errOfGV e).map fun oe => ([.result ⟨Val.nil, oe⟩], h, w)
      | _ => none
    else if fn == "fmt.Sprintf" then
      match args with
      | [.str fmt, x] => if fmt == "%T" then some ([.str (tyName x.toVal)], h, w) else none
      | _ => none
    else none
  mcall _ _ _ _ _ := none
  assert _ _ _ := none
  field x f _ :=
    match x with
    | .result r =>
      if f == "value" then some (GV.ofVal r.value)
      else if f == "err" then some (errGV r.err)
      else none
    | _ => none
  mapIndex _ _ _ := none
  select _ _ := none
  global _ := none

def runResult (fuel : Nat) (f : Func) (tyName : Val → String) (args : List GV) : Option (List GV) :=
  (callFunc (resultWorld tyName) fuel f args [] ()).map (·.1)

/-- the interpreter's built-in semantics of a one-expression program (`NewResult(x)`, `r.Value()`, …) with `x` bound to `v` -/
def builtin (fuel : Nat) (e : Expr) (x : String) (v : GV) : Option (List GV) :=
  (evalExpr baseWorld fuel e ⟨[(x, v)], [], ()⟩).map (·.1)


/-! ## 5. `BatchError.Error` -/

def beH : GV := .ref "be" 0

/-- the message of a `BatchError` holding `errs` -/
def batchErrorMsg (sprintf : String → List GV → String) (errs : List ErrRoot) : String :=
  match errs with
  | [] => "batch: no errors recorded"
  | [e] => sprintf "batch: %v" [.err e]
  | e :: _ => sprintf "batch: %d errors occurred, first: %v" [.int errs.length, .err e]

def batchErrorWorld (sprintf : String → List GV → String) (errs : List ErrRoot) : World Unit where
  call fn args h w :=
    if fn == "len" then
      match args with
      | [.ref k _] => if k == "errors" then some ([.int errs.length], h, w) else none
      | _ => none
    else if fn == "fmt.Sprintf" then
      match args with
      | .str fmt :: rest => some ([.str (sprintf fmt rest)], h, w)
      | _ => none
    else none
  mcall _ _ _ _ _ := none
  assert _ _ _ := none
  field x f _ :=
    match x with
    | .ref k _ => if k == "be" ∧ f == "Errors" then some (.ref "errors" 0) else none
    | _ => none
  mapIndex m i _ :=
    match m, i with
    | .ref k _, .int j => if k == "errors" ∧ 0 ≤ j then (errs[j.toNat]?).map fun e => (.err e, true) else none
    | _, _ => none
  select _ _ := none
  global _ := none

end Flyt.GoIR.SmallW
