import FlytModel.GoIR.BindWorld
import FlytModel.Generated.IR
/-! executable check of the `Bind` statements of `Refine/BindR.lean` on the REGENERATED IR: every `#eval` must print 0 -/
open Flyt Flyt.GoIR Flyt.Bind Flyt.GoIR.BindW Flyt.Generated.IR

namespace BindTest

abbrev Ty := String
abbrev Va := String × Nat
abbrev By := Nat
abbrev Er := String

/-- types are strings, values `(type, payload)`, "JSON" the payload; marshalling a `"chan"` fails, decoding into `"bool"` fails AFTER
    writing -/
def exCodec : Codec Ty Va By Er where
  typeOf := fun v => v.1
  marshal := fun
    | none => .ok 0
    | some v => if v.1 = "chan" then .error "unsupported type" else .ok v.2
  unmarshal := fun b t cur => if t = "bool" then ((t, cur.2 + 1), some "type mismatch") else ((t, b), none)
  invalidDest := "invalid unmarshal"

/-- marshal always fails -/
def noMarshal : Codec Ty Va By Er := { exCodec with marshal := fun _ => .error "no" }
/-- unmarshal always fails and leaves the destination alone -/
def noUnmarshal : Codec Ty Va By Er := { exCodec with unmarshal := fun _ _ cur => (cur, some "bad") }
/-- every value has the one type `"User"` -/
def oneType : Codec Ty Va By Er := { exCodec with typeOf := fun _ => "User" }

def codecs : List (Codec Ty Va By Er) := [exCodec, noMarshal, noUnmarshal, oneType]
def values : List (Option Va) := [none, some ("User", 7), some ("chan", 3), some ("Other", 2), some ("bool", 1)]
def dests : List (Dest Ty Va) :=
  [.untypedNil, .nonPointer "User", .nonPointer "Other", .nilPointer "User", .nilPointer "Other",
   .ptr "User" ("User", 0), .ptr "Other" ("Other", 0), .ptr "bool" ("bool", 5), .ptr "chan" ("chan", 0)]
/-- what the store holds under the key: absent, a stored nil, a value -/
def srcs : List (Option (Option Va)) := none :: values.map some

def F := 40
def FI := 40
def count (l : List Bool) : Nat := (l.filter (!·)).length
def obsEq (a b : Option (Obs Ty Va By Er)) : Bool := a == b

def all3 {α : Type} (f : Codec Ty Va By Er → α → Dest Ty Va → Bool) (xs : List α) : List Bool :=
  codecs.flatMap fun c => xs.flatMap fun x => dests.map fun d => f c x d

/-- the store of the model: `src` under every key -/
def st (src : Option (Option Va)) : Store Unit Va := fun _ => src

-- `Result.Bind`
#eval count (all3 (fun c v d => obsEq (runResultBind c F Result_Bind v d) (encBind [] (resultBind c v d))) values)
-- `SharedStore.Bind`: the critical section of `Get`, then the codec
#eval count (all3 (fun c s d => obsEq (runStoreBind c s "k" FI F SharedStore_Get SharedStore_Bind d) (encBind critR (storeBind c (st s) () d).1)) srcs)
-- `Result.MustBind`
#eval count (all3 (fun c v d => obsEq (runResultMust c FI F Result_Bind Result_MustBind v d)
  (encMust ((callsOf (resultBind c v d)).map .json) (resultMustBind c v d))) values)
-- `SharedStore.MustBind`
#eval count (all3 (fun c s d => obsEq (runStoreMust c s "k" FI F SharedStore_Get SharedStore_Bind SharedStore_MustBind d)
  (encMust (critR ++ (callsOf (storeBind c (st s) () d).1).map .json) (storeMustBind c (st s) () d).1)) srcs)

-- the traces are disciplined, and the codec runs OUTSIDE the critical section
#eval count (all3 (fun c s d => match runStoreBind c s "k" FI F SharedStore_Get SharedStore_Bind d with
  | some (_, _, _, tr) => disciplined tr | none => false) srcs)
-- the guards bite: `s.data[key]` without the lock is stuck; so is a key the world does not know
def getNoLock : Func := { SharedStore_Get with body := B[
  (.define ["val", "ok"] E[(.index (.sel (.var "s") "data") (.var "key"))]),
  (.ret E[(.var "val"), (.var "ok")])] }
#eval count (all3 (fun c s d => (runStoreBind c s "k" FI F getNoLock SharedStore_Bind d).isNone) srcs)
#eval count (all3 (fun c s d => (observe (nested (bindWorld c s "other" SharedStore_Get FI) F SharedStore_Bind [sH, .str "k", destH d] []
  ({ dest := d } : BW Ty Va By Er))).isNone) srcs)

-- the model never panics, so no `Bind` run is stuck (the guard order, on the source)
#eval count (all3 (fun c v d => (runResultBind c F Result_Bind v d).isSome) values)
#eval count (all3 (fun c s d => (runStoreBind c s "k" FI F SharedStore_Get SharedStore_Bind d).isSome) srcs)
-- … and the guards matter: with the destination check removed, `Bind` on a bad destination IS stuck (panics in reflect)
def bindNoGuard : Func := { Result_Bind with body := match Result_Bind.body with
  | .cons s0 (.cons s1 (.cons _ rest)) => .cons s0 (.cons s1 rest)
  | b => b }
#eval count (codecs.flatMap fun c => [Dest.untypedNil, .nonPointer "User", .nilPointer "User"].map fun d =>
  (runResultBind c F bindNoGuard (some ("User", 7)) d).isNone)
#eval count (codecs.map fun c => (runResultBind c F bindNoGuard (some ("User", 7)) (.ptr "User" ("User", 0))).isSome)

-- non-vacuity: every outcome occurs among the samples (0 stuck, 1 nil, 2 framework error, 3 wrapped marshal error, 4 wrapped unmarshal
-- error, 5 `MustBind` returned, 6 anything else)
def classOf (o : Option (Obs Ty Va By Er)) : Nat :=
  match o with
  | none => 0
  | some ([.nil], _) => 1
  | some ([.err (.fw _)], _) => 2
  | some ([.err (.user 0)], _) => 3
  | some ([.err (.user 1)], _) => 4
  | some ([], _) => 5
  | _ => 6
def hist (l : List Nat) : List Nat := (List.range 7).map fun k => (l.filter (· == k)).length
#eval count [hist (codecs.flatMap fun c => values.flatMap fun v => dests.map fun d => classOf (runResultBind c F Result_Bind v d))
  == [0, 29, 116, 21, 14, 0, 0]]
#eval count [hist (codecs.flatMap fun c => srcs.flatMap fun s => dests.map fun d => classOf (runStoreBind c s "k" FI F SharedStore_Get SharedStore_Bind d))
  == [0, 35, 136, 25, 20, 0, 0]]
#eval count [hist (codecs.flatMap fun c => srcs.flatMap fun s => dests.map fun d =>
  classOf (runStoreMust c s "k" FI F SharedStore_Get SharedStore_Bind SharedStore_MustBind d)) == [181, 0, 0, 0, 0, 35, 0]]
-- the destination is written on the identity path, on the JSON path, and by a FAILING decode
#eval count [runResultBind exCodec F Result_Bind (some ("User", 7)) (.ptr "User" ("User", 0)) == some ([.nil], .ptr "User" ("User", 7), none, []),
  runResultBind exCodec F Result_Bind (some ("chan", 3)) (.ptr "chan" ("chan", 0)) == some ([.nil], .ptr "chan" ("chan", 3), none, []),
  runResultBind exCodec F Result_Bind (some ("User", 7)) (.ptr "Other" ("Other", 0)) ==
    some ([.nil], .ptr "Other" ("Other", 7), none, [.json (.marshal (some ("User", 7))), .json (.unmarshal 7 (.ptr "Other" ("Other", 0)))]),
  runResultBind exCodec F Result_Bind (some ("User", 7)) (.ptr "bool" ("bool", 5)) ==
    some ([.err (.user 1)], .ptr "bool" ("bool", 6), some "type mismatch",
      [.json (.marshal (some ("User", 7))), .json (.unmarshal 7 (.ptr "bool" ("bool", 5)))]),
  runResultBind exCodec F Result_Bind (some ("chan", 3)) (.ptr "User" ("User", 0)) ==
    some ([.err (.user 0)], .ptr "User" ("User", 0), some "unsupported type", [.json (.marshal (some ("chan", 3)))]),
  runStoreBind exCodec (some none) "k" FI F SharedStore_Get SharedStore_Bind (.ptr "User" ("User", 5)) ==
    some ([.nil], .ptr "User" ("User", 0), none, critR ++ [.json (.marshal none), .json (.unmarshal 0 (.ptr "User" ("User", 5)))])]

-- the recursion depths of the theorems (`Refine/BindR.lean`): the statements hold at the bounds, and the bounds of the `Bind`s are the
-- least at which no sample run is cut short
def least (ok : Nat → Bool) : Nat := ((List.range 60).find? ok).getD 999
#eval count [least (fun f => count (all3 (fun c v d => obsEq (runResultBind c f Result_Bind v d) (encBind [] (resultBind c v d))) values) == 0) == 17,
  least (fun f => count (all3 (fun c s d => obsEq (runStoreBind c s "k" f 40 SharedStore_Get SharedStore_Bind d) (encBind critR (storeBind c (st s) () d).1)) srcs) == 0) == 8,
  least (fun f => count (all3 (fun c s d => obsEq (runStoreBind c s "k" 40 f SharedStore_Get SharedStore_Bind d) (encBind critR (storeBind c (st s) () d).1)) srcs) == 0) == 18]
#eval count (all3 (fun c v d => obsEq (runResultBind c 17 Result_Bind v d) (encBind [] (resultBind c v d))) values)
#eval count (all3 (fun c s d => obsEq (runStoreBind c s "k" 8 18 SharedStore_Get SharedStore_Bind d) (encBind critR (storeBind c (st s) () d).1)) srcs)
#eval count (all3 (fun c v d => obsEq (runResultMust c 17 10 Result_Bind Result_MustBind v d)
  (encMust ((callsOf (resultBind c v d)).map .json) (resultMustBind c v d))) values)
#eval count (all3 (fun c s d => obsEq (runStoreMust c s "k" 18 10 SharedStore_Get SharedStore_Bind SharedStore_MustBind d)
  (encMust (critR ++ (callsOf (storeBind c (st s) () d).1).map .json) (storeMustBind c (st s) () d).1)) srcs)

end BindTest
