import FlytModel.GoIR.Gen
import FlytModel.Generated.IR
/-!
# Model-level search: the interpreter on the REGENERATED IR against the verified model

`lake env lean --run FlytModel/GoIR/Diff.lean <count>` — for each translated function that has a world, run `count`
generated scenarios through `interp (Generated.IR.f)` and through the hand-written model and print, as one JSON line
per function, how many disagree and the first disagreeing scenario. Used by `check` when a `Tie.*` obligation breaks
(the source of `f` changed): a disagreement is a concrete input on which the CURRENT source, as the interpreter reads
it, behaves differently from the model the property theorems are about.
-/
open Flyt Flyt.GoIR Flyt.GoIR.Gen

def jstr (s : String) : String := "\"" ++ (((s.replace "\\" "\\\\").replace "\"" "\\\"").replace "\n" " ") ++ "\""

def firstBad (n : Nat) (ok : Nat → Bool) : Nat × Option Nat :=
  (List.range n).foldl (fun (acc : Nat × Option Nat) i =>
    let seed := i * 7919 + 13
    if ok seed then acc else (acc.1 + 1, acc.2 <|> some seed)) (0, none)

def describeLeaf (f : Func) (seed : Nat) : String :=
  let (cfg, scr, ctx) := scenario seed
  let kind := if seed % 2 == 0 then CtxKind.canceled else .deadline
  let execs := (List.range 4).map fun k => (reprStr (scr.exec k).res, (scr.exec k).cancels)
  s!"cfg={reprStr cfg} ctx={reprStr ctx} prep={reprStr scr.prep.res} execs={reprStr execs} fb={reprStr scr.fb.res} post={reprStr scr.post.res} MODEL={reprStr (runLeaf kind 3 1 8 cfg scr ctx)} SOURCE={reprStr (runLeafIR 400 f kind 3 1 8 cfg scr ctx)}"

def describeItem (f : Func) (seed : Nat) : String :=
  let (cfg, scr, ctx, item) := bscenario seed
  let execs := (List.range 4).map fun k => (reprStr (scr.exec k).res, (scr.exec k).cancels)
  s!"cfg={reprStr cfg} ctx={reprStr ctx} item={reprStr item} execs={reprStr execs} fb={reprStr scr.fb.res} MODEL={reprStr (runItem .canceled 3 1 cfg 2 item scr ctx)} SOURCE={reprStr (runItemIR 400 f .canceled 3 1 cfg 2 item scr ctx)}"

def describeSeq (f : Func) (seed : Nat) : String :=
  let (cfg, scr, ctx, items) := seqScenario seed
  s!"cfg={reprStr cfg} ctx={reprStr ctx} items={items.length} MODEL={reprStr (itemsSeq .canceled 3 1 cfg scr items 0 ctx)} SOURCE={reprStr (itemsSeqIR 400 f .canceled 3 1 cfg scr idxOfTok items ctx)}"

def describeFlow (f : Func) (seed : Nat) : String :=
  let (env, ops, start) := flowEnv seed
  let st : RunSt := { ctx := if pick (lcg (seed + 9)) 10 == 0 then .done .canceled else .live, visits := fun _ => 0 }
  let show3 (r : List Ev × RunSt × Outcome) : String := s!"({reprStr r.1}, {reprStr r.2.1.ctx}, {reprStr r.2.2})"
  let m := match start with | some s => show3 (flowLoop env 30 (buildTable ops) s 5 st) | none => "no start node"
  s!"start={reprStr start} ops={reprStr ops} MODEL={m} SOURCE={((flowExecIR 400 f env 9 start ops 30 5 st).map show3).getD "stuck"}"

def report (name : String) (n : Nat) (ok : Nat → Bool) (describe : Nat → String) : IO Unit := do
  let (bad, first) := firstBad n ok
  let d := match first with | some s => s!", \"first_seed\": {s}, \"first\": {jstr (describe s)}" | none => ""
  IO.println s!"\{\"function\": {jstr name}, \"scenarios\": {n}, \"disagreements\": {bad}{d}}"

def main (args : List String) : IO Unit := do
  let n := (args.head?.bind String.toNat?).getD 4000
  report "Run" n (agree Flyt.Generated.IR.Run) (describeLeaf Flyt.Generated.IR.Run)
  report "runExecWithRetries" n (bagree Flyt.Generated.IR.runExecWithRetries) (describeItem Flyt.Generated.IR.runExecWithRetries)
  report "runBatchSequential" n (sagree Flyt.Generated.IR.runBatchSequential) (describeSeq Flyt.Generated.IR.runBatchSequential)
  report "runBatch" n (batchAgree Flyt.Generated.IR.runBatch) (fun s => let (cfg, scr, ctx) := batchScenario s; s!"cfg={reprStr cfg} ctx={reprStr ctx} prep={reprStr scr.prep.res} MODEL={reprStr (Flyt.runBatch .canceled 3 1 8 cfg scr ctx)} SOURCE={reprStr (runBatchIR 400 Flyt.Generated.IR.runBatch .canceled 3 1 8 cfg scr ctx)}")
  report "runBatchConcurrent" n (cagree Flyt.Generated.IR.runBatchConcurrent) (fun s => let (cfg, scr, ctx, items) := seqScenario s; let cfg := { cfg with conc := 1 + s % 3 }; s!"cfg={reprStr cfg} ctx={reprStr ctx} items={items.length} MODEL(serial schedule)={reprStr (itemsSerialPool .canceled 3 1 cfg scr items 0 false ctx)} SOURCE={reprStr (itemsConcSerialIR 400 Flyt.Generated.IR.runBatchConcurrent .canceled 3 1 cfg scr idxOfTok items ctx)}")
  report "Flow.Exec" n (fun s => (fagree Flyt.Generated.IR.Flow_Exec s).getD true) (describeFlow Flyt.Generated.IR.Flow_Exec)
