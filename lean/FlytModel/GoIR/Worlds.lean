import FlytModel.Model.Flow
import FlytModel.GoIR.Interp
/-!
# Worlds: the non-Go part of the semantics, per kind of node

A world fixes what the interpreter cannot know from the source: what the user's callbacks do (the script, exactly as
in the hand-written model), what the node's dynamic type offers (`RetryableNode`, `FallbackNode`, batch marker
types), what `ctx.Err()` reports, which case of a `select` fires. Every callback *records what it is actually
handed* (store handle, payload, error, duration): the refinement theorems compare these recordings with the
model's events, so data threading is part of what is proved about the translated source.
-/
namespace Flyt.GoIR

def ctxH : GV := .ref "ctx" 0
def storeH (sid : StoreId) : GV := .ref "store" sid

def ctxErrGV : Ctx → GV
  | .live => .nil
  | .done k => .err (.ctx k)

/-- outcome of `Run` read off its two return values -/
def outcomeOf : List GV → Option Outcome
  | [.str a, .nil] => some (.ok a)
  | [.str a, .err e] => if a == "" then some (.err e) else some (.both a e)
  | _ => none

/-! ### a plain / function-style node (`runLeaf`) -/

structure LeafW where
  evs : List Ev
  ctx : Ctx
  execCalls : Nat
  deriving Repr

def storeIdOf : GV → Option StoreId
  | .ref k s => if k == "store" then some s else none
  | _ => none

def leafWorld (kind : CtxKind) (n : NodeId) (v : Nat) (cfg : LeafCfg) (scr : LeafScript) : World LeafW where
  call fn args h w :=
    match fn, args with
    | "time.After", [.int d] => some ([.ref "timer" d.toNat], h, w)
    | _, _ => none
  mcall recv m args h w :=
    match recv with
    | .ref "ctx" _ =>
      if m == "Err" then some ([ctxErrGV w.ctx], h, w)
      else if m == "Done" then some ([.ref "done" 0], h, w)
      else none
    | .node _ =>
      if m == "GetMaxRetries" then some ([.int cfg.budget], h, w)
      else if m == "GetWait" then some ([.int cfg.wait], h, w)
      else if m == "Prep" then
        match args with
        | [_, sh] =>
          (match cfg.prepS with
           | .absent => some ([.nil, .nil], h, w)
           | s =>
             match storeIdOf sh with
             | none => none
             | some sid =>
               let w' := { w with evs := w.evs ++ [.prep n v sid], ctx := w.ctx.after kind scr.prep.cancels }
               match scr.prep.res with
               | .ok x => some ([GV.ofVal (prepRet s x), .nil], h, w')
               | .error e => some ([.nil, .err (.user e)], h, w'))
        | _ => none
      else if m == "Exec" then
        match args with
        | [_, pv] =>
          (match cfg.execS with
           | .absent => some ([.nil, .nil], h, w)
           | s =>
             let k := w.execCalls
             let o := scr.exec k
             let w' := { w with evs := w.evs ++ [.exec n v k (execArg s pv.toVal)], ctx := w.ctx.after kind o.cancels,
                                execCalls := k + 1 }
             match o.res with
             | .ok x => some ([GV.ofVal (execRet s x), .nil], h, w')
             | .error e => some ([.nil, .err (.user e)], h, w'))
        | _ => none
      else if m == "ExecFallback" then
        match args with
        | [pv, .err e] =>
          (match cfg.fb with
           | .absent => none
           | .passThrough => some ([.nil, .err e], h, w)
           | .custom =>
             let w' := { w with evs := w.evs ++ [.fb n v pv.toVal e], ctx := w.ctx.after kind scr.fb.cancels }
             match scr.fb.res with
             | .ok x => some ([GV.ofVal x, .nil], h, w')
             | .error e' => some ([.nil, .err (.user e')], h, w'))
        | _ => none
      else if m == "Post" then
        match args with
        | [_, sh, pv, ev] =>
          (match cfg.postS with
           | .absent => some ([.str defaultAction, .nil], h, w)
           | s =>
             match storeIdOf sh with
             | none => none
             | some sid =>
               let pa := postArgs s pv.toVal ev.toVal
               let w' := { w with evs := w.evs ++ [.post n v sid pa.1 pa.2], ctx := w.ctx.after kind scr.post.cancels }
               match scr.post.res with
               | .ok a => some ([.str a, .nil], h, w')
               | .error e => some ([.str (scr.post.junk.getD ""), .err (.user e)], h, w'))
        | _ => none
      else none
    | _ => none
  assert x ty _ :=
    match x with
    | .node _ =>
      if ty == "RetryableNode" then some (x, cfg.retryable)
      else if ty == "FallbackNode" then some (x, cfg.fb != .absent)
      else if ty == "*BatchNode" ∨ ty == "*BatchNodeBuilder" then some (.nil, false)
      else none
    | _ => none
  field _ _ _ := none
  mapIndex _ _ _ := none
  select chans w :=
    match chans with
    | [.ref "timer" d, .ref "done" _] =>
      (match w.ctx with
       | .done _ => some (1, w)
       | .live =>
         let k := w.execCalls
         if scr.waitCancel k then
           some (1, { w with evs := w.evs ++ [.wait n v k d false], ctx := .done kind })
         else some (0, { w with evs := w.evs ++ [.wait n v k d true] }))
    | _ => none
  global x := if x == "DefaultAction" then some (.str defaultAction) else none

/-- `Run(ctx, node, shared)` of the translated source on a leaf node, as (events, context afterwards, outcome) -/
def runLeafIR (fuel : Nat) (f : Func) (kind : CtxKind) (n : NodeId) (v : Nat) (sid : StoreId) (cfg : LeafCfg)
    (scr : LeafScript) (ctx : Ctx) : Option (List Ev × Ctx × Outcome) :=
  match callFunc (leafWorld kind n v cfg scr) fuel f [ctxH, .node n, storeH sid] [] ⟨[], ctx, 0⟩ with
  | some (rs, _, w) => (outcomeOf rs).map fun o => (w.evs, w.ctx, o)
  | none => none

/-! ### one item of a batch (`runExecWithRetries` vs `runItem`) -/

/-- a batch node is a `*BatchNode`: always a `RetryableNode` and a `FallbackNode` (through the embedded `CustomNode`) -/
def itemWorld (kind : CtxKind) (n : NodeId) (v : Nat) (cfg : BatchCfg) (i : Nat) (scr : ItemScript) : World LeafW where
  call fn args h w :=
    match fn, args with
    | "time.After", [.int d] => some ([.ref "timer" d.toNat], h, w)
    | _, _ => none
  mcall recv m args h w :=
    match recv with
    | .ref "ctx" _ =>
      if m == "Err" then some ([ctxErrGV w.ctx], h, w)
      else if m == "Done" then some ([.ref "done" 0], h, w)
      else none
    | .node _ =>
      if m == "GetMaxRetries" then some ([.int cfg.budget], h, w)
      else if m == "GetWait" then some ([.int cfg.wait], h, w)
      else if m == "Exec" then
        match args with
        | [_, it] =>
          (match cfg.execS with
           | .absent => some ([.nil, .nil], h, w)
           | s =>
             let k := w.execCalls
             let o := scr.exec k
             let w' := { w with evs := w.evs ++ [.bexec n v i k (execArg s it.toVal)], ctx := w.ctx.after kind o.cancels,
                                execCalls := k + 1 }
             match o.res with
             | .ok x => some ([GV.ofVal (execRet s x), .nil], h, w')
             | .error e => some ([.nil, .err (.user e)], h, w'))
        | _ => none
      else if m == "ExecFallback" then
        match args with
        | [it, .err e] =>
          (match cfg.fb with
           | .absent => none
           | .passThrough => some ([.nil, .err e], h, w)
           | .custom =>
             let w' := { w with evs := w.evs ++ [.bfb n v i it.toVal e], ctx := w.ctx.after kind scr.fb.cancels }
             match scr.fb.res with
             | .ok x => some ([GV.ofVal x, .nil], h, w')
             | .error e' => some ([.nil, .err (.user e')], h, w'))
        | _ => none
      else none
    | _ => none
  assert x ty _ :=
    match x with
    | .node _ =>
      if ty == "RetryableNode" then some (x, true)
      else if ty == "FallbackNode" then some (x, cfg.fb != .absent)
      else none
    | _ => none
  field _ _ _ := none
  mapIndex _ _ _ := none
  select chans w :=
    match chans with
    | [.ref "timer" d, .ref "done" _] =>
      (match w.ctx with
       | .done _ => some (1, w)
       | .live =>
         let k := w.execCalls
         if scr.waitCancel k then
           some (1, { w with evs := w.evs ++ [.bwait n v i k d false], ctx := .done kind })
         else some (0, { w with evs := w.evs ++ [.bwait n v i k d true] }))
    | _ => none
  global _ := none

/-- what `runBatchSequential` / the concurrent task makes of `runExecWithRetries`'s two return values -/
def itemResOf : List GV → Option ItemRes
  | [x, .nil] => some (.slot (slotOfVal x.toVal))
  | [_, .err e] => some (.error e)
  | _ => none

def runItemIR (fuel : Nat) (f : Func) (kind : CtxKind) (n : NodeId) (v : Nat) (cfg : BatchCfg) (i : Nat) (item : Result)
    (scr : ItemScript) (ctx : Ctx) : Option (List Ev × Ctx × ItemRes) :=
  match callFunc (itemWorld kind n v cfg i scr) fuel f [ctxH, .node n, .result item] [] ⟨[], ctx, 0⟩ with
  | some (rs, _, w) => (itemResOf rs).map fun o => (w.evs, w.ctx, o)
  | none => none

end Flyt.GoIR
