import FlytModel.Model.Flow
import FlytModel.GoIR.Interp
/-!
# Worlds: the non-Go part of the semantics, per kind of node

A world fixes what the interpreter cannot know from the source: what the user's callbacks do (the script, exactly as
in the hand-written model), what the node's dynamic type offers (`RetryableNode`, `FallbackNode`, batch marker
types), what `ctx.Err()` reports, which case of a `select` fires. Every callback *records what it is actually
handed* (store handle, payload, error, duration): the refinement theorems compare these recordings with the
model's events, so data threading is part of what is proved about the translated source.
-/
namespace Flyt.GoIR

def ctxH : GV := .ref "ctx" 0
def storeH (sid : StoreId) : GV := .ref "store" sid

def ctxErrGV : Ctx → GV
  | .live => .nil
  | .done k => .err (.ctx k)

/-- outcome of `Run` read off its two return values -/
def outcomeOf : List GV → Option Outcome
  | [.str a, .nil] => some (.ok a)
  | [.str a, .err e] => if a == "" then some (.err e) else some (.both a e)
  | _ => none

/-! ### a plain / function-style node (`runLeaf`) -/

structure LeafW where
  evs : List Ev
  ctx : Ctx
  execCalls : Nat
  deriving Repr

def storeIdOf : GV → Option StoreId
  | .ref k s => if k == "store" then some s else none
  | _ => none

def leafWorld (kind : CtxKind) (n : NodeId) (v : Nat) (cfg : LeafCfg) (scr : LeafScript) : World LeafW where
  call fn args h w :=
    match fn, args with
    | "time.After", [.int d] => some ([.ref "timer" d.toNat], h, w)
    | _, _ => none
  mcall recv m args h w :=
    match recv with
    | .ref "ctx" _ =>
      if m == "Err" then some ([ctxErrGV w.ctx], h, w)
      else if m == "Done" then some ([.ref "done" 0], h, w)
      else none
    | .node _ =>
      if m == "GetMaxRetries" then some ([.int cfg.budget], h, w)
      else if m == "GetWait" then some ([.int cfg.wait], h, w)
      else if m == "Prep" then
        match args with
        | [_, sh] =>
          (match cfg.prepS with
           | .absent => some ([.nil, .nil], h, w)
           | s =>
             match storeIdOf sh with
             | none => none
             | some sid =>
               let w' := { w with evs := w.evs ++ [.prep n v sid], ctx := w.ctx.after kind scr.prep.cancels }
               match scr.prep.res with
               | .ok x => some ([GV.ofVal (prepRet s x), .nil], h, w')
               | .error e => some ([.nil, .err (.user e)], h, w'))
        | _ => none
      else if m == "Exec" then
        match args with
        | [_, pv] =>
          (match cfg.execS with
           | .absent => some ([.nil, .nil], h, w)
           | s =>
             let k := w.execCalls
             let o := scr.exec k
             let w' := { w with evs := w.evs ++ [.exec n v k (execArg s pv.toVal)], ctx := w.ctx.after kind o.cancels,
                                execCalls := k + 1 }
             match o.res with
             | .ok x => some ([GV.ofVal (execRet s x), .nil], h, w')
             | .error e => some ([.nil, .err (.user e)], h, w'))
        | _ => none
      else if m == "ExecFallback" then
        match args with
        | [pv, .err e] =>
          (match cfg.fb with
           | .absent => none
           | .passThrough => some ([.nil, .err e], h, w)
           | .custom =>
             let w' := { w with evs := w.evs ++ [.fb n v pv.toVal e], ctx := w.ctx.after kind scr.fb.cancels }
             match scr.fb.res with
             | .ok x => some ([GV.ofVal x, .nil], h, w')
             | .error e' => some ([.nil, .err (.user e')], h, w'))
        | _ => none
      else if m == "Post" then
        match args with
        | [_, sh, pv, ev] =>
          (match cfg.postS with
           | .absent => some ([.str defaultAction, .nil], h, w)
           | s =>
             match storeIdOf sh with
             | none => none
             | some sid =>
               let pa := postArgs s pv.toVal ev.toVal
               let w' := { w with evs := w.evs ++ [.post n v sid pa.1 pa.2], ctx := w.ctx.after kind scr.post.cancels }
               match scr.post.res with
               | .ok a => some ([.str a, .nil], h, w')
               | .error e => some ([.str (scr.post.junk.getD ""), .err (.user e)], h, w'))
        | _ => none
      else none
    | _ => none
  assert x ty _ :=
    match x with
    | .node _ =>
      if ty == "RetryableNode" then some (x, cfg.retryable)
      else if ty == "FallbackNode" then some (x, cfg.fb != .absent)
      else if ty == "*BatchNode" ∨ ty == "*BatchNodeBuilder" then some (.nil, false)
      else none
    | _ => none
  field _ _ _ := none
  mapIndex _ _ _ := none
  select chans w :=
    match chans with
    | [.ref "timer" d, .ref "done" _] =>
      (match w.ctx with
       | .done _ => some (1, w)
       | .live =>
         let k := w.execCalls
         if scr.waitCancel k then
           some (1, { w with evs := w.evs ++ [.wait n v k d false], ctx := .done kind })
         else some (0, { w with evs := w.evs ++ [.wait n v k d true] }))
    | _ => none
  global x := if x == "DefaultAction" then some (.str defaultAction) else none

/-- `Run(ctx, node, shared)` of the translated source on a leaf node, as (events, context afterwards, outcome) -/
def runLeafIR (fuel : Nat) (f : Func) (kind : CtxKind) (n : NodeId) (v : Nat) (sid : StoreId) (cfg : LeafCfg)
    (scr : LeafScript) (ctx : Ctx) : Option (List Ev × Ctx × Outcome) :=
  match callFunc (leafWorld kind n v cfg scr) fuel f [ctxH, .node n, storeH sid] [] ⟨[], ctx, 0⟩ with
  | some (rs, _, w) => (outcomeOf rs).map fun o => (w.evs, w.ctx, o)
  | none => none

/-! ### one item of a batch (`runExecWithRetries` vs `runItem`) -/

/-- a batch node is a `*BatchNode`: always a `RetryableNode` and a `FallbackNode` (through the embedded `CustomNode`) -/
def itemWorld (kind : CtxKind) (n : NodeId) (v : Nat) (cfg : BatchCfg) (i : Nat) (scr : ItemScript) : World LeafW where
  call fn args h w :=
    match fn, args with
    | "time.After", [.int d] => some ([.ref "timer" d.toNat], h, w)
    | _, _ => none
  mcall recv m args h w :=
    match recv with
    | .ref "ctx" _ =>
      if m == "Err" then some ([ctxErrGV w.ctx], h, w)
      else if m == "Done" then some ([.ref "done" 0], h, w)
      else none
    | .node _ =>
      if m == "GetMaxRetries" then some ([.int cfg.budget], h, w)
      else if m == "GetWait" then some ([.int cfg.wait], h, w)
      else if m == "Exec" then
        match args with
        | [_, it] =>
          (match cfg.execS with
           | .absent => some ([.nil, .nil], h, w)
           | s =>
             let k := w.execCalls
             let o := scr.exec k
             let w' := { w with evs := w.evs ++ [.bexec n v i k (execArg s it.toVal)], ctx := w.ctx.after kind o.cancels,
                                execCalls := k + 1 }
             match o.res with
             | .ok x => some ([GV.ofVal (execRet s x), .nil], h, w')
             | .error e => some ([.nil, .err (.user e)], h, w'))
        | _ => none
      else if m == "ExecFallback" then
        match args with
        | [it, .err e] =>
          (match cfg.fb with
           | .absent => none
           | .passThrough => some ([.nil, .err e], h, w)
           | .custom =>
             let w' := { w with evs := w.evs ++ [.bfb n v i it.toVal e], ctx := w.ctx.after kind scr.fb.cancels }
             match scr.fb.res with
             | .ok x => some ([GV.ofVal x, .nil], h, w')
             | .error e' => some ([.nil, .err (.user e')], h, w'))
        | _ => none
      else none
    | _ => none
  assert x ty _ :=
    match x with
    | .node _ =>
      if ty == "RetryableNode" then some (x, true)
      else if ty == "FallbackNode" then some (x, cfg.fb != .absent)
      else none
    | _ => none
  field _ _ _ := none
  mapIndex _ _ _ := none
  select chans w :=
    match chans with
    | [.ref "timer" d, .ref "done" _] =>
      (match w.ctx with
       | .done _ => some (1, w)
       | .live =>
         let k := w.execCalls
         if scr.waitCancel k then
           some (1, { w with evs := w.evs ++ [.bwait n v i k d false], ctx := .done kind })
         else some (0, { w with evs := w.evs ++ [.bwait n v i k d true] }))
    | _ => none
  global _ := none

/-- what `runBatchSequential` / the concurrent task makes of `runExecWithRetries`'s two return values -/
def itemResOf : List GV → Option ItemRes
  | [x, .nil] => some (.slot (slotOfVal x.toVal))
  | [_, .err e] => some (.error e)
  | _ => none

def runItemIR (fuel : Nat) (f : Func) (kind : CtxKind) (n : NodeId) (v : Nat) (cfg : BatchCfg) (i : Nat) (item : Result)
    (scr : ItemScript) (ctx : Ctx) : Option (List Ev × Ctx × ItemRes) :=
  match callFunc (itemWorld kind n v cfg i scr) fuel f [ctxH, .node n, .result item] [] ⟨[], ctx, 0⟩ with
  | some (rs, _, w) => (itemResOf rs).map fun o => (w.evs, w.ctx, o)
  | none => none

/-! ### `runBatchSequential` vs `itemsSeq`; `markUnprocessed` -/

/-- `runExecWithRetries` before the caller's conversion of its value into a slot -/
def runItemRaw (kind : CtxKind) (n : NodeId) (v : Nat) (cfg : BatchCfg) (i : Nat) (item : Result)
    (scr : ItemScript) (ctx : Ctx) : List Ev × Ctx × Except ErrRoot Val :=
  let (aev, ctx1, ares) :=
    attempts kind (fun k => .bexec n v i k (execArg cfg.execS item.box)) (fun k f => .bwait n v i k cfg.wait f)
      scr.exec scr.waitCancel cfg.execS cfg.wait 0 cfg.budget none ctx
  let (fev, ctx2, eres) := fallbackPhase kind cfg.fb (fun e => .bfb n v i item.box (.user e)) scr.fb ctx1 ares
  (aev ++ fev, ctx2, eres)

theorem runItem_eq_raw (kind : CtxKind) (n : NodeId) (v : Nat) (cfg : BatchCfg) (i : Nat) (item : Result)
    (scr : ItemScript) (ctx : Ctx) :
    runItem kind n v cfg i item scr ctx =
      (let r := runItemRaw kind n v cfg i item scr ctx
       (r.1, r.2.1, match r.2.2 with | .ok x => .slot (slotOfVal x) | .error e => .error e)) := by
  unfold runItem runItemRaw
  cases h1 : attempts kind (fun k => .bexec n v i k (execArg cfg.execS item.box)) (fun k f => .bwait n v i k cfg.wait f)
      scr.exec scr.waitCancel cfg.execS cfg.wait 0 cfg.budget none ctx with
  | mk aev r1 =>
    cases r1 with
    | mk ctx1 ares =>
      cases h2 : fallbackPhase kind cfg.fb (fun e => .bfb n v i item.box (.user e)) scr.fb ctx1 ares with
      | mk fev r2 =>
        cases r2 with
        | mk ctx2 eres => cases eres <;> simp [h2]

structure SeqW where
  evs : List Ev
  ctx : Ctx
  deriving Repr

/-- write `r` into every cell of the window -/
def fillWindow (h : Heap) (a off n : Nat) (r : Result) : Heap :=
  match h[a]? with
  | some cell => h.set a (cell.take off ++ List.replicate (min n (cell.length - off)) r ++ cell.drop (off + n))
  | none => h

/-- what `markUnprocessed(results, reason)` does to the heap -/
def markUnprocessedSem (h : Heap) (a off n : Nat) (reason : String) : Heap :=
  fillWindow h a off n (newErrorResult (.fw (fwTagOf reason)))

/-- world of `runBatchSequential`: `runExecWithRetries` is the model's `runItemRaw` (justified by the refinement
    theorem of that function), the item's index is recovered from the item itself (`idxOf`). -/
def seqWorld (kind : CtxKind) (n : NodeId) (v : Nat) (cfg : BatchCfg) (scr : BatchScript) (idxOf : Result → Nat) :
    World SeqW where
  call fn args h w :=
    match fn, args with
    | "runExecWithRetries", [_, _, .result item] =>
      let i := idxOf item
      let r := runItemRaw kind n v cfg i item (scr.item i) w.ctx
      let w' : SeqW := { evs := w.evs ++ r.1, ctx := r.2.1 }
      (match r.2.2 with
       | .ok x => some ([GV.ofVal x, .nil], h, w')
       | .error e => some ([.nil, .err e], h, w'))
    | "markUnprocessed", [.slice a off len, .str reason] => some ([], markUnprocessedSem h a off len reason, w)
    | _, _ => none
  mcall recv m _ h w :=
    match recv with
    | .ref "ctx" _ => if m == "Err" then some ([ctxErrGV w.ctx], h, w) else none
    | _ => none
  assert x ty _ :=
    if ty == "Result" then
      match x with
      | .result _ => some (x, true)
      | .val _ => some (.nil, false)
      | .nil => some (.nil, false)
      | _ => none
    else none
  field _ _ _ := none
  mapIndex _ _ _ := none
  select _ _ := none
  global _ := none

/-- run the translated `runBatchSequential` on fresh `items` / `results` arrays: (events, context, final slots) -/
def itemsSeqIR (fuel : Nat) (f : Func) (kind : CtxKind) (n : NodeId) (v : Nat) (cfg : BatchCfg) (scr : BatchScript)
    (idxOf : Result → Nat) (items : List Result) (ctx : Ctx) : Option (List Ev × Ctx × List Result) :=
  let heap : Heap := [items, List.replicate items.length ⟨Val.nil, none⟩]
  match callFunc (seqWorld kind n v cfg scr idxOf) fuel f
      [ctxH, .node n, .slice 0 0 items.length, .slice 1 0 items.length, .str (if cfg.stop then "stop" else "continue")]
      heap ⟨[], ctx⟩ with
  | some ([], h, w) => (h[1]?).map fun slots => (w.evs, w.ctx, slots)
  | _ => none

/-! ### `Flow.Exec` vs `flowLoop` -/

structure FlowW where
  evs : List Ev
  st : RunSt
  mfuel : Nat        -- fuel of the model's `flowLoop` (ghost: which `runNode env ·` the next `Run` call denotes)

/-- world of `Flow.Exec` for the flow `(start, ops)` in arena `env`: nested `Run` calls are the model's `runNode`
    (whose own refinement is a separate theorem), the transition table is `buildTable ops`. -/
def flowWorld (env : Flyt.Env) (start : Option NodeId) (tbl : Table) : World FlowW where
  call fn args h w :=
    match fn, args with
    | "Run", [_, .node id, sh] =>
      (match storeIdOf sh, w.mfuel with
       | some sid, mf + 1 =>
         let r := runNode env mf id sid w.st
         let w' : FlowW := { evs := w.evs ++ r.1, st := r.2.1, mfuel := mf }
         (match r.2.2 with
          | .ok a => some ([.str a, .nil], h, w')
          | .err e => some ([.str "", .err e], h, w')
          | _ => none)
       | _, _ => none)
    | _, _ => none
  mcall recv m _ h w :=
    match recv with
    | .ref "ctx" _ => if m == "Err" then some ([ctxErrGV w.st.ctx], h, w) else none
    | _ => none
  assert x ty _ :=
    if ty == "*SharedStore" then
      match storeIdOf x with
      | some _ => some (x, true)
      | none => some (.nil, false)
    else none
  field x f _ :=
    match x with
    | .node _ =>
      if f == "start" then (match start with | some s => some (.node s) | none => some .nil)
      else if f == "transitions" then some (.ref "trans" 0)
      else none
    | _ => none
  mapIndex m k _ :=
    match m, k with
    | .ref "trans" _, .node cur =>
      (match assocGet tbl cur with
       | some _ => some (.ref "inner" cur, true)
       | none => some (.nil, false))
    | .ref "inner" cur, .str a =>
      (match (assocGet tbl cur).bind (assocGet · a) with
       | some (some nxt) => some (.node nxt, true)
       | some none => some (.nil, true)
       | none => some (.nil, false))
    | _, _ => none
  select _ _ := none
  global _ := none

/-- outcome of `Flow.Exec` read off its two return values (the action travels as an `any`) -/
def flowOutcomeOf : List GV → Option Outcome
  | [.str a, .nil] => some (.ok a)
  | [.nil, .err e] => some (.err e)
  | _ => none

def flowExecIR (fuel : Nat) (f : Func) (env : Flyt.Env) (fid : NodeId) (start : Option NodeId) (ops : List ConnOp)
    (mfuel : Nat) (sid : StoreId) (st : RunSt) : Option (List Ev × RunSt × Outcome) :=
  match callFunc (flowWorld env start (buildTable ops)) fuel f [.node fid, ctxH, storeH sid] [] ⟨[], st, mfuel⟩ with
  | some (rs, _, w) => (flowOutcomeOf rs).map fun o => (w.evs, w.st, o)
  | none => none

/-! ### `runBatch` vs the model's `runBatch` -/

def readWindow (h : Heap) : GV → Option (List Result)
  | .slice a off n => (h[a]?).map fun cell => (cell.drop off).take n
  | .nil => some []
  | _ => none

/-- overwrite the window `[off, off+n)` of cell `a` with `l` (which has `n` elements) -/
def writeWindow (h : Heap) (a off : Nat) (l : List Result) : Heap :=
  match h[a]? with
  | some cell => h.set a (cell.take off ++ l ++ cell.drop (off + l.length))
  | none => h

/-- world of `runBatch` for a batch node: the user's batch prep / post callbacks, the node's batch settings, and the two
    executors as the model's `itemsSeq` / `itemsSerialPool` (their own refinements are separate theorems). The error-handling
    mode and the concurrency the executors work with are the ones `runBatch` PASSES them. -/
def batchWorld (kind : CtxKind) (n : NodeId) (v : Nat) (cfg : BatchCfg) (scr : BatchScript) : World SeqW where
  call fn args h w :=
    match fn, args with
    | "ToSlice", [_] =>
      (match scr.prep.res with
       | .ok l =>
         (match cfg.shape with
          | .typed => some ([.anys l], h, w)
          | .single => some ([.anys (l.take 1)], h, w)
          | .nilv => some ([.anys []], h, w)
          | _ => none)
       | _ => none)
    | "runBatchSequential", [_, _, its, .slice ra roff rn, .str eh] =>
      (match readWindow h its with
       | some items =>
         let r := itemsSeq kind n v { cfg with stop := eh == "stop" } scr items 0 w.ctx
         if r.2.2.length = rn then some ([], writeWindow h ra roff r.2.2, { evs := w.evs ++ r.1, ctx := r.2.1 }) else none
       | none => none)
    | "runBatchConcurrent", [_, _, its, .slice ra roff rn, .int c, .str eh] =>
      (match readWindow h its with
       | some items =>
         let r := itemsSerialPool kind n v { cfg with stop := eh == "stop", conc := c.toNat } scr items 0 false w.ctx
         if r.2.2.length = rn then some ([], writeWindow h ra roff r.2.2, { evs := w.evs ++ r.1, ctx := r.2.1 }) else none
       | none => none)
    | _, _ => none
  mcall recv m args h w :=
    match recv with
    | .node _ =>
      if m == "GetBatchConcurrency" then some ([.int cfg.conc], h, w)
      else if m == "GetBatchErrorHandling" then some ([.str (if cfg.stop then "stop" else "continue")], h, w)
      else if m == "Prep" then
        match args with
        | [_, sh] =>
          (match storeIdOf sh with
           | none => none
           | some sid =>
             let w' : SeqW := { evs := w.evs ++ [.bprep n v sid], ctx := w.ctx.after kind scr.prep.cancels }
             match scr.prep.res with
             | .error e => some ([.nil, .err (.user e)], h, w')
             | .ok l =>
               match cfg.shape with
               | .results => some ([.slice h.length 0 l.length, .nil], h ++ [l.map toResult], w')
               | .anys => some ([.anys l, .nil], h, w')
               | .typed => some ([.ref "typed" 0, .nil], h, w')
               | .single => some ([.ref "single" 0, .nil], h, w')
               | .nilv => some ([.nil, .nil], h, w'))
        | _ => none
      else if m == "Post" then
        match args with
        | [_, sh, its, res] =>
          if cfg.hasPost then
            match storeIdOf sh, readWindow h its, readWindow h res with
            | some sid, some items, some slots =>
              let w' : SeqW := { evs := w.evs ++ [.bpost n v sid (items.map Result.box) (slots.map Result.box)],
                                 ctx := w.ctx.after kind scr.post.cancels }
              (match scr.post.res with
               | .ok a => some ([.str a, .nil], h, w')
               | .error e => some ([.str (scr.post.junk.getD ""), .err (.user e)], h, w'))
            | _, _, _ => none
          else some ([.str defaultAction, .nil], h, w)
        | _ => none
      else none
    | _ => none
  assert x ty _ :=
    match x with
    | .node _ =>
      if ty == "*BaseNode" ∨ ty == "*CustomNode" then some (.nil, false)
      else if ty == "*BatchNode" then some (x, true)
      else none
    | .slice .. => if ty == "[]Result" then some (x, true) else if ty == "[]any" then some (.nil, false) else none
    | .anys _ => if ty == "[]any" then some (x, true) else if ty == "[]Result" then some (.nil, false) else none
    | .ref _ _ => if ty == "[]any" ∨ ty == "[]Result" then some (.nil, false) else none
    | .nil => if ty == "[]any" ∨ ty == "[]Result" then some (.nil, false) else none
    | _ => none
  field _ _ _ := none
  mapIndex _ _ _ := none
  select _ _ := none
  global x := if x == "DefaultAction" then some (.str defaultAction) else none

def runBatchIR (fuel : Nat) (f : Func) (kind : CtxKind) (n : NodeId) (v : Nat) (sid : StoreId) (cfg : BatchCfg)
    (scr : BatchScript) (ctx : Ctx) : Option (List Ev × Ctx × Outcome) :=
  match callFunc (batchWorld kind n v cfg scr) fuel f [ctxH, .node n, storeH sid] [] ⟨[], ctx⟩ with
  | some (rs, _, w) => (outcomeOf rs).map fun o => (w.evs, w.ctx, o)
  | none => none

/-! ### `Run` on a flow node, and `Run`'s dispatch to `runBatch` -/

/-- world of `Run(ctx, flow, shared)`: `Flow.Prep` hands the store through, `Flow.Exec` is the model's `flowLoop`
    (refinement: `FlowExec_refines_flowLoop`), `Flow.Post` returns the action it is handed (an `Action` travelling as `any`)
    or the default action; a flow built by `NewFlow` embeds a default `BaseNode`: budget 1, no wait, pass-through fallback. -/
def flowNodeWorld (env : Flyt.Env) (start : Option NodeId) (tbl : Table) : World FlowW where
  call _ _ _ _ := none
  mcall recv m args h w :=
    match recv with
    | .ref "ctx" _ => if m == "Err" then some ([ctxErrGV w.st.ctx], h, w) else none
    | .node _ =>
      if m == "GetMaxRetries" then some ([.int 1], h, w)
      else if m == "GetWait" then some ([.int 0], h, w)
      else if m == "Prep" then
        match args with
        | [_, sh] => some ([sh, .nil], h, w)
        | _ => none
      else if m == "Exec" then
        match args with
        | [_, sh] =>
          (match storeIdOf sh, start with
           | some sid, some s =>
             let r := flowLoop env w.mfuel tbl s sid w.st
             let w' : FlowW := { evs := w.evs ++ r.1, st := r.2.1, mfuel := w.mfuel }
             (match r.2.2 with
              | .ok a => some ([.str a, .nil], h, w')
              | .err e => some ([.nil, .err e], h, w')
              | _ => none)
           | some _, none => some ([.nil, .err (.fw .noStart)], h, w)
           | none, _ => none)
        | _ => none
      else if m == "ExecFallback" then
        match args with
        | [_, .err e] => some ([.nil, .err e], h, w)
        | _ => none
      else if m == "Post" then
        match args with
        | [_, _, _, .str a] => some ([.str a, .nil], h, w)
        | [_, _, _, _] => some ([.str defaultAction, .nil], h, w)
        | _ => none
      else none
    | _ => none
  assert x ty _ :=
    match x with
    | .node _ =>
      if ty == "RetryableNode" ∨ ty == "FallbackNode" then some (x, true)
      else if ty == "*BatchNode" ∨ ty == "*BatchNodeBuilder" then some (.nil, false)
      else none
    | _ => none
  field _ _ _ := none
  mapIndex _ _ _ := none
  select _ _ := none
  global x := if x == "DefaultAction" then some (.str defaultAction) else none

def runFlowNodeIR (fuel : Nat) (f : Func) (env : Flyt.Env) (fid : NodeId) (start : Option NodeId) (ops : List ConnOp)
    (mfuel : Nat) (sid : StoreId) (st : RunSt) : Option (List Ev × RunSt × Outcome) :=
  match callFunc (flowNodeWorld env start (buildTable ops)) fuel f [ctxH, .node fid, storeH sid] [] ⟨[], st, mfuel⟩ with
  | some (rs, _, w) => (outcomeOf rs).map fun o => (w.evs, w.st, o)
  | none => none

/-- world of `Run` on a batch node (`viaBuilder`: the node is the `*BatchNodeBuilder` that `NewBatchNode` returns, else the
    bare `*BatchNode`): all it may do is hand over to `runBatch` — the model's `runBatch` (refinement: `runBatch_refines`). -/
def batchDispatchWorld (kind : CtxKind) (n : NodeId) (v : Nat) (cfg : BatchCfg) (scr : BatchScript) (viaBuilder : Bool) :
    World SeqW where
  call fn args h w :=
    match fn, args with
    | "runBatch", [_, nd, sh] =>
      (match storeIdOf sh, (match nd with | .ref "batchnode" _ => true | .node _ => !viaBuilder | _ => false) with
       | some sid, true =>
         let r := Flyt.runBatch kind n v sid cfg scr w.ctx
         let w' : SeqW := { evs := w.evs ++ r.1, ctx := r.2.1 }
         (match r.2.2 with
          | .ok a => some ([.str a, .nil], h, w')
          | .err e => some ([.str "", .err e], h, w')
          | _ => none)
       | _, _ => none)
    | _, _ => none
  mcall _ _ _ _ _ := none
  assert x ty _ :=
    match x with
    | .node i =>
      if ty == "*BatchNode" then (if viaBuilder then some (.nil, false) else some (.ref "batchnode" i, true))
      else if ty == "*BatchNodeBuilder" then (if viaBuilder then some (x, true) else some (.nil, false))
      else none
    | _ => none
  field x f _ :=
    match x with
    | .node i => if f == "BatchNode" then some (.ref "batchnode" i) else none
    | _ => none
  mapIndex _ _ _ := none
  select _ _ := none
  global _ := none

def runBatchNodeIR (fuel : Nat) (f : Func) (kind : CtxKind) (n : NodeId) (v : Nat) (sid : StoreId) (cfg : BatchCfg)
    (scr : BatchScript) (viaBuilder : Bool) (ctx : Ctx) : Option (List Ev × Ctx × Outcome) :=
  match callFunc (batchDispatchWorld kind n v cfg scr viaBuilder) fuel f [ctxH, .node n, storeH sid] [] ⟨[], ctx⟩ with
  | some (rs, _, w) => (outcomeOf rs).map fun o => (w.evs, w.ctx, o)
  | none => none

/-! ### `runBatchConcurrent` on the serial schedule vs `itemsSerialPool` -/

/-- world of `runBatchConcurrent` for the schedule in which every submitted task runs to completion before `Submit`
    returns (legal for every pool size: it is what one worker does when the submitter is slower than the worker). The pool's
    `Submit` invokes the closure at once, `Wait` / deferred `Close` / the mutex are no-ops (nothing else runs), and
    `runExecWithRetries` is the model's `runItemRaw` as in `seqWorld`. Every OTHER schedule of the same closure is the subject of
    the hand-written LTS `Model/BatchConc.lean`; this world ties the closure's own sequential logic to the model. -/
def concSerialWorld (kind : CtxKind) (n : NodeId) (v : Nat) (cfg : BatchCfg) (scr : BatchScript) (idxOf : Result → Nat) :
    World SeqW where
  call fn args h w :=
    match fn, args with
    | "NewWorkerPool", [.int c] => some ([.ref "pool" c.toNat], h, w)
    | _, _ => (seqWorld kind n v cfg scr idxOf).call fn args h w
  mcall recv m args h w :=
    match recv with
    | .ref "pool" _ => if m == "Wait" ∨ m == "defer:Close" then some ([], h, w) else none
    | .ref "mutex" _ => if m == "Lock" ∨ m == "Unlock" then some ([], h, w) else none
    | _ => (seqWorld kind n v cfg scr idxOf).mcall recv m args h w
  assert := (seqWorld kind n v cfg scr idxOf).assert
  field _ _ _ := none
  mapIndex _ _ _ := none
  select _ _ := none
  global _ := none
  invokes r m := match r with | .ref "pool" _ => m == "Submit" | _ => false

def itemsConcSerialIR (fuel : Nat) (f : Func) (kind : CtxKind) (n : NodeId) (v : Nat) (cfg : BatchCfg) (scr : BatchScript)
    (idxOf : Result → Nat) (items : List Result) (ctx : Ctx) : Option (List Ev × Ctx × List Result) :=
  let heap : Heap := [items, List.replicate items.length ⟨Val.nil, none⟩]
  match callFunc (concSerialWorld kind n v cfg scr idxOf) fuel f
      [ctxH, .node n, .slice 0 0 items.length, .slice 1 0 items.length, .int cfg.conc,
       .str (if cfg.stop then "stop" else "continue")] heap ⟨[], ctx⟩ with
  | some ([], h, w) => (h[1]?).map fun slots => (w.evs, w.ctx, slots)
  | _ => none

end Flyt.GoIR
