import FlytModel.GoIR.Worlds
/-!
# Composed worlds for the batch path: a callee is the INTERPRETATION of its translated source, not its model

The worlds of `Worlds.lean` are layered: `seqWorld` gives the call `runExecWithRetries(…)` the meaning of the model's
`runItemRaw`, `batchWorld` gives `runBatchSequential(…)` the meaning of the model's `itemsSeq`, and the callee's own source is
the subject of a separate theorem. The worlds below close these seams: the callee is run by the SAME definitional interpreter
on the callee's translated source, in the callee's own world, and nothing of the callee's model appears.

State packaging at a seam (the only non-Go part of the composition):
* item call (`itemCallIR`): the inner world state is a FRESH `LeafW` recording (`evs = []`, `execCalls = 0`) that starts from
  the caller's context; afterwards the recorded events are appended to the caller's and the inner context becomes the
  caller's. The caller's HEAP is handed in and the callee's heap comes back; the argument values and the return values are
  passed through UNTOUCHED (no normalisation of the returned `any`).
* sequential-executor call (`seqCallIR`): the callee runs on the caller's heap, world state, arguments; everything it returns
  (values, heap, state) is the caller's afterwards.
-/
namespace Flyt.GoIR

/-- the call `runExecWithRetries(args…)` for item `i` as the interpretation of `fItem` (fuel `fi`) in `itemWorld` -/
def itemCallIR (fi : Nat) (fItem : Func) (kind : CtxKind) (n : NodeId) (v : Nat) (cfg : BatchCfg) (i : Nat) (scr : ItemScript)
    (args : List GV) (h : Heap) (w : SeqW) : Option (List GV × Heap × SeqW) :=
  match callFunc (itemWorld kind n v cfg i scr) fi fItem args h ⟨[], w.ctx, 0⟩ with
  | some (rs, h', w') => some (rs, h', { evs := w.evs ++ w'.evs, ctx := w'.ctx })
  | none => none

/-- `seqWorld` with the per-item call `runExecWithRetries(ctx, node, item)` interpreted (source `fItem`, fuel `fi`) instead of
    modelled. Every other entry is `seqWorld`'s. -/
def stackSeqWorld (fi : Nat) (fItem : Func) (kind : CtxKind) (n : NodeId) (v : Nat) (cfg : BatchCfg) (scr : BatchScript)
    (idxOf : Result → Nat) : World SeqW where
  call fn args h w :=
    match fn, args with
    | "runExecWithRetries", [c, nd, .result item] =>
      itemCallIR fi fItem kind n v cfg (idxOf item) (scr.item (idxOf item)) [c, nd, .result item] h w
    | _, _ => (seqWorld kind n v cfg scr idxOf).call fn args h w
  mcall := (seqWorld kind n v cfg scr idxOf).mcall
  assert := (seqWorld kind n v cfg scr idxOf).assert
  field _ _ _ := none
  mapIndex _ _ _ := none
  select _ _ := none
  global _ := none

/-- `itemsSeqIR` over the composed world: the translated `runBatchSequential` (`fSeq`) on fresh arrays, every item through the
    translated `runExecWithRetries` (`fItem`): (events, context, final slots) -/
def stackSeqIR (fuel fi : Nat) (fSeq fItem : Func) (kind : CtxKind) (n : NodeId) (v : Nat) (cfg : BatchCfg) (scr : BatchScript)
    (idxOf : Result → Nat) (items : List Result) (ctx : Ctx) : Option (List Ev × Ctx × List Result) :=
  let heap : Heap := [items, List.replicate items.length ⟨Val.nil, none⟩]
  match callFunc (stackSeqWorld fi fItem kind n v cfg scr idxOf) fuel fSeq
      [ctxH, .node n, .slice 0 0 items.length, .slice 1 0 items.length, .str (if cfg.stop then "stop" else "continue")]
      heap ⟨[], ctx⟩ with
  | some ([], h, w) => (h[1]?).map fun slots => (w.evs, w.ctx, slots)
  | _ => none

/-- `batchWorld` with the call `runBatchSequential(ctx, node, items, results, errorHandling)` interpreted: the translated
    source `fSeq` (fuel `fs`) runs in `stackSeqWorld` — whose item calls are in turn interpreted (`fItem`, fuel `fi`) — on the
    caller's OWN heap, world state and argument values; what it returns (values, heap, state) is the caller's afterwards.
    Every other entry (the user's batch prep / post, the node's settings, `ToSlice`, the concurrent executor) is `batchWorld`'s.
    `idxOf` tells the item world which item of the batch it is handed (as in `seqWorld`). -/
def stackBatchWorld (fs fi : Nat) (fSeq fItem : Func) (kind : CtxKind) (n : NodeId) (v : Nat) (cfg : BatchCfg) (scr : BatchScript)
    (idxOf : Result → Nat) : World SeqW where
  call fn args h w :=
    if fn == "runBatchSequential" then callFunc (stackSeqWorld fi fItem kind n v cfg scr idxOf) fs fSeq args h w
    else (batchWorld kind n v cfg scr).call fn args h w
  mcall := (batchWorld kind n v cfg scr).mcall
  assert := (batchWorld kind n v cfg scr).assert
  field _ _ _ := none
  mapIndex _ _ _ := none
  select _ _ := none
  global := (batchWorld kind n v cfg scr).global

/-- `runBatchIR` over the composed world: `runBatch` → `runBatchSequential` → `runExecWithRetries`, all three interpreted -/
def stackBatchIR (fuel fs fi : Nat) (fBatch fSeq fItem : Func) (kind : CtxKind) (n : NodeId) (v : Nat) (sid : StoreId)
    (cfg : BatchCfg) (scr : BatchScript) (idxOf : Result → Nat) (ctx : Ctx) : Option (List Ev × Ctx × Outcome) :=
  match callFunc (stackBatchWorld fs fi fSeq fItem kind n v cfg scr idxOf) fuel fBatch [ctxH, .node n, storeH sid] [] ⟨[], ctx⟩ with
  | some (rs, _, w) => (outcomeOf rs).map fun o => (w.evs, w.ctx, o)
  | none => none

/-- `concSerialWorld` (the serial schedule of the worker pool) with the per-item call `runExecWithRetries(ctx, node, itm)`
    interpreted (source `fItem`, fuel `fi`) instead of modelled; every other entry is `concSerialWorld`'s. -/
def stackConcSerialWorld (fi : Nat) (fItem : Func) (kind : CtxKind) (n : NodeId) (v : Nat) (cfg : BatchCfg) (scr : BatchScript)
    (idxOf : Result → Nat) : World SeqW where
  call fn args h w :=
    match fn, args with
    | "NewWorkerPool", [.int c] => some ([.ref "pool" c.toNat], h, w)
    | _, _ => (stackSeqWorld fi fItem kind n v cfg scr idxOf).call fn args h w
  mcall := (concSerialWorld kind n v cfg scr idxOf).mcall
  assert := (concSerialWorld kind n v cfg scr idxOf).assert
  field _ _ _ := none
  mapIndex _ _ _ := none
  select _ _ := none
  global _ := none
  invokes := (concSerialWorld kind n v cfg scr idxOf).invokes

/-- `itemsConcSerialIR` over the composed world -/
def stackConcSerialIR (fuel fi : Nat) (fConc fItem : Func) (kind : CtxKind) (n : NodeId) (v : Nat) (cfg : BatchCfg)
    (scr : BatchScript) (idxOf : Result → Nat) (items : List Result) (ctx : Ctx) : Option (List Ev × Ctx × List Result) :=
  let heap : Heap := [items, List.replicate items.length ⟨Val.nil, none⟩]
  match callFunc (stackConcSerialWorld fi fItem kind n v cfg scr idxOf) fuel fConc
      [ctxH, .node n, .slice 0 0 items.length, .slice 1 0 items.length, .int cfg.conc,
       .str (if cfg.stop then "stop" else "continue")] heap ⟨[], ctx⟩ with
  | some ([], h, w) => (h[1]?).map fun slots => (w.evs, w.ctx, slots)
  | _ => none

end Flyt.GoIR
