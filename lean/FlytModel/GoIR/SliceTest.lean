import FlytModel.GoIR.SliceWorld
import FlytModel.GoIR.ValueTest
import FlytModel.Generated.IR
/-!
# Executable test of the slice accessors: the GENERATED IR, interpreted in `sliceWorld`, against the hand model

Every line prints `bad=0/N`. Values: the samples of `ValueTest.lean`, plus slices of every element type `ToSlice` names (and of
others), named slice types, nil slices of each type, arrays (kind Array: NOT a slice), typed nil pointers, maps, channels, funcs,
structs containing slices, NaN floats, `flyt.Result` values, a nil slice carrying elements (ill-formed below the top level, still
`shapeOK`). The last lines show the two views of the world part ways on values that are NOT `shapeOK` (expected: `bad ≠ 0`).
-/
namespace SliceTest
open Flyt Flyt.GoIR Flyt.Value Flyt.GoIR.ValueW Flyt.GoIR.SliceW Flyt.Generated.IR

def nan64 : Nat := 9221120237041090561
def gv (l : List GoVal) : GoVals := GoVals.ofList l
def i (n : Int) : GoVal := .int (.basic .int) n
def s (x : String) : GoVal := .str tString x
def fl (b : Nat) : GoVal := .float (.basic .float64) b
def tMyInts : GoType := .named "MyInts" tInts
def tMyAnys : GoType := .named "MyAnys" tAnys
def tBools : GoType := .slice tBool
def tErrs : GoType := .slice tError
def tRec : GoType := .named "Rec" (.structField tInts (.structField tAnys .structEnd))

def sliceSamples : List GoVal :=
  [ -- `[]any`: itself
    .slice tAnys false (gv [i 1, .nil, s "x", .slice tAnys true .nil]), .slice tAnys false .nil, .slice tAnys true .nil,
    -- the four typed fast paths
    .slice tStrings false (gv [s "a", s "", s "c"]), .slice tStrings false .nil, .slice tStrings true .nil,
    .slice tInts false (gv [i 1, i (-2), i 3, i 4]), .slice tInts false (gv [i 7]), .slice tInts true .nil,
    .slice tFloat64s false (gv [fl 21, fl nan64]), .slice tFloat64s false (gv [fl nan64]), .slice tFloat64s true .nil,
    .slice tMapSAs false (gv [.map tMapSA (some 3), .map tMapSA none]), .slice tMapSAs true .nil,
    -- reflection: named slice types, other element types
    .slice tMyInts false (gv [i 1, i 2]), .slice tMyInts true .nil, .slice tMyAnys false (gv [.nil, i 5]), .slice tMyAnys true .nil,
    .slice tBools false (gv [.bool tBool true]), .slice tBools true .nil,
    .slice tErrs false (gv [.nil, .ptr (.ptr (.basic .int)) (some 9)]),
    .slice (.slice tAnys) false (gv [.slice tAnys true .nil, .slice tAnys false (gv [i 1])]),
    .slice (.slice tResult) false (gv [GoVal.newResult (i 42), GoVal.newErrorResult (s "e")]),
    .slice (.slice (.named "MyInt" (.basic .int))) false (gv [.int (.named "MyInt" (.basic .int)) 9]),
    .slice (.named "Deep" (.named "Mid" (.slice tString))) false (gv [s "q"]),
    -- a nil slice that carries elements: the header says nil, so it has none
    .slice tInts true (gv [i 1]), .slice tAnys true (gv [i 1]), .slice tMyInts true (gv [i 1, i 2]),
    -- NOT slices
    .array (.array 2 (.basic .int)) (gv [i 1, i 2]), .array (.array 1 tInts) (gv [.slice tInts true .nil]), .array (.array 0 .any) .nil,
    .array (.named "Arr" (.array 1 tAnys)) (gv [.slice tAnys false .nil]),
    .ptr (.ptr tInts) none, .ptr (.ptr tInts) (some 1), .ptr (.ptr tAnys) (some 2), .ptr (.named "P" (.ptr tAnys)) none,
    .map (.map tString tAnys) (some 1), .map (.map tString tAnys) none, .chan (.chan tAnys) (some 1), .chan (.chan tAnys) none,
    .func (.func 0) true, .func (.func 3) false,
    .struct tRec (gv [.slice tInts false (gv [i 1]), .slice tAnys true .nil]), .struct (.structField tAnys .structEnd) (gv [.slice tAnys false .nil]),
    GoVal.newResult (.slice tAnys false (gv [i 1])), GoVal.newErrorResult (s "boom"),
    fl nan64, .float (.basic .float32) 2143289344, .float (.named "F" (.basic .float64)) nan64, .complex (.basic .complex128) nan64 0,
    .str tString "[]any", .int (.basic .uintptr) 23 ]

def vals : List GoVal := samples ++ sliceSamples
def helds : List (Option GoVal) := none :: vals.map some
def dflts : List SliceV := [none, some [], some [i 1, .nil, s "z"]]
def F := 60

def unret {α} : Ret α → Option α
  | .ok a => some a
  | .panic => none

def chk (name : String) (ok : GoVal → Bool) : String := s!"{name}: bad={(vals.filter (fun v => !ok v)).length}/{vals.length}"
def chkD (name : String) (ok : GoVal → SliceV → Bool) : String :=
  let cases := vals.flatMap fun v => dflts.map fun d => (v, d)
  s!"{name}: bad={(cases.filter (fun p => !ok p.1 p.2)).length}/{cases.length}"
def chkS (name : String) (ok : Option GoVal → SliceV → Bool) : String :=
  let cases := helds.flatMap fun v => dflts.map fun d => (v, d)
  s!"{name}: bad={(cases.filter (fun p => !ok p.1 p.2)).length}/{cases.length}"

#eval s!"all values shapeOK: {vals.all GoVal.shapeOK}"
#eval chk "ToSlice" fun v => runToSlice F ToSlice conv v == some (toSlice v)
#eval chk "AsSlice" fun v => runAsSlice F Result_AsSlice conv v == unret (asSlice v)
#eval chkD "AsSliceOr" fun v d => runResultSl F Result_AsSliceOr conv v (some d) == unret (asSliceOr v d)
#eval chk "MustSlice" fun v => runResultSl F Result_MustSlice conv v none == unret (mustSlice v)
#eval chkS "GetSlice" fun h _ => runStoreSl F SharedStore_GetSlice conv h none == unret (getSlice (storeOf h) "k")
#eval chkS "GetSliceOr" fun h d => runStoreSl F SharedStore_GetSliceOr conv h (some d) == unret (getSliceOr (storeOf h) "k" d)

/-! the interpreted source does exactly what the world's composite calls say (value AND heap): the justification of
    `ToSlice(…)` / `r.AsSlice()` / `s.GetSliceOr(…)` as world calls -/
#eval chkD "ToSlice = toSliceCall" fun v d =>
  callFunc (sliceWorld conv v ⟨none⟩) F ToSlice [encV v] [] (encD d).2 == some ([(toSliceCall v (encD d).2).1], [], (toSliceCall v (encD d).2).2)
#eval chkD "AsSlice = asSliceCall" fun v d =>
  callFunc (sliceWorld conv v ⟨none⟩) F Result_AsSlice [rH] [] (encD d).2 == some ((asSliceCall v (encD d).2).1, [], (asSliceCall v (encD d).2).2)
#eval chkS "GetSliceOr = getSliceOrCall" fun h d =>
  callFunc (sliceWorld conv (h.getD .nil) ⟨h⟩) F SharedStore_GetSliceOr [sH, .str "k", (encD d).1] [] (encD d).2
    == some ([(getSliceOrCall h (encD d).1 (encD d).2).1], [], (getSliceOrCall h (encD d).1 (encD d).2).2)

/-! least fuel: `ToSlice` needs more the longer the slice is -/
def leastFuel (v : GoVal) : Option Nat := (List.range 80).find? fun f => runToSlice f ToSlice conv v == some (toSlice v)
#eval (vals.map fun v => ((elemsOf v).length, leastFuel v)).eraseDups
def leastFuelAs (v : GoVal) : Option Nat := (List.range 80).find? fun f => runAsSlice f Result_AsSlice conv v == unret (asSlice v)
#eval (vals.map leastFuelAs).eraseDups
def leastFuelGet (h : Option GoVal) : Option Nat :=
  (List.range 80).find? fun f => runStoreSl f SharedStore_GetSliceOr conv h (some none) == unret (getSliceOr (storeOf h) "k" none)
#eval (helds.map leastFuelGet).eraseDups

/-! outside `shapeOK` (the dynamic type says one kind, the representation another) the model decides on the representation, the
    world on the type: they part ways. Expected: every value below is bad for `AsSlice`. -/
def illShaped : List GoVal :=
  [.int tInts 5, .str (.named "MyInts" tInts) "x", .slice (.basic .int) false (gv [i 1]), .slice tString false .nil, .int tAnys 5]
#eval s!"ill-shaped: shapeOK = {illShaped.map GoVal.shapeOK}"
#eval illShaped.map fun v => (repr (runAsSlice F Result_AsSlice conv v), repr (unret (asSlice v)))
#eval illShaped.map fun v => (repr (runToSlice F ToSlice conv v), repr (toSlice v))

end SliceTest
