import FlytModel.GoIR.Gen
import FlytModel.Generated.IR
/-! executable differential test (not part of any build target): every `#eval` must print 0 disagreements -/
open Flyt Flyt.GoIR Flyt.GoIR.Gen
#eval countBad Flyt.Generated.IR.Run 20000
#eval (List.range 20000).foldl (fun acc i => if bagree Flyt.Generated.IR.runExecWithRetries (i * 7919 + 13) then acc else acc + 1) 0
#eval (List.range 20000).foldl (fun acc i => if sagree Flyt.Generated.IR.runBatchSequential (i * 7919 + 13) then acc else acc + 1) 0
#eval (List.range 20000).foldl (fun (acc : Nat × Nat × Nat) i => match fagree Flyt.Generated.IR.Flow_Exec (i * 7919 + 13) with
   | none => (acc.1, acc.2.1, acc.2.2 + 1) | some true => (acc.1 + 1, acc.2.1, acc.2.2) | some false => (acc.1, acc.2.1 + 1, acc.2.2)) (0, 0, 0)
#eval (List.range 20000).foldl (fun acc i => if batchAgree Flyt.Generated.IR.runBatch (i * 7919 + 13) then acc else acc + 1) 0
#eval (List.range 40).filter (fun i => !(batchAgree Flyt.Generated.IR.runBatch (i * 7919 + 13)))
#eval (List.range 20000).foldl (fun acc i => if cagree Flyt.Generated.IR.runBatchConcurrent (i * 7919 + 13) then acc else acc + 1) 0
