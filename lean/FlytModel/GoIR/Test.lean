import FlytModel.GoIR.Worlds
import FlytModel.Generated.IR
/-! executable differential test: interpreter on the generated IR of `Run` vs the hand-written `runLeaf` -/
namespace Flyt.GoIR.Test
open Flyt Flyt.GoIR

def lcg (s : Nat) : Nat := (s * 6364136223846793005 + 1442695040888963407) % 18446744073709551616
def pick (s : Nat) (n : Nat) : Nat := (s / 65536) % n

def styles : Array Style := #[.absent, .direct, .res, .any]
def fbs : Array FbKind := #[.absent, .passThrough, .custom]
def vals : Array Val := #[.tok 0, .tok 5, .res (.tok 7) none, .res (.tok 0) (some (.user 9)), .res (.res (.tok 2) none) none]

def mkOut (s : Nat) : Out Val :=
  let r := pick s 7
  let c := pick (lcg s) 5 == 0
  if r < 3 then { res := .ok (vals[pick (lcg (lcg s)) 5]!), cancels := c }
  else { res := .error (pick (lcg (lcg s)) 4), cancels := c, junk := if r == 6 then some (.tok 4) else none }

def mkAct (s : Nat) : Out Action :=
  let r := pick s 6
  let c := pick (lcg s) 5 == 0
  if r < 2 then { res := .ok "a", cancels := c } else if r < 4 then { res := .ok "", cancels := c }
  else { res := .error (pick (lcg (lcg s)) 4), cancels := c, junk := if r == 5 then some "zz" else none }

def scenario (seed : Nat) : LeafCfg × LeafScript × Ctx :=
  let s1 := lcg seed; let s2 := lcg s1; let s3 := lcg s2; let s4 := lcg s3; let s5 := lcg s4; let s6 := lcg s5
  let s7 := lcg s6; let s8 := lcg s7; let s9 := lcg s8; let s10 := lcg s9; let s11 := lcg s10
  let cfg : LeafCfg := { retryable := pick s1 4 != 0, budget := pick s2 5, wait := if pick s3 2 == 0 then 0 else 7,
                         fb := fbs[pick s4 3]!, prepS := styles[pick s5 4]!, execS := styles[pick s6 4]!, postS := styles[pick s7 4]! }
  let scr : LeafScript := { prep := mkOut s8, exec := fun k => mkOut (s9 + 977 * k), waitCancel := fun k => pick (s10 + 31 * k) 6 == 0,
                            fb := mkOut s11, post := mkAct (lcg s11) }
  let ctx : Ctx := match pick (lcg (lcg s11)) 10 with | 0 => .done .canceled | 1 => .done .deadline | _ => .live
  (cfg, scr, ctx)

def agree (f : Func) (seed : Nat) : Bool :=
  let (cfg, scr, ctx) := scenario seed
  let kind := if seed % 2 == 0 then CtxKind.canceled else .deadline
  runLeafIR 400 f kind 3 1 8 cfg scr ctx == some (runLeaf kind 3 1 8 cfg scr ctx)

def countBad (f : Func) (n : Nat) : Nat := (List.range n).foldl (fun acc i => if agree f (i * 7919 + 13) then acc else acc + 1) 0

instance : BEq Outcome := ⟨fun a b => decide (a = b)⟩

#eval countBad Flyt.Generated.IR.Run 20000
#eval (List.range 40).filter (fun i => !(agree Flyt.Generated.IR.Run (i * 7919 + 13)))
end Flyt.GoIR.Test
namespace Flyt.GoIR.Test
def bscenario (seed : Nat) : BatchCfg × ItemScript × Ctx × Result :=
  let s1 := lcg seed; let s2 := lcg s1; let s3 := lcg s2; let s4 := lcg s3; let s5 := lcg s4; let s6 := lcg s5
  let s7 := lcg s6; let s8 := lcg s7; let s9 := lcg s8
  let cfg : BatchCfg := { budget := pick s1 5, wait := if pick s2 2 == 0 then 0 else 7, fb := fbs[1 + pick s3 2]!, conc := 0,
                          stop := pick s4 2 == 0, execS := #[Style.absent, .res, .any][pick s5 3]!, hasPost := true, shape := .results }
  let scr : ItemScript := { exec := fun k => mkOut (s6 + 977 * k), waitCancel := fun k => pick (s7 + 31 * k) 6 == 0, fb := mkOut s8 }
  let ctx : Ctx := match pick s9 10 with | 0 => .done .canceled | 1 => .done .deadline | _ => .live
  let item : Result := #[newResult (.tok 4), newErrorResult (.user 3), newResult (.res (.tok 1) none), newResult (.tok 0)][pick (lcg s9) 4]!
  (cfg, scr, ctx, item)

instance : BEq ItemRes := ⟨fun a b => decide (a = b)⟩
def bagree (f : Func) (seed : Nat) : Bool :=
  let (cfg, scr, ctx, item) := bscenario seed
  runItemIR 400 f .canceled 3 1 cfg 2 item scr ctx == some (runItem .canceled 3 1 cfg 2 item scr ctx)
#eval (List.range 20000).foldl (fun acc i => if bagree Flyt.Generated.IR.runExecWithRetries (i * 7919 + 13) then acc else acc + 1) 0
end Flyt.GoIR.Test
