import FlytModel.Model.Bind
import FlytModel.Model.StoreConc
import FlytModel.GoIR.Interp
/-!
# World of `Result.Bind / MustBind`, `SharedStore.Bind / MustBind` (property C16; flyt.go:380-425, result.go:294-337)

The world is parameterised by the parameters of the hand model `Model/Bind.lean`: a `Codec T V B E` (`reflect.TypeOf`, `json.Marshal`,
`json.Unmarshal`, the invalid-destination error) over ARBITRARY universes of Go types `T`, values `V`, byte strings `B`, errors `E`,
and by `src : Option (Option V)`, what the source holds: `Store.get`-style for the store (`none` = the key is absent, `some none` = a
stored nil interface), `some value` for a `Result` (`some none` = a Result whose value is nil). `val = src.join` is the value under
inspection.

## values
`GV` has no Go value universe of its own, so values travel as handles and their meaning is the world's:

| Go                                   | GV                                                                                      |
|--------------------------------------|-----------------------------------------------------------------------------------------|
| the value `val : any`                | `.nil` (the nil interface) / `.ref "val" 0`                                             |
| `dest any`                           | `.nil` for `Dest.untypedNil` (`Bind(nil)`), else `.ref "dest" 0`; its CONTENT is world state (`BW.dest`) |
| `reflect.ValueOf(x)`                 | `.ref "rzero" 0` (the zero Value, of a nil interface), `.ref "rv" 0` (of `dest`), `.ref "rval" 0` (of `val`) |
| `rv.Kind()` / `reflect.Ptr`          | `.int` codes of `reflect.Kind`: Invalid 0, Ptr 22, anything else 25                     |
| `rv.Type()` / `rv.Elem()`            | `.ref "rtype" 0` / `.ref "elem" 0`                                                      |
| a `reflect.Type` that is COMPARED    | `.int i`, `i` = index in the world's intern table `BW.types` (equal handles ⇔ equal types; no encoding of `T` needed); the nil `Type` of `reflect.TypeOf(nil)` is `.nil` |
| `jsonBytes`                          | `.ref "bytes" 0`, the bytes themselves in `BW.bytes`                                    |
| a codec error                        | `.err (.user 0)` from `json.Marshal`, `.err (.user 1)` from `json.Unmarshal`; the error itself (`E`) in `BW.jerr`. `fmt.Errorf("…%w", err)` keeps that root. |
| `r` / `s` / `s.mu` / `s.data`        | `.ref "result" 0` / `.ref "store" 0` / `.ref "mutex" 0` / `.ref "map" 0`                |

## reflect: what Go panics on is stuck
`Kind` is total; `IsNil`, `Type().Elem()`, `Elem().Set(v)` follow `Dest.isNil`, `Dest.elemType`, `Dest.set` of the model and are
stuck (`none`) exactly where those are `Res.panic` (split over the two calls as Go does: `Type()` panics on the zero Value, `Elem()` of
a `Type` on a non-pointer; `Value.Elem()` on the zero Value and on a non-pointer, `Set` on the zero Value `Elem()` of a nil pointer
yields, on a zero argument and on a type mismatch). `json.Unmarshal` never panics (`Dest.unmarshalInto`). `panic(…)` is stuck.

## the lock, `defer`, nested calls
`s.mu.RLock()` … as in `StoreWorld`: lock events in the trace, `s.data` and `s.data[key]` are GUARDED (stuck unless the goroutine
holds the lock). The calls into `encoding/json` are traced too (`BEv.json`, the model's `Call`), so the trace shows on which side of the
critical section they happen. Deferred calls are a stack in the world state; `nested` is the call-and-return of a translated function:
`callFunc`, then the defers registered by THAT frame in LIFO order.

`SharedStore.Bind` does not lock itself: it calls `s.Get(key)`. `bindWorld` answers `s.Get` by RUNNING the translated `SharedStore.Get`
(`getF`) in the base world, `mustWorld` answers `x.Bind(…)` by running the translated `Bind` (`bindF`) in `bindWorld` — nested
interpreter runs at recursion depth `fuelIn`.
-/
namespace Flyt.GoIR.BindW
open Flyt Flyt.GoIR Flyt.Bind
open Flyt.StoreConc (Mode)

inductive BEv (T V B : Type) where
  | lock (m : Mode)
  | unlock (m : Mode)
  | deferUnlock (m : Mode)
  /-- a call into `encoding/json` -/
  | json (c : Call T V B)
  deriving DecidableEq, Repr

structure BW (T V B E : Type) where
  /-- the destination as `reflect` sees it, with its current content -/
  dest : Dest T V
  /-- intern table of the `reflect.Type` handles handed out so far -/
  types : List T := []
  /-- what `jsonBytes` holds -/
  bytes : Option B := none
  /-- the error the codec reported in this call -/
  jerr : Option E := none
  /-- the mode in which the running goroutine holds `s.mu` -/
  held : Option Mode := none
  /-- deferred unlocks not yet run, innermost first -/
  defers : List Mode := []
  tr : List (BEv T V B) := []

def rH : GV := .ref "result" 0
def sH : GV := .ref "store" 0
def muH : GV := .ref "mutex" 0
def mapH : GV := .ref "map" 0
def valH : GV := .ref "val" 0
def destRefH : GV := .ref "dest" 0
def rzeroH : GV := .ref "rzero" 0
def rvH : GV := .ref "rv" 0
def rvalH : GV := .ref "rval" 0
def rtypeH : GV := .ref "rtype" 0
def elemH : GV := .ref "elem" 0
def bytesH : GV := .ref "bytes" 0
def reflectH : GV := .ref "pkg:reflect" 0

variable {T V B E : Type}

/-- an `any` holding `val` -/
def encV : Option V → GV
  | none => .nil
  | some _ => valH

/-- the `dest any` argument -/
def destH : Dest T V → GV
  | .untypedNil => .nil
  | _ => destRefH

/-- `reflect.Kind` -/
def kindCode : RKind → Int
  | .invalid => 0
  | .ptr => 22
  | .other => 25

/-- the error value `json.Marshal` (`tag = 0`) / `json.Unmarshal` (`tag = 1`) returns -/
def encJErr (tag : Nat) : Option E → GV
  | none => .nil
  | some _ => .err (.user tag)

/-- the interface value a handle denotes (`val` = the value under inspection) -/
def decV (val : Option V) : GV → Option (Option V)
  | .nil => some none
  | .ref "val" _ => val.map some
  | _ => none

section ops
variable [DecidableEq T] (c : Codec T V B E) (val : Option V)

/-- position of `t` in the intern table (its length if `t` is new) -/
def idxT (t : T) : List T → Nat
  | [] => 0
  | a :: l => if a = t then 0 else idxT t l + 1

/-- handle of type `t`: its index in the intern table, entered if new -/
def intern (t : T) (w : BW T V B E) : GV × BW T V B E :=
  (.int (idxT t w.types), if t ∈ w.types then w else { w with types := w.types ++ [t] })

/-- `reflect.ValueOf(x)` -/
def wValueOf : GV → Option GV
  | .nil => some rzeroH
  | .ref "dest" _ => some rvH
  | .ref "val" _ => some rvalH
  | _ => none

/-- `reflect.TypeOf(x)` -/
def wTypeOf (x : GV) (w : BW T V B E) : Option (GV × BW T V B E) :=
  match decV val x with
  | some none => some (.nil, w)
  | some (some v) => some (intern (c.typeOf v) w)
  | none => none

/-- `rv.Kind()` -/
def wKind (x : GV) (w : BW T V B E) : Option GV :=
  match x with
  | .ref "rzero" _ => some (.int (kindCode .invalid))
  | .ref "rv" _ => some (.int (kindCode w.dest.kind))
  | _ => none

/-- `rv.IsNil()` -/
def wIsNil (x : GV) (w : BW T V B E) : Option GV :=
  match x with
  | .ref "rv" _ => (match w.dest.isNil with | .ok b => some (.bool b) | .panic => none)
  | _ => none                                       -- the zero Value: panics

/-- `rv.Type()`: panics on the zero Value -/
def wType (x : GV) (w : BW T V B E) : Option GV :=
  match x with
  | .ref "rv" _ => (match w.dest with | .untypedNil => none | _ => some rtypeH)
  | _ => none

/-- `rv.Type().Elem()` on the type handle: panics on a non-pointer type -/
def wTypeElem (w : BW T V B E) : Option (GV × BW T V B E) :=
  match w.dest.elemType with
  | .ok t => some (intern t w)
  | .panic => none

/-- `rv.Elem()`: panics on the zero Value and on a non-pointer; of a nil pointer it is the zero Value (on which `Set` panics) -/
def wElem (x : GV) (w : BW T V B E) : Option GV :=
  match x with
  | .ref "rv" _ => (match w.dest with | .nilPointer _ => some elemH | .ptr _ _ => some elemH | _ => none)
  | _ => none

/-- `rv.Elem().Set(y)` -/
def wSet (y : GV) (w : BW T V B E) : Option (BW T V B E) :=
  match y with
  | .ref "rval" _ => (match w.dest.set c val with | .ok d => some { w with dest := d } | .panic => none)
  | _ => none                                       -- the zero Value as argument: panics

/-- `json.Marshal(x)` -/
def wMarshal (x : GV) (w : BW T V B E) : Option (List GV × BW T V B E) :=
  match decV val x with
  | some ov =>
    (match c.marshal ov with
     | .ok b => some ([bytesH, .nil], { w with bytes := some b, tr := w.tr ++ [.json (.marshal ov)] })
     | .error e => some ([.nil, encJErr 0 (some e)], { w with jerr := some e, tr := w.tr ++ [.json (.marshal ov)] }))
  | none => none

/-- `json.Unmarshal(bytes, dx)` -/
def wUnmarshal (bx dx : GV) (w : BW T V B E) : Option (List GV × BW T V B E) :=
  match bx, w.bytes with
  | .ref "bytes" _, some b =>
    (match dx with
     | .nil =>
       let r := (Dest.untypedNil : Dest T V).unmarshalInto c b
       some ([encJErr 1 r.2], { w with jerr := r.2, tr := w.tr ++ [.json (.unmarshal b .untypedNil)] })
     | .ref "dest" _ =>
       let r := w.dest.unmarshalInto c b
       some ([encJErr 1 r.2], { w with dest := r.1, jerr := r.2, tr := w.tr ++ [.json (.unmarshal b w.dest)] })
     | _ => none)
  | _, _ => none
end ops

/-! ### the lock -/

/-- `mu.RLock()` / `mu.Lock()`: `sync.RWMutex` is not reentrant -/
def acquire (m : Mode) (w : BW T V B E) : Option (BW T V B E) :=
  match w.held with
  | none => some { w with held := some m, tr := w.tr ++ [.lock m] }
  | some _ => none

/-- `mu.RUnlock()` / `mu.Unlock()` -/
def release (m : Mode) (w : BW T V B E) : Option (BW T V B E) :=
  if w.held = some m then some { w with held := none, tr := w.tr ++ [.unlock m] } else none

def muCall (m : String) (w : BW T V B E) : Option (BW T V B E) :=
  match m with
  | "RLock" => acquire .R w
  | "Lock" => acquire .W w
  | "RUnlock" => release .R w
  | "Unlock" => release .W w
  | "defer:RUnlock" => some { w with defers := .R :: w.defers, tr := w.tr ++ [.deferUnlock .R] }
  | "defer:Unlock" => some { w with defers := .W :: w.defers, tr := w.tr ++ [.deferUnlock .W] }
  | _ => none

/-- `s.data[k]`, comma-ok: only for the key the world knows about, only under the lock -/
def mapGet (src : Option (Option V)) (kname k : String) (w : BW T V B E) : Option (GV × Bool) :=
  if k == kname then
    if w.held.isSome then some (encV src.join, src.isSome) else none
  else none

def runDefers : List Mode → BW T V B E → Option (BW T V B E)
  | [], w => some w
  | m :: ms, w => (release m w).bind (runDefers ms)

/-- function exit: the defers this frame registered (those above the `n0` of the callers), innermost first -/
def exitDefers (n0 : Nat) (w : BW T V B E) : Option (BW T V B E) :=
  (runDefers (w.defers.take (w.defers.length - n0)) w).map fun w' => { w' with defers := w.defers.drop (w.defers.length - n0) }

/-- call a translated function and return from it -/
def nested (W : World (BW T V B E)) (fuel : Nat) (f : Func) (args : List GV) (h : Heap) (w : BW T V B E) :
    Option (List GV × Heap × BW T V B E) :=
  match callFunc W fuel f args h w with
  | some (vs, h', w') => (exitDefers w.defers.length w').map fun w'' => (vs, h', w'')
  | none => none

/-! ### the worlds -/

section worlds
variable [DecidableEq T] (c : Codec T V B E) (src : Option (Option V)) (kname : String)

/-- everything but calls of translated functions -/
def baseWorld : World (BW T V B E) where
  call fn args h w :=
    match fn, args with
    | "reflect.ValueOf", [x] => (wValueOf x).map fun r => ([r], h, w)
    | "reflect.TypeOf", [x] => (wTypeOf c src.join x w).map fun p => ([p.1], h, p.2)
    | "json.Marshal", [x] => (wMarshal c src.join x w).map fun p => (p.1, h, p.2)
    | "json.Unmarshal", [bx, dx] => (wUnmarshal c bx dx w).map fun p => (p.1, h, p.2)
    | "fmt.Sprintf", _ => some ([.str ""], h, w)
    | _, _ => none                                   -- in particular `panic`
  mcall recv m args h w :=
    match recv, m, args with
    | .ref "mutex" _, m, [] => (muCall m w).map fun w' => ([], h, w')
    | .ref "rtype" _, "Elem", [] => (wTypeElem w).map fun p => ([p.1], h, p.2)
    | .ref "elem" _, "Set", [y] => (wSet c src.join y w).map fun w' => ([], h, w')
    | x, "Kind", [] => (wKind x w).map fun r => ([r], h, w)
    | x, "IsNil", [] => (wIsNil x w).map fun r => ([r], h, w)
    | x, "Type", [] => (wType x w).map fun r => ([r], h, w)
    | x, "Elem", [] => (wElem x w).map fun r => ([r], h, w)
    | _, _, _ => none
  assert _ _ _ := none
  field x f w :=
    match x, f with
    | .ref "store" _, "mu" => some muH
    | .ref "store" _, "data" => if w.held.isSome then some mapH else none
    | .ref "result" _, "value" => some (encV src.join)
    | .ref "pkg:reflect" _, "Ptr" => some (.int (kindCode .ptr))
    | _, _ => none
  mapIndex m k w :=
    match m, k with
    | .ref "map" _, .str k => mapGet src kname k w
    | _, _ => none
  select _ _ := none
  global x := if x == "reflect" then some reflectH else none

/-- the world of `Bind`: `s.Get(key)` runs the translated `SharedStore.Get` -/
def bindWorld (getF : Func) (fuelIn : Nat) : World (BW T V B E) :=
  { baseWorld c src kname with
    mcall := fun recv m args h w =>
      match recv, m with
      | .ref "store" _, "Get" => nested (baseWorld c src kname) fuelIn getF (recv :: args) h w
      | _, _ => (baseWorld c src kname).mcall recv m args h w }

/-- the world of `MustBind`: `x.Bind(…)` runs the translated `Bind` -/
def mustWorld (getF bindF : Func) (fuelIn : Nat) : World (BW T V B E) :=
  { bindWorld c src kname getF fuelIn with
    mcall := fun recv m args h w =>
      match recv, m with
      | .ref "store" _, "Bind" => nested (bindWorld c src kname getF fuelIn) fuelIn bindF (recv :: args) h w
      | .ref "result" _, "Bind" => nested (bindWorld c src kname getF fuelIn) fuelIn bindF (recv :: args) h w
      | _, _ => (bindWorld c src kname getF fuelIn).mcall recv m args h w }

/-- no translated function (the `Result` methods call none through `s.Get`) -/
def noFunc : Func := ⟨"", "", [], .nil⟩

/-- what a run is observed by: returned values, final destination, the codec's error, the trace -/
abbrev Obs (T V B E : Type) := List GV × Dest T V × Option E × List (BEv T V B)

def observe (r : Option (List GV × Heap × BW T V B E)) : Option (Obs T V B E) :=
  r.map fun x => (x.1, x.2.2.dest, x.2.2.jerr, x.2.2.tr)

/-- `r.Bind(dest)` on a Result holding `value` -/
def runResultBind (fuel : Nat) (f : Func) (value : Option V) (d : Dest T V) : Option (Obs T V B E) :=
  observe (nested (bindWorld c (some value) "" noFunc 0) fuel f [rH, destH d] [] { dest := d })

/-- `s.Bind(key, dest)` on a store holding `src` under `kname` -/
def runStoreBind (fuelIn fuel : Nat) (getF f : Func) (d : Dest T V) : Option (Obs T V B E) :=
  observe (nested (bindWorld c src kname getF fuelIn) fuel f [sH, .str kname, destH d] [] { dest := d })

/-- `r.MustBind(dest)` -/
def runResultMust (fuelIn fuel : Nat) (bindF f : Func) (value : Option V) (d : Dest T V) : Option (Obs T V B E) :=
  observe (nested (mustWorld c (some value) "" noFunc bindF fuelIn) fuel f [rH, destH d] [] { dest := d })

/-- `s.MustBind(key, dest)` -/
def runStoreMust (fuelIn fuel : Nat) (getF bindF f : Func) (d : Dest T V) : Option (Obs T V B E) :=
  observe (nested (mustWorld c src kname getF bindF fuelIn) fuel f [sH, .str kname, destH d] [] { dest := d })
end worlds

/-! ### the model's answers as observations -/

/-- an error of `Bind` as far as `fmt.Errorf` of the interpreter distinguishes them: the three framework-made ones are all
    `.fw .other`; a wrapped codec error keeps its root (`%w`), which says WHICH codec function failed -/
def encErr : Option (Err E) → GV
  | none => .nil
  | some (.marshal _) => .err (.user 0)
  | some (.unmarshal _) => .err (.user 1)
  | some _ => .err (.fw .other)

/-- the codec's own error inside an error of `Bind` -/
def errPayload : Option (Err E) → Option E
  | some (.marshal e) => some e
  | some (.unmarshal e) => some e
  | _ => none

def callsOf : Res (Bind.Outcome T V B E) → List (Call T V B)
  | .ok o => o.calls
  | .panic => []

/-- a `Bind` outcome; `locks` = the lock events that precede the calls into the codec. A panic is stuck. -/
def encBind (locks : List (BEv T V B)) : Res (Bind.Outcome T V B E) → Option (Obs T V B E)
  | .panic => none
  | .ok o => some ([encErr o.err], o.dest, errPayload o.err, locks ++ o.calls.map .json)

/-- a `MustBind` outcome (`tr` = the trace of the `Bind` inside); both panics are stuck -/
def encMust (tr : List (BEv T V B)) : MustRes T V E → Option (Obs T V B E)
  | .returned d => some ([], d, none, tr)
  | .mustPanic _ _ => none
  | .panic => none

/-- the critical section of `SharedStore.Get` -/
def critR : List (BEv T V B) := [.lock .R, .deferUnlock .R, .unlock .R]

/-! ### the lock discipline, as a check on traces -/

/-- `lock` only when nothing is held, `unlock m` / `deferUnlock m` only while `m` is held, nothing held at the end; with `outside`,
    every call into the codec happens while NOTHING is held -/
def discAux (outside : Bool) : Option Mode → List (BEv T V B) → Bool
  | h, [] => h.isNone
  | h, .lock m :: t => h.isNone && discAux outside (some m) t
  | h, .unlock m :: t => h == some m && discAux outside none t
  | h, .deferUnlock m :: t => h == some m && discAux outside h t
  | h, .json _ :: t => (!outside || h.isNone) && discAux outside h t

/-- balanced, and the codec is called outside the critical section -/
def disciplined (tr : List (BEv T V B)) : Bool := discAux true none tr

end Flyt.GoIR.BindW
