import FlytModel.Core
import FlytModel.GoIR.Syntax
/-!
# GoIR — a definitional interpreter for the Go subset of `Syntax.lean`

Big-step, executable, total (fuel = recursion depth; `none` = stuck: out of fuel, a construct outside the subset,
an ill-typed operation, something Go would panic on). Generic Go semantics live here: variables with block scoping
and shadowing, multi-value assignment, comma-ok forms, `if` / `for` / `range` / `break` / `continue` / `return`,
`select`, type switches, `[]Result` slices with aliasing (a heap of backing arrays), `fmt.Errorf` as far as
`errors.Is` / `errors.As` can see (the root survives `%w` and nothing else).

Everything that is *not* Go semantics — what the user's callbacks do, what a context reports, what a node's dynamic
type is, when a timer fires — is the `World`: a record of primitive operations over a world state `Ω`, given
per theorem (`Worlds.lean`).
-/
namespace Flyt.GoIR

/-- run-time values -/
inductive GV where
  | nil                                   -- nil (interface, error, pointer, slice, func)
  | bool (b : Bool)
  | int (n : Int)                         -- int, time.Duration
  | str (s : String)                      -- string, Action
  | err (e : ErrRoot)                     -- a non-nil error, as far as errors.Is/As can see
  | val (v : Val)                         -- an `any` payload (may be `Val.nil`)
  | result (r : Result)                   -- flyt.Result
  | slice (a off len : Nat)               -- []Result: backing array `a` of the heap, window [off, off+len)
  | anys (l : List Val)                   -- []any (immutable here)
  | node (id : NodeId)                    -- a Node
  | ref (kind : String) (n : Nat)         -- opaque handle: ctx, store, channel, timer, …
  deriving DecidableEq, Repr, Inhabited

abbrev Heap := List (List Result)

/-- `v` seen as an `any` payload of the model -/
def GV.toVal : GV → Val
  | .nil => Val.nil
  | .val v => v
  | .result r => r.box
  | _ => Val.nil

def GV.ofVal (v : Val) : GV :=
  match v.asResult? with
  | some r => .result r
  | none => .val v

/-- `x == nil` -/
def GV.isNil : GV → Bool
  | .nil => true
  | .val v => v == Val.nil
  | _ => false

/-- Go's `==` on the operand kinds the subset uses; `none` = not comparable here -/
def GV.eqv (a b : GV) : Option Bool :=
  match a, b with
  | .nil, y => some y.isNil
  | x, .nil => some x.isNil
  | .str s, .str t => some (s == t)
  | .int m, .int n => some (m == n)
  | .bool p, .bool q => some (p == q)
  | .node m, .node n => some (m == n)
  | _, _ => none

/-- zero value of a declared type -/
def zeroOf (ty : String) : Option GV :=
  if ty == "any" ∨ ty == "interface{}" then some (.val Val.nil)
  else if ty == "error" then some .nil
  else if ty == "int" ∨ ty == "time.Duration" then some (.int 0)
  else if ty == "string" ∨ ty == "Action" then some (.str "")
  else if ty == "bool" then some (.bool false)
  else if ty == "Result" then some (.result ⟨Val.nil, none⟩)
  else if ty == "[]Result" then some .nil
  else if ty == "sync.Mutex" then some (.ref "mutex" 0)
  else none

/-- the framework-made error a message denotes (what the model distinguishes) -/
def fwTagOf (msg : String) : FwTag :=
  if msg == "context cancelled" then .batchCancelled
  else if msg == "batch stopped due to error" then .batchStopped
  else if msg == "flow: exec failed: no start node configured" then .noStart
  else .other

def containsW (fmt : String) : Bool := (fmt.splitOn "%w").length > 1

/-- `fmt.Errorf(format, args…)` as far as `errors.Is/As` can observe the result -/
def errorf (args : List GV) : Option GV :=
  match args with
  | .str fmt :: rest =>
    match rest.filterMap (fun a => match a with | .err e => some e | _ => none) with
    | e :: _ => if containsW fmt then some (.err e) else some (.err (.fw .other))
    | [] =>
      match fmt, rest with
      | "%s", [.str m] => some (.err (.fw (fwTagOf m)))
      | _, _ => some (.err (.fw (fwTagOf fmt)))
  | _ => none

/-! ### environment with block scoping -/

abbrev Env := List (String × GV)

def Env.get (e : Env) (x : String) : Option GV :=
  match e with
  | [] => none
  | (y, v) :: t => if y == x then some v else Env.get t x

/-- assignment to the innermost binding of `x` -/
def Env.set (e : Env) (x : String) (v : GV) : Option Env :=
  match e with
  | [] => none
  | (y, w) :: t => if y == x then some ((y, v) :: t) else (Env.set t x v).map ((y, w) :: ·)

/-- leave a scope: forget the bindings made since the environment had `n` entries -/
def Env.popTo (e : Env) (n : Nat) : Env := e.drop (e.length - n)

def Env.push (e : Env) (x : String) (v : GV) : Env := if x == "_" then e else (x, v) :: e

def Env.pushAll (e : Env) : List String → List GV → Option Env
  | [], [] => some e
  | x :: xs, v :: vs => Env.pushAll (e.push x v) xs vs
  | _, _ => none

structure St (Ω : Type) where
  env : Env
  heap : Heap
  w : Ω

/-- what is not Go semantics -/
structure World (Ω : Type) where
  /-- `f(args)` for functions the interpreter does not know -/
  call : String → List GV → Heap → Ω → Option (List GV × Heap × Ω)
  /-- `recv.m(args)` -/
  mcall : GV → String → List GV → Heap → Ω → Option (List GV × Heap × Ω)
  /-- `x.(T)`: the asserted value and whether the assertion holds -/
  assert : GV → String → Ω → Option (GV × Bool)
  /-- `x.f` -/
  field : GV → String → Ω → Option GV
  /-- `m[k]` on a map: value and presence -/
  mapIndex : GV → GV → Ω → Option (GV × Bool)
  /-- which case of a `select` fires, given the channel operands -/
  select : List GV → Ω → Option (Nat × Ω)
  /-- package-level identifiers -/
  global : String → Option GV
  /-- `recv.m(func() {…})`: does the callee run the closure before it returns (and nowhere else)? Only then can the
      interpreter execute it — in the environment of the call site, which for a closure invoked inside the scope that created
      it is exactly Go's capture by reference. -/
  invokes : GV → String → Bool := fun _ _ => false
  /-- `x.f = v` -/
  setField : GV → String → GV → Ω → Option Ω := fun _ _ _ _ => none
  /-- read / write of a variable that is not local to the interpreted function (a captured variable shared between goroutines) -/
  readVar : String → Ω → Option GV := fun _ _ => none
  writeVar : String → GV → Ω → Option Ω := fun _ _ _ => none
  /-- `m[k] = v` on a map -/
  setIndex : GV → GV → GV → Ω → Option Ω := fun _ _ _ _ => none
  /-- `range m` over an object of the world: its (key, value) pairs in the order the world chooses -/
  rangeOf : GV → Ω → Option (List (GV × GV)) := fun _ _ => none
  /-- `f(args)` where `f` is a LOCAL VARIABLE (parameter, loop variable, …) holding the function value `fv`: the world is told
      WHICH value is called. Default: by name, as for package-level functions. -/
  callVar : String → GV → List GV → Heap → Ω → Option (List GV × Heap × Ω) := fun fn _ => call fn

inductive Ctl where
  | next | brk | cont
  | ret (vs : List GV)
  deriving DecidableEq, Repr

def heapGet (h : Heap) (a i : Nat) : Option Result := (h[a]?).bind (·[i]?)

def heapSet (h : Heap) (a i : Nat) (r : Result) : Option Heap :=
  match h[a]? with
  | some cell => if i < cell.length then some (h.set a (cell.set i r)) else none
  | none => none

def asResult (v : GV) : Option Result :=
  match v with
  | .result r => some r
  | _ => none

/-- `NewResult(v)` -/
def mkNewResult (v : GV) : Result := newResult v.toVal

def intBin (op : String) (m n : Int) : Option GV :=
  if op == "<" then some (.bool (m < n)) else if op == ">" then some (.bool (m > n))
  else if op == "<=" then some (.bool (m ≤ n)) else if op == ">=" then some (.bool (m ≥ n))
  else if op == "+" then some (.int (m + n)) else if op == "-" then some (.int (m - n))
  else if op == "*" then some (.int (m * n)) else none

def isCommaOk : Expr → Bool
  | .assert .. => true
  | .index .. => true
  | _ => false

/-- the field values of a keyed composite literal `T{k: e, …}` (an unkeyed element is its own value) -/
def litValues : Exprs → Exprs
  | .nil => .nil
  | .cons (.bin ":" _ e) rest => .cons e (litValues rest)
  | .cons e rest => .cons e (litValues rest)

/-- the field names of a keyed composite literal, each followed by a comma -/
def litKeys : Exprs → String
  | .nil => ""
  | .cons (.bin ":" (.var k) _) rest => k ++ "," ++ litKeys rest
  | .cons _ rest => "," ++ litKeys rest

variable {Ω : Type}

mutual
/-- expressions: a list of values (more than one only for multi-value calls) -/
def evalExpr (W : World Ω) : Nat → Expr → St Ω → Option (List GV × St Ω)
  | 0, _, _ => none
  | fuel + 1, e, st =>
    match e with
    | .var x =>
      match st.env.get x with
      | some v => some ([v], st)
      | none =>
        if x == "nil" then some ([.nil], st) else if x == "true" then some ([.bool true], st)
        else if x == "false" then some ([.bool false], st)
        else
          match W.global x with
          | some v => some ([v], st)
          | none =>
            -- a variable that lives OUTSIDE the function being interpreted (captured by a closure and shared with other
            -- goroutines, like `shouldStop` in the tasks of a concurrent batch): the world's
            (W.readVar x st.w).map fun v => ([v], st)
    | .str s => some ([.str s], st)
    | .int n => some ([.int n], st)
    | .bin op a b =>
      if op == "&&" then
        match evalExpr W fuel a st with
        | some ([.bool false], st1) => some ([.bool false], st1)
        | some ([.bool true], st1) =>
          (match evalExpr W fuel b st1 with
           | some ([.bool q], st2) => some ([.bool q], st2)
           | _ => none)
        | _ => none
      else if op == "||" then
        match evalExpr W fuel a st with
        | some ([.bool true], st1) => some ([.bool true], st1)
        | some ([.bool false], st1) =>
          (match evalExpr W fuel b st1 with
           | some ([.bool q], st2) => some ([.bool q], st2)
           | _ => none)
        | _ => none
      else
        match evalExpr W fuel a st with
        | some ([x], st1) =>
          (match evalExpr W fuel b st1 with
           | some ([y], st2) =>
             if op == "==" then (x.eqv y).map fun r => ([.bool r], st2)
             else if op == "!=" then (x.eqv y).map fun r => ([.bool !r], st2)
             else
               match x, y with
               | .int m, .int n => (intBin op m n).map fun r => ([r], st2)
               | _, _ => none
           | _ => none)
        | _ => none
    | .un op a =>
      if op == "!" then
        match evalExpr W fuel a st with
        | some ([.bool p], st1) => some ([.bool !p], st1)
        | _ => none
      else if op == "&" then
        -- `&T{…}`: objects of the world are references already
        match a with
        | .lit _ _ => evalExpr W fuel a st
        | _ => none
      else none
    | .call fn args =>
      if fn == "make" then
        match args with
        | .cons (.var ty) rest =>
          if ty == "[]Result" then
            match rest with
            | .cons n .nil =>
              (match evalExpr W fuel n st with
               | some ([.int k], st1) =>
                 some ([.slice st1.heap.length 0 k.toNat],
                       { st1 with heap := st1.heap ++ [List.replicate k.toNat ⟨Val.nil, none⟩] })
               | _ => none)
            | _ => none
          else
            -- maps, channels, other slices: objects of the world (`make:<type>` with the evaluated size arguments)
            match evalArgs W fuel rest st with
            | some (vs, st1) =>
              (match W.call ("make:" ++ ty) vs st1.heap st1.w with
               | some (rs, h, w) => some (rs, { st1 with heap := h, w := w })
               | none => none)
            | none => none
        | _ => none
      else
        match evalArgs W fuel args st with
        | none => none
        | some (vs, st1) =>
          if fn == "len" then
            match vs with
            | [.slice _ _ n] => some ([.int n], st1)
            | [.anys l] => some ([.int l.length], st1)
            | [.nil] => some ([.int 0], st1)
            | _ =>
              -- `len` of an object of the world (a map, a channel, a `[]string`)
              (match W.call "len" vs st1.heap st1.w with
               | some (rs, h, w) => some (rs, { st1 with heap := h, w := w })
               | none => none)
          else if fn == "NewResult" then
            match vs with
            | [v] => some ([.result (mkNewResult v)], st1)
            | _ => none
          else if fn == "NewErrorResult" then
            match vs with
            | [.err e] => some ([.result (newErrorResult e)], st1)
            | _ => none
          else if fn == "fmt.Errorf" then
            (errorf vs).map fun r => ([r], st1)
          else
            match st.env.get fn with
            | some fv =>
              -- `fn` is a local variable holding a function value (Go resolves the identifier lexically): call THAT value
              (match W.callVar fn fv vs st1.heap st1.w with
               | some (rs, h, w) => some (rs, { st1 with heap := h, w := w })
               | none => none)
            | none =>
              match W.call fn vs st1.heap st1.w with
              | some (rs, h, w) => some (rs, { st1 with heap := h, w := w })
              | none => none
    | .mcall recv m args =>
      match evalExpr W fuel recv st with
      | some ([r], st1) =>
        (match evalArgs W fuel args st1 with
         | none => none
         | some (vs, st2) =>
           match r, vs with
           | .result x, [] =>
             if m == "IsError" then some ([.bool x.isError], st2)
             else if m == "Value" then some ([GV.ofVal x.valueOf], st2)
             else none
           | _, _ =>
             match W.mcall r m vs st2.heap st2.w with
             | some (rs, h, w) => some (rs, { st2 with heap := h, w := w })
             | none => none)
      | _ => none
    | .sel a f =>
      match evalExpr W fuel a st with
      | some ([x], st1) => (W.field x f st1.w).map fun v => ([v], st1)
      | _ => none
    | .index a i =>
      match evalExpr W fuel a st with
      | some ([.slice ad off n], st1) =>
        (match evalExpr W fuel i st1 with
         | some ([.int k], st2) =>
           if 0 ≤ k ∧ k.toNat < n then (heapGet st2.heap ad (off + k.toNat)).map fun r => ([.result r], st2) else none
         | _ => none)
      | some ([mv], st1) =>
        -- `m[k]` on an object of the world (a map), single-value form: the element, or the zero value the world reports
        (match evalExpr W fuel i st1 with
         | some ([kv], st2) => (W.mapIndex mv kv st2.w).map fun (v, _) => ([v], st2)
         | _ => none)
      | _ => none
    | .sliceFrom a lo =>
      match evalExpr W fuel a st with
      | some ([.slice ad off n], st1) =>
        (match evalExpr W fuel lo st1 with
         | some ([.int k], st2) =>
           if 0 ≤ k ∧ k.toNat ≤ n then some ([.slice ad (off + k.toNat) (n - k.toNat)], st2) else none
         | _ => none)
      | _ => none
    | .assert a ty =>
      -- single-value form: panics (stuck) when the assertion fails
      match evalExpr W fuel a st with
      | some ([x], st1) =>
        (match W.assert x ty st1.w with
         | some (v, true) => some ([v], st1)
         | _ => none)
      | _ => none
    | .lit ty elts =>
      if ty == "[]Result" then
        match elts with
        | .nil => some ([.slice st.heap.length 0 0], { st with heap := st.heap ++ [[]] })
        | _ => none
      else if ty == "Result" then
        match elts with
        | .nil => some ([.result ⟨Val.nil, none⟩], st)        -- the zero `Result{}`
        | _ =>
          -- keyed `Result{value: v}` / `Result{err: e}` (bodies of NewResult / NewErrorResult): the world's, like any struct literal
          match evalArgs W fuel (litValues elts) st with
          | some (vs, st1) =>
            (match W.call ("lit:" ++ ty ++ ":" ++ litKeys elts) vs st1.heap st1.w with
             | some (rs, h, w) => some (rs, { st1 with heap := h, w := w })
             | none => none)
          | none => none
      else
        -- any other composite literal `T{k₁: e₁, …}` is an object of the world: `lit:T:k₁,k₂,` applied to the evaluated fields
        match evalArgs W fuel (litValues elts) st with
        | some (vs, st1) =>
          (match W.call ("lit:" ++ ty ++ ":" ++ litKeys elts) vs st1.heap st1.w with
           | some (rs, h, w) => some (rs, { st1 with heap := h, w := w })
           | none => none)
        | none => none
    | .conv ty a =>
      -- a conversion `T(a)` is the world's business (numeric conversions are parameters of the models)
      match evalExpr W fuel a st with
      | some ([x], st1) =>
        (match W.call ("conv:" ++ ty) [x] st1.heap st1.w with
         | some (rs, h, w) => some (rs, { st1 with heap := h, w := w })
         | none => none)
      | _ => none
    | .funcLit _ _ => some ([.ref "closure" 0], st)   -- a closure VALUE is opaque (it can be stored, not called; see `invokes`)
    | .unsupported _ => none

/-- argument lists: a single multi-value expression spreads, otherwise one value each -/
def evalArgs (W : World Ω) : Nat → Exprs → St Ω → Option (List GV × St Ω)
  | 0, _, _ => none
  | fuel + 1, es, st =>
    match es with
    | .nil => some ([], st)
    | .cons e .nil => evalExpr W fuel e st
    | .cons e rest =>
      match evalExpr W fuel e st with
      | some ([v], st1) =>
        (match evalArgs W fuel rest st1 with
         | some (vs, st2) => some (v :: vs, st2)
         | none => none)
      | _ => none
end

/-- the comma-ok forms `v, ok := x.(T)` and `v, ok := m[k]` -/
def evalCommaOk (W : World Ω) (fuel : Nat) (e : Expr) (st : St Ω) : Option (List GV × St Ω) :=
  match e with
  | .assert a ty =>
    match evalExpr W fuel a st with
    | some ([x], st1) => (W.assert x ty st1.w).map fun (v, ok) => ([v, .bool ok], st1)
    | _ => none
  | .index m k =>
    match evalExpr W fuel m st with
    | some ([mv], st1) =>
      (match evalExpr W fuel k st1 with
       | some ([kv], st2) => (W.mapIndex mv kv st2.w).map fun (v, ok) => ([v, .bool ok], st2)
       | _ => none)
    | _ => none
  | _ => none

/-- right-hand sides of `:=` / `=` with `n` targets -/
def evalRhs (W : World Ω) (fuel : Nat) (n : Nat) (rhs : Exprs) (st : St Ω) : Option (List GV × St Ω) :=
  match rhs with
  | .cons e .nil =>
    if n == 2 ∧ isCommaOk e then evalCommaOk W fuel e st
    else (evalExpr W fuel e st).bind fun (vs, st1) => if vs.length = n then some (vs, st1) else none
  | _ => (evalArgs W fuel rhs st).bind fun (vs, st1) => if vs.length = n then some (vs, st1) else none

/-- store one value into an assignable expression -/
def assignTo (W : World Ω) (fuel : Nat) (lhs : Expr) (v : GV) (st : St Ω) : Option (St Ω) :=
  match lhs with
  | .var x =>
    if x == "_" then some st
    else
      match st.env.set x v with
      | some e => some { st with env := e }
      | none => (W.writeVar x v st.w).map fun w => { st with w := w }    -- a shared variable of the world (see `readVar`)
  | .sel a f =>
    match evalExpr W fuel a st with
    | some ([x], st1) => (W.setField x f v st1.w).map fun w => { st1 with w := w }
    | _ => none
  | .index a i =>
    match evalExpr W fuel a st with
    | some ([.slice ad off n], st1) =>
      (match evalExpr W fuel i st1 with
       | some ([.int k], st2) =>
         if 0 ≤ k ∧ k.toNat < n then
           match v with
           | .result r => (heapSet st2.heap ad (off + k.toNat) r).map fun h => { st2 with heap := h }
           | _ => none
         else none
       | _ => none)
    | some ([mv], st1) =>
      -- `m[k] = v` on an object of the world (a map)
      (match evalExpr W fuel i st1 with
       | some ([kv], st2) => (W.setIndex mv kv v st2.w).map fun w => { st2 with w := w }
       | _ => none)
    | _ => none
  | _ => none

def assignAll (W : World Ω) (fuel : Nat) : List Expr → List GV → St Ω → Option (St Ω)
  | [], [], st => some st
  | l :: ls, v :: vs, st => (assignTo W fuel l v st).bind (assignAll W fuel ls vs)
  | _, _, _ => none

/-- body of the `i`-th case -/
def nthBody : Cases → Nat → Option Block
  | .nil, _ => none
  | .cons _ b _, 0 => some b
  | .cons _ _ rest, i + 1 => nthBody rest i

def popSt (st : St Ω) (n : Nat) : St Ω := { st with env := st.env.popTo n }

mutual
def execStmt (W : World Ω) : Nat → Stmt → St Ω → Option (Ctl × St Ω)
  | 0, _, _ => none
  | fuel + 1, s, st =>
    match s with
    | .define lhs rhs =>
      match evalRhs W fuel lhs.length rhs st with
      | some (vs, st1) => (st1.env.pushAll lhs vs).map fun e => (.next, { st1 with env := e })
      | none => none
    | .declare x ty =>
      match zeroOf ty with
      | some z => some (.next, { st with env := st.env.push x z })
      | none =>
        -- a type the interpreter has no zero value for: the world's (`zero:<type>`), e.g. a nil slice of options
        (W.global ("zero:" ++ ty)).map fun z => (.next, { st with env := st.env.push x z })
    | .assign lhs rhs =>
      match evalRhs W fuel lhs.length rhs st with
      | some (vs, st1) => (assignAll W fuel lhs.toList vs st1).map fun st2 => (.next, st2)
      | none => none
    | .ifS init cond thn els =>
      let n := st.env.length
      match execBlock W fuel init st with
      | some (.next, st1) =>
        (match evalExpr W fuel cond st1 with
         | some ([.bool true], st2) =>
           (execBlock W fuel thn st2).map fun (c, st3) => (c, popSt st3 n)
         | some ([.bool false], st2) =>
           (execBlock W fuel els st2).map fun (c, st3) => (c, popSt st3 n)
         | _ => none)
      | _ => none
    | .forS init cond post body =>
      let n := st.env.length
      match execBlock W fuel init st with
      | some (.next, st1) => (loopFor W fuel cond post body st1).map fun (c, st2) => (c, popSt st2 n)
      | _ => none
    | .rangeS k v x body =>
      match evalExpr W fuel x st with
      | some ([.slice ad off n], st1) => loopRange W fuel k v ad off n 0 body st1
      | some ([.anys l], st1) => loopAnys W fuel k v l 0 body st1
      | some ([.nil], st1) => some (.next, st1)
      | some ([m], st1) =>
        -- an object of the world (a map, a `[]string`, …): the world enumerates its (key, value) pairs, in the order IT chooses
        (match W.rangeOf m st1.w with
         | some kvs => loopPairs W fuel k v kvs body st1
         | none => none)
      | _ => none
    | .selectS cases =>
      match evalGuards W fuel cases st with
      | some (chans, st1) =>
        (match W.select chans st1.w with
         | some (i, w) =>
           (match nthBody cases i with
            | some b =>
              let n := st1.env.length
              (execBlock W fuel b { st1 with w := w }).map fun (c, st2) => (c, popSt st2 n)
            | none => none)
         | none => none)
      | none => none
    | .typeSwitch bind x cases =>
      match evalExpr W fuel x st with
      | some ([v], st1) => switchCases W fuel bind v cases st1
      | _ => none
    | .ret es =>
      match es with
      | .nil => some (.ret [], st)
      | _ => (evalArgs W fuel es st).map fun (vs, st1) => (.ret vs, st1)
    | .brk => some (.brk, st)
    | .cont => some (.cont, st)
    | .incr x =>
      match st.env.get x with
      | some (.int k) => (st.env.set x (.int (k + 1))).map fun e => (.next, { st with env := e })
      | _ => none
    | .expr e =>
      match e with
      | .mcall recv m (.cons (.funcLit _ body) .nil) =>
        -- a closure handed to a method: executable only if the world says the method runs it at once
        (match evalExpr W fuel recv st with
         | some ([r], st1) =>
           if W.invokes r m then
             let n := st1.env.length
             match execBlock W fuel body st1 with
             | some (.next, st2) => some (.next, popSt st2 n)
             | some (.ret _, st2) => some (.next, popSt st2 n)
             | _ => none
           else
             -- the callee keeps the closure for later (another goroutine runs it): an ordinary method call with the opaque
             -- closure value as its argument
             (match W.mcall r m [.ref "closure" 0] st1.heap st1.w with
              | some (_, h, w) => some (.next, { st1 with heap := h, w := w })
              | none => none)
         | _ => none)
      | _ => (evalExpr W fuel e st).map fun (_, st1) => (.next, st1)
    | .deferS e =>
      -- `defer recv.m()`: the world is told at registration time (`defer:m`); sound only for calls whose effect the rest of
      -- the function does not depend on (unlocking a mutex, closing a pool that has been waited for)
      match e with
      | .mcall recv m .nil =>
        (match evalExpr W fuel recv st with
         | some ([r], st1) =>
           (match W.mcall r ("defer:" ++ m) [] st1.heap st1.w with
            | some (_, h, w) => some (.next, { st1 with heap := h, w := w })
            | none => none)
         | _ => none)
      | _ => none
    | .goS e =>
      -- `go recv.m()`: the interpreter follows ONE goroutine; that another one is started is an event of the world
      -- (`go:m`), what it then does is the subject of the theorems about `m` itself
      match e with
      | .mcall recv m .nil =>
        (match evalExpr W fuel recv st with
         | some ([r], st1) =>
           (match W.mcall r ("go:" ++ m) [] st1.heap st1.w with
            | some (_, h, w) => some (.next, { st1 with heap := h, w := w })
            | none => none)
         | _ => none)
      | _ => none
    | .send ch v =>
      -- `ch <- v`: a channel operation of the world (`chan:send`); the interpreter follows ONE goroutine, so what other
      -- goroutines do with the channel is the world's business
      match evalExpr W fuel ch st with
      | some ([c], st1) =>
        (match evalExpr W fuel v st1 with
         | some ([x], st2) =>
           (match W.call "chan:send" [c, x] st2.heap st2.w with
            | some (_, h, w) => some (.next, { st2 with heap := h, w := w })
            | none => none)
         | _ => none)
      | _ => none
    | .unsupported _ => none

def execBlock (W : World Ω) : Nat → Block → St Ω → Option (Ctl × St Ω)
  | 0, _, _ => none
  | fuel + 1, b, st =>
    match b with
    | .nil => some (.next, st)
    | .cons s rest =>
      match execStmt W fuel s st with
      | some (.next, st1) => execBlock W fuel rest st1
      | r => r

/-- `for ; cond; post { body }` (the init statement has already run) -/
def loopFor (W : World Ω) : Nat → Expr → Block → Block → St Ω → Option (Ctl × St Ω)
  | 0, _, _, _, _ => none
  | fuel + 1, cond, post, body, st =>
    match evalExpr W fuel cond st with
    | some ([.bool false], st1) => some (.next, st1)
    | some ([.bool true], st1) =>
      let n := st1.env.length
      (match execBlock W fuel body st1 with
       | some (.brk, st2) => some (.next, popSt st2 n)
       | some (.ret vs, st2) => some (.ret vs, popSt st2 n)
       | some (_, st2) =>
         (match execBlock W fuel post (popSt st2 n) with
          | some (.next, st3) => loopFor W fuel cond post body st3
          | _ => none)
       | none => none)
    | _ => none

/-- `for k, v := range s` over the `[]Result` window `[off, off+n)` of backing array `ad`, from index `i` on -/
def loopRange (W : World Ω) : Nat → String → String → Nat → Nat → Nat → Nat → Block → St Ω → Option (Ctl × St Ω)
  | 0, _, _, _, _, _, _, _, _ => none
  | fuel + 1, k, v, ad, off, n, i, body, st =>
    if i < n then
      match heapGet st.heap ad (off + i) with
      | none => none
      | some r =>
        let m := st.env.length
        let st0 := { st with env := (st.env.push k (.int i)).push v (.result r) }
        (match execBlock W fuel body st0 with
         | some (.brk, st2) => some (.next, popSt st2 m)
         | some (.ret vs, st2) => some (.ret vs, popSt st2 m)
         | some (_, st2) => loopRange W fuel k v ad off n (i + 1) body (popSt st2 m)
         | none => none)
    else some (.next, st)

/-- `for k, v := range s` over a `[]any` -/
def loopAnys (W : World Ω) : Nat → String → String → List Val → Nat → Block → St Ω → Option (Ctl × St Ω)
  | 0, _, _, _, _, _, _ => none
  | fuel + 1, k, v, l, i, body, st =>
    match l with
    | [] => some (.next, st)
    | x :: rest =>
      let m := st.env.length
      let st0 := { st with env := (st.env.push k (.int i)).push v (GV.ofVal x) }
      (match execBlock W fuel body st0 with
       | some (.brk, st2) => some (.next, popSt st2 m)
       | some (.ret vs, st2) => some (.ret vs, popSt st2 m)
       | some (_, st2) => loopAnys W fuel k v rest (i + 1) body (popSt st2 m)
       | none => none)

/-- `for k, v := range m` over the pairs the world enumerated for `m` (fixed when the loop starts: Go's `range` over a map
    that the body does not grow or shrink, and over a slice header evaluated once) -/
def loopPairs (W : World Ω) : Nat → String → String → List (GV × GV) → Block → St Ω → Option (Ctl × St Ω)
  | 0, _, _, _, _, _ => none
  | fuel + 1, k, v, l, body, st =>
    match l with
    | [] => some (.next, st)
    | (kx, vx) :: rest =>
      let m := st.env.length
      let st0 := { st with env := (st.env.push k kx).push v vx }
      (match execBlock W fuel body st0 with
       | some (.brk, st2) => some (.next, popSt st2 m)
       | some (.ret vs, st2) => some (.ret vs, popSt st2 m)
       | some (_, st2) => loopPairs W fuel k v rest body (popSt st2 m)
       | none => none)

/-- channel operands of the cases of a `select` (`case <-e:`) -/
def evalGuards (W : World Ω) : Nat → Cases → St Ω → Option (List GV × St Ω)
  | 0, _, _ => none
  | fuel + 1, cs, st =>
    match cs with
    | .nil => some ([], st)
    | .cons (.un op e) _ rest =>
      if op == "<-" then
        match evalExpr W fuel e st with
        | some ([c], st1) => (evalGuards W fuel rest st1).map fun (l, st2) => (c :: l, st2)
        | _ => none
      else none
    | .cons _ _ _ => none

/-- `switch bind := v.(type)`: the first case one of whose types the value has -/
def switchCases (W : World Ω) : Nat → String → GV → Cases → St Ω → Option (Ctl × St Ω)
  | 0, _, _, _, _ => none
  | fuel + 1, bind, v, cs, st =>
    match cs with
    | .nil => some (.next, st)
    | .cons (.lit _ (.cons (.var ty) .nil)) body rest =>
      (match W.assert v ty st.w with
       | some (v', true) =>
         let n := st.env.length
         (execBlock W fuel body { st with env := st.env.push bind v' }).map fun (c, st2) => (c, popSt st2 n)
       | some (_, false) => switchCases W fuel bind v rest st
       | none => none)
    | .cons (.var _) body .nil =>     -- `default:` (only as the last clause)
      let n := st.env.length
      (execBlock W fuel body { st with env := st.env.push bind v }).map fun (c, st2) => (c, popSt st2 n)
    | .cons _ _ _ => none
end

/-- call a translated function: bind receiver and parameters, run the body; a body that falls off its end returns nothing -/
def callFunc (W : World Ω) (fuel : Nat) (f : Func) (recvArgs : List GV) (heap : Heap) (w : Ω) :
    Option (List GV × Heap × Ω) :=
  let names := (if f.recv == "" then [] else [f.recv]) ++ f.params
  match Env.pushAll [] names recvArgs with
  | none => none
  | some env =>
    match execBlock W fuel f.body { env := env, heap := heap, w := w } with
    | some (.ret vs, st) => some (vs, st.heap, st.w)
    | some (.next, st) => some ([], st.heap, st.w)
    | _ => none

end Flyt.GoIR
