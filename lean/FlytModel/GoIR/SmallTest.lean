import FlytModel.GoIR.SmallWorld
import FlytModel.Generated.IR
/-! executable check of the statements of `Refine/Small.lean` on the CURRENT translation (`Flyt.Generated.IR`): every `#eval`
    must print 0 -/
open Flyt Flyt.GoIR Flyt.GoIR.SmallW Flyt.Generated.IR

def F := 30
def count (l : List Bool) : Nat := (l.filter (!·)).length

def vals : List Val := [.tok 0, .tok 5, .res (.tok 7) none, .res (.tok 0) (some (.user 9)), .res (.res (.tok 2) none) none, .res (.tok 3) (some (.ctx .canceled))]
def gvs : List GV := [.nil, .val (.tok 0), .val (.tok 4), .result ⟨.tok 1, none⟩, .result ⟨.tok 0, some (.user 2)⟩, .str "x", .int 3, .ref "store" 5, .err (.user 1)]
def errs : List ErrRoot := [.user 0, .user 7, .ctx .canceled, .ctx .deadline, .fw .batchStopped, .fw .other]
def heaps : List Heap := [[], [[⟨.tok 1, none⟩]]]

/-! ### 1. `BaseNode` defaults (`baseWorld`; receiver, context, store and payloads arbitrary) -/
def runBase (f : Func) (args : List GV) (h : Heap) : Option (List GV × Heap × Unit) := callFunc baseWorld F f args h ()
#eval count (heaps.flatMap fun h => gvs.flatMap fun a => gvs.map fun b => runBase BaseNode_Prep [baseH, a, b] h == some ([.nil, .nil], h, ()))
#eval count (heaps.flatMap fun h => gvs.flatMap fun a => gvs.map fun b => runBase BaseNode_Exec [baseH, a, b] h == some ([.nil, .nil], h, ()))
#eval count (heaps.flatMap fun h => gvs.flatMap fun a => gvs.map fun b => runBase BaseNode_Post [baseH, ctxH, storeH 3, a, b] h == some ([.str defaultAction, .nil], h, ()))
#eval count (heaps.flatMap fun h => gvs.flatMap fun a => gvs.map fun b => runBase BaseNode_ExecFallback [baseH, a, b] h == some ([.nil, b], h, ()))
-- … and these are the entries of `leafWorld` for an absent phase / a pass-through fallback
def leafCfg : LeafCfg := { retryable := true, budget := 2, wait := 0, fb := .passThrough, prepS := .absent, execS := .absent, postS := .absent }
def leafScr : LeafScript := { prep := { res := .ok (.tok 1) }, exec := fun _ => { res := .ok (.tok 1) }, waitCancel := fun _ => false, fb := { res := .ok (.tok 1) }, post := { res := .ok "a" } }
def leafM (m : String) (args : List GV) : Option (List GV) := ((leafWorld .canceled 1 0 leafCfg leafScr).mcall (.node 1) m args [] ⟨[], .live, 0⟩).map (·.1)
#eval count (gvs.flatMap fun a => gvs.map fun b => (runBase BaseNode_Prep [baseH, a, b] []).map (·.1) == leafM "Prep" [a, b])
#eval count (gvs.flatMap fun a => gvs.map fun b => (runBase BaseNode_Exec [baseH, a, b] []).map (·.1) == leafM "Exec" [a, b])
#eval count (gvs.flatMap fun a => gvs.map fun b => (runBase BaseNode_Post [baseH, ctxH, storeH 3, a, b] []).map (·.1) == leafM "Post" [ctxH, storeH 3, a, b])
#eval count (gvs.flatMap fun a => errs.map fun e => (runBase BaseNode_ExecFallback [baseH, a, .err e] []).map (·.1) == leafM "ExecFallback" [a, .err e])

/-! ### 2. delegations (`delegWorld`): same arguments, in the same order, to the embedded node; results passed through unchanged -/
def rets : List (String → List GV → Option (List GV)) :=
  [fun _ _ => some [.nil, .nil], fun m as => some (.str m :: as), fun _ _ => some [], fun _ _ => none, fun _ as => some [.int as.length, .err (.user 3)]]
def deleg (f : Func) (b e : GV) (m : String) (n : Nat) : Nat :=
  count (rets.flatMap fun ret => gvs.map fun a =>
    let args := (gvs.take n).map fun x => if x == .nil then a else x
    runDeleg F f ret (b :: args) == (ret m args).map fun rs => (rs, [⟨e, m, args⟩]))
#eval deleg NodeBuilder_Prep nbH cnH "Prep" 2
#eval deleg NodeBuilder_Exec nbH cnH "Exec" 2
#eval deleg NodeBuilder_Post nbH cnH "Post" 4
#eval deleg NodeBuilder_ExecFallback nbH cnH "ExecFallback" 2
#eval deleg BatchNodeBuilder_Prep bnbH bnH "Prep" 2
#eval deleg BatchNodeBuilder_Exec bnbH bnH "Exec" 2
#eval deleg BatchNodeBuilder_Post bnbH bnH "Post" 4

/-! ### 3. `BatchNode.Prep` / `BatchNode.Post` = the `Prep` / `Post` entries of `batchWorld` -/
def shapes : List PrepShape := [.results, .anys, .typed, .single, .nilv]
def preps : List (Out (List Val)) := [{ res := .ok [] }, { res := .ok vals }, { res := .ok [.tok 3], cancels := true }, { res := .error 4 }, { res := .error 1, cancels := true }]
def posts : List (Out Action) := [{ res := .ok "a" }, { res := .ok "", cancels := true }, { res := .error 3 }, { res := .error 1, junk := some "zz" }]
def postA : Out Action := { res := .ok "a" }
def prepE : Out (List Val) := { res := .ok [] }
def item0 : ItemScript := { exec := fun _ => { res := .ok (.tok 1) }, waitCancel := fun _ => false, fb := { res := .ok (.tok 1) } }
def bcfg (s : PrepShape) (hp : Bool) : BatchCfg := { budget := 1, wait := 0, fb := .passThrough, conc := 0, stop := false, execS := .res, hasPost := hp, shape := s }
def bscr (p : Out (List Val)) (a : Out Action) : BatchScript := { prep := p, item := fun _ => item0, post := a }
def obs (r : Option (List GV × Heap × SeqW)) : Option (List GV × Heap × List Ev × Ctx) := r.map fun x => (x.1, x.2.1, x.2.2.evs, x.2.2.ctx)
def w0s : List SeqW := [⟨[], .live⟩, ⟨[.bprep 9 9 9], .done .deadline⟩]
def bheaps : List Heap := [[], [[⟨.tok 1, none⟩, ⟨.tok 2, some (.user 1)⟩, ⟨.tok 3, none⟩], [⟨.tok 4, none⟩, ⟨.tok 0, some (.fw .batchStopped)⟩]]]
#eval count (shapes.flatMap fun s => preps.flatMap fun p => w0s.flatMap fun w => bheaps.flatMap fun h => [storeH 5, ctxH].map fun sh =>
  obs (callFunc (batchNodeWorld .canceled 2 1 (bcfg s true) (bscr p postA)) F BatchNode_Prep [bnH, ctxH, sh] h w) ==
    obs ((batchWorld .canceled 2 1 (bcfg s true) (bscr p postA)).mcall (.node 2) "Prep" [ctxH, sh] h w))
def slices : List GV := [.slice 0 0 3, .slice 0 1 2, .slice 1 0 2, .slice 1 2 0, .slice 7 0 0]
#eval count ([true, false].flatMap fun hp => posts.flatMap fun a => w0s.flatMap fun w => bheaps.flatMap fun h => slices.flatMap fun its => slices.flatMap fun res =>
  [storeH 5, ctxH].map fun sh =>
  obs (callFunc (batchNodeWorld .canceled 2 1 (bcfg .results hp) (bscr prepE a)) F BatchNode_Post [bnH, ctxH, sh, its, res] h w) ==
    obs ((batchWorld .canceled 2 1 (bcfg .results hp) (bscr prepE a)).mcall (.node 2) "Post" [ctxH, sh, its, res] h w))

/-! ### 4. `Result`: the source of the constructors and readers vs. the interpreter's built-ins and `Core.lean` -/
def tyName : Val → String
  | .tok n => s!"T{n}"
  | .res .. => "flyt.Result"
def rs : List Result := (vals.map toResult) ++ [⟨.tok 4, some (.user 1)⟩, ⟨.res (.tok 1) none, some (.fw .other)⟩]
-- the constructors: the keyed struct literals of their bodies vs. `Core.lean` and vs. the interpreter's built-in `NewResult` / `NewErrorResult`
#eval count (gvs.map fun v => runResult F NewResult tyName [v] == some [.result (newResult v.toVal)])
#eval count (gvs.map fun v => runResult F NewResult tyName [v] == builtin F (.call "NewResult" E[(.var "v")]) "v" v)
#eval count (errs.map fun e => runResult F NewErrorResult tyName [.err e] == some [.result (newErrorResult e)])
#eval count (errs.map fun e => runResult F NewErrorResult tyName [.err e] == builtin F (.call "NewErrorResult" E[(.var "err")]) "err" (.err e))
#eval count [runResult F NewErrorResult tyName [.nil] == some [.result ⟨Val.nil, none⟩]]
-- `R` (calls `NewResult`, a built-in of the interpreter)
#eval count (gvs.map fun v => runResult F R tyName [v] == some [.result (newResult v.toVal)])
#eval count (gvs.map fun v => runResult F R tyName [v] == builtin F (.call "NewResult" E[(.var "v")]) "v" v)
-- readers
#eval count (rs.map fun r => runResult F Result_IsError tyName [.result r] == some [.bool r.isError])
#eval count (rs.map fun r => runResult F Result_IsError tyName [.result r] == builtin F (.mcall (.var "r") "IsError" E[]) "r" (.result r))
#eval count (rs.map fun r => runResult F Result_Value tyName [.result r] == some [if r.isError then .nil else GV.ofVal r.value])
#eval count (rs.map fun r => (runResult F Result_Value tyName [.result r]).map (·.map GV.toVal) == some [r.valueOf])
#eval count (rs.map fun r => (runResult F Result_Value tyName [.result r]).map (·.map fun x => (x.toVal, x.isNil)) ==
  (builtin F (.mcall (.var "r") "Value" E[]) "r" (.result r)).map (·.map fun x => (x.toVal, x.isNil)))
#eval count (rs.map fun r => runResult F Result_Error tyName [.result r] == some [errGV r.err])
#eval count (rs.map fun r => runResult F Result_IsNil tyName [.result r] == some [.bool (resIsNil r)])
#eval count (rs.map fun r => runResult F Result_Type tyName [.result r] == some [.str (resType tyName r)])


/-! ### 5. `BatchError.Error` -/
def sprintf (fmt : String) (args : List GV) : String := fmt ++ "|" ++ toString (repr args)
def errLists : List (List ErrRoot) := [[], [.user 1], [.ctx .canceled, .user 2], errs]
#eval count (errLists.map fun l => (callFunc (batchErrorWorld sprintf l) F BatchError_Error [beH] [] ()).map (·.1) == some [.str (batchErrorMsg sprintf l)])

/-! ### the least recursion depths at which the runs are not stuck = the constants `K` of `Refine/Small.lean` -/
def least (g : Nat → Bool) : Nat := ((List.range 40).find? g).getD 99
def leastIs (k : Nat) (g : Nat → Bool) : Nat := if least g == k then 0 else 1
def ret0 : String → List GV → Option (List GV) := fun _ _ => some [.nil, .nil]
def r0 : GV := .result ⟨.tok 1, none⟩
def bw (hp : Bool) (s : PrepShape) := batchNodeWorld .canceled 2 1 (bcfg s hp) (bscr prepE postA)
#eval [leastIs 5 fun k => (callFunc baseWorld k BaseNode_Prep [baseH, .nil, .nil] [] ()).isSome,
       leastIs 5 fun k => (callFunc baseWorld k BaseNode_Exec [baseH, .nil, .nil] [] ()).isSome,
       leastIs 5 fun k => (callFunc baseWorld k BaseNode_Post [baseH, .nil, .nil, .nil, .nil] [] ()).isSome,
       leastIs 5 fun k => (callFunc baseWorld k BaseNode_ExecFallback [baseH, .nil, .nil] [] ()).isSome,
       leastIs 7 fun k => (runDeleg k NodeBuilder_Prep ret0 [nbH, .nil, .nil]).isSome,
       leastIs 7 fun k => (runDeleg k NodeBuilder_Exec ret0 [nbH, .nil, .nil]).isSome,
       leastIs 9 fun k => (runDeleg k NodeBuilder_Post ret0 [nbH, .nil, .nil, .nil, .nil]).isSome,
       leastIs 7 fun k => (runDeleg k NodeBuilder_ExecFallback ret0 [nbH, .nil, .nil]).isSome,
       leastIs 7 fun k => (runDeleg k BatchNodeBuilder_Prep ret0 [bnbH, .nil, .nil]).isSome,
       leastIs 7 fun k => (runDeleg k BatchNodeBuilder_Exec ret0 [bnbH, .nil, .nil]).isSome,
       leastIs 9 fun k => (runDeleg k BatchNodeBuilder_Post ret0 [bnbH, .nil, .nil, .nil, .nil]).isSome,
       leastIs 9 fun k => (callFunc (bw true .results) k BatchNode_Prep [bnH, ctxH, storeH 1] [] ⟨[], .live⟩).isSome,
       leastIs 13 fun k => (callFunc (bw true .results) k BatchNode_Post [bnH, ctxH, storeH 1, .slice 0 0 0, .slice 0 0 0] [[]] ⟨[], .live⟩).isSome,
       leastIs 6 fun k => (runResult k NewResult tyName [.nil]).isSome,
       leastIs 6 fun k => (runResult k NewErrorResult tyName [.err (.user 1)]).isSome,
       leastIs 6 fun k => (runResult k R tyName [.nil]).isSome,
       leastIs 6 fun k => (runResult k Result_IsError tyName [r0]).isSome,
       leastIs 6 fun k => (runResult k Result_Value tyName [r0]).isSome,
       leastIs 5 fun k => (runResult k Result_Error tyName [r0]).isSome,
       leastIs 6 fun k => (runResult k Result_IsNil tyName [r0]).isSome,
       leastIs 9 fun k => (runResult k Result_Type tyName [r0]).isSome,
       leastIs 12 fun k => (callFunc (batchErrorWorld sprintf [.user 1, .user 2]) k BatchError_Error [beH] [] ()).isSome].sum
