import FlytModel.Model.Config
import FlytModel.GoIR.Interp
import FlytModel.GoIR.Closures
/-!
# World of the configuration setters and getters (property C19)

One object — the node under construction, `.ref "node" 0` — with the fields of `BaseNode` / `CustomNode` / `BatchNode` (the embedded
structs' fields are promoted, `b.BaseNode` / `b.CustomNode` are the same object), held in the world state as the model's
`Config.Node`. A user function value is `.ref "userfn" tag`; a wrapper closure built by a `…FuncAny` setter is the interpreter's
opaque `.ref "closure" 0`, recorded with the tag of the step being executed (`tag`, a parameter of the world: which user function the
wrapper calls is the subject of the adapter theorems). Calling an option constructor (`WithMaxRetries(r)`) yields an option value whose
application `(…)(b.BaseNode)` is `Config.applyNodeOption` — justified by the refinement theorem of that option's own closure.
-/
namespace Flyt.GoIR.ConfigW
open Flyt Flyt.GoIR Flyt.Config

structure CW where
  node : Node
  pending : Option Setting := none      -- the option value most recently constructed by `WithMaxRetries(r)` / `WithWait(w)`
  deriving DecidableEq, Repr

def nodeH : GV := .ref "node" 0
def userfn (tag : Nat) : GV := .ref "userfn" tag

def ehStr : EH → String
  | .unset => ""
  | .stop => "stop"
  | .cont => "continue"

def fnOf (tag : Nat) (v : GV) : Option Fn :=
  match v with
  | .ref "userfn" t => some ⟨t, false⟩
  | .ref "closure" _ => some ⟨tag, true⟩
  | _ => none

def configWorld (tag : Nat) : World CW where
  call fn args h w :=
    match fn, args with
    | "WithMaxRetries", [.int r] => some ([.ref "opt" 0], h, { w with pending := some (.maxRetries r) })
    | "WithWait", [.int d] => some ([.ref "opt" 0], h, { w with pending := some (.wait d) })
    | _, _ => none
  mcall recv m args h w :=
    match recv with
    | .ref "opt" _ =>
      (match m, args, w.pending with
       | "()", [.ref "node" _], some s => some ([], h, { node := { w.node with base := applyNodeOption s w.node.base }, pending := none })
       | _, _, _ => none)
    | .ref "mutex" _ => if m == "RLock" ∨ m == "defer:RUnlock" then some ([], h, w) else none
    | .ref "node" _ =>
      if m == "GetMaxRetries" then some ([.int (getMaxRetries w.node)], h, w)
      else if m == "GetWait" then some ([.int (getWait w.node)], h, w)
      else none
    | _ => none
  assert _ _ _ := none
  field x f w :=
    match x with
    | .ref "node" _ =>
      if f == "BaseNode" ∨ f == "CustomNode" ∨ f == "BatchNode" then some x
      else if f == "mu" then some (.ref "mutex" 0)
      else if f == "maxRetries" then some (.int w.node.base.maxRetries)
      else if f == "wait" then some (.int w.node.base.wait)
      else if f == "batchConcurrency" then some (.int w.node.base.batchConcurrency)
      else if f == "batchErrorHandling" then some (.str (ehStr w.node.base.batchErrorHandling))
      else none
    | _ => none
  setField x f v w :=
    match x with
    | .ref "node" _ =>
      let n := w.node
      if f == "maxRetries" then (match v with | .int r => some { w with node := { n with base := { n.base with maxRetries := r } } } | _ => none)
      else if f == "wait" then (match v with | .int r => some { w with node := { n with base := { n.base with wait := r } } } | _ => none)
      else if f == "batchConcurrency" then (match v with | .int r => some { w with node := { n with base := { n.base with batchConcurrency := r } } } | _ => none)
      else if f == "batchErrorHandling" then
        (match v with
         | .str s => if s == "continue" then some { w with node := { n with base := { n.base with batchErrorHandling := .cont } } }
                     else if s == "stop" then some { w with node := { n with base := { n.base with batchErrorHandling := .stop } } }
                     else none
         | _ => none)
      else if f == "prepFunc" then (fnOf tag v).map fun g => { w with node := { n with prepFunc := some g } }
      else if f == "execFunc" then (fnOf tag v).map fun g => { w with node := { n with execFunc := some g } }
      else if f == "postFunc" then (fnOf tag v).map fun g => { w with node := { n with postFunc := some g } }
      else if f == "execFallbackFunc" then (fnOf tag v).map fun g => { w with node := { n with execFallbackFunc := some g } }
      else if f == "batchPrepFunc" then (fnOf tag v).map fun g => { w with node := { n with batchPrepFunc := some g } }
      else if f == "batchPostFunc" then (fnOf tag v).map fun g => { w with node := { n with batchPostFunc := some g } }
      else none
    | _ => none
  mapIndex _ _ _ := none
  select _ _ := none
  global _ := none

/-- a closure with the variables it captures as leading parameters -/
def withCaptured (f : Func) (captured : List String) : Func := { f with params := captured ++ f.params }

def run (fuel : Nat) (f : Func) (tag : Nat) (args : List GV) (n : Node) : Option (List GV × Node) :=
  (callFunc (configWorld tag) fuel f args [] { node := n }).map fun r => (r.1, r.2.2.node)

end Flyt.GoIR.ConfigW
