import FlytModel.GoIR.ValueWorld
/-!
# World of the GENERIC accessors (property C15): `As[T]`, `MustAs[T]` (result.go:378-399)

One world per instantiation of the type parameter: `genericWorld t v` is the world in which `T` IS the type `t : GoType`. As in
`GoIR/ValueWorld.lean` (whose encoding this world reuses: `rH`, `goH`, `encV`), the value the `Result` holds is the world's
parameter `v : GoVal` and travels as the handle `.ref "go" 0` (`GV.nil` when it is the nil interface); the receiver is `.ref "r" 0`.
Everything this world does not answer itself it hands to `valueWorld` (`r.value`, `fmt.Sprintf`, and `panic` = stuck).

What this world adds

* **`var zero T`** — the interpreter has no zero value for the type name `T` and asks the world for the global `zero:T`: the
  zero value of `t` (`Value.zeroOf t`), as the handle `.ref "zero" 0` (`GV.nil` when that zero value is the nil interface, i.e.
  when `t` is an interface type) — `encZ t`.
* **`x.(T)`** — Go's type assertion to `t`, decided on the DYNAMIC TYPE of the value (`GoVal.typeOf?`) and written down
  independently of the model's `asT`: it holds iff `t` is `any` and the value is not the nil interface, or the dynamic type is
  identical to `t`; then the asserted value is the value itself, otherwise the zero value of `t` and `false` (`assertT`).
  In particular the assertion FAILS on the nil interface — that `As[T]` never gets there is the nil check's doing.
* **`r.value == nil`** is the interpreter's own `==` on the encoding (`GV.nil` vs. a handle).
* **`As[T](r)`** (called by `MustAs[T]`) — the model's `asT t v`, the function `Refine/Generic.lean` proves `As` to compute.
* **`T`** as an expression (the operand of `new(T)`) is the handle `.ref "type:T" 0`, `new(T)` is `.ref "new:T" 0`.
  (`*new(T)` is a pointer dereference, which the interpreter does not have: the failing branch of `MustAs` is stuck there,
  one step before `panic(…)` — which is stuck as well, so the verdict `none` is the same.)

`encG t v` encodes the two values a run can produce (`v` itself, the zero value of `t`), `decG t v` reads a handle back.
Core Lean only, executable (`GoIR/GenericTest.lean`).
-/
namespace Flyt.GoIR.GenericW
open Flyt Flyt.GoIR Flyt.Value Flyt.GoIR.ValueW

def zeroH : GV := .ref "zero" 0
def typeH : GV := .ref "type:T" 0
def newH : GV := .ref "new:T" 0

/-- `var zero T` for `T = t`: a handle, or `nil` when the zero value of `t` is the nil interface -/
def encZ (t : GoType) : GV :=
  match Value.zeroOf t with
  | .nil => .nil
  | _ => zeroH

/-- the values `As[T]` can hand back, as interpreter values: the value `v` the Result holds (`encV v`), the zero value of `t` -/
def encG (t : GoType) (v : GoVal) (x : GoVal) : GV :=
  if x = v then encV v else if x = Value.zeroOf t then encZ t else .ref "undef" 0

/-- a handle read back -/
def decG (t : GoType) (v : GoVal) : GV → Option GoVal
  | .nil => some .nil
  | .ref "go" _ => some v
  | .ref "zero" _ => some (Value.zeroOf t)
  | _ => none

/-- `x.(T)` for `T = t` and the value `v`, from the dynamic type -/
def assertT (t : GoType) (v : GoVal) : GV × Bool :=
  if (t = .any ∧ v ≠ .nil) ∨ v.typeOf? = some t then (encV v, true) else (encZ t, false)

/-- the conversions of `valueWorld` are not consulted by `As` / `MustAs` -/
def noConv : Conv := { f2i := fun _ _ => none, f32to64 := fun b => b, i2f := fun _ => 0 }

/-- what `As[T](r)` returns, as interpreter values -/
def asCall (t : GoType) (v : GoVal) : List GV := [encG t v (asT t v).1, .bool (asT t v).2]

def genericWorld (t : GoType) (v : GoVal) : World Unit where
  call fn args h w :=
    match fn, args with
    | "As[T]", [.ref "r" _] => some (asCall t v, h, w)
    | "new", [.ref "type:T" _] => some ([newH], h, w)
    | _, _ => (valueWorld noConv v ⟨none⟩).call fn args h w        -- `fmt.Sprintf`; `panic` is stuck
  mcall _ _ _ _ _ := none
  assert x ty _ :=
    if ty == "T" then
      match x with
      | .ref "go" _ => some (assertT t v)
      | .nil => some (assertT t .nil)
      | _ => none
    else none
  field x f w := (valueWorld noConv v ⟨none⟩).field x f w          -- `r.value`
  mapIndex _ _ _ := none
  select _ _ := none
  global x := if x == "zero:T" then some (encZ t) else if x == "T" then some typeH else none

/-- run `As[T]` / `MustAs[T]` for `T = t` on a Result holding `v` -/
def runGeneric (fuel : Nat) (f : Func) (t : GoType) (v : GoVal) : Option (List GV) :=
  (callFunc (genericWorld t v) fuel f [rH] [] ()).map (·.1)

/-- the results of `As[T]` read back as the model's pair -/
def decAs (t : GoType) (v : GoVal) : List GV → Option (GoVal × Bool)
  | [g, .bool ok] => (decG t v g).map fun x => (x, ok)
  | _ => none

/-- the result of `MustAs[T]` read back -/
def decMust (t : GoType) (v : GoVal) : List GV → Option GoVal
  | [g] => decG t v g
  | _ => none

/-- `As[T]`, decoded -/
def runAs (fuel : Nat) (f : Func) (t : GoType) (v : GoVal) : Option (GoVal × Bool) :=
  (runGeneric fuel f t v).bind (decAs t v)

/-- `MustAs[T]`, decoded (`none`: stuck, i.e. the panic) -/
def runMustAs (fuel : Nat) (f : Func) (t : GoType) (v : GoVal) : Option GoVal :=
  (runGeneric fuel f t v).bind (decMust t v)

end Flyt.GoIR.GenericW
