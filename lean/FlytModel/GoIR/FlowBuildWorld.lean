import FlytModel.Model.Config
import FlytModel.GoIR.Worlds
/-!
# World of the flow CONSTRUCTION API (`NewFlow`, `Flow.Connect`) and of the flow's adapter methods (`Flow.Prep`, `Flow.Post`, `Flow.Run`)

One flow object, `.ref "flow" 0`, held in the world state as

* `base`  — the embedded `*BaseNode` (`NewBaseNode()` is an opaque call of this world: it yields the default `Config.newBaseNode`);
* `start` — the field `start` (`none` = nil);
* `outer` — the field `transitions map[Node]map[Action]Node`, the map object `.ref "trans" 0`: an association list from a node to the
  HANDLE of its inner map. Go's inner maps are references: `f.transitions[from]` yields the inner map OBJECT (or nil) and
  `f.transitions[from][action] = to` writes through that reference, so the inner maps live in
* `heap`  — a heap of inner-map objects; `.ref "inner" k` is cell `k`, `make(map[Action]Node)` allocates a new (empty) cell.

The value-level table of the hand-written model is a VIEW of this state (`view`: dereference every handle); that `Connect` acts on the
view exactly like the model's `connect` is a theorem (`Refine/FlowBuild.lean`, `view_connectObj`), under the invariant that no two
entries of `outer` share an inner map and no handle dangles (`Obj.WF`, established by `NewFlow`, preserved by `Connect`).

Both association levels are written with the model's own `assocSet` (a Go map has no order; the order of an association list is
unobservable through `assocGet` / `tableLookup`, and using the same insertion discipline makes the view EQUAL to the model's table, not
only lookup-equivalent to it).

`make(map[Node]map[Action]Node)` yields `.ref "newtrans" 0`: a fresh, empty outer map that is not yet anybody's field. It cannot be read
or written (stuck) until the composite literal `&Flow{…, transitions: …}` makes it THE flow's `transitions` map — hence it is still empty
then. The world has a single flow identity: the literal (re)creates that object.

`Run(ctx, f, shared)` on the flow is the model's `runNode env · fid` (`fid`: the flow's node id in the arena `env`; refinement theorem of
that call: `Run_refines_runNode_flow`). Nodes are `.node id`, a nil node is `.nil`, actions are `.str a`.
-/
namespace Flyt.GoIR.FlowBuildW
open Flyt Flyt.GoIR

abbrev Inner := List (Action × Option NodeId)

/-- the flow object and the inner-map heap -/
structure Obj where
  base : Option Config.BaseNode := none
  start : Option NodeId := none
  outer : List (NodeId × Nat) := []
  heap : List Inner := []
  deriving DecidableEq, Repr

structure FBW where
  obj : Obj
  run : FlowW          -- events so far, run state, fuel of the model's `runNode` (ghost), as in `flowWorld`

def flowH : GV := .ref "flow" 0
def transH : GV := .ref "trans" 0
def baseH : GV := .ref "basenode" 0
def innerH (k : Nat) : GV := .ref "inner" k

/-- a `Node` value: nil or a node -/
def tgtGV : Option NodeId → GV
  | none => .nil
  | some d => .node d

def tgtOf : GV → Option (Option NodeId)
  | .nil => some none
  | .node d => some (some d)
  | _ => none

def innerOf (hp : List Inner) (k : Nat) : Inner := (hp[k]?).getD []

/-- the value-level table: every handle dereferenced -/
def view (o : Obj) : Table := o.outer.map fun p => (p.1, innerOf o.heap p.2)

/-- no two entries of the outer map share an inner map, no handle dangles -/
def Obj.WF (o : Obj) : Prop := o.outer.Pairwise (fun p q => p.2 ≠ q.2) ∧ ∀ p ∈ o.outer, p.2 < o.heap.length

/-- what `Run` hands back for an outcome of the model -/
def runRets : Outcome → Option (List GV)
  | .ok a => some [.str a, .nil]
  | .err e => some [.str "", .err e]
  | .both a e => some [.str a, .err e]
  | .fuel => none

def flowBuildWorld (env : Flyt.Env) (fid : NodeId) : World FBW where
  call fn args h w :=
    match fn, args with
    | "NewBaseNode", [] => some ([baseH], h, w)
    | "make:map[Node]map[Action]Node", _ => some ([.ref "newtrans" 0], h, w)
    | "make:map[Action]Node", _ =>
      some ([innerH w.obj.heap.length], h, { w with obj := { w.obj with heap := w.obj.heap ++ [[]] } })
    | "lit:Flow:BaseNode,start,transitions,", [.ref "basenode" _, s, .ref "newtrans" _] =>
      (tgtOf s).map fun s' => ([flowH], h, { w with obj := { base := some Config.newBaseNode, start := s', outer := [], heap := w.obj.heap } })
    | "Run", [_, .ref "flow" _, sh] =>
      (match storeIdOf sh with
       | some sid =>
         let r := runNode env w.run.mfuel fid sid w.run.st
         (runRets r.2.2).map fun rs => (rs, h, { w with run := { evs := w.run.evs ++ r.1, st := r.2.1, mfuel := w.run.mfuel } })
       | none => none)
    | _, _ => none
  mcall _ _ _ _ _ := none
  assert x ty _ :=
    if ty == "Action" then
      match x with
      | .str a => some (.str a, true)        -- an `Action` travelling as `any` (what `Flow.Exec` returns)
      | _ => some (.str "", false)
    else none
  field x f w :=
    match x with
    | .ref "flow" _ =>
      if f == "start" then some (tgtGV w.obj.start)
      else if f == "transitions" then some transH
      else none
    | _ => none
  mapIndex m k w :=
    match m, k with
    | .ref "trans" _, .node n =>
      (match assocGet w.obj.outer n with
       | some i => some (innerH i, true)
       | none => some (.nil, false))
    | .ref "inner" i, .str a =>
      (match w.obj.heap[i]? with
       | some cell =>
         (match assocGet cell a with
          | some d => some (tgtGV d, true)
          | none => some (.nil, false))
       | none => none)
    | _, _ => none
  setIndex m k v w :=
    match m, k, v with
    | .ref "trans" _, .node n, .ref "inner" i => some { w with obj := { w.obj with outer := assocSet w.obj.outer n i } }
    | .ref "inner" i, .str a, v =>
      (match tgtOf v with
       | some d =>
         if i < w.obj.heap.length then
           some { w with obj := { w.obj with heap := w.obj.heap.set i (assocSet (innerOf w.obj.heap i) a d) } }
         else none
       | none => none)
    | _, _, _ => none
  select _ _ := none
  global x := if x == "DefaultAction" then some (.str defaultAction) else none

/-- the state before anything was built -/
def blank : Obj := {}

/-- run one translated function on the object state (the run part of the world idle) -/
def idle : FlowW := { evs := [], st := { ctx := .live, visits := fun _ => 0 }, mfuel := 0 }

/-- an arena for the functions that never call `Run` (every node a flow without start node; the scripts are never consulted) -/
def noEnv : Flyt.Env :=
  { kind := .canceled, arena := fun _ => .flow none [],
    leafBeh := fun _ _ => { prep := { res := .ok Val.nil }, exec := fun _ => { res := .ok Val.nil }, waitCancel := fun _ => false,
                            fb := { res := .ok Val.nil }, post := { res := .ok "" } },
    batchBeh := fun _ _ => { prep := { res := .ok [] }, post := { res := .ok "" },
                             item := fun _ => { exec := fun _ => { res := .ok Val.nil }, waitCancel := fun _ => false, fb := { res := .ok Val.nil } } } }

/-- a construction / adapter function on the object state: results and new object state -/
def run (fuel : Nat) (f : Func) (args : List GV) (o : Obj) : Option (List GV × Obj) :=
  (callFunc (flowBuildWorld noEnv 0) fuel f args [] { obj := o, run := idle }).map fun r => (r.1, r.2.2.obj)

/-- `NewFlow(start)` and then `Connect` once per operation, each call on the flow the previous one returned -/
def connectArgs (recv : GV) (op : ConnOp) : List GV := [recv, .node op.src, .str op.action, tgtGV op.dst]

def runConnects (fuel : Nat) (connectF : Func) : List ConnOp → GV → Obj → Option (GV × Obj)
  | [], recv, o => some (recv, o)
  | op :: ops, recv, o =>
    match run fuel connectF (connectArgs recv op) o with
    | some ([recv'], o') => runConnects fuel connectF ops recv' o'
    | _ => none

def buildFlowIR (fuel : Nat) (newFlowF connectF : Func) (start : Option NodeId) (ops : List ConnOp) : Option (GV × Obj) :=
  match run fuel newFlowF [tgtGV start] blank with
  | some ([recv], o) => runConnects fuel connectF ops recv o
  | _ => none

/-- the two-level lookup of `Flow.Exec` (`f.transitions[cur]`, then `[action]` on the inner map it yields), done through the world:
    `some none` = no entry, `some (some tgt)` = an entry (`tgt = none`: a nil target), `none` = stuck -/
def lookupW (o : Obj) (n : NodeId) (a : Action) : Option (Option (Option NodeId)) :=
  let W := flowBuildWorld noEnv 0
  let w : FBW := { obj := o, run := idle }
  match W.mapIndex transH (.node n) w with
  | some (m, true) =>
    (match W.mapIndex m (.str a) w with
     | some (v, true) => (tgtOf v).map some
     | some (_, false) => some none
     | none => none)
  | some (_, false) => some none
  | none => none

/-- `Flow.Run(ctx, shared)` in arena `env`, the flow being node `fid`: events, run state, returned error -/
def flowRunIR (fuel : Nat) (f : Func) (env : Flyt.Env) (fid : NodeId) (mfuel : Nat) (sid : StoreId) (st : RunSt) (o : Obj) :
    Option (List Ev × RunSt × List GV) :=
  (callFunc (flowBuildWorld env fid) fuel f [flowH, ctxH, storeH sid] [] { obj := o, run := ⟨[], st, mfuel⟩ }).map
    fun r => (r.2.2.run.evs, r.2.2.run.st, r.1)

/-- the `error` `Flow.Run` returns for an outcome of `Run` (the action is dropped) -/
def errGV : Outcome → GV
  | .ok _ => .nil
  | .err e => .err e
  | .both _ e => .err e
  | .fuel => .nil

end Flyt.GoIR.FlowBuildW

