import FlytModel.Model.Run
import FlytModel.GoIR.Interp
import FlytModel.GoIR.Closures
/-!
# World of the function-style adapters (property C17): `CustomNode.Prep / Exec / Post / ExecFallback` and the Any-style wrappers

A `CustomNode` holds up to four user functions. The world says which of them are set (`Style.absent` = nil field), and what the user's
function does when called: it RECORDS what it is handed (`AW.calls`) and answers according to the script. A Result-style function is
called directly; an Any-style function sits behind the wrapper closure installed by `With…FuncAny` — the wrapper's own refinement
theorem (`Refine/Adapters.lean`) is what justifies the world's entry for it.
-/
namespace Flyt.GoIR.AdapterW
open Flyt Flyt.GoIR

structure AW where
  calls : List (String × List Val)      -- user-function invocations so far: which function, with which payload arguments
  deriving Repr, DecidableEq

def cnH : GV := .ref "cn" 0

structure Cfg where
  prepS : Style
  execS : Style
  postS : Style
  fb : FbKind
  prep : Out Val
  exec : Out Val
  post : Out Action
  fbOut : Out Val

/-- the user's function behind `n.execFunc` as `CustomNode.Exec` sees it: a Result-style function, or the Any-style wrapper around
    the user's function -/
def execFuncSem (c : Cfg) (r : Result) (w : AW) : List GV × AW :=
  let arg := match c.execS with | .any => r.valueOf | _ => r.box
  let w' := { w with calls := w.calls ++ [("exec", [arg])] }
  match c.exec.res with
  | .ok x => ([.result (match c.execS with | .any => newResult x | _ => toResult x), .nil], w')
  | .error e => ([.result ⟨Val.nil, none⟩, .err (.user e)], w')

def prepFuncSem (c : Cfg) (w : AW) : List GV × AW :=
  let w' := { w with calls := w.calls ++ [("prep", [])] }
  match c.prep.res with
  | .ok x => ([.result (match c.prepS with | .any => newResult x | _ => toResult x), .nil], w')
  | .error e => ([.result ⟨Val.nil, none⟩, .err (.user e)], w')

def postFuncSem (c : Cfg) (p e : Result) (w : AW) : List GV × AW :=
  let args := match c.postS with | .any => [p.valueOf, e.valueOf] | _ => [p.box, e.box]
  let w' := { w with calls := w.calls ++ [("post", args)] }
  match c.post.res with
  | .ok a => ([.str a, .nil], w')
  | .error er => ([.str (c.post.junk.getD ""), .err (.user er)], w')

def adapterWorld (c : Cfg) : World AW where
  call fn args h w :=
    -- inside a wrapper closure: `fn` is the user's Any-style function
    match fn, args with
    | "fn", [_, v] =>          -- exec: fn(ctx, value)   /  prep: fn(ctx, shared)
      (match v with
       | .ref "store" _ =>
         let w' := { w with calls := w.calls ++ [("prep", [])] }
         (match c.prep.res with
          | .ok x => some ([GV.ofVal x, .nil], h, w')
          | .error e => some ([.nil, .err (.user e)], h, w'))
       | _ =>
         let w' := { w with calls := w.calls ++ [("exec", [v.toVal])] }
         (match c.exec.res with
          | .ok x => some ([GV.ofVal x, .nil], h, w')
          | .error e => some ([.nil, .err (.user e)], h, w')))
    | "fn", [_, _, pv, ev] =>
      let w' := { w with calls := w.calls ++ [("post", [pv.toVal, ev.toVal])] }
      (match c.post.res with
       | .ok a => some ([.str a, .nil], h, w')
       | .error er => some ([.str (c.post.junk.getD ""), .err (.user er)], h, w'))
    | _, _ => none
  mcall recv m args h w :=
    match recv with
    | .ref "cn" _ =>
      (match m, args with
       | "prepFunc", [_, _] => let r := prepFuncSem c w; some (r.1, h, r.2)
       | "execFunc", [_, .result r] => let x := execFuncSem c r w; some (x.1, h, x.2)
       | "postFunc", [_, _, .result p, .result e] => let x := postFuncSem c p e w; some (x.1, h, x.2)
       | "execFallbackFunc", [pv, .err _] =>
         let w' := { w with calls := w.calls ++ [("fb", [pv.toVal])] }
         (match c.fbOut.res with
          | .ok x => some ([GV.ofVal x, .nil], h, w')
          | .error e' => some ([.nil, .err (.user e')], h, w'))
       | _, _ => none)
    | .ref "base" _ =>
      (match m, args with
       | "Prep", [_, _] => some ([.nil, .nil], h, w)
       | "Exec", [_, _] => some ([.nil, .nil], h, w)
       | "Post", [_, _, _, _] => some ([.str defaultAction, .nil], h, w)
       | "ExecFallback", [_, .err e] => some ([.nil, .err e], h, w)
       | _, _ => none)
    | _ => none
  assert x ty _ :=
    if ty == "Result" then
      match x with
      | .result _ => some (x, true)
      | .val _ => some (.nil, false)
      | .nil => some (.nil, false)
      | _ => none
    else none
  field x f _ :=
    match x with
    | .ref "cn" _ =>
      if f == "prepFunc" then some (if c.prepS == .absent then .nil else .ref "fn" 0)
      else if f == "execFunc" then some (if c.execS == .absent then .nil else .ref "fn" 1)
      else if f == "postFunc" then some (if c.postS == .absent then .nil else .ref "fn" 2)
      else if f == "execFallbackFunc" then some (if c.fb == .custom then .ref "fn" 3 else .nil)
      else if f == "BaseNode" then some (.ref "base" 0)
      else none
    | _ => none
  mapIndex _ _ _ := none
  select _ _ := none
  global _ := none

/-- `x == nil` must see a function value as non-nil -/
def run (fuel : Nat) (f : Func) (c : Cfg) (args : List GV) : Option (List GV × AW) :=
  (callFunc (adapterWorld c) fuel f args [] ⟨[]⟩).map fun r => (r.1, r.2.2)

end Flyt.GoIR.AdapterW
