import FlytModel.Model.Value
import FlytModel.GoIR.Interp
/-!
# World of the typed accessors (property C15): `Result.AsX / AsXOr / MustX`, `SharedStore.GetX / GetXOr`

The interpreter's `GV` has no Go value universe of its own; the value under inspection is the world's parameter `v : GoVal`
(`Model/Value.lean`) and travels as the handle `.ref "go" 0` (`GV.nil` when it is the nil interface). The world answers what the
accessors ask of it: type assertions and type-switch cases (decided on the value's dynamic type exactly like the model's pattern
matching), the numeric conversions `int(v)` / `float64(v)` (exact two's complement for integers, the parameter `Conv` for floats),
`SharedStore.Get`, the float literal `0.0`, and — for the `Or` / `Must` / short variants — the accessor they call, as the model
function its own refinement theorem justifies. `panic(…)` is stuck (`none`).
-/
namespace Flyt.GoIR.ValueW
open Flyt Flyt.GoIR Flyt.Value

def goH : GV := .ref "go" 0
def rH : GV := .ref "r" 0
def sH : GV := .ref "s" 0

/-- an `any` holding `v` -/
def encV (v : GoVal) : GV := match v with | .nil => .nil | _ => goH

def encI : Option Int → GV
  | some n => .int n
  | none => .ref "undef" 0          -- a float→int conversion Go leaves undefined: never compared

def encF (bits : Nat) : GV := .ref "f64" bits
def encM : MapV → GV
  | some id => .ref "map" id
  | none => .nil

/-- `x.(T)` for the value `v` -/
def assertV (v : GoVal) (ty : String) : Option (GV × Bool) :=
  if ty == "string" then
    match v with | .str (.basic .string) s => some (.str s, true) | _ => some (.str "", false)
  else if ty == "bool" then
    match v with | .bool (.basic .bool) b => some (.bool b, true) | _ => some (.bool false, false)
  else if ty == "map[string]any" then
    match v with
    | .map t id => if t = tMapSA then some (encM id, true) else some (.nil, false)
    | _ => some (.nil, false)
  else if ty == "int" then
    match v with | .int (.basic .int) n => some (.int n, true) | _ => some (.int 0, false)
  else if ty == "float64" then
    match v with | .float (.basic .float64) b => some (encF b, true) | _ => some (encF 0, false)
  else
    let intTy : Option Basic :=
      if ty == "int8" then some .int8 else if ty == "int16" then some .int16 else if ty == "int32" then some .int32
      else if ty == "int64" then some .int64 else if ty == "uint" then some .uint else if ty == "uint8" then some .uint8
      else if ty == "uint16" then some .uint16 else if ty == "uint32" then some .uint32 else if ty == "uint64" then some .uint64
      else none
    match intTy with
    | some b =>
      (match v with
       | .int (.basic b') _ => if b' = b then some (goH, true) else some (.int 0, false)
       | _ => some (.int 0, false))
    | none =>
      if ty == "float32" then
        match v with | .float (.basic .float32) _ => some (goH, true) | _ => some (encF 0, false)
      else none

structure Store1 where
  /-- what the store holds under the key the getter is asked for -/
  held : Option GoVal

def storeOf : Option GoVal → Store
  | some x => [("k", x)]
  | none => []

def valueWorld (c : Conv) (v : GoVal) (st : Store1) : World Unit where
  call fn args h w :=
    match fn, args with
    | "conv:int", [.ref "go" _] =>
      (match v with
       | .int _ n => some ([.int (wrap64 n)], h, w)
       | .float (.basic .float32) b => some ([encI (c.f2i true b)], h, w)
       | .float (.basic .float64) b => some ([encI (c.f2i false b)], h, w)
       | _ => none)
    | "conv:int", [.int n] => some ([.int n], h, w)
    | "conv:int", [.ref "f64" b] => some ([encI (c.f2i false b)], h, w)
    | "conv:float64", [.ref "go" _] =>
      (match v with
       | .int _ n => some ([encF (c.i2f n)], h, w)
       | .float (.basic .float32) b => some ([encF (c.f32to64 b)], h, w)
       | _ => none)
    | "conv:float64", [.int n] => some ([encF (c.i2f n)], h, w)
    | "float.lit", [.str _] => some ([encF 0], h, w)
    | "fmt.Sprintf", _ => some ([.str ""], h, w)
    | _, _ => none                                   -- in particular `panic`
  mcall recv m args h w :=
    match recv with
    | .ref "r" _ =>
      if m == "AsString" then some ([.str (asString v).1, .bool (asString v).2], h, w)
      else if m == "AsInt" then some ([encI (asInt c v).1, .bool (asInt c v).2], h, w)
      else if m == "AsFloat64" then some ([encF (asFloat64 c v).1, .bool (asFloat64 c v).2], h, w)
      else if m == "AsBool" then some ([.bool (asBool v).1, .bool (asBool v).2], h, w)
      else if m == "AsMap" then some ([encM (asMap v).1, .bool (asMap v).2], h, w)
      else none
    | .ref "s" _ =>
      if m == "Get" then
        match st.held with
        | some x => some ([encV x, .bool true], h, w)
        | none => some ([.nil, .bool false], h, w)
      else
        match m, args with
        | "GetIntOr", [_, .int n] => some ([encI (getIntOr c (storeOf st.held) "k" (some n))], h, w)
        | "GetFloat64Or", [_, .ref "f64" d] => some ([encF (getFloat64Or c (storeOf st.held) "k" d)], h, w)
        | "GetBoolOr", [_, .bool d] => some ([.bool (getBoolOr (storeOf st.held) "k" d)], h, w)
        | "GetMapOr", [_, .nil] => some ([encM (getMapOr (storeOf st.held) "k" none)], h, w)
        | _, _ => none
    | _ => none
  assert x ty _ :=
    match x with
    | .ref "go" _ => assertV v ty
    | .nil => assertV .nil ty
    | _ => none
  field x f _ :=
    match x with
    | .ref "r" _ => if f == "value" then some (encV v) else none
    | _ => none
  mapIndex _ _ _ := none
  select _ _ := none
  global _ := none

/-- run an accessor method of `Result` (receiver `r`) -/
def runResultAcc (fuel : Nat) (f : Func) (c : Conv) (v : GoVal) (args : List GV) : Option (List GV) :=
  (callFunc (valueWorld c v ⟨none⟩) fuel f (rH :: args) [] ()).map (·.1)

/-- run a getter of `SharedStore` (receiver `s`) on a store holding `held` under the key; the model's value parameter is `held` -/
def runStoreAcc (fuel : Nat) (f : Func) (c : Conv) (held : Option GoVal) (args : List GV) : Option (List GV) :=
  (callFunc (valueWorld c (held.getD .nil) ⟨held⟩) fuel f (sH :: .str "k" :: args) [] ()).map (·.1)

end Flyt.GoIR.ValueW
