import FlytModel.GoIR.Syntax
/-!
# Closures of a translated function, as functions of their own

`closuresOf f` lists the function literals occurring in `f`'s body in source order (a closure before the closures nested in it),
each as a `Func` whose parameters are the literal's parameters. The Any-style wrappers of flyt (`WithExecFuncAny`, the builder
methods of the same name, …) are such closures: their refinement theorems are about `closuresOf`'s output, which is tied to the
current source through the enclosing function's `Tie` obligation.
-/
namespace Flyt.GoIR

mutual
def Expr.closures : Expr → List (List String × Block)
  | .bin _ a b => a.closures ++ b.closures
  | .un _ a => a.closures
  | .call _ args => args.closures
  | .mcall r _ args => r.closures ++ args.closures
  | .sel a _ => a.closures
  | .index a i => a.closures ++ i.closures
  | .sliceFrom a lo => a.closures ++ lo.closures
  | .assert a _ => a.closures
  | .lit _ elts => elts.closures
  | .conv _ a => a.closures
  | .funcLit ps body => (ps, body) :: body.closures
  | _ => []
def Exprs.closures : Exprs → List (List String × Block)
  | .nil => []
  | .cons e es => e.closures ++ es.closures
def Stmt.closures : Stmt → List (List String × Block)
  | .define _ rhs => rhs.closures
  | .assign lhs rhs => lhs.closures ++ rhs.closures
  | .ifS i c t e => i.closures ++ c.closures ++ t.closures ++ e.closures
  | .forS i c p b => i.closures ++ c.closures ++ p.closures ++ b.closures
  | .rangeS _ _ x b => x.closures ++ b.closures
  | .selectS cs => cs.closures
  | .typeSwitch _ x cs => x.closures ++ cs.closures
  | .ret es => es.closures
  | .expr e => e.closures
  | .deferS e => e.closures
  | .goS e => e.closures
  | .send c v => c.closures ++ v.closures
  | _ => []
def Block.closures : Block → List (List String × Block)
  | .nil => []
  | .cons s b => s.closures ++ b.closures
def Cases.closures : Cases → List (List String × Block)
  | .nil => []
  | .cons g b rest => g.closures ++ b.closures ++ rest.closures
end

def closuresOf (f : Func) : List Func :=
  f.body.closures.map fun (ps, body) => { name := f.name ++ ".func", recv := "", params := ps, body := body }

end Flyt.GoIR
