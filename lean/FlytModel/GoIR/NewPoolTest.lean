import FlytModel.GoIR.NewPoolWorld
import FlytModel.Generated.IR
/-!
Executable check of the `NewWorkerPool` statements (`Refine/NewPool.lean`) on the REGENERATED IR (`Flyt.Generated.IR.NewWorkerPool`):
for every `n ∈ {-3, …, 40}` the run in `newPoolWorld` from the empty ghost state, at a generous depth, returns pool 0 and leaves exactly
the trace  make tasks (cap `2w`), make done (unbuffered), pool object (`workers = w`), `w` spawns  (`w = 1` for `n ≤ 0`, else `n`);
the trace is `ctorEvents n 0 0`; the least depth at which the run is not stuck is `max 11 (w + 7)`.
Run with `lake env lean --run FlytModel/GoIR/NewPoolTest.lean`; prints one line per disagreement and `bad=K/N`.
-/
open Flyt Flyt.GoIR Flyt.GoIR.NewPoolW

def ns : List Int := (List.range 44).map fun (k : Nat) => (k : Int) - 3

/-- the expected trace, spelled out independently of `ctorEvents` -/
def expected (n : Int) : List CtorEv :=
  let w : Int := if n ≤ 0 then 1 else n
  [CtorEv.makeChan "func()" (2 * w), CtorEv.makeChan "struct{}" 0, CtorEv.newPool w 0 1] ++ (List.range w.toNat).map fun _ => CtorEv.spawn 0

def checks (n : Int) : List (String × Bool) :=
  let w : Int := if n ≤ 0 then 1 else n
  let r := run 200 Flyt.Generated.IR.NewWorkerPool [.int n] {}
  let least := max 11 (w.toNat + 7)
  [("trace", r == some ([GV.ref "pool" 0], { trace := expected n, chans := 2, pools := 1 })),
   ("ctorEvents", ctorEvents n 0 0 == expected n),
   ("least fuel", run least Flyt.Generated.IR.NewWorkerPool [.int n] {} == r),
   ("stuck below", run (least - 1) Flyt.Generated.IR.NewWorkerPool [.int n] {} == none),
   ("from a used world", (callFunc newPoolWorld 200 Flyt.Generated.IR.NewWorkerPool [.int n] [[]] { trace := [.spawn 7], chans := 5, pools := 9 })
      == some ([GV.ref "pool" 9], [[]], { trace := CtorEv.spawn 7 :: ctorEvents n 5 9, chans := 7, pools := 10 }))]

def main : IO Unit := do
  let mut bad := 0
  let mut total := 0
  for n in ns do
    for (name, ok) in checks n do
      total := total + 1
      if !ok then
        bad := bad + 1
        IO.println s!"DISAGREE n={n} check={name}: got {repr (run 200 Flyt.Generated.IR.NewWorkerPool [.int n] {})}"
  IO.println s!"bad={bad}/{total}"

#eval main
