import FlytModel.GoIR.PoolWorld
import FlytModel.Generated.IR
/-! executable check of the worker-pool statements (`Refine/Pool.lean`) on the REGENERATED IR: every `#eval` must print 0 -/
open Flyt Flyt.GoIR Flyt.GoIR.PoolW Flyt.Generated.IR

instance : Inhabited Func := ⟨{ name := "", recv := "", params := [], body := .nil }⟩
def F := 40
def count (l : List Bool) : Nat := (l.filter (!·)).length

/-- initial worlds: an empty one, one with a history, a script rest and a pending deferred action -/
def worlds : List PW := [{}, { trace := [.wgWait, .closeCh .done], defers := [.wgWait], cur := some (.user 3) }]
def taskVals : List GV := [.ref "userfn" 0, .ref "userfn" 7, .nil]
def taskLists : List (List Nat) := [[], [4], [1, 2, 3], [5, 5, 0, 9, 2, 2, 8], List.range 25]
def stops : List Obs := [.tasksClosed, .doneClosed]
def rests : List (List Obs) := [[], [.task 99, .doneClosed]]

-- Submit: Add(1), then the send of the closure; nothing else
#eval count (worlds.flatMap fun w => taskVals.map fun tv =>
  view (run F WorkerPool_Submit [poolH, tv] w) == some ([], w.trace ++ [.wgAdd 1, .send .tasks (.ref "closure" 0)], w.script, w.defers))
-- Submit's wrapper closure (captures `p` and `task`): registers the deferred Done, runs the user's task
def wrapTask : Func := withCaptured ((closuresOf WorkerPool_Submit)[0]!) ["p", "task"]
#eval (closuresOf WorkerPool_Submit).length - 1
#eval count (worlds.flatMap fun w => [0, 6].flatMap fun t => taskVals.map fun tv =>
  view (run F wrapTask [poolH, tv] { w with cur := some (.user t) }) ==
    some ([], w.trace ++ [.deferDone, .run (.user t)], w.script, .wgDone :: w.defers))
-- … at function exit the deferred Done happens: the task, then Done, exactly once
#eval count ([0, 6].flatMap fun t => taskVals.map fun tv =>
  view (runWithDefers F wrapTask [poolH, tv] { cur := some (.user t) }) == some ([], [.deferDone, .run (.user t), .wgDone], [], []))
-- … a wrapper around a nil task is stuck (Go panics)
#eval count (taskVals.map fun tv => run F wrapTask [poolH, tv] {} == none)
-- Wait
#eval count (worlds.map fun w => view (run F WorkerPool_Wait [poolH] w) == some ([], w.trace ++ [.wgWait], w.script, w.defers))
-- Close: `done` first, then `tasks`
#eval count (worlds.map fun w =>
  view (run F WorkerPool_Close [poolH] w) == some ([], w.trace ++ [.closeCh .done, .closeCh .tasks], w.script, w.defers))
-- worker: one receive and one call per delivered task, then the terminating observation; the rest of the script is untouched
#eval count (worlds.flatMap fun w => taskLists.flatMap fun ts => stops.flatMap fun stop => rests.map fun rest =>
  view (run (F + ts.length) WorkerPool_worker [poolH] { w with script := ts.map .task ++ stop :: rest }) ==
    some ([], w.trace ++ workerActs ts ++ [finalAct stop], rest, w.defers))
-- … fuel 11 + the number of tasks suffices for both terminators, and is the least such for `tasks closed`
#eval count (taskLists.flatMap fun ts => stops.map fun stop =>
  view (run (11 + ts.length) WorkerPool_worker [poolH] { script := ts.map .task ++ [stop] }) == some ([], workerActs ts ++ [finalAct stop], [], []))
#eval count (taskLists.map fun ts => run (10 + ts.length) WorkerPool_worker [poolH] { script := ts.map .task ++ [.tasksClosed] } == none)
-- … a script without a terminating observation: the worker blocks for ever (no result at any fuel)
#eval count (taskLists.flatMap fun ts => [0, 5, 40, 200].map fun f =>
  run f WorkerPool_worker [poolH] { script := ts.map .task } == none)
-- least fuels of the straight-line methods
#eval count [run 4 WorkerPool_Submit [poolH, .nil] {} == none, (run 5 WorkerPool_Submit [poolH, .nil] {}).isSome,
             run 4 WorkerPool_Wait [poolH] {} == none, (run 5 WorkerPool_Wait [poolH] {}).isSome,
             run 6 WorkerPool_Close [poolH] {} == none, (run 7 WorkerPool_Close [poolH] {}).isSome,
             run 4 wrapTask [poolH, .nil] { cur := some (.user 1) } == none, (run 5 wrapTask [poolH, .nil] { cur := some (.user 1) }).isSome]
