import FlytModel.GoIR.TaskWorld
import FlytModel.Generated.IR
/-! executable check of the task-closure statements (`Refine/Task.lean`) on the REGENERATED IR: every `#eval` must print 0 -/
open Flyt Flyt.GoIR Flyt.GoIR.TaskW Flyt.Generated.IR

def F := 40
def count (l : List Bool) : Nat := (l.filter (!·)).length

def task : Func := taskOf runBatchConcurrent
-- `runBatchConcurrent` has exactly one closure, it takes no parameters of its own
#eval (closuresOf runBatchConcurrent).length - 1
#eval count [task.params == captured, match task.body with | .nil => false | _ => true]

def zero : Result := ⟨Val.nil, none⟩
def e1 : ErrRoot := .user 1
/-- item outcomes: a plain value, nil, a boxed `Result` value, an ERROR `Result` returned as a value with a nil error, an error, an
    error next to a junk value, a context error -/
def outs : List ItemOut :=
  [⟨.tok 5, none⟩, ⟨Val.nil, none⟩, ⟨.res (.tok 7) none, none⟩, ⟨.res Val.nil (some e1), none⟩, ⟨Val.nil, some e1⟩,
   ⟨.tok 9, some (.user 2)⟩, ⟨.res (.tok 3) none, some (.ctx .canceled)⟩]
def ctxs : List Ctx := [.live, .done .canceled, .done .deadline]
def modes : List String := ["stop", "continue", ""]
def flags : List Bool := [false, true]
/-- interference: nobody else touches the flag; it is raised before the first / the second acquisition; lowered (no real task does) -/
def incomings : List (List Bool) := [[], [true], [false, true], [true, false], [false, false, true]]
def items : List Result := [zero, ⟨.tok 4, none⟩]
def slots0 : List Result := [⟨.tok 100, none⟩, ⟨.tok 101, none⟩, ⟨.tok 102, none⟩]
def pre : List TAct := [.ctxErr false]

def worlds : List TW :=
  flags.flatMap fun b => incomings.flatMap fun inc => ctxs.flatMap fun c => outs.map fun o =>
    { stop := b, incoming := inc, ctx := c, out := o, slots := slots0, trace := pre }

def view (r : Option (List GV × TW)) : Option (List GV × Bool × List Bool × Bool × List Result × List TAct) :=
  r.map fun x => (x.1, x.2.stop, x.2.incoming, x.2.held, x.2.slots, x.2.trace)

-- the closure returns nothing and leaves the world `taskSem` says: flag, rest of the interference, `mu` free, slots, trace
#eval count (modes.flatMap fun eh => [0, 1, 2].flatMap fun idx => items.flatMap fun it => worlds.map fun w =>
  runTask F task eh idx it (.node 3) w == some ([], taskSem eh idx it w))
#eval count (modes.flatMap fun eh => worlds.map fun w => (taskSem eh 1 zero w).held == false && (taskSem eh 1 zero w).ctx == w.ctx)
-- the three paths, spelled out (no interference; `b` = the flag)
-- … stop path: flag up and mode "stop" — the stopped slot is written UNDER the lock, nothing else happens
#eval count (ctxs.flatMap fun c => outs.map fun o =>
  view (runTask F task "stop" 1 zero (.node 3) { stop := true, ctx := c, out := o, slots := slots0 }) ==
    some ([], true, [], false, slots0.set 1 stoppedSlot, [.lock, .writeSlot 1 stoppedSlot, .unlock]))
-- … cancelled path: the slot is written AFTER `mu` was released (not under the lock), the item is not run, the flag is untouched
#eval count ([("stop", false), ("continue", false), ("continue", true), ("", true)].flatMap fun (eh, b) =>
  [Ctx.done .canceled, .done .deadline].flatMap fun c => outs.map fun o =>
  view (runTask F task eh 2 zero (.node 3) { stop := b, ctx := c, out := o, slots := slots0 }) ==
    some ([], b, [], false, slots0.set 2 cancelledSlot, [.lock, .unlock, .ctxErr true, .writeSlot 2 cancelledSlot]))
-- … normal path, nil error: value → `NewResult(value)`, a `Result` value as it is (an ERROR Result too: it does not raise the flag)
#eval count ([("stop", false), ("continue", false), ("continue", true)].flatMap fun (eh, b) =>
  [(Val.tok 5, newResult (.tok 5)), (Val.nil, zero), (.res (.tok 7) none, ⟨.tok 7, none⟩), (.res Val.nil (some e1), ⟨Val.nil, some e1⟩)].map
  fun (x, r) =>
  view (runTask F task eh 0 ⟨.tok 4, none⟩ (.node 3) { stop := b, out := ⟨x, none⟩, slots := slots0 }) ==
    some ([], b, [], false, slots0.set 0 r,
      [.lock, .unlock, .ctxErr false, .callItem ⟨.tok 4, none⟩ ⟨x, none⟩, .lock, .writeSlot 0 r, .unlock]))
-- … normal path, error: `NewErrorResult(err)`; the flag is raised iff the mode is "stop", after the slot write, under the lock
#eval count ([(Val.nil, e1), (.tok 9, .user 2), (.res (.tok 3) none, .ctx .canceled)].map fun (x, e) =>
  view (runTask F task "stop" 0 zero (.node 3) { out := ⟨x, some e⟩, slots := slots0 }) ==
    some ([], true, [], false, slots0.set 0 (newErrorResult e),
      [.lock, .unlock, .ctxErr false, .callItem zero ⟨x, some e⟩, .lock, .writeSlot 0 (newErrorResult e), .setStop true, .unlock]))
#eval count ([("continue", false), ("continue", true), ("", false)].flatMap fun (eh, b) =>
  [(Val.nil, e1), (.tok 9, .user 2)].map fun (x, e) =>
  view (runTask F task eh 0 zero (.node 3) { stop := b, out := ⟨x, some e⟩, slots := slots0 }) ==
    some ([], b, [], false, slots0.set 0 (newErrorResult e),
      [.lock, .unlock, .ctxErr false, .callItem zero ⟨x, some e⟩, .lock, .writeSlot 0 (newErrorResult e), .unlock]))
-- interference: the flag raised by another task between the two critical sections survives; the stop check sees the value at ITS lock
#eval count [
  view (runTask F task "stop" 0 zero (.node 3) { incoming := [false, true], slots := slots0 }) ==
    some ([], true, [], false, slots0.set 0 zero, [.lock, .unlock, .ctxErr false, .callItem zero ⟨Val.nil, none⟩, .lock, .writeSlot 0 zero, .unlock]),
  view (runTask F task "stop" 0 zero (.node 3) { incoming := [true, false], slots := slots0 }) ==
    some ([], true, [false], false, slots0.set 0 stoppedSlot, [.lock, .writeSlot 0 stoppedSlot, .unlock])]
-- the discipline on every sample: balanced lock / unlock, flag writes only under `mu`, the item call never under `mu`;
-- exactly one slot write, to `idx`
#eval count (modes.flatMap fun eh => [0, 2].flatMap fun idx => worlds.map fun w =>
  match runTask F task eh idx zero (.node 3) w with
  | some (_, w') =>
    let tr := w'.trace.drop pre.length
    lockWalk false tr == some false && ((slotWrites false tr).map (·.1)) == [idx] &&
      (effect tr (w.stop, w.slots)).2 == w'.slots
  | none => false)
-- … the slot write is under the lock except on the cancelled path
#eval count (modes.flatMap fun eh => worlds.map fun w =>
  match runTask F task eh 1 zero (.node 3) w with
  | some (_, w') =>
    (slotWrites false (w'.trace.drop pre.length)).map (·.2.2) == [(w.flagAtLock && eh == "stop") || !w.ctx.isDone]
  | none => false)
-- variant: `results` a `[]Result` of the interpreter's heap (window [1, 4) of array 1): the world sees everything but the slot write,
-- exactly one heap cell changes
def cell0 : List Result := ⟨.tok 99, none⟩ :: slots0 ++ [⟨.tok 98, none⟩]
def heap0 : Heap := [[zero], cell0]
#eval count (modes.flatMap fun eh => [0, 1, 2].flatMap fun idx => worlds.map fun w =>
  let r := taskSlot (eh == "stop") w.flagAtLock w.ctx w.out
  runTaskHeap F task eh idx zero (.node 3) 1 1 3 heap0 w ==
    some ([], [[zero], cell0.set (1 + idx) r],
      { taskSem eh idx zero w with
        slots := w.slots
        trace := w.trace ++ (taskTrace (eh == "stop") w.flagAtLock idx zero w.ctx w.out).filter (!·.isWrite) }))
#eval count [runTaskHeap F task "stop" 3 zero (.node 3) 1 1 3 heap0 {} == none]
-- stuck runs: `mu` already held by this goroutine (deadlock), index out of range (panic), negative index
#eval count [runTask F task "stop" 0 zero (.node 3) { held := true, slots := slots0 } == none,
             runTask F task "stop" 3 zero (.node 3) { slots := slots0 } == none,
             (callFunc taskWorld F task [muH, .str "stop", resultsH, .int (-1), .result zero, ctxRef, .node 3] [] { slots := slots0 }).isNone]
-- the guards: a read / a write of `shouldStop` without `mu` is stuck, with `mu` it is not
#eval count [taskWorld.readVar "shouldStop" { held := false } == none, taskWorld.readVar "shouldStop" { held := true, stop := true } == some (.bool true),
             (taskWorld.writeVar "shouldStop" (.bool true) { held := false }).isNone, (taskWorld.writeVar "shouldStop" (.bool true) { held := true }).isSome,
             taskWorld.readVar "mu" { held := true } == none]
-- least fuel: 10 on the stop path, 12 on the cancelled path, 15 on the normal path (plain value; 13 / 14 / 13 for a `Result` value,
-- an error in mode "stop", an error otherwise); 15 suffices everywhere
#eval count [runTask 9 task "stop" 0 zero (.node 3) { stop := true, slots := slots0 } == none,
             (runTask 10 task "stop" 0 zero (.node 3) { stop := true, slots := slots0 }).isSome,
             runTask 11 task "stop" 0 zero (.node 3) { ctx := .done .canceled, slots := slots0 } == none,
             (runTask 12 task "stop" 0 zero (.node 3) { ctx := .done .canceled, slots := slots0 }).isSome,
             runTask 14 task "stop" 0 zero (.node 3) { slots := slots0 } == none,
             (runTask 15 task "stop" 0 zero (.node 3) { slots := slots0 }).isSome]
#eval count (modes.flatMap fun eh => worlds.map fun w => runTask 15 task eh 1 zero (.node 3) w == some ([], taskSem eh 1 zero w))
