import FlytModel.GoIR.FlowBuildWorld
import FlytModel.GoIR.Gen
import FlytModel.Generated.IR
/-! executable check of the flow construction / adapter statements: every `#eval` must print 0 -/
open Flyt Flyt.GoIR Flyt.GoIR.FlowBuildW Flyt.GoIR.Gen Flyt.Generated.IR

def F := 30
def count (l : List Bool) : Nat := (l.filter (!·)).length

def op (s : NodeId) (a : Action) (d : Option NodeId) : ConnOp := ⟨s, a, d⟩

/-- sample operation sequences: the same (from, action) connected twice, nil targets, the empty action, several froms, self loops,
    an overwrite after other keys were added -/
def seqs : List (List ConnOp) :=
  [[], [op 1 "a" (some 2)], [op 1 "a" (some 2), op 1 "a" (some 3)], [op 1 "a" (some 2), op 1 "a" none],
   [op 1 "" (some 2), op 2 "" none, op 1 "b" (some 1)],
   [op 1 "a" (some 2), op 2 "a" (some 3), op 3 "a" (some 1), op 2 "b" none, op 1 "a" (some 3), op 2 "a" (some 2)],
   [op 5 "x" none, op 5 "y" none, op 5 "x" (some 5), op 0 "default" (some 5), op 5 "" (some 0), op 0 "default" none],
   [op 3 "a" (some 1), op 2 "a" (some 1), op 1 "a" (some 1), op 2 "b" (some 2), op 3 "a" (some 3), op 1 "b" none, op 2 "a" none]]
  ++ ((List.range 40).map fun i => (flowEnv (i * 7919 + 13)).2.1)
  ++ ((List.range 40).map fun i => (flowEnv (i * 7919 + 13)).2.1 ++ (flowEnv (i * 31 + 5)).2.1)
def starts : List (Option NodeId) := [none, some 0, some 4]

/-- all object states the samples reach (every prefix of every sequence) -/
def reached : List Obj :=
  seqs.flatMap fun ops => (List.range (ops.length + 1)).filterMap fun k =>
    (buildFlowIR F NewFlow Flow_Connect (some 1) (ops.take k)).map (·.2)

-- NewFlow: the flow object, with `start`, the default BaseNode and the EMPTY table — from the blank state and from any reached state
#eval count (starts.map fun s => run F NewFlow [tgtGV s] blank ==
  some ([flowH], { base := some Config.newBaseNode, start := s, outer := [], heap := [] }))
#eval count (starts.flatMap fun s => reached.map fun o =>
  (run F NewFlow [tgtGV s] o).map (fun r => (r.1, r.2.base, r.2.start, view r.2)) == some ([flowH], some Config.newBaseNode, s, buildTable []))
-- Connect: one call on a reached state acts on the table view as the model's `connect`, returns the flow, leaves start / base alone
def sampleOps : List ConnOp := [op 1 "a" (some 2), op 1 "a" none, op 1 "" (some 1), op 2 "b" none, op 7 "a" (some 7), op 0 "default" (some 3)]
#eval count (reached.flatMap fun o => sampleOps.map fun c =>
  (run F Flow_Connect (connectArgs flowH c) o).map (fun r => (r.1, r.2.base, r.2.start, view r.2)) == some ([flowH], o.base, o.start, connect (view o) c))
-- NewFlow + a sequence of Connect calls = `buildTable ops` (EQUAL as association lists, not only lookup-equivalent)
#eval count (starts.flatMap fun s => seqs.map fun ops =>
  (buildFlowIR F NewFlow Flow_Connect s ops).map (fun r => (r.1, r.2.base, r.2.start, view r.2)) == some (flowH, some Config.newBaseNode, s, buildTable ops))
-- … and the two-level lookups of `Flow.Exec` through the world's `mapIndex` agree with `tableLookup (buildTable ops)`
#eval count (seqs.flatMap fun ops => (List.range 8).flatMap fun n => ["", "a", "b", "x", "y", "default", "ok", "fail", "retry", "next"].map fun a =>
  (buildFlowIR F NewFlow Flow_Connect (some 1) ops).bind (fun r => lookupW r.2 n a) == some (tableLookup (buildTable ops) n a))
-- the invariant (no shared inner map, no dangling handle) on every reached state
#eval count (reached.map fun o => o.outer.all (fun p => decide (p.2 < o.heap.length)) &&
  (o.outer.map (·.2)).eraseDups.length == o.outer.length)
-- Prep: (shared, nil), state untouched — whatever `shared` is
def someGVs : List GV := [.nil, storeH 5, .str "a", .str "", .val (.tok 3), .val Val.nil, .int 7, .node 2, .bool true, .err (.fw .other)]
#eval count (reached.take 20 |>.flatMap fun o => someGVs.map fun sh => run F Flow_Prep [flowH, ctxH, sh] o == some ([sh, .nil], o))
-- Post: the action inside `execResult` if it is an `Action`, else `DefaultAction`
def postExpect : GV → GV
  | .str a => .str a
  | _ => .str defaultAction
#eval count (reached.take 20 |>.flatMap fun o => someGVs.map fun x => run F Flow_Post [flowH, ctxH, storeH 5, storeH 5, x] o == some ([postExpect x, .nil], o))
-- Run: the error of `Run(ctx, f, shared)` = the model's `runNode` on the flow node (node 6 of the generated arenas is a flow), action dropped
def runAgree (seed : Nat) : Bool :=
  let (env, _, _) := flowEnv seed
  let st : RunSt := { ctx := if pick (lcg (seed + 9)) 10 == 0 then .done .canceled else .live, visits := fun _ => 0 }
  let m := runNode env 30 6 5 st
  if m.2.2 == .fuel then flowRunIR F Flow_Run env 6 30 5 st blank == none
  else flowRunIR F Flow_Run env 6 30 5 st blank == some (m.1, m.2.1, [errGV m.2.2])
#eval count ((List.range 2000).map fun i => runAgree (i * 7919 + 13))
-- both branches are exercised (some of these runs end in an error, some in success): prints 0 if so
#eval let errs := ((List.range 2000).filter fun i => (runNode (flowEnv (i * 7919 + 13)).1 30 6 5 { ctx := .live, visits := fun _ => 0 }).2.2 matches .err _).length
      if 0 < errs && errs < 2000 then 0 else 1
