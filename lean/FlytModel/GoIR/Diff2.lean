import FlytModel.GoIR.ValueWorld
import FlytModel.GoIR.AdapterWorld
import FlytModel.GoIR.ConfigWorld
import FlytModel.GoIR.Worlds
import FlytModel.Generated.IR
/-!
# Model-level search, part 2: accessors, function-style adapters, configuration setters / getters

`lake env lean --run FlytModel/GoIR/Diff2.lean` — for each translated function of the three "small" worlds (`ValueWorld`,
`AdapterWorld`, `ConfigWorld`) run the interpreter on the REGENERATED IR against the hand-written model on a fixed sample of
inputs and print one JSON line per function: `{"function": <IR name>, "scenarios": n, "disagreements": k, "first": <input>}`.
On the unchanged tree this is 0 everywhere by the refinement theorems of `Refine/Accessors.lean`, `Refine/Adapters.lean`,
`Refine/Config.lean` (which are about `Expected.IR`, tied to `Generated.IR` by the `Tie.*` obligations); after a source change it
is the search for a concrete input on which the CURRENT source, as the interpreter reads it, differs from the model.
-/
open Flyt Flyt.GoIR Flyt.Generated.IR

def jstr (s : String) : String := "\"" ++ (((s.replace "\\" "\\\\").replace "\"" "\\\"").replace "\n" " ") ++ "\""

/-- report over an explicit list of labelled cases -/
def report (name : String) (cases : List (String × Bool)) : IO Unit := do
  let bad := cases.filter (fun c => !c.2)
  let d := match bad.head? with | some c => s!", \"first\": {jstr c.1}" | none => ""
  IO.println s!"\{\"function\": {jstr name}, \"scenarios\": {cases.length}, \"disagreements\": {bad.length}{d}}"

instance : Inhabited Func := ⟨{ name := "", recv := "", params := [], body := .nil }⟩

/-! ## accessors (`ValueWorld`) -/
section value
open Flyt.Value Flyt.GoIR.ValueW

def conv : Conv := { f2i := fun w b => if b % 7 == 0 then none else some (Int.ofNat (b % 1000) - (if w then 3 else 0)), f32to64 := fun b => b * 2 + 1, i2f := fun n => (n.toNat * 3 + 5) }
def conv2 : Conv := { f2i := fun w b => if b % 3 == 1 then none else some (Int.ofNat (b % 17) + (if w then 1 else 0)), f32to64 := fun b => b + 40, i2f := fun n => (n.toNat + 1) }
def basics : List Basic := [.int, .int8, .int16, .int32, .int64, .uint, .uint8, .uint16, .uint32, .uint64, .uintptr]
def samples : List GoVal :=
  [.nil] ++ (basics.flatMap fun b => [GoVal.int (.basic b) 5, .int (.basic b) (-3), .int (.basic b) 0, .int (.basic b) 18446744073709551615, .int (.named "MyInt" (.basic b)) 9])
  ++ [.float (.basic .float32) 14, .float (.basic .float32) 15, .float (.basic .float64) 21, .float (.basic .float64) 23, .float (.named "F" (.basic .float64)) 23,
      .float (.basic .float64) 22, .float (.basic .float32) 4,
      .str (.basic .string) "hi", .str (.basic .string) "", .str (.named "S" (.basic .string)) "x", .bool (.basic .bool) true, .bool (.basic .bool) false, .bool (.named "B" (.basic .bool)) true,
      .map tMapSA (some 4), .map tMapSA none, .map (.map (.basic .string) (.basic .int)) (some 2), .map (.named "M" tMapSA) (some 1),
      .ptr (.ptr (.basic .int)) (some 1), .ptr (.ptr (.basic .int)) none, .slice tAnys false .nil, .func (.func 1) false, .struct .structEnd .nil, .complex (.basic .complex128) 1 2]
def FV := 60
def cv (ok : Conv → GoVal → Bool) : List (String × Bool) :=
  [conv, conv2].flatMap fun c => samples.map fun v => (reprStr v, ok c v)
def helds : List (Option GoVal) := none :: samples.map some
def cs (ok : Conv → Option GoVal → Bool) : List (String × Bool) :=
  [conv, conv2].flatMap fun c => helds.map fun v => (reprStr v, ok c v)

def valueReports : IO Unit := do
  report "Result_AsString" (cv fun c v => runResultAcc FV Result_AsString c v [] == some [.str (asString v).1, .bool (asString v).2])
  report "Result_AsInt" (cv fun c v => runResultAcc FV Result_AsInt c v [] == some [encI (asInt c v).1, .bool (asInt c v).2])
  report "Result_AsFloat64" (cv fun c v => runResultAcc FV Result_AsFloat64 c v [] == some [encF (asFloat64 c v).1, .bool (asFloat64 c v).2])
  report "Result_AsBool" (cv fun c v => runResultAcc FV Result_AsBool c v [] == some [.bool (asBool v).1, .bool (asBool v).2])
  report "Result_AsMap" (cv fun c v => runResultAcc FV Result_AsMap c v [] == some [encM (asMap v).1, .bool (asMap v).2])
  report "Result_AsStringOr" (cv fun c v => runResultAcc FV Result_AsStringOr c v [.str "dd"] == some [.str (asStringOr v "dd")])
  report "Result_AsIntOr" (cv fun c v => runResultAcc FV Result_AsIntOr c v [.int 77] == some [encI (asIntOr c v (some 77))])
  report "Result_AsFloat64Or" (cv fun c v => runResultAcc FV Result_AsFloat64Or c v [encF 9] == some [encF (asFloat64Or c v 9)])
  report "Result_AsBoolOr" (cv fun c v => runResultAcc FV Result_AsBoolOr c v [.bool true] == some [.bool (asBoolOr v true)])
  report "Result_AsMapOr" (cv fun c v => runResultAcc FV Result_AsMapOr c v [encM (some 8)] == some [encM (asMapOr v (some 8))])
  report "Result_MustString" (cv fun c v => runResultAcc FV Result_MustString c v [] == (match mustString v with | .panic => none | .ok s => some [.str s]))
  report "Result_MustInt" (cv fun c v => runResultAcc FV Result_MustInt c v [] == (match mustInt c v with | .panic => none | .ok s => some [encI s]))
  report "Result_MustFloat64" (cv fun c v => runResultAcc FV Result_MustFloat64 c v [] == (match mustFloat64 c v with | .panic => none | .ok s => some [encF s]))
  report "Result_MustBool" (cv fun c v => runResultAcc FV Result_MustBool c v [] == (match mustBool v with | .panic => none | .ok s => some [.bool s]))
  report "Result_MustMap" (cv fun c v => runResultAcc FV Result_MustMap c v [] == (match mustMap v with | .panic => none | .ok s => some [encM s]))
  report "SharedStore_GetString" (cs fun c h => runStoreAcc FV SharedStore_GetString c h [] == some [.str (getString (storeOf h) "k")])
  report "SharedStore_GetStringOr" (cs fun c h => runStoreAcc FV SharedStore_GetStringOr c h [.str "dd"] == some [.str (getStringOr (storeOf h) "k" "dd")])
  report "SharedStore_GetIntOr" (cs fun c h => runStoreAcc FV SharedStore_GetIntOr c h [.int 77] == some [encI (getIntOr c (storeOf h) "k" (some 77))])
  report "SharedStore_GetInt" (cs fun c h => runStoreAcc FV SharedStore_GetInt c h [] == some [encI (getInt c (storeOf h) "k")])
  report "SharedStore_GetFloat64Or" (cs fun c h => runStoreAcc FV SharedStore_GetFloat64Or c h [encF 9] == some [encF (getFloat64Or c (storeOf h) "k" 9)])
  report "SharedStore_GetFloat64" (cs fun c h => runStoreAcc FV SharedStore_GetFloat64 c h [] == some [encF (getFloat64 c (storeOf h) "k")])
  report "SharedStore_GetBoolOr" (cs fun c h => runStoreAcc FV SharedStore_GetBoolOr c h [.bool true] == some [.bool (getBoolOr (storeOf h) "k" true)])
  report "SharedStore_GetBool" (cs fun c h => runStoreAcc FV SharedStore_GetBool c h [] == some [.bool (getBool (storeOf h) "k")])
  report "SharedStore_GetMapOr" (cs fun c h => runStoreAcc FV SharedStore_GetMapOr c h [encM (some 8)] == some [encM (getMapOr (storeOf h) "k" (some 8))])
  report "SharedStore_GetMap" (cs fun c h => runStoreAcc FV SharedStore_GetMap c h [] == some [encM (getMap (storeOf h) "k")])
end value

/-! ## function-style adapters (`AdapterWorld`) -/
section adapters
open Flyt.GoIR.AdapterW

def vals : List Val := [.tok 0, .tok 5, Val.nil, .res (.tok 7) none, .res (.tok 0) (some (.user 9)), .res (.res (.tok 2) none) none,
  .res (.tok 3) (some (.ctx .canceled)), .res Val.nil none, .res (.res (.tok 1) (some (.user 2))) none]
def outs : List (Out Val) := (vals.map fun x => ({ res := .ok x } : Out Val)) ++ [{ res := .error 4 }, { res := .error 2, junk := some (.tok 8) }]
def acts : List (Out Action) := [{ res := .ok "a" }, { res := .ok "" }, { res := .error 3 }, { res := .error 1, junk := some "zz" }]
def styles : List Style := [.absent, .res, .any]
def FA := 40
def mk (s : Style) (o : Out Val) (a : Out Action := { res := .ok "a" }) (fb : FbKind := .passThrough) : Cfg :=
  { prepS := s, execS := s, postS := s, fb := fb, prep := o, exec := o, post := a, fbOut := o }
def rs : List Result := vals.map toResult

def adapterReports : IO Unit := do
  report "CustomNode_Exec" (styles.flatMap fun s => outs.flatMap fun o => vals.map fun pv =>
    (s!"style={reprStr s} out={reprStr o.res} payload={reprStr pv}",
     run FA CustomNode_Exec (mk s o) [cnH, ctxH, GV.ofVal pv] ==
      (match s with
       | .absent => some ([.nil, .nil], ⟨[]⟩)
       | _ => some ((match o.res with | .ok x => [GV.ofVal (execRet s x), .nil] | .error e => [.nil, .err (.user e)]), ⟨[("exec", [execArg s pv])]⟩))))
  report "CustomNode_Prep" (styles.flatMap fun s => outs.map fun o =>
    (s!"style={reprStr s} out={reprStr o.res}",
     run FA CustomNode_Prep (mk s o) [cnH, ctxH, storeH 5] ==
      (match s with
       | .absent => some ([.nil, .nil], ⟨[]⟩)
       | _ => some ((match o.res with | .ok x => [GV.ofVal (prepRet s x), .nil] | .error e => [.nil, .err (.user e)]), ⟨[("prep", [])]⟩))))
  report "CustomNode_Post" (styles.flatMap fun s => acts.flatMap fun a => vals.flatMap fun pv => vals.map fun ev =>
    (s!"style={reprStr s} post={reprStr a.res} prepPayload={reprStr pv} execPayload={reprStr ev}",
     run FA CustomNode_Post (mk s { res := .ok (.tok 1) } a) [cnH, ctxH, storeH 5, GV.ofVal pv, GV.ofVal ev] ==
      (match s with
       | .absent => some ([.str defaultAction, .nil], ⟨[]⟩)
       | _ => let pa := postArgs s pv ev
              some ((match a.res with | .ok x => [.str x, .nil] | .error e => [.str (a.junk.getD ""), .err (.user e)]), ⟨[("post", [pa.1, pa.2])]⟩))))
  report "CustomNode_ExecFallback" ([FbKind.passThrough, .custom].flatMap fun fb => outs.flatMap fun o => vals.map fun pv =>
    (s!"fb={reprStr fb} out={reprStr o.res} payload={reprStr pv}",
     run FA CustomNode_ExecFallback (mk .res o { res := .ok "a" } fb) [cnH, GV.ofVal pv, .err (.user 3)] ==
      (match fb with
       | .custom => some ((match o.res with | .ok x => [GV.ofVal x, .nil] | .error e => [.nil, .err (.user e)]), ⟨[("fb", [pv])]⟩)
       | _ => some ([.nil, .err (.user 3)], ⟨[]⟩))))
  -- the Any-style wrapper closures (option form and builder form) = the world's entry for an Any-style function
  let wrapE (f : Func) (i : Nat) : List (String × Bool) := outs.flatMap fun o => rs.map fun r =>
    (s!"out={reprStr o.res} arg={reprStr r}", run FA ((closuresOf f)[i]!) (mk .any o) [ctxH, .result r] == some (execFuncSem (mk .any o) r ⟨[]⟩))
  let wrapP (f : Func) (i : Nat) : List (String × Bool) := outs.map fun o =>
    (s!"out={reprStr o.res}", run FA ((closuresOf f)[i]!) (mk .any o) [ctxH, storeH 5] == some (prepFuncSem (mk .any o) ⟨[]⟩))
  let wrapO (f : Func) (i : Nat) : List (String × Bool) := acts.flatMap fun a => rs.flatMap fun p => rs.map fun e =>
    (s!"post={reprStr a.res} prep={reprStr p} exec={reprStr e}",
     run FA ((closuresOf f)[i]!) (mk .any { res := .ok (.tok 1) } a) [ctxH, storeH 5, .result p, .result e] == some (postFuncSem (mk .any { res := .ok (.tok 1) } a) p e ⟨[]⟩))
  report "WithExecFuncAny" (wrapE WithExecFuncAny 1)
  report "WithPrepFuncAny" (wrapP WithPrepFuncAny 1)
  report "WithPostFuncAny" (wrapO WithPostFuncAny 1)
  report "NodeBuilder_WithExecFuncAny" (wrapE NodeBuilder_WithExecFuncAny 0)
  report "NodeBuilder_WithPrepFuncAny" (wrapP NodeBuilder_WithPrepFuncAny 0)
  report "NodeBuilder_WithPostFuncAny" (wrapO NodeBuilder_WithPostFuncAny 0)
  report "BatchNodeBuilder_WithExecFuncAny" (wrapE BatchNodeBuilder_WithExecFuncAny 0)
end adapters

/-! ## configuration setters and getters (`ConfigWorld`) -/
section config
open Flyt.Config Flyt.GoIR.ConfigW

def FC := 30
def nodes : List Node :=
  [emptyNode, { emptyNode with base := { maxRetries := 4, wait := 7, batchConcurrency := 3, batchErrorHandling := .stop }, execFunc := some ⟨9, true⟩ },
   { emptyNode with base := { maxRetries := -2, wait := 0, batchConcurrency := -1, batchErrorHandling := .cont }, prepFunc := some ⟨1, false⟩, batchPostFunc := some ⟨2, false⟩ },
   { emptyNode with base := { maxRetries := 1, wait := -5, batchConcurrency := 0, batchErrorHandling := .unset }, postFunc := some ⟨3, true⟩, execFallbackFunc := some ⟨4, false⟩, batchPrepFunc := some ⟨6, false⟩ }]
def ints : List Int := [0, 1, 2, 5, -1, -3, 1000000]
def step (s : Setting) (tag : Nat := 0) : Step := { setting := s, form := .bld, tag := tag }
def optClo (f : Func) (cap : String) : Func := withCaptured ((closuresOf f)[0]!) [cap]
def lab (n : Node) (x : String) : String := s!"node={reprStr n} arg={x}"

def configReports : IO Unit := do
  let getter (nm : String) (f : Func) (g : Node → GV) : IO Unit :=
    report nm (nodes.map fun n => (lab n "", run FC f 0 [nodeH] n == some ([g n], n)))
  getter "BaseNode_GetMaxRetries" BaseNode_GetMaxRetries (fun n => .int (getMaxRetries n))
  getter "BaseNode_GetWait" BaseNode_GetWait (fun n => .int (getWait n))
  getter "BaseNode_GetBatchConcurrency" BaseNode_GetBatchConcurrency (fun n => .int (getBatchConcurrency n))
  getter "BaseNode_GetBatchErrorHandling" BaseNode_GetBatchErrorHandling (fun n => .str (getBatchErrorHandling n))
  getter "NodeBuilder_GetMaxRetries" NodeBuilder_GetMaxRetries (fun n => .int (getMaxRetries n))
  getter "NodeBuilder_GetWait" NodeBuilder_GetWait (fun n => .int (getWait n))
  let intOpt (nm : String) (f : Func) (cap : String) (s : Int → Setting) : IO Unit :=
    report nm (nodes.flatMap fun n => ints.map fun r =>
      (lab n (toString r), run FC (optClo f cap) 0 [.int r, nodeH] n == some ([], { n with base := applyNodeOption (s r) n.base })))
  intOpt "WithMaxRetries" WithMaxRetries "retries" .maxRetries
  intOpt "WithWait" WithWait "wait" .wait
  intOpt "WithBatchConcurrency" WithBatchConcurrency "n" .batchConcurrency
  report "WithBatchErrorHandling" (nodes.flatMap fun n => [true, false].map fun b =>
    (lab n (toString b), run FC (optClo WithBatchErrorHandling "continueOnError") 0 [.bool b, nodeH] n == some ([], { n with base := applyNodeOption (.batchErrorHandling b) n.base })))
  let custom (nm : String) (f : Func) (s : Setting) (any : Bool) : IO Unit :=
    report nm (nodes.map fun n =>
      (lab n "", run FC (optClo f "fn") 5 [if any then userfn 77 else userfn 5, nodeH] n == some ([], applyCustomOption { setting := s, form := .opt, tag := 5 } n)))
  custom "WithPrepFunc" WithPrepFunc (.prepFn false) false
  custom "WithExecFunc" WithExecFunc (.execFn false) false
  custom "WithPostFunc" WithPostFunc (.postFn false) false
  custom "WithExecFallbackFunc" WithExecFallbackFunc .fbFn false
  custom "WithPrepFuncAny:option" WithPrepFuncAny (.prepFn true) true
  custom "WithExecFuncAny:option" WithExecFuncAny (.execFn true) true
  custom "WithPostFuncAny:option" WithPostFuncAny (.postFn true) true
  let chain (call : Step → Node → Node) (nm : String) (f : Func) (args : List (GV × Setting)) : IO Unit :=
    report nm (nodes.flatMap fun n => args.map fun (a, s) =>
      (lab n (reprStr a), run FC f 5 [nodeH, a] n == some ([nodeH], call (step s 5) n)))
  let nb := chain nodeBuilderCall
  let bb := chain batchBuilderCall
  nb "NodeBuilder_WithMaxRetries" NodeBuilder_WithMaxRetries (ints.map fun r => (.int r, .maxRetries r))
  nb "NodeBuilder_WithWait" NodeBuilder_WithWait (ints.map fun r => (.int r, .wait r))
  nb "NodeBuilder_WithBatchConcurrency" NodeBuilder_WithBatchConcurrency (ints.map fun r => (.int r, .batchConcurrency r))
  nb "NodeBuilder_WithBatchErrorHandling" NodeBuilder_WithBatchErrorHandling ([true, false].map fun b => (.bool b, .batchErrorHandling b))
  nb "NodeBuilder_WithPrepFunc" NodeBuilder_WithPrepFunc [(userfn 5, .prepFn false)]
  nb "NodeBuilder_WithExecFunc" NodeBuilder_WithExecFunc [(userfn 5, .execFn false)]
  nb "NodeBuilder_WithPostFunc" NodeBuilder_WithPostFunc [(userfn 5, .postFn false)]
  nb "NodeBuilder_WithExecFallbackFunc" NodeBuilder_WithExecFallbackFunc [(userfn 5, .fbFn)]
  nb "NodeBuilder_WithPrepFuncAny:setter" NodeBuilder_WithPrepFuncAny [(userfn 77, .prepFn true)]
  nb "NodeBuilder_WithExecFuncAny:setter" NodeBuilder_WithExecFuncAny [(userfn 77, .execFn true)]
  nb "NodeBuilder_WithPostFuncAny:setter" NodeBuilder_WithPostFuncAny [(userfn 77, .postFn true)]
  bb "BatchNodeBuilder_WithMaxRetries" BatchNodeBuilder_WithMaxRetries (ints.map fun r => (.int r, .maxRetries r))
  bb "BatchNodeBuilder_WithWait" BatchNodeBuilder_WithWait (ints.map fun r => (.int r, .wait r))
  bb "BatchNodeBuilder_WithBatchConcurrency" BatchNodeBuilder_WithBatchConcurrency (ints.map fun r => (.int r, .batchConcurrency r))
  bb "BatchNodeBuilder_WithBatchErrorHandling" BatchNodeBuilder_WithBatchErrorHandling ([true, false].map fun b => (.bool b, .batchErrorHandling b))
  bb "BatchNodeBuilder_WithPrepFunc" BatchNodeBuilder_WithPrepFunc [(userfn 5, .prepFn false)]
  bb "BatchNodeBuilder_WithExecFunc" BatchNodeBuilder_WithExecFunc [(userfn 5, .execFn false)]
  bb "BatchNodeBuilder_WithPostFunc" BatchNodeBuilder_WithPostFunc [(userfn 5, .postFn false)]
  bb "BatchNodeBuilder_WithExecFuncAny:setter" BatchNodeBuilder_WithExecFuncAny [(userfn 77, .execFn true)]
end config

def main (_ : List String) : IO Unit := do
  valueReports
  adapterReports
  configReports
