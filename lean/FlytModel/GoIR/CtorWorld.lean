import FlytModel.Model.Config
import FlytModel.GoIR.Interp
/-!
# World of the constructors `NewBaseNode`, `NewNode`, `NewBatchNode` and of `customNodeOption.apply` (property C19)

What the constructors do with their variadic argument: separate it by dynamic type, apply the `NodeOption`s, then the
`CustomNodeOption`s. The world holds

* `node` — the node under construction, as the model's `Config.Node`: the `*CustomNode` is `.ref "node" 0`, the `*BaseNode` it
  embeds (`node.BaseNode`, also what `NewBaseNode` returns) is `.ref "base" 0` and stands for the record `node.base`;
* `args` — the option VALUES the caller passed, each with what it is (`Arg`): a `NodeOption`, a raw `func(*BaseNode)`, a
  `CustomNodeOption` (all three tagged with the model's `Step`), or something else (`junk`). The value at position `i` is the
  handle `.ref "arg" i`, whatever static type the program currently sees it at (`any`, `NodeOption`, `CustomNodeOption`);
* `slices` — a heap of option slices (`[]any`, `[]NodeOption`, `[]CustomNodeOption`), each the list of the positions of its
  elements; `.ref "slice" j` is slice `j`, `.nil` the nil slice. `append(s, v)` allocates a NEW slice (slices are values here; this
  is Go's `append` as long as no slice value is extended twice — true of every program that only ever writes `s = append(s, v)`).
  The variadic parameter `opts` is slice 0 (`init`).

What CALLING an option value does is the model's `applyNodeOption` (for `opt(n)`; the callee is the VALUE the local variable holds,
handed to the world by the interpreter through `callVar`) resp. `applyCustomOption` (for `opt.apply(node)` and for the field call
`o.f(n)` inside `customNodeOption.apply`). These two entries are justified by the refinement theorems of the option constructors'
own closures (`Refine/Config.lean`: `WithMaxRetries_closure_refines_of_le`, …, `WithPrepFunc_closure_refines_of_le`, …), the entry
for `apply` in addition by `customNodeOption_apply_refines_of_le` (`Refine/Ctors.lean`), the entry for `NewBaseNode()` by
`NewBaseNode_refines_of_le` at the empty argument list.

Everything else is stuck (`none`): calling a `CustomNodeOption` or junk as a function, `.apply` on a function, appending something
that is not an option value, an assertion to a type the constructors do not mention.
-/
namespace Flyt.GoIR.CtorW
open Flyt Flyt.GoIR Flyt.Config

/-- one element of the variadic argument list, by dynamic type -/
inductive Arg where
  | nodeOpt (s : Step)      -- a value of the named type `NodeOption` (`WithMaxRetries(3)`, …)
  | rawFunc (s : Step)      -- a value of the unnamed type `func(*BaseNode)` doing what `s` does
  | custom (s : Step)       -- a `CustomNodeOption` (`WithExecFunc(f)`, …)
  | junk (k : Nat)          -- anything else (an `int`, a string, a nil interface, …)
  deriving DecidableEq, Repr, Inhabited

def Arg.isBase : Arg → Bool
  | .nodeOpt _ | .rawFunc _ => true
  | _ => false

def Arg.isCustom : Arg → Bool
  | .custom _ => true
  | _ => false

structure KW where
  node : Node
  args : List Arg
  slices : List (List Nat)
  deriving DecidableEq, Repr

def baseH : GV := .ref "base" 0
def nodeH : GV := .ref "node" 0
def builderH : GV := .ref "builder" 0
def batchNodeH : GV := .ref "batchnode" 0
def batchBuilderH : GV := .ref "batchbuilder" 0
/-- the variadic parameter `opts` -/
def optsH : GV := .ref "slice" 0
def argH (i : Nat) : GV := .ref "arg" i

/-- the elements of a slice value -/
def content (w : KW) (s : GV) : Option (List Nat) :=
  match s with
  | .nil => some []
  | .ref "slice" j => w.slices[j]?
  | _ => none

/-- `range s`: index and element, in order -/
def pairsFrom (k : Nat) : List Nat → List (GV × GV)
  | [] => []
  | i :: rest => (.int k, argH i) :: pairsFrom (k + 1) rest

/-- `append(s, v)` -/
def appendSlice (w : KW) (s : GV) (i : Nat) : Option (GV × KW) :=
  (content w s).map fun l => (.ref "slice" w.slices.length, { w with slices := w.slices ++ [l ++ [i]] })

/-- `opt(b)` for a function value `opt` and the `*BaseNode` `b` of the node under construction -/
def callOpt (w : KW) (i : Nat) : Option KW :=
  match w.args[i]? with
  | some (.nodeOpt s) => some { w with node := { w.node with base := applyNodeOption s.setting w.node.base } }
  | some (.rawFunc s) => some { w with node := { w.node with base := applyNodeOption s.setting w.node.base } }
  | _ => none

/-- `opt.apply(n)` for a `CustomNodeOption` and the node under construction -/
def applyOpt (w : KW) (i : Nat) : Option KW :=
  match w.args[i]? with
  | some (.custom s) => some { w with node := applyCustomOption s w.node }
  | _ => none

/-- `x.(T)` for the three types the constructors' type switches mention -/
def assertArg (a : Arg) (i : Nat) (ty : String) : Option (GV × Bool) :=
  if ty == "CustomNodeOption" then some (if a.isCustom then (argH i, true) else (.nil, false))
  else if ty == "NodeOption" then some (match a with | .nodeOpt _ => (argH i, true) | _ => (.nil, false))
  else if ty == "func(*BaseNode)" then some (match a with | .rawFunc _ => (argH i, true) | _ => (.nil, false))
  else none

def ctorWorld : World KW where
  call fn args h w :=
    match fn, args with
    -- `&BaseNode{maxRetries: a, wait: b}`: the other fields are zero
    | "lit:BaseNode:maxRetries,wait,", [.int a, .int b] =>
      some ([baseH], h, { w with node := { w.node with base := { maxRetries := a, wait := b, batchConcurrency := 0, batchErrorHandling := .unset } } })
    -- `NewBaseNode()` without options (`NewBaseNode_refines_of_le` at `[]`)
    | "NewBaseNode", [] => some ([baseH], h, { w with node := { w.node with base := newBaseNode } })
    -- `&CustomNode{BaseNode: b}`: no function is set
    | "lit:CustomNode:BaseNode,", [.ref "base" _] =>
      some ([nodeH], h, { w with node := { base := w.node.base, prepFunc := none, execFunc := none, postFunc := none,
                                            execFallbackFunc := none, batchPrepFunc := none, batchPostFunc := none } })
    | "lit:NodeBuilder:CustomNode,", [.ref "node" _] => some ([builderH], h, w)
    -- `&BatchNode{CustomNode: n}`: the two batch functions are not set
    | "lit:BatchNode:CustomNode,", [.ref "node" _] =>
      some ([batchNodeH], h, { w with node := { w.node with batchPrepFunc := none, batchPostFunc := none } })
    | "lit:BatchNodeBuilder:BatchNode,", [.ref "batchnode" _] => some ([batchBuilderH], h, w)
    | "append", [s, .ref "arg" i] => (appendSlice w s i).map fun r => ([r.1], h, r.2)
    -- `NodeOption(o)` for a `func(*BaseNode)`: the same function
    | "conv:NodeOption", [.ref "arg" i] =>
      (match w.args[i]? with
       | some (.rawFunc _) => some ([argH i], h, w)
       | some (.nodeOpt _) => some ([argH i], h, w)
       | _ => none)
    | _, _ => none
  -- a call through a local variable: of the value it holds
  callVar _ fv args h w :=
    match fv, args with
    | .ref "arg" i, [.ref "base" _] => (callOpt w i).map fun w' => ([], h, w')
    | _, _ => none
  mcall recv m args h w :=
    match recv, args with
    | .ref "arg" i, [.ref "base" _] => if m == "()" then (callOpt w i).map fun w' => ([], h, w') else none
    | .ref "arg" i, [.ref "node" _] => if m == "apply" ∨ m == "f" then (applyOpt w i).map fun w' => ([], h, w') else none
    | _, _ => none
  assert x ty w :=
    match x with
    | .ref "arg" i => (w.args[i]?).bind fun a => assertArg a i ty
    | _ => none
  field x f _ :=
    match x with
    | .ref "node" _ => if f == "BaseNode" then some baseH else none
    | _ => none
  rangeOf x w :=
    match x with
    | .ref "slice" j => (w.slices[j]?).map (pairsFrom 0)
    | _ => none
  global x := if x == "zero:[]NodeOption" ∨ x == "zero:[]CustomNodeOption" then some .nil else none
  mapIndex _ _ _ := none
  select _ _ := none

/-- the world a constructor is called in: any node record (the constructor must initialise it), the arguments, `opts` = slice 0 -/
def init (n0 : Node) (args : List Arg) : KW := { node := n0, args := args, slices := [List.range args.length] }

/-- run a constructor on the argument list: returned values and the node it built -/
def run (fuel : Nat) (f : Func) (n0 : Node) (args : List Arg) : Option (List GV × Node) :=
  (callFunc ctorWorld fuel f [optsH] [] (init n0 args)).map fun r => (r.1, r.2.2.node)

/-! ### what the model says -/

def Arg.baseStep? : Arg → Option Step
  | .nodeOpt s | .rawFunc s => some s
  | _ => none

def Arg.customStep? : Arg → Option Step
  | .custom s => some s
  | _ => none

/-- the options a constructor with a `...any` parameter looks at, as the model's option word -/
def Arg.step? : Arg → Option Step
  | .nodeOpt s | .rawFunc s | .custom s => some s
  | .junk _ => none

/-- `NewBaseNode(opts...)`: the defaults, then the options in order -/
def baseOf (args : List Arg) : BaseNode :=
  (args.filterMap Arg.baseStep?).foldl (fun b s => applyNodeOption s.setting b) newBaseNode

/-- `NewNode(opts...)`: ALL base options in order, THEN all custom options in order; anything else is ignored -/
def nodeOf (args : List Arg) : Node :=
  (args.filterMap Arg.customStep?).foldl (fun n s => applyCustomOption s n)
    ((args.filterMap Arg.baseStep?).foldl (fun n s => { n with base := applyNodeOption s.setting n.base }) emptyNode)

/-- `NewBatchNode(opts...)`: the base options in order; custom options and anything else are ignored -/
def batchOf (args : List Arg) : Node :=
  (args.filterMap Arg.baseStep?).foldl (fun n s => { n with base := applyNodeOption s.setting n.base }) emptyNode

/-- a value's dynamic type agrees with the model's classification of its setting -/
def Arg.wf : Arg → Bool
  | .nodeOpt s | .rawFunc s => s.setting.isNodeOption
  | .custom s => !s.setting.isNodeOption
  | .junk _ => true

/-- the option value of a model step (in option form): what `WithMaxRetries(3)` / `WithExecFunc(f)` evaluate to -/
def Arg.ofStep (s : Step) : Arg := if s.setting.isNodeOption then .nodeOpt s else .custom s

end Flyt.GoIR.CtorW
