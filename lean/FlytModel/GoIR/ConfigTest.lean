import FlytModel.GoIR.ConfigWorld
import FlytModel.Generated.IR
/-! executable check of the setter / getter statements: every `#eval` must print 0 -/
open Flyt Flyt.GoIR Flyt.Config Flyt.GoIR.ConfigW Flyt.Generated.IR

instance : Inhabited Func := ⟨{ name := "", recv := "", params := [], body := .nil }⟩
def F := 30
def nodes : List Node :=
  [emptyNode, { emptyNode with base := { maxRetries := 4, wait := 7, batchConcurrency := 3, batchErrorHandling := .stop }, execFunc := some ⟨9, true⟩ },
   { emptyNode with base := { maxRetries := -2, wait := 0, batchConcurrency := -1, batchErrorHandling := .cont }, prepFunc := some ⟨1, false⟩, batchPostFunc := some ⟨2, false⟩ }]
def ints : List Int := [0, 1, 5, -3]
def count (l : List Bool) : Nat := (l.filter (!·)).length
def step (s : Setting) (tag : Nat := 0) : Step := { setting := s, form := .bld, tag := tag }

-- getters
#eval count (nodes.map fun n => run F BaseNode_GetMaxRetries 0 [nodeH] n == some ([.int (getMaxRetries n)], n))
#eval count (nodes.map fun n => run F BaseNode_GetWait 0 [nodeH] n == some ([.int (getWait n)], n))
#eval count (nodes.map fun n => run F BaseNode_GetBatchConcurrency 0 [nodeH] n == some ([.int (getBatchConcurrency n)], n))
#eval count (nodes.map fun n => run F BaseNode_GetBatchErrorHandling 0 [nodeH] n == some ([.str (getBatchErrorHandling n)], n))
#eval count (nodes.map fun n => run F NodeBuilder_GetMaxRetries 0 [nodeH] n == some ([.int (getMaxRetries n)], n))
#eval count (nodes.map fun n => run F NodeBuilder_GetWait 0 [nodeH] n == some ([.int (getWait n)], n))
-- NodeOption closures
def optClo (f : Func) (cap : String) : Func := withCaptured ((closuresOf f)[0]!) [cap]
#eval count (nodes.flatMap fun n => ints.map fun r => run F (optClo WithMaxRetries "retries") 0 [.int r, nodeH] n == some ([], { n with base := applyNodeOption (.maxRetries r) n.base }))
#eval count (nodes.flatMap fun n => ints.map fun r => run F (optClo WithWait "wait") 0 [.int r, nodeH] n == some ([], { n with base := applyNodeOption (.wait r) n.base }))
#eval count (nodes.flatMap fun n => ints.map fun r => run F (optClo WithBatchConcurrency "n") 0 [.int r, nodeH] n == some ([], { n with base := applyNodeOption (.batchConcurrency r) n.base }))
#eval count (nodes.flatMap fun n => [true, false].map fun b => run F (optClo WithBatchErrorHandling "continueOnError") 0 [.bool b, nodeH] n == some ([], { n with base := applyNodeOption (.batchErrorHandling b) n.base }))
-- CustomNodeOption closures (Result-style: the function itself; Any-style: a wrapper closure, tagged with the step's tag)
def custom (f : Func) (s : Setting) (any : Bool) : Nat :=
  count (nodes.map fun n => run F (optClo f "fn") 5 [if any then userfn 77 else userfn 5, nodeH] n == some ([], applyCustomOption { setting := s, form := .opt, tag := 5 } n))
#eval custom WithPrepFunc (.prepFn false) false
#eval custom WithExecFunc (.execFn false) false
#eval custom WithPostFunc (.postFn false) false
#eval custom WithExecFallbackFunc .fbFn false
#eval custom WithPrepFuncAny (.prepFn true) true
#eval custom WithExecFuncAny (.execFn true) true
#eval custom WithPostFuncAny (.postFn true) true
-- NodeBuilder chain methods
def nb (f : Func) (arg : GV) (s : Setting) : Nat :=
  count (nodes.map fun n => run F f 5 [nodeH, arg] n == some ([nodeH], nodeBuilderCall (step s 5) n))
#eval (ints.map fun r => nb NodeBuilder_WithMaxRetries (.int r) (.maxRetries r)).sum
#eval (ints.map fun r => nb NodeBuilder_WithWait (.int r) (.wait r)).sum
#eval (ints.map fun r => nb NodeBuilder_WithBatchConcurrency (.int r) (.batchConcurrency r)).sum
#eval ([true, false].map fun b => nb NodeBuilder_WithBatchErrorHandling (.bool b) (.batchErrorHandling b)).sum
#eval nb NodeBuilder_WithPrepFunc (userfn 5) (.prepFn false)
#eval nb NodeBuilder_WithExecFunc (userfn 5) (.execFn false)
#eval nb NodeBuilder_WithPostFunc (userfn 5) (.postFn false)
#eval nb NodeBuilder_WithExecFallbackFunc (userfn 5) .fbFn
#eval nb NodeBuilder_WithPrepFuncAny (userfn 77) (.prepFn true)
#eval nb NodeBuilder_WithExecFuncAny (userfn 77) (.execFn true)
#eval nb NodeBuilder_WithPostFuncAny (userfn 77) (.postFn true)
-- BatchNodeBuilder chain methods
def bb (f : Func) (arg : GV) (s : Setting) : Nat :=
  count (nodes.map fun n => run F f 5 [nodeH, arg] n == some ([nodeH], batchBuilderCall (step s 5) n))
#eval (ints.map fun r => bb BatchNodeBuilder_WithMaxRetries (.int r) (.maxRetries r)).sum
#eval (ints.map fun r => bb BatchNodeBuilder_WithWait (.int r) (.wait r)).sum
#eval (ints.map fun r => bb BatchNodeBuilder_WithBatchConcurrency (.int r) (.batchConcurrency r)).sum
#eval ([true, false].map fun b => bb BatchNodeBuilder_WithBatchErrorHandling (.bool b) (.batchErrorHandling b)).sum
#eval bb BatchNodeBuilder_WithPrepFunc (userfn 5) (.prepFn false)
#eval bb BatchNodeBuilder_WithExecFunc (userfn 5) (.execFn false)
#eval bb BatchNodeBuilder_WithPostFunc (userfn 5) (.postFn false)
#eval bb BatchNodeBuilder_WithExecFuncAny (userfn 77) (.execFn true)
