import FlytModel.GoIR.SubmitWorld
import FlytModel.Generated.IR
/-! executable check of the submitter statements (`Refine/Submit.lean`) on the REGENERATED IR: every `#eval` must print 0 -/
open Flyt Flyt.GoIR Flyt.GoIR.SubmitW Flyt.Generated.IR

def F := 60
def count (l : List Bool) : Nat := (l.filter (!·)).length

def f : Func := runBatchConcurrent
-- six parameters in this order; exactly one closure (the task), it takes no parameters of its own
#eval count [f.recv == "", f.params == ["ctx", "node", "items", "results", "concurrency", "errorHandling"]]
#eval (closuresOf f).length - 1
#eval count [((closuresOf f)[0]?.map (·.params)) == some []]

def zero : Result := ⟨Val.nil, none⟩
def item (k : Nat) : Result := ⟨.tok (10 + k), none⟩
/-- item lists of length 0 … 6; one with an error Result and a zero Result among the items -/
def itemLists : List (List Result) :=
  ((List.range 7).map fun n => (List.range n).map item) ++ [[item 0, ⟨Val.nil, some (.user 3)⟩, zero, item 0]]
def concs : List Int := [-3, 0, 1, 2, 5, 100]
def modes : List String := ["stop", "continue", ""]
def ctxH : GV := .ref "ctx" 0

/-- `items` = array 0, `results` = array 1 (zero Results), as `runBatch` calls it -/
def heapOf (items : List Result) : Heap := [items, List.replicate items.length zero]
def argsOf (items : List Result) (c : Int) (eh : String) : List GV :=
  submitterArgs ctxH (.node 3) 0 0 items.length (.slice 1 0 items.length) c (.str eh)

-- the whole call: returns nothing, the heap (`items` AND `results`) is untouched, the trace is
-- `newPool c, deferClose, submit 0 items[0], …, submit (n-1) items[n-1], wait, close`; nothing is left pending; `n` submits
#eval count (itemLists.flatMap fun items => concs.flatMap fun c => modes.map fun eh =>
  view (runSubmitter F f (argsOf items c eh) (heapOf items) {}) ==
    some ([], heapOf items, submitterTrace c items, [], items.length))
-- the body alone: `close` is still pending when `Wait` has returned
#eval count (itemLists.flatMap fun items => concs.map fun c =>
  view (runBody F f (argsOf items c "stop") (heapOf items) {}) ==
    some ([], heapOf items, bodyTrace c items, [.close], items.length))
-- spelled out for two items
#eval count [view (runSubmitter F f (argsOf [item 0, item 1] 2 "stop") (heapOf [item 0, item 1]) {}) ==
    some ([], heapOf [item 0, item 1], [.newPool 2, .deferClose, .submit 0 (item 0), .submit 1 (item 1), .wait, .close], [], 2)]
-- … and for none: the pool is made, waited for and closed all the same
#eval count [view (runSubmitter F f (argsOf [] 4 "continue") (heapOf []) {}) == some ([], heapOf [], [.newPool 4, .deferClose, .wait, .close], [], 0)]
-- one task per item, in index order, each with ITS OWN index and item
#eval count (itemLists.map fun items =>
  (submitted (submitterTrace 2 items)) == (List.range items.length).zip items)
#eval count (itemLists.flatMap fun items => concs.map fun c => wellFormed (submitterTrace c items))
-- an earlier history and earlier pending deferred actions are kept (prefix / suffix)
#eval count (itemLists.map fun items =>
  view (runSubmitter F f (argsOf items 2 "stop") (heapOf items) { trace := [.wait], defers := [.wait] }) ==
    some ([], heapOf items, [.wait] ++ bodyTrace 2 items ++ [.close, .wait], [], items.length))
-- `items` anywhere in the heap, as a window of a longer array; `results`, `ctx`, `node`, the mode ANY values: the submitter does not look
def bigHeap (items : List Result) : Heap := [[zero], [item 7, item 8] ++ items ++ [item 9], [zero, zero]]
#eval count (itemLists.flatMap fun items => [GV.nil, .ref "results" 0, .slice 2 0 2, .int 7].map fun res =>
  view (runSubmitter F f (submitterArgs .nil (.str "x") 1 2 items.length res 3 (.int 0)) (bigHeap items) { ia := 1, off := 2 }) ==
    some ([], bigHeap items, submitterTrace 3 items, [], items.length))
-- depth: `items.length + 11` is enough, and for a non-empty list `items.length + 10` is not (an empty list needs 9): the bound of
-- `submitter_refines_of_le`, `items.length + 11`, is the least one that is linear in the number of items
#eval count (itemLists.flatMap fun items =>
  [view (runSubmitter (items.length + 11) f (argsOf items 2 "stop") (heapOf items) {}) ==
      some ([], heapOf items, submitterTrace 2 items, [], items.length),
   items.isEmpty || (runSubmitter (items.length + 10) f (argsOf items 2 "stop") (heapOf items) {}).isNone])
-- the world is stuck on anything but the pool: a submitter that locked `mu`, asked the context or ran an item would have no result
#eval count [(submitWorld.mcall (.ref "mutex" 0) "Lock" [] [] {}).isNone, (submitWorld.mcall (.ref "ctx" 0) "Err" [] [] {}).isNone,
  (submitWorld.call "runExecWithRetries" [ctxH, .node 3, .result zero] [] {}).isNone,
  (submitWorld.mcall poolH "Close" [] [] {}).isNone, (submitWorld.readVar "shouldStop" {}).isNone,
  submitWorld.invokes poolH "Submit" == false]
-- a `Submit` beyond the items (no such heap cell) is stuck
#eval count [(submitWorld.mcall poolH "Submit" [.ref "closure" 0] [[item 0]] { submitted := 1 }).isNone,
  (submitWorld.mcall poolH "Submit" [.ref "closure" 0] [[item 0]] {}).isSome]
