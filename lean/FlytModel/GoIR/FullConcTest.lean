import FlytModel.GoIR.Gen
import FlytModel.GoIR.FullConcWorld
import FlytModel.Generated.IR
/-!
# Executable non-vacuity check of the fully composed batch stack (both executors interpreted)

`lake env lean FlytModel/GoIR/FullConcTest.lean` (Goal A, then Goal B at the end) — on generated scripted batches (the generator of `BatchStackTest.lean`:
`Gen.batchScenario`), each with the concurrency forced to every value in {0,1,2,3}, run the REGENERATED `runBatch` in
`stackBatchWorld2`: the call `runBatchSequential(…)` is the regenerated source in `stackSeqWorld`, the call
`runBatchConcurrent(…)` the regenerated source in `stackConcSerialWorld` (serial schedule of the pool), and in both every item
call is the regenerated `runExecWithRetries` in the item's world — no model function below the entry point. Compare events,
context and outcome with the model's `Flyt.runBatch`. Prints how many scenarios took the concurrent / sequential path on a
non-empty batch and `bad=K/N`. Negative control: with an `idxOf` that cannot tell the items apart the comparison must fail on
some scenario of each path (the hypothesis of the theorem is not idle).
-/
open Flyt Flyt.GoIR Flyt.GoIR.Gen

def idxOfDeep2 (r : Result) : Nat := match r.value with | .tok n => n - 100 | .res (.tok n) _ => n - 100 | _ => 0

/-- family 0: the generator of `BatchStackTest.lean` (`Gen.batchScenario`) with the concurrency forced -/
def scenA (seed conc : Nat) : BatchCfg × BatchScript × Ctx :=
  let (cfg, scr, ctx) := batchScenario seed
  ({ cfg with conc := conc }, scr, ctx)

/-- family 1: the same ingredients (`Gen.lcg` / `pick` / `vals` / `fbs` / `shapes` / `mkAct`) with every per-item / per-attempt
    draw mixed through the generator (in `batchScenario` the attempts of all items of a batch mostly share one outcome), longer
    batches, fewer cancellations: most scenarios run several items with retries, waits and fallbacks -/
def mix (s : Nat) : Nat := lcg (lcg (s + 1))
def outV (s : Nat) : Out Val :=
  let r := pick (mix s) 7
  let c := pick (mix (s + 3)) 11 == 0
  if r < 4 then { res := .ok (vals[pick (mix (s + 5)) 5]!), cancels := c }
  else { res := .error (pick (mix (s + 7)) 4), cancels := c, junk := if r == 6 then some (.tok 4) else none }
def shapes8 : Array PrepShape := #[.results, .anys, .typed, .results, .anys, .typed, .single, .nilv]
def scenB (seed conc : Nat) : BatchCfg × BatchScript × Ctx :=
  let s := mix seed
  let cfg : BatchCfg :=
    { budget := 1 + pick (mix (s + 1)) 3, wait := if pick (mix (s + 2)) 2 == 0 then 0 else 7, fb := fbs[pick (mix (s + 3)) 3]!,
      conc := conc, stop := pick (mix (s + 4)) 2 == 0, execS := #[Style.absent, .res, .any, .res, .any][pick (mix (s + 5)) 5]!,
      hasPost := pick (mix (s + 6)) 4 != 0, shape := shapes8[pick (mix (s + 7)) 8]! }
  let n := pick (mix (s + 8)) 7
  let l := (List.range n).map fun j => if pick (mix (s + 20 + j)) 5 == 0 then Val.res (.tok (100 + j)) none else Val.tok (100 + j)
  let scr : BatchScript :=
    { prep := if pick (mix (s + 9)) 12 == 0 then { res := .error 2 } else { res := .ok l, cancels := pick (mix (s + 10)) 15 == 0 },
      item := fun i => { exec := fun k => outV (s + 1000 * i + 100 * k), waitCancel := fun k => pick (mix (s + 7000 * i + 31 * k)) 9 == 0,
                         fb := outV (s + 50000 + 17 * i) },
      post := mkAct (mix (s + 11)) }
  let ctx : Ctx := match pick (mix (s + 12)) 12 with | 0 => .done .canceled | 1 => .done .deadline | _ => .live
  (cfg, scr, ctx)

def scen (fam seed conc : Nat) : BatchCfg × BatchScript × Ctx := if fam == 0 then scenA seed conc else scenB seed conc

def fullConcRun (idx : Result → Nat) (fam seed conc : Nat) : Option (List Ev × Ctx × Outcome) :=
  let (cfg, scr, ctx) := scen fam seed conc
  stackBatchIR2 400 400 400 400 Flyt.Generated.IR.runBatch Flyt.Generated.IR.runBatchSequential
    Flyt.Generated.IR.runBatchConcurrent Flyt.Generated.IR.runExecWithRetries .canceled 3 1 8 cfg scr idx ctx

def modelRun2 (fam seed conc : Nat) : List Ev × Ctx × Outcome :=
  let (cfg, scr, ctx) := scen fam seed conc
  runBatch .canceled 3 1 8 cfg scr ctx

def itemCount (fam seed : Nat) : Nat :=
  let (cfg, scr, _) := scen fam seed 0
  match scr.prep.res with | .ok l => (normItems cfg.shape l).length | _ => 0

def isRetry : Ev → Bool | .bexec _ _ _ k _ => k > 0 | _ => false
def isSecond : Ev → Bool | .bexec _ _ i _ _ => i > 0 | _ => false
def isWait : Ev → Bool | .bwait .. => true | _ => false
def isFb : Ev → Bool | .bfb .. => true | _ => false
def postHas (tag : FwTag) : Ev → Bool
  | .bpost _ _ _ _ slots => slots.any fun b => match b with | .res _ (some (.fw t)) => t == tag | _ => false
  | _ => false

def mainA : IO (Nat × Nat) := do
  let mut bad := 0
  let mut total := 0
  let mut concPath := 0; let mut seqPath := 0
  let mut cSecond := 0; let mut cRetry := 0; let mut cWait := 0; let mut cFb := 0; let mut cStopped := 0; let mut cCancelled := 0
  let mut ctlConc := 0; let mut ctlSeq := 0
  let mut firstBad : Option (Nat × Nat × Nat) := none
  for (fam, count) in [(0, 100), (1, 200)] do
    for seed in (List.range count).map fun i => i * 7919 + 13 do
      for conc in [0, 1, 2, 3] do
        total := total + 1
        let m := modelRun2 fam seed conc
        if fullConcRun idxOfDeep2 fam seed conc != some m then
          bad := bad + 1
          if firstBad.isNone then firstBad := some (fam, seed, conc)
        if itemCount fam seed > 0 then
          if conc > 0 then concPath := concPath + 1 else seqPath := seqPath + 1
        if conc > 0 then
          if m.1.any isSecond then cSecond := cSecond + 1
          if m.1.any isRetry then cRetry := cRetry + 1
          if m.1.any isWait then cWait := cWait + 1
          if m.1.any isFb then cFb := cFb + 1
          if m.1.any (postHas .batchStopped) then cStopped := cStopped + 1
          if m.1.any (postHas .batchCancelled) then cCancelled := cCancelled + 1
        -- negative control: an `idxOf` that maps every item to 0
        if itemCount fam seed ≥ 2 ∧ fullConcRun (fun _ => 0) fam seed conc != some m then
          if conc > 0 then ctlConc := ctlConc + 1 else ctlSeq := ctlSeq + 1
  match firstBad with
  | some (f, s, c) =>
    IO.println s!"firstBad family={f} seed={s} conc={c} MODEL={reprStr (modelRun2 f s c)} STACK={reprStr (fullConcRun idxOfDeep2 f s c)}"
  | none => pure ()
  IO.println s!"scenarios={total} (300 batches x conc in 0..3) concurrentPathNonEmpty={concPath} sequentialPathNonEmpty={seqPath}"
  IO.println s!"concurrent path: ranSecondItem={cSecond} withRetry={cRetry} withWait={cWait} withFallback={cFb} stoppedOnError={cStopped} cancelledSlots={cCancelled}"
  IO.println s!"negative control (idxOf = const 0, batches of >= 2 items): mismatches concurrent={ctlConc} sequential={ctlSeq} (expected > 0 each)"
  IO.println s!"runBatch>(runBatchSequential|runBatchConcurrent[serial])>runExecWithRetries, all Generated.IR: bad={bad}/{total}"
  return (bad, total)

/-! Goal B: `fullRunCanon2` / `fullRun2'` (the whole orchestration, both executors interpreted; `Expected.IR`, as `fullRun`) against
`runNode` on the arenas of `FullStackWorld.lean`, as they are (node 11 concurrent) and with EVERY batch node made concurrent -/
open Flyt.GoIR.FullEx Flyt.Proofs in
def mainB : IO (Nat × Nat) := do
  let ids : List NodeId := [0, 1, 2, 3, 4, 5, 6, 7, 8, 9, 10, 11, 12, 13]
  let sameRes (a : Option RunRes) (m : RunRes) : Bool :=
    match a with
    | some r => r.1 == m.1 && r.2.2 == m.2.2 && r.2.1.ctx == m.2.1.ctx && ids.all fun i => r.2.1.visits i == m.2.1.visits i
    | none => false
  let concAll (env : Flyt.Env) (c : Nat) : Flyt.Env :=
    { env with arena := fun id => match env.arena id with | .batch cfg => .batch { cfg with conc := c } | d => d }
  let base : List (String × Flyt.Env) :=
    [("envB", envB), ("envBCancel", envBCancel), ("envBWaitCancel", envBWaitCancel), ("envBPrepFail", envBPrepFail),
     ("envBPostFail", envBPostFail)]
  let envs := base ++ base.map (fun (nm, e) => (nm ++ "/conc=1", concAll e 1)) ++ base.map (fun (nm, e) => (nm ++ "/conc=3", concAll e 3))
  let states : List RunSt := [Ex.st0, Ex.stDone, { ctx := .live, visits := fun n => if n = 9 then 1 else 0 }]
  let mut bad := 0; let mut n := 0; let mut fuelOut := 0; let mut concBatches := 0
  for (name, env) in envs do
    for k in [1, 2, 4, 12] do
      for id in ids do
        for st in states do
          let m := runNode env k id 7 st
          if m.2.2 == .fuel then
            fuelOut := fuelOut + 1
          else
            n := n + 2
            let concRan := m.1.any fun e => match e with
              | .bprep nd _ _ => (match env.arena nd with | .batch cfg => cfg.conc > 0 | _ => false)
              | _ => false
            if concRan then concBatches := concBatches + 1
            if !(sameRes (fullRunCanon2 env k id 7 st) m) then
              bad := bad + 1
              IO.println s!"MISMATCH fullRun2 {name} k={k} id={id}"
            if !(sameRes (fullRun2' env (canonIdx env) k id 7 st) m) then
              bad := bad + 1
              IO.println s!"MISMATCH fullRun2' {name} k={k} id={id}"
  IO.println s!"Goal B fullRun2 / fullRun2' vs runNode: runsThroughAConcurrentBatchNode={concBatches} bad={bad}/{n} (model out of fuel, not compared: {fuelOut})"
  return (bad, n)

def main : IO Unit := do
  let (a, na) ← mainA
  let (b, nb) ← mainB
  IO.println s!"bad={a + b}/{na + nb}"

#eval main
