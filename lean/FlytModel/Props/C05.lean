import FlytModel.Proofs.SpecBridge
import FlytModel.Proofs.ExampleEnv
/-!
# C05 — Cancellation stops runs and flows and is reported as such

Theorems about `runNode` / `flowLoop` (`Model/Flow.lean`) for EVERY arena (any nesting depth), behaviour,
run state, store, fuel that does not run out, and both context kinds (`env.kind`: cancel / deadline).

Vocabulary: `cancelsAt env e` (`Proofs/Cancel.lean`) — the callback invocation recorded as event `e` cancels the
run's context according to its script (`Spec.scriptCancels`), or `e` is a wait between retries that was cut
short by an asynchronous cancellation.  Batch nodes run directly are outside this property (DESIGN B6: `runBatch`
has no context check before prep; their behaviour under cancellation is C11).
-/
namespace Flyt.Props.C05
open Flyt Flyt.Proofs

/-- **(i) Context already done.**  A leaf or a flow run on a context that is already done invokes no user
    callback, leaves the run state untouched and returns the context's own error (`canceled` / `deadline`). -/
theorem done_ctx_no_callbacks (env : Env) (fuel : Nat) (root : NodeId) (sid : StoreId) (st : RunSt) (k : CtxKind)
    (hdone : st.ctx = .done k) (hnb : ∀ cfg, env.arena root ≠ .batch cfg) :
    runNode env (fuel + 1) root sid st = ([], st, .err (.ctx k)) := by
  cases hA : env.arena root with
  | leaf cfg => rw [runNode_leaf hA, leafStep_done hdone]
  | batch cfg => exact absurd hA (hnb cfg)
  | flow s ops => simp [runNode, hA, hdone]

/-- … and so does the loop of `Flow.Exec` entered at any node ("flow: exec cancelled"): no further node is started. -/
theorem done_ctx_no_further_node (env : Env) (fuel : Nat) (tbl : Table) (cur : NodeId) (sid : StoreId) (st : RunSt)
    (k : CtxKind) (hdone : st.ctx = .done k) :
    flowLoop env (fuel + 1) tbl cur sid st = ([], st, .err (.ctx k)) := by
  simp [flowLoop, hdone]

example : runNode Ex.env1 10 0 7 Ex.stDone = ([], Ex.stDone, .err (.ctx .deadline)) ∧
    runNode Ex.env1 10 1 7 Ex.stDone = ([], Ex.stDone, .err (.ctx .deadline)) :=
  ⟨done_ctx_no_callbacks Ex.env1 9 0 7 Ex.stDone .deadline rfl (by intro c h; cases h),
   done_ctx_no_callbacks Ex.env1 9 1 7 Ex.stDone .deadline rfl (by intro c h; cases h)⟩

/-- **(ii) Nothing new is started after a cancellation.**  Whatever follows a cancelling event `c` in the
    trace of a run belongs to the same visit of the same node as `c` and is that visit's fallback or post
    callback (or, inside a batch node, a further event of that batch node: C11).  In particular … -/
theorem after_cancel_only_same_visit (env : Env) (fuel : Nat) (root : NodeId) (sid : StoreId) (st : RunSt)
    {evs st' out} (h : runNode env fuel root sid st = (evs, st', out)) (hfuel : out ≠ .fuel)
    {pre post : List Ev} {c : Ev} (hsplit : evs = pre ++ c :: post) (hc : cancelsAt env c = true) :
    ∀ e ∈ post, Spec.evKey e = Spec.evKey c ∧
      (Spec.isFbEv e || Spec.isPostEv e || Spec.isBatchEv e) = true := by
  have ht := big_cancelTail (big_of_runNode h hfuel)
  unfold CancelTail at ht
  rw [hsplit, List.pairwise_append, List.pairwise_cons] at ht
  intro e he
  exact ht.2.1.1 e he hc

/-- … **no exec attempt is started** after the cancellation, and **no other node is touched**. -/
theorem after_cancel_no_exec_no_other_node (env : Env) (fuel : Nat) (root : NodeId) (sid : StoreId) (st : RunSt)
    {evs st' out} (h : runNode env fuel root sid st = (evs, st', out)) (hfuel : out ≠ .fuel)
    {pre post : List Ev} {c : Ev} (hsplit : evs = pre ++ c :: post) (hc : cancelsAt env c = true) :
    ∀ e ∈ post, Spec.isExecEv e = false ∧ Spec.isPrepEv e = false ∧ (Spec.evKey e).1 = (Spec.evKey c).1 := by
  intro e he
  obtain ⟨hk, hl⟩ := after_cancel_only_same_visit env fuel root sid st h hfuel hsplit hc e he
  refine ⟨?_, ?_, by rw [hk]⟩ <;> cases e <;> simp_all [Spec.isExecEv, Spec.isPrepEv, Spec.isFbEv, Spec.isPostEv, Spec.isBatchEv]

example : cancelsAt Ex.envCancel (.post 4 0 7 (.tok 1) (.tok 2)) = true ∧
    (runNode Ex.envCancel 10 0 7 Ex.st0).1.getLast? = some (.post 4 0 7 (.tok 1) (.tok 2)) ∧
    (runNode Ex.envCancel 10 0 7 Ex.st0).2.2 = .err (.ctx .canceled) ∧
    (runNode Ex.envExecCancel 10 0 7 Ex.st0).1 = [.prep 1 0 7, .exec 1 0 0 (.tok 1)] ∧
    (runNode Ex.envExecCancel 10 0 7 Ex.st0).2.2 = .err (.ctx .canceled) := by decide

/-- **(iii) A context error is the context's error.**  Whenever a run reports a context error `k`, the context
    is done with exactly that `k` at the end of the run; for a run started on a live context `k` is the run's
    own kind (cancel ↦ `Canceled`, deadline ↦ `DeadlineExceeded`) and some callback on the path (or an
    asynchronous cancel during a wait) did cancel it.  For a run started on a done context it is that context's error. -/
theorem ctx_error_matches_ctx (env : Env) (fuel : Nat) (root : NodeId) (sid : StoreId) (st : RunSt)
    {evs st' k} (h : runNode env fuel root sid st = (evs, st', .err (.ctx k))) :
    st'.ctx = .done k ∧
    (st.ctx = .live → k = env.kind ∧ ∃ e ∈ evs, cancelsAt env e = true) ∧
    (∀ k0, st.ctx = .done k0 → k = k0) := by
  have hb := big_of_runNode h (by simp)
  have hd := big_ctxErr hb k rfl
  refine ⟨hd, fun hl => big_ctxErr_live hb hl rfl, ?_⟩
  intro k0 h0
  have := (big_track hb).done k0 h0
  rw [this] at hd; cases hd; rfl

/-- **(iii) The context's state decides.**  Without any cancellation a live context stays live and no
    context error is reported; once a callback has cancelled, the context is done for the rest of the run. -/
theorem ctx_after_run (env : Env) (fuel : Nat) (root : NodeId) (sid : StoreId) (st : RunSt)
    {evs st' out} (h : runNode env fuel root sid st = (evs, st', out)) (hfuel : out ≠ .fuel) (hlive : st.ctx = .live) :
    ((∀ e ∈ evs, cancelsAt env e = false) → st'.ctx = .live ∧ ∀ k, out ≠ .err (.ctx k)) ∧
    ((∃ e ∈ evs, cancelsAt env e = true) → st'.ctx = .done env.kind) := by
  have hb := big_of_runNode h hfuel
  constructor
  · intro hq
    refine ⟨(big_track hb).quiet hlive hq, ?_⟩
    intro k hk
    obtain ⟨_, e, he, hz⟩ := big_ctxErr_live hb hlive hk
    rw [hq e he] at hz; cases hz
  · rintro ⟨e, he, hz⟩
    exact (big_track hb).hit hlive e he hz

/-- **(iii) A run that reports success was not cut short.**  `clearEnv env` is the same scenario with every
    cancellation removed (the reference run of `Spec.c05`).  If a run started on a live context returns an action
    — or merely ends with its context still live — then it is, event for event, visit counter for visit counter,
    and in its outcome, the run of the scenario without cancellation: nothing was skipped.  (Cancellation inside
    a batch node's own callbacks is C11's subject and excluded by `hbatch`.) -/
theorem ok_run_was_not_cut_short (env : Env) (fuel : Nat) (root : NodeId) (sid : StoreId) (st : RunSt)
    {evs st' out} (h : runNode env fuel root sid st = (evs, st', out)) (hfuel : out ≠ .fuel)
    (hlive : st.ctx = .live)
    (hbatch : ∀ e ∈ evs, Spec.isBatchEv e = true → cancelsAt env e = false)
    (hok : (∃ a, out = .ok a) ∨ st'.ctx = .live) :
    ∃ f, ∀ f', f ≤ f' → runNode (clearEnv env) f' root sid st = (evs, relive st', out) := by
  have hb := big_cleared (big_of_runNode h hfuel) hlive hbatch (hok.symm)
  obtain ⟨hr, f, hf⟩ := run_of_big hb
  exact ⟨f, fun f' hf' => runNode_mono hf (by simpa using hr) f' hf'⟩

/-- … contrapositive, the way the property says it: **a run that is cut short does not report success.**
    If the run under cancellation differs in any callback event or in its outcome from the run of the same
    scenario without cancellation, its outcome is not an action (by `ctx_after_run` / `outcome_shapes` it is then
    the context's error, or a user error returned by the very callback that cancelled). -/
theorem cut_short_never_ok (env : Env) (fuel fuel₀ : Nat) (root : NodeId) (sid : StoreId) (st : RunSt)
    {evs st' out evs₀ st₀ out₀} (h : runNode env fuel root sid st = (evs, st', out)) (hfuel : out ≠ .fuel)
    (h₀ : runNode (clearEnv env) fuel₀ root sid st = (evs₀, st₀, out₀)) (hfuel₀ : out₀ ≠ .fuel)
    (hlive : st.ctx = .live)
    (hbatch : ∀ e ∈ evs, Spec.isBatchEv e = true → cancelsAt env e = false)
    (hdiff : evs ≠ evs₀ ∨ out ≠ out₀) : ∀ a, out ≠ .ok a := by
  intro a ha
  obtain ⟨f, hf⟩ := ok_run_was_not_cut_short env fuel root sid st h hfuel hlive hbatch (.inl ⟨a, ha⟩)
  have := runNode_det (hf f (Nat.le_refl f)) (by simpa using hfuel) h₀ (by simpa using hfuel₀)
  simp only [Prod.mk.injEq] at this
  rcases hdiff with hd | hd
  · exact hd this.1
  · exact hd this.2.2

example :
    -- cancellation inside post of the LAST node: the run completes, identical to the uncancelled run
    (runNode Ex.envCancelLast 10 0 7 Ex.st0).2.2 = .ok "again" ∧
    (runNode Ex.envCancelLast 10 0 7 Ex.st0).1 = (runNode (clearEnv Ex.envCancelLast) 10 0 7 Ex.st0).1 ∧
    (runNode Ex.envCancelLast 10 0 7 Ex.st0).2.1.ctx = .done .canceled ∧
    -- cancellation inside post of an inner node: cut short, context error
    (runNode Ex.envCancel 10 0 7 Ex.st0).1.length = 6 ∧
    (runNode (clearEnv Ex.envCancel) 10 0 7 Ex.st0).1.length = 12 ∧
    (runNode Ex.envCancel 10 0 7 Ex.st0).2.2 = .err (.ctx .canceled) := by decide

/-- **C05 as the driver evaluates it.**  `Spec.c05 env ctx₀ o ref` holds of the model's own observation `o` of any
    run of a non-batch root and the observation `ref` of the same scenario without cancellation (`clearEnv`, same
    visit counters, live context), whatever function of the event list the store log is. -/
theorem spec_c05 (env : Env) (fuel fuel₀ : Nat) (root : NodeId) (sid : StoreId) (st : RunSt)
    (hnb : ∀ cfg, env.arena root ≠ .batch cfg)
    (hfuel : (runNode env fuel root sid st).2.2 ≠ .fuel)
    (hfuel₀ : (runNode (clearEnv env) fuel₀ root sid (relive st)).2.2 ≠ .fuel)
    (storeOf : List Ev → List Nat) :
    Spec.c05 env st.ctx (obsWith storeOf (runNode env fuel root sid st))
      (obsWith storeOf (runNode (clearEnv env) fuel₀ root sid (relive st))) = true :=
  spec_c05_of_big (big_of_runNode rfl hfuel) hnb (big_of_runNode rfl hfuel₀) storeOf

example : Spec.c05 Ex.envCancel .live (obsWith (fun _ => []) (runNode Ex.envCancel 10 0 7 Ex.st0))
      (obsWith (fun _ => []) (runNode (clearEnv Ex.envCancel) 10 0 7 (relive Ex.st0))) = true ∧
    Spec.c05 Ex.envCancelLast .live (obsWith (fun _ => []) (runNode Ex.envCancelLast 10 0 7 Ex.st0))
      (obsWith (fun _ => []) (runNode (clearEnv Ex.envCancelLast) 10 0 7 (relive Ex.st0))) = true := by decide

end Flyt.Props.C05
