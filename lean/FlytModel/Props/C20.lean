import FlytModel.Proofs.Wait
/-!
# C20 — the retry wait is honoured between attempts and is interruptible

Statements about the model (`runLeaf` = `flyt.Run` on a plain node, flyt.go:681-761; `runItem` =
`runExecWithRetries`, batch.go:317-360), for **all** configurations, scripts and contexts.
In the model a wait before attempt `k` is the event `wait n v k dur fired` (`bwait … i k dur fired`
for item `i` of a batch): `fired = true` is the timer branch of the `select`, `fired = false` the
`ctx.Done()` branch.  "`fired = true` ⇒ at least `dur` elapsed" is `time.After`'s contract and is
trusted; the correspondence harness measures it on the real code.

* `*_retry_preceded_by_wait`     with a wait configured every attempt k > 0 is immediately preceded by
                                 `wait k (effWait) true`
* `*_no_wait_before_first`       nothing but the prep event precedes attempt 0 — no wait
* `*_fired_wait_followed`        a fired wait is immediately followed by the attempt it precedes, hence
                                 no wait follows the last attempt
* `*_no_wait_without_config`     effWait = 0 ⇒ no wait events at all
* `*_interrupted_wait_ends_run`  an interrupted wait is the last event, the outcome is the context's error
* `*_fired_iff_not_cancelled`    the `select`'s branch is the oracle's
* `*_cancellation_cuts_wait`     if attempt j was made and failed, budget remains, a wait is configured
                                 and the cancellation arrives during the wait before attempt j+1, the run
                                 ends with that interrupted wait (it does not sleep it out, it does not
                                 start attempt j+1)
* `leaf_spec`, `item_spec`, `batch_spec`   the decidable predicate the driver evaluates on the
                                 implementation's observations holds of every model observation
-/
namespace Flyt.Props.C20
open Flyt Flyt.Spec Flyt.Proofs.Wait

/-! ## a single node -/

section leaf
variable (kind : CtxKind) (n v sid : Nat) (cfg : LeafCfg) (scr : LeafScript) (ctx : Ctx)

/-- every exec / wait event of the run is one of the retry loop's own -/
private theorem leaf_pivot {x : Ev} {pev aev tail pre post : List Ev} {pv : Val} {c : Bool}
    (htr : (runLeaf kind n v sid cfg scr ctx).1 = pev ++ aev ++ tail)
    (hpev : pev = [] ∨ pev = [.prep n v sid]) (htail : ∀ e ∈ tail, isTailEv n v sid e)
    (hs : AttShape (leafExec n v (execArg cfg.execS pv)) (leafWait n v cfg.effWait) cfg.effWait scr.waitCancel
          (stopAt cfg.effWait cfg.effBudget scr.exec scr.waitCancel) 0 aev c)
    (hx : isLeafLoop x = true) (h : (runLeaf kind n v sid cfg scr ctx).1 = pre ++ x :: post) :
    ∃ p q, aev = p ++ x :: q ∧ pre = pev ++ p ∧ post = q ++ tail ∧
      ((∃ j, x = leafExec n v (execArg cfg.execS pv) j) ∨
       (∃ j f, 0 < j ∧ 0 < cfg.effWait ∧ scr.waitCancel j = !f ∧ x = leafWait n v cfg.effWait j f)) := by
  obtain ⟨p, q, haev, hpre, hpost⟩ := leaf_split htr hpev htail hx h
  refine ⟨p, q, haev, hpre, hpost, ?_⟩
  have hmem : x ∈ aev := by rw [haev]; simp
  rcases shape_events hs x hmem with ⟨j, _, hj⟩ | ⟨j, f, _, h1, h2, h3, hj⟩
  · exact Or.inl ⟨j, hj⟩
  · exact Or.inr ⟨j, f, h1, h2, h3, hj⟩

/-- **C20, waits are honoured.**  With a wait configured, every attempt after the first is
    immediately preceded by its wait, and that wait lasted its full duration. -/
theorem leaf_retry_preceded_by_wait (hw : 0 < cfg.effWait) :
    ∀ (k : Nat) (a : Val) (pre post : List Ev), 0 < k →
      (runLeaf kind n v sid cfg scr ctx).1 = pre ++ .exec n v k a :: post →
      ∃ pre', pre = pre' ++ [.wait n v k cfg.effWait true] := by
  intro k a pre post hk h
  obtain ⟨pev, aev, tail, pv, c, htr, hpev, htail, hs, _⟩ := runLeaf_struct kind n v sid cfg scr ctx
  obtain ⟨p, q, haev, hpre, _, hform⟩ := leaf_pivot kind n v sid cfg scr ctx htr hpev htail hs (by simp [isLeafLoop]) h
  rcases hform with ⟨j, hj⟩ | ⟨j, f, _, _, _, hj⟩
  · have hkj : k = j := by simp [leafExec] at hj; exact hj.1
    subst hkj
    rw [hj] at haev
    obtain ⟨p', hp'⟩ := shape_exec_preceded (leaf_mkOK n v cfg.effWait _) hs hw k p q hk haev
    exact ⟨pev ++ p', by simp [hpre, hp', leafWait]⟩
  · simp [leafWait] at hj

def exCfg : LeafCfg :=
  { retryable := true, budget := 3, wait := 25, fb := .absent, prepS := .direct, execS := .direct, postS := .direct }
/-- attempts 0 and 1 fail, attempt 2 succeeds -/
def exScr : LeafScript :=
  { prep := { res := .ok (.tok 1) }, exec := fun k => if k < 2 then { res := .error (k + 1) } else { res := .ok (.tok 2) },
    waitCancel := fun _ => false, fb := { res := .error 9 }, post := { res := .ok "a" } }

/-- non-vacuity: a run with two retries, each preceded by its 25 ms wait -/
example : 0 < exCfg.effWait ∧
    (runLeaf .canceled 0 0 0 exCfg exScr .live).1 =
      [.prep 0 0 0, .exec 0 0 0 (.tok 1), .wait 0 0 1 25 true, .exec 0 0 1 (.tok 1),
       .wait 0 0 2 25 true, .exec 0 0 2 (.tok 1), .post 0 0 0 (.tok 1) (.tok 2)] := by
  decide

/-- **C20, no wait before the first attempt.**  Whatever precedes attempt 0 is not a wait (it is the
    prep event or nothing). -/
theorem leaf_no_wait_before_first :
    ∀ (a : Val) (pre post : List Ev),
      (runLeaf kind n v sid cfg scr ctx).1 = pre ++ .exec n v 0 a :: post →
      (pre = [] ∨ pre = [.prep n v sid]) ∧ ∀ e ∈ pre, e.isWait = false := by
  intro a pre post h
  obtain ⟨pev, aev, tail, pv, c, htr, hpev, htail, hs, _⟩ := runLeaf_struct kind n v sid cfg scr ctx
  obtain ⟨p, q, haev, hpre, _, hform⟩ := leaf_pivot kind n v sid cfg scr ctx htr hpev htail hs (by simp [isLeafLoop]) h
  rcases hform with ⟨j, hj⟩ | ⟨j, f, _, _, _, hj⟩
  · have hkj : 0 = j := by simp [leafExec] at hj; exact hj.1
    subst hkj
    rw [hj] at haev
    have hp : p = [] := shape_first (leaf_mkOK n v cfg.effWait _) hs p q haev
    subst hp
    simp only [List.append_nil] at hpre
    subst hpre
    refine ⟨hpev, ?_⟩
    rcases hpev with rfl | rfl <;> simp [Ev.isWait]
  · simp [leafWait] at hj

/-- non-vacuity: a one-hour wait is configured, attempt 0 starts right after prep -/
example : (runLeaf .canceled 0 0 0 { exCfg with wait := 3600000 } exScr .live).1.take 2 =
    [.prep 0 0 0, .exec 0 0 0 (.tok 1)] := by
  decide

/-- **C20, no wait after the last attempt.**  Every wait event of the run belongs to this visit's
    loop and carries the configured duration; a fired one is immediately followed by the attempt it
    precedes — so no wait follows the last attempt. -/
theorem leaf_fired_wait_followed :
    ∀ (n' v' k d : Nat) (pre post : List Ev),
      (runLeaf kind n v sid cfg scr ctx).1 = pre ++ .wait n' v' k d true :: post →
      n' = n ∧ v' = v ∧ d = cfg.effWait ∧ 0 < k ∧ ∃ a post', post = .exec n v k a :: post' := by
  intro n' v' k d pre post h
  obtain ⟨pev, aev, tail, pv, c, htr, hpev, htail, hs, _⟩ := runLeaf_struct kind n v sid cfg scr ctx
  obtain ⟨p, q, haev, _, hpost, hform⟩ := leaf_pivot kind n v sid cfg scr ctx htr hpev htail hs (by simp [isLeafLoop]) h
  rcases hform with ⟨j, hj⟩ | ⟨j, f, hj0, _, _, hj⟩
  · simp [leafExec] at hj
  · simp only [leafWait, Ev.wait.injEq] at hj
    obtain ⟨rfl, rfl, rfl, rfl, rfl⟩ := hj
    obtain ⟨q', hq'⟩ := shape_wait_followed (leaf_mkOK n' v' cfg.effWait _) hs k p q haev
    exact ⟨rfl, rfl, rfl, hj0, execArg cfg.execS pv, q' ++ tail, by simp [hpost, hq', leafExec]⟩

/-- non-vacuity: budget 2, both attempts fail: the run ends right after attempt 1, the error is the
    last attempt's -/
example : runLeaf .canceled 0 0 0 { exCfg with budget := 2 } exScr .live =
    ([.prep 0 0 0, .exec 0 0 0 (.tok 1), .wait 0 0 1 25 true, .exec 0 0 1 (.tok 1)], .live, .err (.user 2)) := by
  decide

/-- **C20, no wait configured ⇒ no wait events** (a node that is not a `RetryableNode` never reads a
    wait: `effWait = 0`). -/
theorem leaf_no_wait_without_config (hw : cfg.effWait = 0) :
    ∀ e ∈ (runLeaf kind n v sid cfg scr ctx).1, e.isWait = false := by
  intro e he
  obtain ⟨pev, aev, tail, pv, c, htr, hpev, htail, hs, _⟩ := runLeaf_struct kind n v sid cfg scr ctx
  rw [htr] at he
  simp only [List.mem_append] at he
  rcases he with (he | he) | he
  · rcases hpev with rfl | rfl
    · simp at he
    · simp at he; subst he; rfl
  · obtain ⟨j, rfl⟩ := shape_zero_wait hs hw e he
    rfl
  · rcases htail e he with ⟨a, b, rfl⟩ | ⟨a, b, rfl⟩ <;> rfl

/-- non-vacuity: the same failing run with wait 0, and with a node that is not retryable -/
example : (runLeaf .canceled 0 0 0 { exCfg with wait := 0 } exScr .live).1 =
      [.prep 0 0 0, .exec 0 0 0 (.tok 1), .exec 0 0 1 (.tok 1), .exec 0 0 2 (.tok 1), .post 0 0 0 (.tok 1) (.tok 2)]
    ∧ ({ exCfg with retryable := false } : LeafCfg).effWait = 0 := by
  decide

/-- **C20, a cancellation during the wait ends the run there** with an error whose root is the
    context's error; the context is done; the cancellation was the oracle's choice. -/
theorem leaf_interrupted_wait_ends_run :
    ∀ (n' v' k d : Nat) (pre post : List Ev),
      (runLeaf kind n v sid cfg scr ctx).1 = pre ++ .wait n' v' k d false :: post →
      post = [] ∧ (runLeaf kind n v sid cfg scr ctx).2.2 = .err (.ctx kind)
        ∧ (runLeaf kind n v sid cfg scr ctx).2.1 = .done kind
        ∧ n' = n ∧ v' = v ∧ d = cfg.effWait ∧ 0 < k ∧ scr.waitCancel k = true := by
  intro n' v' k d pre post h
  obtain ⟨pev, aev, tail, pv, c, htr, hpev, htail, hs, hc⟩ := runLeaf_struct kind n v sid cfg scr ctx
  obtain ⟨p, q, haev, _, hpost, hform⟩ := leaf_pivot kind n v sid cfg scr ctx htr hpev htail hs (by simp [isLeafLoop]) h
  rcases hform with ⟨j, hj⟩ | ⟨j, f, hj0, _, hwc, hj⟩
  · simp [leafExec] at hj
  · simp only [leafWait, Ev.wait.injEq] at hj
    obtain ⟨rfl, rfl, rfl, rfl, rfl⟩ := hj
    obtain ⟨hq, hct⟩ := shape_cut_last (leaf_mkOK n' v' cfg.effWait _) hs k p q haev
    obtain ⟨ht, hout, hctx⟩ := hc hct
    exact ⟨by simp [hpost, hq, ht], hout, hctx, rfl, rfl, rfl, hj0, by simpa using hwc⟩

def exScrCut : LeafScript := { exScr with waitCancel := fun k => k == 2 }

/-- non-vacuity: the cancellation arrives during the wait before attempt 2 -/
example : runLeaf .deadline 0 0 0 exCfg exScrCut .live =
    ([.prep 0 0 0, .exec 0 0 0 (.tok 1), .wait 0 0 1 25 true, .exec 0 0 1 (.tok 1), .wait 0 0 2 25 false],
      .done .deadline, .err (.ctx .deadline)) := by
  decide

/-- **C20, the `select` follows the oracle**: a wait fired iff no cancellation arrived during it. -/
theorem leaf_fired_iff_not_cancelled :
    ∀ (n' v' k d : Nat) (f : Bool), .wait n' v' k d f ∈ (runLeaf kind n v sid cfg scr ctx).1 →
      scr.waitCancel k = !f := by
  intro n' v' k d f hmem
  obtain ⟨pre, post, h⟩ := List.append_of_mem hmem
  obtain ⟨pev, aev, tail, pv, c, htr, hpev, htail, hs, _⟩ := runLeaf_struct kind n v sid cfg scr ctx
  obtain ⟨p, q, _, _, _, hform⟩ := leaf_pivot kind n v sid cfg scr ctx htr hpev htail hs (by simp [isLeafLoop]) h
  rcases hform with ⟨j, hj⟩ | ⟨j, f', _, _, hwc, hj⟩
  · simp [leafExec] at hj
  · simp only [leafWait, Ev.wait.injEq] at hj
    obtain ⟨_, _, rfl, _, rfl⟩ := hj
    exact hwc

/-- **C20, the cancellation is not slept out** (liveness of the interruption): if attempt `j` was
    made, failed without itself cancelling the context, budget remains, a wait is configured and the
    cancellation arrives during the wait before attempt `j+1` (`stopAt … (j+1)`), then the run's last
    two events are attempt `j` and the interrupted wait, attempt `j+1` never starts, and the outcome is
    the context's error. -/
theorem leaf_cancellation_cuts_wait :
    ∀ (j : Nat) (a : Val), .exec n v j a ∈ (runLeaf kind n v sid cfg scr ctx).1 →
      stopAt cfg.effWait cfg.effBudget scr.exec scr.waitCancel (j + 1) = true →
      (∃ pre, (runLeaf kind n v sid cfg scr ctx).1 = pre ++ [.exec n v j a, .wait n v (j + 1) cfg.effWait false])
      ∧ (runLeaf kind n v sid cfg scr ctx).2.2 = .err (.ctx kind) := by
  intro j a hmem hstop
  obtain ⟨pre0, post0, h⟩ := List.append_of_mem hmem
  obtain ⟨pev, aev, tail, pv, c, htr, hpev, htail, hs, hc⟩ := runLeaf_struct kind n v sid cfg scr ctx
  obtain ⟨p, q, haev, _, _, hform⟩ := leaf_pivot kind n v sid cfg scr ctx htr hpev htail hs (by simp [isLeafLoop]) h
  rcases hform with ⟨j', hj⟩ | ⟨j', f, _, _, _, hj⟩
  · have hjj : j = j' := by simp [leafExec] at hj; exact hj.1
    subst hjj
    have hmem' : leafExec n v (execArg cfg.execS pv) j ∈ aev := by rw [haev, hj]; simp
    have hst : ∀ i, stopAt cfg.effWait cfg.effBudget scr.exec scr.waitCancel i = true →
        0 < cfg.effWait ∧ scr.waitCancel i = true := by
      intro i hi
      simp only [stopAt, Bool.and_eq_true, decide_eq_true_eq] at hi
      exact ⟨hi.1.2, hi.2⟩
    obtain ⟨hct, pre', hp'⟩ := shape_stop (leaf_mkOK n v cfg.effWait _) hst hs j (Nat.zero_le _) hmem' hstop
    obtain ⟨ht, hout, _⟩ := hc hct
    refine ⟨⟨pev ++ pre', ?_⟩, hout⟩
    rw [htr, hp', ht, hj]
    simp [leafExec, leafWait]
  · simp [leafWait] at hj

/-- non-vacuity: in the run above the oracle says "cancel the wait before attempt 2", attempt 1 was
    made and failed, budget 3 remains -/
example : stopAt exCfg.effWait exCfg.effBudget exScrCut.exec exScrCut.waitCancel 2 = true
    ∧ Ev.exec 0 0 1 (.tok 1) ∈ (runLeaf .deadline 0 0 0 exCfg exScrCut .live).1 := by
  decide

/-- **C20 as the driver evaluates it**: the decidable predicate `Spec.c20Leaf` holds of every
    observation of the model. -/
theorem leaf_spec :
    c20Leaf kind cfg scr (runLeaf kind n v sid cfg scr ctx).1 (runLeaf kind n v sid cfg scr ctx).2.2 = true := by
  obtain ⟨pev, aev, tail, pv, c, htr, hpev, htail, hs, hc⟩ := runLeaf_struct kind n v sid cfg scr ctx
  have hpe : ∀ k, leafAEv (leafExec n v (execArg cfg.execS pv) k) = some (.ex k) := fun _ => rfl
  have hpw : ∀ k f, leafAEv (leafWait n v cfg.effWait k f) = some (.wt k cfg.effWait f) := fun _ _ => rfl
  have hpevN : ∀ e ∈ pev, leafAEv e = none := by
    intro e he
    rcases hpev with rfl | rfl
    · simp at he
    · simp at he; subst he; rfl
  have htailN : ∀ e ∈ tail, leafAEv e = none := by
    intro e he
    rcases htail e he with ⟨a, b, rfl⟩ | ⟨a, b, rfl⟩ <;> rfl
  have hproj : (runLeaf kind n v sid cfg scr ctx).1.filterMap leafAEv = aev.filterMap leafAEv := by
    rw [htr, List.filterMap_append, List.filterMap_append, filterMap_none hpevN, filterMap_none htailN]
    simp
  have hadj : firedWaitsAdjacent (runLeaf kind n v sid cfg scr ctx).1 = true := by
    rw [htr, List.append_assoc, adjacent_append_left, shape_adjacent_leaf hs, ← List.append_nil tail,
      adjacent_append_left]
    · rfl
    · intro e he
      rcases htail e he with ⟨a, b, rfl⟩ | ⟨a, b, rfl⟩ <;> rfl
    · intro e he
      rcases hpev with rfl | rfl
      · simp at he
      · simp at he; subst he; rfl
  unfold c20Leaf c20Stream
  simp only [hproj, shape_waitStream hpe hpw hs, shape_firedIff hpe hpw hs, shape_endsCut hpe hpw hs, hadj,
    Bool.and_true, Bool.true_and]
  cases c with
  | false => rfl
  | true => simp [(hc rfl).2.1]

/-- non-vacuity: the predicate is not constantly true — it rejects the trace of the run above with the
    second wait removed, with a wait put before attempt 0, with a wait after the last attempt, and a
    run that slept out a cancelled wait -/
example :
    c20Leaf .canceled exCfg exScr
      [.prep 0 0 0, .exec 0 0 0 (.tok 1), .wait 0 0 1 25 true, .exec 0 0 1 (.tok 1), .exec 0 0 2 (.tok 1),
       .post 0 0 0 (.tok 1) (.tok 2)] (.ok "a") = false
    ∧ c20Leaf .canceled exCfg exScr
      [.prep 0 0 0, .wait 0 0 0 25 true, .exec 0 0 0 (.tok 1)] (.ok "a") = false
    ∧ c20Leaf .canceled { exCfg with budget := 2 } exScr
      [.prep 0 0 0, .exec 0 0 0 (.tok 1), .wait 0 0 1 25 true, .exec 0 0 1 (.tok 1), .wait 0 0 2 25 true]
      (.err (.user 2)) = false
    ∧ c20Leaf .deadline exCfg exScrCut
      [.prep 0 0 0, .exec 0 0 0 (.tok 1), .wait 0 0 1 25 true, .exec 0 0 1 (.tok 1)] (.err (.ctx .deadline)) = false := by
  decide

end leaf

/-! ## one item of a batch node (`runExecWithRetries`: the loop is a separate copy in batch.go) -/

section item
variable (kind : CtxKind) (n v : Nat) (cfg : BatchCfg) (i : Nat) (item : Result) (scr : ItemScript) (ctx : Ctx)

private theorem item_pivot {x : Ev} {aev tail pre post : List Ev} {c : Bool}
    (htr : (runItem kind n v cfg i item scr ctx).1 = aev ++ tail)
    (htail : ∀ e ∈ tail, ∃ a err, e = .bfb n v i a err)
    (hs : AttShape (itemExec n v i (execArg cfg.execS item.box)) (itemWait n v i cfg.wait) cfg.wait scr.waitCancel
          (stopAt cfg.wait cfg.budget scr.exec scr.waitCancel) 0 aev c)
    (hx : isItemLoop i x = true) (h : (runItem kind n v cfg i item scr ctx).1 = pre ++ x :: post) :
    ∃ q, aev = pre ++ x :: q ∧ post = q ++ tail ∧
      ((∃ j, x = itemExec n v i (execArg cfg.execS item.box) j) ∨
       (∃ j f, 0 < j ∧ 0 < cfg.wait ∧ scr.waitCancel j = !f ∧ x = itemWait n v i cfg.wait j f)) := by
  obtain ⟨p, q, haev, hpre, hpost⟩ := item_split htr htail hx h
  subst hpre
  refine ⟨q, haev, hpost, ?_⟩
  have hmem : x ∈ aev := by rw [haev]; simp
  rcases shape_events hs x hmem with ⟨j, _, hj⟩ | ⟨j, f, _, h1, h2, h3, hj⟩
  · exact Or.inl ⟨j, hj⟩
  · exact Or.inr ⟨j, f, h1, h2, h3, hj⟩

/-- **C20 per item, waits are honoured.** -/
theorem item_retry_preceded_by_wait (hw : 0 < cfg.wait) :
    ∀ (k : Nat) (a : Val) (pre post : List Ev), 0 < k →
      (runItem kind n v cfg i item scr ctx).1 = pre ++ .bexec n v i k a :: post →
      ∃ pre', pre = pre' ++ [.bwait n v i k cfg.wait true] := by
  intro k a pre post hk h
  obtain ⟨aev, tail, c, htr, htail, hs, _⟩ := runItem_struct kind n v cfg i item scr ctx
  obtain ⟨q, haev, _, hform⟩ := item_pivot kind n v cfg i item scr ctx htr htail hs (by simp [isItemLoop]) h
  rcases hform with ⟨j, hj⟩ | ⟨j, f, _, _, _, hj⟩
  · have hkj : k = j := by simp [itemExec] at hj; exact hj.1
    subst hkj
    rw [hj] at haev
    obtain ⟨p', hp'⟩ := shape_exec_preceded (item_mkOK n v i cfg.wait _) hs hw k pre q hk haev
    exact ⟨p', by simp [hp', itemWait]⟩
  · simp [itemWait] at hj

def exBatch : BatchCfg :=
  { budget := 3, wait := 10, fb := .passThrough, conc := 0, stop := false, execS := .any, hasPost := true, shape := .results }
def exItem : ItemScript :=
  { exec := fun k => if k < 1 then { res := .error 7 } else { res := .ok (.tok 5) }, waitCancel := fun _ => false,
    fb := { res := .error 9 } }

/-- non-vacuity: item 4 fails once, waits 10 ms, succeeds -/
example : 0 < exBatch.wait ∧ runItem .canceled 0 0 exBatch 4 (newResult (.tok 3)) exItem .live =
    ([.bexec 0 0 4 0 (.tok 3), .bwait 0 0 4 1 10 true, .bexec 0 0 4 1 (.tok 3)], .live, .slot (newResult (.tok 5))) := by
  decide

/-- **C20 per item, no wait before the first attempt**: attempt 0 is the item's first event. -/
theorem item_no_wait_before_first :
    ∀ (a : Val) (pre post : List Ev),
      (runItem kind n v cfg i item scr ctx).1 = pre ++ .bexec n v i 0 a :: post → pre = [] := by
  intro a pre post h
  obtain ⟨aev, tail, c, htr, htail, hs, _⟩ := runItem_struct kind n v cfg i item scr ctx
  obtain ⟨q, haev, _, hform⟩ := item_pivot kind n v cfg i item scr ctx htr htail hs (by simp [isItemLoop]) h
  rcases hform with ⟨j, hj⟩ | ⟨j, f, _, _, _, hj⟩
  · have hkj : 0 = j := by simp [itemExec] at hj; exact hj.1
    subst hkj
    rw [hj] at haev
    exact shape_first (item_mkOK n v i cfg.wait _) hs pre q haev
  · simp [itemWait] at hj

/-- non-vacuity: with a one-hour wait the item's first event is still attempt 0 -/
example : (runItem .canceled 0 0 { exBatch with wait := 3600000 } 4 (newResult (.tok 3)) exItem .live).1.take 1 =
    [.bexec 0 0 4 0 (.tok 3)] := by
  decide

/-- **C20 per item, no wait after the last attempt.** -/
theorem item_fired_wait_followed :
    ∀ (n' v' k d : Nat) (pre post : List Ev),
      (runItem kind n v cfg i item scr ctx).1 = pre ++ .bwait n' v' i k d true :: post →
      n' = n ∧ v' = v ∧ d = cfg.wait ∧ 0 < k ∧ ∃ a post', post = .bexec n v i k a :: post' := by
  intro n' v' k d pre post h
  obtain ⟨aev, tail, c, htr, htail, hs, _⟩ := runItem_struct kind n v cfg i item scr ctx
  obtain ⟨q, haev, hpost, hform⟩ := item_pivot kind n v cfg i item scr ctx htr htail hs (by simp [isItemLoop]) h
  rcases hform with ⟨j, hj⟩ | ⟨j, f, hj0, _, _, hj⟩
  · simp [itemExec] at hj
  · simp only [itemWait, Ev.bwait.injEq] at hj
    obtain ⟨rfl, rfl, _, rfl, rfl, rfl⟩ := hj
    obtain ⟨q', hq'⟩ := shape_wait_followed (item_mkOK n' v' i cfg.wait _) hs k pre q haev
    exact ⟨rfl, rfl, rfl, hj0, execArg cfg.execS item.box, q' ++ tail, by simp [hpost, hq', itemExec]⟩

/-- non-vacuity: budget 1, the only attempt fails: no wait follows it (pass-through fallback) -/
example : runItem .canceled 0 0 { exBatch with budget := 1 } 4 (newResult (.tok 3)) exItem .live =
    ([.bexec 0 0 4 0 (.tok 3)], .live, .error (.user 7)) := by
  decide

/-- **C20 per item, no wait configured ⇒ no wait events.** -/
theorem item_no_wait_without_config (hw : cfg.wait = 0) :
    ∀ e ∈ (runItem kind n v cfg i item scr ctx).1, e.isWait = false := by
  intro e he
  obtain ⟨aev, tail, c, htr, htail, hs, _⟩ := runItem_struct kind n v cfg i item scr ctx
  rw [htr] at he
  simp only [List.mem_append] at he
  rcases he with he | he
  · obtain ⟨j, rfl⟩ := shape_zero_wait hs hw e he
    rfl
  · obtain ⟨a, b, rfl⟩ := htail e he
    rfl

example : (runItem .canceled 0 0 { exBatch with wait := 0 } 4 (newResult (.tok 3)) exItem .live).1 =
    [.bexec 0 0 4 0 (.tok 3), .bexec 0 0 4 1 (.tok 3)] := by
  decide

/-- **C20 per item, a cancellation during the wait ends the item's processing there** with the
    context's error (which `runBatch*` stores in the item's slot). -/
theorem item_interrupted_wait_ends_item :
    ∀ (n' v' k d : Nat) (pre post : List Ev),
      (runItem kind n v cfg i item scr ctx).1 = pre ++ .bwait n' v' i k d false :: post →
      post = [] ∧ (runItem kind n v cfg i item scr ctx).2.2 = .error (.ctx kind)
        ∧ (runItem kind n v cfg i item scr ctx).2.1 = .done kind
        ∧ n' = n ∧ v' = v ∧ d = cfg.wait ∧ 0 < k ∧ scr.waitCancel k = true := by
  intro n' v' k d pre post h
  obtain ⟨aev, tail, c, htr, htail, hs, hc⟩ := runItem_struct kind n v cfg i item scr ctx
  obtain ⟨q, haev, hpost, hform⟩ := item_pivot kind n v cfg i item scr ctx htr htail hs (by simp [isItemLoop]) h
  rcases hform with ⟨j, hj⟩ | ⟨j, f, hj0, _, hwc, hj⟩
  · simp [itemExec] at hj
  · simp only [itemWait, Ev.bwait.injEq] at hj
    obtain ⟨rfl, rfl, _, rfl, rfl, rfl⟩ := hj
    obtain ⟨hq, hct⟩ := shape_cut_last (item_mkOK n' v' i cfg.wait _) hs k pre q haev
    obtain ⟨ht, hout, hctx⟩ := hc hct
    exact ⟨by simp [hpost, hq, ht], hout, hctx, rfl, rfl, rfl, hj0, by simpa using hwc⟩

def exItemCut : ItemScript := { exItem with waitCancel := fun k => k == 1 }

example : runItem .canceled 0 0 exBatch 4 (newResult (.tok 3)) exItemCut .live =
    ([.bexec 0 0 4 0 (.tok 3), .bwait 0 0 4 1 10 false], .done .canceled, .error (.ctx .canceled)) := by
  decide

/-- **C20 per item, the `select` follows the oracle.** -/
theorem item_fired_iff_not_cancelled :
    ∀ (n' v' k d : Nat) (f : Bool), .bwait n' v' i k d f ∈ (runItem kind n v cfg i item scr ctx).1 →
      scr.waitCancel k = !f := by
  intro n' v' k d f hmem
  obtain ⟨pre, post, h⟩ := List.append_of_mem hmem
  obtain ⟨aev, tail, c, htr, htail, hs, _⟩ := runItem_struct kind n v cfg i item scr ctx
  obtain ⟨q, _, _, hform⟩ := item_pivot kind n v cfg i item scr ctx htr htail hs (by simp [isItemLoop]) h
  rcases hform with ⟨j, hj⟩ | ⟨j, f', _, _, hwc, hj⟩
  · simp [itemExec] at hj
  · simp only [itemWait, Ev.bwait.injEq] at hj
    obtain ⟨_, _, _, rfl, _, rfl⟩ := hj
    exact hwc

/-- **C20 per item, the cancellation is not slept out.** -/
theorem item_cancellation_cuts_wait :
    ∀ (j : Nat) (a : Val), .bexec n v i j a ∈ (runItem kind n v cfg i item scr ctx).1 →
      stopAt cfg.wait cfg.budget scr.exec scr.waitCancel (j + 1) = true →
      (runItem kind n v cfg i item scr ctx).1.getLast? = some (.bwait n v i (j + 1) cfg.wait false)
      ∧ (∃ pre, (runItem kind n v cfg i item scr ctx).1 = pre ++ [.bexec n v i j a, .bwait n v i (j + 1) cfg.wait false])
      ∧ (runItem kind n v cfg i item scr ctx).2.2 = .error (.ctx kind) := by
  intro j a hmem hstop
  obtain ⟨pre0, post0, h⟩ := List.append_of_mem hmem
  obtain ⟨aev, tail, c, htr, htail, hs, hc⟩ := runItem_struct kind n v cfg i item scr ctx
  obtain ⟨q, haev, _, hform⟩ := item_pivot kind n v cfg i item scr ctx htr htail hs (by simp [isItemLoop]) h
  rcases hform with ⟨j', hj⟩ | ⟨j', f, _, _, _, hj⟩
  · have hjj : j = j' := by simp [itemExec] at hj; exact hj.1
    subst hjj
    have hmem' : itemExec n v i (execArg cfg.execS item.box) j ∈ aev := by rw [haev, hj]; simp
    have hst : ∀ m, stopAt cfg.wait cfg.budget scr.exec scr.waitCancel m = true → 0 < cfg.wait ∧ scr.waitCancel m = true := by
      intro m hm
      simp only [stopAt, Bool.and_eq_true, decide_eq_true_eq] at hm
      exact ⟨hm.1.2, hm.2⟩
    obtain ⟨hct, pre', hp'⟩ := shape_stop (item_mkOK n v i cfg.wait _) hst hs j (Nat.zero_le _) hmem' hstop
    obtain ⟨ht, hout, _⟩ := hc hct
    have heq : (runItem kind n v cfg i item scr ctx).1 = pre' ++ [.bexec n v i j a, .bwait n v i (j + 1) cfg.wait false] := by
      rw [htr, hp', ht, hj]
      simp [itemExec, itemWait]
    exact ⟨by rw [heq]; simp, ⟨pre', heq⟩, hout⟩
  · simp [itemWait] at hj

example : stopAt exBatch.wait exBatch.budget exItemCut.exec exItemCut.waitCancel 1 = true
    ∧ Ev.bexec 0 0 4 0 (.tok 3) ∈ (runItem .canceled 0 0 exBatch 4 (newResult (.tok 3)) exItemCut .live).1 := by
  decide

/-- **C20 per item as the driver evaluates it** (`slot` = what `runBatch*` stores for the item). -/
theorem item_spec :
    c20Item kind cfg scr i (runItem kind n v cfg i item scr ctx).1
      (some (slotOfItemRes (runItem kind n v cfg i item scr ctx).2.2).box) = true :=
  runItem_c20Item kind n v cfg i item scr ctx

/-- non-vacuity: the predicate rejects an item whose retry came without its wait, and an item that was
    cut short but whose slot does not carry the context's error -/
example :
    c20Item .canceled exBatch exItem 4 [.bexec 0 0 4 0 (.tok 3), .bexec 0 0 4 1 (.tok 3)] none = false
    ∧ c20Item .canceled exBatch exItemCut 4 [.bexec 0 0 4 0 (.tok 3), .bwait 0 0 4 1 10 false]
        (some (newErrorResult (.user 7)).box) = false := by
  decide

end item

/-! ## a whole batch node (sequential, one worker, and the all-started schedule of ≥ 2 workers) -/

section batch
variable (kind : CtxKind) (n v sid : Nat) (cfg : BatchCfg) (scr : BatchScript) (ctx : Ctx)

/-- **The same holds per item inside batches.**  In a batch run (`runBatchW`: `runBatch` for
    concurrency 0 / 1, the all-started schedule for ≥ 2 workers) the retry-loop events of item `i`
    are exactly the retry-loop events of `runItem` on that item (or none, if the item was never
    started) — so every per-item statement above holds of them. -/
theorem batch_items_are_runItem (i : Nat) :
    (runBatchW kind n v sid cfg scr ctx).1.filterMap (itemAEv i) = [] ∨
      ∃ it ctx', (runBatchW kind n v sid cfg scr ctx).1.filterMap (itemAEv i)
        = (runItem kind n v cfg i it (scr.item i) ctx').1.filterMap (itemAEv i) := by
  obtain ⟨items, iev, slots, its, hasPost, hrun, htr⟩ := runBatchW_form kind n v sid cfg scr ctx
  rw [htr, form_proj]
  exact itemsRun_proj hrun i

/-- **C20 for a batch run as the driver evaluates it**: every item's stream has the prescribed shape,
    an interrupted item's slot carries the context's error, and (where the trace order is meaningful)
    fired waits are adjacent to their attempts. -/
theorem batch_spec (nItems : Nat) (ordered : Bool) :
    c20Batch kind cfg scr nItems ordered (runBatchW kind n v sid cfg scr ctx).1 = true := by
  obtain ⟨items, iev, slots, its, hasPost, hrun, htr⟩ := runBatchW_form kind n v sid cfg scr ctx
  rw [htr]
  exact c20Batch_of_form hrun its hasPost nItems ordered

/-- the same for `runBatch` itself (any concurrency: its concurrent path is the serial schedule) -/
theorem batch_spec_runBatch (nItems : Nat) (ordered : Bool) :
    c20Batch kind cfg scr nItems ordered (runBatch kind n v sid cfg scr ctx).1 = true := by
  obtain ⟨items, iev, slots, its, hasPost, hrun, htr⟩ := runBatch_form kind n v sid cfg scr ctx
  rw [htr]
  exact c20Batch_of_form hrun its hasPost nItems ordered

def exBatchScr : BatchScript :=
  { prep := { res := .ok [.res (.tok 3) none, .res (.tok 4) none] },
    item := fun i => if i = 0 then exItem else exItemCut,
    post := { res := .ok "done" } }

/-- non-vacuity: two items, sequential; item 0 retries after its 10 ms wait, item 1 is cut short in its
    wait and its slot carries the context's error; on two workers (all-started schedule) the same
    per-item events -/
example :
    (runBatchW .canceled 0 0 0 exBatch exBatchScr .live).1 =
      [.bprep 0 0 0,
       .bexec 0 0 0 0 (.tok 3), .bwait 0 0 0 1 10 true, .bexec 0 0 0 1 (.tok 3),
       .bexec 0 0 1 0 (.tok 4), .bwait 0 0 1 1 10 false,
       .bpost 0 0 0 [.res (.tok 3) none, .res (.tok 4) none] [.res (.tok 5) none, .res (.tok 0) (some (.ctx .canceled))]]
    ∧ (runBatchW .canceled 0 0 0 { exBatch with conc := 2 } exBatchScr .live).1 =
        (runBatchW .canceled 0 0 0 exBatch exBatchScr .live).1 := by
  decide

/-- non-vacuity: the predicate rejects a batch trace whose interrupted item's slot looks like a success -/
example :
    c20Batch .canceled exBatch exBatchScr 2 true
      [.bprep 0 0 0,
       .bexec 0 0 0 0 (.tok 3), .bwait 0 0 0 1 10 true, .bexec 0 0 0 1 (.tok 3),
       .bexec 0 0 1 0 (.tok 4), .bwait 0 0 1 1 10 false,
       .bpost 0 0 0 [.res (.tok 3) none, .res (.tok 4) none] [.res (.tok 5) none, .res (.tok 0) none]] = false := by
  decide

end batch

end Flyt.Props.C20
