import FlytModel.Proofs.BatchSeq
import FlytModel.Proofs.BatchConc
import FlytModel.Proofs.BatchBridge
import FlytModel.Proofs.SpecBridge
/-!
# C11 — Cancelling a batch stops new items and never hangs or fakes success

Sequential / serial layer: `runBatch` for every script and context (cancellation before the run, from inside
any callback, or asynchronously during a retry wait). Concurrent layer: every reachable state and every
schedule of the LTS with a `cancel` step (or a cancelling callback) at any point.
-/
namespace Flyt.Props.C11
open Flyt Flyt.BatchSeq

/-! ## sequential execution and the serial schedule of the pool -/

/-- **After the context is cancelled no new item and no new retry attempt starts.** In the trace of a batch run
    (any configuration, any concurrency setting of `runBatch`, any script), after every callback invocation that
    cancels the context — prep, an exec attempt, a fallback, or a retry wait interrupted by an asynchronous
    cancellation — no exec attempt and no retry wait occurs any more. -/
theorem no_attempt_after_cancel (kind : CtxKind) (n : NodeId) (v : Nat) (sid : StoreId) (cfg : BatchCfg) (scr : BatchScript)
    (ctx : Ctx) (pre post : List Ev) (e : Ev) (hsplit : (runBatch kind n v sid cfg scr ctx).1 = pre ++ e :: post)
    (hc : evCancels scr e = true) : ∀ x ∈ post, isBexec x = false ∧ isBwait x = false := by
  have := (quietAfterCancel_iff scr _).1 (runBatch_seg kind n v cfg scr sid ctx).quiet pre e post hsplit hc
  intro x hx
  simpa [isAttempt] using this x hx

/-- **Cancelled before the run: no item is executed at all**, the context stays cancelled. -/
theorem cancelled_before_run (kind : CtxKind) (n : NodeId) (v : Nat) (sid : StoreId) (cfg : BatchCfg) (scr : BatchScript)
    (kd : CtxKind) :
    (∀ x ∈ (runBatch kind n v sid cfg scr (.done kd)).1, isBexec x = false ∧ isBwait x = false) ∧
    (runBatch kind n v sid cfg scr (.done kd)).2.1.isDone = true := by
  obtain ⟨h1, h2⟩ := (runBatch_seg kind n v cfg scr sid (.done kd)).dead rfl
  exact ⟨fun x hx => by simpa [isAttempt] using h1 x hx, h2⟩

/-- … and then every slot carries the "context cancelled" error, in both error-handling modes. -/
theorem cancelled_before_run_slots (kind : CtxKind) (n : NodeId) (v : Nat) (cfg : BatchCfg) (scr : BatchScript)
    (items : List Result) (i : Nat) (kd : CtxKind) :
    itemsSeq kind n v cfg scr items i (.done kd) = ([], .done kd, items.map (fun _ => cancelledSlot)) ∧
    itemsSerialPool kind n v cfg scr items i false (.done kd) = ([], .done kd, items.map (fun _ => cancelledSlot)) := by
  rw [itemsSerialPool_eq_seq]
  exact ⟨itemsSeq_done _ _ _ _ _ _ _ _, itemsSeq_done _ _ _ _ _ _ _ _⟩

/-- **A cancelling callback leaves the context cancelled for the rest of the run** (so the checks above apply to
    everything that follows). -/
theorem cancel_sticks (kind : CtxKind) (n : NodeId) (v : Nat) (sid : StoreId) (cfg : BatchCfg) (scr : BatchScript)
    (ctx : Ctx) (e : Ev) (he : e ∈ (runBatch kind n v sid cfg scr ctx).1) (hc : evCancels scr e = true) :
    (runBatch kind n v sid cfg scr ctx).2.1.isDone = true :=
  (runBatch_seg kind n v cfg scr sid ctx).kills ⟨e, he, hc⟩

/-- **The run terminates with post called exactly once, and every item that was not executed carries an error.**
    (`runBatch` is a total function, so termination of the sequential path is by construction; a batch node
    reports cancellation per slot and still calls post — DESIGN B6.) For every context — live, cancelled before
    the run, cancelled from inside any callback: -/
theorem post_once_and_unexecuted_are_errors (kind : CtxKind) (n : NodeId) (v : Nat) (sid : StoreId) (cfg : BatchCfg)
    (scr : BatchScript) (ctx : Ctx) (l : List Val) (hp : scr.prep.res = .ok l) (hpost : cfg.hasPost = true)
    (hb : 0 < cfg.budget) (hex : cfg.execS ≠ .absent) :
    ∃ (iev : List Ev) (slots : List Result),
      (runBatch kind n v sid cfg scr ctx).1 =
        .bprep n v sid :: iev ++ [.bpost n v sid ((normItems cfg.shape l).map Result.box) (slots.map Result.box)] ∧
      (∀ x ∈ iev, isBpost x = false) ∧ slots.length = (normItems cfg.shape l).length ∧
      ∀ j, j < (normItems cfg.shape l).length → itemEvents j iev = [] → ∃ r, slots[j]? = some r ∧ r.isError = true := by
  refine ⟨(itemsSeq kind n v cfg scr (normItems cfg.shape l) 0 (ctx.after kind scr.prep.cancels)).1,
    (itemsSeq kind n v cfg scr (normItems cfg.shape l) 0 (ctx.after kind scr.prep.cancels)).2.2, ?_, ?_, ?_, ?_⟩
  · rw [runBatch_ok kind n v cfg scr sid ctx hp]; simp [hpost]
  · intro x hx
    obtain ⟨j, h1, _⟩ := itemsSeq_evItem _ _ _ _ _ _ _ _ x hx
    cases x <;> simp_all [evItem, isBpost]
  · exact itemsSeq_length _ _ _ _ _ _ _ _
  · intro j hj hnever
    have := itemsSeq_own kind n v cfg scr (normItems cfg.shape l) 0 (ctx.after kind scr.prep.cancels) j hj
    simp only [Nat.zero_add] at this
    rcases this with ⟨h1, h2⟩ | ⟨_, r, h2, hm⟩
    · exact ⟨_, h2, runItem_no_events_isError kind n v cfg hb hex _ _ _ _ (h1 ▸ hnever)⟩
    · exact ⟨r, h2, isMarker_isError hm⟩

/-- **Bridge (sequential families).** `Spec.c11` on `runBatch`'s own observation, evaluated as the driver does: for
    every context (live or cancelled before the run) and every script — cancellation from inside any callback or
    during a retry wait — whose prep and post succeed. -/
theorem spec_c11_holds_seq (kind : CtxKind) (n : NodeId) (v : Nat) (sid : StoreId) (cfg : BatchCfg) (scr : BatchScript)
    (ctx : Ctx) (l : List Val) (a : Action) (hp : scr.prep.res = .ok l) (hpost : cfg.hasPost = true)
    (hex : cfg.execS ≠ .absent) (hb : 0 < cfg.budget) (hpo : scr.post.res = .ok a) :
    Spec.c11 (Bridge.concCfgOf kind cfg scr (normItems cfg.shape l).length)
      (Bridge.batchViewOf (runBatch kind n v sid cfg scr ctx).1 (runBatch kind n v sid cfg scr ctx).2.2) = true :=
  Bridge.c11_runBatch n v sid ctx hp hpost hex hb hpo

/-! ### non-vacuity: 4 items, retry budget 2, `cancel()` from inside the first attempt of item 1 (which fails) -/

def exCfg (stop : Bool) : BatchCfg :=
  { budget := 2, wait := 5, fb := .passThrough, conc := 0, stop := stop, execS := .any, hasPost := true, shape := .anys }

def exScr : BatchScript :=
  { prep := { res := .ok [.tok 1, .tok 2, .tok 3, .tok 4] },
    item := fun i =>
      { exec := fun k => if i = 1 then { res := .error (10 + k), cancels := true } else { res := .ok (.tok (100 + i)) },
        waitCancel := fun _ => false, fb := { res := .error 0 } },
    post := { res := .ok "done" } }

-- no retry of item 1, items 2 and 3 never start; their slots are errors; post runs once; the run returns an action
example : runBatch .canceled 0 0 0 (exCfg false) exScr .live =
    ([.bprep 0 0 0, .bexec 0 0 0 0 (.tok 1), .bexec 0 0 1 0 (.tok 2),
      .bpost 0 0 0 [.res (.tok 1) none, .res (.tok 2) none, .res (.tok 3) none, .res (.tok 4) none]
        [.res (.tok 100) none, .res (.tok 0) (some (.ctx .canceled)), .res (.tok 0) (some (.fw .batchCancelled)),
         .res (.tok 0) (some (.fw .batchCancelled))]],
     .done .canceled, .ok "done") := by decide
example : evCancels exScr (.bexec 0 0 1 0 (.tok 2)) = true := by decide
example (stop : Bool) : exScr.prep.res = .ok [.tok 1, .tok 2, .tok 3, .tok 4] ∧ exScr.post.res = .ok "done" ∧
    (exCfg stop).hasPost = true ∧ (exCfg stop).execS ≠ .absent ∧ 0 < (exCfg stop).budget := ⟨rfl, rfl, rfl, by simp [exCfg], by simp [exCfg]⟩
-- stop mode: same trace, the remaining slots are errors as well (the repaired F1 path)
example : (runBatch .canceled 0 0 0 (exCfg true) exScr .live).1.getLast? =
    some (.bpost 0 0 0 [.res (.tok 1) none, .res (.tok 2) none, .res (.tok 3) none, .res (.tok 4) none]
        [.res (.tok 100) none, .res (.tok 0) (some (.ctx .canceled)), .res (.tok 0) (some (.fw .batchStopped)),
         .res (.tok 0) (some (.fw .batchStopped))]) := by decide

/-! ## concurrent execution: every worker count, every schedule -/

open Flyt.Conc Flyt.Spec

/-- **After the cancellation no exec call starts — on any worker, for any item, for any attempt** — whatever
    the rest of the schedule does; the context stays cancelled. (In the LTS the loop-top context check and the
    entry into the user's exec callback are one step, so a task is "committed" only once its `start` is logged:
    the property's "at most one already-committed item per other worker" are the calls already in flight.) -/
theorem no_start_after_cancel {c : Cfg} {s s' : BState} (hp : Path c s s') (hs : s.cancelled = true) :
    s'.cancelled = true ∧ ∃ new, s'.log = new ++ s.log ∧ ∀ j k, .start j k ∉ new :=
  after_cancel hp hs

/-- the exec calls still in flight when the cancellation happens are at most one per worker -/
theorem in_flight_at_most_one_per_worker {c : Cfg} {s : BState} (hr : Reachable c s) :
    (parked s).length ≤ c.w ∧ (ids s).Nodup := by
  have h := inv_reachable hr
  refine ⟨?_, (List.nodup_append.1 h.nodup).2.1⟩
  have := h.workers
  have : (parked s).length ≤ s.running.length := by
    unfold parked; exact List.length_filterMap_le _ _
  omega

/-- **A task that observes the cancellation does not run its item**: at the context check it writes the
    "context cancelled" error into its own slot and returns; at the top of the retry loop it gives up with the
    context's error instead of making another attempt. -/
theorem observing_task_stops {c : Cfg} {s s' : BState} {i : Nat} (hs : s.cancelled = true)
    (h : apply c s (.step i) = some s') :
    (pcOf s i = some .ctxCheck →
        s'.slots = setSlot s.slots i Conc.cancelledSlot ∧ i ∉ ids s' ∧ s'.log = s.log) ∧
    (∀ k last, pcOf s i = some (.loopTop k last) → k < c.budget →
        s' = setPc s i (.store (newErrorResult (.ctx c.kind)) true)) :=
  ⟨fun hpc => ctxCheck_cancelled hs hpc h, fun _ _ hpc hk => loopTop_cancelled hs hk hpc h⟩

/-- **The run never hangs.** (i) Every step of every schedule strictly decreases `measure` (unsubmitted + queued
    + running work, attempts left), so no run from a reachable state has more than `measure` steps; (ii) in every
    reachable state in which post has not run, a step other than `cancel` is enabled (no deadlock), for every
    pool with ≥ 1 worker and channel capacity ≥ 1; hence (iii) a run that cannot be continued has called post, and
    post is reachable from every reachable state — cancelled or not. -/
theorem never_hangs {c : Cfg} {s : BState} (hr : Reachable c s) (hw : 0 < c.w) (hcap : 0 < c.cap) :
    (∀ ls s', Run c s ls s' → ls.length + measure c s' ≤ measure c s) ∧
    (s.posted = false → ∃ l, l ≠ .cancel ∧ (apply c s l).isSome = true) ∧
    ((∀ l, l ≠ .cancel → apply c s l = none) → s.posted = true) ∧
    (∃ s', Path c s s' ∧ s'.posted = true) :=
  ⟨fun _ _ r => run_bounded hr r, progress hr hw hcap, stuck_is_posted hr hw hcap, post_reachable hr hw hcap⟩

/-- **When post runs, every item that was never executed holds an error in its slot** (and post runs once with
    all `n` slots written) — with or without cancellation, in both modes, for every schedule. -/
theorem at_post_unexecuted_are_errors {c : Cfg} {s s' : BState} (hr : Reachable c s) (hex : c.execS ≠ .absent)
    (hb : 0 < c.budget) (hw : apply c s .waitRet = some s') :
    s'.log.count .post = 1 ∧
    ∀ i, i < c.n → ∃ r, s'.slots[i]? = some (some r) ∧ ((∀ k, .start i k ∉ hist s') → r.isError = true) := by
  have hr' : Reachable c s' := hr.step ⟨_, hw⟩
  obtain ⟨hn, hq, hrun, _, rfl⟩ := waitRet_inv hw
  refine ⟨by have := (flagInv_reachable hr').postCount; simpa using this, fun i hi => ?_⟩
  obtain ⟨r, h⟩ := all_slots_written hr hn hq hrun i hi
  refine ⟨r, h, fun hnever => ?_⟩
  refine origin_unexecuted_isError ((logInv_reachable hr').slots i r h) hex hb ?_
  rw [List.eq_nil_iff_forall_not_mem]
  intro k hk
  exact hnever k (mem_itemStarts.1 hk)

/-- **The `cancelled` flag is set exactly when a cancelling event has happened** (an explicit `cancel`, the return
    of an exec call whose script cancels, a fallback whose script cancels), **and in the whole history no exec call
    starts after a cancelling event** — invariant of every reachable state. -/
theorem cancelled_iff_cancelling_event {c : Cfg} {s : BState} (hr : Reachable c s) :
    (s.cancelled = true ↔ ∃ e ∈ s.log, Bridge.obsCancels c e = true) ∧
    ∀ pre e post, hist s = pre ++ e :: post → Bridge.obsCancels c e = true → ∀ x ∈ post, Bridge.isStart x = false := by
  have h := Bridge.cancelInv_reachable hr
  refine ⟨h.flag, fun pre e post hsplit hc => ?_⟩
  have hq := h.quiet
  rw [hsplit, Bridge.qafter_append] at hq
  exact hq.2.1.1 hc

/-- **Bridge (gated family `gbatch`).** `Spec.c11` holds of the model's observation in the state right after post,
    for every schedule and every placement of the cancellation. -/
theorem spec_c11_holds {c : Cfg} {s s' : BState} (items : List Val) (hr : Reachable c s) (hex : c.execS ≠ .absent)
    (hb : 0 < c.budget) (hw : apply c s .waitRet = some s') : Spec.c11 c (viewOf s' items) = true :=
  Bridge.c11_viewOf items hr hex hb hw

/-! ### non-vacuity: 4 items, 2 workers, budget 2; cancel while items 0 and 1 are in their exec calls; item 0 then
fails (no retry: context error), item 1 succeeds (a completed call keeps its value), items 2, 3 never start -/

def exConc : Cfg :=
  { n := 4, w := 2, cap := 4, stop := false, budget := 2, fb := .passThrough, execS := .any,
    exec := fun i k => if i = 0 then { res := .error (10 + k) } else { res := .ok (.tok (100 + i)) },
    fbOut := fun _ => { res := .error 0 }, kind := .canceled }

example : ((simulate exConc 300 [.cancel, .release 0, .release 1]).bind fun sts =>
      sts.getLast?.map fun s => (s.slots, s.posted, s.log.reverse)) =
    some ([some (newErrorResult (.ctx .canceled)), some (newResult (.tok 101)),
           some (newErrorResult (.fw .batchCancelled)), some (newErrorResult (.fw .batchCancelled))], true,
          [.start 0 0, .start 1 0, .cancel, .done 0 0, .done 1 0, .post]) := by decide

example : 0 < exConc.w ∧ 0 < exConc.cap ∧ exConc.execS ≠ .absent ∧ 0 < exConc.budget := by decide
example : ((simulate exConc 300 [.cancel, .release 0, .release 1]).bind fun sts =>
      sts.getLast?.map fun s => Spec.c11 exConc (viewOf s [])) = some true := by decide

/-! ## a batch node inside a flow -/

/-- **Bridge (flow families): `Spec.c11Flow` holds of the model's own observation** of every run of `runNode` that
    does not run out of fuel — any arena (the batch node at any nesting depth, in a loop, as the root itself), any
    scripts, any run state (context live or done) and store: once a callback of a batch node's visit has cancelled
    the context, no event of any other visit follows (the batch finishes, then the flow stops).  `storeOf`: whatever
    the driver records as the store log. -/
theorem c11Flow_bridge (env : Env) (fuel : Nat) (root : NodeId) (sid : StoreId) (st : RunSt)
    (hfuel : (runNode env fuel root sid st).2.2 ≠ .fuel) (storeOf : List Ev → List Nat) :
    Spec.c11Flow env st.ctx (Flyt.Proofs.obsWith storeOf (runNode env fuel root sid st)) = true :=
  Flyt.Proofs.spec_c11Flow_of_big (Flyt.Proofs.big_of_runNode rfl hfuel) storeOf

/-- … in the trace itself (wait events included): whatever follows a cancelling event of a batch node's visit is an
    event of the same visit of the same batch node -/
theorem flow_stops_after_batch_cancel (env : Env) (fuel : Nat) (root : NodeId) (sid : StoreId) (st : RunSt)
    (hfuel : (runNode env fuel root sid st).2.2 ≠ .fuel) {pre post : List Ev} {c : Ev}
    (hsplit : (runNode env fuel root sid st).1 = pre ++ c :: post) (hc : Flyt.Proofs.cancelsAt env c = true) :
    ∀ e ∈ post, Spec.evKey e = Spec.evKey c := by
  have ht := Flyt.Proofs.big_cancelTail (Flyt.Proofs.big_of_runNode (st' := (runNode env fuel root sid st).2.1) rfl hfuel)
  unfold Flyt.Proofs.CancelTail at ht
  rw [hsplit, List.pairwise_append, List.pairwise_cons] at ht
  intro e he
  exact (ht.2.1.1 e he hc).1

/-! ### non-vacuity: flow 0 = batch 1 —default→ leaf 2 —default→ batch 1 (a loop); three items; the exec call of
item 1 succeeds and cancels the context -/

def exFlowBatch : BatchCfg :=
  { budget := 2, wait := 0, fb := .passThrough, conc := 0, stop := false, execS := .any, hasPost := true, shape := .anys }
def exFlowLeaf : LeafCfg :=
  { retryable := false, budget := 0, wait := 0, fb := .absent, prepS := .direct, execS := .direct, postS := .direct }
def exFlowLeafScr : LeafScript :=
  { prep := { res := .ok (.tok 1) }, exec := fun _ => { res := .ok (.tok 2) }, waitCancel := fun _ => false,
    fb := { res := .ok (.tok 3) }, post := { res := .ok "" } }
def exFlowBatchScr (cancelAt : Nat) : BatchScript :=
  { prep := { res := .ok [.tok 10, .tok 11, .tok 12] }, post := { res := .ok "" },
    item := fun i => { exec := fun _ => { res := .ok (.tok (100 + i)), cancels := i == cancelAt },
                       waitCancel := fun _ => false, fb := { res := .error 0 } } }
/-- the batch node cancels (inside the exec call of item 1) on its visit number `cv` -/
def exFlowEnv (cv : Nat) : Env :=
  { kind := .canceled,
    arena := fun id =>
      if id = 0 then .flow (some 1) [⟨1, "default", some 2⟩, ⟨2, "default", some 1⟩]
      else if id = 1 then .batch exFlowBatch else .leaf exFlowLeaf,
    leafBeh := fun _ _ => exFlowLeafScr,
    batchBeh := fun _ v => exFlowBatchScr (if v = cv then 1 else 7) }
def exFlowSt : RunSt := { ctx := .live, visits := fun _ => 0 }

-- cancellation on the batch node's SECOND visit (after one round of the loop): the first cancelling callback is a
-- batch event (item 1's exec call); the batch still calls post — with item 2 never executed — and then the flow
-- stops with the context's error instead of going on to leaf 2 and looping: only events of visit (1, 1) follow
example : (Spec.noWaits (runNode (exFlowEnv 1) 20 0 0 exFlowSt).1).map Spec.evKey =
      [(1, 0), (1, 0), (1, 0), (1, 0), (1, 0), (2, 0), (2, 0), (2, 0), (1, 1), (1, 1), (1, 1), (1, 1)] ∧
    (Spec.noWaits (runNode (exFlowEnv 1) 20 0 0 exFlowSt).1).findIdx? (Spec.scriptCancels (exFlowEnv 1)) = some 10 ∧
    (Spec.noWaits (runNode (exFlowEnv 1) 20 0 0 exFlowSt).1).getD 10 default = .bexec 1 1 1 0 (.tok 11) ∧
    (Spec.noWaits (runNode (exFlowEnv 1) 20 0 0 exFlowSt).1).drop 11 =
      [.bpost 1 1 0 [.res (.tok 10) none, .res (.tok 11) none, .res (.tok 12) none]
        [.res (.tok 100) none, .res (.tok 101) none, .res .nil (some (.fw .batchCancelled))]] ∧
    (runNode (exFlowEnv 1) 20 0 0 exFlowSt).2.2 = .err (.ctx .canceled) ∧
    Spec.c11Flow (exFlowEnv 1) .live (Flyt.Proofs.obsWith (fun _ => []) (runNode (exFlowEnv 1) 20 0 0 exFlowSt)) = true := by
  decide
-- the predicate is not trivially true: it rejects the same trace continued with a visit of leaf 2
example : Spec.c11Flow (exFlowEnv 1) .live
    { trace := Spec.noWaits (runNode (exFlowEnv 1) 20 0 0 exFlowSt).1 ++ [.prep 2 1 0],
      out := .err (.ctx .canceled), store := [] } = false := by decide

end Flyt.Props.C11
