import FlytModel.Proofs.L.Payload
import FlytModel.Proofs.L.LeafFacts
import FlytModel.Proofs.L.Retry
import FlytModel.Proofs.L.Styles
import FlytModel.Proofs.L.Visits
/-!
# C17 — Function-style nodes pass values between phases unchanged

Theorems about the function-style adapters (`CustomNode.Prep/Exec/Post`, the Any-style wrappers and the
builder delegation: flyt.go:1117-1164, 1325-1384, builder.go:91-122 — `Flyt.prepRet`, `execArg`,
`execRet`, `postArgs`) and about whole runs through them (`Flyt.runLeaf`, `Flyt.runItem`), for ALL
style combinations (each of prep / exec / post: Result-style `.res`, Any-style `.any`, a method
`.direct`, or not provided), every budget, script and context, and every payload that is not itself a
`flyt.Result` (`Plain`, boundary B2 of DESIGN.md).  Option-built and builder-built nodes are the same
`LeafCfg` (C19 proves the two construction styles equivalent).

Vocabulary (Proofs/Payload.lean): `returned s y` the `Result` a function of style `s` returned (a
Result-style function returns a `Result`, the value of any other is wrapped by `NewResult`) ·
`received s r` how a function of style `s` sees the Result `r` (Result-style: `r` itself; Any-style:
`r.Value()`) · `PlainPayloads cfg scr` prep's payload and the exec values are not `flyt.Result`s.
-/
namespace Flyt.Props.C17
open Flyt Flyt.Spec Flyt.Proofs.Attempts Flyt.Proofs.Leaf Flyt.Proofs.LeafSpec Flyt.Proofs.Payload Flyt.Proofs.Item
open Flyt.Proofs.Styles

/-! ### the adapters, for all style combinations -/

/-- **The value the prep function returns is the value the exec function receives**: prep of style
    `ps` returns payload `p` (a Result-style function as `NewResult(p)`), `Run` holds `p`, and the exec
    function of style `es` receives `NewResult(p)` — wrapped exactly once — if Result-style, `p` itself
    otherwise. -/
theorem prep_value_reaches_exec (ps es : Style) (p : Val) (hp : Plain p) :
    prepRet ps (match ps with | .res => (newResult p).box | _ => p) = p ∧
    execArg es p = (match es with | .res => (newResult p).box | _ => p) := by
  refine ⟨?_, execArg_plain hp es⟩
  cases ps <;> simp [prepRet, toResult, Val.asResult?, Result.box, newResult, Result.valueOf]

example : Plain (.tok 7) ∧ execArg .res (.tok 7) = .res (.tok 7) none ∧ execArg .any (.tok 7) = .tok 7 := by decide

/-- **The result the exec function returns — its value, or its error state — is what the post
    function receives, never wrapped a second time and never stripped**, for all 16 combinations of
    exec and post style; and post receives the prep payload the same way exec did. -/
theorem exec_result_reaches_post (es ps : Style) (pv y : Val) (h : Plain (returned es y).valueOf) :
    (postArgs ps pv (execRet es y)).2 = received ps (returned es y) ∧
    (postArgs ps pv (execRet es y)).1 = (match ps with | .res => (newResult pv).box | _ => pv) :=
  ⟨postArgs_snd_execRet es ps pv y h, postArgs_fst ps pv _⟩

/-- an **error result** of a Result-style exec function (`NewErrorResult(e)` returned with a nil Go
    error) reaches a Result-style post function as that very Result — `IsError`, the same error,
    wrapped exactly once (the F3 repair) — and an Any-style post function as its `Value()` (nil). -/
theorem error_result_reaches_post (pv : Val) (e : ErrRoot) :
    (postArgs .res pv (execRet .res (newErrorResult e).box)).2 = (newErrorResult e).box ∧
    (postArgs .any pv (execRet .res (newErrorResult e).box)).2 = Val.nil := by
  have h := fun ps => postArgs_snd_execRet .res ps pv (newErrorResult e).box rfl
  exact ⟨by rw [h]; rfl, by rw [h]; rfl⟩

/-- **Result-style and Any-style are interchangeable**: an exec function returning payload `p` as
    `NewResult(p)` (Result-style) and one returning `p` (Any-style / method) hand the same Result to
    post, whatever post's style; a prep function likewise hands the same value to `Run`. -/
theorem styles_interchangeable_adapters (ps : Style) (pv p : Val) (hp : Plain p) :
    (postArgs ps pv (execRet .res (newResult p).box)).2 = (postArgs ps pv (execRet .any p)).2 ∧
    (postArgs ps pv (execRet .any p)).2 = (postArgs ps pv (execRet .direct p)).2 ∧
    prepRet .res (newResult p).box = prepRet .any p := by
  have h1 := postArgs_snd_execRet .res ps pv (newResult p).box (by simpa [returned, toResult_box, valueOf_newResult] using hp)
  have h2 := postArgs_snd_execRet .any ps pv p (by simpa [returned, valueOf_newResult] using hp)
  have h3 := postArgs_snd_execRet .direct ps pv p (by simpa [returned, valueOf_newResult] using hp)
  refine ⟨by rw [h1, h2]; simp [returned, toResult_box], by rw [h2, h3]; simp [returned], ?_⟩
  simp [prepRet, toResult_box, valueOf_newResult]

/-! ### whole runs -/

def exCfg : LeafCfg :=
  { retryable := true, budget := 2, wait := 0, fb := .absent, prepS := .res, execS := .any, postS := .res }
/-- Result-style prep returns `NewResult(tok 7)`; Any-style exec fails once, then returns tok 9 -/
def exScr : LeafScript :=
  { prep := { res := .ok (.res (.tok 7) none) },
    exec := fun k => if k = 0 then { res := .error 1 } else { res := .ok (.tok 9) },
    waitCancel := fun _ => false, fb := { res := .ok (.tok 5) }, post := { res := .ok "done" } }

theorem ex_plain : PlainPayloads exCfg exScr := by
  constructor
  · intro pv h
    have : pv = .tok 7 := by
      have h' : prepValue exCfg exScr = some (.tok 7) := by decide
      rw [h'] at h; cases h; rfl
    subst this; rfl
  · intro k y hy
    have : y = .tok 9 := by
      simp only [exScr] at hy
      split at hy <;> simp at hy
      exact hy.symm
    subst this; rfl

/-- **In every run, every exec attempt receives the prep payload** (a Result-style exec function as
    `NewResult(pv)`, any other as `pv`), where `pv` = the value prep returned (`Value()` of the
    Result for a Result-style prep). -/
theorem run_exec_receives_prep_payload (kind : CtxKind) (n v sid : Nat) (cfg : LeafCfg) (scr : LeafScript)
    (hp : PlainPayloads cfg scr) (n' v' k : Nat) (a : Val)
    (h : Ev.exec n' v' k a ∈ (runLeaf kind n v sid cfg scr .live).1) :
    ∃ pv, prepValue cfg scr = some pv ∧ a = (match cfg.execS with | .res => (newResult pv).box | _ => pv) :=
  leafRun_exec_payload (runLeaf_live_spec kind n v sid cfg scr) hp h

/-- **In every run, post receives the prep payload and — when an attempt (not the fallback) produced
    the result — exactly the Result that attempt's exec function returned**, seen through post's style. -/
theorem run_post_receives_exec_result (kind : CtxKind) (n v sid : Nat) (cfg : LeafCfg) (scr : LeafScript)
    (hp : PlainPayloads cfg scr) (s : Nat) (a b : Val)
    (h : Ev.post n v s a b ∈ (runLeaf kind n v sid cfg scr .live).1) :
    ∃ pv, prepValue cfg scr = some pv ∧
      a = (match cfg.postS with | .res => (newResult pv).box | _ => pv) ∧
      (fbCalls (runLeaf kind n v sid cfg scr .live).1 = [] → cfg.execS ≠ .absent → 1 ≤ cfg.effBudget →
        ∃ k y, execCount (runLeaf kind n v sid cfg scr .live).1 = k + 1 ∧ (scr.exec k).res = .ok y ∧
          b = received cfg.postS (returned cfg.execS y)) :=
  leafRun_post_payload (runLeaf_live_spec kind n v sid cfg scr) hp h

example : PlainPayloads exCfg exScr := ex_plain
-- Result-style prep returned NewResult(tok 7): Any-style exec sees tok 7 (twice: one retry); Result-style
-- post sees NewResult(tok 7) and NewResult(tok 9), each wrapped exactly once
example : (runLeaf .canceled 3 0 1 exCfg exScr .live).1 =
    [.prep 3 0 1, .exec 3 0 0 (.tok 7), .exec 3 0 1 (.tok 7), .post 3 0 1 (.res (.tok 7) none) (.res (.tok 9) none)] := by
  decide

/-! ### any mix of the two styles observes the same payloads

A *base script* `b` says which payloads the user functions return; `encScript cfg b` is that behaviour
written in the styles of `cfg` (a Result-style function returns `NewResult(x)` where `b` says `x`);
`decEv cfg` reads the payload a user function observes out of its argument (`Value()` of the Result
for Result-style); `flatCfg cfg` is the same node with methods instead of functions. -/

/-- **Every style mix, decoded, IS the plain method-style node**: the same callbacks in the same order
    with the same payloads, the same context afterwards and the same outcome — for every
    configuration (budget, wait, fallback, which phases are provided), every base script of plain
    payloads (any exec outcome sequence, cancellations, interrupted waits) and every context. -/
theorem any_style_mix_is_the_method_node (kind : CtxKind) (n v sid : Nat) (cfg : LeafCfg) (b : LeafScript)
    (hb : PlainScript b) (ctx : Ctx) :
    (runLeaf kind n v sid cfg (encScript cfg b) ctx).1.map (decEv cfg) = (runLeaf kind n v sid (flatCfg cfg) b ctx).1 ∧
    (runLeaf kind n v sid cfg (encScript cfg b) ctx).2 = (runLeaf kind n v sid (flatCfg cfg) b ctx).2 :=
  run_flat kind n v sid cfg b hb ctx

/-- **The Result-style and Any-style variants are interchangeable**: two nodes that differ only in the
    style of their prep / exec / post functions observe the same payloads at every callback and end the
    same way (all 8 × 8 pairs of style combinations, and method-style too). -/
theorem styles_interchangeable (kind : CtxKind) (n v sid : Nat) (cfg cfg' : LeafCfg) (b : LeafScript)
    (hsame : flatCfg cfg = flatCfg cfg') (hb : PlainScript b) (ctx : Ctx) :
    (runLeaf kind n v sid cfg (encScript cfg b) ctx).1.map (decEv cfg) =
      (runLeaf kind n v sid cfg' (encScript cfg' b) ctx).1.map (decEv cfg') ∧
    (runLeaf kind n v sid cfg (encScript cfg b) ctx).2 = (runLeaf kind n v sid cfg' (encScript cfg' b) ctx).2 := by
  obtain ⟨h1, h2⟩ := run_flat kind n v sid cfg b hb ctx
  obtain ⟨h1', h2'⟩ := run_flat kind n v sid cfg' b hb ctx
  rw [h1, h2, h1', h2', hsame]
  exact ⟨rfl, rfl⟩

/-- base script of the example: prep hands out tok 7, exec fails once then returns tok 9 -/
def exBase : LeafScript :=
  { prep := { res := .ok (.tok 7) },
    exec := fun k => if k = 0 then { res := .error 1 } else { res := .ok (.tok 9) },
    waitCancel := fun _ => false, fb := { res := .ok (.tok 5) }, post := { res := .ok "done" } }
/-- the opposite style mix of `exCfg` -/
def exCfg' : LeafCfg := { exCfg with prepS := .any, execS := .res, postS := .any }

example : flatCfg exCfg = flatCfg exCfg' := by decide
example : PlainScript exBase :=
  ⟨fun x h => by cases h; rfl,
   fun k x h => by
     simp only [exBase] at h
     split at h <;> simp at h
     subst h; rfl,
   fun x h => by cases h; rfl⟩
-- (res, any, res) and (any, res, any): different wire values, the same payloads
example : (runLeaf .canceled 3 0 1 exCfg' (encScript exCfg' exBase) .live).1 =
    [.prep 3 0 1, .exec 3 0 0 (.res (.tok 7) none), .exec 3 0 1 (.res (.tok 7) none), .post 3 0 1 (.tok 7) (.tok 9)] ∧
  (runLeaf .canceled 3 0 1 exCfg' (encScript exCfg' exBase) .live).1.map (decEv exCfg') =
    [.prep 3 0 1, .exec 3 0 0 (.tok 7), .exec 3 0 1 (.tok 7), .post 3 0 1 (.tok 7) (.tok 9)] ∧
  (runLeaf .canceled 3 0 1 exCfg (encScript exCfg exBase) .live).1.map (decEv exCfg) =
    [.prep 3 0 1, .exec 3 0 0 (.tok 7), .exec 3 0 1 (.tok 7), .post 3 0 1 (.tok 7) (.tok 9)] := by decide

/-- **… inside batches too**: a Result-style and an Any-style exec function of a batch node observe
    the same item payload at every attempt, and the item ends with the same slot / error. -/
theorem batch_styles_interchangeable (kind : CtxKind) (n v : Nat) (cfg : BatchCfg) (i : Nat) (item : Result)
    (b : ItemScript) (ctx : Ctx) (hs : cfg.execS = .res ∨ cfg.execS = .any) :
    (runItem kind n v cfg i item (encItem cfg.execS b) ctx).1.map (decB cfg.execS) =
      (runItem kind n v { cfg with execS := .any } i item b ctx).1 ∧
    (runItem kind n v cfg i item (encItem cfg.execS b) ctx).2 = (runItem kind n v { cfg with execS := .any } i item b ctx).2 :=
  item_flat kind n v cfg i item b ctx hs

/-! ### inside batches -/

/-- **Inside a batch the item is passed as is**: every attempt on item `i` receives the item — the
    `Result` itself for a Result-style exec function, its `Value()` for an Any-style one. -/
theorem batch_item_passed_as_is (kind : CtxKind) (n v : Nat) (cfg : BatchCfg) (i : Nat) (item : Result)
    (scr : ItemScript) :
    (runItem kind n v cfg i item scr .live).1.filter (isBexecOf i) =
      (List.range (bexecCount i (runItem kind n v cfg i item scr .live).1)).map
        (fun k => Ev.bexec n v i k (match cfg.execS with | .any => item.valueOf | _ => item.box)) := by
  have h := Flyt.Proofs.Retry.item_numbered (kind := kind) (n := n) (v := v) (cfg := cfg) (i := i) (item := item) (scr := scr)
  have harg : execArg cfg.execS item.box = (match cfg.execS with | .any => item.valueOf | _ => item.box) := by
    cases cfg.execS <;> simp [execArg, Result.box, Val.asResult?]
  rw [h, harg]

/-- **… and slot `i` is exec's result**: when attempt `k` is the first to succeed, the item's slot is
    exactly the `Result` the exec function returned (Result-style), resp. `NewResult` of the value it
    returned (Any-style). -/
theorem batch_slot_is_exec_result (kind : CtxKind) (n v : Nat) (cfg : BatchCfg) (i : Nat) (item : Result)
    (scr : ItemScript) (hnc : Flyt.Proofs.Item.NoCancel cfg scr) (hS : cfg.execS ≠ .absent)
    (k : Nat) (y : Val) (hk : FirstOk scr.exec k) (hkb : k < cfg.budget) (hy : (scr.exec k).res = .ok y)
    (hplain : Plain (returned cfg.execS y).valueOf) :
    (runItem kind n v cfg i item scr .live).2.2 = .slot (returned cfg.execS y) := by
  have h := (Flyt.Proofs.Retry.item_result (kind := kind) (n := n) (v := v) (i := i) (item := item) hnc hS (by omega)).1
    k y hk hkb hy
  rw [h.1, slot_execRet cfg.execS y hplain]

-- hypotheses of `batch_slot_is_exec_result`: a Result-style exec function that fails once, then returns
-- `NewResult(tok 9)`: the slot is that Result
def exBatch : BatchCfg :=
  { budget := 2, wait := 0, fb := .passThrough, conc := 0, stop := false, execS := .res, hasPost := true, shape := .anys }
def exItem : ItemScript :=
  { exec := fun k => if k = 0 then { res := .error 1 } else { res := .ok (.res (.tok 9) none) },
    waitCancel := fun _ => false, fb := { res := .ok (.tok 5) } }
example : Flyt.Proofs.Item.NoCancel exBatch exItem ∧ exBatch.execS ≠ .absent ∧ FirstOk exItem.exec 1 ∧ 1 < exBatch.budget ∧
    (exItem.exec 1).res = .ok (.res (.tok 9) none) ∧ Plain (returned exBatch.execS (.res (.tok 9) none)).valueOf :=
  ⟨⟨fun k => by unfold exItem; dsimp only; split <;> rfl, Or.inl rfl⟩, by decide,
   ⟨⟨_, rfl⟩, fun j hj => by
      have : j = 0 := by omega
      subst this
      exact ⟨1, rfl⟩⟩,
   by decide, rfl, by decide⟩
example : (runItem .canceled 2 0 exBatch 0 (newResult (.tok 3)) exItem .live).2.2 = .slot ⟨.tok 9, none⟩ := by decide

/-! ### bridge: the per-visit predicate the driver evaluates -/

theorem c17Visit_bridge (kind : CtxKind) (n v sid : Nat) (cfg : LeafCfg) (scr : LeafScript)
    (hp : PlainPayloads cfg scr) : c17Visit cfg scr (runLeaf kind n v sid cfg scr .live).1 = true :=
  c17Visit_of_leafRun (runLeaf_live_spec kind n v sid cfg scr) hp

/-- … inside flows: every group of the trace of a run of any node (any flow shape, nesting, routing)
    that belongs to a plain / function-style node satisfies `c17Visit` -/
theorem c17Visit_flow_bridge (env : Env) (fuel : Nat) (root : NodeId) (sid : StoreId) (st : RunSt)
    (hp : ∀ n v cfg, env.arena n = .leaf cfg → PlainPayloads cfg (env.leafBeh n v)) :
    ∀ p ∈ segments (noWaits (runNode env fuel root sid st).1), ∀ cfg, env.arena p.1.1 = .leaf cfg →
      c17Visit cfg (env.leafBeh p.1.1 p.1.2) p.2 = true := by
  intro p hmem cfg hcfg
  rcases ((Flyt.Proofs.Visits.run_visits env sid fuel).1 root st).segments_mem p hmem with ⟨cfg', ha, hseg⟩ | ⟨cfg', ha⟩
  · rw [hcfg] at ha; cases ha
    rw [hseg, c17Visit_noWaits]
    exact c17Visit_bridge env.kind p.1.1 p.1.2 sid cfg _ (hp _ _ cfg hcfg)
  · rw [hcfg] at ha; cases ha

/-- a flow 0 = node 1 (styles res/any/res) —done→ node 2 (styles any/res/any) -/
def exEnv : Env :=
  { kind := .canceled,
    arena := fun id => if id = 0 then .flow (some 1) [⟨1, "done", some 2⟩] else if id = 1 then .leaf exCfg else .leaf exCfg',
    leafBeh := fun id _ => if id = 1 then encScript exCfg exBase else encScript exCfg' exBase,
    batchBeh := fun _ _ => { prep := { res := .ok [] }, post := { res := .ok "" }, item := fun _ => exItem } }

example : (runNode exEnv 5 0 1 { ctx := .live, visits := fun _ => 0 }).1 =
    [.prep 1 0 1, .exec 1 0 0 (.tok 7), .exec 1 0 1 (.tok 7), .post 1 0 1 (.res (.tok 7) none) (.res (.tok 9) none),
     .prep 2 0 1, .exec 2 0 0 (.res (.tok 7) none), .exec 2 0 1 (.res (.tok 7) none), .post 2 0 1 (.tok 7) (.tok 9)] := by
  decide

end Flyt.Props.C17
