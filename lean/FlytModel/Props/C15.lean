import FlytModel.Proofs.Value
/-!
# C15 — typed accessors are total, mutually consistent and faithful

Theorems about the model of `FlytModel/Model/Value.lean` (the *repaired* slice test,
`reflect.Kind`), for **all** values of the universe `GoVal`, all defaults, all stores and every
instance of the float-conversion parameter `Conv`. Each is followed by a non-vacuity `example`.

Section 5 is about a `flyt.Result` used as an ordinary value (`R(R(42))`, a Result in the store or
inside a slice): it is a struct-kind member of the same universe — well-formed exactly when what it
holds is — so everything above applies to it; what that means concretely (no accessor converts it,
`ToSlice` wraps it, it compares like what it holds) is spelled out there.

The last section is about the unrepaired test (`Legacy`, `result[0] == value`): it is proved, again
for all values, to panic on every non-slice of non-comparable type and to call a NaN a slice —
finding F4 — and to coincide with the repaired code everywhere else.

The non-Must accessors of the string / int / float64 / bool / map families cannot panic by
construction (a comma-ok type assertion or type switch; their model functions return plain values).
The slice family goes through a possibly panicking test (`SliceTest`), so its totality is a theorem.
-/
namespace Flyt.Props.C15
open Flyt Flyt.Value Flyt.Value.Spec

/-! ## 1. Totality -/

/-- No non-Must slice accessor panics, on any value, for results and for the store. -/
theorem slice_accessors_total (s : Store) (k : String) (v : GoVal) (d : SliceV) :
    asSlice v ≠ .panic ∧ asSliceOr v d ≠ .panic ∧ getSlice s k ≠ .panic ∧ getSliceOr s k d ≠ .panic := by
  refine ⟨by simp [asSlice_closed], by simp [asSliceOr_closed], ?_, ?_⟩
  · cases h : s.get k with
    | none => simp [getSlice, getSliceWith, getSliceOrWith_miss _ _ _ _ h]
    | some w => simp [getSlice_of_get s k w h]
  · cases h : s.get k with
    | none => simp [getSliceOr, getSliceOrWith_miss _ _ _ _ h]
    | some w => simp [getSliceOr_of_get s k w d h]

/-- the stored value is a `map[string]any` — the case on which the unrepaired code panics -/
example : getSliceOr (Store.set [] "k" (.map tMapSA (some 1))) "k" none = .ok none := by decide

/-- Every non-Must observation of a scenario is panic-free. -/
theorem nonMust_total (sc : Scenario) :
    total (observe sc).str = true ∧ total (observe sc).int = true ∧ total (observe sc).flt = true
    ∧ total (observe sc).bool = true ∧ total (observe sc).slice = true ∧ total (observe sc).map = true
    ∧ (observe sc).toSlice.isPanic = false ∧ (∀ g ∈ (observe sc).gen, g.1.isPanic = false) := by
  have hk := get_scStore sc.v
  have hm := get_scStore_miss sc.v
  have h1 := asSlice_closed sc.v
  have h2 := asSliceOr_closed sc.v sc.d.sl
  have h3 := getSlice_of_get _ _ _ hk
  have h4 := getSliceOr_of_get _ _ _ sc.d.sl hk
  have h5 := getSliceOrWith_miss kindTest _ _ none hm
  have h6 := getSliceOrWith_miss kindTest _ _ sc.d.sl hm
  unfold asSlice at h1; unfold asSliceOr at h2; unfold getSlice getSliceWith at h3; unfold getSliceOr at h4
  refine ⟨?_, ?_, ?_, ?_, ?_, ?_, ?_, ?_⟩ <;>
    simp [observe, observeWith, total, Ret.isPanic, h1, h2, h3, h4, h5, h6, getSliceWith]

/-- a func value, a struct holding a slice: the slice family answers without panicking -/
example : (observe ⟨.func (.func 0) false, ⟨"d", 7, 0, true, none, none⟩, ⟨fun _ _ => none, id, fun _ => 0⟩⟩).slice.as_ = .ok (none, false)
    ∧ (observe ⟨.func (.func 0) false, ⟨"d", 7, 0, true, some [], none⟩, ⟨fun _ _ => none, id, fun _ => 0⟩⟩).slice.getOr = .ok (some []) := by
  decide

/-! ## 2. Consistency of the variants -/

/-- `AsXOr d` is `AsX` with the default substituted on failure (`(AsX).getD d`). -/
theorem or_consistent (c : Conv) (v : GoVal) (ds : String) (di : Option Int) (df : Nat) (db : Bool)
    (dsl : SliceV) (dm : MapV) :
    asStringOr v ds = (if (asString v).2 then (asString v).1 else ds)
    ∧ asIntOr c v di = (if (asInt c v).2 then (asInt c v).1 else di)
    ∧ asFloat64Or c v df = (if (asFloat64 c v).2 then (asFloat64 c v).1 else df)
    ∧ asBoolOr v db = (if (asBool v).2 then (asBool v).1 else db)
    ∧ asMapOr v dm = (if (asMap v).2 then (asMap v).1 else dm)
    ∧ (∀ r, asSlice v = .ok r → asSliceOr v dsl = .ok (if r.2 then r.1 else dsl)) := by
  refine ⟨asStringOr_eq v ds, asIntOr_eq c v di, asFloat64Or_eq c v df, asBoolOr_eq v db, asMapOr_eq v dm, ?_⟩
  intro r hr
  unfold asSlice at hr
  unfold asSliceOr asSliceOrWith
  rw [hr]; cases h : r.2 <;> simp [h]

example : asIntOr ⟨fun _ _ => none, id, fun _ => 0⟩ (.str tString "x") (some 7) = some 7
    ∧ asIntOr ⟨fun _ _ => none, id, fun _ => 0⟩ (.int (.basic .uint8) 200) (some 7) = some 200 := by
  decide

/-- `MustX` panics iff `AsX` fails, and otherwise returns the value of `AsX`. -/
theorem must_consistent (c : Conv) (v : GoVal) :
    (mustString v = if (asString v).2 then .ok (asString v).1 else .panic)
    ∧ (mustInt c v = if (asInt c v).2 then .ok (asInt c v).1 else .panic)
    ∧ (mustFloat64 c v = if (asFloat64 c v).2 then .ok (asFloat64 c v).1 else .panic)
    ∧ (mustBool v = if (asBool v).2 then .ok (asBool v).1 else .panic)
    ∧ (mustMap v = if (asMap v).2 then .ok (asMap v).1 else .panic)
    ∧ (∀ r, asSlice v = .ok r → mustSlice v = if r.2 then .ok r.1 else .panic) := by
  refine ⟨mustString_eq v, mustInt_eq c v, mustFloat64_eq c v, mustBool_eq v, mustMap_eq v, ?_⟩
  intro r hr
  unfold asSlice at hr
  unfold mustSlice mustSliceWith
  rw [hr]; cases h : r.2 <;> simp [h]

example : mustInt ⟨fun _ _ => none, id, fun _ => 0⟩ (.int (.basic .int32) (-3)) = .ok (some (-3))
    ∧ mustString (.int (.basic .int32) (-3)) = .panic
    ∧ mustSlice (.slice tStrings false (.cons (.str tString "a") .nil)) = .ok (some [.str tString "a"]) := by decide

/-- `MustX = panic` exactly when `AsX` reports failure (all six families). -/
theorem must_panics_iff (c : Conv) (v : GoVal) :
    (mustString v = .panic ↔ (asString v).2 = false)
    ∧ (mustInt c v = .panic ↔ (asInt c v).2 = false)
    ∧ (mustFloat64 c v = .panic ↔ (asFloat64 c v).2 = false)
    ∧ (mustBool v = .panic ↔ (asBool v).2 = false)
    ∧ (mustMap v = .panic ↔ (asMap v).2 = false)
    ∧ (mustSlice v = .panic ↔ asSlice v = .ok (none, false)) := by
  refine ⟨?_, ?_, ?_, ?_, ?_, ?_⟩
  · rw [mustString_eq]; cases (asString v).2 <;> simp
  · rw [mustInt_eq]; cases (asInt c v).2 <;> simp
  · rw [mustFloat64_eq]; cases (asFloat64 c v).2 <;> simp
  · rw [mustBool_eq]; cases (asBool v).2 <;> simp
  · rw [mustMap_eq]; cases (asMap v).2 <;> simp
  · rw [mustSlice_closed, asSlice_closed]; by_cases h : v.kind = .slice <;> simp [h]

example : mustBool (.bool tBool false) = .ok false ∧ mustBool (.bool (.named "MyBool" tBool) true) = .panic
    ∧ mustSlice (.float (.basic .float64) 9221120237041090561) = .panic := by decide

/-- The store getter agrees with the result accessor on the value the store holds under the key
    (the two copies of every type switch are the same function). -/
theorem store_agrees_with_result (c : Conv) (s : Store) (k : String) (v : GoVal) (h : s.get k = some v)
    (ds : String) (di : Option Int) (df : Nat) (db : Bool) (dsl : SliceV) (dm : MapV) :
    getStringOr s k ds = asStringOr v ds ∧ getString s k = asStringOr v ""
    ∧ getIntOr c s k di = asIntOr c v di ∧ getInt c s k = asIntOr c v (some 0)
    ∧ getFloat64Or c s k df = asFloat64Or c v df ∧ getFloat64 c s k = asFloat64Or c v 0
    ∧ getBoolOr s k db = asBoolOr v db ∧ getBool s k = asBoolOr v false
    ∧ getMapOr s k dm = asMapOr v dm ∧ getMap s k = asMapOr v none
    ∧ getSliceOr s k dsl = asSliceOr v dsl ∧ getSlice s k = asSliceOr v none := by
  refine ⟨getStringOr_of_get s k v ds h, getString_of_get s k v h, getIntOr_of_get c s k v di h,
    getIntOr_of_get c s k v _ h, getFloat64Or_of_get c s k v df h, getFloat64Or_of_get c s k v _ h,
    getBoolOr_of_get s k v db h, getBoolOr_of_get s k v _ h, getMapOr_of_get s k v dm h,
    getMapOr_of_get s k v _ h, ?_, ?_⟩
  · rw [getSliceOr_of_get s k v dsl h, asSliceOr_closed]
  · rw [getSlice_of_get s k v h, asSliceOr_closed]

/-- the hypothesis is met by a store holding several keys; the getter sees the right one -/
example : Store.get [("a", .bool tBool true), ("k", .float (.basic .float32) 1069547520), ("k", .nil)] "k"
      = some (.float (.basic .float32) 1069547520)
    ∧ getFloat64Or ⟨fun _ _ => none, fun b => b + 1, fun _ => 0⟩
        [("a", .bool tBool true), ("k", .float (.basic .float32) 1069547520), ("k", .nil)] "k" 5 = 1069547521 := by
  decide

/-- … in particular right after `Set k v`, whatever the store held before. -/
theorem store_after_set (c : Conv) (s : Store) (k : String) (v : GoVal)
    (ds : String) (di : Option Int) (df : Nat) (db : Bool) (dsl : SliceV) (dm : MapV) :
    getStringOr (s.set k v) k ds = asStringOr v ds
    ∧ getIntOr c (s.set k v) k di = asIntOr c v di
    ∧ getFloat64Or c (s.set k v) k df = asFloat64Or c v df
    ∧ getBoolOr (s.set k v) k db = asBoolOr v db
    ∧ getMapOr (s.set k v) k dm = asMapOr v dm
    ∧ getSliceOr (s.set k v) k dsl = asSliceOr v dsl := by
  have h := store_agrees_with_result c (s.set k v) k v (get_set s k v) ds di df db dsl dm
  exact ⟨h.1, h.2.2.1, h.2.2.2.2.1, h.2.2.2.2.2.2.1, h.2.2.2.2.2.2.2.2.1, h.2.2.2.2.2.2.2.2.2.2.1⟩

example : getBoolOr (Store.set [("k", .bool tBool false)] "k" (.bool tBool true)) "k" false = true
    ∧ getSliceOr (Store.set [] "k" (.slice tInts false (.cons (.int (.basic .int) 3) .nil))) "k" none
      = .ok (some [.int (.basic .int) 3]) := by decide

/-- A key the store does not hold yields the default / the zero value. -/
theorem store_missing_key (c : Conv) (s : Store) (k : String) (h : s.get k = none)
    (ds : String) (di : Option Int) (df : Nat) (db : Bool) (dsl : SliceV) (dm : MapV) :
    getStringOr s k ds = ds ∧ getString s k = ""
    ∧ getIntOr c s k di = di ∧ getInt c s k = some 0
    ∧ getFloat64Or c s k df = df ∧ getFloat64 c s k = 0
    ∧ getBoolOr s k db = db ∧ getBool s k = false
    ∧ getMapOr s k dm = dm ∧ getMap s k = none
    ∧ getSliceOr s k dsl = .ok dsl ∧ getSlice s k = .ok none :=
  ⟨getStringOr_miss s k ds h, getString_miss s k h, getIntOr_miss c s k di h, getIntOr_miss c s k _ h,
    getFloat64Or_miss c s k df h, getFloat64Or_miss c s k _ h, getBoolOr_miss s k db h,
    getBoolOr_miss s k _ h, getMapOr_miss s k dm h, getMapOr_miss s k _ h,
    getSliceOrWith_miss _ s k dsl h, getSliceOrWith_miss _ s k none h⟩

example : getIntOr ⟨fun _ _ => none, id, fun _ => 0⟩ (Store.set [] "k" (.int (.basic .int16) (-5))) "k" (some 9)
      = some (-5)
    ∧ getIntOr ⟨fun _ _ => none, id, fun _ => 0⟩ (Store.set [] "k" (.int (.basic .uintptr) 5)) "k" (some 9)
      = some 9 := by decide

/-! ## 3. Faithfulness -/

/-- `AsInt` succeeds exactly on the twelve documented source types. -/
theorem asInt_succeeds_iff (c : Conv) (v : GoVal) (h : v.wf = true) :
    (asInt c v).2 = true ↔ ∃ b, b ∈ intSources ∧ v.typeOf? = some (.basic b) := by
  have hs := wf_shapeOK v h
  revert hs
  govcases v => first
    | (intro _; simp [asInt, intSources, GoVal.typeOf?]; done)
    | (intro hs; simp [GoVal.shapeOK, GoVal.typeOf?, GoVal.kind, GoType.kind, Basic.kind] at hs; done)
    | (intro hs
       simp only [GoVal.shapeOK, GoVal.typeOf?, GoVal.kind, beq_iff_eq] at hs
       constructor
       · intro h'; simp [asInt] at h'
       · rintro ⟨b, hb, hbt⟩
         simp only [GoVal.typeOf?, Option.some.injEq] at hbt
         subst hbt
         cases b <;> simp_all [GoType.kind, Basic.kind, intSources])

/-- a well-formed `uint64` succeeds, a well-formed `uintptr` or named `MyInt` does not -/
example : (GoVal.int (.basic .uint64) 5).wf = true ∧ (asInt ⟨fun _ _ => none, id, fun _ => 0⟩ (.int (.basic .uint64) 5)).2 = true
    ∧ (GoVal.int (.basic .uintptr) 5).wf = true ∧ (asInt ⟨fun _ _ => none, id, fun _ => 0⟩ (.int (.basic .uintptr) 5)).2 = false
    ∧ (GoVal.int (.named "MyInt" (.basic .int)) 5).wf = true := by decide

/-- On an integer source the result is the exact two's-complement conversion to the 64-bit `int`,
    independently of the parameter `Conv`; on a float source it is Go's own conversion. -/
theorem asInt_value (c : Conv) (b : Basic) (n : Int) (hb : b.isDocInt = true)
    (h : (GoVal.int (.basic b) n).wf = true) :
    asInt c (.int (.basic b) n) = (some (wrap64 n), true) := by
  have := asInt_exp c _ h
  cases b <;> simp [Basic.isDocInt] at hb <;>
    simp_all [expInt, intSources, Prod.ext_iff]

example : (GoVal.int (.basic .uint) 9223372036854775808).wf = true
    ∧ asInt ⟨fun _ _ => none, id, fun _ => 0⟩ (.int (.basic .uint) 9223372036854775808) = (some (-9223372036854775808), true) := by decide

theorem asInt_value_float (c : Conv) (bits : Nat) :
    asInt c (.float (.basic .float64) bits) = (c.f2i false bits, true)
    ∧ asInt c (.float (.basic .float32) bits) = (c.f2i true bits, true) := ⟨rfl, rfl⟩

/-- with a `Conv` that truncates one particular pattern (1.5) to 1 -/
example : asInt ⟨fun _ b => if b = 4609434218613702656 then some 1 else none, id, fun _ => 0⟩
      (.float (.basic .float64) 4609434218613702656) = (some 1, true) := by decide

/-- `wrap64` is the identity on the range of `int`, always lands in it, and only ever differs from
    its argument by a multiple of 2⁶⁴. -/
theorem wrap64_spec (n : Int) :
    (-two63 ≤ n → n < two63 → wrap64 n = n) ∧ (-two63 ≤ wrap64 n ∧ wrap64 n < two63)
    ∧ (wrap64 n - n) % two64 = 0 :=
  ⟨wrap64_of_inRange, wrap64_range n, wrap64_congr n⟩

example : wrap64 18446744073709551615 = -1 ∧ wrap64 9223372036854775808 = -9223372036854775808
    ∧ wrap64 (-5) = -5 ∧ wrap64 9223372036854775807 = 9223372036854775807 := by decide

example : asInt ⟨fun _ _ => none, id, fun _ => 0⟩ (.int (.basic .uint64) 18446744073709551615) = (some (-1), true)
    ∧ asInt ⟨fun _ _ => none, id, fun _ => 0⟩ (.int (.basic .int8) (-128)) = (some (-128), true)
    ∧ (asInt ⟨fun _ _ => none, id, fun _ => 0⟩ (.int (.named "MyInt" (.basic .int)) 3)).2 = false := by decide

/-- `AsFloat64` succeeds exactly on the twelve documented source types; a `float64` is returned
    bit for bit, everything else through Go's conversion (the parameter). -/
theorem asFloat64_succeeds_iff (c : Conv) (v : GoVal) (h : v.wf = true) :
    (asFloat64 c v).2 = true ↔ ∃ b, b ∈ floatSources ∧ v.typeOf? = some (.basic b) := by
  have hs := wf_shapeOK v h
  revert hs
  govcases v => first
    | (intro _; simp [asFloat64, floatSources, GoVal.typeOf?]; done)
    | (intro hs; simp [GoVal.shapeOK, GoVal.typeOf?, GoVal.kind, GoType.kind, Basic.kind] at hs; done)
    | (intro hs
       simp only [GoVal.shapeOK, GoVal.typeOf?, GoVal.kind, beq_iff_eq] at hs
       constructor
       · intro h'; simp [asFloat64] at h'
       · rintro ⟨b, hb, hbt⟩
         simp only [GoVal.typeOf?, Option.some.injEq] at hbt
         subst hbt
         cases b <;> simp_all [GoType.kind, Basic.kind, floatSources])

example : (GoVal.float (.basic .float32) 2143289344).wf = true
    ∧ (asFloat64 ⟨fun _ _ => none, id, fun _ => 0⟩ (.float (.basic .float32) 2143289344)).2 = true
    ∧ (GoVal.complex (.basic .complex64) 0 0).wf = true
    ∧ (asFloat64 ⟨fun _ _ => none, id, fun _ => 0⟩ (.complex (.basic .complex64) 0 0)).2 = false := by decide

theorem asFloat64_value (c : Conv) (b : Basic) (n : Int) (bits : Nat) (hb : b.isDocInt = true) :
    asFloat64 c (.float (.basic .float64) bits) = (bits, true)
    ∧ asFloat64 c (.float (.basic .float32) bits) = (c.f32to64 bits, true)
    ∧ asFloat64 c (.int (.basic b) n) = (c.i2f n, true) := by
  refine ⟨rfl, rfl, ?_⟩
  cases b <;> simp [Basic.isDocInt] at hb <;> rfl

example : asFloat64 ⟨fun _ _ => none, id, fun _ => 0⟩ (.float (.basic .float64) 9221120237041090561)
    = (9221120237041090561, true) := by decide

/-- `AsString`, `AsBool`, `AsMap` succeed exactly on the one documented type and return the value
    itself (for a map: the same map). -/
theorem asString_iff (v : GoVal) (s : String) : asString v = (s, true) ↔ v = .str tString s := by
  constructor
  · intro h
    have := asString_exp v
    govcases v => first | (simp [asString] at h; done) | (simp [asString] at h; simp [h, tString])
  · intro h; subst h; rfl

example : asString (.str tString "") = ("", true) ∧ asString .nil = ("", false) := by decide

theorem asBool_iff (v : GoVal) (b : Bool) : asBool v = (b, true) ↔ v = .bool tBool b := by
  constructor
  · intro h
    govcases v => first | (simp [asBool] at h; done) | (simp [asBool] at h; simp [h, tBool])
  · intro h; subst h; rfl

example : asBool (.bool tBool false) = (false, true) ∧ asBool (.int (.basic .int) 1) = (false, false) := by decide

theorem asMap_iff (v : GoVal) (m : MapV) : asMap v = (m, true) ↔ v = .map tMapSA m := by
  constructor
  · intro h
    cases v <;> simp [asMap] at h
    case map t id => split at h <;> simp_all
  · intro h; subst h; simp [asMap]

example : asString (.str (.named "MyString" tString) "x") = ("", false)
    ∧ asMap (.map (.map tString (.basic .int)) (some 1)) = (none, false)
    ∧ asMap (.map tMapSA none) = (none, true) := by decide

/-- `As[T]` succeeds exactly when the value is not nil and its dynamic type is `T` (for `T = any`:
    is not nil); it then returns the value itself, and the zero value of `T` otherwise.
    `MustAs[T]` panics iff `As[T]` fails and otherwise returns the same value. -/
theorem asT_spec (t : GoType) (v : GoVal) :
    ((asT t v).2 = true ↔ v ≠ .nil ∧ (t = .any ∨ v.typeOf? = some t))
    ∧ ((asT t v).2 = true → (asT t v).1 = v) ∧ ((asT t v).2 = false → (asT t v).1 = zeroOf t)
    ∧ mustT t v = (if (asT t v).2 then .ok (asT t v).1 else .panic)
    ∧ (mustT t v = .panic ↔ (asT t v).2 = false) := by
  obtain ⟨h1, h2⟩ := asT_exp t v
  refine ⟨?_, ?_, ?_, mustT_eq t v, ?_⟩
  · rw [h1]; simp [expAs]
  · intro h; rw [h2, ← h1, h]; rfl
  · intro h; rw [h2, ← h1, h]; rfl
  · rw [mustT_eq]; cases (asT t v).2 <;> simp

/-- `As[int]` on an `int` and on a `MyInt`; `As[any]` on nil; `As[Result]` on a Result used as a value
    (`flyt.As[flyt.Result](flyt.R(flyt.R(42)))`); the zero `Result` otherwise -/
example : asT (.basic .int) (.int (.basic .int) 42) = (.int (.basic .int) 42, true)
    ∧ asT (.basic .int) (.int (.named "MyInt" (.basic .int)) 42) = (.int (.basic .int) 0, false)
    ∧ asT .any .nil = (.nil, false) ∧ asT .any (.bool tBool true) = (.bool tBool true, true)
    ∧ asT tResult (.newResult (.int (.basic .int) 42)) = (.newResult (.int (.basic .int) 42), true)
    ∧ asT tResult (.int (.basic .int) 42) = (.newResult .nil, false)
    ∧ mustT tAnys (.slice tInts true .nil) = .panic
    ∧ zeroOf (.array 2 (.basic .int)) = .array (.array 2 (.basic .int)) (.cons (.int (.basic .int) 0) (.cons (.int (.basic .int) 0) .nil)) := by
  decide

/-- `AsSlice` succeeds iff the value's kind is slice, and then returns exactly `ToSlice v`. -/
theorem asSlice_spec (v : GoVal) :
    asSlice v = .ok (if v.kind = .slice then (toSlice v, true) else (none, false)) :=
  asSlice_closed v

example : asSlice (.array (.array 1 tInts) (.cons (.slice tInts true .nil) .nil)) = .ok (none, false)
    ∧ asSlice (.slice tFloat64s false (.cons (.float (.basic .float64) 9221120237041090561) .nil))
      = .ok (some [.float (.basic .float64) 9221120237041090561], true) := by decide

/-- for well-formed values "kind is slice" is a statement about the dynamic type -/
theorem asSlice_succeeds_iff (v : GoVal) (h : v.wf = true) :
    (∃ s, asSlice v = .ok (s, true)) ↔ ∃ t, v.typeOf? = some t ∧ t.kind = .slice := by
  rw [asSlice_closed]
  constructor
  · rintro ⟨s, hs⟩
    by_cases hk : v.kind = .slice
    · cases v <;> simp [GoVal.kind] at hk
      case slice t n es => exact ⟨t, rfl, by simpa [GoVal.kind] using wf_kind _ t h rfl⟩
    · simp [hk] at hs
  · rintro ⟨t, ht, hk⟩
    have := wf_kind v t h ht
    exact ⟨toSlice v, by simp [← this, hk]⟩

example : (GoVal.slice (.named "MyInts" tInts) false (.cons (.int (.basic .int) 1) .nil)).wf = true
    ∧ (GoType.named "MyInts" tInts).kind = .slice
    ∧ asSlice (.slice (.named "MyInts" tInts) false (.cons (.int (.basic .int) 1) .nil))
      = .ok (some [.int (.basic .int) 1], true) := by decide

/-- `ToSlice`: nil ↦ empty, a non-slice ↦ the one-element slice holding it, a slice ↦ its elements
    in order — whichever of the five fast paths or the reflection fallback is taken. -/
theorem toSlice_spec (v : GoVal) :
    toSlice .nil = some []
    ∧ (v ≠ .nil → v.kind ≠ .slice → toSlice v = some [v])
    ∧ (∀ t isNil es, elemsOf (toSlice (.slice t isNil es)) = if isNil then [] else es.toList) := by
  refine ⟨rfl, ?_, ?_⟩
  · intro h1 h2; cases v <;> first | rfl | (exfalso; exact h1 rfl) | (exfalso; exact h2 rfl)
  · intro t isNil es; exact elemsOf_toSlice (.slice t isNil es)

example : toSlice (.slice tInts false (.cons (.int (.basic .int) 1) (.cons (.int (.basic .int) 2) .nil)))
      = some [.int (.basic .int) 1, .int (.basic .int) 2]
    ∧ toSlice (.slice (.named "MyInts" tInts) true .nil) = some []
    ∧ toSlice (.slice tAnys true .nil) = none
    ∧ asSlice (.slice (.slice tAnys) false (.cons (.slice tAnys true .nil) .nil))
      = .ok (some [.slice tAnys true .nil], true) := by decide

/-! ## 4. The whole property, on the model's observation -/

/-- **C15 holds of the model**: for every well-formed value, all defaults and every `Conv`, the
    predicate `Spec.c15` — evaluated by the driver on what the implementation did — is true of what
    the model does. -/
theorem holds (sc : Scenario) (h : sc.v.wf = true) : c15 sc (observe sc) = true := by
  have hk := get_scStore sc.v
  have hm := get_scStore_miss sc.v
  have hstr : (parts sc (observe sc)).str = true := by
    have he := asString_exp sc.v
    refine famOK_of id "" sc.d.s _ _ (asString sc.v).1 (asString sc.v).2 rfl ?_ ?_ ?_ ?_ ?_ ?_ ?_ he.1 he.2
    · simp [observe, observeWith, asStringOr_eq]
    · simp [observe, observeWith, mustString_eq]
    · simp [observe, observeWith, getString_of_get _ _ _ hk, asStringOr_eq]
    · simp [observe, observeWith, getStringOr_of_get _ _ _ _ hk, asStringOr_eq]
    · simp [observe, observeWith, getString_miss _ _ hm]
    · simp [observe, observeWith, getStringOr_miss _ _ _ hm]
    · exact asString_zero sc.v
  have hint : (parts sc (observe sc)).int = true := by
    have he := asInt_exp sc.conv sc.v h
    refine famOK_of id (some 0) (some sc.d.i) _ _ (asInt sc.conv sc.v).1 (asInt sc.conv sc.v).2 rfl
      ?_ ?_ ?_ ?_ ?_ ?_ ?_ he.1 he.2
    · simp [observe, observeWith, asIntOr_eq]
    · simp [observe, observeWith, mustInt_eq]
    · simp [observe, observeWith, getInt, getIntOr_of_get _ _ _ _ _ hk, asIntOr_eq]
    · simp [observe, observeWith, getIntOr_of_get _ _ _ _ _ hk, asIntOr_eq]
    · simp [observe, observeWith, getInt, getIntOr_miss _ _ _ _ hm]
    · simp [observe, observeWith, getIntOr_miss _ _ _ _ hm]
    · exact asInt_zero sc.conv sc.v
  have hflt : (parts sc (observe sc)).flt = true := by
    have he := asFloat64_exp sc.conv sc.v h
    refine famOK_of id 0 sc.d.f _ _ (asFloat64 sc.conv sc.v).1 (asFloat64 sc.conv sc.v).2 rfl
      ?_ ?_ ?_ ?_ ?_ ?_ ?_ he.1 he.2
    · simp [observe, observeWith, asFloat64Or_eq]
    · simp [observe, observeWith, mustFloat64_eq]
    · simp [observe, observeWith, getFloat64, getFloat64Or_of_get _ _ _ _ _ hk, asFloat64Or_eq]
    · simp [observe, observeWith, getFloat64Or_of_get _ _ _ _ _ hk, asFloat64Or_eq]
    · simp [observe, observeWith, getFloat64, getFloat64Or_miss _ _ _ _ hm]
    · simp [observe, observeWith, getFloat64Or_miss _ _ _ _ hm]
    · exact asFloat64_zero sc.conv sc.v
  have hbool : (parts sc (observe sc)).bool = true := by
    have he := asBool_exp sc.v
    refine famOK_of id false sc.d.b _ _ (asBool sc.v).1 (asBool sc.v).2 rfl ?_ ?_ ?_ ?_ ?_ ?_ ?_ he.1 he.2
    · simp [observe, observeWith, asBoolOr_eq]
    · simp [observe, observeWith, mustBool_eq]
    · simp [observe, observeWith, getBool, getBoolOr_of_get _ _ _ _ hk, asBoolOr_eq]
    · simp [observe, observeWith, getBoolOr_of_get _ _ _ _ hk, asBoolOr_eq]
    · simp [observe, observeWith, getBool, getBoolOr_miss _ _ _ hm]
    · simp [observe, observeWith, getBoolOr_miss _ _ _ hm]
    · exact asBool_zero sc.v
  have hmap : (parts sc (observe sc)).map = true := by
    have he := asMap_exp sc.v
    refine famOK_of id none sc.d.m _ _ (asMap sc.v).1 (asMap sc.v).2 rfl ?_ ?_ ?_ ?_ ?_ ?_ ?_ he.1 he.2
    · simp [observe, observeWith, asMapOr_eq]
    · simp [observe, observeWith, mustMap_eq]
    · simp [observe, observeWith, getMap, getMapOr_of_get _ _ _ _ hk, asMapOr_eq]
    · simp [observe, observeWith, getMapOr_of_get _ _ _ _ hk, asMapOr_eq]
    · simp [observe, observeWith, getMap, getMapOr_miss _ _ _ hm]
    · simp [observe, observeWith, getMapOr_miss _ _ _ hm]
    · exact asMap_zero sc.v
  have h1 := asSlice_closed sc.v
  have h2 := asSliceOr_closed sc.v sc.d.sl
  have h2' := mustSlice_closed sc.v
  have h3 := getSlice_of_get _ _ _ hk
  have h4 := getSliceOr_of_get _ _ _ sc.d.sl hk
  have h5 := getSliceOrWith_miss kindTest _ _ none hm
  have h6 := getSliceOrWith_miss kindTest _ _ sc.d.sl hm
  unfold asSlice at h1; unfold asSliceOr at h2; unfold mustSlice at h2'
  unfold getSlice getSliceWith at h3; unfold getSliceOr at h4
  have hslice : (parts sc (observe sc)).slice = true := by
    by_cases hkind : sc.v.kind = .slice
    · refine famOK_of elemsOf none sc.d.sl _ _ (toSlice sc.v) true ?_ ?_ ?_ ?_ ?_ ?_ ?_ ?_ ?_ ?_ <;>
        simp [observe, observeWith, h1, h2, h2', h3, h4, h5, h6, getSliceWith, hkind, expSlice]
    · refine famOK_of elemsOf none sc.d.sl _ _ none false ?_ ?_ ?_ ?_ ?_ ?_ ?_ ?_ ?_ ?_ <;>
        simp [observe, observeWith, h1, h2, h2', h3, h4, h5, h6, getSliceWith, hkind, expSlice]
  have hts : (parts sc (observe sc)).toSlice = true := by
    simp [parts, observe, observeWith, toSliceOK, elemsOf_toSlice]
  have hgen : (parts sc (observe sc)).gen = true := by
    simp only [parts, observe, observeWith]; exact genOK_model sc.v
  simp only [parts] at hstr hint hflt hbool hmap hslice hts hgen
  simp only [c15, Parts.all, parts, hstr, hint, hflt, hbool, hmap, hslice, hts, hgen, Bool.and_self]

/-- non-vacuity: a struct holding a slice and a NaN — well-formed, non-nil, not a slice — on which
    the model answers `(nil, false)` without panicking -/
def witnessNC : GoVal :=
  .struct (.structField (.basic .float64) (.structField tInts .structEnd))
    (.cons (.float (.basic .float64) 9221120237041090561) (.cons (.slice tInts false (.cons (.int (.basic .int) 4) .nil)) .nil))

example : witnessNC.wf = true ∧ asSlice witnessNC = .ok (none, false)
    ∧ nontrivial ⟨witnessNC, ⟨"d", 7, 0, true, none, none⟩, ⟨fun _ _ => none, id, fun _ => 0⟩⟩
        (observe ⟨witnessNC, ⟨"d", 7, 0, true, none, none⟩, ⟨fun _ _ => none, id, fun _ => 0⟩⟩) = true := by
  decide

/-! ## 5. A `flyt.Result` used as an ordinary value

`flyt.R(flyt.R(42))`, a Result stored in the SharedStore, a Result inside a slice: the value whose
dynamic type is `flyt.Result` itself (`GoVal.result v e` = `Result{value: v, err: e}`; `newResult v`
and `newErrorResult e` are what the two public constructors build). -/

/-- A Result is a struct-kind value of the comparable struct type `flyt.Result`: never nil, not a
    slice, not a map — and well-formed exactly when what it holds is, so every theorem above that
    quantifies over well-formed values speaks about Results holding any value of the universe,
    nil, another Result and error Results included. -/
theorem result_value (v e : GoVal) :
    GoVal.result v e ≠ .nil ∧ (GoVal.result v e).typeOf? = some tResult
    ∧ (GoVal.result v e).kind = .struct ∧ tResult.kind = .struct ∧ tResult.comparable = true
    ∧ ((GoVal.result v e).wf = true ↔ v.wf = true ∧ e.wf = true) := by
  refine ⟨by simp [GoVal.result], rfl, rfl, by decide, by decide, ?_⟩
  rw [result_wf]; simp

/-- `R(R(42))`, `R(R(nil))`, `R(NewErrorResult(errors.New(…)))`, `R([]Result{R(1)})` are well-formed -/
example : (GoVal.newResult (.newResult (.int (.basic .int) 42))).wf = true
    ∧ (GoVal.newResult (.newResult .nil)).wf = true
    ∧ (GoVal.newResult (.newErrorResult (.ptr (.ptr (.named "ErrStr" (.structField tString .structEnd))) (some 1)))).wf = true
    ∧ (GoVal.newResult (.slice (.slice tResult) false (.cons (.newResult (.int (.basic .int) 1)) .nil))).wf = true := by
  decide

/-- A Result is not a documented source type of any accessor: every `AsX` fails on it with the zero
    value, whatever it holds — `R(R(42)).AsInt()` is `(0, false)`, not `(42, true)` —, `ToSlice`
    wraps it into a one-element slice, and the store getters on a key holding it yield the default. -/
theorem result_opaque (c : Conv) (v e : GoVal) (s : Store) (k : String)
    (hs : s.get k = some (GoVal.result v e))
    (ds : String) (di : Option Int) (df : Nat) (db : Bool) (dsl : SliceV) (dm : MapV) :
    asString (GoVal.result v e) = ("", false) ∧ asInt c (GoVal.result v e) = (some 0, false)
    ∧ asFloat64 c (GoVal.result v e) = (0, false) ∧ asBool (GoVal.result v e) = (false, false)
    ∧ asMap (GoVal.result v e) = (none, false) ∧ asSlice (GoVal.result v e) = .ok (none, false)
    ∧ toSlice (GoVal.result v e) = some [GoVal.result v e]
    ∧ getStringOr s k ds = ds ∧ getIntOr c s k di = di ∧ getFloat64Or c s k df = df
    ∧ getBoolOr s k db = db ∧ getMapOr s k dm = dm ∧ getSliceOr s k dsl = .ok dsl := by
  obtain ⟨h1, h2, h3, h4, h5, h6, h7⟩ := result_accessors c v e
  have h := store_agrees_with_result c s k _ hs ds di df db dsl dm
  refine ⟨h1, h2, h3, h4, h5, h6, h7, ?_, ?_, ?_, ?_, ?_, ?_⟩
  · rw [h.1, asStringOr_eq, h1]; rfl
  · rw [h.2.2.1, asIntOr_eq, h2]; rfl
  · rw [h.2.2.2.2.1, asFloat64Or_eq, h3]; rfl
  · rw [h.2.2.2.2.2.2.1, asBoolOr_eq, h4]; rfl
  · rw [h.2.2.2.2.2.2.2.2.1, asMapOr_eq, h5]; rfl
  · rw [h.2.2.2.2.2.2.2.2.2.2.1, asSliceOr_closed]; rfl

/-- `R(R(42))`: the outer Result's accessors and the store see a Result, not the 42 inside it;
    the Result holding 42 itself converts -/
example : asInt ⟨fun _ _ => none, id, fun _ => 0⟩ (.newResult (.int (.basic .int) 42)) = (some 0, false)
    ∧ asInt ⟨fun _ _ => none, id, fun _ => 0⟩ (.int (.basic .int) 42) = (some 42, true)
    ∧ getIntOr ⟨fun _ _ => none, id, fun _ => 0⟩ (Store.set [] "k" (.newResult (.int (.basic .int) 42))) "k" (some (-7)) = some (-7)
    ∧ asSlice (.newResult (.slice tInts false (.cons (.int (.basic .int) 1) .nil))) = .ok (none, false)
    ∧ toSlice (.newResult (.int (.basic .int) 42)) = some [.newResult (.int (.basic .int) 42)]
    ∧ asSlice (.slice (.slice tResult) false (.cons (.newResult (.int (.basic .int) 1)) .nil))
        = .ok (some [.newResult (.int (.basic .int) 1)], true) := by decide

/-- A Result compares like what it holds: the value first, then the error (`flyt.Result` is a
    comparable struct type, so the only panic is the one of a non-comparable content). -/
theorem result_comparison (v e : GoVal) :
    ifaceEq (GoVal.result v e) (GoVal.result v e) = (match ifaceEq v v with | .eq => ifaceEq e e | x => x)
    ∧ ifaceEq (GoVal.newResult v) (GoVal.newResult v) = ifaceEq v v
    ∧ ifaceEq (GoVal.newErrorResult e) (GoVal.newErrorResult e) = ifaceEq e e := by
  refine ⟨result_ifaceEq v e, ?_, ?_⟩
  · rw [GoVal.newResult, result_ifaceEq]; cases ifaceEq v v <;> rfl
  · rw [GoVal.newErrorResult, result_ifaceEq]; rfl

/-- `R(42) == R(42)`, `R(NaN) ≠ R(NaN)`, `R([]int(nil)) == R([]int(nil))` panics, so does an error
    Result whose error has a non-comparable type; a Result never equals what it holds -/
example : ifaceEq (.newResult (.int (.basic .int) 42)) (.newResult (.int (.basic .int) 42)) = .eq
    ∧ ifaceEq (.newResult (.float (.basic .float64) 9221120237041090561)) (.newResult (.float (.basic .float64) 9221120237041090561)) = .ne
    ∧ ifaceEq (.newResult (.slice tInts true .nil)) (.newResult (.slice tInts true .nil)) = .panic
    ∧ ifaceEq (.newErrorResult (.struct (.named "MyNCErr" (.structField tStrings .structEnd)) (.cons (.slice tStrings true .nil) .nil)))
        (.newErrorResult (.struct (.named "MyNCErr" (.structField tStrings .structEnd)) (.cons (.slice tStrings true .nil) .nil))) = .panic
    ∧ ifaceEq (.newResult (.int (.basic .int) 42)) (.int (.basic .int) 42) = .ne
    ∧ ifaceEq (.newResult .nil) (.newErrorResult .nil) = .eq := by decide

/-- The whole property on a Result value: `Spec.c15` is true of the model's observation, and that
    observation says "not convertible" in all six families. -/
theorem holds_on_results (sc : Scenario) (v e : GoVal) (hv : sc.v = GoVal.result v e)
    (h1 : v.wf = true) (h2 : e.wf = true) :
    c15 sc (observe sc) = true
    ∧ (observe sc).str.as_ = .ok ("", false) ∧ (observe sc).int.as_ = .ok (some 0, false)
    ∧ (observe sc).flt.as_ = .ok (0, false) ∧ (observe sc).bool.as_ = .ok (false, false)
    ∧ (observe sc).slice.as_ = .ok (none, false) ∧ (observe sc).map.as_ = .ok (none, false)
    ∧ (observe sc).toSlice = .ok (some [sc.v]) := by
  obtain ⟨a1, a2, a3, a4, a5, a6, a7⟩ := result_accessors sc.conv v e
  unfold asSlice at a6
  refine ⟨holds sc (by rw [hv, result_wf, h1, h2]; rfl), ?_⟩
  simp [observe, observeWith, hv, a1, a2, a3, a4, a5, a6, a7]

example : c15 ⟨.newResult (.newResult (.int (.basic .int) 42)), ⟨"d", 7, 0, true, none, none⟩, ⟨fun _ _ => none, id, fun _ => 0⟩⟩
      (observe ⟨.newResult (.newResult (.int (.basic .int) 42)), ⟨"d", 7, 0, true, none, none⟩, ⟨fun _ _ => none, id, fun _ => 0⟩⟩) = true := by
  decide

/-- What a `NewResult` that hands an incoming Result through unchanged would do — the outer accessors
    answer for the *inner* value (`R(R(42)).AsInt() = (42, true)`) while the store still holds the
    Result — is not the property: the predicate is false of that observation. -/
example :
    c15 ⟨.newResult (.int (.basic .int) 42), ⟨"d", 7, 0, true, none, none⟩, ⟨fun _ _ => none, id, fun _ => 0⟩⟩
      { observe ⟨.newResult (.int (.basic .int) 42), ⟨"d", 7, 0, true, none, none⟩, ⟨fun _ _ => none, id, fun _ => 0⟩⟩ with
        int.as_ := .ok (some 42, true), int.or_ := .ok (some 42), int.must := .ok (some 42) } = false := by
  decide

/-! ## 6. Interface equality, and the unrepaired slice test (finding F4) -/

/-- Comparing a value with one of the same non-comparable dynamic type panics (Go's run-time
    panic "comparing uncomparable type"). -/
theorem ifaceEq_panics_on_noncomparable (v : GoVal) (t : GoType) (hv : v.typeOf? = some t)
    (h : t.comparable = false) : ifaceEq v v = .panic :=
  ifaceEq_self_noncomparable v t hv h

example : (GoVal.typeOf? witnessNC).map GoType.comparable = some false ∧ ifaceEq witnessNC witnessNC = .panic := by
  decide

/-- A NaN differs from itself (no panic: float types are comparable). -/
theorem ifaceEq_nan (t : GoType) (bits : Nat) (hw : (GoVal.float t bits).wf = true)
    (h : isNaN (is32 t) bits = true) : ifaceEq (.float t bits) (.float t bits) = .ne := by
  have hc : t.comparable = true := by
    rw [← GoType.comparable_underlying]
    simp only [GoVal.wf] at hw
    split at hw <;> simp_all [GoType.comparable]
  simp [ifaceEq, typeGuard, hc, floatEq_nan _ _ h, boolRes]

example : ifaceEq (.map tMapSA (some 1)) (.map tMapSA (some 1)) = .panic
    ∧ ifaceEq (.float (.basic .float64) 9221120237041090561) (.float (.basic .float64) 9221120237041090561) = .ne
    ∧ ifaceEq (.float (.basic .float64) 0) (.float (.basic .float64) 9223372036854775808) = .eq
    ∧ ifaceEq (.int (.basic .int) 1) (.int (.basic .int64) 1) = .ne := by decide

/-- **F4, characterised.** On a non-nil non-slice value the unrepaired `AsSlice` is decided by the
    interface comparison `v == v`: equal ⇒ "not a slice" (intended), unequal ⇒ the value is reported
    as the one-element slice `[v]`, panic ⇒ the accessor panics. -/
theorem legacy_asSlice_nonslice (v : GoVal) (hn : v ≠ .nil) (hk : v.kind ≠ .slice) :
    Legacy.asSlice v
      = match ifaceEq v v with
        | .eq => .ok (none, false) | .ne => .ok (some [v], true) | .panic => .panic :=
  Legacy.asSlice_nonslice v hn hk

example : Legacy.asSlice (.int (.basic .int) 3) = .ok (none, false)
    ∧ Legacy.asSlice (.struct (.structField (.basic .float64) .structEnd) (.cons (.float (.basic .float64) 9221120237041090561) .nil))
      = .ok (some [.struct (.structField (.basic .float64) .structEnd) (.cons (.float (.basic .float64) 9221120237041090561) .nil)], true)
    ∧ Legacy.asSlice (.chan (.chan (.basic .int)) (some 1)) = .ok (none, false) := by decide

/-- **F4, first half**: every non-Must slice accessor of the unrepaired code panics on *every*
    non-slice value of a non-comparable dynamic type (maps, funcs, structs / arrays containing
    slices, …) — results and store alike — where the repaired code answers "not a slice". -/
theorem legacy_panics_on_noncomparable (v : GoVal) (t : GoType) (hv : v.typeOf? = some t)
    (hk : v.kind ≠ .slice) (h : t.comparable = false)
    (s : Store) (k : String) (hs : s.get k = some v) (d : SliceV) :
    Legacy.asSlice v = .panic ∧ Legacy.asSliceOr v d = .panic ∧ Legacy.mustSlice v = .panic
    ∧ Legacy.getSliceOr s k d = .panic ∧ Legacy.getSlice s k = .panic
    ∧ asSlice v = .ok (none, false) ∧ getSliceOr s k d = .ok d := by
  have hn : v ≠ .nil := by intro e; subst e; simp [GoVal.typeOf?] at hv
  have he := ifaceEq_self_noncomparable v t hv h
  have h1 : Legacy.asSlice v = .panic := by rw [Legacy.asSlice_nonslice v hn hk, he]
  have h2 : ∀ d, Legacy.getSliceOr s k d = .panic := by
    intro d; rw [Legacy.getSliceOr_nonslice s k d v hs hn hk, he]
  refine ⟨h1, ?_, ?_, h2 d, h2 none, ?_, ?_⟩
  · unfold Legacy.asSlice at h1; simp [Legacy.asSliceOr, asSliceOrWith, h1]
  · unfold Legacy.asSlice at h1; simp [Legacy.mustSlice, mustSliceWith, h1]
  · simp [asSlice_closed, hk]
  · simp [getSliceOr_of_get s k v d hs, hk]

example : Legacy.asSlice (.map tMapSA (some 1)) = .panic
    ∧ Legacy.asSliceOr (.func (.func 0) false) none = .panic
    ∧ Legacy.getSlice (Store.set [] "k" witnessNC) "k" = .panic
    ∧ Legacy.asSlice (.array (.array 1 tInts) (.cons (.slice tInts true .nil) .nil)) = .panic := by decide

/-- **F4, second half**: a NaN is reported as the slice `[NaN]`. -/
theorem legacy_nan_is_a_slice (t : GoType) (bits : Nat) (hw : (GoVal.float t bits).wf = true)
    (h : isNaN (is32 t) bits = true) :
    Legacy.asSlice (.float t bits) = .ok (some [.float t bits], true)
    ∧ asSlice (.float t bits) = .ok (none, false) := by
  refine ⟨?_, by simp [asSlice_closed, GoVal.kind]⟩
  rw [Legacy.asSlice_nonslice _ (by simp) (by simp [GoVal.kind]), ifaceEq_nan t bits hw h]

example : Legacy.asSlice (.float (.basic .float32) 2143289344)
    = .ok (some [.float (.basic .float32) 2143289344], true) := by decide

/-- Apart from that the two tests coincide: wherever `v == v` holds for a non-slice and the only
    element of a one-element slice differs from the slice, the unrepaired `AsSlice` is the repaired one. -/
theorem legacy_agrees_elsewhere (v : GoVal)
    (h1 : v ≠ .nil → v.kind ≠ .slice → ifaceEq v v = .eq)
    (h2 : ∀ e, v.kind = .slice → elemsOf (toSlice v) = [e] → ifaceEq e v = .ne) :
    Legacy.asSlice v = asSlice v := by
  by_cases hn : v = .nil
  · subst hn; rfl
  by_cases hk : v.kind = .slice
  · unfold Legacy.asSlice asSlice asSliceWith
    cases v <;> simp [GoVal.kind] at hk
    case slice t isNil es =>
      simp only []
      cases ha : assertAnys (.slice t isNil es) with
      | some s => rfl
      | none =>
        have ht : Legacy.eqTest (toSlice (.slice t isNil es)) (.slice t isNil es) = .ok false := by
          simp only [Legacy.eqTest]
          split
          · rename_i e he; rw [h2 e rfl he]
          · rfl
        simp only [ht, kindTest, GoVal.kind]
        rfl
  · rw [Legacy.asSlice_nonslice v hn hk, h1 hn hk, asSlice_closed]; simp [hk]

example : Legacy.asSlice (.str tString "x") = asSlice (.str tString "x")
    ∧ Legacy.asSlice (.slice tInts false (.cons (.int (.basic .int) 5) .nil))
      = .ok (some [.int (.basic .int) 5], true) := by decide

/-- the same defect on a *slice*: a named slice type whose only element has that same type
    (`type MyAnys []any; MyAnys{MyAnys{}}`) — the heuristic compares two slices -/
example : Legacy.asSlice (.slice (.named "MyAnys" tAnys) false (.cons (.slice (.named "MyAnys" tAnys) false .nil) .nil))
      = .panic
    ∧ asSlice (.slice (.named "MyAnys" tAnys) false (.cons (.slice (.named "MyAnys" tAnys) false .nil) .nil))
      = .ok (some [.slice (.named "MyAnys" tAnys) false .nil], true) := by
  constructor
  · simp [Legacy.asSlice, asSliceWith, assertAnys, tAnys, toSlice, sliceElems, GoVals.toList, Legacy.eqTest,
      ifaceEq, typeGuard, GoType.comparable, tStrings, tInts, tFloat64s, tMapSAs, tMapSA]
  · simp [asSlice_closed, GoVal.kind, toSlice, sliceElems, GoVals.toList, tAnys, tStrings, tInts, tFloat64s,
      tMapSAs, tMapSA]

/-- The property is false of the unrepaired model, with a concrete well-formed scenario: the
    check's `VIOLATION` on the unrepaired repository is this theorem seen on the real code. -/
theorem legacy_violates :
    ∃ sc : Scenario, sc.v.wf = true ∧ c15 sc (Legacy.observe sc) = false
      ∧ (Legacy.observe sc).slice.as_ = .panic :=
  ⟨⟨.map tMapSA (some 1), ⟨"d", 7, 0, true, none, none⟩, ⟨fun _ _ => none, id, fun _ => 0⟩⟩, by decide⟩

/-- a second witness: on a NaN the unrepaired model answers `([NaN], true)` and the predicate is false,
    while it is true of the repaired model on the same scenario -/
example :
    c15 ⟨.float (.basic .float64) 9221120237041090561, ⟨"d", 7, 0, true, none, none⟩, ⟨fun _ _ => none, id, fun _ => 0⟩⟩
      (Legacy.observe ⟨.float (.basic .float64) 9221120237041090561, ⟨"d", 7, 0, true, none, none⟩, ⟨fun _ _ => none, id, fun _ => 0⟩⟩)
      = false
    ∧ c15 ⟨.float (.basic .float64) 9221120237041090561, ⟨"d", 7, 0, true, none, none⟩, ⟨fun _ _ => none, id, fun _ => 0⟩⟩
      (observe ⟨.float (.basic .float64) 9221120237041090561, ⟨"d", 7, 0, true, none, none⟩, ⟨fun _ _ => none, id, fun _ => 0⟩⟩)
      = true := by decide

end Flyt.Props.C15
