import FlytModel.Proofs.FlowRetry
import FlytModel.Proofs.ExampleEnv
/-!
# C02 for a flow with a retry budget: the bridge to the executable predicate `Spec.c02Flow`

`Spec.c02Flow N s cancelFree` is what the correspondence driver (`Driver/RFlowFam.lean`) evaluates on the
IMPLEMENTATION's observation; attempts of `Flow.Exec` are counted there as prep events of the flow's start node `s`.
Here: the predicate holds of the MODEL's own observation (`runFlowRetried`, `Model/FlowRetry.lean`) for every scenario
of the shape that makes the count exact.

* `c02Flow_of_shape` — the general form: the shape is given by ANY set of nodes `Safe` that does not contain `s`, holds
  every target of the root flow's connections and is closed under "start node of a flow" / "target of a connection of a
  flow" (`Proofs.Shape`).
* `c02Flow_holds` — the concrete, checkable form: `s` is a leaf with a prep callback; no connection of the root or of any
  flow of the arena leads to `s` (`hops`, `hnotarget`: what the driver checks); and no flow that starts at `s` is itself
  the target of a connection or the start node of a flow (`hnested`: what the driver does NOT check — see the
  counterexample `guard_insufficient` below).
* Neither theorem needs a hypothesis on cancellation: in the model an outcome other than an action or the context's
  error is only ever returned when the budget is used up (`Proofs.retryLoop_nonctx_exhausts`), so the clause
  `!cancelFree || k == N` holds with `cancelFree = true` for EVERY scenario. `cancelFree` is universally quantified.
* The only hypothesis on fuel is the one the driver checks: the final outcome is not `fuel`. Earlier attempts may have
  run out of fuel — they still show exactly one prep event of `s`.
-/
namespace Flyt.Props.C02Flow
open Flyt Flyt.Proofs

/-- what the model's observation looks like, in terms of the prep events of the start node -/
theorem runFlowRetried_obs {env : Env} {s : NodeId} {Safe : NodeId → Prop} {ops : List ConnOp}
    (sh : Shape env s Safe (buildTable ops)) (fuel N : Nat) (sid : StoreId) (st : RunSt)
    (hfuel : (runFlowRetried env fuel (some s) ops N sid st).2.2.1 ≠ .fuel) :
    Spec.startPreps s (runFlowRetried env fuel (some s) ops N sid st).1 ≤ N ∧
    (∀ a, (runFlowRetried env fuel (some s) ops N sid st).2.2.1 = .ok a →
      N = 0 ∨ 1 ≤ Spec.startPreps s (runFlowRetried env fuel (some s) ops N sid st).1) ∧
    (∀ e, (runFlowRetried env fuel (some s) ops N sid st).2.2.1 = .err e → (∀ c, e ≠ .ctx c) →
      Spec.startPreps s (runFlowRetried env fuel (some s) ops N sid st).1 = N) ∧
    (∀ a e, (runFlowRetried env fuel (some s) ops N sid st).2.2.1 ≠ .both a e) := by
  unfold runFlowRetried at hfuel ⊢
  cases hc : st.ctx with
  | done c => simp [startPreps_nil]
  | live =>
    simp only [hc] at hfuel ⊢
    by_cases h0 : N = 0
    · simp [h0, startPreps_nil]
    · simp only [h0, if_false] at hfuel ⊢
      obtain ⟨k, rfl⟩ : ∃ k, N = k + 1 := ⟨N - 1, by omega⟩
      have hle := retryLoop_attempts_le env fuel (buildTable ops) s sid (k + 1) (.err (.fw .other)) st
      have hpos := retryLoop_ok_pos env fuel (buildTable ops) s sid k (.err (.fw .other)) st
      have hex := retryLoop_nonctx_exhausts env fuel (buildTable ops) s sid (k + 1) (.err (.fw .other)) st
      have hnb := retryLoop_not_both env fuel ops s sid (k + 1) (.err (.fw .other)) st (by simp)
      have hlow := fun hf => retryLoop_lowfuel (env := env) (fuel := fuel) hf (buildTable ops) s sid (k + 1)
        (.err (.fw .other)) st hc (by simp)
      have hcnt := fun hf => retryLoop_startPreps sh sid fuel hf (k + 1) (.err (.fw .other)) st
      rcases hr : retryLoop env fuel (buildTable ops) s sid (k + 1) (.err (.fw .other)) st with ⟨evs, st', out, n⟩
      rw [hr] at hle hpos hex hnb hlow hcnt hfuel
      simp only at hle hpos hex hnb hlow hcnt
      by_cases hf : 2 ≤ fuel
      · have hk := hcnt hf
        cases out with
        | ok a =>
          simp only [hk]
          exact ⟨hle, fun _ _ => .inr (hpos a rfl), by simp, by simp⟩
        | err e =>
          simp only [hk]
          refine ⟨hle, by simp, ?_, by simp⟩
          intro e' he' hne
          cases he'
          exact hex (by simp) (fun c hc' => hne c (by cases hc'; rfl))
        | both a e => exact absurd rfl (hnb a e)
        | fuel => exact absurd rfl hfuel
      · have := hlow (by omega)
        subst this
        exact absurd rfl hfuel

/-- **Bridge, general form**: `Spec.c02Flow` holds of the model's own observation, for every budget, every `cancelFree`. -/
theorem c02Flow_of_shape {env : Env} {s : NodeId} {Safe : NodeId → Prop} {ops : List ConnOp}
    (sh : Shape env s Safe (buildTable ops)) (fuel N : Nat) (sid : StoreId) (st : RunSt)
    (hfuel : (runFlowRetried env fuel (some s) ops N sid st).2.2.1 ≠ .fuel) (cancelFree : Bool) (store : List Nat) :
    Spec.c02Flow N s cancelFree
      { trace := Spec.noWaits (runFlowRetried env fuel (some s) ops N sid st).1,
        out := (runFlowRetried env fuel (some s) ops N sid st).2.2.1, store := store } = true := by
  obtain ⟨hle, hok, herr, hnb⟩ := runFlowRetried_obs sh fuel N sid st hfuel
  unfold Spec.c02Flow
  simp only [startPreps_noWaits]
  generalize Spec.startPreps s (runFlowRetried env fuel (some s) ops N sid st).1 = k at hle hok herr
  generalize (runFlowRetried env fuel (some s) ops N sid st).2.2.1 = out at hfuel hok herr hnb
  cases out with
  | ok a =>
    rcases hok a rfl with h | h
    · subst h
      have : k = 0 := by omega
      simp [this]
    · simp [hle, h]
  | err e =>
    cases e with
    | user u => simp [herr _ rfl (by simp)]
    | ctx c => simp [hle]
    | fw t => simp [herr _ rfl (by simp)]
  | both a e => exact absurd rfl (hnb a e)
  | fuel => exact absurd rfl hfuel

/-- **Bridge theorem for `c02Flow`** (the shape in checkable form).

Hypotheses, and why each is there:
* `hs`, `hprep` — the start node `s` is a leaf with a prep callback: each attempt on a live context begins with exactly
  one prep event of `s`;
* `hops`, `hnotarget` — no connection of the root flow, nor of any flow of the arena, leads to `s`: `s` is not visited a
  second time within an attempt by way of a connection;
* `hnested` — a flow that starts at `s` (the root itself, if it is in the arena, is one) is neither the target of a
  connection nor the start node of a flow: `s` is not visited a second time by way of a nested flow's start;
* `hfuel` — the run did not end `fuel` (what the driver checks; single attempts may).
No hypothesis on cancellation; `cancelFree` is arbitrary. -/
theorem c02Flow_holds (env : Env) (fuel : Nat) (s : NodeId) (ops : List ConnOp) (N : Nat) (sid : StoreId) (st : RunSt)
    (cfg : LeafCfg) (hs : env.arena s = .leaf cfg) (hprep : cfg.prepS ≠ .absent)
    (hops : ∀ c ∈ ops, c.dst ≠ some s)
    (hnotarget : ∀ id start ops', env.arena id = .flow start ops' → ∀ c ∈ ops', c.dst ≠ some s)
    (hnested : ∀ id ops', env.arena id = .flow (some s) ops' →
      (∀ c ∈ ops, c.dst ≠ some id) ∧
      ∀ id' start' ops'', env.arena id' = .flow start' ops'' → start' ≠ some id ∧ ∀ c ∈ ops'', c.dst ≠ some id)
    (hfuel : (runFlowRetried env fuel (some s) ops N sid st).2.2.1 ≠ .fuel)
    (cancelFree : Bool) :
    Spec.c02Flow N s cancelFree
      { trace := Spec.noWaits (runFlowRetried env fuel (some s) ops N sid st).1,
        out := (runFlowRetried env fuel (some s) ops N sid st).2.2.1, store := [] } = true := by
  refine c02Flow_of_shape (Safe := fun id => id ≠ s ∧ ∀ ops', env.arena id ≠ .flow (some s) ops')
    ⟨⟨cfg, hs, hprep⟩, fun h => h.1 rfl, ⟨?_, ?_⟩, tblSafe_buildTable ?_⟩ fuel N sid st hfuel cancelFree []
  · intro id t ops' hid hA
    refine ⟨fun h => hid.2 ops' (h ▸ hA), fun o hB => ?_⟩
    exact ((hnested t o hB).2 id (some t) ops' hA).1 rfl
  · intro id start ops' hid hA c hc d hd
    refine ⟨fun h => hnotarget id start ops' hA c hc (h ▸ hd), fun o hB => ?_⟩
    exact ((hnested d o hB).2 id start ops' hA).2 c hc hd
  · intro c hc d hd
    refine ⟨fun h => hops c hc (h ▸ hd), fun o hB => ?_⟩
    exact (hnested d o hB).1 c hc hd

/-- the statement in the form with a guard on `cancelFree` (whatever the guard says: it is not needed) -/
theorem c02Flow_holds_guarded (env : Env) (fuel : Nat) (s : NodeId) (ops : List ConnOp) (N : Nat) (sid : StoreId)
    (st : RunSt) (cfg : LeafCfg) (hs : env.arena s = .leaf cfg) (hprep : cfg.prepS ≠ .absent)
    (hops : ∀ c ∈ ops, c.dst ≠ some s)
    (hnotarget : ∀ id start ops', env.arena id = .flow start ops' → ∀ c ∈ ops', c.dst ≠ some s)
    (hnested : ∀ id ops', env.arena id = .flow (some s) ops' →
      (∀ c ∈ ops, c.dst ≠ some id) ∧
      ∀ id' start' ops'', env.arena id' = .flow start' ops'' → start' ≠ some id ∧ ∀ c ∈ ops'', c.dst ≠ some id)
    (hfuel : (runFlowRetried env fuel (some s) ops N sid st).2.2.1 ≠ .fuel)
    (cancelFree : Bool) (_hcf : cancelFree = true → (runFlowRetried env fuel (some s) ops N sid st).2.1.ctx = .live) :
    Spec.c02Flow N s cancelFree
      { trace := Spec.noWaits (runFlowRetried env fuel (some s) ops N sid st).1,
        out := (runFlowRetried env fuel (some s) ops N sid st).2.2.1, store := [] } = true :=
  c02Flow_holds env fuel s ops N sid st cfg hs hprep hops hnotarget hnested hfuel cancelFree

/-! ### non-vacuity -/

/-- every node a leaf (all three callbacks present); node 1 succeeds with the default action, node 2 fails in post -/
def exEnv : Env :=
  { kind := .canceled, arena := fun _ => .leaf Ex.cfgPlain,
    leafBeh := fun n _ => if n = 2 then Ex.scrPostFails else Ex.scrOk "",
    batchBeh := fun _ _ => Ex.dummyBatch }

def exOps : List ConnOp := [⟨1, "default", some 2⟩]

/-- the flow 1 → 2 with budget 3: node 2 fails every time, the run fails after exactly 3 attempts (3 prep events of
    node 1) with the last error, and `c02Flow` holds of that observation -/
example :
    (runFlowRetried exEnv 10 (some 1) exOps 3 0 Ex.st0).2.2.2 = 3 ∧
    (runFlowRetried exEnv 10 (some 1) exOps 3 0 Ex.st0).2.2.1 = .err (.user 42) ∧
    Spec.startPreps 1 (runFlowRetried exEnv 10 (some 1) exOps 3 0 Ex.st0).1 = 3 ∧
    Spec.c02Flow 3 1 true
      { trace := Spec.noWaits (runFlowRetried exEnv 10 (some 1) exOps 3 0 Ex.st0).1,
        out := (runFlowRetried exEnv 10 (some 1) exOps 3 0 Ex.st0).2.2.1, store := [] } = true := by decide

/-- the hypotheses of `c02Flow_holds` hold of that scenario -/
example : Spec.c02Flow 3 1 true
      { trace := Spec.noWaits (runFlowRetried exEnv 10 (some 1) exOps 3 0 Ex.st0).1,
        out := (runFlowRetried exEnv 10 (some 1) exOps 3 0 Ex.st0).2.2.1, store := [] } = true :=
  c02Flow_holds exEnv 10 1 exOps 3 0 Ex.st0 Ex.cfgPlain rfl (by decide) (by decide)
    (fun _ _ _ h => by cases h) (fun _ _ h => by cases h) (by decide) true

/-- a mutilated observation — the budget cut short: one attempt only, then the error — is rejected -/
example : Spec.c02Flow 3 1 true
      { trace := Spec.noWaits (runFlowRetried exEnv 10 (some 1) exOps 1 0 Ex.st0).1,
        out := .err (.user 42), store := [] } = false := by decide

/-- … and so are a fourth attempt, and a success without any attempt -/
example : Spec.c02Flow 3 1 true
      { trace := [.prep 1 0 0, .prep 2 0 0, .prep 1 1 0, .prep 2 1 0, .prep 1 2 0, .prep 2 2 0, .prep 1 3 0, .prep 2 3 0],
        out := .err (.user 42), store := [] } = false ∧
    Spec.c02Flow 3 1 true { trace := [], out := .ok "default", store := [] } = false := by decide

/-! ### the driver's guard is not enough: a nested flow that starts at `s` -/

/-- node 2 is a flow that starts at node 1 as well; everything else is a leaf that succeeds -/
def cexEnv : Env :=
  { kind := .canceled,
    arena := fun n => match n with
      | 2 => .flow (some 1) []
      | _ => .leaf Ex.cfgPlain,
    leafBeh := fun _ _ => Ex.scrOk "",
    batchBeh := fun _ _ => Ex.dummyBatch }

/-- **Counterexample to the statement under the driver's guard alone** (`hs`, `hprep`, `hops`, `hnotarget` hold, `hnested`
    does not): root flow `1 -default-> 2` with start node 1, where node 2 is a flow whose start node is 1 too. No
    connection leads to node 1, yet a single attempt visits it twice: budget 1, one attempt, two prep events of node 1,
    and `c02Flow` is false of the model's own observation. -/
theorem guard_insufficient :
    cexEnv.arena 1 = .leaf Ex.cfgPlain ∧ Ex.cfgPlain.prepS ≠ .absent ∧
    (∀ c ∈ exOps, c.dst ≠ some 1) ∧
    (∀ id start ops', cexEnv.arena id = .flow start ops' → ∀ c ∈ ops', c.dst ≠ some 1) ∧
    (runFlowRetried cexEnv 10 (some 1) exOps 1 0 Ex.st0).2.2.1 = .ok "default" ∧
    (runFlowRetried cexEnv 10 (some 1) exOps 1 0 Ex.st0).2.2.2 = 1 ∧
    Spec.startPreps 1 (runFlowRetried cexEnv 10 (some 1) exOps 1 0 Ex.st0).1 = 2 ∧
    Spec.c02Flow 1 1 true
      { trace := Spec.noWaits (runFlowRetried cexEnv 10 (some 1) exOps 1 0 Ex.st0).1,
        out := (runFlowRetried cexEnv 10 (some 1) exOps 1 0 Ex.st0).2.2.1, store := [] } = false := by
  refine ⟨rfl, by decide, by decide, ?_, by decide, by decide, by decide, by decide⟩
  intro id start ops' h
  simp only [cexEnv] at h
  split at h
  · cases h; simp
  · cases h

end Flyt.Props.C02Flow
