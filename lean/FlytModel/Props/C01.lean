import FlytModel.Proofs.L.LeafFacts
import FlytModel.Proofs.L.LeafSpec
import FlytModel.Proofs.L.Flow
import FlytModel.Proofs.L.Visits
/-!
# C01 — Node lifecycle: prep once, exec attempts, post at most once, data threaded

Theorems about `Flyt.runLeaf` (model of `flyt.Run` on a non-batch, non-flow node, flyt.go:681-761)
for EVERY node configuration (`LeafCfg`: retryable or not, any budget, any wait, fallback absent /
pass-through / custom, each phase absent / a method / a Result-style function / an Any-style function),
EVERY callback script (prep ok/err, any sequence of exec outcomes, fallback ok/err, post
ok/err/empty action, any payload, any callback cancelling the context, any interrupted wait), EVERY
context, node id, visit number and store — and, through `runNode`, for every such node run as a step
of a flow of any shape.

`1 ≤ cfg.effBudget` (boundary B4 of DESIGN.md: budgets < 1 are outside the statement) is the only
hypothesis of the readable theorems; the closed form `lifecycle` needs none.
Vocabulary (defined in `Proofs/Attempts.lean`, `Proofs/Leaf.lean`, `Proofs/LeafFacts.lean`):
`LeafRun` every way a run can go · `PhaseEnd` the six ways the exec phase ends · `PostEnd` the post
phase · `preEvs` the prep event of the visit · `PrepDone pv` prep handed `pv` to the exec phase ·
`Produced r` an attempt or the fallback returned `r` without error.
-/
namespace Flyt.Props.C01
open Flyt Flyt.Spec Flyt.Proofs.Attempts Flyt.Proofs.Leaf Flyt.Proofs.LeafSpec Flyt.Proofs.Flow Flyt.Proofs.Visits

/-! ### a concrete scenario for the non-vacuity examples
retryable struct node, budget 3, custom fallback; prep returns token 7, attempts 0 and 1 fail,
attempt 2 returns token 9, post returns the empty action. -/
def exCfg : LeafCfg :=
  { retryable := true, budget := 3, wait := 0, fb := .custom, prepS := .direct, execS := .direct, postS := .direct }

def exScr : LeafScript :=
  { prep := { res := .ok (.tok 7) },
    exec := fun k => if k < 2 then { res := .error k } else { res := .ok (.tok 9) },
    waitCancel := fun _ => false,
    fb := { res := .ok (.tok 5) },
    post := { res := .ok "" } }

/-- the same node when every attempt fails: the fallback produces token 5 -/
def exScrFail : LeafScript := { exScr with exec := fun k => { res := .error k } }

/-- **Closed form of every run (no hypothesis).**  On a live context `runLeaf` does one of: prep fails
    (one prep event, its error) · prep cancels the context (one prep event, the context's error) · prep
    hands over `pv`, the retry loop makes `m ≤ effBudget` exec calls numbered `0..m-1` each with argument
    `execArg execS pv` (only wait events between them, all calls but the last failed), the exec phase ends
    in one of the six `PhaseEnd` ways, and post runs (once, last, with the run's store, `pv` and the
    result) iff that end is `ok`. -/
theorem lifecycle (kind : CtxKind) (n v sid : Nat) (cfg : LeafCfg) (scr : LeafScript) :
    LeafRun kind n v sid cfg scr (runLeaf kind n v sid cfg scr .live).1 (runLeaf kind n v sid cfg scr .live).2.2 :=
  runLeaf_live_spec kind n v sid cfg scr

example : runLeaf .canceled 4 0 1 exCfg exScr .live =
    ([.prep 4 0 1, .exec 4 0 0 (.tok 7), .exec 4 0 1 (.tok 7), .exec 4 0 2 (.tok 7), .post 4 0 1 (.tok 7) (.tok 9)],
     .live, .ok "default") := by decide

/-- **A run on a context that is already done invokes no callback** and returns the context's error. -/
theorem done_context_runs_nothing (kind : CtxKind) (n v sid : Nat) (cfg : LeafCfg) (scr : LeafScript) (k : CtxKind) :
    runLeaf kind n v sid cfg scr (.done k) = ([], .done k, .err (.ctx k)) := rfl

/-- **Prep exactly once, first, with the very store given to the run.**  (A node without prep
    callback — `BaseNode.Prep` — has no prep event at all.) -/
theorem prep_exactly_once (kind : CtxKind) (n v sid : Nat) (cfg : LeafCfg) (scr : LeafScript)
    (hp : cfg.prepS ≠ .absent) :
    ∃ rest, (runLeaf kind n v sid cfg scr .live).1 = .prep n v sid :: rest ∧ ∀ e ∈ rest, isPrepEv e = false := by
  obtain ⟨rest, h1, h2⟩ := (lifecycle kind n v sid cfg scr).prep_first
  exact ⟨rest, by simpa [preEvs, hp] using h1, h2⟩

example : exCfg.prepS ≠ .absent := by decide

/-- **Then only exec attempts, then post at most once**: the events of a run are the prep event,
    then nothing but retry-loop events of this visit (waits, exec attempts), then at most one fallback
    call, then at most one post call, which gets the store of the run. -/
theorem phases_in_order (kind : CtxKind) (n v sid : Nat) (cfg : LeafCfg) (scr : LeafScript) :
    ∃ loop fbs posts, (runLeaf kind n v sid cfg scr .live).1 = preEvs n v sid cfg ++ loop ++ fbs ++ posts ∧
      (∀ e ∈ loop, (∃ k f, e = .wait n v k cfg.effWait f) ∨ (∃ k arg, e = .exec n v k arg)) ∧
      (fbs = [] ∨ ∃ arg er, fbs = [.fb n v arg er]) ∧
      (posts = [] ∨ ∃ a b, posts = [.post n v sid a b]) :=
  (lifecycle kind n v sid cfg scr).phases

/-- **Each exec attempt receives exactly the value prep returned**; the attempts are numbered
    `0, 1, 2, …` and there are at most `effBudget` of them.  (`prepValue` = what `Prep` returned to `Run`
    according to the script; `execArg .direct pv = pv`, for function-style nodes see C17.) -/
theorem exec_receives_prep_value (kind : CtxKind) (n v sid : Nat) (cfg : LeafCfg) (scr : LeafScript) :
    (∀ pv, prepValue cfg scr = some pv → ∃ m, m ≤ cfg.effBudget ∧
      (runLeaf kind n v sid cfg scr .live).1.filter isExecEv =
        (List.range m).map (fun k => Ev.exec n v k (execArg cfg.execS pv))) ∧
    (prepValue cfg scr = none → (runLeaf kind n v sid cfg scr .live).1.filter isExecEv = []) :=
  (lifecycle kind n v sid cfg scr).execs

example : prepValue exCfg exScr = some (.tok 7) ∧ execArg exCfg.execS (.tok 7) = .tok 7 := by decide

/-- **Post runs if and only if the exec phase (an attempt or the fallback) produced a result without
    error; it runs at most once, last, and receives the same store, the prep value and that result.** -/
theorem post_iff_exec_produced (kind : CtxKind) (n v sid : Nat) (cfg : LeafCfg) (scr : LeafScript)
    (hb : 1 ≤ cfg.effBudget) :
    ((∃ s a b, Ev.post n v s a b ∈ (runLeaf kind n v sid cfg scr .live).1) ↔
      cfg.postS ≠ .absent ∧ ∃ r, Produced n v cfg scr (runLeaf kind n v sid cfg scr .live).1 r) ∧
    (∀ s a b, Ev.post n v s a b ∈ (runLeaf kind n v sid cfg scr .live).1 →
      s = sid ∧
      (runLeaf kind n v sid cfg scr .live).1.filter isPostEv = [Ev.post n v s a b] ∧
      (runLeaf kind n v sid cfg scr .live).1.getLast? = some (Ev.post n v s a b) ∧
      ∃ pv r, PrepDone cfg scr pv ∧ Produced n v cfg scr (runLeaf kind n v sid cfg scr .live).1 r ∧
        a = (postArgs cfg.postS pv r).1 ∧ b = (postArgs cfg.postS pv r).2) :=
  (lifecycle kind n v sid cfg scr).post hb

example : 1 ≤ exCfg.effBudget := by decide
-- all attempts fail: the fallback's result (token 5) is what post receives
example : (runLeaf .canceled 4 0 1 exCfg exScrFail .live).1 =
    [.prep 4 0 1, .exec 4 0 0 (.tok 7), .exec 4 0 1 (.tok 7), .exec 4 0 2 (.tok 7),
     .fb 4 0 (.tok 7) (.user 2), .post 4 0 1 (.tok 7) (.tok 5)] := by decide

/-- **The run returns post's action (the default action when post returns the empty action, or when
    the node has no post callback) with a nil error — exactly when the exec phase produced a result and
    post did not fail — or an empty action with a non-nil error; never both, never neither.** -/
theorem outcome_action_xor_error (kind : CtxKind) (n v sid : Nat) (cfg : LeafCfg) (scr : LeafScript)
    (hb : 1 ≤ cfg.effBudget) :
    (∃ a, (runLeaf kind n v sid cfg scr .live).2.2 = .ok a ∧ a ≠ "" ∧
        (∃ r, Produced n v cfg scr (runLeaf kind n v sid cfg scr .live).1 r) ∧
        ((cfg.postS = .absent ∧ a = defaultAction) ∨
         (cfg.postS ≠ .absent ∧ ∃ a', scr.post.res = .ok a' ∧ a = norm a'))) ∨
    (∃ e, (runLeaf kind n v sid cfg scr .live).2.2 = .err e ∧
        ¬ ((∃ r, Produced n v cfg scr (runLeaf kind n v sid cfg scr .live).1 r) ∧
           (cfg.postS = .absent ∨ ∃ a', scr.post.res = .ok a'))) :=
  (lifecycle kind n v sid cfg scr).outcome hb

/-- … in particular the outcome is never `(action, error)` and never the model's fuel marker. -/
theorem outcome_never_both (kind : CtxKind) (n v sid : Nat) (cfg : LeafCfg) (scr : LeafScript) (ctx : Ctx) :
    (∀ a e, (runLeaf kind n v sid cfg scr ctx).2.2 ≠ .both a e) ∧ (runLeaf kind n v sid cfg scr ctx).2.2 ≠ .fuel ∧
    (runLeaf kind n v sid cfg scr ctx).2.2 ≠ .ok "" := by
  cases ctx with
  | done k => simp [runLeaf]
  | live =>
    rcases (lifecycle kind n v sid cfg scr).ok_or_err with ⟨a, h, ha⟩ | ⟨e, h⟩
    · rw [h]; simpa using ha
    · rw [h]; simp

/-! ### all node kinds -/

/-- a node that does not implement `RetryableNode` (a plain `Node` implementation) has budget 1: the
    hypothesis `1 ≤ effBudget` holds for it whatever it is; for retryable nodes (structs embedding
    `BaseNode`, `CustomNode`s, builders) it says `GetMaxRetries() ≥ 1`. -/
theorem budget_hypothesis (cfg : LeafCfg) : 1 ≤ cfg.effBudget ↔ (cfg.retryable = false ∨ 1 ≤ cfg.budget) := by
  unfold LeafCfg.effBudget
  cases cfg.retryable <;> simp

/-! ### inside a flow -/

/-- **A node run as a step of a flow (or as the root) goes through exactly the same lifecycle**:
    `Run` on a leaf of the arena is `runLeaf` with the node's id, its visit number, the flow's store
    and the current context — so every theorem above applies to every step of every flow. -/
theorem inside_flow (env : Env) (fuel : Nat) (id : NodeId) (sid : StoreId) (st : RunSt) (cfg : LeafCfg)
    (h : env.arena id = .leaf cfg) :
    (runNode env (fuel + 1) id sid st).1 =
      (runLeaf env.kind id (st.visits id) sid cfg (env.leafBeh id (st.visits id)) st.ctx).1 ∧
    (runNode env (fuel + 1) id sid st).2.2 =
      (runLeaf env.kind id (st.visits id) sid cfg (env.leafBeh id (st.visits id)) st.ctx).2.2 ∧
    (runNode env (fuel + 1) id sid st).2.1.ctx =
      (runLeaf env.kind id (st.visits id) sid cfg (env.leafBeh id (st.visits id)) st.ctx).2.1 := by
  rw [runNode_leaf env fuel id sid st cfg h]
  exact ⟨rfl, rfl, rfl⟩

theorem lifecycle_inside_flow (env : Env) (fuel : Nat) (id : NodeId) (sid : StoreId) (st : RunSt) (cfg : LeafCfg)
    (h : env.arena id = .leaf cfg) (hl : st.ctx = .live) :
    LeafRun env.kind id (st.visits id) sid cfg (env.leafBeh id (st.visits id))
      (runNode env (fuel + 1) id sid st).1 (runNode env (fuel + 1) id sid st).2.2 := by
  obtain ⟨h1, h2, _⟩ := inside_flow env fuel id sid st cfg h
  rw [h1, h2, hl]
  exact lifecycle _ _ _ _ _ _

/-- **The trace of a run of any node — a flow of any shape, nested to any depth, with loops — is a
    sequence of visits, and each visit of a plain / function-style node is literally a standalone run
    of that node** (`runLeaf` on a live context with the node's id, its visit number, that visit's
    script and the flow's store): prep once, exec attempts, post at most once, as proved above.
    (`VisitSeq`, Proofs/Visits.lean; `st.visits` = how often each node has been visited before.) -/
theorem flow_trace_is_visits (env : Env) (fuel : Nat) (id : NodeId) (sid : StoreId) (st : RunSt) :
    VisitSeq env sid st.visits (runNode env fuel id sid st).2.1.visits (runNode env fuel id sid st).1 :=
  (run_visits env sid fuel).1 id st

def exEnv : Env :=
  { kind := .canceled,
    arena := fun id => if id = 0 then .flow (some 1) [⟨1, "default", some 2⟩] else .leaf exCfg,
    leafBeh := fun id _ => if id = 1 then exScr else exScrFail,
    batchBeh := fun _ _ => { prep := { res := .ok [] }, item := fun _ => ⟨fun _ => { res := .ok (.tok 0) }, fun _ => false, { res := .ok (.tok 0) }⟩, post := { res := .ok "" } } }

-- a flow 1 → 2: both steps go through the lifecycle, the second one with its fallback
example : (runNode exEnv 5 0 1 { ctx := .live, visits := fun _ => 0 }).1 =
    [.prep 1 0 1, .exec 1 0 0 (.tok 7), .exec 1 0 1 (.tok 7), .exec 1 0 2 (.tok 7), .post 1 0 1 (.tok 7) (.tok 9),
     .prep 2 0 1, .exec 2 0 0 (.tok 7), .exec 2 0 1 (.tok 7), .exec 2 0 2 (.tok 7), .fb 2 0 (.tok 7) (.user 2),
     .post 2 0 1 (.tok 7) (.tok 5)] := by decide

/-! ### bridge to the executable predicates the driver evaluates (`Spec.c01Visit`, `Spec.c01Outcome`)

`PrepCancelVisible`: the predicates read "no exec event" as "exec phase skipped with result nil" for
nodes without exec phase; a prep that cancels the context of such a node is outside their domain. -/

theorem c01Visit_bridge (kind : CtxKind) (n v : Nat) (cfg : LeafCfg) (scr : LeafScript)
    (hA : PrepCancelVisible cfg scr) :
    c01Visit cfg scr n v (runLeaf kind n v 0 cfg scr .live).1 = true :=
  c01Visit_of_leafRun (lifecycle kind n v 0 cfg scr) hA

theorem c01Outcome_bridge (kind : CtxKind) (n v : Nat) (cfg : LeafCfg) (scr : LeafScript)
    (hA : PrepCancelVisible cfg scr) :
    c01Outcome cfg scr (runLeaf kind n v 0 cfg scr .live).1 (runLeaf kind n v 0 cfg scr .live).2.2 = true :=
  c01Outcome_of_leafRun (lifecycle kind n v 0 cfg scr) hA

example : PrepCancelVisible exCfg exScr ∧ PrepCancelVisible exCfg exScrFail := by
  unfold PrepCancelVisible; decide

/-- **… and inside flows: every group `Spec.segments` cuts the (wait-free) trace of a run of any node
    into — which is how the driver applies `c01Visit` — that belongs to a plain / function-style node
    satisfies the predicate**, whatever the flow's shape, nesting and routing. -/
theorem c01Visit_flow_bridge (env : Env) (fuel : Nat) (root : NodeId) (st : RunSt)
    (hA : ∀ n v cfg, env.arena n = .leaf cfg → PrepCancelVisible cfg (env.leafBeh n v)) :
    ∀ p ∈ segments (noWaits (runNode env fuel root 0 st).1), ∀ cfg, env.arena p.1.1 = .leaf cfg →
      c01Visit cfg (env.leafBeh p.1.1 p.1.2) p.1.1 p.1.2 p.2 = true := by
  intro p hp cfg hcfg
  rcases (flow_trace_is_visits env fuel root 0 st).segments_mem p hp with ⟨cfg', ha, hseg⟩ | ⟨cfg', ha⟩
  · rw [hcfg] at ha; cases ha
    rw [hseg, c01Visit_noWaits]
    exact c01Visit_bridge env.kind p.1.1 p.1.2 cfg _ (hA _ _ cfg hcfg)
  · rw [hcfg] at ha; cases ha

example : ∀ n v cfg, exEnv.arena n = .leaf cfg → PrepCancelVisible cfg (exEnv.leafBeh n v) := by
  intro n v cfg h
  have hc : cfg = exCfg := by
    simp only [exEnv] at h
    split at h <;> simp at h
    exact h.symm
  subst hc
  simp only [exEnv]
  split <;> (unfold PrepCancelVisible; decide)

/-- a node run on its own whose trace is not empty: the driver sees exactly one group, the run itself -/
theorem root_leaf_single_segment (kind : CtxKind) (n v sid : Nat) (cfg : LeafCfg) (scr : LeafScript)
    (hne : noWaits (runLeaf kind n v sid cfg scr .live).1 ≠ []) :
    segments (noWaits (runLeaf kind n v sid cfg scr .live).1) = [((n, v), noWaits (runLeaf kind n v sid cfg scr .live).1)] := by
  have := segments_append_uniform (n, v) _ [] hne
    (fun e he => (lifecycle kind n v sid cfg scr).keys e (List.mem_filter.mp he).1) (by simp)
  simpa [segments] using this

end Flyt.Props.C01
