import FlytModel.Proofs.L.Flow
import FlytModel.Proofs.SpecC18
import FlytModel.Proofs.CancelFree
/-!
# C18 — A successful run never yields the empty action, for any node kind

Theorems about `Flyt.runNode` / `Flyt.flowLoop` (model of `flyt.Run` and `Flow.Exec`, flyt.go:681-915,
batch.go:156-229) for EVERY arena of nodes (plain / function-style leaves of every configuration, batch
nodes of every configuration — every prep shape, any number of items including none, any concurrency,
stop or continue mode — and flows nested to any depth, with any connection list), EVERY behaviour
script, EVERY context and visit counters, EVERY fuel.  No hypothesis.
-/
namespace Flyt.Props.C18
open Flyt Flyt.Spec Flyt.Proofs.Flow

/-! ### scenario for the non-vacuity examples: flow 0 = leaf 1 —default→ empty batch 2 —default→ leaf 3,
every post returns the empty action -/
def exLeaf : LeafCfg :=
  { retryable := false, budget := 0, wait := 0, fb := .absent, prepS := .direct, execS := .direct, postS := .direct }
def exBatch : BatchCfg :=
  { budget := 1, wait := 0, fb := .passThrough, conc := 2, stop := false, execS := .any, hasPost := true, shape := .anys }
def exLeafScr : LeafScript :=
  { prep := { res := .ok (.tok 1) }, exec := fun _ => { res := .ok (.tok 2) }, waitCancel := fun _ => false,
    fb := { res := .ok (.tok 3) }, post := { res := .ok "" } }
def exBatchScr : BatchScript :=
  { prep := { res := .ok [] }, post := { res := .ok "" },
    item := fun _ => { exec := fun _ => { res := .ok (.tok 4) }, waitCancel := fun _ => false, fb := { res := .ok (.tok 5) } } }
def exEnv : Env :=
  { kind := .canceled,
    arena := fun id =>
      if id = 0 then .flow (some 1) [⟨1, "default", some 2⟩, ⟨2, "default", some 3⟩]
      else if id = 2 then .batch exBatch else .leaf exLeaf,
    leafBeh := fun _ _ => exLeafScr, batchBeh := fun _ _ => exBatchScr }
def exSt : RunSt := { ctx := .live, visits := fun _ => 0 }

/-- **Whenever a run succeeds, the action it reports is non-empty** — for a plain node, a
    function-style node, a batch node (also one whose prep produced no items), and a flow used as a
    node, run directly or as a step of a flow nested to any depth. -/
theorem success_action_nonempty (env : Env) (fuel : Nat) (id : NodeId) (sid : StoreId) (st : RunSt) (a : Action)
    (h : (runNode env fuel id sid st).2.2 = .ok a) : a ≠ "" := by
  have := (run_good env fuel).1 id sid st
  rw [h] at this
  exact this

-- every post of the example returns "", the run of the flow reports "default"
example : (runNode exEnv 6 0 0 exSt).2.2 = .ok "default" := by decide

/-- … and a run never reports an action together with an error. -/
theorem never_action_and_error (env : Env) (fuel : Nat) (id : NodeId) (sid : StoreId) (st : RunSt) (a : Action)
    (e : ErrRoot) : (runNode env fuel id sid st).2.2 ≠ .both a e := by
  intro h
  have := (run_good env fuel).1 id sid st
  rw [h] at this
  exact this

/-- the same for the loop of `Flow.Exec` started at any node with any table: the action a flow ends
    with (and hands to `Flow.Post`) is non-empty -/
theorem flow_exec_action_nonempty (env : Env) (fuel : Nat) (tbl : Table) (cur : NodeId) (sid : StoreId) (st : RunSt)
    (a : Action) (h : (flowLoop env fuel tbl cur sid st).2.2 = .ok a) : a ≠ "" := by
  have := (run_good env fuel).2 tbl cur sid st
  rw [h] at this
  exact this

/-- **An empty action from the post phase is reported as the default action** (plain and
    function-style nodes): a successful run reports `norm` of what post returned, `norm "" = "default"`. -/
theorem leaf_reports_normalised (kind : CtxKind) (n v sid : Nat) (cfg : LeafCfg) (scr : LeafScript) (ctx : Ctx)
    (a : Action) (h : (runLeaf kind n v sid cfg scr ctx).2.2 = .ok a) :
    (cfg.postS = .absent ∧ a = defaultAction) ∨ (∃ a', scr.post.res = .ok a' ∧ a = norm a') := by
  cases ctx with
  | done k => simp [runLeaf] at h
  | live =>
    have hs := Flyt.Proofs.Leaf.runLeaf_live_spec kind n v sid cfg scr
    rw [h] at hs
    generalize (runLeaf kind n v sid cfg scr .live).1 = evs at hs
    cases hs with
    | ran _ _ _ _ _ _ _ hpost =>
      cases hpost with
      | noPost hps => exact Or.inl ⟨hps, rfl⟩
      | postOk _ hr => exact Or.inr ⟨_, hr, rfl⟩

theorem norm_empty : norm "" = defaultAction ∧ defaultAction = "default" := by decide

/-- **… uniformly for batch nodes, including a batch whose prep produced no items.** -/
theorem batch_reports_normalised (kind : CtxKind) (n v sid : Nat) (cfg : BatchCfg) (scr : BatchScript) (ctx : Ctx)
    (a : Action) (h : (runBatch kind n v sid cfg scr ctx).2.2 = .ok a) :
    (cfg.hasPost = false ∧ a = defaultAction) ∨ (∃ a', scr.post.res = .ok a' ∧ a = norm a') := by
  unfold runBatch at h
  cases hp : scr.prep.res with
  | error e => simp [hp] at h
  | ok l =>
    simp only [hp] at h
    cases hpost : scr.post.res with
    | error e =>
      cases hh : cfg.hasPost <;> cases he : (normItems cfg.shape l).isEmpty <;>
        simp [hpost, hh, he] at h <;> simp [← h, defaultAction]
    | ok a' =>
      cases hh : cfg.hasPost <;> cases he : (normItems cfg.shape l).isEmpty <;>
        simp [hpost, hh, he] at h <;> simp [← h, defaultAction]

-- the empty batch of the example: prep returns no items, post returns "", the run reports "default"
example : runBatch .canceled 2 0 0 exBatch exBatchScr .live =
    ([.bprep 2 0 0, .bpost 2 0 0 [] []], .live, .ok "default") := by decide

/-- **… and for a flow used as a node**: it reports `norm` of the action its last node returned. -/
theorem flow_reports_normalised (env : Env) (fuel : Nat) (id : NodeId) (sid : StoreId) (st : RunSt)
    (start : Option NodeId) (ops : List ConnOp) (harena : env.arena id = .flow start ops) (a : Action)
    (h : (runNode env (fuel + 1) id sid st).2.2 = .ok a) :
    ∃ s a', start = some s ∧ (flowLoop env fuel (buildTable ops) s sid st).2.2 = .ok a' ∧ a = norm a' := by
  unfold runNode at h
  rw [harena] at h
  simp only [] at h
  split at h
  · simp at h
  · split at h
    · simp at h
    · rename_i s
      split at h
      · rename_i evs st' a' hfl
        simp at h
        exact ⟨s, a', rfl, by rw [hfl], h.symm⟩
      · rename_i hr
        exact (hr _ _ a (Prod.ext rfl (Prod.ext rfl h))).elim

/-- **So a connection on the default action is always followed**: when the current node of a flow
    succeeds with action `a` (non-empty by the theorems above; `"default"` when its post returned `""`)
    and the table has a successor for `(cur, a)`, `Flow.Exec` goes on with that successor. -/
theorem successor_followed (env : Env) (fuel : Nat) (tbl : Table) (cur nxt : NodeId) (sid : StoreId) (st st' : RunSt)
    (evs : List Ev) (a : Action) (hl : st.ctx = .live)
    (hrun : runNode env fuel cur sid st = (evs, st', .ok a))
    (hnext : tableLookup tbl cur a = some (some nxt)) :
    a ≠ "" ∧
    flowLoop env (fuel + 1) tbl cur sid st =
      (evs ++ (flowLoop env fuel tbl nxt sid st').1, (flowLoop env fuel tbl nxt sid st').2.1,
       (flowLoop env fuel tbl nxt sid st').2.2) := by
  constructor
  · exact success_action_nonempty env fuel cur sid st a (by rw [hrun])
  · rw [flowLoop]
    simp only [hl, hrun, hnext]

/-- a leaf whose post returned the empty action, inside a flow that connects it on `"default"`: the
    successor runs -/
theorem default_connection_followed (env : Env) (fuel : Nat) (tbl : Table) (cur nxt : NodeId) (sid : StoreId)
    (st : RunSt) (cfg : LeafCfg) (hl : st.ctx = .live) (harena : env.arena cur = .leaf cfg)
    (hpost : (env.leafBeh cur (st.visits cur)).post.res = .ok "") (hps : cfg.postS ≠ .absent)
    (a : Action) (hok : (runNode env (fuel + 1) cur sid st).2.2 = .ok a)
    (hnext : tableLookup tbl cur defaultAction = some (some nxt)) :
    a = defaultAction ∧
    (flowLoop env (fuel + 2) tbl cur sid st).1 =
      (runNode env (fuel + 1) cur sid st).1 ++
        (flowLoop env (fuel + 1) tbl nxt sid (runNode env (fuel + 1) cur sid st).2.1).1 := by
  have ha : a = defaultAction := by
    rw [runNode_leaf env fuel cur sid st cfg harena] at hok
    rcases leaf_reports_normalised _ _ _ _ _ _ _ a hok with ⟨h, _⟩ | ⟨a', h1, h2⟩
    · exact absurd h hps
    · rw [hpost] at h1; cases h1; rw [h2]; rfl
  subst ha
  refine ⟨rfl, ?_⟩
  have := (successor_followed env (fuel + 1) tbl cur nxt sid st (runNode env (fuel + 1) cur sid st).2.1
    (runNode env (fuel + 1) cur sid st).1 defaultAction hl (Prod.ext rfl (Prod.ext rfl hok)) hnext).2
  rw [this]

-- the hypotheses of `default_connection_followed` on the example: leaf 1 is connected on "default" to the
-- (empty) batch 2, its post returns ""
example : exSt.ctx = .live ∧ exEnv.arena 1 = .leaf exLeaf ∧ (exEnv.leafBeh 1 (exSt.visits 1)).post.res = .ok "" ∧
    exLeaf.postS ≠ .absent ∧ (runNode exEnv 4 1 0 exSt).2.2 = .ok "default" ∧
    tableLookup (buildTable [⟨1, "default", some 2⟩, ⟨2, "default", some 3⟩]) 1 defaultAction = some (some 2) :=
  ⟨rfl, rfl, rfl, by decide, by decide, by decide⟩

-- in the example flow both connections are on "default" and every post returns "": all three nodes run
example : ((runNode exEnv 6 0 0 exSt).1.map Spec.evKey).eraseDups = [(1, 0), (2, 0), (3, 0)] := by decide

/-! ### bridge: the predicate the driver evaluates (`Spec.c18`) on the model's observation -/

theorem c18_bridge (env : Env) (fuel : Nat) (root : NodeId) (sid : StoreId) (st : RunSt) (tr : List Ev) (store : List Nat) :
    Spec.c18 { trace := tr, out := (runNode env fuel root sid st).2.2, store := store } = true :=
  (good_iff_c18 _ tr store).mp ((run_good env fuel).1 root sid st)

/-! ### bridge: C18's last clause as the driver evaluates it (`Spec.c18Followed`) on the model's observation -/

open Flyt.Proofs in
/-- **A connection is always followed — on ANY action, in particular the default one**: in a run of a flat flow
    without cancellation, a visit `(n, v)` (position `i` of the visit sequence of the trace) that returns action
    `a` with `(n, a)` connected to `d` is followed by a visit of `d`. -/
theorem connections_followed (env : Env) (hcf : CancelFree env)
    (hprep : ∀ n cfg, env.arena n = .leaf cfg → cfg.prepS ≠ .absent)
    (fuel : Nat) (root : NodeId) (st : RunSt) (hlive : st.ctx = .live)
    (hfuel : (runNode env fuel root 0 st).2.2 ≠ .fuel)
    {s ops} (hA : env.arena root = .flow (some s) ops) (hflat : Spec.isFlatFlow env ops s = true) :
    FollowedKeys env ops (Spec.visitSeq (Spec.noWaits (runNode env fuel root 0 st).1)) := by
  have hb := big_of_runNode (st' := (runNode env fuel root 0 st).2.1) rfl hfuel
  obtain ⟨hlt, hF⟩ := flat_run_keys env fuel root st hprep hlive rfl hfuel (big_cancelFree hb hcf) hA hflat
  have := specPath_followed env ops ((Spec.visitSeq (Spec.noWaits (runNode env fuel root 0 st).1)).length + 1) s st.visits
    (by rw [hF _ (Nat.le_succ _)]; exact Nat.lt_succ_self _)
  rwa [hF _ (Nat.le_succ _)] at this

open Flyt.Proofs in
/-- **`Spec.c18Followed` holds of the model's own observation** of a run on a live context, store 0, without
    cancellation (`CancelFree env`: what the driver computes), with enough fuel, whenever every leaf of the arena
    has a prep callback (as for `Spec.c03`: a node without any callback leaves no event, so its visit cannot be
    seen in the trace — see the example below; generated flows satisfy this).  `storeOf`: whatever the driver
    records as the store log (`storeLog` in `Driver.FlowFam.obsOf`). -/
theorem c18Followed_bridge (env : Env) (hcf : CancelFree env)
    (hprep : ∀ n cfg, env.arena n = .leaf cfg → cfg.prepS ≠ .absent)
    (fuel : Nat) (root : NodeId) (st : RunSt) (hlive : st.ctx = .live)
    (hfuel : (runNode env fuel root 0 st).2.2 ≠ .fuel) (storeOf : List Ev → List Nat) :
    Spec.c18Followed env root (obsWith storeOf (runNode env fuel root 0 st)) = true :=
  have hb := big_of_runNode (st' := (runNode env fuel root 0 st).2.1) rfl hfuel
  spec_c18Followed_of_run env fuel root st hprep hlive rfl hfuel (big_cancelFree hb hcf) _

-- the hypotheses on the example (1 —default→ 2 —default→ 3, every post returns ""), and the interesting branch:
-- all three visits return the default action, the two connections on it are followed, the last visit has none
example : Flyt.Proofs.CancelFree exEnv :=
  ⟨fun _ _ => ⟨rfl, fun _ => rfl, fun _ => rfl, rfl, rfl⟩, fun _ _ => ⟨rfl, rfl, fun _ => ⟨fun _ => rfl, fun _ => rfl, rfl⟩⟩⟩
example : ∀ n cfg, exEnv.arena n = .leaf cfg → cfg.prepS ≠ .absent := by
  intro n cfg h
  simp only [exEnv] at h
  split at h
  · cases h
  · split at h <;> cases h
    simp [exLeaf]
example : Spec.isFlatFlow exEnv [⟨1, "default", some 2⟩, ⟨2, "default", some 3⟩] 1 = true ∧
    Spec.visitSeq (Flyt.Proofs.obsWith Flyt.Proofs.storeLog (runNode exEnv 6 0 0 exSt)).trace = [(1, 0), (2, 0), (3, 0)] ∧
    ([(1, 0), (2, 0), (3, 0)].map fun p => Spec.visitAction exEnv p.1 p.2) = [some "default", some "default", some "default"] ∧
    Spec.c18Followed exEnv 0 (Flyt.Proofs.obsWith Flyt.Proofs.storeLog (runNode exEnv 6 0 0 exSt)) = true := by decide
-- the predicate is not trivially true: it rejects a trace in which the batch node 2 was skipped, and one that
-- stops after node 1
example : Spec.c18Followed exEnv 0 ⟨[.prep 1 0 0, .post 1 0 0 (.tok 1) (.tok 2), .prep 3 0 0], .ok "default", []⟩ = false ∧
    Spec.c18Followed exEnv 0 ⟨[.prep 1 0 0, .post 1 0 0 (.tok 1) (.tok 2)], .ok "default", []⟩ = false := by decide

/-- the same flow with a node 2 that has no callback at all: its visit leaves no event -/
def exEnvSilent : Env :=
  { exEnv with
    arena := fun id =>
      if id = 0 then .flow (some 1) [⟨1, "default", some 2⟩, ⟨2, "default", some 3⟩]
      else if id = 2 then .leaf { exLeaf with prepS := .absent, execS := .absent, postS := .absent } else .leaf exLeaf }

-- why `hprep` is needed: the model does follow both connections (node 3, reachable through node 2 only, runs),
-- but the visit of the silent node 2 is invisible in the trace, so the predicate — which sees 1 followed by 3 —
-- is false on the model's observation
example : Spec.visitSeq (runNode exEnvSilent 6 0 0 exSt).1 = [(1, 0), (3, 0)] ∧
    Spec.c18Followed exEnvSilent 0 (Flyt.Proofs.obsWith Flyt.Proofs.storeLog (runNode exEnvSilent 6 0 0 exSt)) = false := by
  decide

end Flyt.Props.C18
