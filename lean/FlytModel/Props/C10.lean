import FlytModel.Proofs.Flatten
import FlytModel.Proofs.Path
import FlytModel.Proofs.ExampleEnv
/-!
# C10 — A flow used as a node behaves like a node

Theorems about `runNode` / `flowLoop` (`Model/Flow.lean`, the model of `flyt.Run` and `Flow.Exec`) for EVERY
arena (any nesting depth, inner flows shared between several places), every behaviour, every run state
and every fuel that does not run out.
-/
namespace Flyt.Props.C10
open Flyt Flyt.Proofs

/-- **Flattening theorem (iii).**  Whatever the recursive semantics computes — callback events in order,
    final run state (context + visit counters) and outcome — is computed by the flattened stack machine
    `Flat.run` (frames = (connections, current node); no recursion), for every sufficiently large step
    budget.  Any arena, any nesting depth, any behaviour, any initial context. -/
theorem flattening (env : Env) (fuel : Nat) (root : NodeId) (sid : StoreId) (st : RunSt)
    (hfuel : (runNode env fuel root sid st).2.2 ≠ .fuel) :
    ∃ n, ∀ m, n ≤ m → Flat.run env m root sid st = runNode env fuel root sid st := by
  have hb : Big env sid (.node root) st (runNode env fuel root sid st).1 (runNode env fuel root sid st).2.1
      (runNode env fuel root sid st).2.2 := big_of_runNode rfl hfuel
  exact flat_run_of_big hb

example : (runNode Ex.env1 10 0 7 Ex.st0).2.2 = .ok "again" ∧
    (Flat.run Ex.env1 40 0 7 Ex.st0).1 = (runNode Ex.env1 10 0 7 Ex.st0).1 ∧
    (Flat.run Ex.env1 40 0 7 Ex.st0).2.2 = .ok "again" ∧
    ((runNode Ex.env1 10 0 7 Ex.st0).1.map Spec.evKey).eraseDups = [(1, 0), (4, 0), (5, 0), (3, 0)] := by decide

/-- … in the form the driver evaluates (`Spec.c10` on the two observations, whatever projection `obs` of
    a result the driver compares). -/
theorem spec_c10 (obs : List Ev × RunSt × Outcome → Spec.RunObs) (env : Env) (fuel : Nat) (root : NodeId)
    (sid : StoreId) (st : RunSt) (hfuel : (runNode env fuel root sid st).2.2 ≠ .fuel) :
    ∃ n, ∀ m, n ≤ m →
      Spec.c10 (obs (runNode env fuel root sid st)) (obs (Flat.run env m root sid st)) = true := by
  obtain ⟨n, hn⟩ := flattening env fuel root sid st hfuel
  exact ⟨n, fun m hm => by rw [hn m hm]; simp [Spec.c10]⟩

example : Spec.c10 ⟨(runNode Ex.envFail 10 0 7 Ex.st0).1, (runNode Ex.envFail 10 0 7 Ex.st0).2.2, []⟩
    ⟨(Flat.run Ex.envFail 40 0 7 Ex.st0).1, (Flat.run Ex.envFail 40 0 7 Ex.st0).2.2, []⟩ = true ∧
    (runNode Ex.envFail 10 0 7 Ex.st0).2.2 = .err (.user 42) := by decide

/-- **(i) A flow run as a node.**  `flyt.Run` on a flow node (on a live context) runs the flow's own loop from
    its own start node on the SAME store `sid` and the same run state; it returns an action iff the loop does, and
    then presents the loop's last action, normalised (`"" ↦ "default"`) like any node's action; an error of the
    inner flow is passed through unchanged (not swallowed, not re-rooted). -/
theorem nested_flow_presents_inner_result (env : Env) (f : Nat) (id : NodeId) (sid : StoreId) (st : RunSt)
    {s ops} (hA : env.arena id = .flow (some s) ops) (hlive : st.ctx = .live) (evs : List Ev) (st' : RunSt) :
    (∀ a, runNode env (f + 1) id sid st = (evs, st', .ok a) ↔
      ∃ a', flowLoop env f (buildTable ops) s sid st = (evs, st', .ok a') ∧ a = norm a') ∧
    (∀ e, runNode env (f + 1) id sid st = (evs, st', .err e) ↔
      flowLoop env f (buildTable ops) s sid st = (evs, st', .err e)) := by
  simp only [runNode, hA, hlive]
  cases hl : flowLoop env f (buildTable ops) s sid st with
  | mk evs1 p =>
    obtain ⟨st1, r1⟩ := p
    cases r1 <;> simp <;> grind

/-- … where the inner flow's last action is the action returned by the last node it executed, and the inner
    flow stopped there because that node has no (non-nil) connection for it.  The parent then routes on the
    presented action with the very same `next` lookup it uses for a leaf (`IsPath`, C03). -/
theorem inner_action_is_last_nodes_action (env : Env) (fuel : Nat) (id : NodeId) (sid : StoreId) (st : RunSt)
    {s ops evs st' a} (hA : env.arena id = .flow (some s) ops)
    (h : runNode env fuel id sid st = (evs, st', .ok a)) :
    ∃ (vs : List Visit) (v : Visit) (a' : Action), IsPath ops s st vs st' (.ok a') ∧ evs = vs.flatMap (·.evs) ∧
      vs.getLast? = some v ∧ v.Genuine env sid ∧ v.out = .ok a' ∧ a = norm a' ∧
      (∀ nxt, next ops v.node a' ≠ some (some nxt)) := by
  obtain ⟨vs, hp, he, hg⟩ : ∃ vs, (∃ a', IsPath ops s st vs st' (.ok a') ∧ a = norm a') ∧
      evs = vs.flatMap (·.evs) ∧ ∀ v ∈ vs, Big env sid (.node v.node) v.pre v.evs v.post v.out := by
    have hb := big_of_runNode h (by simp)
    cases hb with
    | leaf hA' _ => rw [hA] at hA'; cases hA'
    | batch hA' _ => rw [hA] at hA'; cases hA'
    | flowOk hA' _ hl =>
      rw [hA] at hA'; cases hA'
      obtain ⟨vs, hp, he, hg⟩ := path_of_big hl
      exact ⟨vs, ⟨_, hp, rfl⟩, he, hg⟩
    | flowFail hA' _ hl hne => exact absurd rfl (hne _)
  obtain ⟨a', hp, rfl⟩ := hp
  obtain ⟨v, hl, ho, _, hn⟩ := isPath_ok_last hp
  obtain ⟨hr, f, hf⟩ := run_of_big (hg v (List.mem_of_getLast? hl))
  exact ⟨vs, v, a', hp, he, hl, ⟨f, hf, hr⟩, ho, rfl, hn⟩

example : (runNode Ex.env1 10 2 7 Ex.st0).2.2 = .ok "y" ∧
    (runNode Ex.env1 10 5 7 (runNode Ex.env1 10 4 7 Ex.st0).2.1).2.2 = .ok "y" ∧
    next [⟨4, "x", some 5⟩] 5 "y" = none := by decide

/-- **(ii) One shared store.**  Every callback that receives a store (prep / post of leaves and batch nodes),
    at every nesting depth, receives the store `sid` that was handed to the outermost `Run`. -/
theorem same_store_everywhere (env : Env) (fuel : Nat) (root : NodeId) (sid : StoreId) (st : RunSt) {evs st' out}
    (h : runNode env fuel root sid st = (evs, st', out)) (hfuel : out ≠ .fuel) :
    ∀ e ∈ evs, evSid e = none ∨ evSid e = some sid := by
  intro e he
  obtain ⟨n, v, ⟨cfg, _, hl⟩ | ⟨cfg, _, hb⟩⟩ := big_events (big_of_runNode h hfuel) e he
  · exact hl.sid
  · exact hb.sid

example : ((runNode Ex.env1 10 0 7 Ex.st0).1.filterMap evSid).eraseDups = [7] := by decide

end Flyt.Props.C10
