import FlytModel.Proofs.BatchSeq
import FlytModel.Proofs.BatchConc
import FlytModel.Proofs.BatchBridge
/-!
# C07 — Batch processes every item exactly once, with per-item retry and fallback

Continue mode (`stop = false`, the default). Sequential / serial layer: closed form of the whole item phase,
for all item lists and scripts. Concurrent layer: every reachable state of the LTS, every schedule.
-/
namespace Flyt.Props.C07
open Flyt Flyt.BatchSeq

/-! ## sequential execution and the serial schedule of the pool -/

/-- **Every item exactly once, in order, each on its own.** In continue mode, when no callback cancels the
    context, the trace of a batch run (any concurrency setting of `runBatch`) is: prep, then for item 0, 1, 2, …
    exactly the events of `runItem` on that item's own script from a live context — none skipped, none
    repeated, whatever the other items do — then one post carrying each item's own outcome in its slot. -/
theorem every_item_once (kind : CtxKind) (n : NodeId) (v : Nat) (sid : StoreId) (cfg : BatchCfg) (scr : BatchScript)
    (l : List Val) (hs : cfg.stop = false) (hq : ∀ j, Quiet (scr.item j)) (hp : scr.prep.res = .ok l)
    (hpc : scr.prep.cancels = false) (hpost : cfg.hasPost = true) :
    (runBatch kind n v sid cfg scr .live).1 =
      .bprep n v sid :: (itemRuns kind n v cfg scr (normItems cfg.shape l) 0).flatMap (·.1) ++
        [.bpost n v sid ((normItems cfg.shape l).map Result.box)
          (((itemRuns kind n v cfg scr (normItems cfg.shape l) 0).map (fun r => slotOfRes r.2.2)).map Result.box)] ∧
    ∀ j, (itemRuns kind n v cfg scr (normItems cfg.shape l) 0)[j]? =
      (normItems cfg.shape l)[j]?.map fun it => runItem kind n v cfg j it (scr.item j) .live := by
  constructor
  · rw [runBatch_ok kind n v cfg scr sid .live hp]
    simp only [hpc, Ctx.after, hpost, if_true, Bool.false_eq_true, if_false]
    rw [itemsSeq_continue kind n v cfg scr hs hq]
  · intro j; simpa using itemRuns_getElem? kind n v cfg scr (normItems cfg.shape l) 0 j

/-- **A failing item never prevents, repeats or alters another item's processing.** Two behaviours that agree
    on item `j`'s script (and differ arbitrarily on all other items — failing, succeeding, retrying) give item
    `j` exactly the same events and the same slot. -/
theorem item_independent_of_others (kind : CtxKind) (n : NodeId) (v : Nat) (cfg : BatchCfg) (scr scr' : BatchScript)
    (hs : cfg.stop = false) (hq : ∀ j, Quiet (scr.item j)) (hq' : ∀ j, Quiet (scr'.item j))
    (items : List Result) (j : Nat) (hj : scr.item j = scr'.item j) :
    itemEvents j (itemsSeq kind n v cfg scr items 0 .live).1 = itemEvents j (itemsSeq kind n v cfg scr' items 0 .live).1 ∧
    (itemsSeq kind n v cfg scr items 0 .live).2.2[j]? = (itemsSeq kind n v cfg scr' items 0 .live).2.2[j]? := by
  rw [itemsSeq_continue kind n v cfg scr hs hq, itemsSeq_continue kind n v cfg scr' hs hq']
  have e : (itemRuns kind n v cfg scr items 0)[j]? = (itemRuns kind n v cfg scr' items 0)[j]? := by
    rw [itemRuns_getElem?, itemRuns_getElem?]; simp [hj]
  constructor
  · have h1 := itemEvents_itemRuns kind n v cfg scr items 0 j
    have h2 := itemEvents_itemRuns kind n v cfg scr' items 0 j
    simp only [Nat.zero_add] at h1 h2
    rw [h1, h2, e]
  · simp only [List.getElem?_map, e]

/-- the events of item `j` in the run are exactly one `runItem` run of item `j` — it is processed exactly once -/
theorem item_processed_exactly_once (kind : CtxKind) (n : NodeId) (v : Nat) (cfg : BatchCfg) (scr : BatchScript)
    (hs : cfg.stop = false) (hq : ∀ j, Quiet (scr.item j)) (items : List Result) (j : Nat) (hj : j < items.length) :
    itemEvents j (itemsSeq kind n v cfg scr items 0 .live).1 = (runItem kind n v cfg j items[j] (scr.item j) .live).1 ∧
    (itemsSeq kind n v cfg scr items 0 .live).2.2[j]? =
      some (slotOfRes (runItem kind n v cfg j items[j] (scr.item j) .live).2.2) := by
  rw [itemsSeq_continue kind n v cfg scr hs hq]
  have h1 := itemEvents_itemRuns kind n v cfg scr items 0 j
  have h2 := itemRuns_getElem? kind n v cfg scr items 0 j
  simp only [Nat.zero_add] at h1 h2
  simp [h1, h2, List.getElem?_eq_getElem hj]

/-- **Each item individually gets the retry budget and fallback treatment of a single node run** (`flyt.Run` on a
    retryable node with the same budget, wait, fallback and exec function): same context afterwards, same number of
    callback events, failure with the same error / success exactly when the node run fails / succeeds. -/
theorem item_gets_single_node_treatment (kind : CtxKind) (n : NodeId) (v : Nat) (cfg : BatchCfg) (i : Nat) (item : Result)
    (s : ItemScript) (sid : StoreId) :
    (runLeaf kind n v sid (leafOf cfg) (leafScriptOf s) .live).2.1 = (runItem kind n v cfg i item s .live).2.1 ∧
    (runLeaf kind n v sid (leafOf cfg) (leafScriptOf s) .live).1.length = (runItem kind n v cfg i item s .live).1.length ∧
    (runLeaf kind n v sid (leafOf cfg) (leafScriptOf s) .live).2.2 =
      (match (runItem kind n v cfg i item s .live).2.2 with
       | .slot _ => .ok defaultAction
       | .error e => .err e) :=
  runItem_like_runLeaf kind n v cfg i item s sid

/-- **Per-item retry budget and fallback are exact, and the slot is the last attempt's error or the fallback's
    outcome.** Processing item `i` (no cancellation) makes exactly the attempts `0 .. lastAttempt` — up to and
    including the first success, or the whole budget — each started and finished once, calls the fallback exactly
    when all attempts failed and a custom fallback exists, and yields `finalSlot`: the successful value, else the
    fallback's outcome, else the error of the LAST attempt (`Bridge.obsOf` turns `bexec i k` into `start i k, done i k`
    and `bfb i` into `fb i`). -/
theorem item_retry_budget_and_fallback_exact (kind : CtxKind) (n : NodeId) (v : Nat) (cfg : BatchCfg) (scr : BatchScript)
    (i nn : Nat) (item : Result) (hq : Quiet (scr.item i)) (hex : cfg.execS ≠ .absent) (hb : 0 < cfg.budget) :
    let c := Bridge.concCfgOf kind cfg scr nn
    let h := (runItem kind n v cfg i item (scr.item i) .live).1.flatMap Bridge.obsOf
    Spec.itemStarts h i = List.range (Spec.lastAttempt c i + 1) ∧
    Spec.itemDones h i = List.range (Spec.lastAttempt c i + 1) ∧
    Spec.itemFbs h i = Conc.finalFbs c i ∧
    slotOfRes (runItem kind n v cfg i item (scr.item i) .live).2.2 = Conc.finalSlot c i := by
  intro c h
  have ag := Bridge.agrees_concCfgOf kind { cfg with stop := false } scr nn
  have ho := Bridge.runItem_origin n v ag i item false (.inr hq) [] ⟨rfl, rfl, rfl⟩
  have he : runItem kind n v { cfg with stop := false } i item (scr.item i) .live =
      runItem kind n v cfg i item (scr.item i) .live := by rw [runItem_eq, runItem_eq]
  rw [List.nil_append, he] at ho
  exact Conc.origin_uncancelled (c := Bridge.concCfgOf kind { cfg with stop := false } scr nn) ho rfl hex hb

/-! ### non-vacuity (the C06 example: item 1 fails twice and is rescued by its fallback; items 0 and 2 unaffected) -/

def exCfg : BatchCfg :=
  { budget := 2, wait := 0, fb := .custom, conc := 2, stop := false, execS := .any, hasPost := true, shape := .anys }

def exScr (bad : Nat) : BatchScript :=
  { prep := { res := .ok [.tok 1, .tok 2, .tok 3] },
    item := fun i =>
      { exec := fun k => if i = bad then { res := .error (10 + k) } else { res := .ok (.tok (100 + i)) },
        waitCancel := fun _ => false,
        fb := { res := .ok (.tok 55) } },
    post := { res := .ok "next" } }

example : exCfg.stop = false ∧ exCfg.hasPost = true ∧ exCfg.execS ≠ .absent ∧ 0 < exCfg.budget := by decide
example (bad : Nat) : (exScr bad).prep.res = .ok [.tok 1, .tok 2, .tok 3] ∧ (exScr bad).prep.cancels = false := ⟨rfl, rfl⟩
example (bad : Nat) : ∀ j, Quiet ((exScr bad).item j) := by
  intro j; refine ⟨fun k => ?_, fun _ => rfl, rfl⟩
  simp only [exScr]; split <;> rfl

-- item 2 has the same script in `exScr 1` and `exScr 0`; its events and slot are the same in both runs
example : (exScr 1).item 2 = (exScr 0).item 2 := by simp [exScr]
example : itemEvents 2 (runBatch .canceled 0 0 0 exCfg (exScr 1) .live).1 = [.bexec 0 0 2 0 (.tok 3)] ∧
    itemEvents 2 (runBatch .canceled 0 0 0 exCfg (exScr 0) .live).1 = [.bexec 0 0 2 0 (.tok 3)] := by decide

/-! ## concurrent execution: every worker count, every schedule -/

open Flyt.Conc Flyt.Spec

/-- **The stop flag is never raised in continue mode** (so it never influences any task). -/
theorem stop_flag_untouched {c : Cfg} {s : BState} (hr : Reachable c s) (hs : c.stop = false) : s.shouldStop = false :=
  (flagInv_reachable hr).stopOff hs

/-- **Each item's exec calls and slot are exactly what its own script prescribes.** In continue mode, in every
    reachable state in which the context is not cancelled, a finished item `i` has started and finished exactly
    the attempts `0 .. lastAttempt` (first success, or the whole budget), had its fallback called exactly when all
    attempts failed and a custom fallback exists, and its slot is `finalSlot c i`: the successful value, the
    fallback's outcome, or the error of the LAST attempt. All four are functions of item `i`'s script alone. -/
theorem item_follows_own_script {c : Cfg} {s : BState} (hr : Reachable c s) (hs : c.stop = false)
    (hnc : s.cancelled = false) (hex : c.execS ≠ .absent) (hb : 0 < c.budget) {i : Nat} {r : Result}
    (h : s.slots[i]? = some (some r)) :
    itemStarts (hist s) i = List.range (lastAttempt c i + 1) ∧ itemDones (hist s) i = List.range (lastAttempt c i + 1) ∧
    itemFbs (hist s) i = finalFbs c i ∧ r = finalSlot c i := by
  have := (logInv_reachable hr).slots i r h
  rw [hnc] at this
  exact origin_uncancelled this hs hex hb

/-- **Independence of the other items' scripts**, for every pair of schedules: two scenarios that agree on the
    configuration and on item `i`'s script (`exec i`, `fbOut i`) — and differ arbitrarily in all other items'
    scripts, worker counts, capacities and schedules — give item `i` the same exec calls and the same slot. -/
theorem item_trace_independent {c c' : Cfg} {s s' : BState} (hr : Reachable c s) (hr' : Reachable c' s')
    (hs : c.stop = false) (hs' : c'.stop = false) (hnc : s.cancelled = false) (hnc' : s'.cancelled = false)
    (hex : c.execS ≠ .absent) (hb : 0 < c.budget)
    (e1 : c'.budget = c.budget) (e2 : c'.fb = c.fb) (e3 : c'.execS = c.execS)
    {i : Nat} (e4 : c'.exec i = c.exec i) (e5 : c'.fbOut i = c.fbOut i) {r r' : Result}
    (h : s.slots[i]? = some (some r)) (h' : s'.slots[i]? = some (some r')) :
    itemStarts (hist s') i = itemStarts (hist s) i ∧ itemDones (hist s') i = itemDones (hist s) i ∧
    itemFbs (hist s') i = itemFbs (hist s) i ∧ r' = r := by
  obtain ⟨a1, a2, a3, a4⟩ := item_follows_own_script hr hs hnc hex hb h
  obtain ⟨b1, b2, b3, b4⟩ := item_follows_own_script hr' hs' hnc' (e3 ▸ hex) (e1 ▸ hb) h'
  have hl : lastAttempt c' i = lastAttempt c i := by simp [lastAttempt, e1, e4]
  refine ⟨by rw [a1, b1, hl], by rw [a2, b2, hl], ?_, ?_⟩
  · rw [a3, b3]; simp [finalFbs, hl, e2, e4]
  · rw [a4, b4]; simp [finalSlot, hl, e2, e3, e4, e5]

/-- **None skipped, none duplicated**: when `Wait` returns in continue mode without cancellation, every index
    `i < n` has its slot written and its first attempt was started exactly once. -/
theorem none_skipped_none_duplicated {c : Cfg} {s s' : BState} (hr : Reachable c s) (hs : c.stop = false)
    (hnc : s.cancelled = false) (hex : c.execS ≠ .absent) (hb : 0 < c.budget) (hw : apply c s .waitRet = some s') :
    ∀ i, i < c.n → (∃ r, s.slots[i]? = some (some r)) ∧ (itemStarts (hist s) i).count 0 = 1 ∧ (itemStarts (hist s) i).Nodup := by
  obtain ⟨hn, hq, hrun, _, _⟩ := waitRet_inv hw
  intro i hi
  obtain ⟨r, h⟩ := all_slots_written hr hn hq hrun i hi
  obtain ⟨a1, _⟩ := item_follows_own_script hr hs hnc hex hb h
  refine ⟨⟨r, h⟩, ?_, ?_⟩
  · rw [a1, List.count_eq_length_filter]
    have : (List.range (lastAttempt c i + 1)).filter (· == 0) = [0] := by
      rw [List.range_succ_eq_map]; simp [List.filter_map, Function.comp_def]
    rw [this]; rfl
  · rw [a1]; exact List.nodup_range

/-- **Bridge (gated family `gbatch`).** `Spec.c07` holds of the model's observation in the state right after post,
    for every schedule and every script — no side condition: `Spec.cancelFree` itself inspects the exec scripts, the
    fallback scripts (of nodes with a custom fallback) and the explicit cancellation. -/
theorem spec_c07_holds {c : Cfg} {s s' : BState} (items : List Val) (hr : Reachable c s)
    (hw : apply c s .waitRet = some s') :
    Spec.c07 c (viewOf s' items) = true :=
  Bridge.c07_viewOf items hr hw

/-- **Bridge (sequential families).** `Spec.c07` on `runBatch`'s own observation, as the driver evaluates it, for
    runs without cancellation in either error-handling mode. -/
theorem spec_c07_holds_seq (kind : CtxKind) (n : NodeId) (v : Nat) (sid : StoreId) (cfg : BatchCfg) (scr : BatchScript)
    (l : List Val) (hp : scr.prep.res = .ok l) (hpost : cfg.hasPost = true) (hq : ∀ j, Quiet (scr.item j))
    (hpc : scr.prep.cancels = false) :
    Spec.c07 (Bridge.concCfgOf kind cfg scr (normItems cfg.shape l).length)
      (Bridge.batchViewOf (runBatch kind n v sid cfg scr .live).1 (runBatch kind n v sid cfg scr .live).2.2) = true :=
  Bridge.c07_runBatch n v sid hp hpost hq hpc

/-! ### non-vacuity: two failing items among four, two workers, one release order -/

def exConc : Cfg :=
  { n := 4, w := 2, cap := 4, stop := false, budget := 2, fb := .passThrough, execS := .any,
    exec := fun i k => if i % 2 = 1 then { res := .error (10 * i + k) } else { res := .ok (.tok (100 + i)) },
    fbOut := fun _ => { res := .error 0 }, kind := .canceled }

example : exConc.stop = false ∧ exConc.execS ≠ .absent ∧ 0 < exConc.budget := by decide
example : ((simulate exConc 300 [.release 1, .release 0, .release 1, .release 2, .release 3, .release 3]).bind
      fun sts => sts.getLast?.map fun s => (s.slots, s.posted, s.cancelled, s.shouldStop)) =
    some ([some (newResult (.tok 100)), some (newErrorResult (.user 11)), some (newResult (.tok 102)),
           some (newErrorResult (.user 31))], true, false, false) := by decide
example : finalSlot exConc 1 = newErrorResult (.user 11) ∧ finalSlot exConc 2 = newResult (.tok 102) := by decide

-- a second scenario that agrees with `exConc` on item 2 only (all other items succeed at once, 3 workers)
def exConc' : Cfg :=
  { exConc with w := 3, exec := fun i k => if i = 2 then exConc.exec 2 k else { res := .ok (.tok 7) } }
example : exConc'.exec 2 = exConc.exec 2 ∧ exConc'.fbOut 2 = exConc.fbOut 2 ∧ exConc'.budget = exConc.budget := ⟨rfl, rfl, rfl⟩
-- `Spec.cancelFree` (the guard of `c07`): true of `exConc`; false as soon as a custom fallback's script cancels
example : Spec.cancelFree exConc { events := [], quiescent := [], items := [], slots := [], posts := 0, outOk := true } = true := by
  decide
example : Spec.cancelFree { exConc with fb := .custom, fbOut := fun i => { res := .error 0, cancels := i == 3 } }
    { events := [], quiescent := [], items := [], slots := [], posts := 0, outOk := true } = false := by decide

end Flyt.Props.C07
