import FlytModel.Proofs.BatchSeq
import FlytModel.Proofs.BatchConc
import FlytModel.Proofs.BatchBridge
/-!
# C06 — Batch results correspond positionally to items; post sees all, once

*Sequential / serial layer* (`runBatch`, Model/Batch.lean): for EVERY configuration, script, context and item
list, by induction over the items. *Concurrent layer* (`Conc.apply`, Model/BatchConc.lean): invariants of
EVERY reachable state, i.e. for every number of workers, channel capacity and schedule (completion order).
Helper lemmas are in `Proofs/BatchSeq.lean` and `Proofs/BatchConc.lean`.
-/
namespace Flyt.Props.C06
open Flyt Flyt.BatchSeq

/-! ## prep normalisation -/

/-- **Prep normalisation.** `[]Result ↦` itself, `[]any` / typed slice `↦ map NewResult`, a single value
    `↦ [NewResult v]`, nil `↦ []` — always in prep order, never more items than prep produced. -/
theorem prep_normalisation (l : List Val) (x : Val) :
    normItems .results l = l.map toResult ∧ normItems .anys l = l.map newResult ∧
    normItems .typed l = l.map newResult ∧ normItems .single [x] = [newResult x] ∧ normItems .nilv l = [] ∧
    (∀ r : Result, toResult r.box = r) := by
  refine ⟨rfl, rfl, rfl, rfl, rfl, fun r => rfl⟩

example : normItems .results [(newResult (.tok 7)).box, (newErrorResult (.user 3)).box] =
    [newResult (.tok 7), newErrorResult (.user 3)] := by decide

/-! ## sequential execution and the serial schedule of the pool -/

/-- **Post once, after every item, with all items and one slot per item, each slot owned by its item.**
    For a batch node whose prep succeeded and which has a post function, for every concurrency setting of
    `runBatch`: the trace is `bprep`, then only per-item events, then exactly one `bpost` carrying the items in
    prep order and a slot list of the same length; and for every position `j` the item at `j` satisfies
    `Own`: its events are those of `runItem` on ITS OWN script (entered with a live context) and slot `j` is that
    processing's outcome, or it was never processed, has no event, and slot `j` is an error marker. -/
theorem post_once_positional (kind : CtxKind) (n : NodeId) (v : Nat) (sid : StoreId) (cfg : BatchCfg) (scr : BatchScript)
    (ctx : Ctx) (l : List Val) (hp : scr.prep.res = .ok l) (hpost : cfg.hasPost = true) :
    ∃ iev slots,
      (runBatch kind n v sid cfg scr ctx).1 =
        .bprep n v sid :: iev ++
          [.bpost n v sid ((normItems cfg.shape l).map Result.box) (slots.map Result.box)] ∧
      slots.length = (normItems cfg.shape l).length ∧
      (∀ e ∈ iev, ∃ j, evItem e = some j ∧ j < (normItems cfg.shape l).length) ∧
      ∀ j (hj : j < (normItems cfg.shape l).length),
        Own kind n v cfg scr iev slots j j (normItems cfg.shape l)[j] := by
  refine ⟨(itemsSeq kind n v cfg scr (normItems cfg.shape l) 0 (ctx.after kind scr.prep.cancels)).1,
    (itemsSeq kind n v cfg scr (normItems cfg.shape l) 0 (ctx.after kind scr.prep.cancels)).2.2, ?_, ?_, ?_, ?_⟩
  · rw [runBatch_ok kind n v cfg scr sid ctx hp]; simp [hpost]
  · exact itemsSeq_length _ _ _ _ _ _ _ _
  · intro e he
    obtain ⟨j, h1, _, h3⟩ := itemsSeq_evItem _ _ _ _ _ _ _ _ e he
    exact ⟨j, h1, by omega⟩
  · intro j hj
    have := itemsSeq_own kind n v cfg scr (normItems cfg.shape l) 0 (ctx.after kind scr.prep.cancels) j hj
    simpa using this

/-- … in particular the trace contains exactly one post event and it is the last event. -/
theorem post_exactly_once_and_last (kind : CtxKind) (n : NodeId) (v : Nat) (sid : StoreId) (cfg : BatchCfg) (scr : BatchScript)
    (ctx : Ctx) (l : List Val) (hp : scr.prep.res = .ok l) (hpost : cfg.hasPost = true) :
    ((runBatch kind n v sid cfg scr ctx).1.filter isBpost).length = 1 ∧
    ∃ sl, (runBatch kind n v sid cfg scr ctx).1.getLast? =
      some (.bpost n v sid ((normItems cfg.shape l).map Result.box) sl) ∧
      sl.length = (normItems cfg.shape l).length := by
  obtain ⟨iev, slots, h1, h2, h3, _⟩ := post_once_positional kind n v sid cfg scr ctx l hp hpost
  rw [h1]
  constructor
  · have : iev.filter isBpost = [] := by
      rw [List.filter_eq_nil_iff]
      intro e he
      obtain ⟨j, hj, _⟩ := h3 e he
      cases e <;> simp_all [evItem, isBpost]
    simp [List.filter_cons, List.filter_append, this, isBpost]
  · refine ⟨slots.map Result.box, ?_, by simp [h2]⟩
    rw [List.getLast?_append]
    simp

/-- **Slot `j` is the outcome of item `j` and of no other item** (continue mode, no cancellation): the whole
    item phase is the concatenation of each item's own processing, in item order, and the slot list is the list
    of their outcomes — position by position. -/
theorem slots_positional (kind : CtxKind) (n : NodeId) (v : Nat) (cfg : BatchCfg) (scr : BatchScript)
    (hs : cfg.stop = false) (hq : ∀ j, Quiet (scr.item j)) (items : List Result) :
    itemsSeq kind n v cfg scr items 0 .live =
      ((itemRuns kind n v cfg scr items 0).flatMap (·.1), .live,
       (itemRuns kind n v cfg scr items 0).map (fun r => slotOfRes r.2.2)) ∧
    ∀ j, (itemRuns kind n v cfg scr items 0)[j]? =
      items[j]?.map fun it => runItem kind n v cfg j it (scr.item j) .live := by
  refine ⟨itemsSeq_continue kind n v cfg scr hs hq items 0, fun j => ?_⟩
  simpa using itemRuns_getElem? kind n v cfg scr items 0 j

/-- **Bridge (families `batchseq`, `C02`: `Driver.FlowFam.judgeBatchRoot`).** The executable predicate `Spec.c06`,
    evaluated on the model's own observation exactly as the driver does (`Bridge.batchViewOf` / `Bridge.concCfgOf`
    repeat `Driver.FlowFam.batchViewOf` / `concCfgOf` verbatim), is true — for every node with an exec function,
    budget ≥ 1 and a post function, every script whose prep succeeds, every context, every concurrency setting. -/
theorem spec_c06_holds_seq (kind : CtxKind) (n : NodeId) (v : Nat) (sid : StoreId) (cfg : BatchCfg) (scr : BatchScript)
    (ctx : Ctx) (l : List Val) (hp : scr.prep.res = .ok l) (hpost : cfg.hasPost = true) (hex : cfg.execS ≠ .absent)
    (hb : 0 < cfg.budget) :
    Spec.c06 (Bridge.concCfgOf kind cfg scr (normItems cfg.shape l).length) ((normItems cfg.shape l).map Result.box)
      (Bridge.batchViewOf (runBatch kind n v sid cfg scr ctx).1 (runBatch kind n v sid cfg scr ctx).2.2) = true :=
  Bridge.c06_runBatch n v sid ctx hp hpost hex hb

/-! ### non-vacuity: a three-item batch, item 1 fails twice then the fallback succeeds -/

def exCfg : BatchCfg :=
  { budget := 2, wait := 0, fb := .custom, conc := 0, stop := false, execS := .any, hasPost := true, shape := .anys }

def exScr : BatchScript :=
  { prep := { res := .ok [.tok 1, .tok 2, .tok 3] },
    item := fun i =>
      { exec := fun k => if i = 1 then { res := .error (10 + k) } else { res := .ok (.tok (100 + i)) },
        waitCancel := fun _ => false,
        fb := { res := .ok (.tok 55) } },
    post := { res := .ok "next" } }

example : exScr.prep.res = .ok [.tok 1, .tok 2, .tok 3] ∧ exCfg.hasPost = true ∧ exCfg.execS ≠ .absent ∧ 0 < exCfg.budget :=
  ⟨rfl, rfl, by decide, by decide⟩
example : exCfg.stop = false := rfl
example : ∀ j, Quiet (exScr.item j) := by
  intro j; refine ⟨fun k => ?_, fun _ => rfl, rfl⟩
  simp only [exScr]; split <;> rfl

example : (runBatch .canceled 0 0 0 exCfg exScr .live).1 =
    [.bprep 0 0 0, .bexec 0 0 0 0 (.tok 1), .bexec 0 0 1 0 (.tok 2), .bexec 0 0 1 1 (.tok 2),
     .bfb 0 0 1 (.res (.tok 2) none) (.user 11), .bexec 0 0 2 0 (.tok 3),
     .bpost 0 0 0 [.res (.tok 1) none, .res (.tok 2) none, .res (.tok 3) none]
       [.res (.tok 100) none, .res (.tok 55) none, .res (.tok 102) none]] := by decide

/-! ## concurrent execution: every worker count, every schedule -/

open Flyt.Conc

/-- **Slot `i` holds the outcome of item `i`'s own processing — in every reachable state.** Whatever the
    schedule, a written slot `i` is explained (`Origin`) by item `i`'s own script and its own events only:
    stopped / cancelled before it ran, cut by cancellation after `k` failed attempts, the value of its first
    successful attempt, its fallback's outcome, or its last attempt's error. -/
theorem slot_is_own_outcome {c : Cfg} {s : BState} (hr : Reachable c s) {i : Nat} {r : Result}
    (h : s.slots[i]? = some (some r)) : Origin c s.cancelled (hist s) i r :=
  (logInv_reachable hr).slots i r h

/-- **Slot `i` is written only by the task created for index `i`, once.** A step that changes slot `j` is the
    final step of task `j`; afterwards the slot never changes again. -/
theorem slot_written_by_own_task_once {c : Cfg} {s s' : BState} {l : Label} {j : Nat} (hr : Reachable c s)
    (hs : apply c s l = some s') :
    (s'.slots[j]? ≠ s.slots[j]? → l = .step j ∧ j ∈ ids s ∧ j ∉ ids s') ∧
    (∀ r s'', s'.slots[j]? = some (some r) → Path c s' s'' → s''.slots[j]? = some (some r)) :=
  ⟨slot_change (trans_of_apply hs), fun _ _ h p => slot_stable (hr.step ⟨l, hs⟩) p h⟩

/-- **Each index has exactly one task and is in exactly one place**: queued, held by a worker, or finished with
    its slot written; the slot list always has length `n`; at most `w` tasks run; the channel never overflows. -/
theorem one_task_per_index {c : Cfg} {s : BState} (hr : Reachable c s) :
    s.slots.length = c.n ∧ (s.queue ++ ids s).Nodup ∧ s.running.length + s.idle = c.w ∧ s.queue.length ≤ c.cap ∧
    ∀ i, i < c.n →
      ((∃ r, s.slots[i]? = some (some r)) ↔ (i < s.next ∧ i ∉ s.queue ∧ i ∉ ids s)) := by
  have h := inv_reachable hr
  exact ⟨h.slotsLen, h.nodup, h.workers, h.qcap, fun i _ => h.slotIff i⟩

/-- **Post is enabled only when `wg = 0` and all `n` tasks have finished; it then sees every slot written,
    `n` slots, each the item's own outcome.** -/
theorem post_after_all_settled {c : Cfg} {s s' : BState} (hr : Reachable c s) (hw : apply c s .waitRet = some s') :
    s.next = c.n ∧ s.queue = [] ∧ s.running = [] ∧ s'.slots = s.slots ∧ s'.slots.length = c.n ∧
    ∀ i, i < c.n → ∃ r, s'.slots[i]? = some (some r) ∧ Origin c s.cancelled (hist s) i r := by
  obtain ⟨hn, hq, hrun, _, rfl⟩ := waitRet_inv hw
  refine ⟨hn, hq, hrun, rfl, (inv_reachable hr).slotsLen, fun i hi => ?_⟩
  obtain ⟨r, h⟩ := all_slots_written hr hn hq hrun i hi
  exact ⟨r, h, (logInv_reachable hr).slots i r h⟩

/-- **Post occurs at most once** on every schedule: the log of a reachable state contains one post event if
    `Wait` has returned and none otherwise, and `Wait` cannot return a second time. -/
theorem post_at_most_once {c : Cfg} {s : BState} (hr : Reachable c s) :
    s.log.count .post = (if s.posted then 1 else 0) ∧ (s.posted = true → apply c s .waitRet = none) := by
  refine ⟨(flagInv_reachable hr).postCount, fun hp => ?_⟩
  simp [apply, hp]

/-- **Bridge.** The executable predicate `Spec.c06` that the driver evaluates holds of the model's observation
    in the state right after post, for every schedule (nodes with an exec function and budget ≥ 1). -/
theorem spec_c06_holds {c : Cfg} {s s' : BState} (items : List Val) (hr : Reachable c s) (hex : c.execS ≠ .absent)
    (hb : 0 < c.budget) (hw : apply c s .waitRet = some s') : Spec.c06 c items (viewOf s' items) = true :=
  c06_viewOf items hr hex hb hw

/-- the states the gated simulation (and hence the driver) visits are reachable -/
theorem simulate_states_reachable {c : Cfg} {fuel : Nat} {ds : List Decision} {sts : List BState}
    (h : simulate c fuel ds = some sts) : ∀ x ∈ sts, Reachable c x :=
  simulate_reachable h

/-! ### non-vacuity: 3 items on 2 workers, item 2 released first, then 0, then 1 -/

def exConc : Cfg :=
  { n := 3, w := 2, cap := 4, stop := false, budget := 1, fb := .passThrough, execS := .any,
    exec := fun i _ => { res := .ok (.tok (100 + i)) }, fbOut := fun _ => { res := .error 0 }, kind := .canceled }

example : ((simulate exConc 200 [.release 1, .release 0, .release 2]).map fun sts =>
      sts.map fun s => (s.slots, s.posted, parked s)) =
    some [([none, none, none], false, [(0, 0), (1, 0)]),
          ([none, some (newResult (.tok 101)), none], false, [(0, 0), (2, 0)]),
          ([some (newResult (.tok 100)), some (newResult (.tok 101)), none], false, [(2, 0)]),
          ([some (newResult (.tok 100)), some (newResult (.tok 101)), some (newResult (.tok 102))], true, [])] := by
  decide

-- the hypotheses of the bridge are met, and the predicate is non-trivially true on that run's final state
example : exConc.execS ≠ .absent ∧ 0 < exConc.budget := by decide
example : ((simulate exConc 200 [.release 1, .release 0, .release 2]).bind fun sts =>
      sts.getLast?.map fun s => Spec.c06 exConc [] (viewOf s [])) = some true := by decide

end Flyt.Props.C06
