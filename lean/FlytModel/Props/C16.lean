import FlytModel.Proofs.Bind
/-!
# C16  Bind: identity for matching types, JSON round-trip otherwise, never panics

Theorems about `Flyt.Bind.bindVal / storeBind / resultBind / mustOf` (model of flyt.go:380-425,
result.go:294-337) for EVERY type universe `T`, value universe `V`, byte type `B`, error type `E` and
every `Codec` (`reflect.TypeOf`, `json.Marshal`, `json.Unmarshal` as arbitrary functions).
Each theorem is followed by a non-vacuity example on a concrete codec.
-/
namespace Flyt.Props.C16
open Flyt.Bind Flyt.Spec

variable {K T V B E : Type} [DecidableEq T]

/-! A concrete codec for the examples: types are strings, values are `(type, payload)`, "JSON" is the
payload as a number, marshalling type `"chan"` fails, decoding into `"bool"` fails after writing. -/
def exCodec : Codec String (String × Nat) Nat String where
  typeOf := fun v => v.1
  marshal := fun
    | none => .ok 0
    | some v => if v.1 = "chan" then .error "unsupported type" else .ok v.2
  unmarshal := fun b t cur => if t = "bool" then ((t, cur.2 + 1), some "type mismatch") else ((t, b), none)
  invalidDest := "invalid unmarshal"

def exStore : Store String (String × Nat) := fun k =>
  if k = "user" then some (some ("User", 7)) else if k = "nil" then some none else none

/-- **Never panics.**  Whatever the destination (untyped nil, non-pointer, typed nil pointer, valid
    pointer), the value (nil or not) and the codec, no `Bind` reaches a panicking `reflect` call. -/
theorem never_panics (c : Codec T V B E) (s : Store K V) (key : K) (value : Option V) (d : Dest T V) :
    (storeBind c s key d).1.isPanic = false ∧ (resultBind c value d).isPanic = false := by
  constructor
  · unfold storeBind
    cases s key with
    | none => rfl
    | some val => obtain ⟨o, h⟩ := bindVal_not_panic c val d; simp [h, Res.isPanic]
  · unfold resultBind
    cases value with
    | none => rfl
    | some v => obtain ⟨o, h⟩ := bindVal_not_panic c (some v) d; simp [h, Res.isPanic]

example : (storeBind exCodec exStore "user" (.nilPointer "User")).1 = .ok ⟨some .badDest, .nilPointer "User", []⟩ := by
  decide

/-- **Bad destination ⇒ error, nothing touched, JSON not called** (untyped nil, non-pointer, typed nil
    pointer of ANY element type — in particular of the value's own type), for a present store value
    and for a non-nil Result. -/
theorem bad_dest_is_error (c : Codec T V B E) (s : Store K V) (key : K) (val : Option V) (v : V)
    (d : Dest T V) (hd : d.valid = false) (hs : s key = some val) :
    (storeBind c s key d).1 = .ok ⟨some .badDest, d, []⟩ ∧
    resultBind c (some v) d = .ok ⟨some .badDest, d, []⟩ := by
  constructor
  · simp [storeBind, hs, bindVal_invalid c val d hd]
  · simp [resultBind, bindVal_invalid c (some v) d hd]

example : resultBind exCodec (some ("User", 7)) (.nonPointer "User") = .ok ⟨some .badDest, .nonPointer "User", []⟩ ∧
    resultBind exCodec (some ("User", 7)) .untypedNil = .ok ⟨some .badDest, .untypedNil, []⟩ := by
  decide

/-- **Missing key ⇒ error** (before the destination is even looked at). -/
theorem missing_key_is_error (c : Codec T V B E) (s : Store K V) (key : K) (d : Dest T V) (hs : s key = none) :
    (storeBind c s key d).1 = .ok ⟨some .keyNotFound, d, []⟩ := by
  simp [storeBind, hs]

example : (storeBind exCodec exStore "absent" .untypedNil).1 = .ok ⟨some .keyNotFound, .untypedNil, []⟩ := by
  decide

/-- **Nil Result value ⇒ error.** -/
theorem nil_result_is_error (c : Codec T V B E) (d : Dest T V) :
    resultBind c none d = .ok ⟨some .nilResult, d, []⟩ := rfl

example : resultBind exCodec none (.ptr "User" ("User", 0)) = .ok ⟨some .nilResult, .ptr "User" ("User", 0), []⟩ := by
  decide

/-- **Identity for matching types.**  A non-nil value whose type is the destination's element type is
    stored into the destination unchanged, without error and with NO call to marshal / unmarshal. -/
theorem same_type_identity (c : Codec T V B E) (s : Store K V) (key : K) (v : V) (t : T) (cur : V)
    (hs : s key = some (some v)) (ht : c.typeOf v = t) :
    (storeBind c s key (.ptr t cur)).1 = .ok ⟨none, .ptr t v, []⟩ ∧
    resultBind c (some v) (.ptr t cur) = .ok ⟨none, .ptr t v, []⟩ := by
  simp [storeBind, resultBind, hs, bindVal_same c v t cur ht]

example : (storeBind exCodec exStore "user" (.ptr "User" ("User", 0))).1 = .ok ⟨none, .ptr "User" ("User", 7), []⟩ := by
  decide
-- the identity path also carries values the codec cannot encode (a channel into a *chan)
example : resultBind exCodec (some ("chan", 3)) (.ptr "chan" ("chan", 0)) = .ok ⟨none, .ptr "chan" ("chan", 3), []⟩ := by
  decide

/-- **JSON round trip otherwise, including both error cases.**  For a non-nil value of any other type,
    Bind is exactly `marshal v >>= unmarshal dest`: same error (tagged by phase, the codec's error
    carried unchanged), same destination contents (also what a failing decode left behind), one marshal
    call and at most one unmarshal call. -/
theorem other_type_is_json (c : Codec T V B E) (s : Store K V) (key : K) (v : V) (t : T) (cur : V)
    (hs : s key = some (some v)) (ht : c.typeOf v ≠ t) :
    (storeBind c s key (.ptr t cur)).1 = .ok (jsonRoundTrip c (some v) t cur) ∧
    resultBind c (some v) (.ptr t cur) = .ok (jsonRoundTrip c (some v) t cur) := by
  have h : (some v).map c.typeOf ≠ some t := by simpa using ht
  simp [storeBind, resultBind, hs, bindVal_other c (some v) t cur h]

/-- the error of the round trip is the codec's own (transparent wrapping) -/
theorem json_errors_transparent (c : Codec T V B E) (v : V) (t : T) (cur : V) (ht : c.typeOf v ≠ t) :
    ∃ o, resultBind c (some v) (.ptr t cur) = .ok o ∧
      o.err = (match c.marshal (some v) with
               | .error e => some (.marshal e)
               | .ok b => (c.unmarshal b t cur).2.map .unmarshal) := by
  have h : (some v).map c.typeOf ≠ some t := by simpa using ht
  exact ⟨_, by simp [resultBind, bindVal_other c (some v) t cur h], jsonRoundTrip_err c (some v) t cur⟩

example : resultBind exCodec (some ("User", 7)) (.ptr "Other" ("Other", 0)) =
    .ok ⟨none, .ptr "Other" ("Other", 7), [.marshal (some ("User", 7)), .unmarshal 7 (.ptr "Other" ("Other", 0))]⟩ := by
  decide
example : resultBind exCodec (some ("chan", 1)) (.ptr "Other" ("Other", 0)) =
    .ok ⟨some (.marshal "unsupported type"), .ptr "Other" ("Other", 0), [.marshal (some ("chan", 1))]⟩ := by
  decide
example : (resultBind exCodec (some ("User", 7)) (.ptr "bool" ("bool", 0))) =
    .ok ⟨some (.unmarshal "type mismatch"), .ptr "bool" ("bool", 1),
         [.marshal (some ("User", 7)), .unmarshal 7 (.ptr "bool" ("bool", 0))]⟩ := by
  decide

/-- A stored nil (key present, value nil) has no type, so it always takes the JSON path: `null`
    decoded into the destination (the design's parenthesis; not an error, unlike a nil Result). -/
theorem stored_nil_is_json_null (c : Codec T V B E) (s : Store K V) (key : K) (t : T) (cur : V)
    (hs : s key = some none) :
    (storeBind c s key (.ptr t cur)).1 = .ok (jsonRoundTrip c none t cur) := by
  simp [storeBind, hs, bindVal_other c none t cur (by simp)]

example : (storeBind exCodec exStore "nil" (.ptr "User" ("User", 5))).1 =
    .ok ⟨none, .ptr "User" ("User", 0), [.marshal none, .unmarshal 0 (.ptr "User" ("User", 5))]⟩ := by
  decide

/-- **The two Binds agree on every non-nil value**, for every destination (valid or not). -/
theorem store_result_agree (c : Codec T V B E) (s : Store K V) (key : K) (v : V) (d : Dest T V)
    (hs : s key = some (some v)) :
    (storeBind c s key d).1 = resultBind c (some v) d := by
  simp [storeBind, resultBind, hs]

example : (storeBind exCodec exStore "user" (.ptr "bool" ("bool", 0))).1 =
    resultBind exCodec (some ("User", 7)) (.ptr "bool" ("bool", 0)) := by decide

/-- **The source is never written**: the store after `Bind` / `MustBind` is the store before, on every
    path (errors, identity copy, failed decode). -/
theorem source_not_written (c : Codec T V B E) (s : Store K V) (key : K) (d : Dest T V) :
    (storeBind c s key d).2 = s ∧ (storeMustBind c s key d).2 = s := by
  constructor
  · unfold storeBind; cases s key <;> rfl
  · unfold storeMustBind storeBind; cases s key <;> rfl

example : (storeBind exCodec exStore "user" (.ptr "bool" ("bool", 0))).2 "user" = some (some ("User", 7)) := by
  decide

/-- **MustBind panics iff Bind errs** (with Bind's error in the panic), and in both cases leaves the
    destination exactly as Bind does; it never dies of a panic inside Bind. -/
theorem mustBind_panics_iff_bind_errs (c : Codec T V B E) (value : Option V) (d : Dest T V) :
    ∃ o, resultBind c value d = .ok o ∧
      resultMustBind c value d = (match o.err with | some e => .mustPanic e o.dest | none => .returned o.dest) := by
  have hnp : ∃ o, resultBind c value d = .ok o := by
    unfold resultBind
    cases value with
    | none => exact ⟨_, rfl⟩
    | some v => exact bindVal_not_panic c (some v) d
  obtain ⟨o, h⟩ := hnp
  refine ⟨o, h, ?_⟩
  simp only [resultMustBind, h, mustOf]
  cases o.err <;> rfl

theorem store_mustBind_panics_iff_bind_errs (c : Codec T V B E) (s : Store K V) (key : K) (d : Dest T V) :
    ∃ o, (storeBind c s key d).1 = .ok o ∧
      (storeMustBind c s key d).1 = (match o.err with | some e => .mustPanic e o.dest | none => .returned o.dest) := by
  have hnp : ∃ o, (storeBind c s key d).1 = .ok o := by
    unfold storeBind
    cases s key with
    | none => exact ⟨_, rfl⟩
    | some val => exact bindVal_not_panic c val d
  obtain ⟨o, h⟩ := hnp
  refine ⟨o, h, ?_⟩
  simp only [storeMustBind, h, mustOf]
  cases o.err <;> rfl

example : resultMustBind exCodec none (.ptr "User" ("User", 0)) = .mustPanic .nilResult (.ptr "User" ("User", 0)) ∧
    resultMustBind exCodec (some ("User", 7)) (.ptr "User" ("User", 0)) = .returned (.ptr "User" ("User", 7)) ∧
    (storeMustBind exCodec exStore "absent" (.ptr "User" ("User", 0))).1 = .mustPanic .keyNotFound (.ptr "User" ("User", 0)) := by
  decide

/-- **The property predicate holds of the model's observation on every case descriptor the harness can
    produce** (destination kind × presence × same-type × reference outcome: a finite table of 128
    descriptors, checked by evaluation; the general statements are the theorems above). -/
theorem holds (cs : Case) (h : caseWf cs = true) : Spec.c16 cs (modelObs cs) = true := by
  revert h
  obtain ⟨d, p, s, r⟩ := cs
  cases d <;> cases p <;> cases s <;> cases r <;> decide

/-- and the model's observation matches itself under the driver's comparison (so `agree` is not
    vacuously false) -/
theorem model_matches_itself (cs : Case) : (modelObs cs).matches (modelObs cs) = true := by
  obtain ⟨d, p, s, r⟩ := cs
  cases d <;> cases p <;> cases s <;> cases r <;> decide

example : caseWf ⟨.ptr, .val, false, .unmarshalErr⟩ = true ∧
    (modelObs ⟨.ptr, .val, false, .unmarshalErr⟩).store =
      { cls := .unmarshalErr, destInit := false, destSrc := false, destRef := true, srcSame := true, wraps := true } ∧
    c16Nontrivial ⟨.ptr, .val, false, .unmarshalErr⟩ = true := by
  decide

end Flyt.Props.C16
