import FlytModel.Proofs.SpecBridge
import FlytModel.Proofs.CancelFree
import FlytModel.Proofs.ExampleEnv
/-!
# C04 — Errors are transparent and flows are fail-stop

Theorems about `runNode` (`Model/Flow.lean`: `flyt.Run` on leaves, batch nodes and flows nested to any depth)
for EVERY arena, behaviour, run state, store and fuel that does not run out.

Vocabulary (`Spec/Flow.lean`): `Spec.scriptFatal env e = some u` says that the callback invocation recorded as
event `e` ends its run with user error `u` according to its script — a failing prep / post / fallback /
batch prep / batch post, or the failing LAST exec attempt of a leaf without custom fallback.  An outcome
`.err (.user u)` is an error whose root — what `errors.Is` / `errors.As` observe — is that very `u`.
-/
namespace Flyt.Props.C04
open Flyt Flyt.Proofs

/-- **Fail-stop (iii).**  A callback that ends the run with user error `u` is the LAST event of the whole
    trace — no later phase, no later node, no later node of any enclosing flow — and the run's error is `u`. -/
theorem fail_stop (env : Env) (fuel : Nat) (root : NodeId) (sid : StoreId) (st : RunSt) {evs st' out}
    (h : runNode env fuel root sid st = (evs, st', out)) (hfuel : out ≠ .fuel)
    {pre post : List Ev} {e : Ev} {u : Nat} (hsplit : evs = pre ++ e :: post)
    (hfatal : Spec.scriptFatal env e = some u) : post = [] ∧ out = .err (.user u) := by
  have fs := big_failstop (big_of_runNode h hfuel)
  refine ⟨?_, fs.fatalErr e (by simp [hsplit]) u hfatal⟩
  have hp := fs.noneAfter
  rw [hsplit, List.pairwise_append, List.pairwise_cons] at hp
  cases post with
  | nil => rfl
  | cons b t =>
    have := hp.2.1.1 b (by simp)
    rw [hfatal] at this; cases this

example : (runNode Ex.envFail 10 0 7 Ex.st0).1.getLast? = some (.post 5 0 7 (.tok 1) (.tok 2)) ∧
    Spec.scriptFatal Ex.envFail (.post 5 0 7 (.tok 1) (.tok 2)) = some 42 ∧
    (runNode Ex.envFail 10 0 7 Ex.st0).2.2 = .err (.user 42) := by decide

/-- **Transparency (ii).**  If the run returns an error whose root is user error `u`, then `u` is exactly the
    error returned by the last callback invoked (at whatever nesting depth it sits). -/
theorem user_error_transparent (env : Env) (fuel : Nat) (root : NodeId) (sid : StoreId) (st : RunSt) {evs st' u}
    (h : runNode env fuel root sid st = (evs, st', .err (.user u))) :
    ∃ pre e, evs = pre ++ [e] ∧ Spec.scriptFatal env e = some u := by
  have fs := big_failstop (big_of_runNode h (by simp))
  obtain ⟨e, hl, hf⟩ := fs.userErr u rfl
  obtain ⟨pre, hpre⟩ := List.getLast?_eq_some_iff.mp hl
  exact ⟨pre, e, hpre, hf⟩

/-- every outcome is an action, a user error, the context's error, or "flow has no start node" — never a
    framework-made error hiding a user error, never an action together with an error -/
theorem outcome_shapes (env : Env) (fuel : Nat) (root : NodeId) (sid : StoreId) (st : RunSt) {evs st' out}
    (h : runNode env fuel root sid st = (evs, st', out)) (hfuel : out ≠ .fuel) :
    (∃ a, out = .ok a) ∨ (∃ u, out = .err (.user u)) ∨ (∃ k, out = .err (.ctx k)) ∨ out = .err (.fw .noStart) := by
  have := big_proper (big_of_runNode h hfuel)
  cases out with
  | ok a => exact .inl ⟨a, rfl⟩
  | err e =>
    cases e with
    | user u => exact .inr (.inl ⟨u, rfl⟩)
    | ctx k => exact .inr (.inr (.inl ⟨k, rfl⟩))
    | fw t => cases t <;> simp_all [Outcome.Proper]
  | both a e => simp [Outcome.Proper] at this
  | fuel => exact absurd rfl hfuel

/-- **nil error ⇒ every phase on the path succeeded (i, ⇒).**  Unconditionally. -/
theorem ok_only_if_all_succeeded (env : Env) (fuel : Nat) (root : NodeId) (sid : StoreId) (st : RunSt) {evs st' a}
    (h : runNode env fuel root sid st = (evs, st', .ok a)) : ∀ e ∈ evs, Spec.scriptFatal env e = none :=
  (big_failstop (big_of_runNode h (by simp))).nonfatal (by simp)

/-- **nil error ⇔ every phase on the path succeeded (i).**  For runs without cancellation (live context,
    no callback on the path cancels, no wait is cut short): the run returns an action iff no callback on its
    path ended in failure (after retries and fallback) — the only other way to fail is a flow without start node. -/
theorem ok_iff_all_succeeded (env : Env) (fuel : Nat) (root : NodeId) (sid : StoreId) (st : RunSt) {evs st' out}
    (h : runNode env fuel root sid st = (evs, st', out)) (hfuel : out ≠ .fuel)
    (hlive : st.ctx = .live) (hnc : ∀ e ∈ evs, cancelsAt env e = false) :
    (∃ a, out = .ok a) ↔ (∀ e ∈ evs, Spec.scriptFatal env e = none) ∧ out ≠ .err (.fw .noStart) := by
  have hb := big_of_runNode h hfuel
  have fs := big_failstop hb
  constructor
  · rintro ⟨a, rfl⟩
    exact ⟨fs.nonfatal (by simp), by simp⟩
  · rintro ⟨hnf, hns⟩
    rcases outcome_shapes env fuel root sid st h hfuel with ha | ⟨u, rfl⟩ | ⟨k, rfl⟩ | rfl
    · exact ha
    · obtain ⟨e, hl, hf⟩ := fs.userErr u rfl
      rw [hnf e (List.mem_of_getLast? hl)] at hf; cases hf
    · obtain ⟨_, e, he, hz⟩ := big_ctxErr_live hb hlive rfl
      rw [hnc e he] at hz; cases hz
    · exact absurd rfl hns

example : (∀ e ∈ (runNode Ex.env1 10 0 7 Ex.st0).1, cancelsAt Ex.env1 e = false) ∧
    (runNode Ex.env1 10 0 7 Ex.st0).2.2 = .ok "again" ∧
    (runNode Ex.env1 10 0 7 Ex.st0).1.length = 12 := by decide

/-- **C04 as the driver evaluates it.**  `Spec.c04` (first failing callback of the trace is its last event and
    its error is the outcome; no failing callback ⇒ success or "no start node") holds of the model's own
    observation of every run without cancellation, whatever the store log. -/
theorem spec_c04 (env : Env) (fuel : Nat) (root : NodeId) (sid : StoreId) (st : RunSt) {evs st' out}
    (h : runNode env fuel root sid st = (evs, st', out)) (hfuel : out ≠ .fuel)
    (hlive : st.ctx = .live) (hnc : ∀ e ∈ evs, cancelsAt env e = false) (store : List Nat) :
    Spec.c04 env ⟨Spec.noWaits evs, out, store⟩ = true :=
  spec_c04_of_big (big_of_runNode h hfuel) hlive hnc store

example : (∀ e ∈ (runNode Ex.envFail 10 0 7 Ex.st0).1, cancelsAt Ex.envFail e = false) ∧
    Spec.c04 Ex.envFail ⟨Spec.noWaits (runNode Ex.envFail 10 0 7 Ex.st0).1, (runNode Ex.envFail 10 0 7 Ex.st0).2.2, []⟩
      = true := by decide

/-- … with the hypothesis as the driver computes it: `CancelFree env` — no script of the scenario carries a
    cancellation (no `*` flag, no asynchronous cancel), context live at the start. -/
theorem spec_c04_cancelFree (env : Env) (hcf : CancelFree env) (fuel : Nat) (root : NodeId) (sid : StoreId)
    (st : RunSt) (hlive : st.ctx = .live) (hfuel : (runNode env fuel root sid st).2.2 ≠ .fuel) (store : List Nat) :
    Spec.c04 env ⟨Spec.noWaits (runNode env fuel root sid st).1, (runNode env fuel root sid st).2.2, store⟩ = true :=
  have hb := big_of_runNode (st' := (runNode env fuel root sid st).2.1) rfl hfuel
  spec_c04_of_big hb hlive (big_cancelFree hb hcf) store

/-- the example scenario (all callbacks succeed, no cancellation) is `CancelFree` -/
example : CancelFree Ex.env1 := by
  constructor
  · intro n v
    simp only [Ex.env1, Ex.beh1]
    split <;> simp [Ex.scrOk, Ex.okO]
  · intro n v
    simp [Ex.env1, Ex.dummyBatch, Ex.dummyItem, Ex.errO]

end Flyt.Props.C04
