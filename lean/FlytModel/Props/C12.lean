import FlytModel.Proofs.Pool
/-!
# C12 — Worker pool: tasks run exactly once, Wait is a barrier, Close leaks nothing

All statements are about **every reachable state / every path** of the pool LTS (`Model/Pool.lean`):
any number of submitting goroutines, any interleaving, any queue capacity, any pool size.
-/
namespace Flyt.Props.C12
open Flyt.Pool

/-- reflexive-transitive closure of `Step` -/
inductive Path : Pool → Pool → Prop
  | refl (p) : Path p p
  | step {p q r} : Path p q → Step q r → Path p r

theorem reachable_path {cap : Nat} {workers : Int} {p q : Pool} (hp : Reachable cap workers p) (h : Path p q) :
    Reachable cap workers q := by
  induction h with
  | refl => exact hp
  | step _ hs ih => exact .step ih hs

/-- **Never dropped**: along every path, a task that has been submitted (`wg.Add` done) is, for ever after,
    in exactly one of: waiting to be sent, queued, running, finished. -/
theorem never_dropped {p q : Pool} (h : Path p q) : ∀ t, t ∈ p.tasks → t ∈ q.tasks := by
  induction h with
  | refl => exact fun _ h => h
  | step _ hs ih => obtain ⟨l, hl⟩ := hs; exact fun t ht => tasks_mono hl t (ih t ht)

/-- **At most once**: in every reachable state a task occupies exactly one place — it is never queued
    twice, never run by two workers, never run again after it finished. -/
theorem at_most_once {cap : Nat} {workers : Int} {p : Pool} (h : Reachable cap workers p) :
    (p.pend ++ p.queue ++ p.running ++ p.finished).Nodup :=
  (inv_reachable h).nodup

/-- … in particular a finished task is not running or queued any more, and stays finished. -/
theorem finished_is_final {cap : Nat} {workers : Int} {p q : Pool} (hp : Reachable cap workers p) (h : Path p q)
    (t : Nat) (ht : t ∈ p.finished) : t ∈ q.finished ∧ t ∉ q.running ∧ t ∉ q.queue ∧ t ∉ q.pend := by
  have hq : t ∈ q.finished := by
    induction h with
    | refl => exact ht
    | step _ hs ih => obtain ⟨l, hl⟩ := hs; exact finished_mono hl t ih
  have nd := at_most_once (reachable_path hp h)
  simp only [List.nodup_append] at nd
  refine ⟨hq, ?_, ?_, ?_⟩ <;> (intro hc; grind)

/-- **Submit blocks rather than drops**: the send step is enabled only while the queue has room; a task
    whose send is not enabled simply stays pending (by `never_dropped`). -/
theorem send_needs_room {p q : Pool} {t : Nat} (h : apply p (.send t) = some q) :
    p.queue.length < p.cap ∧ t ∈ q.queue := by
  simp only [apply] at h
  split at h <;> simp at h
  rename_i hc
  subst h
  exact ⟨hc.2, by simp⟩

/-- **Wait is a barrier**: whenever `Wait` returns, every task submitted so far has finished. -/
theorem wait_barrier {cap : Nat} {workers : Int} {p q : Pool} (hp : Reachable cap workers p)
    (h : apply p .waitRet = some q) : ∀ t, t ∈ p.tasks → t ∈ q.finished := by
  have inv := inv_reachable hp
  simp only [apply] at h
  split at h <;> simp at h
  rename_i hc
  subst h
  have h0 := inv.wgEq
  rw [hc.2] at h0
  have e1 : p.pend = [] := List.eq_nil_of_length_eq_zero (by omega)
  have e2 : p.queue = [] := List.eq_nil_of_length_eq_zero (by omega)
  have e3 : p.running = [] := List.eq_nil_of_length_eq_zero (by omega)
  intro t ht
  simpa [Pool.tasks, e1, e2, e3] using ht

/-- … stated over a whole history: tasks submitted before some point `p` are all finished when a `Wait`
    returns at any later point — round after round on one pool. -/
theorem wait_barrier_history {cap : Nat} {workers : Int} {p q r : Pool} (hp : Reachable cap workers p)
    (hpq : Path p q) (h : apply q .waitRet = some r) : ∀ t, t ∈ p.tasks → t ∈ r.finished :=
  fun t ht => wait_barrier (reachable_path hp hpq) h t (never_dropped hpq t ht)

/-- `Wait` cannot return while a task is still pending, queued or running. -/
theorem wait_blocks {cap : Nat} {workers : Int} {p : Pool} (hp : Reachable cap workers p)
    (hbusy : p.pend ≠ [] ∨ p.queue ≠ [] ∨ p.running ≠ []) : apply p .waitRet = none := by
  have inv := inv_reachable hp
  simp only [apply]
  split
  · rename_i hc
    have h0 := inv.wgEq
    rw [hc.2] at h0
    rcases hbusy with h | h | h <;> (have := List.length_pos_iff.mpr h; omega)
  · rfl

/-- `n` workers leave one after the other -/
def exitAll : Nat → Pool → Pool
  | 0, p => p
  | n + 1, p => match apply p .exit with
    | some q => exitAll n q
    | none => p

theorem exitAll_spec (n : Nat) (p : Pool) (hc : p.closed = true) (hi : p.idle = n) :
    (exitAll n p).idle = 0 ∧ (exitAll n p).exited = p.exited + n ∧ Path p (exitAll n p) := by
  induction n generalizing p with
  | zero => exact ⟨by simpa [exitAll] using hi, by simp [exitAll], .refl p⟩
  | succ n ih =>
    have : apply p .exit = some { p with idle := p.idle - 1, exited := p.exited + 1 } := by
      simp [apply, hc, hi]
    simp only [exitAll, this]
    obtain ⟨a, b, c⟩ := ih { p with idle := p.idle - 1, exited := p.exited + 1 } (by simpa using hc) (by simp [hi])
    refine ⟨a, by rw [b]; simp; omega, ?_⟩
    -- prepend the first step
    have first : Path p { p with idle := p.idle - 1, exited := p.exited + 1 } := .step (.refl p) ⟨.exit, this⟩
    clear a b
    generalize exitAll n { p with idle := p.idle - 1, exited := p.exited + 1 } = z at c
    induction c with
    | refl => exact first
    | step _ hs ih2 => exact .step ih2 hs

/-- **Close leaks nothing**: after `Wait` has returned (`wg = 0`) and `Close` was called, no worker can take or
    run anything any more, every remaining worker can (only) leave, and when they have all done so every one
    of the `w` goroutines the pool started has terminated. -/
theorem close_leaks_nothing {cap : Nat} {workers : Int} {p : Pool} (hp : Reachable cap workers p)
    (hclosed : p.closed = true) (hwg : p.wg = 0) :
    apply p .take = none ∧ (∀ t, apply p (.finish t) = none) ∧
    (p.idle > 0 → (apply p .exit).isSome) ∧
    (exitAll p.idle p).exited = p.w ∧ (exitAll p.idle p).idle = 0 ∧ Path p (exitAll p.idle p) := by
  have inv := inv_reachable hp
  have h0 := inv.wgEq
  rw [hwg] at h0
  have e2 : p.queue = [] := List.eq_nil_of_length_eq_zero (by omega)
  have e3 : p.running = [] := List.eq_nil_of_length_eq_zero (by omega)
  obtain ⟨a, b, c⟩ := exitAll_spec p.idle p hclosed rfl
  refine ⟨by simp [apply, e2], by intro t; simp [apply, e3], ?_, ?_, a, c⟩
  · intro hi; simp [apply, hclosed, hi]
  · rw [b]; have := inv.workers; rw [e3] at this; simp at this; omega

/-- a pool size ≤ 0 means one worker; otherwise exactly that many -/
theorem pool_size (cap : Nat) (workers : Int) :
    (init cap workers).w = (if workers ≤ 0 then 1 else workers.toNat) ∧ (init cap workers).idle = (init cap workers).w := by
  simp [init]

/-! ### non-vacuity: a concrete history meets the hypotheses -/

/-- 2 workers, capacity 1: submit 0,1,2 (the third send has to wait), run, Wait, Close -/
def demo : Option Pool := do
  let p ← apply (init 1 2) (.add 0)
  let p ← apply p (.send 0)
  let p ← apply p .take
  let p ← apply p (.add 1)
  let p ← apply p (.send 1)
  let p ← apply p (.add 2)
  let p ← apply p .take
  let p ← apply p (.send 2)
  let p ← apply p .callWait
  let p ← apply p (.finish 0)
  let p ← apply p .take
  let p ← apply p (.finish 1)
  let p ← apply p (.finish 2)
  let p ← apply p .waitRet
  apply p .close

example : (demo.map fun p => (p.finished, p.wg, p.waitDone, p.closed, p.idle)) = some ([2, 1, 0], 0, 1, true, 2) := by decide
-- the third send is not enabled while the queue is full
example : (do
    let p ← apply (init 1 1) (.add 0); let p ← apply p (.send 0); let p ← apply p (.add 1)
    apply p (.send 1)) = none := by decide
-- Wait does not return while a task runs
example : (do
    let p ← apply (init 1 1) (.add 0); let p ← apply p (.send 0); let p ← apply p .take; let p ← apply p .callWait
    apply p .waitRet) = none := by decide

end Flyt.Props.C12
