import FlytModel.Proofs.L.Retry
import FlytModel.Proofs.L.LeafSpec
import FlytModel.Proofs.L.Visits
import FlytModel.Proofs.L.ConcRetry
/-!
# C02 — Retry budget and fallback are exact

Theorems about the retry loop + fallback of `flyt.Run` (`Flyt.runLeaf`, flyt.go:714-745) and about its
duplicate `runExecWithRetries` (`Flyt.runItem`, batch.go:304-344) for EVERY budget `N`, EVERY exec
outcome sequence (of any length), fallback absent / pass-through / succeeding / failing, EVERY node
kind / configuration, payload, wait setting, and — at the end — for every item of every batch run
(any number of items, any prep shape, sequential or worker pool in its serial schedule, stop or
continue mode).

Vocabulary (Proofs/Attempts.lean, Proofs/LeafFacts.lean, Proofs/Item.lean):
`FirstOk exec k` attempt `k` is the first one the script lets succeed · `AllFail exec N` the first `N`
attempts fail · `execCount tr` / `fbCalls tr` / `postCalls tr` the exec attempts / fallback calls / post
calls in a trace · `bexecCount i tr` / `bfbCalls i tr` the same for item `i` of a batch ·
`PrepDone cfg scr pv` prep handed `pv` to the exec phase (no prep callback, or it succeeded without
cancelling the context) · `NoCancel` no callback of the loop cancels the context and no wait is
interrupted (the statement's "attempted until the first success" presupposes an uncancelled run; the
upper bounds need no such hypothesis).
-/
namespace Flyt.Props.C02
open Flyt Flyt.Spec Flyt.Proofs.Attempts Flyt.Proofs.Leaf Flyt.Proofs.Item Flyt.Proofs.Retry Flyt.Proofs.LeafSpec

/-! ### scenario for the non-vacuity examples: budget 3, custom fallback; attempts 0, 1 fail -/
def exCfg : LeafCfg :=
  { retryable := true, budget := 3, wait := 5, fb := .custom, prepS := .direct, execS := .direct, postS := .direct }
def exScr (firstOk : Nat) : LeafScript :=
  { prep := { res := .ok (.tok 7) },
    exec := fun k => if k < firstOk then { res := .error (100 + k) } else { res := .ok (.tok 9) },
    waitCancel := fun _ => false, fb := { res := .ok (.tok 5) }, post := { res := .ok "next" } }

theorem ex_hyps (f : Nat) : NoCancel exCfg (exScr f) ∧ PrepDone exCfg (exScr f) (.tok 7) ∧ exCfg.execS ≠ .absent ∧
    1 ≤ exCfg.effBudget :=
  ⟨⟨rfl, fun k => by unfold exScr; dsimp only; split <;> rfl, Or.inr fun _ => rfl⟩, ⟨rfl, Or.inr rfl⟩, by decide, by decide⟩

theorem ex_firstOk (f : Nat) : FirstOk (exScr f).exec f :=
  ⟨⟨.tok 9, by simp [exScr]⟩, fun j hj => ⟨100 + j, by simp [exScr, hj]⟩⟩

/-! ### `Run` on a single node -/

/-- **Never more than `N` attempts, and never an attempt after the first success** — in every
    scenario, including every pattern of cancellation. -/
theorem attempts_never_exceed (kind : CtxKind) (n v sid : Nat) (cfg : LeafCfg) (scr : LeafScript) :
    execCount (runLeaf kind n v sid cfg scr .live).1 ≤ cfg.effBudget ∧
    ∀ k, FirstOk scr.exec k → execCount (runLeaf kind n v sid cfg scr .live).1 ≤ min (k + 1) cfg.effBudget :=
  leaf_count_le (runLeaf_live_spec kind n v sid cfg scr)

/-- **Exactly `min (k+1) N` attempts** where `k` is the index of the first succeeding attempt
    (0-based; the statement's "min(k, N)" with 1-based `k`), and exactly `N` when none of the first `N`
    succeeds. -/
theorem attempts_exact (kind : CtxKind) (n v sid : Nat) (cfg : LeafCfg) (scr : LeafScript)
    (hnc : NoCancel cfg scr) {pv : Val} (hd : PrepDone cfg scr pv) (hS : cfg.execS ≠ .absent) :
    (∀ k, FirstOk scr.exec k → execCount (runLeaf kind n v sid cfg scr .live).1 = min (k + 1) cfg.effBudget) ∧
    (AllFail scr.exec cfg.effBudget → execCount (runLeaf kind n v sid cfg scr .live).1 = cfg.effBudget) :=
  leaf_count_exact (runLeaf_live_spec kind n v sid cfg scr) (runLeaf_noCancel kind n v sid cfg scr hnc) hd hS

-- first success at attempt 1 of 3: two attempts; at attempt 7 of 3: three attempts
example : execCount (runLeaf .canceled 4 0 1 exCfg (exScr 1) .live).1 = 2 := by decide
example : execCount (runLeaf .canceled 4 0 1 exCfg (exScr 7) .live).1 = 3 := by decide

/-- **The attempts are numbered 0, 1, 2, …** (and each gets the prep value, see C01). -/
theorem attempts_numbered (kind : CtxKind) (n v sid : Nat) (cfg : LeafCfg) (scr : LeafScript)
    {pv : Val} (hd : PrepDone cfg scr pv) :
    (runLeaf kind n v sid cfg scr .live).1.filter isExecEv =
      (List.range (execCount (runLeaf kind n v sid cfg scr .live).1)).map
        (fun k => Ev.exec n v k (execArg cfg.execS pv)) :=
  leaf_numbered (runLeaf_live_spec kind n v sid cfg scr) hd

/-- **The fallback is invoked at most once, only by a node that has one, only after all `N` attempts
    were made and failed — never after a success — and with the prep value and the error of the LAST
    attempt** (every scenario, including every pattern of cancellation). -/
theorem fallback_only_after_exhaustion (kind : CtxKind) (n v sid : Nat) (cfg : LeafCfg) (scr : LeafScript) :
    fbCalls (runLeaf kind n v sid cfg scr .live).1 = [] ∨
    (cfg.fb = .custom ∧ execCount (runLeaf kind n v sid cfg scr .live).1 = cfg.effBudget ∧
      AllFail scr.exec cfg.effBudget ∧
      ∃ j e pv, cfg.effBudget = j + 1 ∧ (scr.exec j).res = .error e ∧ PrepDone cfg scr pv ∧
        fbCalls (runLeaf kind n v sid cfg scr .live).1 = [.fb n v pv (.user e)]) :=
  leaf_fb_only_if (runLeaf_live_spec kind n v sid cfg scr)

/-- **… and it is invoked (exactly once, by the theorem above) if and only if all `N` attempts failed**
    (and the node has a fallback of its own). -/
theorem fallback_iff_all_failed (kind : CtxKind) (n v sid : Nat) (cfg : LeafCfg) (scr : LeafScript)
    (hnc : NoCancel cfg scr) {pv : Val} (hd : PrepDone cfg scr pv) (hS : cfg.execS ≠ .absent) (hb : 1 ≤ cfg.effBudget) :
    fbCalls (runLeaf kind n v sid cfg scr .live).1 ≠ [] ↔ (cfg.fb = .custom ∧ AllFail scr.exec cfg.effBudget) :=
  leaf_fb_iff (runLeaf_live_spec kind n v sid cfg scr) (runLeaf_noCancel kind n v sid cfg scr hnc) hd hS hb

example : fbCalls (runLeaf .canceled 4 0 1 exCfg (exScr 7) .live).1 = [.fb 4 0 (.tok 7) (.user 102)] := by decide
example : fbCalls (runLeaf .canceled 4 0 1 exCfg (exScr 2) .live).1 = [] := by decide

/-- **The fallback's outcome replaces the exec outcome.**  The post phase (`PostEnd`: post's events
    and the run's outcome as a function of the exec phase's result `res`) is entered with
    * the first success's value, no fallback call, when an attempt `k < N` succeeds;
    * the last attempt's error, no fallback call — and that error is the run's — when all fail and the
      node has no fallback of its own;
    * the fallback's value / the fallback's error, after exactly one call with the last error, when
      all fail and it has one. -/
theorem outcome_after_retries (kind : CtxKind) (n v sid : Nat) (cfg : LeafCfg) (scr : LeafScript)
    (hnc : NoCancel cfg scr) {pv : Val} (hd : PrepDone cfg scr pv) (hS : cfg.execS ≠ .absent) (hb : 1 ≤ cfg.effBudget) :
    ∃ res, PostEnd n v sid cfg scr pv res (postCalls (runLeaf kind n v sid cfg scr .live).1)
        (runLeaf kind n v sid cfg scr .live).2.2 ∧
      (∀ k y, FirstOk scr.exec k → k < cfg.effBudget → (scr.exec k).res = .ok y →
          res = .ok (execRet cfg.execS y) ∧ fbCalls (runLeaf kind n v sid cfg scr .live).1 = []) ∧
      (AllFail scr.exec cfg.effBudget → cfg.fb ≠ .custom →
          ∃ e, (scr.exec (cfg.effBudget - 1)).res = .error e ∧ res = .error (.user e) ∧
            fbCalls (runLeaf kind n v sid cfg scr .live).1 = [] ∧
            (runLeaf kind n v sid cfg scr .live).2.2 = .err (.user e)) ∧
      (AllFail scr.exec cfg.effBudget → cfg.fb = .custom →
          ∃ e, (scr.exec (cfg.effBudget - 1)).res = .error e ∧
            fbCalls (runLeaf kind n v sid cfg scr .live).1 = [.fb n v pv (.user e)] ∧
            res = (match scr.fb.res with | .ok x => .ok x | .error e' => .error (.user e'))) :=
  leaf_result (runLeaf_live_spec kind n v sid cfg scr) (runLeaf_noCancel kind n v sid cfg scr hnc) hd hS hb

example : ∀ f, NoCancel exCfg (exScr f) ∧ PrepDone exCfg (exScr f) (.tok 7) ∧ exCfg.execS ≠ .absent ∧ 1 ≤ exCfg.effBudget :=
  ex_hyps
example : FirstOk (exScr 1).exec 1 ∧ AllFail (exScr 7).exec exCfg.effBudget :=
  ⟨ex_firstOk 1, fun j hj => ⟨100 + j, by
    have : j < 3 := hj
    simp only [exScr]; rw [if_pos (by omega)]⟩⟩
-- the fallback's value (token 5) is what post receives
example : postCalls (runLeaf .canceled 4 0 1 exCfg (exScr 7) .live).1 = [.post 4 0 1 (.tok 7) (.tok 5)] := by decide

/-- **A node that does not expose retry settings gets exactly one attempt** — whatever its script,
    whatever is cancelled when. -/
theorem nonretryable_single_attempt (kind : CtxKind) (n v sid : Nat) (cfg : LeafCfg) (scr : LeafScript)
    (hr : cfg.retryable = false) {pv : Val} (hd : PrepDone cfg scr pv) (hS : cfg.execS ≠ .absent) :
    execCount (runLeaf kind n v sid cfg scr .live).1 = 1 :=
  leaf_single_attempt (runLeaf_live_spec kind n v sid cfg scr) (by simp [LeafCfg.effBudget, hr]) hd hS

example : execCount (runLeaf .canceled 4 0 1 { exCfg with retryable := false } (exScr 7) .live).1 = 1 := by decide

/-! ### bridge: the per-visit predicate the driver evaluates -/

theorem c02Visit_bridge (kind : CtxKind) (n v sid : Nat) (cfg : LeafCfg) (scr : LeafScript) (hnc : NoCancel cfg scr) :
    c02Visit cfg scr (runLeaf kind n v sid cfg scr .live).1 = true :=
  c02Visit_of_leafRun (runLeaf_live_spec kind n v sid cfg scr) (runLeaf_noCancel kind n v sid cfg scr hnc)

/-- … inside flows: every group of the trace of a run of any node (any flow shape, nesting, routing)
    that belongs to a plain / function-style node satisfies `c02Visit`, when no callback cancels -/
theorem c02Visit_flow_bridge (env : Env) (fuel : Nat) (root : NodeId) (sid : StoreId) (st : RunSt)
    (hnc : ∀ n v cfg, env.arena n = .leaf cfg → NoCancel cfg (env.leafBeh n v)) :
    ∀ p ∈ segments (noWaits (runNode env fuel root sid st).1), ∀ cfg, env.arena p.1.1 = .leaf cfg →
      c02Visit cfg (env.leafBeh p.1.1 p.1.2) p.2 = true := by
  intro p hp cfg hcfg
  rcases ((Flyt.Proofs.Visits.run_visits env sid fuel).1 root st).segments_mem p hp with ⟨cfg', ha, hseg⟩ | ⟨cfg', ha⟩
  · rw [hcfg] at ha; cases ha
    rw [hseg, c02Visit_noWaits]
    exact c02Visit_bridge env.kind p.1.1 p.1.2 sid cfg _ (hnc _ _ cfg hcfg)
  · rw [hcfg] at ha; cases ha

/-- **the cancellation-proof clauses of C02, as the driver judges them on EVERY run** (`Spec.c02Bounds`): at most
    `N` attempts, every attempt but the last failed, the fallback at most once and only after `N` failed
    attempts, with the prep value and the last error — no hypothesis about what cancels the context when, about
    the configuration (no exec callback, budget 0, …) or about the script -/
theorem c02Bounds_bridge (kind : CtxKind) (n v sid : Nat) (cfg : LeafCfg) (scr : LeafScript) :
    c02Bounds cfg scr (runLeaf kind n v sid cfg scr .live).1 = true :=
  c02Bounds_of_leafRun (runLeaf_live_spec kind n v sid cfg scr)

/-- … inside flows: every group of the trace of a run of any node (any flow shape, nesting, routing, any
    pattern of cancellation, any context at the start) that belongs to a plain / function-style node
    satisfies `c02Bounds` -/
theorem c02Bounds_flow_bridge (env : Env) (fuel : Nat) (root : NodeId) (sid : StoreId) (st : RunSt) :
    ∀ p ∈ segments (noWaits (runNode env fuel root sid st).1), ∀ cfg, env.arena p.1.1 = .leaf cfg →
      c02Bounds cfg (env.leafBeh p.1.1 p.1.2) p.2 = true := by
  intro p hp cfg hcfg
  rcases ((Flyt.Proofs.Visits.run_visits env sid fuel).1 root st).segments_mem p hp with ⟨cfg', ha, hseg⟩ | ⟨cfg', ha⟩
  · rw [hcfg] at ha; cases ha
    rw [hseg, c02Bounds_noWaits]
    exact c02Bounds_bridge env.kind p.1.1 p.1.2 sid cfg _
  · rw [hcfg] at ha; cases ha

/-- the example script, with the context cancelled asynchronously during the retry wait before attempt `w` and
    (if `c`) by attempt 2 itself -/
def exScrCancel (firstOk w : Nat) (c : Bool) : LeafScript :=
  { exScr firstOk with
    waitCancel := fun k => k == w,
    exec := fun k => { (exScr firstOk).exec k with cancels := c && k == 2 } }

-- cut short during the wait before attempt 2 (2 of 3 attempts, no fallback): `c02Bounds` holds, `c02Visit` does not
example : execCount (runLeaf .canceled 4 0 1 exCfg (exScrCancel 7 2 false) .live).1 = 2 ∧
    (runLeaf .canceled 4 0 1 exCfg (exScrCancel 7 2 false) .live).2.2 = .err (.ctx .canceled) ∧
    c02Bounds exCfg (exScrCancel 7 2 false) (runLeaf .canceled 4 0 1 exCfg (exScrCancel 7 2 false) .live).1 = true ∧
    c02Visit exCfg (exScrCancel 7 2 false) (runLeaf .canceled 4 0 1 exCfg (exScrCancel 7 2 false) .live).1 = false := by
  decide
-- the last attempt cancels the context and fails: all 3 attempts were made, the fallback still runs once (the
-- fallback branch of `c02Bounds`: custom fallback, `m = N`, all failed, prep value and last error)
example : fbCalls (runLeaf .canceled 4 0 1 exCfg (exScrCancel 7 9 true) .live).1 = [.fb 4 0 (.tok 7) (.user 102)] ∧
    c02Bounds exCfg (exScrCancel 7 9 true) (runLeaf .canceled 4 0 1 exCfg (exScrCancel 7 9 true) .live).1 = true := by
  decide
-- the predicate is not trivially true: it rejects a 4th attempt, an attempt after a success, a fallback call
-- after 2 of 3 attempts and a fallback call with another error
example : c02Bounds exCfg (exScr 7) ((List.range 4).map fun k => Ev.exec 4 0 k (.tok 7)) = false ∧
    c02Bounds exCfg (exScr 0) ((List.range 2).map fun k => Ev.exec 4 0 k (.tok 7)) = false ∧
    c02Bounds exCfg (exScr 7) (((List.range 2).map fun k => Ev.exec 4 0 k (.tok 7)) ++ [.fb 4 0 (.tok 7) (.user 101)]) = false ∧
    c02Bounds exCfg (exScr 7) (((List.range 3).map fun k => Ev.exec 4 0 k (.tok 7)) ++ [.fb 4 0 (.tok 7) (.user 101)]) = false := by
  decide
-- no exec callback / budget 0 (a node whose `maxRetries` is 0): no side condition is needed there either
example : c02Bounds { exCfg with execS := .absent } (exScr 7)
      (runLeaf .canceled 4 0 1 { exCfg with execS := .absent } (exScr 7) .live).1 = true ∧
    ({ exCfg with budget := 0 } : LeafCfg).effBudget = 0 ∧
    c02Bounds { exCfg with budget := 0 } (exScr 7) (runLeaf .canceled 4 0 1 { exCfg with budget := 0 } (exScr 7) .live).1 = true := by
  decide

/-! ### every item of a batch: `runExecWithRetries` (the duplicated loop) -/

def exBatch : BatchCfg :=
  { budget := 3, wait := 0, fb := .custom, conc := 0, stop := false, execS := .any, hasPost := true, shape := .anys }
def exItem (firstOk : Nat) : ItemScript :=
  { exec := fun k => if k < firstOk then { res := .error (100 + k) } else { res := .ok (.tok 9) },
    waitCancel := fun _ => false, fb := { res := .ok (.tok 5) } }

/-- never more than `N` attempts on an item, never one after its first success (every scenario) -/
theorem item_attempts_never_exceed (kind : CtxKind) (n v : Nat) (cfg : BatchCfg) (i : Nat) (item : Result)
    (scr : ItemScript) (c : Ctx) :
    bexecCount i (runItem kind n v cfg i item scr c).1 ≤ cfg.budget ∧
    ∀ k, FirstOk scr.exec k → bexecCount i (runItem kind n v cfg i item scr c).1 ≤ min (k + 1) cfg.budget :=
  item_count_le c

/-- exactly `min (k+1) N` attempts on an item / exactly `N` when all fail -/
theorem item_attempts_exact (kind : CtxKind) (n v : Nat) (cfg : BatchCfg) (i : Nat) (item : Result) (scr : ItemScript)
    (hnc : Flyt.Proofs.Item.NoCancel cfg scr) (hS : cfg.execS ≠ .absent) :
    (∀ k, FirstOk scr.exec k → bexecCount i (runItem kind n v cfg i item scr .live).1 = min (k + 1) cfg.budget) ∧
    (AllFail scr.exec cfg.budget → bexecCount i (runItem kind n v cfg i item scr .live).1 = cfg.budget) :=
  item_count_exact hnc hS

/-- the item's attempts are numbered 0, 1, 2, … and each receives the item -/
theorem item_attempts_numbered (kind : CtxKind) (n v : Nat) (cfg : BatchCfg) (i : Nat) (item : Result) (scr : ItemScript) :
    (runItem kind n v cfg i item scr .live).1.filter (isBexecOf i) =
      (List.range (bexecCount i (runItem kind n v cfg i item scr .live).1)).map
        (fun k => Ev.bexec n v i k (execArg cfg.execS item.box)) :=
  item_numbered

/-- the item's fallback: at most once, only after all `N` attempts failed, with the item and the LAST error -/
theorem item_fallback_only_after_exhaustion (kind : CtxKind) (n v : Nat) (cfg : BatchCfg) (i : Nat) (item : Result)
    (scr : ItemScript) (c : Ctx) :
    bfbCalls i (runItem kind n v cfg i item scr c).1 = [] ∨
    (cfg.fb = .custom ∧ bexecCount i (runItem kind n v cfg i item scr c).1 = cfg.budget ∧ AllFail scr.exec cfg.budget ∧
      ∃ j e, cfg.budget = j + 1 ∧ (scr.exec j).res = .error e ∧
        bfbCalls i (runItem kind n v cfg i item scr c).1 = [.bfb n v i item.box (.user e)]) :=
  item_fb_only_if c

theorem item_fallback_iff_all_failed (kind : CtxKind) (n v : Nat) (cfg : BatchCfg) (i : Nat) (item : Result)
    (scr : ItemScript) (hnc : Flyt.Proofs.Item.NoCancel cfg scr) (hS : cfg.execS ≠ .absent) (hb : 1 ≤ cfg.budget) :
    bfbCalls i (runItem kind n v cfg i item scr .live).1 ≠ [] ↔ (cfg.fb = .custom ∧ AllFail scr.exec cfg.budget) :=
  item_fb_iff hnc hS hb

/-- what ends up in the item's slot / the error reported for the item: the first success's value, the
    last error, or the fallback's outcome -/
theorem item_outcome_after_retries (kind : CtxKind) (n v : Nat) (cfg : BatchCfg) (i : Nat) (item : Result)
    (scr : ItemScript) (hnc : Flyt.Proofs.Item.NoCancel cfg scr) (hS : cfg.execS ≠ .absent) (hb : 1 ≤ cfg.budget) :
    (∀ k y, FirstOk scr.exec k → k < cfg.budget → (scr.exec k).res = .ok y →
        (runItem kind n v cfg i item scr .live).2.2 = .slot (slotOfVal (execRet cfg.execS y)) ∧
        bfbCalls i (runItem kind n v cfg i item scr .live).1 = []) ∧
    (AllFail scr.exec cfg.budget → cfg.fb ≠ .custom →
        ∃ e, (scr.exec (cfg.budget - 1)).res = .error e ∧
          (runItem kind n v cfg i item scr .live).2.2 = .error (.user e) ∧
          bfbCalls i (runItem kind n v cfg i item scr .live).1 = []) ∧
    (AllFail scr.exec cfg.budget → cfg.fb = .custom →
        ∃ e, (scr.exec (cfg.budget - 1)).res = .error e ∧
          bfbCalls i (runItem kind n v cfg i item scr .live).1 = [.bfb n v i item.box (.user e)] ∧
          (runItem kind n v cfg i item scr .live).2.2 =
            (match scr.fb.res with | .ok x => .slot (slotOfVal x) | .error e' => .error (.user e'))) :=
  item_result hnc hS hb

example : Flyt.Proofs.Item.NoCancel exBatch (exItem 7) ∧ exBatch.execS ≠ .absent ∧ 1 ≤ exBatch.budget :=
  ⟨⟨fun k => by unfold exItem; dsimp only; split <;> rfl, Or.inl rfl⟩, by decide, by decide⟩
example : (runItem .canceled 2 0 exBatch 1 (newResult (.tok 3)) (exItem 7) .live).1 =
    [.bexec 2 0 1 0 (.tok 3), .bexec 2 0 1 1 (.tok 3), .bexec 2 0 1 2 (.tok 3),
     .bfb 2 0 1 (.res (.tok 3) none) (.user 102)] := by decide

/-! ### … inside a whole batch run: no counter is shared between items -/

/-- **In the trace of a whole batch run, the events of item `i` are either none (the item was never
    executed: stop mode / cancellation) or exactly the events of `runExecWithRetries` on the `i`-th
    item that prep produced, with item `i`'s own script** — so all item theorems above hold for every
    item of every batch, independently of what the other items do. -/
theorem batch_item_own_loop (kind : CtxKind) (n v sid : Nat) (cfg : BatchCfg) (scr : BatchScript) (ctx : Ctx) (i : Nat) :
    (runBatch kind n v sid cfg scr ctx).1.filter (isItemEv i) = [] ∨
    ∃ l it c, scr.prep.res = .ok l ∧ (normItems cfg.shape l)[i]? = some it ∧
      (runBatch kind n v sid cfg scr ctx).1.filter (isItemEv i) = (runItem kind n v cfg i it (scr.item i) c).1 :=
  Flyt.Proofs.BatchItems.runBatch_item kind n v sid cfg scr ctx i

/-- per item of a whole batch run: never more than `N` attempts, never one after the item's first
    success, fallback at most once and only after the item's `N` failures (every scenario) -/
theorem batch_item_bounds (kind : CtxKind) (n v sid : Nat) (cfg : BatchCfg) (scr : BatchScript) (ctx : Ctx) (i : Nat) :
    bexecCount i (runBatch kind n v sid cfg scr ctx).1 ≤ cfg.budget ∧
    (∀ k, FirstOk (scr.item i).exec k → bexecCount i (runBatch kind n v sid cfg scr ctx).1 ≤ min (k + 1) cfg.budget) ∧
    (bfbCalls i (runBatch kind n v sid cfg scr ctx).1 = [] ∨
      (cfg.fb = .custom ∧ bexecCount i (runBatch kind n v sid cfg scr ctx).1 = cfg.budget ∧
        AllFail (scr.item i).exec cfg.budget ∧ (bfbCalls i (runBatch kind n v sid cfg scr ctx).1).length = 1)) := by
  obtain ⟨h1, h2⟩ := count_filter i (runBatch kind n v sid cfg scr ctx).1
  rw [← h1, ← h2]
  rcases batch_item_own_loop kind n v sid cfg scr ctx i with h0 | ⟨l, it, c, _, _, hev⟩
  · rw [h0]; simp [bexecCount, bfbCalls]
  · rw [hev]
    obtain ⟨ha, hb⟩ := item_count_le (kind := kind) (n := n) (v := v) (cfg := cfg) (i := i) (item := it)
      (scr := scr.item i) c
    refine ⟨ha, hb, ?_⟩
    rcases item_fb_only_if (kind := kind) (n := n) (v := v) (cfg := cfg) (i := i) (item := it)
      (scr := scr.item i) c with h | ⟨x1, x2, x3, j, e, _, _, x4⟩
    · exact Or.inl h
    · exact Or.inr ⟨x1, x2, x3, by rw [x4]; rfl⟩

/-- per item of a whole batch run that was executed and not disturbed by cancellation: exactly
    `min (k+1) N` attempts, fallback iff all `N` failed -/
theorem batch_item_exact (kind : CtxKind) (n v sid : Nat) (cfg : BatchCfg) (scr : BatchScript) (ctx : Ctx) (i : Nat)
    (hrun : (runBatch kind n v sid cfg scr ctx).1.filter (isItemEv i) ≠ [])
    (hnc : Flyt.Proofs.Item.NoCancel cfg (scr.item i)) (hS : cfg.execS ≠ .absent) (hb : 1 ≤ cfg.budget) :
    (∀ k, FirstOk (scr.item i).exec k → bexecCount i (runBatch kind n v sid cfg scr ctx).1 = min (k + 1) cfg.budget) ∧
    (AllFail (scr.item i).exec cfg.budget → bexecCount i (runBatch kind n v sid cfg scr ctx).1 = cfg.budget) ∧
    (bfbCalls i (runBatch kind n v sid cfg scr ctx).1 ≠ [] ↔ (cfg.fb = .custom ∧ AllFail (scr.item i).exec cfg.budget)) := by
  obtain ⟨h1, h2⟩ := count_filter i (runBatch kind n v sid cfg scr ctx).1
  rw [← h1, ← h2]
  rcases batch_item_own_loop kind n v sid cfg scr ctx i with h0 | ⟨l, it, c, _, _, hev⟩
  · exact absurd h0 hrun
  · rw [hev] at hrun ⊢
    cases c with
    | done kd => rw [runItem_eq] at hrun; simp [itemPhase_done] at hrun
    | live =>
      obtain ⟨ha, hb'⟩ := item_count_exact (kind := kind) (n := n) (v := v) (cfg := cfg) (i := i) (item := it)
        (scr := scr.item i) hnc hS
      exact ⟨ha, hb', item_fb_iff hnc hS hb⟩

def exBatchScr : BatchScript :=
  { prep := { res := .ok [.tok 1, .tok 2, .tok 3] }, post := { res := .ok "" },
    item := fun i => if i = 1 then exItem 7 else exItem i }

-- three items: item 0 succeeds at once, item 1 fails three times and falls back, item 2 succeeds at
-- its third attempt — each with its own count
example : ((List.range 3).map fun i => bexecCount i (runBatch .canceled 2 0 0 exBatch exBatchScr .live).1) = [1, 3, 3] ∧
    ((List.range 3).map fun i => (bfbCalls i (runBatch .canceled 2 0 0 exBatch exBatchScr .live).1).length) = [0, 1, 0] := by
  decide

-- the hypotheses of `batch_item_exact` for item 1 of the example (it was executed, nothing cancels)
example : (runBatch .canceled 2 0 0 exBatch exBatchScr .live).1.filter (isItemEv 1) ≠ [] ∧
    exBatch.execS ≠ .absent ∧ 1 ≤ exBatch.budget := by decide
example : Flyt.Proofs.Item.NoCancel exBatch (exBatchScr.item 1) := by
  have : exBatchScr.item 1 = exItem 7 := rfl
  rw [this]
  exact ⟨fun k => by unfold exItem; dsimp only; split <;> rfl, Or.inl rfl⟩

/-- a flow 0 = node 1 —next→ node 2, both with the retry configuration of the examples -/
def exEnv : Env :=
  { kind := .canceled,
    arena := fun id => if id = 0 then .flow (some 1) [⟨1, "next", some 2⟩] else .leaf exCfg,
    leafBeh := fun id _ => exScr id,
    batchBeh := fun _ _ => exBatchScr }

-- the hypothesis of `c02Visit_flow_bridge` on it, and its trace: node 1 succeeds at its 2nd attempt, node 2 at its 3rd
example : ∀ n v cfg, exEnv.arena n = .leaf cfg → NoCancel cfg (exEnv.leafBeh n v) := by
  intro n v cfg h
  have hc : cfg = exCfg := by
    simp only [exEnv] at h
    split at h <;> simp at h
    exact h.symm
  subst hc
  exact (ex_hyps n).1
example : execCount ((runNode exEnv 5 0 1 { ctx := .live, visits := fun _ => 0 }).1.filter (fun e => (evKey e).1 == 1)) = 2 ∧
    execCount ((runNode exEnv 5 0 1 { ctx := .live, visits := fun _ => 0 }).1.filter (fun e => (evKey e).1 == 2)) = 3 := by
  decide

/-! ### … and under EVERY schedule of the concurrent executor (`runBatchConcurrent` on the worker pool)

`Flyt.Conc` (Model/BatchConc.lean) is the labelled transition system of the concurrent batch executor:
submitter, task channel, `w` workers, the per-task steps (stop check, context check, retry loop, gated
exec call, fallback, slot store) and cancellation from anywhere, interleaved arbitrarily.
`Reachable c s`: `s` is reachable from `Conc.init c` by any sequence of labels.  `s.log.reverse` is the
sequence of callback events so far (oldest first); `Spec.itemStarts ev i` / `Spec.itemFbs ev i` are the
attempt numbers of item `i`'s exec calls / the number of its fallback calls in it. -/

open Flyt.Proofs.ConcRetry in
/-- **At every moment of every schedule**: the exec calls of item `i` so far are attempts
    `0, 1, …, m-1` in this order, `m ≤ N`, every one of them but the last failed (so none after a
    success: `m ≤ k+1` for the first succeeding attempt `k`), and the item's fallback ran at most once
    — only if the node has one and all `N` attempts had been made and failed. -/
theorem concurrent_item_bounds (c : Conc.Cfg) (s : Conc.BState) (h : Reachable c s) (i : Nat) :
    ∃ m, itemStarts s.log.reverse i = List.range m ∧ m ≤ c.budget ∧
      (∀ j, j + 1 < m → ∃ e, (c.exec i j).res = .error e) ∧
      (∀ k, FirstOk (c.exec i) k → m ≤ min (k + 1) c.budget) ∧
      itemFbs s.log.reverse i ≤ 1 ∧
      (itemFbs s.log.reverse i = 1 → c.fb = .custom ∧ m = c.budget ∧ AllFail (c.exec i) c.budget) :=
  reachable_bounded h i

open Flyt.Proofs.ConcRetry in
/-- **Once the task of item `i` is over, in a run that was not cancelled**: either the item was never
    executed (stop mode skipped it), or exactly the attempts `0 … min (k+1) N - 1` were made, with no
    fallback call when an attempt `k < N` succeeded and exactly one (for a node that has a fallback)
    when all `N` failed — whatever the other items and workers did meanwhile. -/
theorem concurrent_item_exact (c : Conc.Cfg) (s : Conc.BState) (h : Reachable c s) (hnc : s.cancelled = false)
    (i : Nat) (hover : TaskOver s i) :
    itemStarts s.log.reverse i = [] ∨
    ((∀ k, FirstOk (c.exec i) k → itemStarts s.log.reverse i = List.range (min (k + 1) c.budget)) ∧
     (∀ k, FirstOk (c.exec i) k → k < c.budget → itemFbs s.log.reverse i = 0) ∧
     (AllFail (c.exec i) c.budget → itemStarts s.log.reverse i = List.range c.budget ∧
        itemFbs s.log.reverse i = (if c.fb = .custom then 1 else 0))) :=
  reachable_exact h hnc i hover

/-- two items on two workers, budget 2: item 0 fails twice (fallback), item 1 succeeds at once -/
def exConc : Conc.Cfg :=
  { n := 2, w := 2, cap := 4, stop := false, budget := 2, fb := .custom, execS := .any,
    exec := fun i k => if i = 0 then { res := .error k } else { res := .ok (.tok 9) },
    fbOut := fun _ => { res := .ok (.tok 5) }, kind := .canceled }

/-- an interleaved schedule: both tasks are in their exec call at the same time; item 1 returns first -/
def exSchedule : List Conc.Label :=
  [.submit, .submit, .take, .take, .step 0, .step 1, .step 0, .step 1, .step 0, .step 1,
   .ret 1, .ret 0, .step 1, .step 0, .ret 0, .step 0, .step 0, .waitRet]

def runSchedule (c : Conc.Cfg) : List Conc.Label → Conc.BState → Option Conc.BState
  | [], s => some s
  | l :: ls, s => (Conc.apply c s l).bind (runSchedule c ls)

theorem runSchedule_reachable (c : Conc.Cfg) : ∀ (ls : List Conc.Label) (s s' : Conc.BState),
    Flyt.Proofs.ConcRetry.Reachable c s → runSchedule c ls s = some s' → Flyt.Proofs.ConcRetry.Reachable c s'
  | [], s, s', hs, h => by simp [runSchedule] at h; subst h; exact hs
  | l :: ls, s, s', hs, h => by
    simp only [runSchedule] at h
    cases hl : Conc.apply c s l with
    | none => simp [hl] at h
    | some s1 => simp only [hl, Option.bind] at h; exact runSchedule_reachable c ls s1 s' (.step hs hl) h

-- the schedule is a path of the LTS; at its end both tasks are over, nothing was cancelled, and the log shows
-- item 0: attempts 0, 1 and one fallback call; item 1: attempt 0 only
example : ((runSchedule exConc exSchedule (Conc.init exConc)).map fun s =>
    (s.log.reverse, s.cancelled, s.posted, s.next, s.queue, s.running.length)) =
    some ([.start 0 0, .start 1 0, .done 1 0, .done 0 0, .start 0 1, .done 0 1, .fb 0, .post], false, true, 2, [], 0) := by
  rfl

end Flyt.Props.C02
