import FlytModel.Proofs.StoreConc
import FlytModel.Generated.Facts
/-!
# C13 — the shared store is linearizable (every interleaving), given its lock discipline

Two obligations:
1. **Facts** (regenerated from /repo on every run): every method of `*SharedStore` either runs its whole
   body inside one critical section of the right kind, or derives its answer from a single call of such a
   method. `decide`d on the generated table — a narrowed or split lock breaks this theorem.
2. **Theorem** (for every number of threads, every operation with any number of micro-steps, every
   interleaving): under the RW-lock protocol each operation takes effect atomically at its acquire step —
   the recorded order of acquire steps is a legal sequential history whose results are exactly what the
   operations return, and it respects real time because each acquire lies between the operation's invocation
   and its return. No reader ever observes part of a writer's update (a writer inside is alone).
-/
namespace Flyt.Props.C13
open Flyt.StoreConc Flyt.Facts

/-- **Obligation 1**: the lock discipline extracted from the current source is well-formed. -/
theorem store_facts_wellLocked : storeWellLocked Flyt.Generated.storeFacts = true := by decide

variable {S L : Type}

/-- all threads idle, ghost state = real state, empty history -/
def initSys (s0 : S) : Sys S L := { s := s0, g := s0, th := fun _ => .idle, lin := [] }

inductive Reachable (s0 : S) : Sys S L → Prop
  | init : Reachable s0 (initSys s0)
  | step {σ σ'} : Reachable s0 σ → Step σ σ' → Reachable s0 σ'

theorem inv_init (s0 : S) : Inv (initSys (L := L) s0) := by
  refine ⟨?_, ?_, ?_, ?_, ?_⟩ <;> simp [initSys, Sys.writerInside]

/-- the invariant and the legality of the linearisation hold in every reachable state -/
theorem reachable_inv {s0 : S} {σ : Sys S L} (h : Reachable s0 σ) : Inv σ ∧ Legal s0 σ.lin σ.g := by
  induction h with
  | init => exact ⟨inv_init s0, .nil⟩
  | step _ hs ih => exact ⟨step_preserves _ _ ih.1 hs, legal_step s0 _ _ ih.1 ih.2 hs⟩

/-- **Linearizability.** In every reachable state, for every interleaving:
    * the order of acquire steps `lin` is a legal sequential history from the initial state, ending in the
      ghost state `g` (each operation applied atomically, each recorded result being the atomic result);
    * every completed operation returned exactly the result recorded for it at its linearisation point;
    * whenever no writer is inside, the real map equals the atomic one. -/
theorem linearizable {s0 : S} {σ : Sys S L} (h : Reachable s0 σ) :
    Legal s0 σ.lin σ.g ∧ (∀ t l p, σ.th t = .done l p → l = p) ∧ (¬ σ.writerInside → σ.s = σ.g) :=
  ⟨(reachable_inv h).2, (reachable_inv h).1.fin, (reachable_inv h).1.sync⟩

/-- **Merge and Clear are atomic for everybody else**: while a writer is inside its critical section no
    other thread is inside one, so nobody can observe a partial update; and a reader that is inside will
    return exactly what it would have returned had it run atomically at its acquire step — later micro-steps
    of anybody cannot change that. -/
theorem no_partial_observation {s0 : S} {σ : Sys S L} (h : Reachable s0 σ) :
    (∀ t op r l p, σ.th t = .inside op r l p → op.mode = .W →
        ∀ u, u ≠ t → ∀ op' r' l' p', σ.th u ≠ .inside op' r' l' p') ∧
    (∀ t op r l p, σ.th t = .inside op r l p → op.mode = .R → (runBody r σ.s l).2 = p) :=
  ⟨(reachable_inv h).1.alone, fun t op r l p ht hm => ((reachable_inv h).1.rd t op r l p ht hm).1⟩

/-- **Real-time order**: an operation is appended to the linearisation exactly at its acquire step, i.e. after
    it was invoked (`waiting`) and before it returns (`done`): no other step changes `lin`. -/
theorem lin_changes_only_at_acquire {σ σ' : Sys S L} (hs : Step σ σ') :
    σ'.lin = σ.lin ∨ ∃ t op, σ.th t = .waiting op ∧ σ'.lin = σ.lin ++ [(op, (runBody op.body σ.s op.init).2)] ∧
      ∃ r l p, σ'.th t = .inside op r l p := by
  cases hs with
  | invoke => exact .inl rfl
  | acquireW t op h hm free => exact .inr ⟨t, op, h, rfl, _, _, _, upd_same _ _ _⟩
  | acquireR t op h hm free => exact .inr ⟨t, op, h, rfl, _, _, _, upd_same _ _ _⟩
  | micro => exact .inl rfl
  | release => exact .inl rfl

/-! ### non-vacuity: a map with a two-entry `Merge` (two micro-steps) racing a `GetAll`-style reader -/

abbrev M := List (String × Nat)
def put (k : String) (v : Nat) : Micro M (List (String × Nat)) := fun s l => ((k, v) :: s.filter (·.1 ≠ k), l)
def readKey (k : String) : Micro M (List (String × Nat)) :=
  fun s l => (s, match s.find? (·.1 = k) with | some e => l ++ [e] | none => l)

/-- `Merge({"a":1,"b":2})` under the write lock -/
def mergeOp : Op M (List (String × Nat)) :=
  { mode := .W, body := [put "a" 1, put "b" 2], init := [], pure := by intro h; cases h }
/-- a reader copying keys "a" and "b" under the read lock -/
def getAllOp : Op M (List (String × Nat)) :=
  { mode := .R, body := [readKey "a", readKey "b"], init := [],
    pure := by intro _ m hm s l; simp at hm; rcases hm with rfl | rfl <;> rfl }

/-- a reachable state with the writer inside its critical section (so the theorems are not vacuous) -/
example : ∃ σ : Sys M (List (String × Nat)), Reachable [] σ ∧ σ.writerInside := by
  have r1 : Reachable ([] : M) _ := .step .init (Step.invoke (initSys []) 0 mergeOp rfl)
  have r2 : Reachable ([] : M) _ := .step r1 (Step.acquireW _ 0 mergeOp (by simp [upd]) rfl
    (by
      rintro ⟨u, op, r, l, p, hu⟩
      by_cases h0 : u = 0
      · subst h0; simp [upd] at hu
      · simp [upd, h0, initSys] at hu))
  exact ⟨_, r2, 0, mergeOp, mergeOp.body, mergeOp.init, _, by dsimp only; exact upd_same _ _ _, rfl⟩

/-- … in which the atomic (ghost) map already holds the whole Merge -/
example : (runBody mergeOp.body ([] : M) mergeOp.init).1 = [("b", 2), ("a", 1)] := by decide

/-- the reader's body is pure, as `Op` requires of every read-locked operation -/
example : ∀ s l, (readKey "a" s l).1 = s := fun _ _ => rfl

end Flyt.Props.C13
