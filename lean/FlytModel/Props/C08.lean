import FlytModel.Proofs.Pool
/-!
# C08 — the concurrency limit is a hard bound and is fully usable (worker-pool level)

The batch executor runs its items as pool tasks on `max 1 c` workers, so the pool statements below are
the bound for batches as well (`runBatchConcurrent` creates `NewWorkerPool(concurrency)`).
-/
namespace Flyt.Props.C08
open Flyt.Pool

/-- **Hard bound**: in every reachable state of a pool created with `workers` (≤ 0 meaning 1), for every
    schedule, at most that many tasks are being executed. -/
theorem in_flight_le_workers {cap : Nat} {workers : Int} {p : Pool} (h : Reachable cap workers p) :
    p.running.length ≤ p.w := by
  have := (inv_reachable h).workers
  omega

/-- the number of workers never changes: it is what `NewWorkerPool` was given (≤ 0 ⇒ 1) -/
theorem w_const {cap : Nat} {workers : Int} {p : Pool} (h : Reachable cap workers p) :
    p.w = (if workers ≤ 0 then 1 else workers.toNat) := by
  induction h with
  | init => simp [init]
  | step _ hs ih =>
    obtain ⟨l, hl⟩ := hs
    rw [← ih]
    cases l <;> simp only [apply] at hl <;> (try split at hl) <;> (try split at hl) <;> simp at hl <;> (try subst hl) <;> rfl

/-- **Usable**: whenever a task is queued and some worker is idle, the step that starts it is enabled — an
    idle worker never refuses work. Hence as long as fewer than `w` tasks run and the pool is not closed,
    queued work can always start: `c` mutually dependent tasks all get to run together. -/
theorem idle_worker_takes {cap : Nat} {workers : Int} {p : Pool} (h : Reachable cap workers p)
    (hq : p.queue ≠ []) (hrun : p.running.length + p.exited < p.w) : (apply p .take).isSome := by
  have inv := (inv_reachable h).workers
  have hi : p.idle > 0 := by omega
  cases hqq : p.queue with
  | nil => exact absurd hqq hq
  | cons t q => simp [apply, hqq, hi]

/-- … and a pending Submit completes whenever the queue has room -/
theorem pending_send_enabled (p : Pool) (t : Nat) (ht : t ∈ p.pend) (hroom : p.queue.length < p.cap) :
    (apply p (.send t)).isSome := by
  simp [apply, ht, hroom]

example : (init 4 0).w = 1 ∧ (init 4 (-3)).w = 1 ∧ (init 4 3).w = 3 := by decide

end Flyt.Props.C08
