import FlytModel.Generated.Facts
/-!
# C12 / C08 — the pool's synchronisation skeleton, regenerated from the source on every run

The LTS of `Model/Pool.lean` is a model of `WorkerPool` only if the source has this shape: the counter is
raised before the send (otherwise `Wait` could return early), `Done` is deferred around exactly one call of
the task (exactly once, also on panic), exactly `workers` goroutines are started by one loop and nowhere
else, a worker runs one received task per iteration and leaves on a closed channel, `Wait` is `wg.Wait()`,
`Close` closes both channels. `decide`d on the generated record.
-/
namespace Flyt.Props.C12
open Flyt.Facts

theorem pool_facts_wellFormed : Flyt.Generated.poolFacts.wellFormed = true := by decide

end Flyt.Props.C12
