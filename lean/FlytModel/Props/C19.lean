import FlytModel.Proofs.ConfigFields
/-!
# C19 — Configuration styles are equivalent; defaults and last-setting-wins hold

Theorems about `Flyt.Config` (Model/Config.lean), the setter-by-setter model of flyt's option
functions, constructors and builder methods. All statements quantify over ALL step sequences
(any length, any values, any tags); nothing here is checked by enumeration.
-/
namespace Flyt.Props.C19
open Flyt.Config

/-- **Last setting wins, whatever the style.** For every sequence of (setting, form) in the domain of
    the builder kind, the node Go builds — option-form steps handed to the constructor (which, for
    `NewNode`, applies base options before function options), builder-form steps chained afterwards —
    carries for EVERY parameter the value of the last step that sets it in execution order, and the
    documented default where no step sets it. `lastWins` never looks at the form of a step. -/
theorem build_eq_lastWins (k : Kind) (steps : List Step)
    (hdom : ∀ s, s ∈ steps → inDomain k s = true) :
    build k steps = lastWins k (effective steps) := by
  cases k with
  | node =>
    exact Node.ext'
      (BaseNode.ext' (node_maxRetries steps) (node_wait steps) (node_conc steps) (node_eh steps))
      (node_prepFunc steps) (node_execFunc steps) (node_postFunc steps) (node_fbFunc steps)
      (node_batchPrep steps) (node_batchPost steps)
  | batch =>
    exact Node.ext'
      (BaseNode.ext' (batch_maxRetries steps hdom) (batch_wait steps hdom) (batch_conc steps hdom)
        (batch_eh steps hdom))
      (batch_prepFunc steps hdom) (batch_execFunc steps hdom) (batch_postFunc steps hdom)
      (batch_fbFunc steps hdom) (batch_batchPrep steps hdom) (batch_batchPost steps hdom)

/-- non-vacuity: a mixed sequence in which the builder-form retry setting is written BEFORE an
    option-form one still wins (it executes later), an overwritten function, untouched defaults -/
example :
    build .node [⟨.maxRetries 3, .bld, 0⟩, ⟨.execFn true, .opt, 1⟩, ⟨.maxRetries 5, .opt, 2⟩,
                 ⟨.execFn false, .opt, 3⟩, ⟨.batchErrorHandling false, .bld, 4⟩]
      = { base := { maxRetries := 3, wait := 0, batchConcurrency := 0, batchErrorHandling := .stop },
          prepFunc := none, execFunc := some ⟨3, false⟩, postFunc := none, execFallbackFunc := none,
          batchPrepFunc := none, batchPostFunc := none } := by decide

/-- **The statement of the design document**: when options precede builder calls (the order in which
    the sequence is written is the order in which Go executes it), the configuration is last-write-wins
    over the sequence as written. -/
theorem config_lastWins_of_optsFirst (k : Kind) (steps : List Step)
    (hdom : ∀ s, s ∈ steps → inDomain k s = true) (hord : optsFirst steps = true) :
    build k steps = lastWins k steps := by
  rw [build_eq_lastWins k steps hdom, effective_of_optsFirst steps hord]

example : optsFirst [⟨.wait 5, .opt, 0⟩, ⟨.batchConcurrency 2, .opt, 1⟩, ⟨.wait 7, .bld, 2⟩] = true
    ∧ getWait (build .batch [⟨.wait 5, .opt, 0⟩, ⟨.batchConcurrency 2, .opt, 1⟩, ⟨.wait 7, .bld, 2⟩]) = 7 := by decide

/-- **Styles are equivalent.** Two ways of writing the same settings in the same order — all as
    constructor options, all as chained builder calls, or any mixture in which options precede
    builder calls — build the same node (hence the same getters and the same behaviour). -/
theorem styles_equivalent (k : Kind) (a b : List Step) (h : sameSettings a b)
    (hda : ∀ s, s ∈ a → inDomain k s = true) (hdb : ∀ s, s ∈ b → inDomain k s = true)
    (hoa : optsFirst a = true) (hob : optsFirst b = true) :
    build k a = build k b := by
  rw [config_lastWins_of_optsFirst k a hda hoa, config_lastWins_of_optsFirst k b hdb hob,
    lastWins_sameSettings k a b h]

/-- non-vacuity: the hypotheses are satisfiable by a genuinely mixed batch sequence, and the two
    nodes carry the overwritten values -/
example :
    let a : List Step := [⟨.maxRetries 2, .opt, 0⟩, ⟨.batchConcurrency 3, .opt, 1⟩, ⟨.maxRetries 4, .bld, 2⟩, ⟨.execFn true, .bld, 3⟩]
    let b : List Step := [⟨.maxRetries 2, .bld, 0⟩, ⟨.batchConcurrency 3, .bld, 1⟩, ⟨.maxRetries 4, .bld, 2⟩, ⟨.execFn true, .bld, 3⟩]
    sameSettings a b ∧ optsFirst a = true ∧ optsFirst b = true
      ∧ (∀ s, s ∈ a → inDomain .batch s = true) ∧ (∀ s, s ∈ b → inDomain .batch s = true)
      ∧ getters (build .batch a) = ⟨4, 0, 3, "continue"⟩ ∧ build .batch a = build .batch b := by
  refine ⟨rfl, rfl, rfl, by decide, by decide, by decide, by decide⟩

/-- For a plain node builder: the pure option style and the pure builder style of ANY settings
    sequence build the same node, and so does every mixture whose options come first. -/
theorem node_styles_equivalent (steps : List Step) :
    build .node (inForm .opt steps) = build .node (inForm .bld steps)
    ∧ (optsFirst steps = true → build .node steps = build .node (inForm .bld steps)) := by
  have hs : ∀ f, sameSettings steps (inForm f steps) := by
    intro f; unfold sameSettings inForm; rw [List.map_map]; rfl
  have hs2 : sameSettings (inForm .opt steps) (inForm .bld steps) := by
    unfold sameSettings inForm; rw [List.map_map, List.map_map]; rfl
  refine ⟨?_, ?_⟩
  · exact styles_equivalent .node _ _ hs2 (fun _ _ => rfl) (fun _ _ => rfl)
      (optsFirst_inForm .opt steps) (optsFirst_inForm .bld steps)
  · intro ho
    exact styles_equivalent .node _ _ (hs .bld) (fun _ _ => rfl) (fun _ _ => rfl) ho
      (optsFirst_inForm .bld steps)

example :
    build .node (inForm .opt [⟨.maxRetries 2, .bld, 0⟩, ⟨.fbFn, .bld, 1⟩, ⟨.maxRetries 4, .bld, 2⟩])
      = build .node [⟨.maxRetries 2, .opt, 0⟩, ⟨.fbFn, .bld, 1⟩, ⟨.maxRetries 4, .bld, 2⟩]
    ∧ getMaxRetries (build .node [⟨.maxRetries 2, .opt, 0⟩, ⟨.fbFn, .bld, 1⟩, ⟨.maxRetries 4, .bld, 2⟩]) = 4 := by
  decide

/-- the same for a batch builder: its scalar settings may be written in either form (the function
    settings exist in builder form only, DESIGN 7/B1) -/
example :
    build .batch [⟨.batchConcurrency 3, .opt, 0⟩, ⟨.execFn false, .bld, 1⟩, ⟨.batchErrorHandling false, .opt, 2⟩]
      = build .batch [⟨.batchConcurrency 3, .bld, 0⟩, ⟨.execFn false, .bld, 1⟩, ⟨.batchErrorHandling false, .bld, 2⟩] := by
  decide

/-- **Unrelated parameters are untouched.** One step — in either form, on either kind of builder,
    in or outside the domain — leaves every field it is not a setting of exactly as it was. -/
theorem step_frame (k : Kind) (s : Step) (n : Node) :
    (setsMaxRetries s = none → (stepApply k s n).base.maxRetries = n.base.maxRetries)
    ∧ (setsWait s = none → (stepApply k s n).base.wait = n.base.wait)
    ∧ (setsConc s = none → (stepApply k s n).base.batchConcurrency = n.base.batchConcurrency)
    ∧ (setsEH s = none → (stepApply k s n).base.batchErrorHandling = n.base.batchErrorHandling)
    ∧ (setsPrepFunc k s = none → (stepApply k s n).prepFunc = n.prepFunc)
    ∧ (setsExecFunc s = none → (stepApply k s n).execFunc = n.execFunc)
    ∧ (setsPostFunc k s = none → (stepApply k s n).postFunc = n.postFunc)
    ∧ (setsFbFunc k s = none → (stepApply k s n).execFallbackFunc = n.execFallbackFunc)
    ∧ (setsBatchPrep k s = none → (stepApply k s n).batchPrepFunc = n.batchPrepFunc)
    ∧ (setsBatchPost k s = none → (stepApply k s n).batchPostFunc = n.batchPostFunc) := by
  cases k <;> (unfold stepApply; cfg_cases s)

/-- non-vacuity: a builder-form `WithWait` on a batch node leaves retries, concurrency, error
    handling and the exec function alone (and the premise "does not set retries" holds for it) -/
example :
    setsMaxRetries ⟨.wait 5, .bld, 0⟩ = none
    ∧ stepApply .batch ⟨.wait 5, .bld, 0⟩
        { emptyNode with base := ⟨3, 1, 2, .stop⟩, execFunc := some ⟨7, false⟩ }
      = { emptyNode with base := ⟨3, 5, 2, .stop⟩, execFunc := some ⟨7, false⟩ } := by decide

/-- … and, inside the domain, it sets its own parameter to the given value (both forms alike) -/
theorem step_effect (k : Kind) (s : Step) (n : Node) (hdom : inDomain k s = true) :
    (stepApply k s n).base.maxRetries = (setsMaxRetries s).getD n.base.maxRetries
    ∧ (stepApply k s n).base.wait = (setsWait s).getD n.base.wait
    ∧ (stepApply k s n).base.batchConcurrency = (setsConc s).getD n.base.batchConcurrency
    ∧ (stepApply k s n).base.batchErrorHandling = (setsEH s).getD n.base.batchErrorHandling
    ∧ (stepApply k s n).prepFunc = (setsPrepFunc k s).getD n.prepFunc
    ∧ (stepApply k s n).execFunc = (setsExecFunc s).getD n.execFunc
    ∧ (stepApply k s n).postFunc = (setsPostFunc k s).getD n.postFunc
    ∧ (stepApply k s n).execFallbackFunc = (setsFbFunc k s).getD n.execFallbackFunc
    ∧ (stepApply k s n).batchPrepFunc = (setsBatchPrep k s).getD n.batchPrepFunc
    ∧ (stepApply k s n).batchPostFunc = (setsBatchPost k s).getD n.batchPostFunc := by
  cases k <;> (unfold stepApply; cfg_cases s)

example :
    stepApply .node ⟨.batchConcurrency 4, .bld, 9⟩
        { emptyNode with base := { newBaseNode with maxRetries := 7 }, execFunc := some ⟨1, true⟩ }
      = { emptyNode with base := { newBaseNode with maxRetries := 7, batchConcurrency := 4 },
                         execFunc := some ⟨1, true⟩ } := by decide

/-- **Defaults (getters).** A parameter no step sets has its documented default: one attempt, no
    wait, batch concurrency 0 (sequential), "continue" on errors. -/
theorem defaults (k : Kind) (steps : List Step) (hdom : ∀ s, s ∈ steps → inDomain k s = true) :
    ((∀ s, s ∈ steps → setsMaxRetries s = none) → getMaxRetries (build k steps) = 1)
    ∧ ((∀ s, s ∈ steps → setsWait s = none) → getWait (build k steps) = 0)
    ∧ ((∀ s, s ∈ steps → setsConc s = none) → getBatchConcurrency (build k steps) = 0)
    ∧ ((∀ s, s ∈ steps → setsEH s = none) → getBatchErrorHandling (build k steps) = "continue") := by
  have hmem : ∀ s, s ∈ effective steps → s ∈ steps := by
    intro s hs
    unfold effective at hs
    rcases List.mem_append.mp hs with h | h <;> exact (List.mem_filter.mp h).1
  rw [build_eq_lastWins k steps hdom]
  refine ⟨?_, ?_, ?_, ?_⟩ <;> intro h
  · have := lastSome_none setsMaxRetries (effective steps) (fun s hs => h s (hmem s hs))
    simp [getMaxRetries, lastWins, this]
  · have := lastSome_none setsWait (effective steps) (fun s hs => h s (hmem s hs))
    simp [getWait, lastWins, this]
  · have := lastSome_none setsConc (effective steps) (fun s hs => h s (hmem s hs))
    simp [getBatchConcurrency, lastWins, this]
  · have := lastSome_none setsEH (effective steps) (fun s hs => h s (hmem s hs))
    simp [getBatchErrorHandling, lastWins, this]

example : getters (build .node []) = ⟨1, 0, 0, "continue"⟩ ∧ getters (build .batch []) = ⟨1, 0, 0, "continue"⟩
    ∧ getters (build .node [⟨.execFn true, .opt, 0⟩, ⟨.wait 9, .bld, 1⟩]) = ⟨1, 9, 0, "continue"⟩ := by decide

/-- **Defaults (behaviour).** A node on which no scalar parameter was set makes exactly ONE attempt
    of a failing exec function; a batch node runs its items one at a time (sequential), makes one
    attempt on the failing item and CONTINUES with the remaining items. -/
theorem default_behaviour (k : Kind) (steps : List Step) (hdom : ∀ s, s ∈ steps → inDomain k s = true)
    (hnone : ∀ s, s ∈ steps → s.setting.isNodeOption = false) :
    (modelObs k steps).runB.calls = (match k with | .node => [1] | .batch => [1, 1, 1])
    ∧ (modelObs k steps).hwm = (match k with | .node => 0 | .batch => 1) := by
  have hsc : ∀ s, s ∈ steps →
      setsMaxRetries s = none ∧ setsWait s = none ∧ setsConc s = none ∧ setsEH s = none := by
    intro s hs
    have := hnone s hs
    cases s with
    | mk st f t => cases st <;> simp_all [Setting.isNodeOption, setsMaxRetries, setsWait, setsConc, setsEH]
  obtain ⟨h1, _, h3, h4⟩ := defaults k steps hdom
  have e1 := h1 (fun s hs => (hsc s hs).1)
  have e3 := h3 (fun s hs => (hsc s hs).2.2.1)
  have e4 := h4 (fun s hs => (hsc s hs).2.2.2)
  simp only [getMaxRetries, getBatchConcurrency] at e1 e3
  cases k with
  | node =>
    refine ⟨?_, rfl⟩
    simp only [modelObs, observe, withProbes, nodeBuilderCall, runNode, e1]
    cases (build .node steps).execFallbackFunc <;> simp [probeExec]
  | batch =>
    refine ⟨?_, ?_⟩
    · simp only [modelObs, observe, withProbes, batchBuilderCall, runBatch, e1, e3, getBatchErrorHandling] at e4 ⊢
      cases (build .batch steps).execFallbackFunc <;> simp [probeExec, e4]
    · simp [modelObs, observe, withProbes, batchBuilderCall, e1, e3, batchWidth]

example : (modelObs .batch [⟨.postFn false, .bld, 0⟩]).runB
    = { prep := some 901, exec := some 900, fb := none, post := some 0, calls := [1, 1, 1], out := "done" } := by
  decide

/-- contrast: with "stop" the later items are skipped, with 3 retries item 0 is attempted 3 times -/
example : (modelObs .batch [⟨.batchErrorHandling false, .opt, 0⟩, ⟨.maxRetries 3, .bld, 1⟩]).runB.calls = [3, 0, 0] := by
  decide

/-- **Pool size.** A worker pool created with a size ≤ 0 has exactly one worker, a positive size is
    taken as is; a batch works on one item at a time unless its concurrency is positive. -/
theorem pool_size (w : Int) :
    (w ≤ 0 → poolWorkers w = 1) ∧ (0 < w → (poolWorkers w : Int) = w)
    ∧ (w ≤ 0 → batchWidth w = 1) ∧ (0 < w → (batchWidth w : Int) = w) := by
  unfold batchWidth poolWorkers
  refine ⟨?_, ?_, ?_, ?_⟩ <;> intro h
  · simp [h]
  · have : ¬ w ≤ 0 := by omega
    simp only [this, if_false]; omega
  · have : ¬ w > 0 := by omega
    simp [this]
  · have h2 : ¬ w ≤ 0 := by omega
    simp only [h, h2, if_true, if_false]; omega

example : poolWorkers (-3) = 1 ∧ poolWorkers 0 = 1 ∧ poolWorkers 4 = 4 ∧ batchWidth 0 = 1 ∧ batchWidth 2 = 2 := by
  decide

/-- **The property predicate holds of the model** — this is what agreement on a scenario transfers
    to the implementation: for every step sequence in the domain, the observation the model predicts
    (getters before and after further builder calls, both probe runs, items in flight) satisfies
    `Spec c19`, i.e. is the observation of the last-wins configuration with documented defaults. -/
theorem spec_holds_on_model (k : Kind) (steps : List Step)
    (hdom : ∀ s, s ∈ steps → inDomain k s = true) :
    c19 k steps (modelObs k steps) = true := by
  have hg : getters (lastWins k (effective steps)) = expectedGetters (effective steps) := by
    simp only [getters, expectedGetters, lastWins, getMaxRetries, getWait, getBatchConcurrency,
      getBatchErrorHandling]
    cases lastSome setsEH (effective steps) with
    | none => rfl
    | some e => cases e <;> rfl
  unfold c19 modelObs
  rw [build_eq_lastWins k steps hdom]
  have h1 : (observe k (lastWins k (effective steps))).g = expectedGetters (effective steps) := by
    rw [← hg]; cases k <;> rfl
  have h2 : (observe k (lastWins k (effective steps))).g2 = expectedGetters (effective steps) := by
    rw [← hg, ← getters_withProbes k]; cases k <;> rfl
  simp [h1, h2]

example : c19 .batch [⟨.batchConcurrency 2, .opt, 0⟩, ⟨.prepFn false, .bld, 1⟩, ⟨.batchConcurrency 3, .bld, 2⟩]
      (modelObs .batch [⟨.batchConcurrency 2, .opt, 0⟩, ⟨.prepFn false, .bld, 1⟩, ⟨.batchConcurrency 3, .bld, 2⟩]) = true
    ∧ (modelObs .batch [⟨.batchConcurrency 2, .opt, 0⟩, ⟨.prepFn false, .bld, 1⟩, ⟨.batchConcurrency 3, .bld, 2⟩]).hwm = 3 := by
  decide

theorem spec_pool_holds_on_model (w : Int) : c19Pool w (poolWorkers w) = true := by
  unfold c19Pool poolWorkers
  by_cases h : w ≤ 0
  · simp [h]
  · simp only [h, if_false, decide_eq_true_eq]; omega

/-- non-vacuity: the predicate is not trivially true — it rejects a first-wins observation -/
example :
    c19 .node [⟨.maxRetries 2, .opt, 0⟩, ⟨.maxRetries 3, .bld, 1⟩]
        (modelObs .node [⟨.maxRetries 2, .opt, 0⟩, ⟨.maxRetries 3, .bld, 1⟩]) = true
    ∧ c19 .node [⟨.maxRetries 2, .opt, 0⟩, ⟨.maxRetries 3, .bld, 1⟩]
        (modelObs .node [⟨.maxRetries 2, .opt, 0⟩]) = false
    ∧ c19Pool 0 2 = false := by decide

end Flyt.Props.C19
