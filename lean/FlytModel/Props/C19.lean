import FlytModel.Proofs.ConfigFields
/-!
# C19 — Configuration styles are equivalent; defaults and last-setting-wins hold

Theorems about `Flyt.Config` (Model/Config.lean), the setter-by-setter model of flyt's option
functions, constructors and builder methods. All statements quantify over ALL step sequences
(any length, any values, any tags); nothing here is checked by enumeration.
-/
namespace Flyt.Props.C19
open Flyt.Config

/-- **Last setting wins, whatever the style.** For every sequence of (setting, form) in the domain of
    the builder kind, the node Go builds — option-form steps handed to the constructor (which, for
    `NewNode`, applies base options before function options), builder-form steps chained afterwards —
    carries for EVERY parameter the value of the last step that sets it in execution order, and the
    documented default where no step sets it. `lastWins` never looks at the form of a step. -/
theorem build_eq_lastWins (k : Kind) (steps : List Step)
    (hdom : ∀ s, s ∈ steps → inDomain k s = true) :
    build k steps = lastWins k (effective steps) := by
  cases k with
  | node =>
    exact Node.ext'
      (BaseNode.ext' (node_maxRetries steps) (node_wait steps) (node_conc steps) (node_eh steps))
      (node_prepFunc steps) (node_execFunc steps) (node_postFunc steps) (node_fbFunc steps)
      (node_batchPrep steps) (node_batchPost steps)
  | batch =>
    exact Node.ext'
      (BaseNode.ext' (batch_maxRetries steps hdom) (batch_wait steps hdom) (batch_conc steps hdom)
        (batch_eh steps hdom))
      (batch_prepFunc steps hdom) (batch_execFunc steps hdom) (batch_postFunc steps hdom)
      (batch_fbFunc steps hdom) (batch_batchPrep steps hdom) (batch_batchPost steps hdom)

/-- non-vacuity: a mixed sequence in which the builder-form retry setting is written BEFORE an
    option-form one still wins (it executes later), an overwritten function, untouched defaults -/
example :
    build .node [⟨.maxRetries 3, .bld, 0⟩, ⟨.execFn true, .opt, 1⟩, ⟨.maxRetries 5, .opt, 2⟩,
                 ⟨.execFn false, .opt, 3⟩, ⟨.batchErrorHandling false, .bld, 4⟩]
      = { base := { maxRetries := 3, wait := 0, batchConcurrency := 0, batchErrorHandling := .stop },
          prepFunc := none, execFunc := some ⟨3, false⟩, postFunc := none, execFallbackFunc := none,
          batchPrepFunc := none, batchPostFunc := none } := by decide

/-- **The statement of the design document**: when options precede builder calls (the order in which
    the sequence is written is the order in which Go executes it), the configuration is last-write-wins
    over the sequence as written. -/
theorem config_lastWins_of_optsFirst (k : Kind) (steps : List Step)
    (hdom : ∀ s, s ∈ steps → inDomain k s = true) (hord : optsFirst steps = true) :
    build k steps = lastWins k steps := by
  rw [build_eq_lastWins k steps hdom, effective_of_optsFirst steps hord]

example : optsFirst [⟨.wait 5, .opt, 0⟩, ⟨.batchConcurrency 2, .opt, 1⟩, ⟨.wait 7, .bld, 2⟩] = true
    ∧ getWait (build .batch [⟨.wait 5, .opt, 0⟩, ⟨.batchConcurrency 2, .opt, 1⟩, ⟨.wait 7, .bld, 2⟩]) = 7 := by decide

/-- **Styles are equivalent.** Two ways of writing the same settings in the same order — all as
    constructor options, all as chained builder calls, or any mixture in which options precede
    builder calls — build the same node (hence the same getters and the same behaviour). -/
theorem styles_equivalent (k : Kind) (a b : List Step) (h : sameSettings a b)
    (hda : ∀ s, s ∈ a → inDomain k s = true) (hdb : ∀ s, s ∈ b → inDomain k s = true)
    (hoa : optsFirst a = true) (hob : optsFirst b = true) :
    build k a = build k b := by
  rw [config_lastWins_of_optsFirst k a hda hoa, config_lastWins_of_optsFirst k b hdb hob,
    lastWins_sameSettings k a b h]

/-- non-vacuity: the hypotheses are satisfiable by a genuinely mixed batch sequence, and the two
    nodes carry the overwritten values -/
example :
    let a : List Step := [⟨.maxRetries 2, .opt, 0⟩, ⟨.batchConcurrency 3, .opt, 1⟩, ⟨.maxRetries 4, .bld, 2⟩, ⟨.execFn true, .bld, 3⟩]
    let b : List Step := [⟨.maxRetries 2, .bld, 0⟩, ⟨.batchConcurrency 3, .bld, 1⟩, ⟨.maxRetries 4, .bld, 2⟩, ⟨.execFn true, .bld, 3⟩]
    sameSettings a b ∧ optsFirst a = true ∧ optsFirst b = true
      ∧ (∀ s, s ∈ a → inDomain .batch s = true) ∧ (∀ s, s ∈ b → inDomain .batch s = true)
      ∧ getters (build .batch a) = ⟨4, 0, 3, "continue"⟩ ∧ build .batch a = build .batch b := by
  refine ⟨rfl, rfl, rfl, by decide, by decide, by decide, by decide⟩

/-- For a plain node builder: the pure option style and the pure builder style of ANY settings
    sequence build the same node, and so does every mixture whose options come first. -/
theorem node_styles_equivalent (steps : List Step) :
    build .node (inForm .opt steps) = build .node (inForm .bld steps)
    ∧ (optsFirst steps = true → build .node steps = build .node (inForm .bld steps)) := by
  have hs : ∀ f, sameSettings steps (inForm f steps) := by
    intro f; unfold sameSettings inForm; rw [List.map_map]; rfl
  have hs2 : sameSettings (inForm .opt steps) (inForm .bld steps) := by
    unfold sameSettings inForm; rw [List.map_map, List.map_map]; rfl
  refine ⟨?_, ?_⟩
  · exact styles_equivalent .node _ _ hs2 (fun _ _ => rfl) (fun _ _ => rfl)
      (optsFirst_inForm .opt steps) (optsFirst_inForm .bld steps)
  · intro ho
    exact styles_equivalent .node _ _ (hs .bld) (fun _ _ => rfl) (fun _ _ => rfl) ho
      (optsFirst_inForm .bld steps)

example :
    build .node (inForm .opt [⟨.maxRetries 2, .bld, 0⟩, ⟨.fbFn, .bld, 1⟩, ⟨.maxRetries 4, .bld, 2⟩])
      = build .node [⟨.maxRetries 2, .opt, 0⟩, ⟨.fbFn, .bld, 1⟩, ⟨.maxRetries 4, .bld, 2⟩]
    ∧ getMaxRetries (build .node [⟨.maxRetries 2, .opt, 0⟩, ⟨.fbFn, .bld, 1⟩, ⟨.maxRetries 4, .bld, 2⟩]) = 4 := by
  decide

/-- the same for a batch builder: its scalar settings may be written in either form (the function
    settings exist in builder form only, DESIGN 7/B1) -/
example :
    build .batch [⟨.batchConcurrency 3, .opt, 0⟩, ⟨.execFn false, .bld, 1⟩, ⟨.batchErrorHandling false, .opt, 2⟩]
      = build .batch [⟨.batchConcurrency 3, .bld, 0⟩, ⟨.execFn false, .bld, 1⟩, ⟨.batchErrorHandling false, .bld, 2⟩] := by
  decide

/-- **Unrelated parameters are untouched.** One step — in either form, on either kind of builder,
    in or outside the domain — leaves every field it is not a setting of exactly as it was. -/
theorem step_frame (k : Kind) (s : Step) (n : Node) :
    (setsMaxRetries s = none → (stepApply k s n).base.maxRetries = n.base.maxRetries)
    ∧ (setsWait s = none → (stepApply k s n).base.wait = n.base.wait)
    ∧ (setsConc s = none → (stepApply k s n).base.batchConcurrency = n.base.batchConcurrency)
    ∧ (setsEH s = none → (stepApply k s n).base.batchErrorHandling = n.base.batchErrorHandling)
    ∧ (setsPrepFunc k s = none → (stepApply k s n).prepFunc = n.prepFunc)
    ∧ (setsExecFunc s = none → (stepApply k s n).execFunc = n.execFunc)
    ∧ (setsPostFunc k s = none → (stepApply k s n).postFunc = n.postFunc)
    ∧ (setsFbFunc k s = none → (stepApply k s n).execFallbackFunc = n.execFallbackFunc)
    ∧ (setsBatchPrep k s = none → (stepApply k s n).batchPrepFunc = n.batchPrepFunc)
    ∧ (setsBatchPost k s = none → (stepApply k s n).batchPostFunc = n.batchPostFunc) := by
  cases k <;> (unfold stepApply; cfg_cases s)

/-- non-vacuity: a builder-form `WithWait` on a batch node leaves retries, concurrency, error
    handling and the exec function alone (and the premise "does not set retries" holds for it) -/
example :
    setsMaxRetries ⟨.wait 5, .bld, 0⟩ = none
    ∧ stepApply .batch ⟨.wait 5, .bld, 0⟩
        { emptyNode with base := ⟨3, 1, 2, .stop⟩, execFunc := some ⟨7, false⟩ }
      = { emptyNode with base := ⟨3, 5, 2, .stop⟩, execFunc := some ⟨7, false⟩ } := by decide

/-- … and, inside the domain, it sets its own parameter to the given value (both forms alike) -/
theorem step_effect (k : Kind) (s : Step) (n : Node) (hdom : inDomain k s = true) :
    (stepApply k s n).base.maxRetries = (setsMaxRetries s).getD n.base.maxRetries
    ∧ (stepApply k s n).base.wait = (setsWait s).getD n.base.wait
    ∧ (stepApply k s n).base.batchConcurrency = (setsConc s).getD n.base.batchConcurrency
    ∧ (stepApply k s n).base.batchErrorHandling = (setsEH s).getD n.base.batchErrorHandling
    ∧ (stepApply k s n).prepFunc = (setsPrepFunc k s).getD n.prepFunc
    ∧ (stepApply k s n).execFunc = (setsExecFunc s).getD n.execFunc
    ∧ (stepApply k s n).postFunc = (setsPostFunc k s).getD n.postFunc
    ∧ (stepApply k s n).execFallbackFunc = (setsFbFunc k s).getD n.execFallbackFunc
    ∧ (stepApply k s n).batchPrepFunc = (setsBatchPrep k s).getD n.batchPrepFunc
    ∧ (stepApply k s n).batchPostFunc = (setsBatchPost k s).getD n.batchPostFunc := by
  cases k <;> (unfold stepApply; cfg_cases s)

example :
    stepApply .node ⟨.batchConcurrency 4, .bld, 9⟩
        { emptyNode with base := { newBaseNode with maxRetries := 7 }, execFunc := some ⟨1, true⟩ }
      = { emptyNode with base := { newBaseNode with maxRetries := 7, batchConcurrency := 4 },
                         execFunc := some ⟨1, true⟩ } := by decide

/-- **Defaults (getters).** A parameter no step sets has its documented default: one attempt, no
    wait, batch concurrency 0 (sequential), "continue" on errors. -/
theorem defaults (k : Kind) (steps : List Step) (hdom : ∀ s, s ∈ steps → inDomain k s = true) :
    ((∀ s, s ∈ steps → setsMaxRetries s = none) → getMaxRetries (build k steps) = 1)
    ∧ ((∀ s, s ∈ steps → setsWait s = none) → getWait (build k steps) = 0)
    ∧ ((∀ s, s ∈ steps → setsConc s = none) → getBatchConcurrency (build k steps) = 0)
    ∧ ((∀ s, s ∈ steps → setsEH s = none) → getBatchErrorHandling (build k steps) = "continue") := by
  have hmem : ∀ s, s ∈ effective steps → s ∈ steps := by
    intro s hs
    unfold effective at hs
    rcases List.mem_append.mp hs with h | h <;> exact (List.mem_filter.mp h).1
  rw [build_eq_lastWins k steps hdom]
  refine ⟨?_, ?_, ?_, ?_⟩ <;> intro h
  · have := lastSome_none setsMaxRetries (effective steps) (fun s hs => h s (hmem s hs))
    simp [getMaxRetries, lastWins, this]
  · have := lastSome_none setsWait (effective steps) (fun s hs => h s (hmem s hs))
    simp [getWait, lastWins, this]
  · have := lastSome_none setsConc (effective steps) (fun s hs => h s (hmem s hs))
    simp [getBatchConcurrency, lastWins, this]
  · have := lastSome_none setsEH (effective steps) (fun s hs => h s (hmem s hs))
    simp [getBatchErrorHandling, lastWins, this]

example : getters (build .node []) = ⟨1, 0, 0, "continue"⟩ ∧ getters (build .batch []) = ⟨1, 0, 0, "continue"⟩
    ∧ getters (build .node [⟨.execFn true, .opt, 0⟩, ⟨.wait 9, .bld, 1⟩]) = ⟨1, 9, 0, "continue"⟩ := by decide

/-- **Defaults (behaviour).** A node on which no scalar parameter was set makes exactly ONE attempt
    of a failing exec function; a batch node runs its items one at a time (sequential), makes one
    attempt on the failing item and CONTINUES with the remaining items. (Statement unchanged by the
    "odd tags fail" convention for fallback functions: whether the fallback of a plain node succeeds
    or fails, the exec function has been attempted once; a batch in the default "continue" mode goes
    on to items 1 and 2 whether or not item 0's fallback fails.) -/
theorem default_behaviour (k : Kind) (steps : List Step) (hdom : ∀ s, s ∈ steps → inDomain k s = true)
    (hnone : ∀ s, s ∈ steps → s.setting.isNodeOption = false) :
    (modelObs k steps).runB.calls = (match k with | .node => [1] | .batch => [1, 1, 1])
    ∧ (modelObs k steps).hwm = (match k with | .node => 0 | .batch => 1) := by
  have hsc : ∀ s, s ∈ steps →
      setsMaxRetries s = none ∧ setsWait s = none ∧ setsConc s = none ∧ setsEH s = none := by
    intro s hs
    have := hnone s hs
    cases s with
    | mk st f t => cases st <;> simp_all [Setting.isNodeOption, setsMaxRetries, setsWait, setsConc, setsEH]
  obtain ⟨h1, _, h3, h4⟩ := defaults k steps hdom
  have e1 := h1 (fun s hs => (hsc s hs).1)
  have e3 := h3 (fun s hs => (hsc s hs).2.2.1)
  have e4 := h4 (fun s hs => (hsc s hs).2.2.2)
  simp only [getMaxRetries, getBatchConcurrency] at e1 e3
  cases k with
  | node =>
    refine ⟨?_, rfl⟩
    simp only [modelObs, observe, withProbes, nodeBuilderCall, runNode, e1]
    cases (build .node steps).execFallbackFunc <;> simp [probeExec] <;> split <;> rfl
  | batch =>
    refine ⟨?_, ?_⟩
    · simp only [modelObs, observe, withProbes, batchBuilderCall, runBatch, e1, e3, getBatchErrorHandling] at e4 ⊢
      cases (build .batch steps).execFallbackFunc <;> simp [probeExec, e4]
    · simp [modelObs, observe, withProbes, batchBuilderCall, e1, e3, batchWidth]

example : (modelObs .batch [⟨.postFn false, .bld, 0⟩]).runB
    = { prep := some 901, exec := some 900, fb := none, post := some 0, calls := [1, 1, 1], out := "done" } := by
  decide

/-- contrast: with "stop" the later items are skipped, with 3 retries item 0 is attempted 3 times -/
example : (modelObs .batch [⟨.batchErrorHandling false, .opt, 0⟩, ⟨.maxRetries 3, .bld, 1⟩]).runB.calls = [3, 0, 0] := by
  decide

/-! ### the fallback function: the LAST setting decides — also when it fails

Harness convention (`fbFails`): the fallback function installed by a step with an odd tag returns an
error. A fallback that always succeeds cannot tell "the new function REPLACED the old one" from "the
new function was CHAINED in front of the old one (the old one runs only if the new one fails)"; with
a failing last fallback the two differ in everything the probe run shows after the exec attempts. -/

/-- the probe run of a plain node: the node as built, with the harness's always-failing exec function -/
theorem runB_node (steps : List Step) :
    (modelObs .node steps).runB = runNode { build .node steps with execFunc := some ⟨probeExec, false⟩ } := rfl

/-- **The fallback field holds the last fallback setting and nothing else.** If, in execution order,
    `s` is a fallback setting (in either form) and no fallback setting follows it, then the node's
    `execFallbackFunc` is exactly the function `s` installed: no trace of the fallback settings in
    `pre` (however many, in whatever form) is left in the node. -/
theorem fbFunc_of_last (steps pre post : List Step) (s : Step)
    (hsplit : effective steps = pre ++ s :: post) (hs : s.setting = .fbFn)
    (hpost : ∀ x, x ∈ post → x.setting ≠ .fbFn) :
    (build .node steps).execFallbackFunc = some ⟨s.tag, false⟩ := by
  have hp : lastSome (setsFbFunc .node) post = none :=
    lastSome_none _ _ (fun x hx => by
      have := hpost x hx
      cases x with
      | mk st f t => cases st <;> simp_all [setsFbFunc])
  rw [node_fbFunc, hsplit, lastSome_append]
  simp [lastSome, hp, setsFbFunc, hs]

/-- **The last fallback setting decides the probe run.** For ANY word of steps on a plain node with a
    positive retry budget: if `s` is the last fallback setting in execution order (`pre` and the
    forms of all steps are arbitrary; `pre` may contain any number of other fallback settings, failing
    or not), then the probe run — exec function failing on every attempt —
    * calls the exec function `maxRetries` times and then the fallback of `s`, and reports THAT tag;
    * fails, without calling post, iff the fallback of `s` fails (odd tag);
    * otherwise calls post and ends like a successful run.
    Nothing in the conclusion mentions `pre`: an earlier fallback never runs and never rescues. -/
theorem last_fallback_decides (steps pre post : List Step) (s : Step)
    (hsplit : effective steps = pre ++ s :: post) (hs : s.setting = .fbFn)
    (hpost : ∀ x, x ∈ post → x.setting ≠ .fbFn)
    (hbudget : 0 < getMaxRetries (build .node steps)) :
    (modelObs .node steps).runB.exec = some probeExec
    ∧ (modelObs .node steps).runB.calls = [(getMaxRetries (build .node steps)).toNat]
    ∧ (modelObs .node steps).runB.fb = some s.tag
    ∧ (s.tag % 2 = 1 →
        (modelObs .node steps).runB.out = "err" ∧ (modelObs .node steps).runB.post = none)
    ∧ (s.tag % 2 = 0 →
        (modelObs .node steps).runB.out = (if (build .node steps).postFunc.isSome then "done" else "default")
        ∧ (modelObs .node steps).runB.post = tagOf (build .node steps).postFunc) := by
  have hfb := fbFunc_of_last steps pre post s hsplit hs hpost
  have hb : ¬ (build .node steps).base.maxRetries.toNat = 0 := by
    simp only [getMaxRetries] at hbudget; omega
  rw [runB_node]
  simp only [runNode, hfb, hb, if_false, if_true, getMaxRetries, fbFails]
  by_cases hodd : s.tag % 2 = 1
  · have h0 : ¬ s.tag % 2 = 0 := by omega
    simp [hodd]
  · have h0 : s.tag % 2 = 0 := by omega
    simp [h0]

/-- the same for a word written in execution order (options before builder calls): the last fallback
    setting of the word AS WRITTEN decides -/
theorem last_fallback_decides_written (pre post : List Step) (s : Step)
    (hord : optsFirst (pre ++ s :: post) = true) (hs : s.setting = .fbFn)
    (hpost : ∀ x, x ∈ post → x.setting ≠ .fbFn)
    (hbudget : 0 < getMaxRetries (build .node (pre ++ s :: post))) :
    (modelObs .node (pre ++ s :: post)).runB.fb = some s.tag
    ∧ ((modelObs .node (pre ++ s :: post)).runB.out = "err" ↔ s.tag % 2 = 1) := by
  obtain ⟨_, _, h3, h4, h5⟩ :=
    last_fallback_decides (pre ++ s :: post) pre post s (effective_of_optsFirst _ hord) hs hpost hbudget
  refine ⟨h3, ?_, fun h => (h4 h).1⟩
  intro herr
  by_cases hodd : s.tag % 2 = 1
  · exact hodd
  · have h0 : s.tag % 2 = 0 := by omega
    rw [(h5 h0).1] at herr
    split at herr <;> simp at herr

/-- **A builder-form fallback setting replaces every fallback installed before it** — whether by a
    constructor option (wherever that option is written: the constructor runs first) or by an earlier
    builder call. `s` is the last BUILDER-form fallback setting of the word as written; the word is
    otherwise arbitrary. This is the statement a `WithExecFallbackFunc` method that chains the new
    function in front of the old one violates. -/
theorem bld_fallback_replaces (pre post : List Step) (s : Step)
    (hs : s.setting = .fbFn) (hf : s.form = .bld)
    (hpost : ∀ x, x ∈ post → x.form = .bld → x.setting ≠ .fbFn)
    (hbudget : 0 < getMaxRetries (build .node (pre ++ s :: post))) :
    (build .node (pre ++ s :: post)).execFallbackFunc = some ⟨s.tag, false⟩
    ∧ (modelObs .node (pre ++ s :: post)).runB.fb = some s.tag
    ∧ (s.tag % 2 = 1 → (modelObs .node (pre ++ s :: post)).runB.out = "err"
        ∧ (modelObs .node (pre ++ s :: post)).runB.post = none) := by
  have hb : isBld s = true := by simp [isBld, hf]
  have hsplit : effective (pre ++ s :: post)
      = ((pre ++ s :: post).filter isOpt ++ pre.filter isBld) ++ s :: post.filter isBld := by
    unfold effective
    rw [List.filter_append (p := isBld), List.filter_cons_of_pos hb, List.append_assoc]
  have hpost' : ∀ x, x ∈ post.filter isBld → x.setting ≠ .fbFn := by
    intro x hx
    obtain ⟨hm, hxb⟩ := List.mem_filter.mp hx
    exact hpost x hm (by simpa [isBld] using hxb)
  obtain ⟨_, _, h3, h4, _⟩ := last_fallback_decides _ _ _ s hsplit hs hpost' hbudget
  exact ⟨fbFunc_of_last _ _ _ s hsplit hs hpost', h3, h4⟩

/-- a node with no fallback setting at all: the probe run fails after the exec attempts, no fallback
    and no post function runs -/
theorem no_fallback_fails (steps : List Step) (hnone : ∀ x, x ∈ steps → x.setting ≠ .fbFn)
    (hbudget : 0 < getMaxRetries (build .node steps)) :
    (modelObs .node steps).runB.fb = none ∧ (modelObs .node steps).runB.out = "err"
    ∧ (modelObs .node steps).runB.post = none := by
  have hfb : (build .node steps).execFallbackFunc = none := by
    rw [node_fbFunc]
    have : lastSome (setsFbFunc .node) (effective steps) = none :=
      lastSome_none _ _ (fun x hx => by
        have hm : x ∈ steps := by
          unfold effective at hx
          rcases List.mem_append.mp hx with h | h <;> exact (List.mem_filter.mp h).1
        have := hnone x hm
        cases x with
        | mk st f t => cases st <;> simp_all [setsFbFunc])
    rw [this]; rfl
  have hb : ¬ (build .node steps).base.maxRetries.toNat = 0 := by
    simp only [getMaxRetries] at hbudget; omega
  rw [runB_node]
  simp [runNode, hfb, hb]

/-- a failing fallback (odd tag) is visible: the run fails after the fallback ran, post does not run -/
example : (modelObs .node [⟨.fbFn, .bld, 1⟩]).runB
    = { prep := none, exec := some 900, fb := some 1, post := none, calls := [1], out := "err" } := by decide

/-- … a succeeding one (even tag) rescues the run -/
example : (modelObs .node [⟨.fbFn, .opt, 2⟩, ⟨.postFn false, .bld, 4⟩, ⟨.maxRetries 3, .opt, 6⟩]).runB
    = { prep := none, exec := some 900, fb := some 2, post := some 4, calls := [3], out := "done" } := by decide

/-- last wins, observably: the same two fallback settings in the two orders give different probe
    runs (under the old "every fallback succeeds" probe they differed in the `fb` tag only; a chained
    implementation that records the last fallback that RAN shows `fb = 2`, `out = "default"` for both) -/
example :
    (modelObs .node [⟨.fbFn, .bld, 2⟩, ⟨.fbFn, .bld, 1⟩]).runB
      = { prep := none, exec := some 900, fb := some 1, post := none, calls := [1], out := "err" }
    ∧ (modelObs .node [⟨.fbFn, .bld, 1⟩, ⟨.fbFn, .bld, 2⟩]).runB
      = { prep := none, exec := some 900, fb := some 2, post := none, calls := [1], out := "default" }
    ∧ (modelObs .node [⟨.fbFn, .bld, 2⟩, ⟨.fbFn, .bld, 1⟩]).runB
      ≠ (modelObs .node [⟨.fbFn, .bld, 1⟩, ⟨.fbFn, .bld, 2⟩]).runB := by decide

/-- a builder-form fallback written BEFORE an option-form one still executes later, hence wins -/
example : (modelObs .node [⟨.fbFn, .bld, 3⟩, ⟨.fbFn, .opt, 4⟩]).runB.fb = some 3
    ∧ (modelObs .node [⟨.fbFn, .bld, 3⟩, ⟨.fbFn, .opt, 4⟩]).runB.out = "err" := by decide

/-- the hypotheses of `last_fallback_decides` / `bld_fallback_replaces` are satisfiable by a mixed word
    with three fallback settings -/
example :
    let w : List Step := [⟨.fbFn, .bld, 2⟩, ⟨.fbFn, .opt, 4⟩, ⟨.fbFn, .bld, 5⟩, ⟨.wait 1, .opt, 6⟩]
    effective w = [⟨.fbFn, .opt, 4⟩, ⟨.wait 1, .opt, 6⟩, ⟨.fbFn, .bld, 2⟩] ++ ⟨.fbFn, .bld, 5⟩ :: []
    ∧ 0 < getMaxRetries (build .node w) ∧ (modelObs .node w).runB.fb = some 5
    ∧ (modelObs .node w).runB.out = "err" := by decide

/-- the predicate `c19` rejects what a CHAINING builder method shows for "fallback 2, then fallback 1":
    the new function (1) fails, the old one (2) runs and rescues the run — whether the harness reports
    the last fallback that ran (`fb = 2`, which is the observation of the word `[fallback 2]`) or the
    first (`fb = 1`) -/
example :
    let w : List Step := [⟨.fbFn, .bld, 2⟩, ⟨.fbFn, .bld, 1⟩]
    c19 .node w (modelObs .node w) = true
    ∧ c19 .node w (modelObs .node [⟨.fbFn, .bld, 2⟩]) = false
    ∧ c19 .node w { modelObs .node w with
        runB := { prep := none, exec := some 900, fb := some 1, post := none, calls := [1], out := "default" } } = false := by
  decide

/-- batch: the fallback field cannot be set through a batch builder, but `runBatch` honours it. A
    failing fallback leaves an error in item 0's slot, so "stop" skips the later items exactly as
    without a fallback; a succeeding one lets the batch go on. Post runs in every case. -/
example :
    let n (fb : Option Fn) : Node :=
      { emptyNode with base := ⟨2, 0, 0, .stop⟩, batchPrepFunc := some ⟨901, false⟩,
                       execFunc := some ⟨900, false⟩, execFallbackFunc := fb, batchPostFunc := some ⟨8, false⟩ }
    runBatch (n (some ⟨1, false⟩))
      = { prep := some 901, exec := some 900, fb := some 1, post := some 8, calls := [2, 0, 0], out := "done" }
    ∧ runBatch (n (some ⟨2, false⟩))
      = { prep := some 901, exec := some 900, fb := some 2, post := some 8, calls := [2, 1, 1], out := "done" }
    ∧ runBatch (n none)
      = { prep := some 901, exec := some 900, fb := none, post := some 8, calls := [2, 0, 0], out := "done" }
    ∧ (runBatch { n (some ⟨1, false⟩) with base := ⟨2, 0, 2, .stop⟩ }).calls = [2, 1, 1]
    ∧ (runBatch { n (some ⟨1, false⟩) with base := ⟨2, 0, 0, .cont⟩ }).calls = [2, 1, 1] := by decide

/-- **Pool size.** A worker pool created with a size ≤ 0 has exactly one worker, a positive size is
    taken as is; a batch works on one item at a time unless its concurrency is positive. -/
theorem pool_size (w : Int) :
    (w ≤ 0 → poolWorkers w = 1) ∧ (0 < w → (poolWorkers w : Int) = w)
    ∧ (w ≤ 0 → batchWidth w = 1) ∧ (0 < w → (batchWidth w : Int) = w) := by
  unfold batchWidth poolWorkers
  refine ⟨?_, ?_, ?_, ?_⟩ <;> intro h
  · simp [h]
  · have : ¬ w ≤ 0 := by omega
    simp only [this, if_false]; omega
  · have : ¬ w > 0 := by omega
    simp [this]
  · have h2 : ¬ w ≤ 0 := by omega
    simp only [h, h2, if_true, if_false]; omega

example : poolWorkers (-3) = 1 ∧ poolWorkers 0 = 1 ∧ poolWorkers 4 = 4 ∧ batchWidth 0 = 1 ∧ batchWidth 2 = 2 := by
  decide

/-- **The property predicate holds of the model** — this is what agreement on a scenario transfers
    to the implementation: for every step sequence in the domain, the observation the model predicts
    (getters before and after further builder calls, both probe runs, items in flight) satisfies
    `Spec c19`, i.e. is the observation of the last-wins configuration with documented defaults. -/
theorem spec_holds_on_model (k : Kind) (steps : List Step)
    (hdom : ∀ s, s ∈ steps → inDomain k s = true) :
    c19 k steps (modelObs k steps) = true := by
  have hg : getters (lastWins k (effective steps)) = expectedGetters (effective steps) := by
    simp only [getters, expectedGetters, lastWins, getMaxRetries, getWait, getBatchConcurrency,
      getBatchErrorHandling]
    cases lastSome setsEH (effective steps) with
    | none => rfl
    | some e => cases e <;> rfl
  unfold c19 modelObs
  rw [build_eq_lastWins k steps hdom]
  have h1 : (observe k (lastWins k (effective steps))).g = expectedGetters (effective steps) := by
    rw [← hg]; cases k <;> rfl
  have h2 : (observe k (lastWins k (effective steps))).g2 = expectedGetters (effective steps) := by
    rw [← hg, ← getters_withProbes k]; cases k <;> rfl
  simp [h1, h2]

example : c19 .batch [⟨.batchConcurrency 2, .opt, 0⟩, ⟨.prepFn false, .bld, 1⟩, ⟨.batchConcurrency 3, .bld, 2⟩]
      (modelObs .batch [⟨.batchConcurrency 2, .opt, 0⟩, ⟨.prepFn false, .bld, 1⟩, ⟨.batchConcurrency 3, .bld, 2⟩]) = true
    ∧ (modelObs .batch [⟨.batchConcurrency 2, .opt, 0⟩, ⟨.prepFn false, .bld, 1⟩, ⟨.batchConcurrency 3, .bld, 2⟩]).hwm = 3 := by
  decide

theorem spec_pool_holds_on_model (w : Int) : c19Pool w (poolWorkers w) = true := by
  unfold c19Pool poolWorkers
  by_cases h : w ≤ 0
  · simp [h]
  · simp only [h, if_false, decide_eq_true_eq]; omega

/-- non-vacuity: the predicate is not trivially true — it rejects a first-wins observation -/
example :
    c19 .node [⟨.maxRetries 2, .opt, 0⟩, ⟨.maxRetries 3, .bld, 1⟩]
        (modelObs .node [⟨.maxRetries 2, .opt, 0⟩, ⟨.maxRetries 3, .bld, 1⟩]) = true
    ∧ c19 .node [⟨.maxRetries 2, .opt, 0⟩, ⟨.maxRetries 3, .bld, 1⟩]
        (modelObs .node [⟨.maxRetries 2, .opt, 0⟩]) = false
    ∧ c19Pool 0 2 = false := by decide

end Flyt.Props.C19
