import FlytModel.Proofs.SpecC03
import FlytModel.Proofs.CancelFree
import FlytModel.Proofs.ExampleEnv
/-!
# C03 — Flow routing follows the transition table exactly

Theorems about `connect` / `buildTable` / `tableLookup` (the literal two-level `transitions` map of `Flow.Connect`)
and about `flowLoop` / `runNode` (`Flow.Exec`, `flyt.Run`) for EVERY connection list (any order, overwrites,
nil targets), arena (graphs of any size, cycles, self-loops, shared targets, nesting), per-visit behaviour,
run state and fuel that does not run out.  `Proofs/Path.lean` defines `Visit`, `IsPath`, `route`.
-/
namespace Flyt.Props.C03
open Flyt Flyt.Proofs

/-- **(i) The table is a last-write-wins map.**  What `Flow.Exec` reads from `transitions[n][a]` after any
    sequence of `Connect` calls is the target of the most recent call for exactly the pair `(n, a)`:
    `none` = never connected, `some none` = connected to nil; no prefix matching, no fallback to a default action. -/
theorem table_last_write_wins (ops : List ConnOp) (n : NodeId) (a : Action) :
    tableLookup (buildTable ops) n a =
      (ops.reverse.find? (fun o => o.src = n ∧ o.action = a)).map (·.dst) :=
  Table.tableLookup_buildTable ops n a

example : tableLookup (buildTable [⟨2, "y", some 1⟩, ⟨2, "yy", some 5⟩, ⟨2, "y", some 3⟩, ⟨3, "y", none⟩]) 2 "y"
      = some (some 3) ∧
    tableLookup (buildTable [⟨2, "y", some 1⟩, ⟨2, "yy", some 5⟩, ⟨2, "y", some 3⟩, ⟨3, "y", none⟩]) 3 "y" = some none ∧
    tableLookup (buildTable [⟨2, "y", some 1⟩, ⟨2, "yy", some 5⟩, ⟨2, "y", some 3⟩, ⟨3, "y", none⟩]) 2 "" = none := by
  decide

/-- one more `Connect(n, a, d)` overwrites exactly the pair `(n, a)` (also with a nil target, also on a
    flow that has already been run) and leaves every other pair as it was -/
theorem connect_overwrites_one_pair (ops : List ConnOp) (op : ConnOp) (n : NodeId) (a : Action) :
    tableLookup (buildTable (ops ++ [op])) n a =
      if op.src = n ∧ op.action = a then some op.dst else tableLookup (buildTable ops) n a := by
  rw [Table.tableLookup_buildTable, Table.tableLookup_buildTable, Table.next_append_singleton]

example : tableLookup (buildTable ([⟨1, "a", some 2⟩] ++ [⟨1, "a", none⟩])) 1 "a" = some none := by decide

/-- **(ii) The executed path is the path the table determines.**  Every run of `Flow.Exec` from `start`
    (non-`fuel`) splits into visits `vs` — each a genuine `flyt.Run` of one node in the state the previous visit
    left — chained by `IsPath`: first visit = `start`; after a visit of `n` returning action `a` the next visit
    is of the node most recently connected to `(n, a)`; the flow ends `ok a` exactly at the first pair that is
    unconnected or connected to nil; a failing visit ends it with that error; the trace is the concatenation of
    the visits' events, nothing else. -/
theorem exec_follows_table (env : Env) (fuel : Nat) (ops : List ConnOp) (start : NodeId) (sid : StoreId)
    (st : RunSt) {evs st' out} (h : flowLoop env fuel (buildTable ops) start sid st = (evs, st', out))
    (hfuel : out ≠ .fuel) :
    ∃ vs : List Visit, IsPath ops start st vs st' out ∧ evs = vs.flatMap (·.evs) ∧
      ∀ v ∈ vs, v.Genuine env sid := by
  obtain ⟨vs, hp, he, hg⟩ := path_of_big (big_of_flowLoop h hfuel)
  refine ⟨vs, hp, he, fun v hv => ?_⟩
  obtain ⟨hr, f, hf⟩ := run_of_big (hg v hv)
  exact ⟨f, hf, hr⟩

/-- the same for `flyt.Run` on a flow node (root or nested): it runs its own path from its own start node and
    presents the last action (normalised) or the error -/
theorem run_flow_follows_table (env : Env) (fuel : Nat) (root : NodeId) (sid : StoreId) (st : RunSt)
    {s ops evs st' out} (hA : env.arena root = .flow (some s) ops) (hlive : st.ctx = .live)
    (h : runNode env fuel root sid st = (evs, st', out)) (hfuel : out ≠ .fuel) :
    ∃ (vs : List Visit) (out' : Outcome), IsPath ops s st vs st' out' ∧ evs = vs.flatMap (·.evs) ∧
      (∀ v ∈ vs, v.Genuine env sid) ∧
      out = (match out' with | .ok a => .ok (norm a) | o => o) := by
  cases fuel with
  | zero => simp [runNode] at h; exact absurd h.2.2.symm hfuel
  | succ f =>
    simp only [runNode, hA, hlive] at h
    cases hl : flowLoop env f (buildTable ops) s sid st with
    | mk evs1 p =>
      obtain ⟨st1, r1⟩ := p
      rw [hl] at h
      have hr1 : r1 ≠ .fuel := by
        intro hf; subst hf; simp only at h; cases h; exact hfuel rfl
      obtain ⟨vs, hp, he, hg⟩ := exec_follows_table env f ops s sid st hl hr1
      cases r1 with
      | ok a => simp only at h; cases h; exact ⟨vs, .ok a, hp, he, hg, rfl⟩
      | err e => simp only at h; cases h; exact ⟨vs, .err e, hp, he, hg, rfl⟩
      | both a e => simp only at h; cases h; exact ⟨vs, .both a e, hp, he, hg, rfl⟩
      | fuel => exact absurd rfl hr1

example : ((runNode Ex.envLoop 10 0 7 Ex.st0).1.map Spec.evKey).eraseDups =
      [(1, 0), (4, 0), (5, 0), (3, 0), (3, 1)] ∧
    (runNode Ex.envLoop 10 0 7 Ex.st0).2.2 = .ok "again" := by decide

/-- **The path is unique and computable from the table and the returned actions**: unless the run was cut by
    cancellation, the visited nodes are `route ops start (outcomes of the visits)`. -/
theorem path_is_determined (ops : List ConnOp) (start : NodeId) (st st' : RunSt) (vs : List Visit) (out : Outcome)
    (hp : IsPath ops start st vs st' out) (hlive : st'.ctx = .live) (hst : st.ctx = .live) :
    vs.map (·.node) = route ops start (vs.map (·.out)) := by
  cases vs with
  | nil => obtain ⟨_, k, hk, _⟩ := hp; rw [hst] at hk; cases hk
  | cons v vs => exact isPath_nodes hp (by simp) hlive

/-- a flow that returns an action returned the action of the last node it executed, and that node has no
    (non-nil) connection for it — at the moment of the lookup, so re-connections between runs count -/
theorem ok_ends_at_unconnected (ops : List ConnOp) (start : NodeId) (st st' : RunSt) (vs : List Visit) (a : Action)
    (hp : IsPath ops start st vs st' (.ok a)) :
    ∃ v, vs.getLast? = some v ∧ v.out = .ok a ∧ (next ops v.node a = none ∨ next ops v.node a = some none) := by
  obtain ⟨v, hl, ho, _, hn⟩ := isPath_ok_last hp
  refine ⟨v, hl, ho, ?_⟩
  cases hx : next ops v.node a with
  | none => exact .inl rfl
  | some t =>
    cases t with
    | none => exact .inr rfl
    | some nxt => exact absurd hx (hn nxt)

/-- **No node off the path is touched.**  Every callback event of a run belongs to a leaf / batch node of the
    arena and carries the run's store; a visit of a leaf / batch node emits only that node's events; and the
    visit counter (which script a node uses next) of a node that emitted no event is unchanged. -/
theorem off_path_untouched (env : Env) (fuel : Nat) (root : NodeId) (sid : StoreId) (st : RunSt) {evs st' out}
    (h : runNode env fuel root sid st = (evs, st', out)) (hfuel : out ≠ .fuel) :
    (∀ e ∈ evs, NodeEv env sid e) ∧
    (∀ m, (∀ e ∈ evs, (Spec.evKey e).1 ≠ m) → st'.visits m = st.visits m) ∧
    ((∀ s ops, env.arena root ≠ .flow s ops) → ∀ e ∈ evs, Spec.evKey e = (root, st.visits root)) := by
  have hb := big_of_runNode h hfuel
  exact ⟨big_events hb, big_untouched hb, big_own_events hb⟩

/-- … for a flat flow: every event of the run is an event of a node ON the path. -/
theorem flat_flow_events_on_path (env : Env) (fuel : Nat) (ops : List ConnOp) (start : NodeId) (sid : StoreId)
    (st : RunSt) {evs st' out} (h : flowLoop env fuel (buildTable ops) start sid st = (evs, st', out))
    (hfuel : out ≠ .fuel) :
    ∃ vs : List Visit, IsPath ops start st vs st' out ∧
      ((∀ v ∈ vs, ∀ s o, env.arena v.node ≠ .flow s o) →
        (∀ e ∈ evs, (Spec.evKey e).1 ∈ vs.map (·.node)) ∧
        (∀ m, m ∉ vs.map (·.node) → st'.visits m = st.visits m)) := by
  have hb := big_of_flowLoop h hfuel
  obtain ⟨vs, hp, he, hg⟩ := path_of_big hb
  refine ⟨vs, hp, fun hflat => ?_⟩
  have hev : ∀ e ∈ evs, (Spec.evKey e).1 ∈ vs.map (·.node) := by
    intro e hee
    rw [he, List.mem_flatMap] at hee
    obtain ⟨v, hv, hev⟩ := hee
    have := big_own_events (hg v hv) (hflat v hv) e hev
    rw [this]
    exact List.mem_map.mpr ⟨v, hv, rfl⟩
  refine ⟨hev, fun m hm => big_untouched hb m (fun e hee hk => hm (hk ▸ hev e hee))⟩

/-- **(iii) Repeated runs.**  The model keeps no per-flow run state: a second `Run` of the same flow object
    (same `ops`, possibly extended by `Connect` calls in between — then with the extended list) again starts at
    the start node and again follows the table, from whatever run state the first run left. -/
theorem rerun_follows_table (env : Env) (fuel₁ fuel₂ : Nat) (root : NodeId) (sid : StoreId) (st : RunSt)
    {s ops evs₁ st₁ out₁ evs₂ st₂ out₂} (hA : env.arena root = .flow (some s) ops)
    (h₁ : runNode env fuel₁ root sid st = (evs₁, st₁, out₁)) (hf₁ : out₁ ≠ .fuel)
    (h₂ : runNode env fuel₂ root sid st₁ = (evs₂, st₂, out₂)) (hf₂ : out₂ ≠ .fuel)
    (hl₁ : st.ctx = .live) (hl₂ : st₁.ctx = .live) :
    (∃ vs o, IsPath ops s st vs st₁ o ∧ evs₁ = vs.flatMap (·.evs)) ∧
    (∃ vs o, IsPath ops s st₁ vs st₂ o ∧ evs₂ = vs.flatMap (·.evs)) := by
  obtain ⟨vs1, o1, p1, e1, _⟩ := run_flow_follows_table env fuel₁ root sid st hA hl₁ h₁ hf₁
  obtain ⟨vs2, o2, p2, e2, _⟩ := run_flow_follows_table env fuel₂ root sid st₁ hA hl₂ h₂ hf₂
  exact ⟨⟨vs1, o1, p1, e1⟩, ⟨vs2, o2, p2, e2⟩⟩

example : (runNode Ex.env1 10 0 7 (runNode Ex.env1 10 0 7 Ex.st0).2.1).2.2 = .ok "again" ∧
    ((runNode Ex.env1 10 0 7 (runNode Ex.env1 10 0 7 Ex.st0).2.1).1.map Spec.evKey).eraseDups =
      [(1, 1), (4, 1), (5, 1), (3, 1)] := by decide

/-- … and the result of a run does not depend on how much fuel was given, as long as it suffices. -/
theorem fuel_irrelevant (env : Env) (f f' : Nat) (root : NodeId) (sid : StoreId) (st : RunSt)
    (h : (runNode env f root sid st).2.2 ≠ .fuel) (h' : (runNode env f' root sid st).2.2 ≠ .fuel) :
    runNode env f root sid st = runNode env f' root sid st :=
  runNode_det rfl h rfl h'

/-- **C03 as the driver evaluates it.**  `Spec.c03` — visit sequence of the trace = `Spec.specPath` (computed from
    `next` and the per-visit actions only), store log = the path's nodes, outcome = last action / error — holds
    of the model's own observation of a run of a flow on store 0 without cancellation, whenever every leaf of the
    arena has a prep callback (the instrumented nodes count their visits there; generated flows satisfy this).
    For flows that are not flat the predicate is vacuous; the general statement is `exec_follows_table`. -/
theorem spec_c03 (env : Env) (fuel : Nat) (root : NodeId) (st : RunSt) {evs st' out}
    (hprep : ∀ n cfg, env.arena n = .leaf cfg → cfg.prepS ≠ .absent)
    (hlive : st.ctx = .live) (h : runNode env fuel root 0 st = (evs, st', out)) (hfuel : out ≠ .fuel)
    (hnc : ∀ e ∈ evs, cancelsAt env e = false) :
    Spec.c03 env root st.visits fuel ⟨Spec.noWaits evs, out, storeLog evs⟩ = true :=
  spec_c03_of_run env fuel root st hprep hlive h hfuel hnc

/-- a flat instance: the inner flow 2 of the example arena (4 -x-> 5), run directly -/
example : Spec.isFlatFlow Ex.env1 [⟨4, "x", some 5⟩] 4 = true ∧
    (∀ e ∈ (runNode Ex.env1 10 2 0 Ex.st0).1, cancelsAt Ex.env1 e = false) ∧
    Spec.specPath Ex.env1 [⟨4, "x", some 5⟩] 10 4 (fun _ => 0) = ([(4, 0), (5, 0)], some "y") ∧
    Spec.c03 Ex.env1 2 (fun _ => 0) 10
      ⟨Spec.noWaits (runNode Ex.env1 10 2 0 Ex.st0).1, (runNode Ex.env1 10 2 0 Ex.st0).2.2,
       storeLog (runNode Ex.env1 10 2 0 Ex.st0).1⟩ = true := by decide

/-- … with the hypothesis as the driver computes it (`CancelFree env`: no script carries a cancellation). -/
theorem spec_c03_cancelFree (env : Env) (hcf : CancelFree env)
    (hprep : ∀ n cfg, env.arena n = .leaf cfg → cfg.prepS ≠ .absent)
    (fuel : Nat) (root : NodeId) (st : RunSt) (hlive : st.ctx = .live)
    (hfuel : (runNode env fuel root 0 st).2.2 ≠ .fuel) :
    Spec.c03 env root st.visits fuel
      ⟨Spec.noWaits (runNode env fuel root 0 st).1, (runNode env fuel root 0 st).2.2,
       storeLog (runNode env fuel root 0 st).1⟩ = true :=
  have hb := big_of_runNode (st' := (runNode env fuel root 0 st).2.1) rfl hfuel
  spec_c03_of_run env fuel root st hprep hlive rfl hfuel (big_cancelFree hb hcf)

example : ∀ n cfg, Ex.env1.arena n = .leaf cfg → cfg.prepS ≠ .absent := by
  intro n cfg h
  simp only [Ex.env1, Ex.arena1] at h
  split at h <;> cases h <;> simp [Ex.cfgPlain, Ex.cfgNoFb]

end Flyt.Props.C03
