import FlytModel.Proofs.StoreAbs
/-!
# C14 — the shared store behaves as a map and hands out isolated snapshots

Theorems about the heap machine `Store.step` of `Model/Store.lean` (the sequential semantics of
`flyt.SharedStore`, flyt.go:55-161), for **every** operation sequence `ops : List Op` — store calls,
`Merge` of nil / of a literal / of the very object a previous call handed out, and caller-side
mutations of handed-out maps and keys slices, interleaved in any way.
-/
namespace Flyt.Props.C14
open Flyt Flyt.Store Flyt.Spec.Store

/-- **Isolation invariant.** In every reachable state the store's map object is distinct from every
    caller-held map object, caller-held maps are pairwise distinct objects, and so are caller-held
    keys slices (all references valid). -/
theorem isolation_invariant (ops : List Op) : Iso (exec St.init ops) :=
  iso_exec iso_init ops

-- non-vacuity: two `GetAll`s, a literal, a `Clear`: store object 4, caller objects 1, 2, 3
example : (exec St.init [.set "a" (.tok 1), .getAll, .getAll, .mergeLit [("b", .tok 2)], .clear, .keys]).data = 4 ∧
    (exec St.init [.set "a" (.tok 1), .getAll, .getAll, .mergeLit [("b", .tok 2)], .clear, .keys]).snaps = [1, 2, 3] := by
  decide

/-- **Isolation, observably.** The heap machine answers every sequence exactly like the machine in
    which every handed-out object is an independent *value* (`vstep`: a store operation cannot touch
    a caller-held object, a caller-side mutation cannot touch the store or another object), and its
    state stays the heap image of that machine's state. -/
theorem heap_machine_is_value_machine (ops : List Op) :
    run St.init ops = vrun VSt.init ops ∧ (exec St.init ops).view = vexec VSt.init ops :=
  ⟨by rw [run_view iso_init, view_init], by rw [exec_view iso_init, view_init]⟩

-- non-vacuity: mutate the snapshot, overwrite the store, merge the (mutated) snapshot back
example : run St.init [.set "a" (.tok 1), .getAll, .snapSet 0 "a" (.tok 2), .snapSet 0 "é" (.tok 0), .get "a",
      .set "a" (.tok 3), .readSnap 0, .mergeSnap 0, .get "a", .has "é", .snapDel 0 "é", .has "é"] =
    [.unit, .map [("a", .tok 1)], .unit, .unit, .got (.tok 1) true,
      .unit, .map [("é", .tok 0), ("a", .tok 2)], .unit, .got (.tok 2) true, .bool true, .unit, .bool true] := by
  decide

/-- **Refinement, step form.** `abs` commutes with every operation in every reachable state:
    Set overwrites one key, Delete removes one key, Clear removes all, Merge lays the argument over
    the map key-wise (`overlay`), `Merge(nil)` and every read and every caller-side mutation leave
    the map as it is (`absStep`, Proofs/StoreAbs.lean). -/
theorem abs_commutes (ops : List Op) (op : Op) :
    abs (step (exec St.init ops) op).1 = absStep (exec St.init ops) (abs (exec St.init ops)) op :=
  abs_step (iso_exec iso_init ops) op

example : abs (exec St.init [.set "a" (.tok 1), .set "b" (.tok 2), .mergeLit [("a", .tok 3), ("", .tok 0)]]) "a" = some (.tok 3)
    ∧ abs (exec St.init [.set "a" (.tok 1), .set "b" (.tok 2), .mergeLit [("a", .tok 3), ("", .tok 0)]]) "b" = some (.tok 2)
    ∧ abs (exec St.init [.set "a" (.tok 1), .set "b" (.tok 2), .mergeLit [("a", .tok 3), ("", .tok 0)]]) "" = some (.tok 0) := by
  decide

/-- **Refinement, sequence form.** After every operation sequence the store denotes exactly the
    function-level plain map of `Spec/Store.lean` (`fexec`: `if x = k then … else f x` updates). -/
theorem abs_is_plain_map (ops : List Op) (k : Key) :
    abs (exec St.init ops) k = (fexec FSt.init ops).cur.f k := by
  obtain ⟨ks, h⟩ := sim_vexec simV_init ops
  have hv : (exec St.init ops).cur = (vexec VSt.init ops).m :=
    congrArg VSt.m (heap_machine_is_value_machine ops).2
  simp only [abs, hv]
  exact h.cur.look k

example : (fexec FSt.init [.set "a" (.tok 1), .delete "a", .set "b" (.tok 0)]).cur.f "a" = none
    ∧ (fexec FSt.init [.set "a" (.tok 1), .delete "a", .set "b" (.tok 0)]).cur.f "b" = some (.tok 0) := by
  decide

/-- **The answers agree with each other and with the map.** In every reachable state:
    `Get k` returns the map's entry (`nil, false` when absent); `Has k` says whether there is one;
    `Keys` lists exactly the present keys, each once; `GetAll` has exactly the map's entries, each key
    once; `Len` is the number of keys `Keys` lists and the number of entries `GetAll` returns. -/
theorem answers_agree (ops : List Op) :
    let s := exec St.init ops
    (∀ k, (step s (.get k)).2 = .got ((abs s k).getD Val.nil) (abs s k).isSome) ∧
    (∀ k, (step s (.has k)).2 = .bool (abs s k).isSome) ∧
    ∃ ks kv, (step s .keys).2 = .keys ks ∧ (step s .getAll).2 = .map kv ∧
      ks.Nodup ∧ (∀ k, k ∈ ks ↔ (abs s k).isSome = true) ∧
      NodupKeys kv ∧ (∀ k, lookup k kv = abs s k) ∧
      (step s .len).2 = .nat ks.length ∧ kv.length = ks.length := by
  intro s
  have hr : Reachable s := ⟨ops, rfl⟩
  have hn : NodupKeys s.cur := hr.nodupKeys
  refine ⟨fun _ => rfl, fun _ => rfl, keysOf s.cur, mergeInto [] s.cur, rfl, rfl, hn, ?_, ?_, ?_, ?_, ?_⟩
  · intro k; exact mem_keysOf_iff k s.cur
  · rw [mergeInto_nil_self hn]; exact hn
  · intro k; rw [mergeInto_nil_self hn]; rfl
  · simp only [step, length_keysOf]
  · rw [mergeInto_nil_self hn, length_keysOf]

example : (step (exec St.init [.set "a" (.tok 1), .set "日本" (.tok 0), .set "a" (.tok 5)]) .len).2 = .nat 2
    ∧ (step (exec St.init [.set "a" (.tok 1), .set "日本" (.tok 0), .set "a" (.tok 5)]) .keys).2 = .keys ["a", "日本"] := by
  decide

/-- **A stored nil is present.** After `Set(k, nil)`: `Has k`, `Get k = (nil, true)`, and `k` is
    among `Keys`. -/
theorem stored_nil_is_present (ops : List Op) (k : Key) :
    let s := (step (exec St.init ops) (.set k Val.nil)).1
    (step s (.has k)).2 = .bool true ∧ (step s (.get k)).2 = .got Val.nil true ∧
    ∃ ks, (step s .keys).2 = .keys ks ∧ k ∈ ks := by
  intro s
  have h := abs_commutes ops (.set k Val.nil)
  have hk : abs s k = some Val.nil := by
    show abs (step (exec St.init ops) (.set k Val.nil)).1 k = _
    rw [h]; simp [absStep]
  have hk' : lookup k s.cur = some Val.nil := hk
  refine ⟨?_, ?_, keysOf s.cur, rfl, ?_⟩
  · simp only [step, hk']; rfl
  · simp only [step, hk']; rfl
  · rw [mem_keysOf_iff, hk']; rfl

example : run St.init [.set "" (.tok 0), .has "", .get "", .len, .delete "", .has ""] =
    [.unit, .bool true, .got (.tok 0) true, .nat 1, .unit, .bool false] := by decide

/-- **Caller-side mutations never change the store.** Reads, `Merge(nil)`, and every mutation of a
    handed-out map or keys slice leave the store's map as it was. -/
theorem store_ignores_caller_side_ops (ops : List Op) (op : Op) (h : op.leavesStoreAlone = true) :
    abs (step (exec St.init ops) op).1 = abs (exec St.init ops) := by
  rw [abs_commutes]
  cases op <;> first | rfl | (simp [Op.leavesStoreAlone] at h)

example : (Op.snapSet 0 "a" (.tok 9)).leavesStoreAlone = true ∧ (Op.keysRepl 0 "a" "b").leavesStoreAlone = true
    ∧ (Op.set "a" (.tok 9)).leavesStoreAlone = false := by decide

/-- **Later store updates never change a handed-out map.** The content of the caller-held map `j`
    after any step is its content before, changed only by that step being a mutation of handle `j`
    itself (`snapAfter`): content at creation plus its own mutations. -/
theorem snapshot_content (ops : List Op) (op : Op) (j : Nat) (a : KV)
    (h : (exec St.init ops).view.snaps[j]? = some a) :
    (step (exec St.init ops) op).1.view.snaps[j]? = some (snapAfter a j op) := by
  rw [(step_view (iso_exec iso_init ops) op).2]
  exact vstep_snap _ op j a h

/-- the same for a handed-out keys slice (`ksnapAfter`) -/
theorem keys_slice_content (ops : List Op) (op : Op) (j : Nat) (l : List Key)
    (h : (exec St.init ops).view.ksnaps[j]? = some l) :
    (step (exec St.init ops) op).1.view.ksnaps[j]? = some (ksnapAfter l j op) := by
  rw [(step_view (iso_exec iso_init ops) op).2]
  exact vstep_ksnap _ op j l h

example : run St.init [.set "a" (.tok 1), .keys, .getAll, .clear, .set "b" (.tok 2), .readKeys 0, .readSnap 0,
      .keysRepl 0 "a" "z", .readKeys 0, .keys, .readKeys 1] =
    [.unit, .keys ["a"], .map [("a", .tok 1)], .unit, .unit, .keys ["a"], .map [("a", .tok 1)],
      .unit, .keys ["z"], .keys ["b"], .keys ["b"]] := by decide

/-- **C14 holds of the model**: for every operation sequence the heap machine's responses satisfy the
    property predicate `Spec.Store.c14` (the predicate the driver evaluates on the implementation's
    responses). -/
theorem c14_holds (ops : List Op) : c14 ops (run St.init ops) = true := by
  rw [(heap_machine_is_value_machine ops).1]
  exact check_vrun simV_init ops

-- non-vacuity: the predicate rejects an aliased snapshot, a `Clear` that leaves entries, a `Merge`
-- that does not overwrite, a `Len` that disagrees with `Keys`
example : c14 [.set "a" (.tok 1), .getAll, .snapSet 0 "a" (.tok 2), .get "a"]
    [.unit, .map [("a", .tok 1)], .unit, .got (.tok 2) true] = false := by decide
example : c14 [.set "a" (.tok 1), .clear, .has "a"] [.unit, .unit, .bool true] = false := by decide
example : c14 [.set "a" (.tok 1), .mergeLit [("a", .tok 2)], .get "a"] [.unit, .unit, .got (.tok 1) true] = false := by decide
example : c14 [.set "a" (.tok 1), .set "b" (.tok 1), .keys, .len] [.unit, .unit, .keys ["b", "a"], .nat 1] = false := by decide
example : c14 [.set "a" (.tok 1), .keys, .delete "a", .readKeys 0] [.unit, .keys ["a"], .unit, .keys []] = false := by decide
example : c14 [.set "a" (.tok 1), .set "b" (.tok 0), .keys, .getAll, .len]
    [.unit, .unit, .keys ["a", "b"], .map [("b", .tok 0), ("a", .tok 1)], .nat 2] = true := by decide

end Flyt.Props.C14
