import FlytModel.Proofs.BatchSeq
import FlytModel.Proofs.BatchConc
import FlytModel.Proofs.BatchBridge
import FlytModel.Proofs.BatchGated
/-!
# C09 — Stop-on-error halts the batch; unprocessed items are never reported as successes

Sequential / serial layer: closed form of the stop-mode loop, and the "never run ⇒ error slot" clause in EVERY
mode, with or without cancellation. Concurrent layer: invariants of every reachable state of the LTS.
-/
namespace Flyt.Props.C09
open Flyt Flyt.BatchSeq

/-! ## sequential execution and one worker -/

/-- **Stop mode: after the first failing item nothing is executed.** If `f` is the first item whose
    processing returns an error (items before it succeed), then — sequentially AND on the pool's serial
    schedule (one worker) — the events are exactly those of items `0..f`, so no `bexec i` with `i > f` exists;
    slot `f` holds the error; every later slot holds the "batch stopped" error. -/
theorem stop_halts_after_first_failure (kind : CtxKind) (n : NodeId) (v : Nat) (cfg : BatchCfg) (scr : BatchScript)
    (hs : cfg.stop = true) (hq : ∀ j, Quiet (scr.item j)) (items : List Result) (f : Nat) (hf : f < items.length)
    (e : ErrRoot) (hfail : (runItem kind n v cfg f items[f] (scr.item f) .live).2.2 = .error e)
    (hpre : ∀ j (hj : j < f), ∃ s, (runItem kind n v cfg j (items[j]'(by omega)) (scr.item j) .live).2.2 = .slot s) :
    let r := itemsSeq kind n v cfg scr items 0 .live
    itemsSerialPool kind n v cfg scr items 0 false .live = r ∧
    (∀ ev ∈ r.1, ∃ j, evItem ev = some j ∧ j ≤ f) ∧
    r.2.2[f]? = some (newErrorResult e) ∧
    (∀ j, f < j → j < items.length → r.2.2[j]? = some BatchSeq.stoppedSlot) ∧
    r.2.2.length = items.length := by
  intro r
  have hclosed := itemsSeq_stop kind n v cfg scr hs hq items 0 f hf ⟨e, by simpa using hfail⟩
    (fun j hj => by simpa using hpre j hj)
  have hlen : (itemRuns kind n v cfg scr (items.take (f + 1)) 0).length = f + 1 := by
    rw [itemRuns_length, List.length_take]; omega
  refine ⟨itemsSerialPool_eq_seq _ _ _ _ _ _ _ _, ?_, ?_, ?_, itemsSeq_length _ _ _ _ _ _ _ _⟩
  · intro ev hev
    have : ev ∈ (itemsSeq kind n v cfg scr (items.take (f + 1)) 0 .live).1 ∨ True := .inr trivial
    simp only [r, hclosed] at hev
    -- events of the closed form are the events of the per-item runs of items 0..f
    obtain ⟨run, hrun, hmem⟩ := List.mem_flatMap.1 hev
    obtain ⟨j, hjlt, rfl⟩ := List.getElem_of_mem hrun
    have hj : j < f + 1 := hlen ▸ hjlt
    have hget := itemRuns_getElem? kind n v cfg scr (items.take (f + 1)) 0 j
    rw [List.getElem?_eq_getElem hjlt] at hget
    cases hit : (items.take (f + 1))[j]? with
    | none => simp [hit] at hget
    | some it =>
      simp only [hit, Option.map_some, Option.some.injEq, Nat.zero_add] at hget
      rw [hget] at hmem
      exact ⟨j, runItem_evItem _ _ _ _ _ _ _ _ ev hmem, by omega⟩
  · simp only [r, hclosed]
    rw [List.getElem?_append_left (by simp [hlen]), List.getElem?_map,
      itemRuns_getElem? kind n v cfg scr (items.take (f + 1)) 0 f]
    simp [hf, hfail]
  · intro j hj1 hj2
    simp only [r, hclosed]
    have hlen' : ((itemRuns kind n v cfg scr (items.take (f + 1)) 0).map (fun r => slotOfRes r.2.2)).length = f + 1 := by
      rw [List.length_map, hlen]
    rw [List.getElem?_append_right (by rw [hlen']; omega), hlen', List.getElem?_replicate]
    rw [if_pos (by omega)]

/-- **Every mode, with or without cancellation: an item that never ran is never presented as a success.**
    For a node with an exec function and a retry budget ≥ 1: if no event of the item loop carries index `j`,
    slot `j` is an error. (Equivalently: a non-error slot belongs to an item that was executed.) -/
theorem never_run_never_success (kind : CtxKind) (n : NodeId) (v : Nat) (cfg : BatchCfg) (scr : BatchScript)
    (hb : 0 < cfg.budget) (hex : cfg.execS ≠ .absent) (items : List Result) (ctx : Ctx) (j : Nat) (hj : j < items.length)
    (hnever : itemEvents j (itemsSeq kind n v cfg scr items 0 ctx).1 = []) :
    ∃ r, (itemsSeq kind n v cfg scr items 0 ctx).2.2[j]? = some r ∧ r.isError = true := by
  have := itemsSeq_own kind n v cfg scr items 0 ctx j hj
  simp only [Nat.zero_add] at this
  rcases this with ⟨h1, h2⟩ | ⟨_, r, h2, hm⟩
  · exact ⟨_, h2, runItem_no_events_isError kind n v cfg hb hex _ _ _ _ (h1 ▸ hnever)⟩
  · exact ⟨r, h2, isMarker_isError hm⟩

/-- … and a slot that is not one of the two "never processed" error markers is the outcome of `runItem` on that
    very item's own script, whose events are in the trace: the real outcome of executing that item. -/
theorem slot_is_real_outcome_or_error (kind : CtxKind) (n : NodeId) (v : Nat) (cfg : BatchCfg) (scr : BatchScript)
    (items : List Result) (ctx : Ctx) (j : Nat) (hj : j < items.length) :
    ((itemsSeq kind n v cfg scr items 0 ctx).2.2[j]? =
        some (slotOfRes (runItem kind n v cfg j items[j] (scr.item j) .live).2.2) ∧
      itemEvents j (itemsSeq kind n v cfg scr items 0 ctx).1 = (runItem kind n v cfg j items[j] (scr.item j) .live).1) ∨
    (∃ r, (itemsSeq kind n v cfg scr items 0 ctx).2.2[j]? = some r ∧ r.isError = true) := by
  have := itemsSeq_own kind n v cfg scr items 0 ctx j hj
  simp only [Nat.zero_add] at this
  rcases this with ⟨h1, h2⟩ | ⟨_, r, h2, hm⟩
  · exact .inl ⟨h2, h1⟩
  · exact .inr ⟨r, h2, isMarker_isError hm⟩

/-- **Stop mode with arbitrary scripts (cancellation included): nothing is executed after a final failure.** A
    *final failure* is an exec call that the item's own script makes fail on its last attempt with no successful
    fallback (`Spec.isFinalFailure`). In the item loop — sequential, or the pool's serial schedule — no exec call of
    ANY item follows such a call. -/
theorem stop_mode_nothing_after_final_failure (kind : CtxKind) (n : NodeId) (v : Nat) (cfg : BatchCfg) (scr : BatchScript)
    (nn : Nat) (hs : cfg.stop = true) (items : List Result) (ctx : Ctx) (pre post : List Ev) (e : Ev)
    (hsplit : (itemsSeq kind n v cfg scr items 0 ctx).1 = pre ++ e :: post)
    (hff : Bridge.ffEv (Bridge.concCfgOf kind cfg scr nn) e = true) : ∀ x ∈ post, isBexec x = false := by
  have h := Bridge.itemsSeq_ff n v (Bridge.agrees_concCfgOf kind cfg scr nn) hs items 0 ctx
  rw [hsplit, Bridge.qafter_append] at h
  exact h.2.1.1 hff

/-- **Bridge (sequential families).** `Spec.c09` — both clauses — on `runBatch`'s own observation, evaluated as
    `Driver.FlowFam.judgeBatchRoot` does, for every context and script whose prep succeeds. -/
theorem spec_c09_holds_seq (kind : CtxKind) (n : NodeId) (v : Nat) (sid : StoreId) (cfg : BatchCfg) (scr : BatchScript)
    (ctx : Ctx) (l : List Val) (hp : scr.prep.res = .ok l) (hpost : cfg.hasPost = true) (hex : cfg.execS ≠ .absent)
    (hb : 0 < cfg.budget) :
    Spec.c09 (Bridge.concCfgOf kind cfg scr (normItems cfg.shape l).length)
      (Bridge.batchViewOf (runBatch kind n v sid cfg scr ctx).1 (runBatch kind n v sid cfg scr ctx).2.2) = true :=
  Bridge.c09_runBatch n v sid ctx hp hpost hex hb

/-! ### non-vacuity: 5 items, item 2 fails, stop mode, sequential (the F1 scenario) -/

def exCfg : BatchCfg :=
  { budget := 1, wait := 0, fb := .passThrough, conc := 0, stop := true, execS := .any, hasPost := true, shape := .anys }

def exScr : BatchScript :=
  { prep := { res := .ok [.tok 1, .tok 2, .tok 3, .tok 4, .tok 5] },
    item := fun i =>
      { exec := fun _ => if i = 2 then { res := .error 7 } else { res := .ok (.tok (100 + i)) },
        waitCancel := fun _ => false, fb := { res := .error 0 } },
    post := { res := .ok "" } }

example : ∀ j, Quiet (exScr.item j) := by
  intro j; refine ⟨fun k => ?_, fun _ => rfl, rfl⟩
  simp only [exScr]; split <;> rfl
example : exCfg.stop = true ∧ exCfg.hasPost = true ∧ exCfg.execS ≠ .absent ∧ 0 < exCfg.budget := by decide
example : (runItem .canceled 0 0 exCfg 2 (newResult (.tok 3)) (exScr.item 2) .live).2.2 = .error (.user 7) := by decide
example : (runItem .canceled 0 0 exCfg 0 (newResult (.tok 1)) (exScr.item 0) .live).2.2 = .slot (newResult (.tok 100)) ∧
    (runItem .canceled 0 0 exCfg 1 (newResult (.tok 2)) (exScr.item 1) .live).2.2 = .slot (newResult (.tok 101)) := by decide
example : Bridge.ffEv (Bridge.concCfgOf .canceled exCfg exScr 5) (.bexec 0 0 2 0 (.tok 3)) = true := by decide
example : (runBatch .canceled 0 0 0 exCfg exScr .live).1 =
    [.bprep 0 0 0, .bexec 0 0 0 0 (.tok 1), .bexec 0 0 1 0 (.tok 2), .bexec 0 0 2 0 (.tok 3),
     .bpost 0 0 0 [.res (.tok 1) none, .res (.tok 2) none, .res (.tok 3) none, .res (.tok 4) none, .res (.tok 5) none]
       [.res (.tok 100) none, .res (.tok 101) none, .res (.tok 0) (some (.user 7)),
        .res (.tok 0) (some (.fw .batchStopped)), .res (.tok 0) (some (.fw .batchStopped))]] := by decide

/-! ## concurrent execution: every worker count, every schedule -/

open Flyt.Conc Flyt.Spec

/-- **Once `shouldStop` is set (stop mode) no task passes the stop check, and the only exec calls that still
    start belong to tasks that had already passed it** — for every continuation of every schedule. Since those
    tasks are held by workers, there are at most `running.length ≤ w` of them. -/
theorem after_failure_only_committed_items_run {c : Cfg} {s s' : BState} (hr : Reachable c s) (hp : Path c s s')
    (hstop : c.stop = true) (hs : s.shouldStop = true) :
    s'.shouldStop = true ∧ (∀ j, pastStopCheck s' j → pastStopCheck s j) ∧
    (∃ new, s'.log = new ++ s.log ∧ ∀ j k, .start j k ∈ new → pastStopCheck s j ∧ j ∈ ids s) ∧
    (ids s).length ≤ c.w ∧ (ids s).Nodup := by
  obtain ⟨h1, h2, new, h3, h4⟩ := after_stop hp hstop hs
  refine ⟨h1, h2, ⟨new, h3, fun j k hjk => ⟨h4 j k hjk, ?_⟩⟩, ?_, ?_⟩
  · obtain ⟨q, hq, _⟩ := h4 j k hjk
    exact List.mem_map.2 ⟨_, hq, rfl⟩
  · have := (inv_reachable hr).workers
    simp only [ids, List.length_map]; omega
  · exact (List.nodup_append.1 (inv_reachable hr).nodup).2.1

/-- **The failing task's store step raises the flag and frees its worker**: afterwards at most `w - 1` tasks —
    those already picked up by the other `w - 1` workers — are in flight, and only they can still start.
    "Failing" = the task's `runExecWithRetries` returned an ERROR (program counter `.store r true`; batch.go raises
    `shouldStop` under `if err != nil`), which `failed_task_meaning` below spells out in terms of the item's script —
    NOT merely "the slot is an error Result" (see `error_result_value_does_not_stop`). -/
theorem failing_item_raises_stop {c : Cfg} {s s1 : BState} {i : Nat} {r : Result} (hr : Reachable c s) (hstop : c.stop = true)
    (hpc : pcOf s i = some (.store r true)) (h : apply c s (.step i) = some s1) :
    s1.shouldStop = true ∧ (ids s1).length + 1 ≤ c.w ∧ s1.slots = setSlot s.slots i r ∧
    ∀ s', Path c s1 s' → ∃ new, s'.log = new ++ s1.log ∧ ∀ j k, .start j k ∈ new → j ∈ ids s1 := by
  obtain ⟨a, b, d⟩ := failing_store hr hstop hpc h
  refine ⟨a, by simpa [ids] using b, d, fun s' hp => ?_⟩
  obtain ⟨_, _, new, h3, h4⟩ := after_stop hp hstop a
  refine ⟨new, h3, fun j k hjk => ?_⟩
  obtain ⟨q, hq, _⟩ := h4 j k hjk
  exact List.mem_map.2 ⟨_, hq, rfl⟩

/-- **What "the task failed" means, every schedule.** A task of a reachable state that is about to store `r` with the
    flag `failed`: `r` is explained by the item's own script and events (`LoopEnd`); a failed task stores an ERROR
    Result; and `failed = true` exactly when the item's retry loop was cut by cancellation before an attempt
    `k < budget`, or all `budget ≥ 1` attempts failed and there is no custom fallback / the fallback failed too
    (i.e. the last exec call was a `Spec.isFinalFailure`, or the loop was cancelled). -/
theorem failed_task_meaning {c : Cfg} {s : BState} {i : Nat} {r : Result} {failed : Bool} (hr : Reachable c s)
    (hpc : pcOf s i = some (.store r failed)) :
    LoopEnd c s.cancelled (hist s) i r failed ∧ (failed = true → r.isError = true) ∧
    (failed = true ↔
      ((s.cancelled = true ∧ ∃ k, k < c.budget ∧ itemDones (hist s) i = List.range k ∧ AllErr c i k ∧
          itemFbs (hist s) i = 0 ∧ r = newErrorResult (.ctx c.kind)) ∨
       (0 < c.budget ∧ itemDones (hist s) i = List.range c.budget ∧ AllErr c i c.budget ∧
          ((c.fb = .custom ∧ ∃ e', (c.fbOut i).res = .error e' ∧ r = newErrorResult (.user e')) ∨
           (c.fb ≠ .custom ∧ ∃ e, (c.exec i (c.budget - 1)).res = .error e ∧ r = newErrorResult (.user e)))))) := by
  have hl := store_pc_loopEnd (logInv_reachable hr) hpc
  exact ⟨hl, fun hf => by subst hf; exact hl.failed_isError, hl.failed_iff⟩

/-- **An error *Result* returned as a value (nil error) fills the slot but does not stop the batch** — in either
    mode the store step of a task whose processing returned a value leaves `shouldStop` exactly as it was. -/
theorem error_result_value_does_not_stop {c : Cfg} {s s1 : BState} {i : Nat} {r : Result}
    (hpc : pcOf s i = some (.store r false)) (h : apply c s (.step i) = some s1) :
    s1.shouldStop = s.shouldStop ∧ s1.slots = setSlot s.slots i r ∧ s1.log = s.log :=
  value_store hpc h

/-- … counted: after the failing task has stored its result, the items that still start an exec call are at most
    `w - 1` — at most one per other worker. -/
theorem at_most_one_new_item_per_other_worker {c : Cfg} {s s1 s' : BState} {i : Nat} {r : Result} (hr : Reachable c s)
    (hstop : c.stop = true) (hpc : pcOf s i = some (.store r true))
    (h : apply c s (.step i) = some s1) (hp : Path c s1 s') (new : List Obs) (hnew : s'.log = new ++ s1.log)
    (L : List Nat) (hL : L.Nodup) (hstarted : ∀ j ∈ L, ∃ k, .start j k ∈ new) : L.length + 1 ≤ c.w := by
  obtain ⟨_, b, _, d⟩ := failing_item_raises_stop hr hstop hpc h
  obtain ⟨new', h3, h4⟩ := d s' hp
  have : new' = new := List.append_cancel_right (h3.symm.trans hnew)
  subst this
  have := length_le_of_nodup_subset L (ids s1) hL (fun j hj => by
    obtain ⟨k, hk⟩ := hstarted j hj
    exact h4 j k hk)
  omega

/-- **One worker (or sequential): no item after the failing one is executed at all.** -/
theorem one_worker_nothing_runs_after_failure {c : Cfg} {s s1 s' : BState} {i : Nat} {r : Result} (hr : Reachable c s)
    (hw : c.w = 1) (hstop : c.stop = true) (hpc : pcOf s i = some (.store r true))
    (h : apply c s (.step i) = some s1) (hp : Path c s1 s') :
    ∃ new, s'.log = new ++ s1.log ∧ ∀ j k, .start j k ∉ new := by
  obtain ⟨_, b, _, d⟩ := failing_item_raises_stop hr hstop hpc h
  obtain ⟨new, h3, h4⟩ := d s' hp
  refine ⟨new, h3, fun j k hjk => ?_⟩
  have := h4 j k hjk
  have hl : (ids s1).length = 0 := by omega
  rw [List.length_eq_zero_iff.1 hl] at this
  simp at this

/-- in stop mode with the flag set, a task at the stop check ends with the "batch stopped" ERROR slot
    (never a zero, success-looking one) and logs nothing -/
theorem stopped_task_gets_error {c : Cfg} {s s' : BState} {i : Nat} (hstop : c.stop = true) (hs : s.shouldStop = true)
    (hpc : pcOf s i = some .stopCheck) (h : apply c s (.step i) = some s') :
    s'.slots = setSlot s.slots i Conc.stoppedSlot ∧ Conc.stoppedSlot.isError = true ∧ i ∉ ids s' ∧ s'.log = s.log := by
  obtain ⟨a, b, d⟩ := stopCheck_blocked hstop hs hpc h
  exact ⟨a, rfl, b, d⟩

/-- **Every mode, every schedule: never executed ⇒ error slot.** In every reachable state, a written slot whose
    item never started an exec call holds an error. -/
theorem never_executed_slot_is_error {c : Cfg} {s : BState} (hr : Reachable c s) (hex : c.execS ≠ .absent)
    (hb : 0 < c.budget) {i : Nat} {r : Result} (h : s.slots[i]? = some (some r))
    (hnever : ∀ k, .start i k ∉ hist s) : r.isError = true := by
  refine origin_unexecuted_isError ((logInv_reachable hr).slots i r h) hex hb ?_
  rw [List.eq_nil_iff_forall_not_mem]
  intro k hk
  exact hnever k (mem_itemStarts.1 hk)

/-- **Every mode, every schedule: a success-looking slot is the item's real outcome.** If slot `i` does not hold
    an error, then item `i` was executed: an exec attempt `k` of item `i` started and returned (both events are in
    the history) with exactly that value, or its fallback was called and returned exactly that value. -/
theorem ok_slot_is_real_outcome {c : Cfg} {s : BState} (hr : Reachable c s) (hex : c.execS ≠ .absent)
    (hb : 0 < c.budget) {i : Nat} {r : Result} (h : s.slots[i]? = some (some r)) (hok : r.isError = false) :
    (∃ k x, .start i k ∈ hist s ∧ .done i k ∈ hist s ∧ (c.exec i k).res = .ok x ∧ r = slotOfVal (execRet c.execS x)) ∨
    (∃ x, .fb i ∈ hist s ∧ c.fb = .custom ∧ (c.fbOut i).res = .ok x ∧ r = slotOfVal x) :=
  origin_success ((logInv_reachable hr).slots i r h) hex hb hok

/-- **Bridge (per-slot clause of `Spec.c09`, also used by `c06`/`c07`/`c11`).** Every written slot of every
    reachable state passes the driver's `slotMatches` check. -/
theorem spec_slotMatches_holds {c : Cfg} {s : BState} (hr : Reachable c s) (hex : c.execS ≠ .absent) (hb : 0 < c.budget)
    {i : Nat} {r : Result} (h : s.slots[i]? = some (some r)) : slotMatches c (hist s) i r = true :=
  reachable_slotMatches hr hex hb h

/-- **Every schedule (not only gated ones).** `Spec.c09` on the LTS observation right after post: the per-slot clause
    always, the whole predicate in continue mode. (The ordering clause in stop mode is NOT an invariant of all
    schedules — see `exConcRace` below — it is proved for the gated schedules in `spec_c09_holds_gated`.) -/
theorem spec_c09_holds_partial {c : Cfg} {s s' : BState} (items : List Val) (hr : Reachable c s) (hex : c.execS ≠ .absent)
    (hb : 0 < c.budget) (hw : apply c s .waitRet = some s') :
    ((List.range c.n).all fun i =>
        slotMatches c (viewOf s' items).events i ((viewOf s' items).slots.getD i default)) = true ∧
    (c.stop = false → Spec.c09 c (viewOf s' items) = true) :=
  Bridge.c09_viewOf_partial items hr hex hb hw

/-! ### gated schedules (`Conc.simulate`, what the driver runs) -/

/-- **Key lemma: the states the gated simulation visits are quiescent.** With enough fuel (`Conc.measure` of the
    initial state; the driver's fuel is enough, `driver_fuel_is_enough`) every state of `simulate` — after start-up
    and after each decision — has nothing internal left to do, and every task held by a worker is parked inside
    its exec callback: none is at `stopCheck` / `ctxCheck` / `loopTop` / `store`. Every mode. -/
theorem gated_states_quiescent {c : Cfg} {fuel : Nat} {ds : List Decision} {sts : List BState}
    (hfuel : Conc.measure c (init c) ≤ fuel) (h : simulate c fuel ds = some sts) {s : BState} (hs : s ∈ sts) :
    nextInternal c s = none ∧ ∀ i pc, pcOf s i = some pc → ∃ k, pc = .inExec k := by
  obtain ⟨h1, h2⟩ := Gated.simulate_quiescent hfuel h s hs
  exact ⟨h1, fun i pc hpc => Gated.quiescent_pc h2 hpc⟩

/-- the fuel `Driver/BatchFam.lean` hands to `simulate` (`50 * (n + 2) * (budget + 2) + 100`) is enough -/
theorem driver_fuel_is_enough (c : Cfg) : Conc.measure c (init c) ≤ 50 * (c.n + 2) * (c.budget + 2) + 100 :=
  Gated.driver_fuel_adequate c

/-- **Gated schedules, stop mode: no new item starts after a final failure.** In the log of every state of the gated
    simulation, no `start j 0` event follows a `done i k` event that is a final failure of item `i`
    (`Spec.isFinalFailure`: last attempt, failed, no successful fallback) — the released task runs to its store step,
    raises `shouldStop` and returns before any other task leaves the queue; whatever is taken afterwards is stopped
    at the stop check. Cancellation at any point included. -/
theorem gated_no_new_item_after_final_failure {c : Cfg} {fuel : Nat} {ds : List Decision} {sts : List BState}
    (hstop : c.stop = true) (hfuel : Conc.measure c (init c) ≤ fuel) (h : simulate c fuel ds = some sts)
    {s : BState} (hs : s ∈ sts) (p : Nat) (hp : p < (hist s).length) {i k : Nat} (hev : (hist s)[p] = .done i k)
    (hff : isFinalFailure c i k = true) : ∀ j, Obs.start j 0 ∉ (hist s).drop (p + 1) := by
  intro j hj
  have hq := (Gated.simulate_gated hstop hfuel h s hs).quiet
  have := Bridge.qafter_drop _ _ _ hq p hp (by rw [hev]; exact hff) _ hj
  simp [Gated.isStart0] at this

/-- **Bridge (gated family `gbatch`) — the full predicate.** `Spec.c09` — the per-slot clause AND the ordering clause,
    in both error-handling modes, with or without cancellation — holds of the model's observation (the LTS's own log
    as the event list, as in `C06.spec_c06_holds` / `C11.spec_c11_holds`) in every state of the gated simulation in
    which post has run; nodes with an exec function and a retry budget ≥ 1. -/
theorem spec_c09_holds_gated {c : Cfg} {fuel : Nat} {ds : List Decision} {sts : List BState} (items : List Val)
    (hfuel : Conc.measure c (init c) ≤ fuel) (h : simulate c fuel ds = some sts) (hex : c.execS ≠ .absent)
    (hb : 0 < c.budget) {s : BState} (hs : s ∈ sts) (hp : s.posted = true) :
    Spec.c09 c (viewOf s items) = true :=
  Gated.c09_viewOf_gated items hfuel h hex hb hs hp

def exConcRace : Cfg :=
  { n := 2, w := 2, cap := 4, stop := true, budget := 1, fb := .passThrough, execS := .any,
    exec := fun i _ => if i = 0 then { res := .error 5 } else { res := .ok (.tok (100 + i)) },
    fbOut := fun _ => { res := .error 0 }, kind := .canceled }

/-
`Spec.c09`'s ordering clause ("no new item after a final failure's `done` event") is NOT an invariant of all
schedules of the LTS, and is not claimed: between the return of the failing exec call and the critical section in
which its task sets `shouldStop`, another worker may legitimately pass the stop check (the property text says "once
an item has failed no further item is started *by the worker that observed it*"). The statement that holds for
every schedule is `after_failure_only_committed_items_run` above (anchored at `shouldStop = true`); the driver
evaluates `c09` on gated runs, where the failing task finishes before the next quiescent point
(`gated_no_new_item_after_final_failure`, `spec_c09_holds_gated`). The schedule below is a non-gated interleaving: item 1 starts after `done 0 0` was logged, before task 0 has stored its result.
-/
example : (do
    let s ← apply exConcRace (init exConcRace) .submit
    let s ← apply exConcRace s .submit
    let s ← apply exConcRace s .take
    let s ← apply exConcRace s .take
    let s ← apply exConcRace s (.step 0); let s ← apply exConcRace s (.step 0); let s ← apply exConcRace s (.step 0)
    let s ← apply exConcRace s (.ret 0)                       -- exec of item 0 returns its error
    let s ← apply exConcRace s (.step 1); let s ← apply exConcRace s (.step 1); let s ← apply exConcRace s (.step 1)
    pure (s.log.reverse, s.shouldStop)) = some ([.start 0 0, .done 0 0, .start 1 0], false) := by decide

/-! ### non-vacuity: 4 items, 2 workers, stop mode; item 0 fails while item 1 is parked in its exec call:
item 1 (already picked up) still finishes, items 2 and 3 get the "batch stopped" error -/

def exConc : Cfg :=
  { n := 4, w := 2, cap := 4, stop := true, budget := 1, fb := .passThrough, execS := .any,
    exec := fun i _ => if i = 0 then { res := .error 5 } else { res := .ok (.tok (100 + i)) },
    fbOut := fun _ => { res := .error 0 }, kind := .canceled }

example : ((simulate exConc 300 [.release 0, .release 1]).map fun sts =>
      sts.map fun s => (s.slots, s.shouldStop, parked s)) =
    some [([none, none, none, none], false, [(0, 0), (1, 0)]),
          ([some (newErrorResult (.user 5)), none, some (newErrorResult (.fw .batchStopped)),
            some (newErrorResult (.fw .batchStopped))], true, [(1, 0)]),
          ([some (newErrorResult (.user 5)), some (newResult (.tok 101)), some (newErrorResult (.fw .batchStopped)),
            some (newErrorResult (.fw .batchStopped))], true, [])] := by decide

-- the hypotheses of `spec_c09_holds_gated` / `gated_no_new_item_after_final_failure` on this run: enough fuel (also with
-- the driver's formula), post has run in the last state, and the log does contain a final failure followed by events
example : Conc.measure exConc (init exConc) ≤ 300 ∧ exConc.stop = true := by decide
example : ((simulate exConc 300 [.release 0, .release 1]).bind fun sts => sts.getLast?.map fun s =>
      (s.posted, hist s, isFinalFailure exConc 0 0, Spec.c09 exConc (viewOf s []))) =
    some (true, [.start 0 0, .start 1 0, .done 0 0, .done 1 0, .post], true, true) := by decide

-- the hypotheses of `failing_item_raises_stop`: task 0 FAILED and is about to store its error; its step raises the flag
example : (do
    let s ← apply exConc (init exConc) .submit
    let s ← apply exConc s .take
    let s ← apply exConc s (.step 0); let s ← apply exConc s (.step 0); let s ← apply exConc s (.step 0)
    let s ← apply exConc s (.ret 0)
    let s ← apply exConc s (.step 0)
    let s1 ← apply exConc s (.step 0)
    pure (pcOf s 0, s.shouldStop, s1.shouldStop, s1.slots)) =
    some (some (.store (newErrorResult (.user 5)) true), false, true, [some (newErrorResult (.user 5)), none, none, none]) := by
  decide
example : exConc.stop = true ∧ exConc.execS ≠ .absent ∧ 0 < exConc.budget := by decide

/-- stop mode, Result-style exec function: item 0 RETURNS an error Result as a value (nil error) -/
def exConcVal : Cfg :=
  { n := 2, w := 1, cap := 2, stop := true, budget := 1, fb := .passThrough, execS := .res,
    exec := fun i _ => if i = 0 then { res := .ok (.res Val.nil (some (.user 5))) } else { res := .ok (.tok (100 + i)) },
    fbOut := fun _ => { res := .error 0 }, kind := .canceled }

-- the hypotheses of `error_result_value_does_not_stop`: task 0 is about to store an error Result it got as a VALUE;
-- the slot is an error, the flag stays down, and the gated run goes on to execute item 1
example : (do
    let s ← apply exConcVal (init exConcVal) .submit
    let s ← apply exConcVal s .take
    let s ← apply exConcVal s (.step 0); let s ← apply exConcVal s (.step 0); let s ← apply exConcVal s (.step 0)
    let s ← apply exConcVal s (.ret 0)
    let s1 ← apply exConcVal s (.step 0)
    pure (pcOf s 0, (newErrorResult (.user 5)).isError, s1.shouldStop, s1.slots)) =
    some (some (.store (newErrorResult (.user 5)) false), true, false, [some (newErrorResult (.user 5)), none]) := by
  decide
example : ((simulate exConcVal 300 [.release 0, .release 1]).map fun sts =>
      sts.map fun s => (s.slots, s.shouldStop, parked s)) =
    some [([none, none], false, [(0, 0)]),
          ([some (newErrorResult (.user 5)), none], false, [(1, 0)]),
          ([some (newErrorResult (.user 5)), some (newResult (.tok 101))], false, [])] := by decide

end Flyt.Props.C09
