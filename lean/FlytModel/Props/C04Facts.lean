import FlytModel.Generated.Facts
/-!
# C04 — every error-wrapping site of the library is transparent (`%w`), regenerated on every run

The model reduces an error to its *root* (what `errors.Is` / `errors.As` can see). That abstraction is sound
only if every `fmt.Errorf` that receives an error consumes it with `%w`: `decide`d on the generated list of
all such call sites.
-/
namespace Flyt.Props.C04
open Flyt.Facts

theorem wrap_sites_transparent : wrapsTransparent Flyt.Generated.wrapFacts = true := by decide

/-- the list is not empty: the run paths do wrap errors -/
example : Flyt.Generated.wrapFacts.length ≥ 10 := by decide

end Flyt.Props.C04
