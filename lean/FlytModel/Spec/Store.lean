import FlytModel.Model.Store
/-!
# Property C14 as a decidable predicate on (operation sequence, observed responses)
# and the history check used for the dynamic side of C13

The reference is the *plain map* of the property text: a function `Key → Option Val` (`FMap.f`,
updated with `if x = k then … else f x`), together with a finite list `dom` that contains every key
ever written, so that `Len`/`Keys`/`GetAll` (which talk about the whole domain) are computable.
Handed-out maps are *values* (`FSt.snaps : List FMap`): a store operation never touches them, and a
mutation of a handed-out object never touches the store. Nothing here mentions the heap machine
`Store.step` of `Model/Store.lean`; the predicate is evaluated on the implementation's responses.

Order-insensitivity: `Keys`/`GetAll` answers are judged as sets (`keysOK`/`mapOK`: no duplicates,
same members, same values), a mutated keys slice as a multiset (`List.isPerm`).
-/
namespace Flyt.Spec.Store
open Flyt Flyt.Store

/-- the plain map: a function, plus a duplicate-free list covering its support -/
structure FMap where
  f : Key → Option Val
  dom : List Key

def FMap.empty : FMap := { f := fun _ => none, dom := [] }

def addDom (k : Key) (d : List Key) : List Key := if d.contains k then d else k :: d

/-- Set overwrites -/
def FMap.set (m : FMap) (k : Key) (v : Val) : FMap :=
  { f := fun x => if x = k then some v else m.f x, dom := addDom k m.dom }

/-- Delete removes -/
def FMap.del (m : FMap) (k : Key) : FMap :=
  { f := fun x => if x = k then none else m.f x, dom := m.dom }

/-- Merge overwrites key-wise -/
def FMap.merge (m g : FMap) : FMap :=
  { f := fun x => (g.f x).or (m.f x),
    dom := g.dom.foldr addDom m.dom }

/-- a map literal (a Go literal has distinct keys; for a list with repeats the first entry counts) -/
def FMap.ofList : KV → FMap
  | [] => .empty
  | (k, v) :: t => (FMap.ofList t).set k v

/-- the keys that are present -/
def FMap.support (m : FMap) : List Key := m.dom.filter fun k => (m.f k).isSome

/-- `ks` lists exactly the present keys, each once -/
def FMap.keysOK (m : FMap) (ks : List Key) : Bool :=
  decide ks.Nodup && ks.all (fun k => (m.f k).isSome) && m.support.all (fun k => ks.contains k)
    && ks.length == m.support.length

/-- `kv` has exactly the present keys, each once, each with the map's value -/
def FMap.mapOK (m : FMap) (kv : KV) : Bool :=
  m.keysOK (keysOf kv) && kv.all (fun p => m.f p.1 == some p.2)

/-- store + handed-out maps, all as values -/
structure FSt where
  cur : FMap
  snaps : List FMap

def FSt.init : FSt := { cur := .empty, snaps := [] }

/-- effect of one step on the plain map and on the handed-out values (responses play no role) -/
def fstep (s : FSt) : Op → FSt
  | .set k v => { s with cur := s.cur.set k v }
  | .getAll => { s with snaps := s.snaps ++ [s.cur] }
  | .mergeLit l => { cur := s.cur.merge (FMap.ofList l), snaps := s.snaps ++ [FMap.ofList l] }
  | .mergeSnap j =>
    match s.snaps[j]? with
    | none => s
    | some a => { s with cur := s.cur.merge a }
  | .delete k => { s with cur := s.cur.del k }
  | .clear => { s with cur := .empty }
  | .snapSet j k v =>
    match s.snaps[j]? with
    | none => s
    | some a => { s with snaps := s.snaps.set j (a.set k v) }
  | .snapDel j k =>
    match s.snaps[j]? with
    | none => s
    | some a => { s with snaps := s.snaps.set j (a.del k) }
  | .get _ | .mergeNil | .has _ | .keys | .len | .keysRepl .. | .readSnap _ | .readKeys _ => s

def fexec (s : FSt) : List Op → FSt
  | [] => s
  | op :: t => fexec (fstep s op) t

/-- is `r` the right answer to `op` in state `s`, the caller holding the keys slices `ks`? -/
def respOK (s : FSt) (ks : List (List Key)) (op : Op) (r : Resp) : Bool :=
  match op with
  | .get k => r == .got ((s.cur.f k).getD Val.nil) (s.cur.f k).isSome
  | .has k => r == .bool (s.cur.f k).isSome
  | .len => r == .nat s.cur.support.length
  | .getAll => (match r with | .map kv => s.cur.mapOK kv | _ => false)
  | .keys => (match r with | .keys l => s.cur.keysOK l | _ => false)
  | .set _ _ => r == .unit
  | .mergeNil => r == .unit
  | .mergeLit _ => r == .unit
  | .delete _ => r == .unit
  | .clear => r == .unit
  | .mergeSnap j => r == (if j < s.snaps.length then .unit else .noHandle)
  | .snapSet j _ _ => r == (if j < s.snaps.length then .unit else .noHandle)
  | .snapDel j _ => r == (if j < s.snaps.length then .unit else .noHandle)
  | .keysRepl j _ _ => r == (if j < ks.length then .unit else .noHandle)
  | .readSnap j =>
    (match s.snaps[j]? with
     | some a => (match r with | .map kv => a.mapOK kv | _ => false)
     | none => r == .noHandle)
  | .readKeys j =>
    (match ks[j]? with
     | some l => (match r with | .keys l' => l'.isPerm l | _ => false)
     | none => r == .noHandle)

/-- the caller's keys slices after the step: a fresh one is whatever `Keys` answered (it has just
    been judged by `keysOK`), `keysRepl` rewrites its own slice, nothing else changes any -/
def ksStep (ks : List (List Key)) (op : Op) (r : Resp) : List (List Key) :=
  match op with
  | .keys => (match r with | .keys l => ks ++ [l] | _ => ks)
  | .keysRepl j old new =>
    (match ks[j]? with
     | none => ks
     | some l => ks.set j (l.map (replKey old new)))
  | _ => ks

def check (s : FSt) (ks : List (List Key)) : List Op → List Resp → Bool
  | [], [] => true
  | op :: ops, r :: rs => respOK s ks op r && check (fstep s op) (ksStep ks op r) ops rs
  | _, _ => false

/-- **C14**: the responses `obs` to the sequence `ops` on a fresh store are those of a plain map,
    with every handed-out object independent of the store and of every other one. -/
def c14 (ops : List Op) (obs : List Resp) : Bool := check .init [] ops obs

/-! ### recorded concurrent histories (dynamic side of C13) -/

/-- `order` is a permutation of `0 … n-1` -/
def isPermOfRange (n : Nat) (order : List Nat) : Bool :=
  order.length == n && order.all (· < n) && decide order.Nodup

/-- real-time precedence: whenever `b` is placed after `a`, `b` did not return before `a` was invoked -/
def respectsRealTime (inv ret : List Nat) : List Nat → Bool
  | [] => true
  | a :: rest => rest.all (fun b => !(ret.getD b 0 < inv.getD a 0)) && respectsRealTime inv ret rest

/-- the claimed linearisation `order` of the history (`ops[i]` invoked at logical time `inv[i]`,
    returned `resps[i]` at `ret[i]`) is a permutation, respects real time, and read in that order the
    history is a legal sequential history of a plain map -/
def linearises (ops : List Op) (inv ret : List Nat) (resps : List Resp) (order : List Nat) : Bool :=
  let n := ops.length
  inv.length == n && ret.length == n && resps.length == n
    && isPermOfRange n order && respectsRealTime inv ret order
    && c14 (order.map fun i => ops.getD i .len) (order.map fun i => resps.getD i .junk)

end Flyt.Spec.Store
