import FlytModel.Spec.Flow
import FlytModel.Model.FlowRetry
/-!
# C02 for a flow with a retry budget, as a decidable predicate on the observation

Scenario shape (guaranteed by the generator, checked by the driver): the flow's start node `s` is a leaf with a prep
callback and NO connection leads to `s`, so every attempt of `Flow.Exec` shows as exactly one prep event of `s`: the
number of attempts is observable without running the model.
-/
namespace Flyt.Spec
open Flyt

/-- attempts of `Flow.Exec` as seen from outside: prep callbacks of the start node -/
def startPreps (s : NodeId) (tr : List Ev) : Nat :=
  (tr.filter fun e => match e with | .prep n _ _ => n == s | _ => false).length

/-- **C02** for `Run` on a flow with budget `N`: never more than `N` attempts; a run that fails with anything but the
    context's error in a cancellation-free scenario has made all `N` of them (the budget is never cut short); a run that
    succeeds with a budget has made at least one. -/
def c02Flow (N : Nat) (s : NodeId) (cancelFree : Bool) (o : RunObs) : Bool :=
  let k := startPreps s o.trace
  decide (k ≤ N) &&
    (match o.out with
     | .ok _ => N == 0 || decide (1 ≤ k)
     | .err (.ctx _) => true
     | .err _ => !cancelFree || k == N
     | _ => false)

end Flyt.Spec
