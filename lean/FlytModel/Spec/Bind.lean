import FlytModel.Model.Bind
/-!
# Property C16 as a decidable predicate on (case descriptor, observation)

Evaluated by the driver on the IMPLEMENTATION's observation.  It does not run `bindVal`: it reads the
property's clauses off the descriptor and the reported flags.

Reading of the statement used here (strict):
* no call panics or hangs, the stored value / Result value is unchanged;
* missing key, nil Result value, nil / non-pointer destination: *an* error (which one is not prescribed);
* non-nil value, valid pointer, same type: no error and the destination deep-equals the value;
* non-nil value, valid pointer, other type: error exactly when the reference errs, the destination
  deep-equals the reference destination (also after a failed decode, which may have written part of it),
  and an error wraps the reference's error (errors.As on its type, same text);
* on a non-nil value the store's and the Result's Bind report the same thing.
A stored nil is *not* constrained beyond "no panic, source unchanged" (the statement speaks of non-nil
values and nil *Result* values); what the code does with it — JSON `null` — is in the model, so a
change there shows as a correspondence disagreement, not as a violated property.  `MustBind` likewise.
-/
namespace Flyt.Spec
open Flyt.Bind

inductive Api | store | result
  deriving DecidableEq, Repr

def isErrClass : Class → Bool
  | .keyErr | .nilErr | .destErr | .marshalErr | .unmarshalErr | .otherErr => true
  | _ => false

def noPanicClass : Class → Bool
  | .panic | .timeout | .mustPanic => false
  | _ => true

/-- clauses about one `Bind` call -/
def c16Call (api : Api) (cs : Case) (o : CallObs) : Bool :=
  noPanicClass o.cls && o.srcSame &&
  (match cs.pres with
   | .missing => isErrClass o.cls
   | .nilVal =>
     (match api with
      | .result => isErrClass o.cls
      | .store => cs.dest == .ptr || isErrClass o.cls)
   | .val =>
     (match cs.dest with
      | .ptr =>
        if cs.same then o.cls == .ok && o.destSrc
        else
          (match cs.ref with
           | .ok => o.cls == .ok && o.destRef
           | .marshalErr => isErrClass o.cls && o.destRef && o.wraps
           | .unmarshalErr => isErrClass o.cls && o.destRef && o.wraps
           | .na => false)
      | _ => isErrClass o.cls))

/-- the two `Bind`s agree (class, destination flags, error transparency) -/
def sameReport (a b : CallObs) : Bool :=
  a.cls == b.cls && a.destInit == b.destInit && a.destSrc == b.destSrc && a.destRef == b.destRef
    && a.wraps == b.wraps

/-- **C16** -/
def c16 (cs : Case) (o : Obs) : Bool :=
  c16Call .store cs o.store && c16Call .result cs o.result &&
  (cs.pres != .val || sameReport o.store o.result)

/-- a case the harness can produce: a reference exists exactly for valid pointer destinations, and
    `same` is only claimed for a present value -/
def caseWf (cs : Case) : Bool :=
  (cs.dest == .ptr) == (cs.ref != .na) && (!cs.same || cs.pres == .val)

/-- the scenario reaches the identity / JSON branch -/
def c16Nontrivial (cs : Case) : Bool := cs.pres == .val && cs.dest == .ptr

end Flyt.Spec
