import FlytModel.Model.BatchConc
/-!
# Properties C06–C09, C11 as decidable predicates on what a batch run showed

A `BatchView` is what instrumented callbacks can see of one batch run, from either correspondence
family: the ordered events (exec call entered / returned, fallback ran, context cancelled, post ran),
the quiescent points of a gated run, and the arguments of post. The predicates mention only the
scenario's scripts and configuration — never the LTS.
-/
namespace Flyt.Spec
open Flyt Flyt.Conc

structure BatchView where
  events : List Obs                  -- oldest first
  /-- for gated runs: number of events before each quiescent point -/
  quiescent : List Nat
  items : List Val                   -- post's first argument (boxed Results)
  slots : List Result                -- post's second argument
  posts : Nat
  outOk : Bool
  deriving Repr

def itemStarts (ev : List Obs) (i : Nat) : List Nat :=
  ev.filterMap fun e => match e with | .start j k => if j = i then some k else none | _ => none
def itemDones (ev : List Obs) (i : Nat) : List Nat :=
  ev.filterMap fun e => match e with | .done j k => if j = i then some k else none | _ => none
def itemFbs (ev : List Obs) (i : Nat) : Nat :=
  (ev.filter fun e => match e with | .fb j => j == i | _ => false).length

def okOf (o : Out Val) : Option Val := match o.res with | .ok x => some x | .error _ => none
def errNo (o : Out Val) : Option Nat := match o.res with | .ok _ => none | .error e => some e

/-- index of the attempt that ends item i's exec phase according to its own script -/
def lastAttempt (c : Cfg) (i : Nat) : Nat :=
  match (List.range c.budget).find? (fun k => (okOf (c.exec i k)).isSome) with
  | some k => k
  | none => c.budget - 1

/-- The slot item `i` must get, as a function of *its own* script and *its own* events only:
    `none` = "any error" (the item was never executed). -/
def expectedSlot (c : Cfg) (ev : List Obs) (i : Nat) : Option Result :=
  match (itemDones ev i).getLast? with
  | none => none
  | some m =>
    match (c.exec i m).res with
    | .ok x => some (slotOfVal (execRet c.execS x))
    | .error e =>
      if m + 1 < c.budget then some (newErrorResult (.ctx c.kind))       -- cut short by cancellation
      else match c.fb with
        | .custom =>
          (match (c.fbOut i).res with
           | .ok x => some (slotOfVal x)
           | .error e' => some (newErrorResult (.user e')))
        | _ => some (newErrorResult (.user e))

def slotMatches (c : Cfg) (ev : List Obs) (i : Nat) (s : Result) : Bool :=
  match expectedSlot c ev i with
  | some r => s == r
  | none => s.isError && (itemStarts ev i).isEmpty

/-- **C06** positional results; post once, after everything, with all items in prep order -/
def c06 (c : Cfg) (items : List Val) (v : BatchView) : Bool :=
  v.posts == 1
  && v.items == items
  && v.slots.length == c.n
  && (List.range c.n).all (fun i => slotMatches c v.events i (v.slots.getD i default))
  -- post is the last event, and no exec call is still open when it runs
  && (v.events.getLast? == some .post)
  && (List.range c.n).all (fun i => (itemStarts v.events i).length == (itemDones v.events i).length)

/-- nothing cancels the context: no explicit cancel event, no exec script that cancels, and — for nodes with a
    custom fallback (the only ones whose fallback script is ever run) — no fallback script that cancels -/
def cancelFree (c : Cfg) (v : BatchView) : Bool :=
  !(v.events.any (· == .cancel))
  && (List.range c.n).all (fun i => (List.range c.budget).all fun k => !(c.exec i k).cancels)
  && (c.fb != .custom || (List.range c.n).all fun i => !(c.fbOut i).cancels)

/-- **C07** (continue mode, no cancellation): every item exactly once with its own retry budget and fallback -/
def c07 (c : Cfg) (v : BatchView) : Bool :=
  if c.stop || !cancelFree c v || c.execS == .absent || c.budget == 0 then true else
  (List.range c.n).all fun i =>
    itemStarts v.events i == List.range (lastAttempt c i + 1)
    && itemDones v.events i == List.range (lastAttempt c i + 1)
    && itemFbs v.events i ==
        (if (okOf (c.exec i (lastAttempt c i))).isNone ∧ c.fb = .custom then 1 else 0)
    && slotMatches c v.events i (v.slots.getD i default)

/-- number of exec calls in flight after each event -/
def inflightTrace (ev : List Obs) : List Nat :=
  (ev.foldl (fun (acc : Nat × List Nat) e =>
      let n := match e with
        | .start .. => acc.1 + 1
        | .done .. => acc.1 - 1
        | _ => acc.1
      (n, acc.2 ++ [n])) (0, [])).2

/-- **C08** hard bound, and at every quiescent point no worker idles while a new item still starts later -/
def c08 (c : Cfg) (sequential : Bool) (v : BatchView) : Bool :=
  (inflightTrace v.events).all (· ≤ c.w)
  -- concurrency 0: strictly one at a time, in item order
  && (!sequential ||
      ((inflightTrace v.events).all (· ≤ 1)
       && (let idx := v.events.filterMap fun e => match e with | .start i _ => some i | _ => none
           (idx.zip (idx.drop 1)).all fun (a, b) => a ≤ b)))
  && v.quiescent.all (fun q =>
      let before := v.events.take q
      let after := v.events.drop q
      let inflight := (inflightTrace before).getLast?.getD 0
      let laterNew := after.any fun e => match e with | .start _ 0 => true | _ => false
      !laterNew || inflight == c.w)

/-- is `done i k` the event at which item i's processing ends in failure (stop flag raised)? -/
def isFinalFailure (c : Cfg) (i k : Nat) : Bool :=
  match (c.exec i k).res with
  | .ok _ => false
  | .error _ =>
    k + 1 == c.budget &&
      (match c.fb with
       | .custom => (okOf (c.fbOut i)).isNone
       | _ => true)

/-- **C09** stop mode: after a failure has been handled, only items already picked up still run;
    every mode: a slot is the item's real outcome or an error. -/
def c09 (c : Cfg) (v : BatchView) : Bool :=
  ((List.range c.n).all fun i => slotMatches c v.events i (v.slots.getD i default))
  && (!c.stop ||
      -- for every final failure: items that start afterwards had been started before it
      (List.range v.events.length).all fun p =>
        match v.events.getD p .post with
        | .done i k =>
          if isFinalFailure c i k then
            -- in a gated run the failure is "handled" at the next quiescent point; in a sequential
            -- run immediately. Either way: no *new* item after it.
            let before := v.events.take (p + 1)
            (v.events.drop (p + 1)).all fun e =>
              match e with
              | .start j 0 => (itemStarts before j).contains 0
              | _ => true
          else true
        | _ => true)

/-- **C11** after the cancellation no new item and no new attempt starts; the run ends with post once and
    every never-executed item carrying an error -/
def c11 (c : Cfg) (v : BatchView) : Bool :=
  let cancelPos : Option Nat :=
    -- explicit cancel event, or the return of an exec / fallback whose script cancels
    v.events.findIdx? fun e => match e with
      | .cancel => true
      | .done i k => (c.exec i k).cancels
      | .fb i => (c.fbOut i).cancels
      | _ => false
  (match cancelPos with
   | none => true
   | some p => (v.events.drop (p + 1)).all fun e => match e with | .start .. => false | _ => true)
  && v.posts == 1 && v.outOk
  && (List.range c.n).all fun i => slotMatches c v.events i (v.slots.getD i default)

/-- **C02** per batch item (no cancellation): exactly min(k+1, N) attempts, fallback iff all failed -/
def c02Batch (c : Cfg) (v : BatchView) : Bool :=
  if !cancelFree c v || c.execS == .absent || c.budget == 0 then true else
  (List.range c.n).all fun i =>
    (itemStarts v.events i).isEmpty ||
      (itemStarts v.events i == List.range (lastAttempt c i + 1)
       && itemFbs v.events i ==
          (if (okOf (c.exec i (lastAttempt c i))).isNone ∧ c.fb = .custom then 1 else 0))

end Flyt.Spec
